(* Proofs for Properties/C08.v and C09.v about Model/Dynamic.v.
   Part A: the framework component of every dynamic solver refines the specification store
           (update results, redundant / invalid updates, re-synchronisation at queries).
   Part B: redundant updates at the encoder level.
   Part C: the cache of the preferred solver.
   Part D: the variable tables of the standard dynamic encoder (allocator invariant). *)
From Crusta Require Import Model.Dynamic Proofs.StoreBase Proofs.StoreProofs Proofs.DynDefs Proofs.DynBase.
From Coq Require Import Lia ZifyBool.

Section DynProofs.
Variable L : Type.
Variable leqb : L -> L -> bool.

Notation fw := (fw L).
Notation op := (op L).
Notation dsolver := (dsolver L).
Notation dbuf := (dbuf L).
Notation devent := (devent L).
Notation step := (step L leqb).
Notation run_ops := (run_ops L leqb).
Notation get_argument := (get_argument L leqb).
Notation ev_apply := (ev_apply L leqb).
Notation pending := (pending L).
Notation spec_fw := (spec_fw L).
Notation synced := (synced L leqb).
Notation reach := (reach L leqb).
Notation fresh_fw := (fresh_fw L leqb).

(* ================================================================ Part A *)

Lemma new_argument_existing (af : fw) l id :
  get_argument af l = Some id -> Store.new_argument L leqb af l = af.
Proof.
  unfold Store.get_argument, Store.new_argument, new_label. intros H. rewrite H.
  rewrite Nat.ltb_irrefl. destruct af; reflexivity.
Qed.

Lemma remove_argument_found (af : fw) l id :
  get_argument af l = Some id -> snd (Store.remove_argument L leqb af l) = ROk.
Proof.
  unfold Store.get_argument, Store.remove_argument, remove_label. intros H. rewrite H.
  destruct (fold_left _ _ _). reflexivity.
Qed.
Lemma remove_argument_missing (af : fw) l :
  get_argument af l = None -> Store.remove_argument L leqb af l = (af, RErr).
Proof.
  unfold Store.get_argument, Store.remove_argument, remove_label. intros H. rewrite H. reflexivity.
Qed.

(* an update that does not report Ok leaves the store EQUAL *)
Lemma step_not_ok_unchanged (f : fw) (o : op) : snd (step f o) <> ROk -> fst (step f o) = f.
Proof.
  destruct o as [l|l|a b|a b]; cbn [Store.step].
  - cbn [snd]. congruence.
  - unfold Store.remove_argument.
    destruct (remove_label L leqb (ls f) l) as [ls' [id|]] eqn:E; [|reflexivity].
    destruct (fold_left try_remove_attack _ _) as [atts' nrem'] eqn:E2.
    cbn [snd]. congruence.
  - unfold Store.new_attack.
    destruct (find_label L leqb (ls f) a) as [x|]; [|reflexivity].
    destruct (find_label L leqb (ls f) b) as [y|]; [|reflexivity].
    destruct (existsb _ _); cbn [snd fst]; congruence.
  - unfold Store.remove_attack.
    destruct (find_label L leqb (ls f) a) as [x|]; [|reflexivity].
    destruct (find_label L leqb (ls f) b) as [y|]; [|reflexivity].
    destruct (position _ (nth x (afrom f) [])) as [pf|]; [|reflexivity].
    destruct (position _ (nth y (ato f) [])) as [pt|]; [|reflexivity].
    cbn [snd]. congruence.
Qed.

(* ---- the encoder operations transform the framework exactly as the store operations *)
Lemma enc_new_argument_af af e l :
  okm (enc_new_argument L leqb af e l) (fun r => fst r = Store.new_argument L leqb af l).
Proof.
  unfold enc_new_argument. destruct (get_argument af l) as [id|] eqn:E.
  - apply okm_ret. cbn [fst]. symmetry. eapply new_argument_existing; eassumption.
  - destruct (max_argument_id L _); [|apply okm_panic].
    apply okm_bind_any. intros r. apply okm_bind_any. intros e4. apply okm_ret. reflexivity.
Qed.

Lemma enc_remove_argument_af af e l :
  okm (enc_remove_argument L leqb af e l)
      (fun r => snd r = ROk -> fst (fst r) = fst (Store.remove_argument L leqb af l)).
Proof.
  unfold enc_remove_argument. destruct (get_argument af l) as [id|] eqn:E.
  2:{ apply okm_ret. cbn [snd]. discriminate. }
  destruct (Store.remove_argument L leqb af l) as [af' [| |]] eqn:Er;
    try (apply okm_ret; cbn [snd]; discriminate).
  destruct (tbl_var _ _); [|apply okm_panic].
  apply okm_bind_any. intros e2. destruct (Nat.ltb _ _); [|apply okm_panic].
  apply okm_bind_any. intros _. apply okm_bind_any. intros e4. apply okm_ret. reflexivity.
Qed.

Lemma enc_new_attack_af af e a b :
  okm (enc_new_attack L leqb af e a b)
      (fun r => snd r = ROk -> fst (fst r) = fst (Store.new_attack L leqb af a b)).
Proof.
  unfold enc_new_attack. destruct (Store.new_attack L leqb af a b) as [af' [| |]] eqn:Er.
  - destruct (get_argument af' b); [|apply okm_panic].
    apply okm_bind_any. intros e'. apply okm_ret. reflexivity.
  - apply okm_ret. cbn [snd]. discriminate.
  - apply okm_panic.
Qed.
Lemma enc_remove_attack_af af e a b :
  okm (enc_remove_attack L leqb af e a b)
      (fun r => snd r = ROk -> fst (fst r) = fst (Store.remove_attack L leqb af a b)).
Proof.
  unfold enc_remove_attack. destruct (Store.remove_attack L leqb af a b) as [af' [| |]] eqn:Er.
  - destruct (get_argument af' b); [|apply okm_panic].
    apply okm_bind_any. intros e'. apply okm_ret. reflexivity.
  - apply okm_ret. cbn [snd]. discriminate.
  - apply okm_panic.
Qed.

Lemma att_new_argument_af af e l :
  okm (att_new_argument L leqb af e l) (fun r => fst r = Store.new_argument L leqb af l).
Proof.
  unfold att_new_argument. destruct (get_argument af l) as [id|] eqn:E.
  - apply okm_ret. cbn [fst]. symmetry. eapply new_argument_existing; eassumption.
  - destruct (a_need e || _); [apply okm_ret; reflexivity|].
    destruct (max_argument_id L _); [|apply okm_panic].
    destruct (Nat.ltb _ _); [|apply okm_panic].
    destruct (a_sem e); try (apply okm_ret; reflexivity).
    destruct (Nat.ltb _ _); [apply okm_ret; reflexivity|apply okm_panic].
Qed.
Lemma att_remove_argument_af af e l :
  okm (att_remove_argument L leqb af e l)
      (fun r => snd r = ROk -> fst (fst r) = fst (Store.remove_argument L leqb af l)).
Proof.
  unfold att_remove_argument. destruct (get_argument af l) as [id|] eqn:E.
  2:{ apply okm_ret. cbn [snd]. discriminate. }
  destruct (Store.remove_argument L leqb af l) as [af' [| |]] eqn:Er;
    try (apply okm_ret; cbn [snd]; discriminate).
  destruct (Nat.ltb id _); [|apply okm_ret; reflexivity].
  destruct (nth id _ _); [|apply okm_ret; reflexivity].
  destruct (Nat.ltb _ _); [|apply okm_panic].
  apply okm_bind_any. intros _. apply okm_ret. reflexivity.
Qed.

Lemma std_replay_af af e upd ev :
  okm (std_replay L leqb (af, e, upd) ev) (fun st => fst (fst st) = ev_apply af ev).
Proof.
  unfold std_replay. destruct ev as [l|l|a b|a b|x y z|x y z]; cbn [DynDefs.ev_apply].
  - eapply okm_bind; [apply enc_new_argument_af|]. intros r Hr.
    apply okm_bind_any. intros id. apply okm_ret. cbn [fst]. exact Hr.
  - apply okm_bind_any. intros arg_id.
    eapply okm_bind; [apply enc_remove_argument_af|]. intros r Hr.
    apply okm_unwrap_ok'. intros p Hp. apply okm_ret. cbn [fst]. rewrite Hp in Hr. cbn [fst snd] in Hr. auto.
  - eapply okm_bind; [apply enc_new_attack_af|]. intros r Hr.
    apply okm_unwrap_ok'. intros p Hp. apply okm_bind_any. intros id. apply okm_ret. cbn [fst].
    rewrite Hp in Hr. cbn [fst snd] in Hr. auto.
  - eapply okm_bind; [apply enc_remove_attack_af|]. intros r Hr.
    apply okm_unwrap_ok'. intros p Hp. apply okm_bind_any. intros id. apply okm_ret. cbn [fst].
    rewrite Hp in Hr. cbn [fst snd] in Hr. auto.
  - apply okm_ret. reflexivity.
  - apply okm_ret. reflexivity.
Qed.

Lemma att_replay_af af e ev :
  okm (att_replay L leqb (af, e) ev) (fun st => fst st = ev_apply af ev).
Proof.
  unfold att_replay. destruct ev as [l|l|a b|a b|x y z|x y z]; cbn [DynDefs.ev_apply].
  - apply att_new_argument_af.
  - eapply okm_bind; [apply att_remove_argument_af|]. intros r Hr.
    intros s p s' E. destruct r as [p0 [| |]]; cbn [unwrap_ok] in E; try discriminate E.
    unfold ret in E. injection E as <- _. cbn [fst snd] in *. auto.
  - destruct (Store.new_attack L leqb af a b) as [af' [| |]]; cbn [unwrap_ok];
      try (intros s p s' E; discriminate E).
    intros s p s' E. unfold bind, ret in E. injection E as <- _. reflexivity.
  - destruct (Store.remove_attack L leqb af a b) as [af' [| |]]; cbn [unwrap_ok];
      try (intros s p s' E; discriminate E).
    intros s p s' E. unfold bind, ret in E. injection E as <- _. reflexivity.
  - apply okm_ret. reflexivity.
  - apply okm_ret. reflexivity.
Qed.

Lemma fold_std_replay_af evs : forall st,
  okm (fold_m (std_replay L leqb) evs st) (fun st' => fst (fst st') = fold_left ev_apply evs (fst (fst st))).
Proof.
  induction evs as [|ev r IH]; intros [[af e] upd]; cbn [fold_m fold_left fst].
  - apply okm_ret. reflexivity.
  - eapply okm_bind; [apply std_replay_af|]. intros [[af1 e1] upd1] H1. cbn [fst] in H1. subst af1.
    eapply okm_weaken; [apply IH|]. intros st' H. cbn [fst] in H. exact H.
Qed.
Lemma fold_att_replay_af evs : forall st,
  okm (fold_m (att_replay L leqb) evs st) (fun st' => fst st' = fold_left ev_apply evs (fst st)).
Proof.
  induction evs as [|ev r IH]; intros [af e]; cbn [fold_m fold_left fst].
  - apply okm_ret. reflexivity.
  - eapply okm_bind; [apply att_replay_af|]. intros [af1 e1] H1. cbn [fst] in H1. subst af1.
    eapply okm_weaken; [apply IH|]. intros st' H. cbn [fst] in H. exact H.
Qed.

(* update_encoding: the solver's framework catches up with every pending event; the buffer and the
   shadow framework are untouched, the cursor moves to the end *)
Definition is_std (x : xenc) : Prop := match x with XStd _ => True | XAtt _ => False end.
Definition encoded (af : fw) (b : dbuf) (r : fw * dbuf) : Prop :=
  fst r = fold_left ev_apply (pending b) af /\
  b_buffer L (snd r) = b_buffer L b /\ b_next L (snd r) = length (b_buffer L b) /\
  b_shadow L (snd r) = b_shadow L b /\
  (is_std (b_enc L b) -> is_std (b_enc L (snd r))).

Lemma update_encoding_spec af b : okm (update_encoding L leqb af b) (encoded af b).
Proof.
  unfold update_encoding. destruct (b_enc L b) as [e|e] eqn:Ex.
  - eapply okm_bind; [apply fold_std_replay_af|]. intros [[af' e'] upd] H. cbn [fst] in H.
    apply okm_bind_any. intros e''. apply okm_ret. unfold encoded, buf_with.
    cbn [fst snd b_buffer b_next b_shadow b_enc is_std]. repeat split; auto.
  - eapply okm_bind; [apply fold_att_replay_af|]. intros [af' e'] H. cbn [fst] in H.
    apply okm_bind_any. intros e''. apply okm_ret. unfold encoded, buf_with.
    cbn [fst snd b_buffer b_next b_shadow b_enc is_std]. repeat split; auto. rewrite Ex. cbn [is_std]. auto.
Qed.

(* ---- what a query may do to the solver state *)
Definition not_dummy (k : dkind) : Prop := match k with KDummy _ => False | _ => True end.
Definition query_step (s s' : dsolver) : Prop :=
  s' = s \/
  (not_dummy (s_kind L s) /\ s_kind L s' = s_kind L s /\
   s_af L s' = fold_left ev_apply (pending (s_buf L s)) (s_af L s) /\
   exists ev, is_update_ev L ev = false /\
     b_buffer L (s_buf L s') = b_buffer L (s_buf L s) ++ [ev] /\
     b_next L (s_buf L s') = length (b_buffer L (s_buf L s)) /\
     b_shadow L (s_buf L s') = b_shadow L (s_buf L s)).

Lemma query_step_push (s : dsolver) af buf ev :
  not_dummy (s_kind L s) ->
  encoded (s_af L s) (s_buf L s) (af, buf) -> is_update_ev L ev = false ->
  query_step s {| s_kind := s_kind L s; s_af := af; s_buf := buf_push L buf ev |}.
Proof.
  intros Hnd (H1 & H2 & H3 & H4 & _) Hev. right. cbn [fst snd] in *. cbn [s_kind s_af s_buf].
  split; [exact Hnd|]. split; [reflexivity|]. split; [exact H1|]. exists ev. unfold buf_push, buf_with.
  cbn [b_buffer b_next b_shadow]. rewrite H2. auto.
Qed.

Lemma dc_query_step oracle s l : not_dummy (s_kind L s) -> okm (dc_query oracle L leqb s l) (fun r => query_step s (fst r)).
Proof.
  intros Hnd. unfold dc_query.
  destruct (is_cred L leqb (s_buf L s) l) as [[b|] [e|]];
    try (apply okm_ret; left; reflexivity).
  all: eapply okm_bind; [apply update_encoding_spec|]; intros [af buf] Henc;
    apply okm_bind_any; intros asm; apply okm_bind_any; intros v; apply okm_bind_any; intros [m|];
    [apply okm_bind_any; intros acc|]; apply okm_ret; cbn [fst]; apply query_step_push; auto.
Qed.
Lemma st_ds_query_step oracle s l : not_dummy (s_kind L s) -> okm (st_ds_query oracle L leqb s l) (fun r => query_step s (fst r)).
Proof.
  intros Hnd. unfold st_ds_query.
  destruct (is_skep L leqb (s_buf L s) l) as [[b|] [e|]];
    try (apply okm_ret; left; reflexivity).
  all: eapply okm_bind; [apply update_encoding_spec|]; intros [af buf] Henc;
    apply okm_bind_any; intros asm; apply okm_bind_any; intros v; apply okm_bind_any; intros [m|];
    [apply okm_bind_any; intros acc|apply okm_bind_any; intros id; apply okm_bind_any; intros refused];
    apply okm_ret; cbn [fst]; apply query_step_push; auto.
Qed.
Lemma pr_ds_query_step oracle fuel s l : not_dummy (s_kind L s) -> okm (pr_ds_query oracle L leqb fuel s l) (fun r => query_step s (fst r)).
Proof.
  intros Hnd. unfold pr_ds_query.
  destruct (is_skep L leqb (s_buf L s) l) as [[b|] [e|]];
    try (apply okm_ret; left; reflexivity).
  all: eapply okm_bind; [apply update_encoding_spec|]; intros [af buf] Henc;
    destruct (b_enc L buf); [|apply okm_panic];
    apply okm_bind_any; intros nv; apply okm_bind_any; intros arg_id; apply okm_bind_any;
    intros [[[[k result] acc_b] ref_b] ext];
    apply okm_bind_any; intros acc; apply okm_bind_any; intros refused; apply okm_bind_any; intros _;
    apply okm_ret; cbn [fst]; apply query_step_push; auto.
Qed.

Lemma dyn_query_step oracle thr fuel s q cert l :
  okm (dyn_query oracle L leqb thr fuel s q cert l) (fun r => query_step s (fst r)).
Proof.
  unfold dyn_query.
  assert (Hstrip : forall m : Prog.M (dsolver * answer_t),
            okm m (fun r => query_step s (fst r)) ->
            okm (r <- m ;; ret (fst r, if cert then snd r else (fst (snd r), None)))
                (fun r => query_step s (fst r))).
  { intros m Hm. eapply okm_bind; [exact Hm|]. intros r Hr. apply okm_ret. exact Hr. }
  destruct (s_kind L s) eqn:Ek, q; try apply okm_panic;
    try (apply Hstrip; first [apply dc_query_step|apply st_ds_query_step|apply pr_ds_query_step];
         rewrite Ek; exact I).
  all: apply okm_bind_any; intros id; apply okm_bind_any; intros o; apply okm_bind_any; intros a;
    apply okm_ret; left; reflexivity.
Qed.

(* ---- the invariant of Part A *)
Record frame_inv (k : dkind) (s : dsolver) (os : list op) : Prop := {
  fi_kind : s_kind L s = k;
  fi_next : b_next L (s_buf L s) <= length (b_buffer L (s_buf L s));
  fi_synced : synced s;
  fi_spec : spec_fw s = run_ops fresh_fw os }.

Lemma run_ops_snoc (f : fw) os o : run_ops f (os ++ [o]) = fst (step (run_ops f os) o).
Proof. unfold Store.run_ops. rewrite fold_left_app. reflexivity. Qed.

Lemma dyn_new_inv k : okm (dyn_new L leqb k) (fun s => frame_inv k s []).
Proof.
  assert (H : forall x, frame_inv k {| s_kind := k; s_af := empty_fw L leqb;
                 s_buf := {| b_buffer := []; b_next := 0; b_enc := x; b_shadow := empty_fw L leqb |} |} []).
  { intros x. split; cbn [s_kind s_buf s_af b_next b_buffer length]; auto.
    - unfold DynDefs.synced. cbn [s_kind s_buf s_af]. destruct k; auto.
    - unfold DynDefs.spec_fw. cbn [s_kind s_buf s_af b_shadow]. destruct k; reflexivity. }
  unfold dyn_new. destruct k; try (apply okm_bind_any; intros _); apply okm_ret; apply H.
Qed.

Lemma buf_update_spec (b : dbuf) (o : op) :
  let r := buf_update L leqb b o in
  snd r = snd (step (b_shadow L b) o) /\
  b_shadow L (fst r) = fst (step (b_shadow L b) o) /\
  b_next L (fst r) = b_next L b /\
  b_enc L (fst r) = b_enc L b /\
  ((snd r = ROk /\ exists ev, is_update_ev L ev = true /\ b_buffer L (fst r) = b_buffer L b ++ [ev] /\
                    forall af, ev_apply af ev = fst (step af o))
   \/ (snd r <> ROk /\ fst r = b)).
Proof.
  destruct o as [l|l|x y|x y]; cbn [buf_update Store.step].
  - unfold buf_with. cbn [fst snd b_shadow b_next b_enc b_buffer]. repeat split; auto.
    left. split; [reflexivity|]. exists (DNewArg L l). repeat split; auto.
  - destruct (Store.remove_argument L leqb (b_shadow L b) l) as [sh [| |]] eqn:E;
      unfold buf_with; cbn [fst snd b_shadow b_next b_enc b_buffer]; repeat split; auto.
    + left. split; [reflexivity|]. exists (DRemArg L l). repeat split; auto.
    + pose proof (step_not_ok_unchanged (b_shadow L b) (OpRemArg l)) as H. cbn [Store.step] in H.
      rewrite E in H. cbn [fst snd] in H. symmetry. apply H. discriminate.
    + right. split; [discriminate|reflexivity].
    + pose proof (step_not_ok_unchanged (b_shadow L b) (OpRemArg l)) as H. cbn [Store.step] in H.
      rewrite E in H. cbn [fst snd] in H. symmetry. apply H. discriminate.
    + right. split; [discriminate|reflexivity].
  - destruct (Store.new_attack L leqb (b_shadow L b) x y) as [sh [| |]] eqn:E;
      unfold buf_with; cbn [fst snd b_shadow b_next b_enc b_buffer]; repeat split; auto.
    + left. split; [reflexivity|]. exists (DNewAtt L x y). repeat split; auto.
    + pose proof (step_not_ok_unchanged (b_shadow L b) (OpNewAtt x y)) as H. cbn [Store.step] in H.
      rewrite E in H. cbn [fst snd] in H. symmetry. apply H. discriminate.
    + right. split; [discriminate|reflexivity].
    + pose proof (step_not_ok_unchanged (b_shadow L b) (OpNewAtt x y)) as H. cbn [Store.step] in H.
      rewrite E in H. cbn [fst snd] in H. symmetry. apply H. discriminate.
    + right. split; [discriminate|reflexivity].
  - destruct (Store.remove_attack L leqb (b_shadow L b) x y) as [sh [| |]] eqn:E;
      unfold buf_with; cbn [fst snd b_shadow b_next b_enc b_buffer]; repeat split; auto.
    + left. split; [reflexivity|]. exists (DRemAtt L x y). repeat split; auto.
    + pose proof (step_not_ok_unchanged (b_shadow L b) (OpRemAtt x y)) as H. cbn [Store.step] in H.
      rewrite E in H. cbn [fst snd] in H. symmetry. apply H. discriminate.
    + right. split; [discriminate|reflexivity].
    + pose proof (step_not_ok_unchanged (b_shadow L b) (OpRemAtt x y)) as H. cbn [Store.step] in H.
      rewrite E in H. cbn [fst snd] in H. symmetry. apply H. discriminate.
    + right. split; [discriminate|reflexivity].
Qed.

Lemma pending_snoc (b : dbuf) buffer' ev :
  b_next L b <= length (b_buffer L b) -> buffer' = b_buffer L b ++ [ev] ->
  skipn (b_next L b) buffer' = pending b ++ [ev].
Proof.
  intros Hn ->. unfold DynDefs.pending. rewrite skipn_app.
  replace (b_next L b - length (b_buffer L b)) with 0 by lia. reflexivity.
Qed.

Lemma dyn_update_inv k s os o :
  frame_inv k s os ->
  frame_inv k (fst (dyn_update L leqb s o)) (os ++ [o]) /\
  snd (dyn_update L leqb s o) = snd (step (run_ops fresh_fw os) o).
Proof.
  intros [Hk Hn Hs Hf]. unfold dyn_update.
  assert (Hbuf : match s_kind L s with KDummy _ => False | _ => True end ->
     let r := buf_update L leqb (s_buf L s) o in
     frame_inv k {| s_kind := s_kind L s; s_af := s_af L s; s_buf := fst r |} (os ++ [o]) /\
     snd r = snd (step (run_ops fresh_fw os) o)).
  { intros Hnd. pose proof (buf_update_spec (s_buf L s) o) as Hb. cbv zeta in Hb |- *.
    destruct Hb as (Hr & Hsh & Hnx & Hen & Hcase).
    assert (Hspec : b_shadow L (s_buf L s) = run_ops fresh_fw os).
    { rewrite <- Hf. unfold DynDefs.spec_fw. destruct (s_kind L s); try reflexivity. contradiction. }
    assert (Hsy : fold_left ev_apply (pending (s_buf L s)) (s_af L s) = b_shadow L (s_buf L s)).
    { unfold DynDefs.synced in Hs. destruct (s_kind L s); try exact Hs. contradiction. }
    split; [|rewrite Hr, Hspec; reflexivity].
    split; cbn [s_kind s_buf s_af].
    - exact Hk.
    - rewrite Hnx. destruct Hcase as [(_ & ev & _ & Hbf & _)|(_ & ->)]; [|exact Hn].
      rewrite Hbf, app_length. cbn [length]. lia.
    - unfold DynDefs.synced. cbn [s_kind s_buf s_af].
      assert (G : fold_left ev_apply (pending (fst (buf_update L leqb (s_buf L s) o))) (s_af L s)
                  = b_shadow L (fst (buf_update L leqb (s_buf L s) o))).
      { destruct Hcase as [(_ & ev & _ & Hbf & Hev)|(_ & ->)]; [|exact Hsy].
        unfold DynDefs.pending at 1. rewrite Hnx. rewrite (pending_snoc (s_buf L s) _ ev Hn Hbf).
        rewrite fold_left_app. cbn [fold_left]. rewrite Hsy, Hev, Hsh. reflexivity. }
      destruct (s_kind L s); try exact G. exact I.
    - unfold DynDefs.spec_fw. cbn [s_kind s_buf s_af].
      rewrite run_ops_snoc, <- Hspec.
      destruct (s_kind L s); try exact Hsh. contradiction. }
  destruct (s_kind L s) eqn:Ek; try (destruct (buf_update L leqb (s_buf L s) o) as [b r] eqn:Eb;
     cbn [fst snd] in *; apply Hbuf; exact I).
  (* the recompute wrapper *)
  destruct (step (s_af L s) o) as [af r] eqn:Est. cbn [fst snd].
  assert (Hspec : s_af L s = run_ops fresh_fw os).
  { rewrite <- Hf. unfold DynDefs.spec_fw. rewrite Ek. reflexivity. }
  split.
  - split; cbn [s_kind s_buf s_af]; auto.
    + unfold DynDefs.synced. cbn [s_kind]. exact I.
    + unfold DynDefs.spec_fw. cbn [s_kind s_af]. rewrite run_ops_snoc, <- Hspec, Est. reflexivity.
  - rewrite <- Hspec, Est. reflexivity.
Qed.

Lemma query_step_inv k s s' os : frame_inv k s os -> query_step s s' -> frame_inv k s' os.
Proof.
  intros [Hk Hn Hs Hf] [->|(Hnd & Hk' & Haf & ev & Hev & Hbf & Hnx & Hsh)]; [split; assumption|].
  split.
  - congruence.
  - rewrite Hnx, Hbf, app_length. cbn [length]. lia.
  - unfold DynDefs.synced in *. rewrite Hk'. destruct (s_kind L s); auto.
    all: unfold DynDefs.pending at 1; rewrite Hnx, Hbf, skipn_app, skipn_all, Nat.sub_diag; cbn [skipn app fold_left];
      (destruct ev; try discriminate Hev); cbn [DynDefs.ev_apply]; rewrite Haf, Hsh; exact Hs.
  - unfold DynDefs.spec_fw in *. rewrite Hk'. destruct (s_kind L s); try (rewrite Hsh; exact Hf).
    contradiction.
Qed.

(* ---- Part A, assembled *)
Theorem reach_frame_inv k s os : reach k s os -> frame_inv k s os.
Proof.
  induction 1 as [ps ps' s Hn|s os o Hr IH|s os oracle thr fuel q cert l ps ps' s' a Hr IH Hq].
  - exact (dyn_new_inv k _ _ _ Hn).
  - apply dyn_update_inv. exact IH.
  - eapply query_step_inv; [exact IH|]. exact (dyn_query_step _ _ _ _ _ _ _ _ _ _ Hq).
Qed.

(* the set-level specification gives Ok to valid and redundant updates, Err to invalid ones, and
   ignores the redundant and the invalid ones *)
Lemma s_step_classes (S : sstore L) (o : op) :
  match classify L leqb S o with
  | UValid => snd (s_step L leqb S o) = ROk
  | URedundant => s_step L leqb S o = (S, ROk)
  | UInvalid => s_step L leqb S o = (S, RErr)
  end.
Proof.
  destruct o as [l|l|a b|a b]; cbn [classify s_step].
  - destruct (s_find L leqb S l); reflexivity.
  - destruct (s_find L leqb S l); reflexivity.
  - destruct (s_find L leqb S a); [|reflexivity]. destruct (s_find L leqb S b); [|reflexivity].
    destruct (s_has_att L S _); reflexivity.
  - destruct (s_find L leqb S a); [|reflexivity]. destruct (s_find L leqb S b); [|reflexivity].
    destruct (s_has_att L S _); reflexivity.
Qed.

Hypothesis leqb_spec : forall x y, leqb x y = true <-> x = y.

Lemma fresh_reachable os : exists ls os', run_ops fresh_fw os = run_ops (fw_new_with_labels L leqb ls) os'.
Proof. exists [], os. reflexivity. Qed.

Lemma fresh_inv os : Inv L (run_ops fresh_fw os).
Proof. apply (reach_inv L leqb leqb_spec). apply fresh_reachable. Qed.

(* C09 at model level, every history, all six kinds: the update call itself reports Ok for a valid or
   redundant update and Err for an invalid one (never a panic), and the framework the solver keeps
   for the caller is the specification store after the same history *)
Theorem update_refines_spec k s os o : reach k s os ->
  let S := abs L (run_ops fresh_fw os) in
  snd (dyn_update L leqb s o) = snd (s_step L leqb S o) /\
  snd (dyn_update L leqb s o) = (match classify L leqb S o with UInvalid => RErr | _ => ROk end) /\
  spec_fw (fst (dyn_update L leqb s o)) = run_ops fresh_fw (os ++ [o]) /\
  abs L (spec_fw (fst (dyn_update L leqb s o))) =
    (match classify L leqb S o with UValid => fst (s_step L leqb S o) | _ => S end).
Proof.
  intros Hr S. pose proof (reach_frame_inv k s os Hr) as Hi.
  destruct (dyn_update_inv k s os o Hi) as [Hi' Hres].
  destruct (step_refines L leqb leqb_spec (run_ops fresh_fw os) o (fresh_reachable os)) as (H1 & H2 & H3).
  pose proof (s_step_classes S o) as Hc. fold S in H1, H2.
  assert (Hr1 : snd (dyn_update L leqb s o) = snd (s_step L leqb S o)) by congruence.
  split; [exact Hr1|]. split.
  - rewrite Hr1. destruct (classify L leqb S o); try rewrite Hc; reflexivity.
  - split; [exact (fi_spec _ _ _ Hi')|].
    rewrite (fi_spec _ _ _ Hi'), run_ops_snoc, H2.
    destruct (classify L leqb S o); try rewrite Hc; reflexivity.
Qed.

(* a query either leaves the state untouched (cache hit, recompute wrapper) or brings the solver's own
   framework to the specification store of the history so far, with nothing left to replay *)
Theorem query_resynchronises k s os oracle thr fuel q cert l ps ps' s' a :
  reach k s os ->
  dyn_query oracle L leqb thr fuel s q cert l ps = Done (s', a) ps' ->
  s' = s \/ (s_af L s' = run_ops fresh_fw os /\ b_shadow L (s_buf L s') = run_ops fresh_fw os /\
             forall ev, In ev (pending (s_buf L s')) -> is_update_ev L ev = false).
Proof.
  intros Hr Hq. pose proof (reach_frame_inv k s os Hr) as [Hk Hn Hs Hf].
  pose proof (dyn_query_step _ _ _ _ _ _ _ _ _ _ Hq) as Hqs. cbn [fst] in Hqs.
  destruct Hqs as [->|(Hnd & Hk' & Haf & ev & Hev & Hbf & Hnx & Hsh)]; [left; reflexivity|right].
  assert (Hsy : fold_left ev_apply (pending (s_buf L s)) (s_af L s) = b_shadow L (s_buf L s)).
  { unfold DynDefs.synced in Hs. destruct (s_kind L s); try exact Hs. contradiction. }
  assert (Hspec : b_shadow L (s_buf L s) = run_ops fresh_fw os).
  { rewrite <- Hf. unfold DynDefs.spec_fw. destruct (s_kind L s); try reflexivity. contradiction. }
  split; [congruence|]. split; [congruence|].
  intros ev'. unfold DynDefs.pending. rewrite Hnx, Hbf, skipn_app, skipn_all, Nat.sub_diag. cbn [skipn app].
  intros [<-|[]]. exact Hev.
Qed.

(* the recompute wrapper answers by running the static solver on the specification store itself *)
Theorem dummy_framework sm s os : reach (KDummy sm) s os -> s_af L s = run_ops fresh_fw os.
Proof.
  intros Hr. pose proof (reach_frame_inv _ s os Hr) as [Hk _ _ Hf].
  unfold DynDefs.spec_fw in Hf. rewrite Hk in Hf. exact Hf.
Qed.

(* ================================================================ Part B *)
(* a redundant new_argument is a no-op for the encoders: same state, no SAT event (what D6 violated) *)
Lemma enc_new_argument_redundant af e l id ps :
  get_argument af l = Some id -> enc_new_argument L leqb af e l ps = Done (af, e) ps.
Proof. intros H. unfold enc_new_argument. rewrite H. reflexivity. Qed.
Lemma att_new_argument_redundant af e l id ps :
  get_argument af l = Some id -> att_new_argument L leqb af e l ps = Done (af, e) ps.
Proof. intros H. unfold att_new_argument. rewrite H. reflexivity. Qed.
(* replaying a duplicate insertion only marks the argument for re-encoding of its attacker set *)
Lemma std_replay_redundant af e upd l id ps :
  get_argument af l = Some id ->
  std_replay L leqb (af, e, upd) (DNewArg L l) ps = Done (af, e, must_update upd id) ps.
Proof.
  intros H. unfold std_replay. unfold bind. rewrite (enc_new_argument_redundant af e l id ps H).
  cbn [fst snd]. rewrite H. reflexivity.
Qed.
(* at the solver level a redundant or invalid update changes nothing but (for a redundant one) the
   event buffer: the framework kept for the caller, the solver's own framework and the encoder
   are the same *)
Theorem update_touches_no_encoder s o :
  not_dummy (s_kind L s) ->
  s_af L (fst (dyn_update L leqb s o)) = s_af L s /\
  b_enc L (s_buf L (fst (dyn_update L leqb s o))) = b_enc L (s_buf L s) /\
  b_next L (s_buf L (fst (dyn_update L leqb s o))) = b_next L (s_buf L s) /\
  (snd (dyn_update L leqb s o) <> ROk -> fst (dyn_update L leqb s o) = s).
Proof.
  intros Hnd. unfold dyn_update. pose proof (buf_update_spec (s_buf L s) o) as Hb. cbv zeta in Hb.
  destruct Hb as (_ & _ & Hnx & Hen & Hcase).
  destruct (s_kind L s) eqn:Ek; try contradiction;
    destruct (buf_update L leqb (s_buf L s) o) as [b r]; cbn [fst snd s_af s_buf] in *;
    (repeat split; auto; intros Hr; destruct Hcase as [(Hok & _)|(_ & ->)]; [congruence|];
     destruct s; cbn in *; congruence).
Qed.

(* ================================================================ Part C *)
Notation refused_sound := (refused_sound L leqb).
Notation trailing := (trailing L).

Lemma label_slot_unique (sl : list (option (nat * L))) : forall i j pi pj,
  NoDup (map snd (filter_some sl)) -> nth i sl None = Some pi -> nth j sl None = Some pj ->
  snd pi = snd pj -> i = j.
Proof.
  induction sl as [|o r IH]; intros i j pi pj Hnd Hi Hj Hl.
  - destruct i; discriminate.
  - assert (Hr : NoDup (map snd (filter_some r))).
    { destruct o; cbn [filter_some map] in Hnd; [inversion Hnd|]; assumption. }
    destruct i as [|i], j as [|j]; cbn [nth] in Hi, Hj.
    + reflexivity.
    + subst o. cbn [filter_some map] in Hnd. inversion Hnd as [|? ? Hnotin _]; subst.
      exfalso. apply Hnotin. rewrite Hl. apply in_map. apply In_fs_nth. exists j; assumption.
    + subst o. cbn [filter_some map] in Hnd. inversion Hnd as [|? ? Hnotin _]; subst.
      exfalso. apply Hnotin. rewrite <- Hl. apply in_map. apply In_fs_nth. exists i; assumption.
    + f_equal. eapply IH; eassumption.
Qed.

Lemma labels_of_In (af : fw) ids : forall ls l,
  labels_of L af ids = Some ls -> In l ls -> exists i, In i ids /\ label_of L af i = Some l.
Proof.
  induction ids as [|i r IH]; intros ls l H Hin; cbn [labels_of] in H.
  - injection H as <-. destruct Hin.
  - destruct (label_of L af i) as [li|] eqn:Ei; [|discriminate].
    destruct (labels_of L af r) as [lr|] eqn:Er; [|discriminate]. injection H as <-.
    destruct Hin as [<-|Hin].
    + exists i. split; [left; reflexivity|assumption].
    + destruct (IH lr l eq_refl Hin) as (j & Hj & Hl). exists j. split; [right; assumption|assumption].
Qed.

Lemma lmem_In l ls : lmem L leqb l ls = true -> In l ls.
Proof.
  unfold lmem. rewrite existsb_exists. intros (x & Hx & Hl). apply leqb_spec in Hl. subst x. exact Hx.
Qed.

Lemma trues_In (af : fw) v i : In i (trues L af v) -> nth i v false = true.
Proof. unfold trues. rewrite filter_In, andb_true_iff. tauto. Qed.

Lemma neg_bools_nth size cur i : nth i (map negb (bools_of size cur)) false = true -> ~ In i cur.
Proof.
  unfold bools_of. rewrite map_map. intros H Hin.
  destruct (Nat.lt_ge_cases i size) as [Hlt|Hge].
  - rewrite (nth_indep _ false ((fun x => negb (memb x cur)) 0)) in H
      by (rewrite map_length, seq_length; exact Hlt).
    rewrite (map_nth (fun x => negb (memb x cur))) in H. rewrite seq_nth in H by exact Hlt.
    cbn [Nat.add] in H. apply negb_true_iff in H. unfold memb in H.
    assert (T : existsb (Nat.eqb i) cur = true) by (apply existsb_eqb_In; exact Hin). congruence.
  - rewrite nth_overflow in H by (rewrite map_length, seq_length; exact Hge). discriminate.
Qed.

(* the loop of the dynamic preferred solver: whenever it returns a counter-example extension, the
   "refused" flags it returns are raised only for ids outside that extension (what D10 violated) *)
Lemma pr_loop_refused oracle fuel (af : fw) e arg_id : forall k fm in_all missing,
  okm (pr_loop oracle L fuel af e arg_id k fm in_all missing)
      (fun res => forall x, snd res = Some x -> forall i, nth i (snd (fst res)) false = true -> ~ In i x).
Proof.
  induction fuel as [|f IH]; intros k fm in_all missing; cbn [pr_loop]; [apply okm_oof|].
  apply okm_bind_any. intros k'. destruct (k_state k').
  - destruct (negb _).
    + apply okm_ret. cbn [fst snd]. intros x Hx i Hi. injection Hx as <-. eapply neg_bools_nth; eassumption.
    + apply IH.
  - destruct (memb arg_id (k_cur k')); [apply okm_bind_any; intros _|]; apply IH.
  - apply IH.
  - apply okm_ret. cbn [snd]. discriminate.
  - apply IH.
Qed.

(* the event a preferred query appends is sound for the framework it was computed on *)
Definition pr_pushed (s : dsolver) (r : dsolver * answer_t) : Prop :=
  fst r = s \/
  exists af buf ev, encoded (s_af L s) (s_buf L s) (af, buf) /\ is_update_ev L ev = false /\
    fst r = {| s_kind := s_kind L s; s_af := af; s_buf := buf_push L buf ev |} /\
    (Inv L af -> refused_sound af ev).

Lemma pr_ds_query_pushed oracle fuel s l : okm (pr_ds_query oracle L leqb fuel s l) (pr_pushed s).
Proof.
  unfold pr_ds_query.
  destruct (is_skep L leqb (s_buf L s) l) as [[b|] [e|]];
    try (apply okm_ret; left; reflexivity).
  all: eapply okm_bind; [apply update_encoding_spec|]; intros [af buf] Henc;
    destruct (b_enc L buf); [|apply okm_panic];
    apply okm_bind_any; intros nv; apply okm_bind_any; intros arg_id;
    (eapply okm_bind; [apply pr_loop_refused|]);
    intros [[[[k result] acc_b] ref_b] ext] Hloop; cbn [fst snd] in Hloop;
    apply okm_bind_any; intros acc;
    (eapply okm_bind; [apply (okm_opt_m _ (fun refused => labels_of L af (trues L af ref_b) = Some refused)); auto|]);
    intros refused Href; apply okm_bind_any; intros _;
    apply okm_ret; right; exists af, buf, (DSkep L acc refused ext);
    (split; [exact Henc|]); (split; [reflexivity|]); (split; [reflexivity|]);
    intros Hinv; destruct ext as [x|]; cbn [DynDefs.refused_sound]; [|exact I];
    intros l0 id Hmem Hget Hin;
    apply lmem_In in Hmem;
    destruct (labels_of_In af _ _ _ Href Hmem) as (i & Hi & Hlab);
    apply trues_In in Hi;
    assert (Hii : i = id);
    [ unfold label_of in Hlab; destruct (nth i (slots (ls af)) None) as [[i' l']|] eqn:Ei; [|discriminate];
      injection Hlab as ->;
      pose proof (find_label_Some L leqb leqb_spec af l0 id Hinv Hget) as Hid;
      exact (label_slot_unique _ _ _ _ _ (inv_lab L af Hinv) Ei Hid eq_refl)
    | subst i; exact (Hloop x eq_refl id Hi Hin) ].
Qed.

Definition cache_inv (s : dsolver) : Prop :=
  (forall ev, In ev (trailing (s_buf L s)) -> refused_sound (s_af L s) ev) /\
  (trailing (s_buf L s) <> [] -> forall ev, In ev (pending (s_buf L s)) -> is_update_ev L ev = false).

Lemma trailing_snoc (buffer : list devent) ev :
  trailing_rev L (rev (buffer ++ [ev])) =
  if is_update_ev L ev then [] else ev :: trailing_rev L (rev buffer).
Proof. rewrite rev_unit. reflexivity. Qed.

Lemma fold_no_update (evs : list devent) : forall af,
  (forall ev, In ev evs -> is_update_ev L ev = false) -> fold_left ev_apply evs af = af.
Proof.
  induction evs as [|ev r IH]; intros af H; cbn [fold_left]; [reflexivity|].
  assert (He : ev_apply af ev = af).
  { pose proof (H ev (or_introl eq_refl)) as Hu. destruct ev; try discriminate Hu; reflexivity. }
  rewrite He. apply IH. intros ev' Hin. apply H. right; exact Hin.
Qed.

Lemma skep_scan_hit (rb : list devent) l b ext :
  skep_scan L leqb rb l = (Some b, Some ext) ->
  b = false /\ exists ev, In ev (trailing_rev L rb) /\
    exists acc refused, (ev = DSkep L acc refused (Some ext) \/ ev = DCred L acc refused (Some ext)) /\
                        lmem L leqb l refused = true.
Proof.
  induction rb as [|ev r IH]; cbn [skep_scan]; [discriminate|].
  destruct ev as [x|x|x y|x y|acc refused e|acc refused e]; try discriminate; cbn [trailing_rev is_update_ev].
  - destruct e as [e|].
    + destruct (lmem L leqb l refused) eqn:Em.
      * intros H. injection H as <- <-. split; [reflexivity|].
        exists (DCred L acc refused (Some e)). split; [left; reflexivity|]. exists acc, refused. auto.
      * intros H. destruct (IH H) as (Hb & ev & Hin & Hev). split; [exact Hb|]. exists ev. split; [right; exact Hin|exact Hev].
    + intros H. destruct (IH H) as (Hb & ev & Hin & Hev). split; [exact Hb|]. exists ev. split; [right; exact Hin|exact Hev].
  - destruct (lmem L leqb l acc); [discriminate|]. destruct e as [e|].
    + destruct (lmem L leqb l refused) eqn:Em.
      * intros H. injection H as <- <-. split; [reflexivity|].
        exists (DSkep L acc refused (Some e)). split; [left; reflexivity|]. exists acc, refused. auto.
      * intros H. destruct (IH H) as (Hb & ev & Hin & Hev). split; [exact Hb|]. exists ev. split; [right; exact Hin|exact Hev].
    + intros H. destruct (IH H) as (Hb & ev & Hin & Hev). split; [exact Hb|]. exists ev. split; [right; exact Hin|exact Hev].
Qed.

Lemma dyn_query_pr_pushed oracle thr fuel s q cert l :
  s_kind L s = KPr -> okm (dyn_query oracle L leqb thr fuel s q cert l) (pr_pushed s).
Proof.
  intros Hk. unfold dyn_query. rewrite Hk. destruct q; try apply okm_panic.
  eapply okm_bind; [apply pr_ds_query_pushed|]. intros r Hr. apply okm_ret. exact Hr.
Qed.

Lemma pr_cache_inv_reach k s os : reach k s os -> k = KPr -> cache_inv s.
Proof.
  induction 1 as [ps ps' s Hn|s os o Hr IH|s os oracle thr fuel q cert l ps ps' s' a Hr IH Hq]; intros ->.
  - unfold dyn_new in Hn. apply bind_Done in Hn. destruct Hn as (u & ps1 & _ & Hn).
    unfold ret in Hn. injection Hn as <- _. split; cbn [s_buf s_af]; unfold DynDefs.trailing; cbn; [tauto|congruence].
  - specialize (IH eq_refl). pose proof (reach_frame_inv _ _ _ Hr) as [Hk _ _ _].
    unfold dyn_update. rewrite Hk. pose proof (buf_update_spec (s_buf L s) o) as Hb. cbv zeta in Hb.
    destruct Hb as (_ & _ & _ & _ & Hcase).
    destruct (buf_update L leqb (s_buf L s) o) as [b r]. cbn [fst snd] in *.
    destruct Hcase as [(_ & ev & Hev & Hbf & _)|(_ & ->)]; [|exact IH].
    unfold cache_inv, DynDefs.trailing. cbn [s_buf s_af]. rewrite Hbf, trailing_snoc, Hev.
    split; [intros ev' []|congruence].
  - specialize (IH eq_refl). pose proof (reach_frame_inv _ _ _ Hr) as [Hk Hn Hs Hf].
    pose proof (dyn_query_pr_pushed _ _ _ _ _ _ _ Hk _ _ _ Hq) as Hp. unfold pr_pushed in Hp. cbn [fst] in Hp.
    destruct Hp as [->|(af & buf & ev & Henc & Hev & -> & Hsound)]; [exact IH|].
    destruct Henc as (H1 & H2 & H3 & H4 & _). cbn [fst snd] in *.
    assert (Hsy : fold_left ev_apply (pending (s_buf L s)) (s_af L s) = run_ops fresh_fw os).
    { unfold DynDefs.synced in Hs. unfold DynDefs.spec_fw in Hf. rewrite Hk in Hs, Hf. congruence. }
    destruct IH as [IH1 IH2].
    unfold cache_inv, DynDefs.trailing, DynDefs.pending, buf_push, buf_with. cbn [s_buf s_af b_buffer b_next].
    rewrite H2, trailing_snoc, Hev. split.
    + intros ev' [<-|Hin].
      * apply Hsound. rewrite H1, Hsy. apply fresh_inv.
      * assert (Hne : trailing (s_buf L s) <> []).
        { unfold DynDefs.trailing. intros E. rewrite E in Hin. destruct Hin. }
        rewrite H1, (fold_no_update _ _ (IH2 Hne)). apply IH1. exact Hin.
    + intros _ ev'. rewrite H3, skipn_app, skipn_all, Nat.sub_diag. cbn [skipn app].
      intros [<-|[]]. exact Hev.
Qed.

(* the cache of the dynamic preferred solver: in every reachable state, whatever the history and
   whatever the SAT solver answered, a certificate served from the cache for argument l is a NO
   certificate that does not contain l *)
Theorem pr_cache_sound s os l b ext :
  reach KPr s os -> is_skep L leqb (s_buf L s) l = (Some b, Some ext) ->
  b = false /\ forall id, get_argument (s_af L s) l = Some id -> ~ In id ext.
Proof.
  intros Hr Hhit. destruct (pr_cache_inv_reach _ _ _ Hr eq_refl) as [Hc _].
  unfold is_skep in Hhit. destruct (skep_scan_hit _ _ _ _ Hhit) as (Hb & ev & Hin & acc & refused & Hev & Hmem).
  split; [exact Hb|]. intros id Hget. specialize (Hc ev Hin).
  destruct Hev as [->| ->]; cbn [DynDefs.refused_sound] in Hc; exact (Hc l id Hmem Hget).
Qed.

(* ================================================================ Part D *)
(* the table invariant, split into a part that does not mention the framework and a part that ties
   the tables to the live arguments *)
Definition core (e : denc) : Prop :=
  (forall id v, tbl_var (e_a2v e) id = Some v -> nth_error (e_vars e) v = Some (VArg id)) /\
  (e_sem e <> DST -> forall id v, tbl_var (e_a2v e) id = Some v -> nth_error (e_vars e) (S v) = Some (VDisj id)) /\
  (forall id sv, tbl_var (e_a2s e) id = Some sv -> nth_error (e_vars e) sv = Some (VSel id)) /\
  (forall x, In x (e_assum e) <-> exists id sv, tbl_var (e_a2s e) id = Some sv /\ x = zlit sv) /\
  NoDup (e_assum e).
Definition live_tbl (af : fw) (e : denc) : Prop :=
  length (e_a2v e) = length (slots (ls af)) /\ length (e_a2s e) = length (slots (ls af)) /\
  (forall id, has_argument_with_id L af id = true <-> tbl_var (e_a2v e) id <> None) /\
  (forall id, tbl_var (e_a2s e) id <> None -> tbl_var (e_a2v e) id <> None).

Lemma tables_ok_split af e : tables_ok L af e <-> core e /\ live_tbl af e.
Proof.
  split.
  - intros [H1 H2 H3 H4 H5 H6 H7 H8 H9]. unfold core, live_tbl. tauto.
  - intros [(C1 & C2 & C3 & C4 & C5) (L1 & L2 & L3 & L4)]. split; assumption.
Qed.

Lemma zlit_inj a b : zlit a = zlit b -> a = b.
Proof. unfold zlit. apply Nat2Z.inj. Qed.

Lemma nth_error_lt {A} (l : list A) i x : nth_error l i = Some x -> i < length l.
Proof. intros H. apply nth_error_Some. congruence. Qed.

Lemma core_retire e id s p :
  core e -> tbl_var (e_a2s e) id = Some s -> position (Z.eqb (zlit s)) (e_assum e) = Some p ->
  core (enc_with e (e_a2v e) (set_nth id None (e_a2s e)) (set_nth s VIgnored (e_vars e))
                 (swap_remove p (e_assum e))).
Proof.
  intros (C1 & C2 & C3 & C4 & C5) Hs Hp. unfold core, enc_with.
  cbn [e_sem e_a2v e_a2s e_vars e_assum].
  pose proof (C3 _ _ Hs) as Hts. pose proof (tbl_var_lt _ _ _ Hs) as Hid.
  destruct (position_Some _ _ _ 0%Z Hp) as [Hpl Hpe]. apply Z.eqb_eq in Hpe.
  assert (Hother : forall id' sv, tbl_var (set_nth id None (e_a2s e)) id' = Some sv ->
                     id' <> id /\ tbl_var (e_a2s e) id' = Some sv /\ sv <> s).
  { intros id' sv H. destruct (Nat.eq_dec id' id) as [->|Hne].
    - rewrite tbl_var_set_eq in H by assumption. discriminate.
    - rewrite tbl_var_set_neq in H by congruence. split; [assumption|]. split; [assumption|].
      intros ->. pose proof (C3 _ _ H) as H'. congruence. }
  repeat split.
  - intros id' v H. pose proof (C1 _ _ H) as H'.
    rewrite nth_error_set_nth_neq; [assumption|]. intros ->. congruence.
  - intros Hsem id' v H. pose proof (C2 Hsem _ _ H) as H'.
    rewrite nth_error_set_nth_neq; [assumption|]. intros ->. congruence.
  - intros id' sv H. destruct (Hother _ _ H) as (_ & H' & Hne).
    rewrite nth_error_set_nth_neq by congruence. apply C3. assumption.
  - rewrite (swap_remove_In p 0%Z x _ Hpl C5). rewrite <- Hpe. intros [Hin Hne].
    apply C4 in Hin. destruct Hin as (id' & sv & H & ->). exists id', sv. split; [|reflexivity].
    rewrite tbl_var_set_neq; [assumption|]. intros <-. rewrite Hs in H. injection H as <-. congruence.
  - intros (id' & sv & H & ->). destruct (Hother _ _ H) as (_ & H' & Hne).
    rewrite (swap_remove_In p 0%Z _ _ Hpl C5). rewrite <- Hpe. split.
    + apply C4. exists id', sv. auto.
    + intros E. apply zlit_inj in E. congruence.
  - apply swap_remove_NoDup; assumption.
Qed.

Lemma core_install e id vars' sv :
  core e -> tbl_var (e_a2s e) id = None -> id < length (e_a2s e) ->
  length (e_vars e) <= sv -> nth_error vars' sv = Some (VSel id) ->
  (forall i, i < length (e_vars e) -> nth_error vars' i = nth_error (e_vars e) i) ->
  core (enc_with e (e_a2v e) (set_nth id (Some sv) (e_a2s e)) vars' (e_assum e ++ [zlit sv])).
Proof.
  intros (C1 & C2 & C3 & C4 & C5) Hnone Hid Hge Hnew Hold. unfold core, enc_with.
  cbn [e_sem e_a2v e_a2s e_vars e_assum].
  assert (Hcase : forall id' sv', tbl_var (set_nth id (Some sv) (e_a2s e)) id' = Some sv' ->
            (id' = id /\ sv' = sv) \/ (id' <> id /\ tbl_var (e_a2s e) id' = Some sv')).
  { intros id' sv' H. destruct (Nat.eq_dec id' id) as [->|Hne].
    - rewrite tbl_var_set_eq in H by assumption. injection H as <-. left. auto.
    - rewrite tbl_var_set_neq in H by congruence. right. auto. }
  repeat split.
  - intros id' v H. pose proof (C1 _ _ H) as H'. rewrite Hold; [assumption|]. eapply nth_error_lt; eassumption.
  - intros Hsem id' v H. pose proof (C2 Hsem _ _ H) as H'. rewrite Hold; [assumption|]. eapply nth_error_lt; eassumption.
  - intros id' sv' H. destruct (Hcase _ _ H) as [[-> ->]|[Hne H']]; [assumption|].
    pose proof (C3 _ _ H') as H''. rewrite Hold; [assumption|]. eapply nth_error_lt; eassumption.
  - rewrite in_app_iff. intros [Hin|[<-|[]]].
    + apply C4 in Hin. destruct Hin as (id' & sv' & H & ->). exists id', sv'. split; [|reflexivity].
      rewrite tbl_var_set_neq; [assumption|]. intros <-. congruence.
    + exists id, sv. split; [|reflexivity]. apply tbl_var_set_eq. assumption.
  - intros (id' & sv' & H & ->). rewrite in_app_iff. destruct (Hcase _ _ H) as [[-> ->]|[Hne H']].
    + right. left. reflexivity.
    + left. apply C4. exists id', sv'. auto.
  - apply NoDup_snoc; [assumption|]. intros Hin. apply C4 in Hin. destruct Hin as (id' & sv' & H & E).
    apply zlit_inj in E. subst sv'. pose proof (nth_error_lt _ _ _ (C3 _ _ H)). lia.
Qed.

Lemma core_push_arg e vars' v :
  core e -> length (e_a2v e) = length (e_a2s e) ->
  length (e_vars e) <= v -> nth_error vars' v = Some (VArg (length (e_a2v e))) ->
  (e_sem e <> DST -> nth_error vars' (S v) = Some (VDisj (length (e_a2v e)))) ->
  (forall i, i < length (e_vars e) -> nth_error vars' i = nth_error (e_vars e) i) ->
  core (enc_with e (e_a2v e ++ [Some v]) (e_a2s e ++ [None]) vars' (e_assum e)).
Proof.
  intros (C1 & C2 & C3 & C4 & C5) Hlen Hge Hnew Hdisj Hold. unfold core, enc_with.
  cbn [e_sem e_a2v e_a2s e_vars e_assum].
  assert (Hcase : forall id' v', tbl_var (e_a2v e ++ [Some v]) id' = Some v' ->
            (id' = length (e_a2v e) /\ v' = v) \/ tbl_var (e_a2v e) id' = Some v').
  { intros id' v' H. destruct (Nat.lt_trichotomy id' (length (e_a2v e))) as [Hlt|[->|Hgt]].
    - rewrite tbl_var_snoc_old in H by assumption. right. assumption.
    - rewrite tbl_var_snoc_new in H. injection H as <-. left. auto.
    - rewrite tbl_var_snoc_beyond in H by assumption. discriminate. }
  assert (Hsel : forall id' sv, tbl_var (e_a2s e ++ [None]) id' = Some sv <-> tbl_var (e_a2s e) id' = Some sv).
  { intros id' sv. destruct (Nat.lt_trichotomy id' (length (e_a2s e))) as [Hlt|[->|Hgt]].
    - rewrite tbl_var_snoc_old by assumption. tauto.
    - rewrite tbl_var_snoc_new. split; [discriminate|]. intros H. apply tbl_var_lt in H. lia.
    - rewrite tbl_var_snoc_beyond by assumption. split; [discriminate|]. intros H. apply tbl_var_lt in H. lia. }
  repeat split.
  - intros id' v' H. destruct (Hcase _ _ H) as [[-> ->]|H']; [assumption|].
    pose proof (C1 _ _ H') as H''. rewrite Hold; [assumption|]. eapply nth_error_lt; eassumption.
  - intros Hsem id' v' H. destruct (Hcase _ _ H) as [[-> ->]|H']; [auto|].
    pose proof (C2 Hsem _ _ H') as H''. rewrite Hold; [assumption|]. eapply nth_error_lt; eassumption.
  - intros id' sv H. apply Hsel in H. pose proof (C3 _ _ H) as H''.
    rewrite Hold; [assumption|]. eapply nth_error_lt; eassumption.
  - intros Hin. apply C4 in Hin. destruct Hin as (id' & sv & H & ->). exists id', sv. split; [apply Hsel; assumption|reflexivity].
  - intros (id' & sv & H & ->). apply C4. exists id', sv. split; [apply Hsel; assumption|reflexivity].
  - assumption.
Qed.

Lemma core_kill_arg e id v :
  core e -> tbl_var (e_a2v e) id = Some v ->
  core (enc_with e (set_nth id None (e_a2v e)) (e_a2s e) (set_nth v VIgnored (e_vars e)) (e_assum e)).
Proof.
  intros (C1 & C2 & C3 & C4 & C5) Hv. unfold core, enc_with.
  cbn [e_sem e_a2v e_a2s e_vars e_assum].
  pose proof (C1 _ _ Hv) as Htv. pose proof (tbl_var_lt _ _ _ Hv) as Hid.
  assert (Hother : forall id' v', tbl_var (set_nth id None (e_a2v e)) id' = Some v' ->
                     id' <> id /\ tbl_var (e_a2v e) id' = Some v' /\ v' <> v).
  { intros id' v' H. destruct (Nat.eq_dec id' id) as [->|Hne].
    - rewrite tbl_var_set_eq in H by assumption. discriminate.
    - rewrite tbl_var_set_neq in H by congruence. split; [assumption|]. split; [assumption|].
      intros ->. pose proof (C1 _ _ H) as H'. congruence. }
  repeat split; try assumption.
  - intros id' v' H. destruct (Hother _ _ H) as (_ & H' & Hne).
    rewrite nth_error_set_nth_neq by congruence. apply C1. assumption.
  - intros Hsem id' v' H. destruct (Hother _ _ H) as (_ & H' & Hne).
    pose proof (C2 Hsem _ _ H') as H''. rewrite nth_error_set_nth_neq; [assumption|]. intros E. congruence.
  - intros id' sv H. pose proof (C3 _ _ H) as H'. rewrite nth_error_set_nth_neq; [assumption|]. intros E. congruence.
  - apply C4.
  - apply C4.
Qed.

(* ---- the monadic operations, as table transformers *)
Lemma remove_selector_spec e s :
  okm (remove_selector e s)
      (fun e' => exists p, position (Z.eqb (zlit s)) (e_assum e) = Some p /\
         e' = enc_with e (e_a2v e) (e_a2s e) (set_nth s VIgnored (e_vars e)) (swap_remove p (e_assum e))).
Proof.
  unfold remove_selector. destruct (Nat.ltb _ _); [|apply okm_panic].
  apply okm_bind_any. intros _. destruct (position _ _) as [p|]; [|apply okm_panic].
  apply okm_ret. exists p. auto.
Qed.

Definition allocated (vars : list vtype) (t : vtype) (r : list vtype * nat) : Prop :=
  length vars <= snd r /\ nth_error (fst r) (snd r) = Some t /\
  (forall i, i < length vars -> nth_error (fst r) i = nth_error vars i) /\
  length (fst r) = S (snd r).

Lemma new_solver_var_spec vars t : okm (new_solver_var vars t) (allocated vars t).
Proof.
  unfold new_solver_var. apply okm_bind_any. intros nv. apply okm_ret.
  destruct (alloc_var vars nv t) as [vars' v] eqn:E.
  destruct (alloc_var_spec _ _ _ _ _ E) as (_ & H2 & H3 & H4 & H5 & _). unfold allocated. cbn [fst snd]. auto.
Qed.

(* the allocation is above everything the SAT session has seen (clauses, assumptions, reserve):
   this is the repair of D8 *)
Lemma Done_inj {A} (a b : A) (s s' : Prog.st) : Done a s = Done b s' -> a = b /\ s = s'.
Proof. intros E. injection E as -> ->. auto. Qed.

Lemma new_solver_var_run vars t ps vars' v ps' :
  new_solver_var vars t ps = Done (vars', v) ps' ->
  alloc_var vars (session_n_vars (sess ps)) t = (vars', v) /\ sess ps' = sess ps.
Proof.
  unfold new_solver_var, bind, n_vars, ret. intros E. apply Done_inj in E. destruct E as [E1 <-].
  split; [exact E1|reflexivity].
Qed.

Lemma new_solver_var_fresh vars t ps vars' v ps' :
  new_solver_var vars t ps = Done (vars', v) ps' -> session_n_vars (sess ps) < v /\ sess ps' = sess ps.
Proof.
  intros E. destruct (new_solver_var_run _ _ _ _ _ _ E) as [E1 Hs]. split; [|exact Hs].
  destruct (alloc_var_spec _ _ _ _ _ E1) as (H & _). exact H.
Qed.

Lemma alloc_arg_vars_spec sm vars id ps vars' v ps' :
  alloc_arg_vars sm vars id ps = Done (vars', v) ps' ->
  length vars <= v /\ session_n_vars (sess ps) < v /\ nth_error vars' v = Some (VArg id) /\
  (sm <> DST -> nth_error vars' (S v) = Some (VDisj id)) /\
  (forall i, i < length vars -> nth_error vars' i = nth_error vars i).
Proof.
  unfold alloc_arg_vars. intros E. apply bind_Done in E. destruct E as ([vars1 v1] & ps1 & E1 & E2).
  destruct (new_solver_var_fresh _ _ _ _ _ _ E1) as [Hf1 Hs1].
  pose proof (new_solver_var_spec _ _ _ _ _ E1) as (A1 & A2 & A3 & A4). cbn [fst snd] in *.
  destruct sm.
  2:{ apply Done_inj in E2. destruct E2 as [E2 _]. apply pair_equal_spec in E2. destruct E2 as [<- <-].
      repeat split; auto. congruence. }
  all: apply bind_Done in E2; destruct E2 as ([vars2 d] & ps2 & E2 & E3);
    destruct (new_solver_var_run _ _ _ _ _ _ E2) as [R2 Hs2];
    pose proof (new_solver_var_spec _ _ _ _ _ E2) as (B1 & B2 & B3 & B4); cbn [fst snd] in *;
    apply bind_Done in E3; destruct E3 as (u & ps3 & _ & E3);
    apply Done_inj in E3; destruct E3 as [E3 _]; apply pair_equal_spec in E3; destruct E3 as [<- <-];
    (* d = S v1: the second allocation finds the table already above n_vars *)
    assert (Hd : d = S v1);
    [ unfold alloc_var in R2; apply pair_equal_spec in R2; destruct R2 as [_ R2];
      rewrite app_length, repeat_length in R2; rewrite Hs1 in R2; lia
    | subst d; repeat split; auto;
      [ rewrite B3 by lia; exact A2
      | intros i Hi; rewrite B3 by lia; apply A3; exact Hi ] ].
Qed.

Lemma alloc_arg_vars_ok sm vars id :
  okm (alloc_arg_vars sm vars id)
      (fun r => length vars <= snd r /\ nth_error (fst r) (snd r) = Some (VArg id) /\
                (sm <> DST -> nth_error (fst r) (S (snd r)) = Some (VDisj id)) /\
                (forall i, i < length vars -> nth_error (fst r) i = nth_error vars i)).
Proof.
  intros ps [vars' v] ps' E. destruct (alloc_arg_vars_spec _ _ _ _ _ _ _ E) as (H1 & _ & H3 & H4 & H5).
  cbn [fst snd]. auto.
Qed.

Lemma tbl_var_of_nth_error t id o : nth_error t id = Some o -> tbl_var t id = o.
Proof. unfold tbl_var. intros ->. destruct o; reflexivity. Qed.

Lemma live_set_sel af e id o x y :
  live_tbl af e -> (o <> None -> tbl_var (e_a2v e) id <> None) ->
  live_tbl af (enc_with e (e_a2v e) (set_nth id o (e_a2s e)) x y).
Proof.
  intros (L1 & L2 & L3 & L4) Ho. unfold live_tbl, enc_with. cbn [e_a2v e_a2s].
  rewrite length_set_nth. repeat split; auto; try apply L3.
  intros id' H. destruct (Nat.eq_dec id' id) as [->|Hne].
  - destruct (Nat.lt_ge_cases id (length (e_a2s e))) as [Hlt|Hge].
    + rewrite tbl_var_set_eq in H by assumption. auto.
    + exfalso. apply H. unfold tbl_var. replace (nth_error (set_nth id o (e_a2s e)) id) with (@None (option nat)); [reflexivity|].
      symmetry. apply nth_error_None. rewrite length_set_nth. exact Hge.
  - rewrite tbl_var_set_neq in H by congruence. auto.
Qed.

Definition tabs (af : fw) (e : denc) : Prop := core e /\ live_tbl af e.

Lemma update_attacks_to_ok af e id :
  tabs af e -> okm (update_attacks_to L af e id) (fun e' => tabs af e' /\ e_upd e' = e_upd e /\ e_sem e' = e_sem e).
Proof.
  intros [Hc Hl]. unfold update_attacks_to. destruct (negb (e_upd e)); [apply okm_ret; unfold tabs; auto|].
  destruct (nth_error (e_a2s e) id) as [os|] eqn:En; [|apply okm_panic].
  pose proof (nth_error_lt _ _ _ En) as Hid.
  apply (okm_bind _ _ (fun e1 => tabs af e1 /\ tbl_var (e_a2s e1) id = None /\
                                 length (e_a2s e1) = length (e_a2s e) /\ e_upd e1 = e_upd e /\ e_sem e1 = e_sem e)).
  { destruct os as [s|].
    - eapply okm_bind; [apply remove_selector_spec|]. intros e' (p & Hp & ->). apply okm_ret.
      pose proof (tbl_var_of_nth_error _ _ _ En) as Hs.
      unfold enc_with at 1. cbn [e_sem e_a2v e_a2s e_vars e_assum e_upd enc_with].
      split; [split|].
      + exact (core_retire e id s p Hc Hs Hp).
      + apply (live_set_sel af e id None). exact Hl. congruence.
      + cbn [e_a2s e_upd e_sem]. rewrite tbl_var_set_eq by exact Hid. rewrite length_set_nth. auto.
    - apply okm_ret. pose proof (tbl_var_of_nth_error _ _ _ En) as Hs. unfold tabs. auto. }
  intros e1 ([Hc1 Hl1] & Hn1 & Hlen1 & Hu1 & Hs1).
  eapply okm_bind; [apply new_solver_var_spec|]. intros [vars sv] (A1 & A2 & A3 & A4). cbn [fst snd] in *.
  destruct (negb (has_argument_with_id L af id)) eqn:Eh; [apply okm_panic|].
  apply negb_false_iff in Eh.
  match goal with |- okm (match ?x with _ => _ end) _ => destruct x end; [|apply okm_panic].
  match goal with |- okm (match ?x with _ => _ end) _ => destruct x end; [|apply okm_panic].
  apply okm_bind_any. intros _. apply okm_ret.
  split; [split|].
  - apply core_install; auto. lia.
  - apply live_set_sel; [exact Hl1|]. intros _. destruct Hl1 as (_ & _ & L3 & _). apply L3. exact Eh.
  - cbn [enc_with e_upd e_sem]. auto.
Qed.

Lemma fold_update_attacks_to_ok af ids : forall e,
  tabs af e -> okm (fold_m (update_attacks_to L af) ids e)
                   (fun e' => tabs af e' /\ e_upd e' = e_upd e /\ e_sem e' = e_sem e).
Proof.
  induction ids as [|id r IH]; intros e He; cbn [fold_m].
  - apply okm_ret. auto.
  - eapply okm_bind; [apply update_attacks_to_ok; exact He|]. intros e1 (H1 & H2 & H3).
    eapply okm_weaken; [apply IH; exact H1|]. intros e2 (K1 & K2 & K3). split; [exact K1|]. split; congruence.
Qed.

(* ---- the store side of new_argument / remove_argument *)
Lemma new_argument_fresh_slots (af : fw) l :
  get_argument af l = None ->
  slots (ls (Store.new_argument L leqb af l)) = slots (ls af) ++ [Some (length (slots (ls af)), l)] /\
  max_argument_id L (Store.new_argument L leqb af l) = Some (length (slots (ls af))).
Proof.
  unfold Store.get_argument, Store.new_argument, max_argument_id, ls_max_id, new_label. intros H. rewrite H.
  destruct (Nat.ltb _ _); cbn [ls slots]; (split; [reflexivity|]).
  all: destruct (slots (ls af) ++ _) eqn:E; [destruct (slots (ls af)); discriminate|];
    rewrite <- E, app_length; cbn [length]; f_equal; lia.
Qed.

Lemma remove_argument_slots (af af' : fw) l id :
  get_argument af l = Some id -> Store.remove_argument L leqb af l = (af', ROk) ->
  slots (ls af') = set_nth id None (slots (ls af)).
Proof.
  unfold Store.get_argument, Store.remove_argument, remove_label. intros H. rewrite H.
  destruct (fold_left _ _ _). intros E. injection E as <-. reflexivity.
Qed.

Lemma has_arg_nth (af : fw) id :
  has_argument_with_id L af id = true <-> nth id (slots (ls af)) None <> None.
Proof.
  unfold has_argument_with_id, ls_has_id. destruct (nth id (slots (ls af)) None); split; congruence.
Qed.

Lemma live_tbl_ls af af' e : ls af' = ls af -> live_tbl af e -> live_tbl af' e.
Proof.
  intros Hls (L1 & L2 & L3 & L4). unfold live_tbl, has_argument_with_id in *. rewrite Hls. auto.
Qed.

Lemma new_attack_ls (af : fw) a b : ls (fst (Store.new_attack L leqb af a b)) = ls af.
Proof.
  unfold Store.new_attack. destruct (find_label L leqb (ls af) a); [|reflexivity].
  destruct (find_label L leqb (ls af) b); [|reflexivity]. destruct (existsb _ _); reflexivity.
Qed.
Lemma remove_attack_ls (af : fw) a b : ls (fst (Store.remove_attack L leqb af a b)) = ls af.
Proof.
  unfold Store.remove_attack. destruct (find_label L leqb (ls af) a); [|reflexivity].
  destruct (find_label L leqb (ls af) b); [|reflexivity].
  destruct (position _ _); [|reflexivity]. destruct (position _ _); reflexivity.
Qed.

Lemma live_push af af' e l v x y :
  live_tbl af e -> slots (ls af') = slots (ls af) ++ [Some (length (slots (ls af)), l)] ->
  live_tbl af' (enc_with e (e_a2v e ++ [Some v]) (e_a2s e ++ [None]) x y).
Proof.
  intros (L1 & L2 & L3 & L4) Hs. unfold live_tbl, enc_with. cbn [e_a2v e_a2s].
  rewrite Hs, !app_length. cbn [length]. split; [lia|]. split; [lia|]. split.
  - intros id. rewrite has_arg_nth, Hs.
    destruct (Nat.lt_trichotomy id (length (slots (ls af)))) as [Hlt|[->|Hgt]].
    + rewrite app_nth1 by assumption. rewrite tbl_var_snoc_old by lia. rewrite <- has_arg_nth. apply L3.
    + rewrite app_nth2, Nat.sub_diag by lia. cbn [nth]. rewrite <- L1, tbl_var_snoc_new. split; congruence.
    + rewrite nth_overflow by (rewrite app_length; cbn [length]; lia).
      rewrite tbl_var_snoc_beyond by lia. tauto.
  - intros id H. destruct (Nat.lt_trichotomy id (length (e_a2s e))) as [Hlt|[->|Hgt]].
    + rewrite tbl_var_snoc_old in H by assumption. rewrite tbl_var_snoc_old by lia. auto.
    + rewrite tbl_var_snoc_new in H. congruence.
    + rewrite tbl_var_snoc_beyond in H by assumption. congruence.
Qed.

Lemma live_remove af af' e id a2s' x y :
  live_tbl af e -> slots (ls af') = set_nth id None (slots (ls af)) ->
  length a2s' = length (e_a2s e) ->
  (forall id', tbl_var a2s' id' <> None -> id' <> id /\ tbl_var (e_a2s e) id' <> None) ->
  live_tbl af' (enc_with e (set_nth id None (e_a2v e)) a2s' x y).
Proof.
  intros (L1 & L2 & L3 & L4) Hs Hlen Hsel. unfold live_tbl, enc_with. cbn [e_a2v e_a2s].
  rewrite Hs, !length_set_nth. split; [assumption|]. split; [congruence|]. split.
  - intros id'. rewrite has_arg_nth, Hs. destruct (Nat.eq_dec id' id) as [->|Hne].
    + destruct (Nat.lt_ge_cases id (length (slots (ls af)))) as [Hlt|Hge].
      * rewrite nth_set_nth_eq by assumption. rewrite tbl_var_set_eq by lia. tauto.
      * rewrite nth_overflow by (rewrite length_set_nth; assumption).
        split; [congruence|]. intros H. exfalso. apply H. unfold tbl_var.
        replace (nth_error (set_nth id None (e_a2v e)) id) with (@None (option nat)); [reflexivity|].
        symmetry. apply nth_error_None. rewrite length_set_nth. lia.
    + rewrite nth_set_nth_neq by congruence. rewrite tbl_var_set_neq by congruence.
      rewrite <- has_arg_nth. apply L3.
  - intros id' H. destruct (Hsel _ H) as [Hne H']. rewrite tbl_var_set_neq by congruence. auto.
Qed.

Lemma core_drop e id :
  core e -> core (enc_with e (set_nth id None (e_a2v e)) (e_a2s e) (e_vars e) (e_assum e)).
Proof.
  intros (C1 & C2 & C3 & C4 & C5). unfold core, enc_with. cbn [e_sem e_a2v e_a2s e_vars e_assum].
  assert (Hold : forall id' v, tbl_var (set_nth id None (e_a2v e)) id' = Some v -> tbl_var (e_a2v e) id' = Some v).
  { intros id' v H. destruct (Nat.eq_dec id' id) as [->|Hne].
    - destruct (Nat.lt_ge_cases id (length (e_a2v e))) as [Hlt|Hge].
      + rewrite tbl_var_set_eq in H by assumption. discriminate.
      + apply tbl_var_lt in H. rewrite length_set_nth in H. lia.
    - rewrite tbl_var_set_neq in H by congruence. assumption. }
  repeat split; auto; try apply C4.
Qed.

Lemma core_kill_var e id v :
  core e -> nth_error (e_vars e) v = Some (VArg id) -> tbl_var (e_a2v e) id = None ->
  core (enc_with e (e_a2v e) (e_a2s e) (set_nth v VIgnored (e_vars e)) (e_assum e)).
Proof.
  intros (C1 & C2 & C3 & C4 & C5) Hv Hnone. unfold core, enc_with. cbn [e_sem e_a2v e_a2s e_vars e_assum].
  repeat split; auto; try apply C4.
  - intros id' v' H. pose proof (C1 _ _ H) as H'. rewrite nth_error_set_nth_neq; [assumption|].
    intros <-. rewrite Hv in H'. injection H' as <-. congruence.
  - intros Hsem id' v' H. pose proof (C2 Hsem _ _ H) as H'. rewrite nth_error_set_nth_neq; [assumption|].
    intros E. congruence.
  - intros id' sv H. pose proof (C3 _ _ H) as H'. rewrite nth_error_set_nth_neq; [assumption|].
    intros E. congruence.
Qed.

Lemma enc_new_argument_ok af e l :
  tabs af e ->
  okm (enc_new_argument L leqb af e l)
      (fun r => tabs (fst r) (snd r) /\ e_upd (snd r) = e_upd e /\ e_sem (snd r) = e_sem e).
Proof.
  intros [Hc Hl]. unfold enc_new_argument. destruct (get_argument af l) as [id|] eqn:Eg.
  - apply okm_ret. unfold tabs. auto.
  - destruct (new_argument_fresh_slots af l Eg) as [Hsl Hmax]. rewrite Hmax.
    pose proof Hl as (L1 & L2 & _).
    eapply okm_bind; [apply alloc_arg_vars_ok|]. intros [vars' v] (A1 & A2 & A3 & A4). cbn [fst snd] in *.
    eapply okm_bind.
    + apply update_attacks_to_ok. split.
      * apply core_push_arg; auto; try congruence; rewrite L1; auto.
      * eapply live_push; eassumption.
    + intros e4 (H1 & H2 & H3). apply okm_ret. cbn [fst snd]. split; [exact H1|].
      cbn [enc_with e_upd e_sem] in H2, H3. auto.
Qed.

Lemma enc_attack_ok_aux af af' e to_id :
  tabs af e -> ls af' = ls af ->
  okm (update_attacks_to L af' e to_id) (fun e' => tabs af' e' /\ e_upd e' = e_upd e /\ e_sem e' = e_sem e).
Proof. intros [Hc Hl] Hls. apply update_attacks_to_ok. split; [exact Hc|]. eapply live_tbl_ls; eassumption. Qed.

Definition enc3_ok (e : denc) (r : fw * denc * result) : Prop :=
  tabs (fst (fst r)) (snd (fst r)) /\ e_upd (snd (fst r)) = e_upd e /\ e_sem (snd (fst r)) = e_sem e.

Lemma enc_new_attack_ok af e a b : tabs af e -> okm (enc_new_attack L leqb af e a b) (enc3_ok e).
Proof.
  intros Ht. unfold enc_new_attack. pose proof (new_attack_ls af a b) as Hls.
  destruct (Store.new_attack L leqb af a b) as [af' [| |]]; cbn [fst] in Hls.
  - destruct (get_argument af' b); [|apply okm_panic].
    eapply okm_bind; [apply (enc_attack_ok_aux af af' e _ Ht Hls)|]. intros e' H. apply okm_ret. exact H.
  - apply okm_ret. unfold enc3_ok. cbn [fst snd]. auto.
  - apply okm_panic.
Qed.
Lemma enc_remove_attack_ok af e a b : tabs af e -> okm (enc_remove_attack L leqb af e a b) (enc3_ok e).
Proof.
  intros Ht. unfold enc_remove_attack. pose proof (remove_attack_ls af a b) as Hls.
  destruct (Store.remove_attack L leqb af a b) as [af' [| |]]; cbn [fst] in Hls.
  - destruct (get_argument af' b); [|apply okm_panic].
    eapply okm_bind; [apply (enc_attack_ok_aux af af' e _ Ht Hls)|]. intros e' H. apply okm_ret. exact H.
  - apply okm_ret. unfold enc3_ok. cbn [fst snd]. auto.
  - apply okm_panic.
Qed.

Lemma live_remove' af af' e e' id :
  live_tbl af e -> slots (ls af') = set_nth id None (slots (ls af)) ->
  e_a2v e' = set_nth id None (e_a2v e) -> length (e_a2s e') = length (e_a2s e) ->
  (forall id', tbl_var (e_a2s e') id' <> None -> id' <> id /\ tbl_var (e_a2s e) id' <> None) ->
  live_tbl af' e'.
Proof.
  intros H H0 H1 H2 H3.
  pose proof (live_remove af af' e id (e_a2s e') (e_vars e') (e_assum e') H H0 H2 H3) as K.
  unfold live_tbl, enc_with in *. cbn [e_a2v e_a2s] in K. rewrite H1. exact K.
Qed.

Lemma enc_remove_argument_ok af e l : tabs af e -> okm (enc_remove_argument L leqb af e l) (enc3_ok e).
Proof.
  intros [Hc Hl]. unfold enc_remove_argument. destruct (get_argument af l) as [arg_id|] eqn:Eg.
  2:{ apply okm_ret. unfold enc3_ok, tabs. cbn [fst snd]. auto. }
  destruct (Store.remove_argument L leqb af l) as [af' [| |]] eqn:Er;
    try (apply okm_ret; unfold enc3_ok, tabs; cbn [fst snd]; auto).
  pose proof (remove_argument_slots af af' l arg_id Eg Er) as Hsl.
  destruct (tbl_var (e_a2v e) arg_id) as [v|] eqn:Ev; [|apply okm_panic].
  pose proof Hc as (C1 & C2 & C3 & C4 & C5).
  pose proof (C1 _ _ Ev) as Htv. pose proof (tbl_var_lt _ _ _ Ev) as Hid.
  set (e1 := enc_with e (set_nth arg_id None (e_a2v e)) (e_a2s e) (e_vars e) (e_assum e)).
  assert (Hc1 : core e1) by (apply core_drop; exact Hc).
  apply (okm_bind _ _ (fun e2 => core e2 /\ e_a2v e2 = set_nth arg_id None (e_a2v e) /\
            length (e_a2s e2) = length (e_a2s e) /\
            (forall id', tbl_var (e_a2s e2) id' <> None -> id' <> arg_id /\ tbl_var (e_a2s e) id' <> None) /\
            nth_error (e_vars e2) v = Some (VArg arg_id) /\ e_upd e2 = e_upd e /\ e_sem e2 = e_sem e)).
  { destruct (nth_error (e_a2s e1) arg_id) as [[s|]|] eqn:En; [| |apply okm_panic].
    - eapply okm_bind; [apply remove_selector_spec|]. intros e' (p & Hp & ->). apply okm_ret.
      pose proof (tbl_var_of_nth_error _ _ _ En) as Hs.
      pose proof (nth_error_lt _ _ _ En) as Hlt.
      unfold enc_with at 1. cbn [e_sem e_a2v e_a2s e_vars e_assum e_upd enc_with].
      split; [exact (core_retire e1 arg_id s p Hc1 Hs Hp)|].
      cbn [e1 enc_with e_sem e_a2v e_a2s e_vars e_assum e_upd] in *.
      rewrite length_set_nth.
      split; [reflexivity|]. split; [reflexivity|]. split.
      { intros id' H. destruct (Nat.eq_dec id' arg_id) as [->|Hne].
        - rewrite tbl_var_set_eq in H by exact Hlt. congruence.
        - rewrite tbl_var_set_neq in H by congruence. auto. }
      split; [|auto].
      rewrite nth_error_set_nth_neq; [exact Htv|]. intros ->. pose proof (C3 _ _ Hs). congruence.
    - apply okm_ret. pose proof (tbl_var_of_nth_error _ _ _ En) as Hs.
      cbn [e1 enc_with e_sem e_a2v e_a2s e_vars e_assum e_upd] in *.
      split; [exact Hc1|]. split; [reflexivity|]. split; [reflexivity|]. split; [|auto].
      intros id' H. split; [|exact H]. intros ->. congruence. }
  intros e2 (Hc2 & Ha2v & Hlen & Hsel & Hv2 & Hu2 & Hs2).
  destruct (Nat.ltb v (length (e_vars e2))); [|apply okm_panic].
  apply okm_bind_any. intros _.
  eapply okm_bind.
  - apply fold_update_attacks_to_ok. split.
    + apply (core_kill_var e2 arg_id v Hc2 Hv2). rewrite Ha2v. apply tbl_var_set_eq. exact Hid.
    + eapply (live_remove' af af' e _ arg_id Hl Hsl); cbn [enc_with e_a2v e_a2s]; assumption.
  - intros e4 (H1 & H2 & H3). apply okm_ret. unfold enc3_ok. cbn [fst snd]. split; [exact H1|].
    cbn [enc_with e_upd e_sem] in H2, H3. split; congruence.
Qed.

Definition st_ok (e : denc) (st : fw * denc * list nat) : Prop :=
  tabs (fst (fst st)) (snd (fst st)) /\ e_upd (snd (fst st)) = e_upd e /\ e_sem (snd (fst st)) = e_sem e.

Lemma std_replay_ok af e upd ev : tabs af e -> okm (std_replay L leqb (af, e, upd) ev) (st_ok e).
Proof.
  intros Ht. unfold std_replay. destruct ev as [l|l|a b|a b|x y z|x y z].
  - eapply okm_bind; [apply enc_new_argument_ok; exact Ht|]. intros r Hr.
    apply okm_bind_any. intros id. apply okm_ret. exact Hr.
  - apply okm_bind_any. intros arg_id.
    eapply okm_bind; [apply enc_remove_argument_ok; exact Ht|]. intros r Hr.
    apply okm_unwrap_ok'. intros p Hp. apply okm_ret. subst r. exact Hr.
  - eapply okm_bind; [apply enc_new_attack_ok; exact Ht|]. intros r Hr.
    apply okm_unwrap_ok'. intros p Hp. apply okm_bind_any. intros id. apply okm_ret. subst r. exact Hr.
  - eapply okm_bind; [apply enc_remove_attack_ok; exact Ht|]. intros r Hr.
    apply okm_unwrap_ok'. intros p Hp. apply okm_bind_any. intros id. apply okm_ret. subst r. exact Hr.
  - apply okm_ret. unfold st_ok. cbn [fst snd]. auto.
  - apply okm_ret. unfold st_ok. cbn [fst snd]. auto.
Qed.

Lemma fold_std_replay_ok evs : forall af e upd,
  tabs af e -> okm (fold_m (std_replay L leqb) evs (af, e, upd)) (st_ok e).
Proof.
  induction evs as [|ev r IH]; intros af e upd Ht; cbn [fold_m].
  - apply okm_ret. unfold st_ok. cbn [fst snd]. auto.
  - eapply okm_bind; [apply std_replay_ok; exact Ht|]. intros [[af1 e1] upd1] (H1 & H2 & H3). cbn [fst snd] in *.
    eapply okm_weaken; [apply IH; exact H1|]. intros st (K1 & K2 & K3). split; [exact K1|]. split; congruence.
Qed.

(* the encoder state of a buffered standard solver between two calls *)
Definition enc_inv (af : fw) (b : dbuf) : Prop :=
  match b_enc L b with
  | XStd e => tables_ok L af e /\ e_upd e = false
  | XAtt _ => True
  end.

Lemma update_encoding_tables af b :
  enc_inv af b -> okm (update_encoding L leqb af b) (fun r => enc_inv (fst r) (snd r)).
Proof.
  unfold enc_inv, update_encoding. destruct (b_enc L b) as [e|e] eqn:Ex.
  - intros [Ht Hu]. apply tables_ok_split in Ht.
    eapply okm_bind; [apply fold_std_replay_ok; exact Ht|]. intros [[af' e'] upd] (H1 & H2 & H3). cbn [fst snd] in *.
    eapply okm_bind.
    + apply fold_update_attacks_to_ok. destruct H1 as [Hc Hl]. split; [exact Hc|exact Hl].
    + intros e'' (K1 & K2 & K3). apply okm_ret. cbn [fst snd buf_with b_enc].
      split; [apply tables_ok_split; exact K1|reflexivity].
  - intros _. apply okm_bind_any. intros st. apply okm_bind_any. intros e'. apply okm_ret.
    cbn [fst snd buf_with b_enc]. exact I.
Qed.

(* ---- the shape of a query's effect, generic in what is known about update_encoding *)
Definition pushed (P : fw * dbuf -> Prop) (s : dsolver) (r : dsolver * answer_t) : Prop :=
  fst r = s \/ exists af buf ev, P (af, buf) /\
    fst r = {| s_kind := s_kind L s; s_af := af; s_buf := buf_push L buf ev |}.

Lemma dc_query_shape oracle s l P :
  okm (update_encoding L leqb (s_af L s) (s_buf L s)) P -> okm (dc_query oracle L leqb s l) (pushed P s).
Proof.
  intros HP. unfold dc_query.
  destruct (is_cred L leqb (s_buf L s) l) as [[b|] [e|]];
    try (apply okm_ret; left; reflexivity).
  all: eapply okm_bind; [exact HP|]; intros [af buf] Henc;
    apply okm_bind_any; intros asm; apply okm_bind_any; intros v; apply okm_bind_any; intros [m|];
    [apply okm_bind_any; intros acc|]; apply okm_ret; right; exists af, buf; eexists; (split; [exact Henc|reflexivity]).
Qed.
Lemma st_ds_query_shape oracle s l P :
  okm (update_encoding L leqb (s_af L s) (s_buf L s)) P -> okm (st_ds_query oracle L leqb s l) (pushed P s).
Proof.
  intros HP. unfold st_ds_query.
  destruct (is_skep L leqb (s_buf L s) l) as [[b|] [e|]];
    try (apply okm_ret; left; reflexivity).
  all: eapply okm_bind; [exact HP|]; intros [af buf] Henc;
    apply okm_bind_any; intros asm; apply okm_bind_any; intros v; apply okm_bind_any; intros [m|];
    [apply okm_bind_any; intros acc|apply okm_bind_any; intros id; apply okm_bind_any; intros refused];
    apply okm_ret; right; exists af, buf; eexists; (split; [exact Henc|reflexivity]).
Qed.
Lemma pr_ds_query_shape oracle fuel s l P :
  okm (update_encoding L leqb (s_af L s) (s_buf L s)) P -> okm (pr_ds_query oracle L leqb fuel s l) (pushed P s).
Proof.
  intros HP. unfold pr_ds_query.
  destruct (is_skep L leqb (s_buf L s) l) as [[b|] [e|]];
    try (apply okm_ret; left; reflexivity).
  all: eapply okm_bind; [exact HP|]; intros [af buf] Henc;
    destruct (b_enc L buf); [|apply okm_panic];
    apply okm_bind_any; intros nv; apply okm_bind_any; intros arg_id; apply okm_bind_any;
    intros [[[[k result] acc_b] ref_b] ext];
    apply okm_bind_any; intros acc; apply okm_bind_any; intros refused; apply okm_bind_any; intros _;
    apply okm_ret; right; exists af, buf; eexists; (split; [exact Henc|reflexivity]).
Qed.
Lemma dyn_query_shape oracle thr fuel s q cert l P :
  okm (update_encoding L leqb (s_af L s) (s_buf L s)) P ->
  okm (dyn_query oracle L leqb thr fuel s q cert l) (pushed P s).
Proof.
  intros HP. unfold dyn_query.
  assert (Hstrip : forall m : Prog.M (dsolver * answer_t),
            okm m (pushed P s) ->
            okm (r <- m ;; ret (fst r, if cert then snd r else (fst (snd r), None))) (pushed P s)).
  { intros m Hm. eapply okm_bind; [exact Hm|]. intros r Hr. apply okm_ret. exact Hr. }
  destruct (s_kind L s) eqn:Ek, q; try apply okm_panic;
    try (apply Hstrip; first [apply dc_query_shape|apply st_ds_query_shape|apply pr_ds_query_shape]; exact HP).
  all: apply okm_bind_any; intros id; apply okm_bind_any; intros o; apply okm_bind_any; intros a;
    apply okm_ret; left; reflexivity.
Qed.

Lemma enc_inv_reach k s os : reach k s os -> not_dummy k -> enc_inv (s_af L s) (s_buf L s).
Proof.
  induction 1 as [ps ps' s Hn|s os o Hr IH|s os oracle thr fuel q cert l ps ps' s' a Hr IH Hq]; intros Hnd.
  - assert (T : forall id, tbl_var [] id = None) by (intros [|id]; reflexivity).
    assert (H0 : forall sm, enc_inv (empty_fw L leqb)
              {| b_buffer := []; b_next := 0; b_enc := XStd (enc_enable (enc_new sm) false); b_shadow := empty_fw L leqb |}).
    { intros sm. unfold enc_inv. cbn [b_enc]. split; [|reflexivity]. apply tables_ok_split. split.
      - unfold core, enc_enable, enc_new. cbn [e_sem e_a2v e_a2s e_vars e_assum].
        split; [intros id v H; rewrite T in H; discriminate|].
        split; [intros _ id v H; rewrite T in H; discriminate|].
        split; [intros id v H; rewrite T in H; discriminate|].
        split; [|constructor].
        intros x. split; [intros []|]. intros (id & sv & H & _). rewrite T in H. discriminate.
      - unfold live_tbl, enc_enable, enc_new. cbn [e_a2v e_a2s].
        split; [reflexivity|]. split; [reflexivity|]. split.
        + intros id. rewrite has_arg_nth, T. cbn. destruct id; split; congruence.
        + intros id H. rewrite T in H. congruence. }
    unfold dyn_new in Hn. destruct k.
    1-3: apply bind_Done in Hn; destruct Hn as (u & ps1 & _ & Hn); apply Done_inj in Hn; destruct Hn as [<- _];
         cbn [s_af s_buf]; apply H0.
    1-2: apply bind_Done in Hn; destruct Hn as (u & ps1 & _ & Hn); apply Done_inj in Hn; destruct Hn as [<- _];
         cbn [s_af s_buf]; unfold enc_inv; cbn [b_enc]; exact I.
    destruct Hnd.
  - specialize (IH Hnd). pose proof (reach_frame_inv _ _ _ Hr) as [Hk _ _ _].
    pose proof (buf_update_spec (s_buf L s) o) as Hb. cbv zeta in Hb. destruct Hb as (_ & _ & _ & Hen & _).
    unfold dyn_update. rewrite Hk. unfold enc_inv in *.
    destruct k; try contradiction;
      destruct (buf_update L leqb (s_buf L s) o) as [b r]; cbn [fst snd s_af s_buf] in *; rewrite Hen; exact IH.
  - specialize (IH Hnd).
    pose proof (dyn_query_shape oracle thr fuel s q cert l _ (update_encoding_tables _ _ IH) _ _ _ Hq) as Hp.
    unfold pushed in Hp. cbn [fst] in Hp.
    destruct Hp as [->|(af & buf & ev & Hinv & ->)]; [exact IH|].
    cbn [s_af s_buf fst snd] in *. unfold enc_inv, buf_push, buf_with in *. cbn [b_enc]. exact Hinv.
Qed.

(* Part D, assembled: in every reachable state of the complete, stable and preferred dynamic solvers
   the encoder's tables are consistent with the solver's own framework *)
Theorem std_tables_reach k s os e :
  reach k s os -> b_enc L (s_buf L s) = XStd e -> not_dummy k ->
  tables_ok L (s_af L s) e /\ e_upd e = false.
Proof.
  intros Hr He Hnd. pose proof (enc_inv_reach _ _ _ Hr Hnd) as H. unfold enc_inv in H. rewrite He in H. exact H.
Qed.

(* consequences of the table invariant: the variables in use never collide *)
Theorem tables_distinct (af : fw) e :
  tables_ok L af e ->
  (forall i j v, tbl_var (e_a2v e) i = Some v -> tbl_var (e_a2v e) j = Some v -> i = j) /\
  (forall i j v, tbl_var (e_a2s e) i = Some v -> tbl_var (e_a2s e) j = Some v -> i = j) /\
  (forall i j v w, tbl_var (e_a2v e) i = Some v -> tbl_var (e_a2s e) j = Some w -> v <> w) /\
  (e_sem e <> DST -> forall i j v w, tbl_var (e_a2v e) i = Some v -> tbl_var (e_a2v e) j = Some w -> S v <> w) /\
  (e_sem e <> DST -> forall i j v w, tbl_var (e_a2v e) i = Some v -> tbl_var (e_a2s e) j = Some w -> S v <> w) /\
  (forall i v, tbl_var (e_a2v e) i = Some v -> v < length (e_vars e)) /\
  (forall i w, tbl_var (e_a2s e) i = Some w -> w < length (e_vars e)).
Proof.
  intros [_ _ T2 T7 T3 _ _ _ _]. repeat split.
  - intros i j v Hi Hj. pose proof (T2 _ _ Hi). pose proof (T2 _ _ Hj). congruence.
  - intros i j v Hi Hj. pose proof (T3 _ _ Hi). pose proof (T3 _ _ Hj). congruence.
  - intros i j v w Hi Hj ->. pose proof (T2 _ _ Hi). pose proof (T3 _ _ Hj). congruence.
  - intros Hs i j v w Hi Hj <-. pose proof (T7 Hs _ _ Hi). pose proof (T2 _ _ Hj). congruence.
  - intros Hs i j v w Hi Hj <-. pose proof (T7 Hs _ _ Hi). pose proof (T3 _ _ Hj). congruence.
  - intros i v H. eapply nth_error_lt. apply (T2 _ _ H).
  - intros i w H. eapply nth_error_lt. apply (T3 _ _ H).
Qed.

(* ---- split_in_extension on the dynamic framework covers every live argument (what D9 violated):
   whatever the ids look like (sparse, above the live count), the literal of each live argument
   lands on the side its membership in the current set dictates *)
Lemma tbl_vars_In t ids : forall vs id,
  tbl_vars t ids = Some vs -> In id ids -> exists v, tbl_var t id = Some v /\ In v vs.
Proof.
  induction ids as [|i r IH]; intros vs id H Hin; [destruct Hin|]. cbn [tbl_vars] in H.
  destruct (tbl_var t i) as [v|] eqn:Ev; [|discriminate].
  destruct (tbl_vars t r) as [l|] eqn:El; [|discriminate]. injection H as <-.
  destruct Hin as [<-|Hin].
  - exists v. split; [assumption|left; reflexivity].
  - destruct (IH l id eq_refl Hin) as (w & Hw & Hin'). exists w. split; [assumption|right; assumption].
Qed.

Theorem dyn_split_covers (af : fw) e cur ins outs id v :
  dyn_split L af e cur = Some (ins, outs) ->
  has_argument_with_id L af id = true -> tbl_var (e_a2v e) id = Some v ->
  (memb id cur = true /\ In (zlit v) ins) \/ (memb id cur = false /\ In (zlit v) outs).
Proof.
  unfold dyn_split. intros H Hlive Hv.
  set (n_ids := match max_argument_id L af with Some m => S m | None => 0 end) in H.
  set (size := fold_left (fun acc a => Nat.max acc (S a)) cur (Nat.max (n_arguments L af) n_ids)) in H.
  assert (Hsz : forall l acc, acc <= fold_left (fun acc a => Nat.max acc (S a)) l acc).
  { induction l as [|x r IH]; intros acc; cbn [fold_left]; [lia|]. specialize (IH (Nat.max acc (S x))). lia. }
  assert (Hid : id < size).
  { apply has_arg_nth in Hlive.
    assert (id < length (slots (ls af))).
    { destruct (Nat.lt_ge_cases id (length (slots (ls af)))); [assumption|].
      rewrite nth_overflow in Hlive by assumption. congruence. }
    assert (length (slots (ls af)) <= n_ids).
    { unfold n_ids, max_argument_id, ls_max_id. destruct (slots (ls af)); cbn [length]; lia. }
    pose proof (Hsz cur (Nat.max (n_arguments L af) n_ids)). unfold size. lia. }
  assert (Hin : In id (filter (has_argument_with_id L af) (seq 0 size))).
  { apply filter_In. split; [apply in_seq; lia|exact Hlive]. }
  destruct (tbl_vars (e_a2v e) (filter (fun i => memb i cur) _)) as [iv|] eqn:Ei; [|discriminate].
  destruct (tbl_vars (e_a2v e) (filter (fun i => negb (memb i cur)) _)) as [ov|] eqn:Eo; [|discriminate].
  injection H as <- <-.
  destruct (memb id cur) eqn:Em.
  - left. split; [reflexivity|].
    destruct (tbl_vars_In _ _ _ id Ei) as (w & Hw & Hin'); [apply filter_In; auto|].
    rewrite Hv in Hw. injection Hw as <-. apply in_map. exact Hin'.
  - right. split; [reflexivity|].
    destruct (tbl_vars_In _ _ _ id Eo) as (w & Hw & Hin'); [apply filter_In; rewrite Em; auto|].
    rewrite Hv in Hw. injection Hw as <-. apply in_map. exact Hin'.
Qed.

(* ---- variable 0 is never handed out: entry 0 of solver_vars stays Ignored *)
Definition vz (e : denc) : Prop := nth_error (e_vars e) 0 = Some VIgnored.

Lemma vz_set_ign (vars : list vtype) i :
  nth_error vars 0 = Some VIgnored -> nth_error (set_nth i VIgnored vars) 0 = Some VIgnored.
Proof. destruct vars as [|x r]; [discriminate|]. destruct i; cbn [set_nth nth_error]; auto. Qed.

Lemma vz_allocated vars t r :
  nth_error vars 0 = Some VIgnored -> allocated vars t r -> nth_error (fst r) 0 = Some VIgnored /\ 0 < snd r.
Proof.
  intros H (A1 & A2 & A3 & A4). pose proof (nth_error_lt _ _ _ H) as Hl. split; [rewrite A3; assumption|lia].
Qed.

Lemma remove_selector_vz e s : vz e -> okm (remove_selector e s) vz.
Proof.
  intros H. eapply okm_weaken; [apply remove_selector_spec|]. intros e' (p & _ & ->).
  unfold vz, enc_with. cbn [e_vars]. apply vz_set_ign. exact H.
Qed.

Lemma update_attacks_to_vz af e id : vz e -> okm (update_attacks_to L af e id) vz.
Proof.
  intros H. unfold update_attacks_to. destruct (negb (e_upd e)); [apply okm_ret; exact H|].
  destruct (nth_error (e_a2s e) id) as [os|]; [|apply okm_panic].
  apply (okm_bind _ _ vz).
  { destruct os as [s|]; [|apply okm_ret; exact H].
    eapply okm_bind; [apply remove_selector_vz; exact H|]. intros e' He'. apply okm_ret. exact He'. }
  intros e1 H1. eapply okm_bind; [apply new_solver_var_spec|]. intros [vars sv] Ha.
  destruct (vz_allocated _ _ _ H1 Ha) as [Hz _]. cbn [fst snd] in *.
  destruct (negb _); [apply okm_panic|].
  match goal with |- okm (match ?x with _ => _ end) _ => destruct x end; [|apply okm_panic].
  match goal with |- okm (match ?x with _ => _ end) _ => destruct x end; [|apply okm_panic].
  apply okm_bind_any. intros _. apply okm_ret. exact Hz.
Qed.

Lemma fold_update_attacks_to_vz af ids : forall e, vz e -> okm (fold_m (update_attacks_to L af) ids e) vz.
Proof. intros e He. apply okm_fold_m; [|exact He]. intros a x Ha. apply update_attacks_to_vz. exact Ha. Qed.

Lemma alloc_arg_vars_vz sm vars id :
  nth_error vars 0 = Some VIgnored ->
  okm (alloc_arg_vars sm vars id) (fun r => nth_error (fst r) 0 = Some VIgnored /\ 0 < snd r).
Proof.
  intros H. unfold alloc_arg_vars. eapply okm_bind; [apply new_solver_var_spec|]. intros r1 Ha1.
  destruct (vz_allocated _ _ _ H Ha1) as [Hz1 Hp1].
  destruct sm; try (apply okm_ret; auto).
  all: eapply okm_bind; [apply new_solver_var_spec|]; intros r2 Ha2;
    destruct (vz_allocated _ _ _ Hz1 Ha2) as [Hz2 _]; apply okm_bind_any; intros _; apply okm_ret; cbn [fst snd]; auto.
Qed.

Definition vz2 (r : fw * denc) : Prop := vz (snd r).
Definition vz3 (r : fw * denc * result) : Prop := vz (snd (fst r)).

Lemma enc_new_argument_vz af e l : vz e -> okm (enc_new_argument L leqb af e l) vz2.
Proof.
  intros H. unfold enc_new_argument. destruct (get_argument af l); [apply okm_ret; exact H|].
  destruct (max_argument_id L _); [|apply okm_panic].
  eapply okm_bind; [apply alloc_arg_vars_vz; exact H|]. intros r [Hz _].
  eapply okm_bind; [apply update_attacks_to_vz; exact Hz|]. intros e4 H4. apply okm_ret. exact H4.
Qed.

Lemma enc_remove_argument_vz af e l : vz e -> okm (enc_remove_argument L leqb af e l) vz3.
Proof.
  intros H. unfold enc_remove_argument. destruct (get_argument af l); [|apply okm_ret; exact H].
  destruct (Store.remove_argument L leqb af l) as [af' [| |]]; try (apply okm_ret; exact H).
  destruct (tbl_var _ _); [|apply okm_panic].
  apply (okm_bind _ _ vz).
  { match goal with |- okm (match ?x with _ => _ end) _ => destruct x as [[s|]|] end;
      [|apply okm_ret; exact H|apply okm_panic].
    eapply okm_bind; [apply remove_selector_vz; exact H|]. intros e' He'. apply okm_ret. exact He'. }
  intros e2 H2. destruct (Nat.ltb _ _); [|apply okm_panic]. apply okm_bind_any. intros _.
  eapply okm_bind; [apply fold_update_attacks_to_vz|].
  - unfold vz, enc_with. cbn [e_vars]. apply vz_set_ign. exact H2.
  - intros e4 H4. apply okm_ret. exact H4.
Qed.

Lemma enc_new_attack_vz af e a b : vz e -> okm (enc_new_attack L leqb af e a b) vz3.
Proof.
  intros H. unfold enc_new_attack. destruct (Store.new_attack L leqb af a b) as [af' [| |]].
  - destruct (get_argument af' b); [|apply okm_panic].
    eapply okm_bind; [apply update_attacks_to_vz; exact H|]. intros e' He'. apply okm_ret. exact He'.
  - apply okm_ret. exact H.
  - apply okm_panic.
Qed.
Lemma enc_remove_attack_vz af e a b : vz e -> okm (enc_remove_attack L leqb af e a b) vz3.
Proof.
  intros H. unfold enc_remove_attack. destruct (Store.remove_attack L leqb af a b) as [af' [| |]].
  - destruct (get_argument af' b); [|apply okm_panic].
    eapply okm_bind; [apply update_attacks_to_vz; exact H|]. intros e' He'. apply okm_ret. exact He'.
  - apply okm_ret. exact H.
  - apply okm_panic.
Qed.

Lemma fold_std_replay_vz evs : forall af e upd,
  vz e -> okm (fold_m (std_replay L leqb) evs (af, e, upd)) (fun st => vz (snd (fst st))).
Proof.
  induction evs as [|ev r IH]; intros af e upd H; cbn [fold_m]; [apply okm_ret; exact H|].
  apply (okm_bind _ _ (fun st => vz (snd (fst st)))).
  - unfold std_replay. destruct ev as [l|l|a b|a b|x y z|x y z]; try (apply okm_ret; exact H).
    + eapply okm_bind; [apply enc_new_argument_vz; exact H|]. intros r0 Hr.
      apply okm_bind_any. intros id. apply okm_ret. exact Hr.
    + apply okm_bind_any. intros arg_id.
      eapply okm_bind; [apply enc_remove_argument_vz; exact H|]. intros r0 Hr.
      apply okm_unwrap_ok'. intros p Hp. apply okm_ret. subst r0. exact Hr.
    + eapply okm_bind; [apply enc_new_attack_vz; exact H|]. intros r0 Hr.
      apply okm_unwrap_ok'. intros p Hp. apply okm_bind_any. intros id. apply okm_ret. subst r0. exact Hr.
    + eapply okm_bind; [apply enc_remove_attack_vz; exact H|]. intros r0 Hr.
      apply okm_unwrap_ok'. intros p Hp. apply okm_bind_any. intros id. apply okm_ret. subst r0. exact Hr.
  - intros [[af1 e1] upd1] H1. apply IH. exact H1.
Qed.

Definition vz_buf (b : dbuf) : Prop := match b_enc L b with XStd e => vz e | XAtt _ => True end.

Lemma update_encoding_vz af b : vz_buf b -> okm (update_encoding L leqb af b) (fun r => vz_buf (snd r)).
Proof.
  unfold vz_buf, update_encoding. destruct (b_enc L b) as [e|e].
  - intros H. eapply okm_bind; [apply fold_std_replay_vz; exact H|]. intros [[af' e'] upd] H1. cbn [fst snd] in H1.
    eapply okm_bind; [apply fold_update_attacks_to_vz; exact H1|]. intros e'' H2. apply okm_ret.
    cbn [snd buf_with b_enc]. exact H2.
  - intros _. apply okm_bind_any. intros st. apply okm_bind_any. intros e'. apply okm_ret.
    cbn [snd buf_with b_enc]. exact I.
Qed.

Lemma vz_reach k s os : reach k s os -> vz_buf (s_buf L s).
Proof.
  induction 1 as [ps ps' s Hn|s os o Hr IH|s os oracle thr fuel q cert l ps ps' s' a Hr IH Hq].
  - unfold dyn_new in Hn. destruct k.
    1-5: apply bind_Done in Hn; destruct Hn as (u & ps1 & _ & Hn); apply Done_inj in Hn; destruct Hn as [<- _];
         cbn [s_buf]; unfold vz_buf; cbn [b_enc]; try exact I; reflexivity.
    apply Done_inj in Hn. destruct Hn as [<- _]. cbn [s_buf]. unfold vz_buf. cbn [b_enc]. reflexivity.
  - pose proof (buf_update_spec (s_buf L s) o) as Hb. cbv zeta in Hb. destruct Hb as (_ & _ & _ & Hen & _).
    unfold dyn_update, vz_buf in *.
    destruct (s_kind L s); try (destruct (buf_update L leqb (s_buf L s) o) as [b r]; cbn [fst snd s_buf] in *; rewrite Hen; exact IH).
    destruct (step (s_af L s) o). cbn [fst s_buf]. exact IH.
  - pose proof (dyn_query_shape oracle thr fuel s q cert l _ (update_encoding_vz _ _ IH) _ _ _ Hq) as Hp.
    unfold pushed in Hp. cbn [fst] in Hp.
    destruct Hp as [->|(af & buf & ev & Hinv & ->)]; [exact IH|].
    cbn [s_buf snd] in *. unfold vz_buf, buf_push, buf_with in *. cbn [b_enc]. exact Hinv.
Qed.

(* every variable in the tables of a reachable standard solver is positive *)
Theorem std_vars_positive k s os e :
  reach k s os -> b_enc L (s_buf L s) = XStd e -> not_dummy k ->
  (forall id v, tbl_var (e_a2v e) id = Some v -> 0 < v) /\
  (forall id sv, tbl_var (e_a2s e) id = Some sv -> 0 < sv).
Proof.
  intros Hr He Hnd. pose proof (vz_reach _ _ _ Hr) as Hz. unfold vz_buf in Hz. rewrite He in Hz.
  destruct (std_tables_reach _ _ _ _ Hr He Hnd) as [[_ _ T2 _ T3 _ _ _ _] _].
  split.
  - intros id v H. destruct v; [|lia]. pose proof (T2 _ _ H) as H'. unfold vz in Hz. congruence.
  - intros id v H. destruct v; [|lia]. pose proof (T3 _ _ H) as H'. unfold vz in Hz. congruence.
Qed.

(* ================================================================ Part E *)
(* no stale argument entry: a variable typed as the variable of argument id IS the variable recorded
   for id (so assignment_to_extension can only report live arguments, each once) *)
Definition conv (e : denc) : Prop :=
  forall v id, nth_error (e_vars e) v = Some (VArg id) -> tbl_var (e_a2v e) id = Some v.

Definition allocated' (vars : list vtype) (t : vtype) (r : list vtype * nat) : Prop :=
  allocated vars t r /\ (forall i, length vars <= i -> i < snd r -> nth_error (fst r) i = Some VIgnored).

Lemma new_solver_var_spec' vars t : okm (new_solver_var vars t) (allocated' vars t).
Proof.
  unfold new_solver_var. apply okm_bind_any. intros nv. apply okm_ret.
  destruct (alloc_var vars nv t) as [vars' v] eqn:E.
  destruct (alloc_var_spec _ _ _ _ _ E) as (_ & H2 & H3 & H4 & H5 & H6).
  unfold allocated', allocated. cbn [fst snd]. auto.
Qed.

(* what a table looks like after an allocation: old part, Ignored padding, the new entry *)
Lemma allocated_entries vars t r i x :
  allocated' vars t r -> nth_error (fst r) i = Some x ->
  (i < length vars /\ nth_error vars i = Some x) \/ x = VIgnored \/ (i = snd r /\ x = t).
Proof.
  intros [(A1 & A2 & A3 & A4) A5] H.
  destruct (Nat.lt_ge_cases i (length vars)) as [Hlt|Hge].
  - left. split; [assumption|]. rewrite <- A3; assumption.
  - destruct (Nat.lt_trichotomy i (snd r)) as [Hl|[->|Hg]].
    + right. left. rewrite A5 in H by assumption. congruence.
    + right. right. split; [reflexivity|]. congruence.
    + pose proof (nth_error_lt _ _ _ H). lia.
Qed.

Lemma conv_set_ign e i a2s' assum' :
  conv e -> conv (enc_with e (e_a2v e) a2s' (set_nth i VIgnored (e_vars e)) assum').
Proof.
  intros H v id Hv. unfold enc_with in *. cbn [e_vars e_a2v] in *.
  destruct (Nat.eq_dec i v) as [->|Hne].
  - pose proof (nth_error_lt _ _ _ Hv) as Hl. rewrite length_set_nth in Hl.
    rewrite nth_error_set_nth_eq in Hv by assumption. discriminate.
  - rewrite nth_error_set_nth_neq in Hv by assumption. apply H. exact Hv.
Qed.

Lemma update_attacks_to_conv af e id : conv e -> okm (update_attacks_to L af e id) conv.
Proof.
  intros H. unfold update_attacks_to. destruct (negb (e_upd e)); [apply okm_ret; exact H|].
  destruct (nth_error (e_a2s e) id) as [os|]; [|apply okm_panic].
  apply (okm_bind _ _ conv).
  { destruct os as [s|]; [|apply okm_ret; exact H].
    eapply okm_bind; [apply remove_selector_spec|]. intros e' (p & _ & ->). apply okm_ret.
    intros v id' Hv. unfold enc_with in *. cbn [e_vars e_a2v] in *.
    apply (conv_set_ign e s (e_a2s e) (e_assum e) H v id'). unfold enc_with. cbn [e_vars]. exact Hv. }
  intros e1 H1. eapply okm_bind; [apply new_solver_var_spec'|]. intros [vars sv] Ha.
  destruct (negb _); [apply okm_panic|].
  match goal with |- okm (match ?x with _ => _ end) _ => destruct x end; [|apply okm_panic].
  match goal with |- okm (match ?x with _ => _ end) _ => destruct x end; [|apply okm_panic].
  apply okm_bind_any. intros _. apply okm_ret.
  intros v id' Hv. unfold enc_with in *. cbn [e_vars e_a2v] in *.
  destruct (allocated_entries _ _ _ _ _ Ha Hv) as [[_ Hold]|[Hi|[_ Ht]]]; try discriminate.
  apply H1. exact Hold.
Qed.

Lemma fold_update_attacks_to_conv af ids : forall e, conv e -> okm (fold_m (update_attacks_to L af) ids e) conv.
Proof. intros e He. apply okm_fold_m; [|exact He]. intros a x Ha. apply update_attacks_to_conv. exact Ha. Qed.

Lemma alloc_arg_vars_entries sm vars id :
  okm (alloc_arg_vars sm vars id)
      (fun r => length vars <= snd r /\
                forall i x, nth_error (fst r) i = Some x ->
                  (i < length vars /\ nth_error vars i = Some x) \/ x = VIgnored \/
                  (i = snd r /\ x = VArg id) \/ x = VDisj id).
Proof.
  unfold alloc_arg_vars. eapply okm_bind; [apply new_solver_var_spec'|]. intros r1 Ha1.
  pose proof Ha1 as [(A1 & _ & _ & A4) _].
  destruct sm.
  2:{ apply okm_ret. split; [exact A1|]. intros i x Hx.
      destruct (allocated_entries _ _ _ _ _ Ha1 Hx) as [Ho|[Hi|[-> ->]]]; auto. }
  all: eapply okm_bind; [apply new_solver_var_spec'|]; intros r2 Ha2; apply okm_bind_any; intros _;
    apply okm_ret; cbn [fst snd]; (split; [exact A1|]); intros i x Hx;
    destruct (allocated_entries _ _ _ _ _ Ha2 Hx) as [[Hl Ho]|[Hi|[_ ->]]]; auto;
    destruct (allocated_entries _ _ _ _ _ Ha1 Ho) as [Ho'|[Hi'|[-> ->]]]; auto.
Qed.

Lemma enc_new_argument_conv af e l :
  tabs af e -> conv e -> okm (enc_new_argument L leqb af e l) (fun r => conv (snd r)).
Proof.
  intros [Hc Hl] H. unfold enc_new_argument. destruct (get_argument af l) eqn:Eg; [apply okm_ret; exact H|].
  destruct (new_argument_fresh_slots af l Eg) as [Hsl Hmax]. rewrite Hmax.
  destruct Hl as (L1 & _).
  eapply okm_bind; [apply alloc_arg_vars_entries|]. intros r [Hge Hent].
  eapply okm_bind; [apply update_attacks_to_conv|intros e4 H4; apply okm_ret; exact H4].
  intros v id' Hv. unfold enc_with in *. cbn [e_vars e_a2v] in *.
  destruct (Hent _ _ Hv) as [[Hlt Hold]|[Hi|[[-> Hx]|Hx]]]; try discriminate.
  - pose proof (H _ _ Hold) as Ht. rewrite tbl_var_snoc_old; [exact Ht|]. eapply tbl_var_lt; eassumption.
  - injection Hx as ->. rewrite <- L1. apply tbl_var_snoc_new.
Qed.

Lemma enc_remove_argument_conv af e l :
  tabs af e -> conv e -> okm (enc_remove_argument L leqb af e l) (fun r => conv (snd (fst r))).
Proof.
  intros [Hc Hl] H. unfold enc_remove_argument. destruct (get_argument af l) as [arg_id|]; [|apply okm_ret; exact H].
  destruct (Store.remove_argument L leqb af l) as [af' [| |]]; try (apply okm_ret; exact H).
  destruct (tbl_var (e_a2v e) arg_id) as [v|] eqn:Ev; [|apply okm_panic].
  pose proof (tbl_var_lt _ _ _ Ev) as Hid.
  (* after the table entry is cleared and the selector retired: the only stale entry is (v, arg_id) *)
  apply (okm_bind _ _ (fun e2 => e_a2v e2 = set_nth arg_id None (e_a2v e) /\
            forall v' id', nth_error (e_vars e2) v' = Some (VArg id') -> tbl_var (e_a2v e) id' = Some v')).
  { match goal with |- okm (match ?x with _ => _ end) _ => destruct x as [[s|]|] end; [| |apply okm_panic].
    - eapply okm_bind; [apply remove_selector_spec|]. intros e' (p & _ & ->). apply okm_ret.
      unfold enc_with. cbn [e_vars e_a2v]. split; [reflexivity|]. intros v' id' Hv.
      destruct (Nat.eq_dec s v') as [->|Hne].
      + pose proof (nth_error_lt _ _ _ Hv) as Hlt. rewrite length_set_nth in Hlt.
        rewrite nth_error_set_nth_eq in Hv by assumption. discriminate.
      + rewrite nth_error_set_nth_neq in Hv by assumption. apply H. exact Hv.
    - apply okm_ret. unfold enc_with. cbn [e_vars e_a2v]. split; [reflexivity|]. intros v' id' Hv. apply H. exact Hv. }
  intros e2 [Ha2v Hst]. destruct (Nat.ltb _ _); [|apply okm_panic]. apply okm_bind_any. intros _.
  eapply okm_bind; [apply fold_update_attacks_to_conv|intros e4 H4; apply okm_ret; exact H4].
  intros v' id' Hv. unfold enc_with in *. cbn [e_vars e_a2v] in *.
  destruct (Nat.eq_dec v v') as [->|Hne].
  - pose proof (nth_error_lt _ _ _ Hv) as Hlt. rewrite length_set_nth in Hlt.
    rewrite nth_error_set_nth_eq in Hv by assumption. discriminate.
  - rewrite nth_error_set_nth_neq in Hv by assumption. pose proof (Hst _ _ Hv) as Ht.
    rewrite Ha2v. rewrite tbl_var_set_neq; [exact Ht|]. intros <-. congruence.
Qed.

Lemma enc_new_attack_conv af e a b : conv e -> okm (enc_new_attack L leqb af e a b) (fun r => conv (snd (fst r))).
Proof.
  intros H. unfold enc_new_attack. destruct (Store.new_attack L leqb af a b) as [af' [| |]].
  - destruct (get_argument af' b); [|apply okm_panic].
    eapply okm_bind; [apply update_attacks_to_conv; exact H|]. intros e' He'. apply okm_ret. exact He'.
  - apply okm_ret. exact H.
  - apply okm_panic.
Qed.
Lemma enc_remove_attack_conv af e a b : conv e -> okm (enc_remove_attack L leqb af e a b) (fun r => conv (snd (fst r))).
Proof.
  intros H. unfold enc_remove_attack. destruct (Store.remove_attack L leqb af a b) as [af' [| |]].
  - destruct (get_argument af' b); [|apply okm_panic].
    eapply okm_bind; [apply update_attacks_to_conv; exact H|]. intros e' He'. apply okm_ret. exact He'.
  - apply okm_ret. exact H.
  - apply okm_panic.
Qed.

Lemma fold_std_replay_conv evs : forall af e upd,
  tabs af e -> conv e ->
  okm (fold_m (std_replay L leqb) evs (af, e, upd)) (fun st => conv (snd (fst st))).
Proof.
  induction evs as [|ev r IH]; intros af e upd Ht H; cbn [fold_m]; [apply okm_ret; exact H|].
  apply (okm_bind _ _ (fun st => tabs (fst (fst st)) (snd (fst st)) /\ conv (snd (fst st)))).
  - intros ps st ps' E. split.
    + exact (proj1 (std_replay_ok af e upd ev Ht _ _ _ E)).
    + revert ps st ps' E. change (okm (std_replay L leqb (af, e, upd) ev) (fun st => conv (snd (fst st)))).
      unfold std_replay. destruct ev as [l|l|a b|a b|x y z|x y z]; try (apply okm_ret; exact H).
      * eapply okm_bind; [apply enc_new_argument_conv; assumption|]. intros r0 Hr.
        apply okm_bind_any. intros id. apply okm_ret. exact Hr.
      * apply okm_bind_any. intros arg_id.
        eapply okm_bind; [apply enc_remove_argument_conv; assumption|]. intros r0 Hr.
        apply okm_unwrap_ok'. intros p Hp. apply okm_ret. subst r0. exact Hr.
      * eapply okm_bind; [apply enc_new_attack_conv; exact H|]. intros r0 Hr.
        apply okm_unwrap_ok'. intros p Hp. apply okm_bind_any. intros id. apply okm_ret. subst r0. exact Hr.
      * eapply okm_bind; [apply enc_remove_attack_conv; exact H|]. intros r0 Hr.
        apply okm_unwrap_ok'. intros p Hp. apply okm_bind_any. intros id. apply okm_ret. subst r0. exact Hr.
  - intros [[af1 e1] upd1] [Ht1 H1]. apply IH; assumption.
Qed.

Definition conv_buf (b : dbuf) : Prop := match b_enc L b with XStd e => conv e | XAtt _ => True end.

Lemma conv_enable e b : conv (enc_enable e b) <-> conv e.
Proof. unfold conv, enc_enable. cbn [e_vars e_a2v]. tauto. Qed.

Lemma update_encoding_conv af b :
  enc_inv af b -> conv_buf b -> okm (update_encoding L leqb af b) (fun r => conv_buf (snd r)).
Proof.
  unfold enc_inv, conv_buf, update_encoding. destruct (b_enc L b) as [e|e].
  - intros [Ht _] H. apply tables_ok_split in Ht.
    apply (okm_bind _ _ (fun st => conv (snd (fst st)))).
    + apply fold_std_replay_conv; assumption.
    + intros [[af' e'] upd] H1. cbn [fst snd] in H1.
      eapply okm_bind; [apply fold_update_attacks_to_conv; apply conv_enable; exact H1|].
      intros e'' H2. apply okm_ret. cbn [snd buf_with b_enc]. apply conv_enable. exact H2.
  - intros _ _. apply okm_bind_any. intros st. apply okm_bind_any. intros e'. apply okm_ret.
    cbn [snd buf_with b_enc]. exact I.
Qed.

Lemma conv_reach k s os : reach k s os -> not_dummy k -> conv_buf (s_buf L s).
Proof.
  induction 1 as [ps ps' s Hn|s os o Hr IH|s os oracle thr fuel q cert l ps ps' s' a Hr IH Hq]; intros Hnd.
  - assert (H0 : forall sm, conv (enc_enable (enc_new sm) false)).
    { intros sm v id Hv. unfold enc_enable, enc_new in Hv. cbn [e_vars] in Hv.
      destruct v as [|[|v]]; cbn in Hv; discriminate. }
    unfold dyn_new in Hn. destruct k.
    1-3: apply bind_Done in Hn; destruct Hn as (u & ps1 & _ & Hn); apply Done_inj in Hn; destruct Hn as [<- _];
         cbn [s_buf]; unfold conv_buf; cbn [b_enc]; apply H0.
    1-2: apply bind_Done in Hn; destruct Hn as (u & ps1 & _ & Hn); apply Done_inj in Hn; destruct Hn as [<- _];
         cbn [s_buf]; unfold conv_buf; cbn [b_enc]; exact I.
    destruct Hnd.
  - specialize (IH Hnd). pose proof (reach_frame_inv _ _ _ Hr) as [Hk _ _ _].
    pose proof (buf_update_spec (s_buf L s) o) as Hb. cbv zeta in Hb. destruct Hb as (_ & _ & _ & Hen & _).
    unfold dyn_update. rewrite Hk. unfold conv_buf in *.
    destruct k; try contradiction;
      destruct (buf_update L leqb (s_buf L s) o) as [b r]; cbn [fst snd s_buf] in *; rewrite Hen; exact IH.
  - specialize (IH Hnd). pose proof (enc_inv_reach _ _ _ Hr Hnd) as Hinv.
    pose proof (dyn_query_shape oracle thr fuel s q cert l _ (update_encoding_conv _ _ Hinv IH) _ _ _ Hq) as Hp.
    unfold pushed in Hp. cbn [fst] in Hp.
    destruct Hp as [->|(af & buf & ev & Hc & ->)]; [exact IH|].
    cbn [s_buf snd] in *. unfold conv_buf, buf_push, buf_with in *. cbn [b_enc]. exact Hc.
Qed.

(* ---- assignment_to_extension of the dynamic encoder yields live arguments, each once *)
Lemma NoDup_fst_filter_combine {A} (p : nat * A -> bool) : forall (l1 : list nat) (l2 : list A),
  NoDup l1 -> NoDup (map fst (filter p (combine l1 l2))).
Proof.
  induction l1 as [|x r IH]; intros l2 Hnd; [constructor|]. destruct l2 as [|y t]; [constructor|].
  inversion Hnd as [|? ? Hnotin Hr]; subst. cbn [combine filter].
  destruct (p (x, y)); cbn [map fst]; [|apply IH; assumption].
  constructor; [|apply IH; assumption].
  intros Hin. apply in_map_iff in Hin. destruct Hin as ([a b] & Ha & Hin). cbn [fst] in Ha. subst a.
  apply filter_In in Hin. destruct Hin as [Hin _]. apply in_combine_l in Hin. contradiction.
Qed.

Lemma filter_map_In {A B} (f : A -> option B) (l : list A) y :
  In y (Encoders.filter_map f l) -> exists x, In x l /\ f x = Some y.
Proof.
  induction l as [|x r IH]; cbn [Encoders.filter_map]; [intros []|].
  destruct (f x) as [z|] eqn:E.
  - intros [<-|Hin]; [exists x; split; [left; reflexivity|assumption]|].
    destruct (IH Hin) as (x' & H1 & H2). exists x'. split; [right; assumption|assumption].
  - intros Hin. destruct (IH Hin) as (x' & H1 & H2). exists x'. split; [right; assumption|assumption].
Qed.

Lemma filter_map_NoDup {A B} (f : A -> option B) (l : list A) :
  NoDup l -> (forall a b y, In a l -> In b l -> f a = Some y -> f b = Some y -> a = b) ->
  NoDup (Encoders.filter_map f l).
Proof.
  induction l as [|x r IH]; intros Hnd Hinj; cbn [Encoders.filter_map]; [constructor|].
  inversion Hnd as [|? ? Hnotin Hr]; subst.
  assert (IH' : NoDup (Encoders.filter_map f r)).
  { apply IH; [assumption|]. intros a b y Ha Hb. apply Hinj; right; assumption. }
  destruct (f x) as [z|] eqn:E; [|exact IH'].
  constructor; [|exact IH']. intros Hin. destruct (filter_map_In _ _ _ Hin) as (x' & H1 & H2).
  assert (x = x') by (eapply Hinj; [left; reflexivity|right; exact H1|exact E|exact H2]). subst x'. contradiction.
Qed.

Theorem dyn_a2e_wf (af : fw) e m :
  tables_ok L af e -> conv e ->
  NoDup (dyn_a2e (e_vars e) m) /\
  forall id, In id (dyn_a2e (e_vars e) m) -> has_argument_with_id L af id = true.
Proof.
  intros Ht Hc. unfold dyn_a2e, vars_where. split.
  - apply filter_map_NoDup; [apply NoDup_fst_filter_combine, seq_NoDup|].
    intros a b y _ _ Ha Hb. unfold var_to_arg in Ha, Hb.
    destruct (nth_error (e_vars e) a) as [[ia| | | |]|] eqn:Ea; try discriminate. injection Ha as ->.
    destruct (nth_error (e_vars e) b) as [[ib| | | |]|] eqn:Eb; try discriminate. injection Hb as ->.
    pose proof (Hc _ _ Ea). pose proof (Hc _ _ Eb). congruence.
  - intros id Hin. destruct (filter_map_In _ _ _ Hin) as (v & _ & Hv). unfold var_to_arg in Hv.
    destruct (nth_error (e_vars e) v) as [[iv| | | |]|] eqn:Ev; try discriminate. injection Hv as ->.
    apply (t_live L af e Ht). rewrite (Hc _ _ Ev). discriminate.
Qed.

(* ---- certificates computed by a SAT call of the complete / stable solvers *)
Definition fresh_cert (P : fw * dbuf -> Prop) (s : dsolver) (r : dsolver * answer_t) : Prop :=
  fst r = s \/ exists af buf ev, P (af, buf) /\
    fst r = {| s_kind := s_kind L s; s_af := af; s_buf := buf_push L buf ev |} /\
    forall ext, snd (snd r) = Some ext -> exists m, ext = dyn_a2e (x_vars (b_enc L buf)) m.

Lemma dc_query_cert oracle s l P :
  okm (update_encoding L leqb (s_af L s) (s_buf L s)) P -> okm (dc_query oracle L leqb s l) (fresh_cert P s).
Proof.
  intros HP. unfold dc_query.
  destruct (is_cred L leqb (s_buf L s) l) as [[b|] [e|]];
    try (apply okm_ret; left; reflexivity).
  all: eapply okm_bind; [exact HP|]; intros [af buf] Henc;
    apply okm_bind_any; intros asm; apply okm_bind_any; intros v; apply okm_bind_any; intros [m|];
    [apply okm_bind_any; intros acc|]; apply okm_ret; right; exists af, buf; eexists;
    (split; [exact Henc|]); (split; [reflexivity|]); cbn [snd]; intros ext Hext;
    [injection Hext as <-; eexists; reflexivity|discriminate].
Qed.
Lemma st_ds_query_cert oracle s l P :
  okm (update_encoding L leqb (s_af L s) (s_buf L s)) P -> okm (st_ds_query oracle L leqb s l) (fresh_cert P s).
Proof.
  intros HP. unfold st_ds_query.
  destruct (is_skep L leqb (s_buf L s) l) as [[b|] [e|]];
    try (apply okm_ret; left; reflexivity).
  all: eapply okm_bind; [exact HP|]; intros [af buf] Henc;
    apply okm_bind_any; intros asm; apply okm_bind_any; intros v; apply okm_bind_any; intros [m|];
    [apply okm_bind_any; intros acc|apply okm_bind_any; intros id; apply okm_bind_any; intros refused];
    apply okm_ret; right; exists af, buf; eexists;
    (split; [exact Henc|]); (split; [reflexivity|]); cbn [snd]; intros ext Hext;
    [injection Hext as <-; eexists; reflexivity|discriminate].
Qed.

Definition std_kind (k : dkind) : Prop := k = KCo \/ k = KSt \/ k = KPr.

Lemma update_encoding_std af b :
  is_std (b_enc L b) -> okm (update_encoding L leqb af b) (fun r => is_std (b_enc L (snd r))).
Proof.
  intros H. eapply okm_weaken; [apply update_encoding_spec|]. intros r (_ & _ & _ & _ & H5). auto.
Qed.

Lemma std_kind_reach k s os : reach k s os -> std_kind k -> is_std (b_enc L (s_buf L s)).
Proof.
  induction 1 as [ps ps' s Hn|s os o Hr IH|s os oracle thr fuel q cert l ps ps' s' a Hr IH Hq]; intros Hk.
  - unfold dyn_new in Hn. destruct Hk as [-> |[-> | ->]];
      apply bind_Done in Hn; destruct Hn as (u & ps1 & _ & Hn); apply Done_inj in Hn; destruct Hn as [<- _];
      cbn [s_buf b_enc is_std]; exact I.
  - specialize (IH Hk). pose proof (reach_frame_inv _ _ _ Hr) as [Hkind _ _ _].
    pose proof (buf_update_spec (s_buf L s) o) as Hb. cbv zeta in Hb. destruct Hb as (_ & _ & _ & Hen & _).
    unfold dyn_update. rewrite Hkind.
    destruct Hk as [-> |[-> | ->]];
      destruct (buf_update L leqb (s_buf L s) o) as [b r]; cbn [fst snd s_buf] in *; rewrite Hen; exact IH.
  - specialize (IH Hk).
    pose proof (dyn_query_shape oracle thr fuel s q cert l _ (update_encoding_std _ _ IH) _ _ _ Hq) as Hp.
    unfold pushed in Hp. cbn [fst] in Hp.
    destruct Hp as [->|(af & buf & ev & Hc & ->)]; [exact IH|].
    cbn [s_buf snd] in *. unfold buf_push, buf_with. cbn [b_enc]. exact Hc.
Qed.

(* every certificate that the dynamic complete / stable solver computes by a SAT call (i.e. whenever
   the state changed: not a cache hit) is a duplicate-free list of ids of LIVE arguments of the
   solver's framework - for any answer of the SAT solver, valid or not *)
Theorem std_fresh_certificate_wf k s os oracle thr fuel q cert l ps ps' s' b ext :
  reach k s os -> (k = KCo \/ k = KSt) ->
  dyn_query oracle L leqb thr fuel s q cert l ps = Done (s', (b, Some ext)) ps' ->
  s' = s \/ (NoDup ext /\ forall id, In id ext -> has_argument_with_id L (s_af L s') id = true).
Proof.
  intros Hr Hk Hq.
  assert (Hnd : not_dummy k) by (destruct Hk as [-> | ->]; exact I).
  pose proof (reach_frame_inv _ _ _ Hr) as [Hkind _ _ _].
  pose proof (enc_inv_reach _ _ _ Hr Hnd) as Hinv. pose proof (conv_reach _ _ _ Hr Hnd) as Hcv.
  assert (Hstd : is_std (b_enc L (s_buf L s))).
  { apply (std_kind_reach _ _ _ Hr). unfold std_kind. tauto. }
  set (P := fun r : fw * dbuf => (enc_inv (fst r) (snd r) /\ conv_buf (snd r)) /\ is_std (b_enc L (snd r))).
  assert (HP : okm (update_encoding L leqb (s_af L s) (s_buf L s)) P).
  { intros p0 r p1 E. split; [split|].
    - exact (update_encoding_tables _ _ Hinv _ _ _ E).
    - exact (update_encoding_conv _ _ Hinv Hcv _ _ _ E).
    - exact (update_encoding_std _ _ Hstd _ _ _ E). }
  assert (Hin : exists r1, fresh_cert P s r1 /\ fst r1 = s' /\ snd r1 = (b, Some ext)).
  { unfold dyn_query in Hq. rewrite Hkind in Hq.
    destruct Hk as [-> | ->]; destruct q; try discriminate Hq;
      apply bind_Done in Hq; destruct Hq as (r1 & ps1 & Hq1 & Hq2);
      apply Done_inj in Hq2; destruct Hq2 as [Hq2 _]; apply pair_equal_spec in Hq2; destruct Hq2 as [Hs' Ha];
      (destruct cert; [|apply pair_equal_spec in Ha; destruct Ha as [_ Ha]; discriminate Ha]);
      exists r1;
      (split; [first [exact (dc_query_cert _ _ _ _ HP _ _ _ Hq1) | exact (st_ds_query_cert _ _ _ _ HP _ _ _ Hq1)]|]);
      split; assumption. }
  destruct Hin as (r1 & Hfc & Hs1 & Ha1).
  destruct Hfc as [Hs|(af & buf & ev & [[Hi Hc] Hstd'] & Hs & Hext)]; [left; congruence|right].
  rewrite Ha1 in Hext. cbn [snd] in Hext. destruct (Hext ext eq_refl) as (m & ->).
  rewrite <- Hs1, Hs. cbn [s_af].
  (* the encoder after update_encoding is the standard one for these kinds *)
  cbn [fst snd] in Hi, Hc, Hstd'. unfold enc_inv in Hi. unfold conv_buf in Hc.
  destruct (b_enc L buf) as [e|e] eqn:Ee.
  - cbn [x_vars]. destruct Hi as [Ht _]. exact (dyn_a2e_wf af e m Ht Hc).
  - destruct Hstd'.
Qed.
End DynProofs.
