(* Proofs for Properties/C08.v and C09.v about Model/Dynamic.v.
   Part A: the framework component of every dynamic solver refines the specification store
           (update results, redundant / invalid updates, re-synchronisation at queries).
   Part B: redundant updates at the encoder level.
   Part C: the cache of the preferred solver.
   Part D: the variable tables of the standard dynamic encoder (allocator invariant). *)
From Crusta Require Import Model.Dynamic Proofs.StoreBase Proofs.StoreProofs Proofs.DynDefs Proofs.DynBase.
From Coq Require Import Lia ZifyBool.

Section DynProofs.
Variable L : Type.
Variable leqb : L -> L -> bool.

Notation fw := (fw L).
Notation op := (op L).
Notation dsolver := (dsolver L).
Notation dbuf := (dbuf L).
Notation devent := (devent L).
Notation step := (step L leqb).
Notation run_ops := (run_ops L leqb).
Notation get_argument := (get_argument L leqb).
Notation ev_apply := (ev_apply L leqb).
Notation pending := (pending L).
Notation spec_fw := (spec_fw L).
Notation synced := (synced L leqb).
Notation reach := (reach L leqb).
Notation fresh_fw := (fresh_fw L leqb).

(* ================================================================ Part A *)

Lemma new_argument_existing (af : fw) l id :
  get_argument af l = Some id -> Store.new_argument L leqb af l = af.
Proof.
  unfold Store.get_argument, Store.new_argument, new_label. intros H. rewrite H.
  rewrite Nat.ltb_irrefl. destruct af; reflexivity.
Qed.

Lemma remove_argument_found (af : fw) l id :
  get_argument af l = Some id -> snd (Store.remove_argument L leqb af l) = ROk.
Proof.
  unfold Store.get_argument, Store.remove_argument, remove_label. intros H. rewrite H.
  destruct (fold_left _ _ _). reflexivity.
Qed.
Lemma remove_argument_missing (af : fw) l :
  get_argument af l = None -> Store.remove_argument L leqb af l = (af, RErr).
Proof.
  unfold Store.get_argument, Store.remove_argument, remove_label. intros H. rewrite H. reflexivity.
Qed.

(* an update that does not report Ok leaves the store EQUAL *)
Lemma step_not_ok_unchanged (f : fw) (o : op) : snd (step f o) <> ROk -> fst (step f o) = f.
Proof.
  destruct o as [l|l|a b|a b]; cbn [Store.step].
  - cbn [snd]. congruence.
  - unfold Store.remove_argument.
    destruct (remove_label L leqb (ls f) l) as [ls' [id|]] eqn:E; [|reflexivity].
    destruct (fold_left try_remove_attack _ _) as [atts' nrem'] eqn:E2.
    cbn [snd]. congruence.
  - unfold Store.new_attack.
    destruct (find_label L leqb (ls f) a) as [x|]; [|reflexivity].
    destruct (find_label L leqb (ls f) b) as [y|]; [|reflexivity].
    destruct (existsb _ _); cbn [snd fst]; congruence.
  - unfold Store.remove_attack.
    destruct (find_label L leqb (ls f) a) as [x|]; [|reflexivity].
    destruct (find_label L leqb (ls f) b) as [y|]; [|reflexivity].
    destruct (position _ (nth x (afrom f) [])) as [pf|]; [|reflexivity].
    destruct (position _ (nth y (ato f) [])) as [pt|]; [|reflexivity].
    cbn [snd]. congruence.
Qed.

(* ---- the encoder operations transform the framework exactly as the store operations *)
Lemma enc_new_argument_af af e l :
  okm (enc_new_argument L leqb af e l) (fun r => fst r = Store.new_argument L leqb af l).
Proof.
  unfold enc_new_argument. destruct (get_argument af l) as [id|] eqn:E.
  - apply okm_ret. cbn [fst]. symmetry. eapply new_argument_existing; eassumption.
  - destruct (max_argument_id L _); [|apply okm_panic].
    apply okm_bind_any. intros r. apply okm_bind_any. intros e4. apply okm_ret. reflexivity.
Qed.

Lemma enc_remove_argument_af af e l :
  okm (enc_remove_argument L leqb af e l)
      (fun r => snd r = ROk -> fst (fst r) = fst (Store.remove_argument L leqb af l)).
Proof.
  unfold enc_remove_argument. destruct (get_argument af l) as [id|] eqn:E.
  2:{ apply okm_ret. cbn [snd]. discriminate. }
  destruct (Store.remove_argument L leqb af l) as [af' [| |]] eqn:Er;
    try (apply okm_ret; cbn [snd]; discriminate).
  destruct (tbl_var _ _); [|apply okm_panic].
  apply okm_bind_any. intros e2. destruct (Nat.ltb _ _); [|apply okm_panic].
  apply okm_bind_any. intros _. apply okm_bind_any. intros e4. apply okm_ret. reflexivity.
Qed.

Lemma enc_new_attack_af af e a b :
  okm (enc_new_attack L leqb af e a b)
      (fun r => snd r = ROk -> fst (fst r) = fst (Store.new_attack L leqb af a b)).
Proof.
  unfold enc_new_attack. destruct (Store.new_attack L leqb af a b) as [af' [| |]] eqn:Er.
  - destruct (get_argument af' b); [|apply okm_panic].
    apply okm_bind_any. intros e'. apply okm_ret. reflexivity.
  - apply okm_ret. cbn [snd]. discriminate.
  - apply okm_panic.
Qed.
Lemma enc_remove_attack_af af e a b :
  okm (enc_remove_attack L leqb af e a b)
      (fun r => snd r = ROk -> fst (fst r) = fst (Store.remove_attack L leqb af a b)).
Proof.
  unfold enc_remove_attack. destruct (Store.remove_attack L leqb af a b) as [af' [| |]] eqn:Er.
  - destruct (get_argument af' b); [|apply okm_panic].
    apply okm_bind_any. intros e'. apply okm_ret. reflexivity.
  - apply okm_ret. cbn [snd]. discriminate.
  - apply okm_panic.
Qed.

Lemma att_new_argument_af af e l :
  okm (att_new_argument L leqb af e l) (fun r => fst r = Store.new_argument L leqb af l).
Proof.
  unfold att_new_argument. destruct (get_argument af l) as [id|] eqn:E.
  - apply okm_ret. cbn [fst]. symmetry. eapply new_argument_existing; eassumption.
  - destruct (a_need e || _); [apply okm_ret; reflexivity|].
    destruct (max_argument_id L _); [|apply okm_panic].
    destruct (Nat.ltb _ _); [|apply okm_panic].
    destruct (a_sem e); try (apply okm_ret; reflexivity).
    destruct (Nat.ltb _ _); [apply okm_ret; reflexivity|apply okm_panic].
Qed.
Lemma att_remove_argument_af af e l :
  okm (att_remove_argument L leqb af e l)
      (fun r => snd r = ROk -> fst (fst r) = fst (Store.remove_argument L leqb af l)).
Proof.
  unfold att_remove_argument. destruct (get_argument af l) as [id|] eqn:E.
  2:{ apply okm_ret. cbn [snd]. discriminate. }
  destruct (Store.remove_argument L leqb af l) as [af' [| |]] eqn:Er;
    try (apply okm_ret; cbn [snd]; discriminate).
  destruct (Nat.ltb id _); [|apply okm_ret; reflexivity].
  destruct (nth id _ _); [|apply okm_ret; reflexivity].
  destruct (Nat.ltb _ _); [|apply okm_panic].
  apply okm_bind_any. intros _. apply okm_ret. reflexivity.
Qed.

Lemma std_replay_af af e upd ev :
  okm (std_replay L leqb (af, e, upd) ev) (fun st => fst (fst st) = ev_apply af ev).
Proof.
  unfold std_replay. destruct ev as [l|l|a b|a b|x y z|x y z]; cbn [DynDefs.ev_apply].
  - eapply okm_bind; [apply enc_new_argument_af|]. intros r Hr.
    apply okm_bind_any. intros id. apply okm_ret. cbn [fst]. exact Hr.
  - apply okm_bind_any. intros arg_id.
    eapply okm_bind; [apply enc_remove_argument_af|]. intros r Hr.
    apply okm_unwrap_ok'. intros p Hp. apply okm_ret. cbn [fst]. rewrite Hp in Hr. cbn [fst snd] in Hr. auto.
  - eapply okm_bind; [apply enc_new_attack_af|]. intros r Hr.
    apply okm_unwrap_ok'. intros p Hp. apply okm_bind_any. intros id. apply okm_ret. cbn [fst].
    rewrite Hp in Hr. cbn [fst snd] in Hr. auto.
  - eapply okm_bind; [apply enc_remove_attack_af|]. intros r Hr.
    apply okm_unwrap_ok'. intros p Hp. apply okm_bind_any. intros id. apply okm_ret. cbn [fst].
    rewrite Hp in Hr. cbn [fst snd] in Hr. auto.
  - apply okm_ret. reflexivity.
  - apply okm_ret. reflexivity.
Qed.

Lemma att_replay_af af e ev :
  okm (att_replay L leqb (af, e) ev) (fun st => fst st = ev_apply af ev).
Proof.
  unfold att_replay. destruct ev as [l|l|a b|a b|x y z|x y z]; cbn [DynDefs.ev_apply].
  - apply att_new_argument_af.
  - eapply okm_bind; [apply att_remove_argument_af|]. intros r Hr.
    intros s p s' E. destruct r as [p0 [| |]]; cbn [unwrap_ok] in E; try discriminate E.
    unfold ret in E. injection E as <- _. cbn [fst snd] in *. auto.
  - destruct (Store.new_attack L leqb af a b) as [af' [| |]]; cbn [unwrap_ok];
      try (intros s p s' E; discriminate E).
    intros s p s' E. unfold bind, ret in E. injection E as <- _. reflexivity.
  - destruct (Store.remove_attack L leqb af a b) as [af' [| |]]; cbn [unwrap_ok];
      try (intros s p s' E; discriminate E).
    intros s p s' E. unfold bind, ret in E. injection E as <- _. reflexivity.
  - apply okm_ret. reflexivity.
  - apply okm_ret. reflexivity.
Qed.

Lemma fold_std_replay_af evs : forall st,
  okm (fold_m (std_replay L leqb) evs st) (fun st' => fst (fst st') = fold_left ev_apply evs (fst (fst st))).
Proof.
  induction evs as [|ev r IH]; intros [[af e] upd]; cbn [fold_m fold_left fst].
  - apply okm_ret. reflexivity.
  - eapply okm_bind; [apply std_replay_af|]. intros [[af1 e1] upd1] H1. cbn [fst] in H1. subst af1.
    eapply okm_weaken; [apply IH|]. intros st' H. cbn [fst] in H. exact H.
Qed.
Lemma fold_att_replay_af evs : forall st,
  okm (fold_m (att_replay L leqb) evs st) (fun st' => fst st' = fold_left ev_apply evs (fst st)).
Proof.
  induction evs as [|ev r IH]; intros [af e]; cbn [fold_m fold_left fst].
  - apply okm_ret. reflexivity.
  - eapply okm_bind; [apply att_replay_af|]. intros [af1 e1] H1. cbn [fst] in H1. subst af1.
    eapply okm_weaken; [apply IH|]. intros st' H. cbn [fst] in H. exact H.
Qed.

(* update_encoding: the solver's framework catches up with every pending event; the buffer and the
   shadow framework are untouched, the cursor moves to the end *)
Definition is_std (x : xenc) : Prop := match x with XStd _ => True | XAtt _ => False end.
Definition encoded (af : fw) (b : dbuf) (r : fw * dbuf) : Prop :=
  fst r = fold_left ev_apply (pending b) af /\
  b_buffer L (snd r) = b_buffer L b /\ b_next L (snd r) = length (b_buffer L b) /\
  b_shadow L (snd r) = b_shadow L b /\
  (is_std (b_enc L b) -> is_std (b_enc L (snd r))).

Lemma update_encoding_spec af b : okm (update_encoding L leqb af b) (encoded af b).
Proof.
  unfold update_encoding. destruct (b_enc L b) as [e|e] eqn:Ex.
  - eapply okm_bind; [apply fold_std_replay_af|]. intros [[af' e'] upd] H. cbn [fst] in H.
    apply okm_bind_any. intros e''. apply okm_ret. unfold encoded, buf_with.
    cbn [fst snd b_buffer b_next b_shadow b_enc is_std]. repeat split; auto.
  - eapply okm_bind; [apply fold_att_replay_af|]. intros [af' e'] H. cbn [fst] in H.
    apply okm_bind_any. intros e''. apply okm_ret. unfold encoded, buf_with.
    cbn [fst snd b_buffer b_next b_shadow b_enc is_std]. repeat split; auto. rewrite Ex. cbn [is_std]. auto.
Qed.

(* ---- what a query may do to the solver state *)
Definition not_dummy (k : dkind) : Prop := match k with KDummy _ => False | _ => True end.
Definition query_step (s s' : dsolver) : Prop :=
  s' = s \/
  (not_dummy (s_kind L s) /\ s_kind L s' = s_kind L s /\
   s_af L s' = fold_left ev_apply (pending (s_buf L s)) (s_af L s) /\
   exists ev, is_update_ev L ev = false /\
     b_buffer L (s_buf L s') = b_buffer L (s_buf L s) ++ [ev] /\
     b_next L (s_buf L s') = length (b_buffer L (s_buf L s)) /\
     b_shadow L (s_buf L s') = b_shadow L (s_buf L s)).

Lemma query_step_push (s : dsolver) af buf ev :
  not_dummy (s_kind L s) ->
  encoded (s_af L s) (s_buf L s) (af, buf) -> is_update_ev L ev = false ->
  query_step s {| s_kind := s_kind L s; s_af := af; s_buf := buf_push L buf ev |}.
Proof.
  intros Hnd (H1 & H2 & H3 & H4 & _) Hev. right. cbn [fst snd] in *. cbn [s_kind s_af s_buf].
  split; [exact Hnd|]. split; [reflexivity|]. split; [exact H1|]. exists ev. unfold buf_push, buf_with.
  cbn [b_buffer b_next b_shadow]. rewrite H2. auto.
Qed.

Lemma dc_query_step oracle s l : not_dummy (s_kind L s) -> okm (dc_query oracle L leqb s l) (fun r => query_step s (fst r)).
Proof.
  intros Hnd. unfold dc_query.
  destruct (is_cred L leqb (s_buf L s) l) as [[b|] [e|]];
    try (apply okm_ret; left; reflexivity).
  all: eapply okm_bind; [apply update_encoding_spec|]; intros [af buf] Henc;
    apply okm_bind_any; intros asm; apply okm_bind_any; intros v; apply okm_bind_any; intros [m|];
    [apply okm_bind_any; intros acc|]; apply okm_ret; cbn [fst]; apply query_step_push; auto.
Qed.
Lemma st_ds_query_step oracle s l : not_dummy (s_kind L s) -> okm (st_ds_query oracle L leqb s l) (fun r => query_step s (fst r)).
Proof.
  intros Hnd. unfold st_ds_query.
  destruct (is_skep L leqb (s_buf L s) l) as [[b|] [e|]];
    try (apply okm_ret; left; reflexivity).
  all: eapply okm_bind; [apply update_encoding_spec|]; intros [af buf] Henc;
    apply okm_bind_any; intros asm; apply okm_bind_any; intros v; apply okm_bind_any; intros [m|];
    [apply okm_bind_any; intros acc|apply okm_bind_any; intros id; apply okm_bind_any; intros refused];
    apply okm_ret; cbn [fst]; apply query_step_push; auto.
Qed.
Lemma pr_ds_query_step oracle fuel s l : not_dummy (s_kind L s) -> okm (pr_ds_query oracle L leqb fuel s l) (fun r => query_step s (fst r)).
Proof.
  intros Hnd. unfold pr_ds_query.
  destruct (is_skep L leqb (s_buf L s) l) as [[b|] [e|]];
    try (apply okm_ret; left; reflexivity).
  all: eapply okm_bind; [apply update_encoding_spec|]; intros [af buf] Henc;
    destruct (b_enc L buf); [|apply okm_panic];
    apply okm_bind_any; intros nv; apply okm_bind_any; intros arg_id; apply okm_bind_any;
    intros [[[[k result] acc_b] ref_b] ext];
    apply okm_bind_any; intros acc; apply okm_bind_any; intros refused; apply okm_bind_any; intros _;
    apply okm_ret; cbn [fst]; apply query_step_push; auto.
Qed.

Lemma dyn_query_step oracle thr fuel s q cert l :
  okm (dyn_query oracle L leqb thr fuel s q cert l) (fun r => query_step s (fst r)).
Proof.
  unfold dyn_query.
  assert (Hstrip : forall m : Prog.M (dsolver * answer_t),
            okm m (fun r => query_step s (fst r)) ->
            okm (r <- m ;; ret (fst r, if cert then snd r else (fst (snd r), None)))
                (fun r => query_step s (fst r))).
  { intros m Hm. eapply okm_bind; [exact Hm|]. intros r Hr. apply okm_ret. exact Hr. }
  destruct (s_kind L s) eqn:Ek, q; try apply okm_panic;
    try (apply Hstrip; first [apply dc_query_step|apply st_ds_query_step|apply pr_ds_query_step];
         rewrite Ek; exact I).
  all: apply okm_bind_any; intros id; apply okm_bind_any; intros o; apply okm_bind_any; intros a;
    apply okm_ret; left; reflexivity.
Qed.

(* ---- the invariant of Part A *)
Record frame_inv (k : dkind) (s : dsolver) (os : list op) : Prop := {
  fi_kind : s_kind L s = k;
  fi_next : b_next L (s_buf L s) <= length (b_buffer L (s_buf L s));
  fi_synced : synced s;
  fi_spec : spec_fw s = run_ops fresh_fw os }.

Lemma run_ops_snoc (f : fw) os o : run_ops f (os ++ [o]) = fst (step (run_ops f os) o).
Proof. unfold Store.run_ops. rewrite fold_left_app. reflexivity. Qed.

Lemma dyn_new_inv k : okm (dyn_new L leqb k) (fun s => frame_inv k s []).
Proof.
  assert (H : forall x, frame_inv k {| s_kind := k; s_af := empty_fw L leqb;
                 s_buf := {| b_buffer := []; b_next := 0; b_enc := x; b_shadow := empty_fw L leqb |} |} []).
  { intros x. split; cbn [s_kind s_buf s_af b_next b_buffer length]; auto.
    - unfold DynDefs.synced. cbn [s_kind s_buf s_af]. destruct k; auto.
    - unfold DynDefs.spec_fw. cbn [s_kind s_buf s_af b_shadow]. destruct k; reflexivity. }
  unfold dyn_new. destruct k; try (apply okm_bind_any; intros _); apply okm_ret; apply H.
Qed.

Lemma buf_update_spec (b : dbuf) (o : op) :
  let r := buf_update L leqb b o in
  snd r = snd (step (b_shadow L b) o) /\
  b_shadow L (fst r) = fst (step (b_shadow L b) o) /\
  b_next L (fst r) = b_next L b /\
  b_enc L (fst r) = b_enc L b /\
  ((snd r = ROk /\ exists ev, is_update_ev L ev = true /\ b_buffer L (fst r) = b_buffer L b ++ [ev] /\
                    forall af, ev_apply af ev = fst (step af o))
   \/ (snd r <> ROk /\ fst r = b)).
Proof.
  destruct o as [l|l|x y|x y]; cbn [buf_update Store.step].
  - unfold buf_with. cbn [fst snd b_shadow b_next b_enc b_buffer]. repeat split; auto.
    left. split; [reflexivity|]. exists (DNewArg L l). repeat split; auto.
  - destruct (Store.remove_argument L leqb (b_shadow L b) l) as [sh [| |]] eqn:E;
      unfold buf_with; cbn [fst snd b_shadow b_next b_enc b_buffer]; repeat split; auto.
    + left. split; [reflexivity|]. exists (DRemArg L l). repeat split; auto.
    + pose proof (step_not_ok_unchanged (b_shadow L b) (OpRemArg l)) as H. cbn [Store.step] in H.
      rewrite E in H. cbn [fst snd] in H. symmetry. apply H. discriminate.
    + right. split; [discriminate|reflexivity].
    + pose proof (step_not_ok_unchanged (b_shadow L b) (OpRemArg l)) as H. cbn [Store.step] in H.
      rewrite E in H. cbn [fst snd] in H. symmetry. apply H. discriminate.
    + right. split; [discriminate|reflexivity].
  - destruct (Store.new_attack L leqb (b_shadow L b) x y) as [sh [| |]] eqn:E;
      unfold buf_with; cbn [fst snd b_shadow b_next b_enc b_buffer]; repeat split; auto.
    + left. split; [reflexivity|]. exists (DNewAtt L x y). repeat split; auto.
    + pose proof (step_not_ok_unchanged (b_shadow L b) (OpNewAtt x y)) as H. cbn [Store.step] in H.
      rewrite E in H. cbn [fst snd] in H. symmetry. apply H. discriminate.
    + right. split; [discriminate|reflexivity].
    + pose proof (step_not_ok_unchanged (b_shadow L b) (OpNewAtt x y)) as H. cbn [Store.step] in H.
      rewrite E in H. cbn [fst snd] in H. symmetry. apply H. discriminate.
    + right. split; [discriminate|reflexivity].
  - destruct (Store.remove_attack L leqb (b_shadow L b) x y) as [sh [| |]] eqn:E;
      unfold buf_with; cbn [fst snd b_shadow b_next b_enc b_buffer]; repeat split; auto.
    + left. split; [reflexivity|]. exists (DRemAtt L x y). repeat split; auto.
    + pose proof (step_not_ok_unchanged (b_shadow L b) (OpRemAtt x y)) as H. cbn [Store.step] in H.
      rewrite E in H. cbn [fst snd] in H. symmetry. apply H. discriminate.
    + right. split; [discriminate|reflexivity].
    + pose proof (step_not_ok_unchanged (b_shadow L b) (OpRemAtt x y)) as H. cbn [Store.step] in H.
      rewrite E in H. cbn [fst snd] in H. symmetry. apply H. discriminate.
    + right. split; [discriminate|reflexivity].
Qed.

Lemma pending_snoc (b : dbuf) buffer' ev :
  b_next L b <= length (b_buffer L b) -> buffer' = b_buffer L b ++ [ev] ->
  skipn (b_next L b) buffer' = pending b ++ [ev].
Proof.
  intros Hn ->. unfold DynDefs.pending. rewrite skipn_app.
  replace (b_next L b - length (b_buffer L b)) with 0 by lia. reflexivity.
Qed.

Lemma dyn_update_inv k s os o :
  frame_inv k s os ->
  frame_inv k (fst (dyn_update L leqb s o)) (os ++ [o]) /\
  snd (dyn_update L leqb s o) = snd (step (run_ops fresh_fw os) o).
Proof.
  intros [Hk Hn Hs Hf]. unfold dyn_update.
  assert (Hbuf : match s_kind L s with KDummy _ => False | _ => True end ->
     let r := buf_update L leqb (s_buf L s) o in
     frame_inv k {| s_kind := s_kind L s; s_af := s_af L s; s_buf := fst r |} (os ++ [o]) /\
     snd r = snd (step (run_ops fresh_fw os) o)).
  { intros Hnd. pose proof (buf_update_spec (s_buf L s) o) as Hb. cbv zeta in Hb |- *.
    destruct Hb as (Hr & Hsh & Hnx & Hen & Hcase).
    assert (Hspec : b_shadow L (s_buf L s) = run_ops fresh_fw os).
    { rewrite <- Hf. unfold DynDefs.spec_fw. destruct (s_kind L s); try reflexivity. contradiction. }
    assert (Hsy : fold_left ev_apply (pending (s_buf L s)) (s_af L s) = b_shadow L (s_buf L s)).
    { unfold DynDefs.synced in Hs. destruct (s_kind L s); try exact Hs. contradiction. }
    split; [|rewrite Hr, Hspec; reflexivity].
    split; cbn [s_kind s_buf s_af].
    - exact Hk.
    - rewrite Hnx. destruct Hcase as [(_ & ev & _ & Hbf & _)|(_ & ->)]; [|exact Hn].
      rewrite Hbf, app_length. cbn [length]. lia.
    - unfold DynDefs.synced. cbn [s_kind s_buf s_af].
      assert (G : fold_left ev_apply (pending (fst (buf_update L leqb (s_buf L s) o))) (s_af L s)
                  = b_shadow L (fst (buf_update L leqb (s_buf L s) o))).
      { destruct Hcase as [(_ & ev & _ & Hbf & Hev)|(_ & ->)]; [|exact Hsy].
        unfold DynDefs.pending at 1. rewrite Hnx. rewrite (pending_snoc (s_buf L s) _ ev Hn Hbf).
        rewrite fold_left_app. cbn [fold_left]. rewrite Hsy, Hev, Hsh. reflexivity. }
      destruct (s_kind L s); try exact G. exact I.
    - unfold DynDefs.spec_fw. cbn [s_kind s_buf s_af].
      rewrite run_ops_snoc, <- Hspec.
      destruct (s_kind L s); try exact Hsh. contradiction. }
  destruct (s_kind L s) eqn:Ek; try (destruct (buf_update L leqb (s_buf L s) o) as [b r] eqn:Eb;
     cbn [fst snd] in *; apply Hbuf; exact I).
  (* the recompute wrapper *)
  destruct (step (s_af L s) o) as [af r] eqn:Est. cbn [fst snd].
  assert (Hspec : s_af L s = run_ops fresh_fw os).
  { rewrite <- Hf. unfold DynDefs.spec_fw. rewrite Ek. reflexivity. }
  split.
  - split; cbn [s_kind s_buf s_af]; auto.
    + unfold DynDefs.synced. cbn [s_kind]. exact I.
    + unfold DynDefs.spec_fw. cbn [s_kind s_af]. rewrite run_ops_snoc, <- Hspec, Est. reflexivity.
  - rewrite <- Hspec, Est. reflexivity.
Qed.

Lemma query_step_inv k s s' os : frame_inv k s os -> query_step s s' -> frame_inv k s' os.
Proof.
  intros [Hk Hn Hs Hf] [->|(Hnd & Hk' & Haf & ev & Hev & Hbf & Hnx & Hsh)]; [split; assumption|].
  split.
  - congruence.
  - rewrite Hnx, Hbf, app_length. cbn [length]. lia.
  - unfold DynDefs.synced in *. rewrite Hk'. destruct (s_kind L s); auto.
    all: unfold DynDefs.pending at 1; rewrite Hnx, Hbf, skipn_app, skipn_all, Nat.sub_diag; cbn [skipn app fold_left];
      (destruct ev; try discriminate Hev); cbn [DynDefs.ev_apply]; rewrite Haf, Hsh; exact Hs.
  - unfold DynDefs.spec_fw in *. rewrite Hk'. destruct (s_kind L s); try (rewrite Hsh; exact Hf).
    contradiction.
Qed.

(* ---- Part A, assembled *)
Theorem reach_frame_inv k s os : reach k s os -> frame_inv k s os.
Proof.
  induction 1 as [ps ps' s Hn|s os o Hr IH|s os oracle thr fuel q cert l ps ps' s' a Hr IH Hq].
  - exact (dyn_new_inv k _ _ _ Hn).
  - apply dyn_update_inv. exact IH.
  - eapply query_step_inv; [exact IH|]. exact (dyn_query_step _ _ _ _ _ _ _ _ _ _ Hq).
Qed.

(* the set-level specification gives Ok to valid and redundant updates, Err to invalid ones, and
   ignores the redundant and the invalid ones *)
Lemma s_step_classes (S : sstore L) (o : op) :
  match classify L leqb S o with
  | UValid => snd (s_step L leqb S o) = ROk
  | URedundant => s_step L leqb S o = (S, ROk)
  | UInvalid => s_step L leqb S o = (S, RErr)
  end.
Proof.
  destruct o as [l|l|a b|a b]; cbn [classify s_step].
  - destruct (s_find L leqb S l); reflexivity.
  - destruct (s_find L leqb S l); reflexivity.
  - destruct (s_find L leqb S a); [|reflexivity]. destruct (s_find L leqb S b); [|reflexivity].
    destruct (s_has_att L S _); reflexivity.
  - destruct (s_find L leqb S a); [|reflexivity]. destruct (s_find L leqb S b); [|reflexivity].
    destruct (s_has_att L S _); reflexivity.
Qed.

Hypothesis leqb_spec : forall x y, leqb x y = true <-> x = y.

Lemma fresh_reachable os : exists ls os', run_ops fresh_fw os = run_ops (fw_new_with_labels L leqb ls) os'.
Proof. exists [], os. reflexivity. Qed.

Lemma fresh_inv os : Inv L (run_ops fresh_fw os).
Proof. apply (reach_inv L leqb leqb_spec). apply fresh_reachable. Qed.

(* C09 at model level, every history, all six kinds: the update call itself reports Ok for a valid or
   redundant update and Err for an invalid one (never a panic), and the framework the solver keeps
   for the caller is the specification store after the same history *)
Theorem update_refines_spec k s os o : reach k s os ->
  let S := abs L (run_ops fresh_fw os) in
  snd (dyn_update L leqb s o) = snd (s_step L leqb S o) /\
  snd (dyn_update L leqb s o) = (match classify L leqb S o with UInvalid => RErr | _ => ROk end) /\
  spec_fw (fst (dyn_update L leqb s o)) = run_ops fresh_fw (os ++ [o]) /\
  abs L (spec_fw (fst (dyn_update L leqb s o))) =
    (match classify L leqb S o with UValid => fst (s_step L leqb S o) | _ => S end).
Proof.
  intros Hr S. pose proof (reach_frame_inv k s os Hr) as Hi.
  destruct (dyn_update_inv k s os o Hi) as [Hi' Hres].
  destruct (step_refines L leqb leqb_spec (run_ops fresh_fw os) o (fresh_reachable os)) as (H1 & H2 & H3).
  pose proof (s_step_classes S o) as Hc. fold S in H1, H2.
  assert (Hr1 : snd (dyn_update L leqb s o) = snd (s_step L leqb S o)) by congruence.
  split; [exact Hr1|]. split.
  - rewrite Hr1. destruct (classify L leqb S o); try rewrite Hc; reflexivity.
  - split; [exact (fi_spec _ _ _ Hi')|].
    rewrite (fi_spec _ _ _ Hi'), run_ops_snoc, H2.
    destruct (classify L leqb S o); try rewrite Hc; reflexivity.
Qed.

(* a query either leaves the state untouched (cache hit, recompute wrapper) or brings the solver's own
   framework to the specification store of the history so far, with nothing left to replay *)
Theorem query_resynchronises k s os oracle thr fuel q cert l ps ps' s' a :
  reach k s os ->
  dyn_query oracle L leqb thr fuel s q cert l ps = Done (s', a) ps' ->
  s' = s \/ (s_af L s' = run_ops fresh_fw os /\ b_shadow L (s_buf L s') = run_ops fresh_fw os /\
             forall ev, In ev (pending (s_buf L s')) -> is_update_ev L ev = false).
Proof.
  intros Hr Hq. pose proof (reach_frame_inv k s os Hr) as [Hk Hn Hs Hf].
  pose proof (dyn_query_step _ _ _ _ _ _ _ _ _ _ Hq) as Hqs. cbn [fst] in Hqs.
  destruct Hqs as [->|(Hnd & Hk' & Haf & ev & Hev & Hbf & Hnx & Hsh)]; [left; reflexivity|right].
  assert (Hsy : fold_left ev_apply (pending (s_buf L s)) (s_af L s) = b_shadow L (s_buf L s)).
  { unfold DynDefs.synced in Hs. destruct (s_kind L s); try exact Hs. contradiction. }
  assert (Hspec : b_shadow L (s_buf L s) = run_ops fresh_fw os).
  { rewrite <- Hf. unfold DynDefs.spec_fw. destruct (s_kind L s); try reflexivity. contradiction. }
  split; [congruence|]. split; [congruence|].
  intros ev'. unfold DynDefs.pending. rewrite Hnx, Hbf, skipn_app, skipn_all, Nat.sub_diag. cbn [skipn app].
  intros [<-|[]]. exact Hev.
Qed.

(* the recompute wrapper answers by running the static solver on the specification store itself *)
Theorem dummy_framework sm s os : reach (KDummy sm) s os -> s_af L s = run_ops fresh_fw os.
Proof.
  intros Hr. pose proof (reach_frame_inv _ s os Hr) as [Hk _ _ Hf].
  unfold DynDefs.spec_fw in Hf. rewrite Hk in Hf. exact Hf.
Qed.

(* ================================================================ Part B *)
(* a redundant new_argument is a no-op for the encoders: same state, no SAT event (what D6 violated) *)
Lemma enc_new_argument_redundant af e l id ps :
  get_argument af l = Some id -> enc_new_argument L leqb af e l ps = Done (af, e) ps.
Proof. intros H. unfold enc_new_argument. rewrite H. reflexivity. Qed.
Lemma att_new_argument_redundant af e l id ps :
  get_argument af l = Some id -> att_new_argument L leqb af e l ps = Done (af, e) ps.
Proof. intros H. unfold att_new_argument. rewrite H. reflexivity. Qed.
(* replaying a duplicate insertion only marks the argument for re-encoding of its attacker set *)
Lemma std_replay_redundant af e upd l id ps :
  get_argument af l = Some id ->
  std_replay L leqb (af, e, upd) (DNewArg L l) ps = Done (af, e, must_update upd id) ps.
Proof.
  intros H. unfold std_replay. unfold bind. rewrite (enc_new_argument_redundant af e l id ps H).
  cbn [fst snd]. rewrite H. reflexivity.
Qed.
(* at the solver level a redundant or invalid update changes nothing but (for a redundant one) the
   event buffer: the framework kept for the caller, the solver's own framework and the encoder
   are the same *)
Theorem update_touches_no_encoder s o :
  not_dummy (s_kind L s) ->
  s_af L (fst (dyn_update L leqb s o)) = s_af L s /\
  b_enc L (s_buf L (fst (dyn_update L leqb s o))) = b_enc L (s_buf L s) /\
  b_next L (s_buf L (fst (dyn_update L leqb s o))) = b_next L (s_buf L s) /\
  (snd (dyn_update L leqb s o) <> ROk -> fst (dyn_update L leqb s o) = s).
Proof.
  intros Hnd. unfold dyn_update. pose proof (buf_update_spec (s_buf L s) o) as Hb. cbv zeta in Hb.
  destruct Hb as (_ & _ & Hnx & Hen & Hcase).
  destruct (s_kind L s) eqn:Ek; try contradiction;
    destruct (buf_update L leqb (s_buf L s) o) as [b r]; cbn [fst snd s_af s_buf] in *;
    (repeat split; auto; intros Hr; destruct Hcase as [(Hok & _)|(_ & ->)]; [congruence|];
     destruct s; cbn in *; congruence).
Qed.

(* ================================================================ Part C *)
Notation refused_sound := (refused_sound L leqb).
Notation trailing := (trailing L).

Lemma label_slot_unique (sl : list (option (nat * L))) : forall i j pi pj,
  NoDup (map snd (filter_some sl)) -> nth i sl None = Some pi -> nth j sl None = Some pj ->
  snd pi = snd pj -> i = j.
Proof.
  induction sl as [|o r IH]; intros i j pi pj Hnd Hi Hj Hl.
  - destruct i; discriminate.
  - assert (Hr : NoDup (map snd (filter_some r))).
    { destruct o; cbn [filter_some map] in Hnd; [inversion Hnd|]; assumption. }
    destruct i as [|i], j as [|j]; cbn [nth] in Hi, Hj.
    + reflexivity.
    + subst o. cbn [filter_some map] in Hnd. inversion Hnd as [|? ? Hnotin _]; subst.
      exfalso. apply Hnotin. rewrite Hl. apply in_map. apply In_fs_nth. exists j; assumption.
    + subst o. cbn [filter_some map] in Hnd. inversion Hnd as [|? ? Hnotin _]; subst.
      exfalso. apply Hnotin. rewrite <- Hl. apply in_map. apply In_fs_nth. exists i; assumption.
    + f_equal. eapply IH; eassumption.
Qed.

Lemma labels_of_In (af : fw) ids : forall ls l,
  labels_of L af ids = Some ls -> In l ls -> exists i, In i ids /\ label_of L af i = Some l.
Proof.
  induction ids as [|i r IH]; intros ls l H Hin; cbn [labels_of] in H.
  - injection H as <-. destruct Hin.
  - destruct (label_of L af i) as [li|] eqn:Ei; [|discriminate].
    destruct (labels_of L af r) as [lr|] eqn:Er; [|discriminate]. injection H as <-.
    destruct Hin as [<-|Hin].
    + exists i. split; [left; reflexivity|assumption].
    + destruct (IH lr l eq_refl Hin) as (j & Hj & Hl). exists j. split; [right; assumption|assumption].
Qed.

Lemma lmem_In l ls : lmem L leqb l ls = true -> In l ls.
Proof.
  unfold lmem. rewrite existsb_exists. intros (x & Hx & Hl). apply leqb_spec in Hl. subst x. exact Hx.
Qed.

Lemma trues_In (af : fw) v i : In i (trues L af v) -> nth i v false = true.
Proof. unfold trues. rewrite filter_In, andb_true_iff. tauto. Qed.

Lemma neg_bools_nth size cur i : nth i (map negb (bools_of size cur)) false = true -> ~ In i cur.
Proof.
  unfold bools_of. rewrite map_map. intros H Hin.
  destruct (Nat.lt_ge_cases i size) as [Hlt|Hge].
  - rewrite (nth_indep _ false ((fun x => negb (memb x cur)) 0)) in H
      by (rewrite map_length, seq_length; exact Hlt).
    rewrite (map_nth (fun x => negb (memb x cur))) in H. rewrite seq_nth in H by exact Hlt.
    cbn [Nat.add] in H. apply negb_true_iff in H. unfold memb in H.
    assert (T : existsb (Nat.eqb i) cur = true) by (apply existsb_eqb_In; exact Hin). congruence.
  - rewrite nth_overflow in H by (rewrite map_length, seq_length; exact Hge). discriminate.
Qed.

(* the loop of the dynamic preferred solver: whenever it returns a counter-example extension, the
   "refused" flags it returns are raised only for ids outside that extension (what D10 violated) *)
Lemma pr_loop_refused oracle fuel (af : fw) e arg_id : forall k fm in_all missing,
  okm (pr_loop oracle L fuel af e arg_id k fm in_all missing)
      (fun res => forall x, snd res = Some x -> forall i, nth i (snd (fst res)) false = true -> ~ In i x).
Proof.
  induction fuel as [|f IH]; intros k fm in_all missing; cbn [pr_loop]; [apply okm_oof|].
  apply okm_bind_any. intros k'. destruct (k_state k').
  - destruct (negb _).
    + apply okm_ret. cbn [fst snd]. intros x Hx i Hi. injection Hx as <-. eapply neg_bools_nth; eassumption.
    + apply IH.
  - destruct (memb arg_id (k_cur k')); [apply okm_bind_any; intros _|]; apply IH.
  - apply IH.
  - apply okm_ret. cbn [snd]. discriminate.
  - apply IH.
Qed.

(* the event a preferred query appends is sound for the framework it was computed on *)
Definition pr_pushed (s : dsolver) (r : dsolver * answer_t) : Prop :=
  fst r = s \/
  exists af buf ev, encoded (s_af L s) (s_buf L s) (af, buf) /\ is_update_ev L ev = false /\
    fst r = {| s_kind := s_kind L s; s_af := af; s_buf := buf_push L buf ev |} /\
    (Inv L af -> refused_sound af ev).

Lemma pr_ds_query_pushed oracle fuel s l : okm (pr_ds_query oracle L leqb fuel s l) (pr_pushed s).
Proof.
  unfold pr_ds_query.
  destruct (is_skep L leqb (s_buf L s) l) as [[b|] [e|]];
    try (apply okm_ret; left; reflexivity).
  all: eapply okm_bind; [apply update_encoding_spec|]; intros [af buf] Henc;
    destruct (b_enc L buf); [|apply okm_panic];
    apply okm_bind_any; intros nv; apply okm_bind_any; intros arg_id;
    (eapply okm_bind; [apply pr_loop_refused|]);
    intros [[[[k result] acc_b] ref_b] ext] Hloop; cbn [fst snd] in Hloop;
    apply okm_bind_any; intros acc;
    (eapply okm_bind; [apply (okm_opt_m _ (fun refused => labels_of L af (trues L af ref_b) = Some refused)); auto|]);
    intros refused Href; apply okm_bind_any; intros _;
    apply okm_ret; right; exists af, buf, (DSkep L acc refused ext);
    (split; [exact Henc|]); (split; [reflexivity|]); (split; [reflexivity|]);
    intros Hinv; destruct ext as [x|]; cbn [DynDefs.refused_sound]; [|exact I];
    intros l0 id Hmem Hget Hin;
    apply lmem_In in Hmem;
    destruct (labels_of_In af _ _ _ Href Hmem) as (i & Hi & Hlab);
    apply trues_In in Hi;
    assert (Hii : i = id);
    [ unfold label_of in Hlab; destruct (nth i (slots (ls af)) None) as [[i' l']|] eqn:Ei; [|discriminate];
      injection Hlab as ->;
      pose proof (find_label_Some L leqb leqb_spec af l0 id Hinv Hget) as Hid;
      exact (label_slot_unique _ _ _ _ _ (inv_lab L af Hinv) Ei Hid eq_refl)
    | subst i; exact (Hloop x eq_refl id Hi Hin) ].
Qed.

Definition cache_inv (s : dsolver) : Prop :=
  (forall ev, In ev (trailing (s_buf L s)) -> refused_sound (s_af L s) ev) /\
  (trailing (s_buf L s) <> [] -> forall ev, In ev (pending (s_buf L s)) -> is_update_ev L ev = false).

Lemma trailing_snoc (buffer : list devent) ev :
  trailing_rev L (rev (buffer ++ [ev])) =
  if is_update_ev L ev then [] else ev :: trailing_rev L (rev buffer).
Proof. rewrite rev_unit. reflexivity. Qed.

Lemma fold_no_update (evs : list devent) : forall af,
  (forall ev, In ev evs -> is_update_ev L ev = false) -> fold_left ev_apply evs af = af.
Proof.
  induction evs as [|ev r IH]; intros af H; cbn [fold_left]; [reflexivity|].
  assert (He : ev_apply af ev = af).
  { pose proof (H ev (or_introl eq_refl)) as Hu. destruct ev; try discriminate Hu; reflexivity. }
  rewrite He. apply IH. intros ev' Hin. apply H. right; exact Hin.
Qed.

Lemma skep_scan_hit (rb : list devent) l b ext :
  skep_scan L leqb rb l = (Some b, Some ext) ->
  b = false /\ exists ev, In ev (trailing_rev L rb) /\
    exists acc refused, (ev = DSkep L acc refused (Some ext) \/ ev = DCred L acc refused (Some ext)) /\
                        lmem L leqb l refused = true.
Proof.
  induction rb as [|ev r IH]; cbn [skep_scan]; [discriminate|].
  destruct ev as [x|x|x y|x y|acc refused e|acc refused e]; try discriminate; cbn [trailing_rev is_update_ev].
  - destruct e as [e|].
    + destruct (lmem L leqb l refused) eqn:Em.
      * intros H. injection H as <- <-. split; [reflexivity|].
        exists (DCred L acc refused (Some e)). split; [left; reflexivity|]. exists acc, refused. auto.
      * intros H. destruct (IH H) as (Hb & ev & Hin & Hev). split; [exact Hb|]. exists ev. split; [right; exact Hin|exact Hev].
    + intros H. destruct (IH H) as (Hb & ev & Hin & Hev). split; [exact Hb|]. exists ev. split; [right; exact Hin|exact Hev].
  - destruct (lmem L leqb l acc); [discriminate|]. destruct e as [e|].
    + destruct (lmem L leqb l refused) eqn:Em.
      * intros H. injection H as <- <-. split; [reflexivity|].
        exists (DSkep L acc refused (Some e)). split; [left; reflexivity|]. exists acc, refused. auto.
      * intros H. destruct (IH H) as (Hb & ev & Hin & Hev). split; [exact Hb|]. exists ev. split; [right; exact Hin|exact Hev].
    + intros H. destruct (IH H) as (Hb & ev & Hin & Hev). split; [exact Hb|]. exists ev. split; [right; exact Hin|exact Hev].
Qed.

Lemma dyn_query_pr_pushed oracle thr fuel s q cert l :
  s_kind L s = KPr -> okm (dyn_query oracle L leqb thr fuel s q cert l) (pr_pushed s).
Proof.
  intros Hk. unfold dyn_query. rewrite Hk. destruct q; try apply okm_panic.
  eapply okm_bind; [apply pr_ds_query_pushed|]. intros r Hr. apply okm_ret. exact Hr.
Qed.

Lemma pr_cache_inv_reach k s os : reach k s os -> k = KPr -> cache_inv s.
Proof.
  induction 1 as [ps ps' s Hn|s os o Hr IH|s os oracle thr fuel q cert l ps ps' s' a Hr IH Hq]; intros ->.
  - unfold dyn_new in Hn. apply bind_Done in Hn. destruct Hn as (u & ps1 & _ & Hn).
    unfold ret in Hn. injection Hn as <- _. split; cbn [s_buf s_af]; unfold DynDefs.trailing; cbn; [tauto|congruence].
  - specialize (IH eq_refl). pose proof (reach_frame_inv _ _ _ Hr) as [Hk _ _ _].
    unfold dyn_update. rewrite Hk. pose proof (buf_update_spec (s_buf L s) o) as Hb. cbv zeta in Hb.
    destruct Hb as (_ & _ & _ & _ & Hcase).
    destruct (buf_update L leqb (s_buf L s) o) as [b r]. cbn [fst snd] in *.
    destruct Hcase as [(_ & ev & Hev & Hbf & _)|(_ & ->)]; [|exact IH].
    unfold cache_inv, DynDefs.trailing. cbn [s_buf s_af]. rewrite Hbf, trailing_snoc, Hev.
    split; [intros ev' []|congruence].
  - specialize (IH eq_refl). pose proof (reach_frame_inv _ _ _ Hr) as [Hk Hn Hs Hf].
    pose proof (dyn_query_pr_pushed _ _ _ _ _ _ _ Hk _ _ _ Hq) as Hp. unfold pr_pushed in Hp. cbn [fst] in Hp.
    destruct Hp as [->|(af & buf & ev & Henc & Hev & -> & Hsound)]; [exact IH|].
    destruct Henc as (H1 & H2 & H3 & H4 & _). cbn [fst snd] in *.
    assert (Hsy : fold_left ev_apply (pending (s_buf L s)) (s_af L s) = run_ops fresh_fw os).
    { unfold DynDefs.synced in Hs. unfold DynDefs.spec_fw in Hf. rewrite Hk in Hs, Hf. congruence. }
    destruct IH as [IH1 IH2].
    unfold cache_inv, DynDefs.trailing, DynDefs.pending, buf_push, buf_with. cbn [s_buf s_af b_buffer b_next].
    rewrite H2, trailing_snoc, Hev. split.
    + intros ev' [<-|Hin].
      * apply Hsound. rewrite H1, Hsy. apply fresh_inv.
      * assert (Hne : trailing (s_buf L s) <> []).
        { unfold DynDefs.trailing. intros E. rewrite E in Hin. destruct Hin. }
        rewrite H1, (fold_no_update _ _ (IH2 Hne)). apply IH1. exact Hin.
    + intros _ ev'. rewrite H3, skipn_app, skipn_all, Nat.sub_diag. cbn [skipn app].
      intros [<-|[]]. exact Hev.
Qed.

(* the cache of the dynamic preferred solver: in every reachable state, whatever the history and
   whatever the SAT solver answered, a certificate served from the cache for argument l is a NO
   certificate that does not contain l *)
Theorem pr_cache_sound s os l b ext :
  reach KPr s os -> is_skep L leqb (s_buf L s) l = (Some b, Some ext) ->
  b = false /\ forall id, get_argument (s_af L s) l = Some id -> ~ In id ext.
Proof.
  intros Hr Hhit. destruct (pr_cache_inv_reach _ _ _ Hr eq_refl) as [Hc _].
  unfold is_skep in Hhit. destruct (skep_scan_hit _ _ _ _ Hhit) as (Hb & ev & Hin & acc & refused & Hev & Hmem).
  split; [exact Hb|]. intros id Hget. specialize (Hc ev Hin).
  destruct Hev as [->| ->]; cbn [DynDefs.refused_sound] in Hc; exact (Hc l id Hmem Hget).
Qed.
End DynProofs.
