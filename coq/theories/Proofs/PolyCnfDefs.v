(* Executable form of the POLYNOMIAL CNF ORACLE of the check of C10
     checks/C10.py  _propagate         unit propagation from a partial assignment
     checks/C10.py  cnf_poly_verdict   the assignment induced by an argument set (function `run`)
   Definitions only; the theorems are in Proofs/PolyCnf.v and stated in Properties/C10poly.v.

   A partial assignment is the python dict {var: bool}: an association list, the first binding of
   a variable counts ([up_sweep] only ever adds a binding for a variable that has none).
   A literal l is the DIMACS integer; its variable is [lit_var l] = |l|, its sign [lit_sign l] = (l > 0);
   python `assign.get(abs(l)) == (l > 0)` is [pa_lit_true], `assign.get(abs(l)) is None` is [pa_lit_free]. *)
From Coq Require Import List Arith ZArith Bool.
From Crusta Require Import Spec.AF Sat.Cnf Model.Encoders.
Import ListNotations.

Definition passign := list (nat * bool).

Fixpoint pa_get (a : passign) (v : nat) : option bool :=
  match a with
  | [] => None
  | (w, b) :: r => if Nat.eqb w v then Some b else pa_get r v
  end.

Definition lit_sign (l : lit) : bool := Z.ltb 0 l.

Definition pa_lit_true (a : passign) (l : lit) : bool :=
  match pa_get a (lit_var l) with Some b => Bool.eqb b (lit_sign l) | None => false end.
Definition pa_lit_free (a : passign) (l : lit) : bool :=
  match pa_get a (lit_var l) with None => true | Some _ => false end.
(* python `sat` and `free` of one clause *)
Definition pa_sat (a : passign) (c : clause) : bool := existsb (pa_lit_true a) c.
Definition pa_free (a : passign) (c : clause) : list lit := filter (pa_lit_free a) c.

(* one sweep over the clause list (the `for cl in clauses` loop): a satisfied clause is skipped, a
   clause without a free literal is a conflict ([None]), a clause with exactly one free literal
   extends the assignment AT ONCE (the following clauses of the same sweep see it) and sets
   `changed`; the second component is `changed` *)
Fixpoint up_sweep (cls : cnf) (a : passign) (ch : bool) : option (passign * bool) :=
  match cls with
  | [] => Some (a, ch)
  | c :: r =>
      if pa_sat a c then up_sweep r a ch
      else match pa_free a c with
           | [] => None
           | [l] => up_sweep r ((lit_var l, lit_sign l) :: a) true
           | _ => up_sweep r a ch
           end
  end.

(* the `while changed` loop, at most k sweeps: [None] = conflict, otherwise the assignment reached
   and whether the last sweep left it unchanged (python leaves the loop exactly then) *)
Fixpoint up_loop (k : nat) (cls : cnf) (a : passign) : option (passign * bool) :=
  match k with
  | O => Some (a, false)
  | S k' =>
      match up_sweep cls a false with
      | None => None
      | Some (a', true) => up_loop k' cls a'
      | Some (a', false) => Some (a', true)
      end
  end.

Inductive up_result := UpConflict | UpModel | UpOpen.

(* the final test of `_propagate`: every clause satisfied -> model, otherwise open *)
Definition up_run_fuel (k : nat) (cls : cnf) (a : passign) : up_result :=
  match up_loop k cls a with
  | None => UpConflict
  | Some (a', _) => if forallb (pa_sat a') cls then UpModel else UpOpen
  end.

(* every sweep but the last binds a variable that occurs in a clause and had no binding: one more
   sweep than there are literal occurrences is enough ([PolyCnf.up_fuel_enough]) *)
Definition up_fuel (cls : cnf) : nat := S (length (concat cls)).
Definition up_run (cls : cnf) (a : passign) : up_result := up_run_fuel (up_fuel cls) cls a.

(* a total valuation extends a partial assignment *)
Definition pa_ext (m : val) (a : passign) : Prop := forall v b, pa_get a v = Some b -> m v = b.
(* a' keeps every binding of a *)
Definition pa_le (a a' : passign) : Prop := forall v b, pa_get a v = Some b -> pa_get a' v = Some b.

(* ---------- the assignment induced by an argument set (python `run(S)`) ----------
     asg[abs(a2l[i])] = (i in S) == (a2l[i] > 0)         a2l[i] = arg_to_lit e i is positive
     asg[frv + i]     = (i in S) or (i in hit)           frv + i = range_var e n i, range variant only *)
Definition induced_args (e : enc) (n : nat) (S : list nat) : passign :=
  map (fun i => (arg_var e i, memb i S)) (seq 0 n).
Definition induced_range (e : enc) (n : nat) (F : af) (S : list nat) : passign :=
  map (fun i => (range_var e n i, in_rangeb F S i)) (seq 0 n).
Definition induced (e : enc) (n : nat) (range : bool) (F : af) (S : list nat) : passign :=
  induced_args e n S ++ (if range then induced_range e n F S else []).
