(* Foundations of the top-level theorems (Proofs/SolverTop.v):
   - [view_good]: the one notion of "the view g presents the framework F" (conjunction of the
     hypotheses of Proofs/GroundedProofs.v and Proofs/CompProofs.v), with its two instances
     (compact frameworks, reachable stores) and what follows from it: the hypotheses Hcc, Hmerged,
     Hgr, Hgr_cc, Hgr_cc_nd of Proofs/SolverWhole.v;
   - [run_ok]: the shape of every top-level statement (value of a completed run, no Panic, number
     of SAT calls of every kind of run, OutOfFuel only without enough fuel) and its rules;
   - the generic loop over components [for_ccs], gluing and locality of acceptance. *)
From Crusta Require Import Spec.AF Sat.Cnf Sat.Prog Model.Store Model.Encoders Model.Graph Model.Solvers.
From Crusta Require Import Spec.SemFacts Spec.Theory Spec.Invariance Proofs.Decomp.
From Crusta Require Import Proofs.ProgLaws Proofs.EncSpec Proofs.EncBase Proofs.EncAll
  Proofs.SolverBasics Proofs.SolverCc Proofs.SolverThms Proofs.CallBounds Proofs.SolverWhole.
From Crusta Require Proofs.GroundedProofs Proofs.CompProofs.
From Coq Require Import ZifyBool.
Import ListNotations.
Open Scope prog_scope.

(* ------------------------------------------------------------------------------------------ *)
(** * 1. One notion of good view *)

Definition view_good (g : gview) (F : af) : Prop :=
  GroundedProofs.view_ok g F /\ CompProofs.view_ok g F.

Theorem view_good_compact : forall F n, compact_af F n -> view_good (view_of_af F) F.
Proof.
  intros F n HF. split; [exact (GroundedProofs.view_of_af_ok F n HF)|exact (CompProofs.view_of_af_ok F n HF)].
Qed.

(* the two developments denote a store by the same framework and use the same reachability *)
Lemma af_of_agree : forall L (f : fw L), GroundedProofs.af_of L f = CompProofs.af_of f.
Proof. reflexivity. Qed.

Lemma reachable_agree : forall L (leqb : L -> L -> bool) (f : fw L),
  GroundedProofs.reachable L leqb f <->
  exists ls os, f = run_ops L leqb (fw_new_with_labels L leqb ls) os.
Proof. intros L leqb f. reflexivity. Qed.

Theorem view_good_store : forall L (leqb : L -> L -> bool),
  (forall x y, leqb x y = true <-> x = y) ->
  forall f : fw L, GroundedProofs.reachable L leqb f ->
  view_good (view_of_fw f) (GroundedProofs.af_of L f).
Proof.
  intros L leqb Hl f Hr. split.
  - exact (GroundedProofs.view_of_fw_ok L leqb Hl f Hr).
  - rewrite af_of_agree. exact (CompProofs.view_of_fw_ok L leqb Hl f Hr).
Qed.

Lemma vg_wf : forall g F, view_good g F -> wf F.
Proof. intros g F [_ H]. exact (CompProofs.v_wf g F H). Qed.

(* Hcc *)
Lemma vg_cc : forall g F, view_good g F -> exists ccs, all_ccs g = Some ccs /\ decomp_ok F ccs.
Proof. intros g F [_ H]. exact (CompProofs.all_ccs_ok g F H). Qed.

(* Hmerged, for every list of arguments (also the empty one), with the local ids *)
Lemma vg_merged : forall g F al, view_good g F -> (forall a, In a al -> In a (args F)) ->
  exists s' c la rest,
    merged_cc_of g (cc_new g) al = Some (s', c) /\ locals c al = Some la /\
    map (cc_global c) la = al /\ (forall i, In i la -> i < length (c_ids c)) /\
    remaining_ccs g s' = Some rest /\ decomp_ok F (c :: rest).
Proof.
  intros g F al [_ H] Hal.
  destruct (CompProofs.merged_locals_ok g F al H Hal) as [s' [c [la [H1 [H2 [H3 [H4 [rest [H5 H6]]]]]]]]].
  exists s', c, la, rest. tauto.
Qed.

(* Hmerged in the exact form of SolverWhole.v *)
Lemma vg_merged_whole : forall g F, view_good g F ->
  forall al, al <> [] -> (forall a, In a al -> In a (args F)) ->
  exists s' c rest,
    merged_cc_of g (cc_new g) al = Some (s', c) /\ (forall a, In a al -> In a (c_ids c)) /\
    remaining_ccs g s' = Some rest /\ decomp_ok F (c :: rest).
Proof.
  intros g F [_ H] al _ Hal.
  destruct (CompProofs.merged_cc_ok g F al H Hal) as [s' [c [H1 [H2 [rest [H3 H4]]]]]].
  exists s', c, rest. tauto.
Qed.

(* Hgr *)
Lemma vg_gr : forall g F, view_good g F -> gr F (grounded g) /\ NoDup (grounded g).
Proof. intros g F Hv. exact (GroundedProofs.grounded_correct g F (vg_wf g F Hv) (proj1 Hv)). Qed.

(* Hgr_cc and Hgr_cc_nd: the grounded computation on every component of every decomposition *)
Lemma comp_gr : forall F ccs c, decomp_ok F ccs -> In c ccs ->
  gr (c_af c) (grounded (view_of_af (c_af c))) /\ NoDup (grounded (view_of_af (c_af c))).
Proof.
  intros F ccs c Hok Hc.
  exact (GroundedProofs.grounded_compact (c_af c) (length (c_ids c)) (d_compact _ _ Hok c Hc)).
Qed.

Lemma comp_gr_co : forall F ccs c, decomp_ok F ccs -> In c ccs ->
  co (c_af c) (grounded (view_of_af (c_af c))).
Proof.
  intros F ccs c Hok Hc. apply (gr_co (c_af c)); [exact (comp_af_wf F ccs Hok c Hc)|].
  exact (proj1 (comp_gr F ccs c Hok Hc)).
Qed.

(* ------------------------------------------------------------------------------------------ *)
(** * 2. The shape of the statements *)

(* [r] is the result of a run started with call counter [c0]:
   - a completed run returns a value satisfying [Q];
   - the run does not panic;
   - whatever its kind (completed, aborted on an Unknown answer, out of fuel) it made at most [K]
     SAT calls;
   - it runs out of fuel only when the fuel condition [fo] fails. *)
Definition run_ok {A} (r : res A) (c0 K : nat) (fo : Prop) (Q : A -> Prop) : Prop :=
  match r with
  | Done a s' => Q a /\ calls s' <= c0 + K
  | Abort s' => calls s' <= c0 + K
  | Panic _ => False
  | OutOfFuel s' => calls s' <= c0 + K /\ ~ fo
  end.

(* the same as a weakest precondition with an absolute call budget *)
Notation wpK Kabs fo :=
  (wp (fun s' => calls s' <= Kabs) (fun _ => False) (fun s' => calls s' <= Kabs /\ ~ fo)).

Lemma run_ok_intro A (m : M A) s K fo (Q : A -> Prop) :
  wpK (calls s + K) fo m (fun a s' => Q a /\ calls s' <= calls s + K) s ->
  run_ok (m s) (calls s) K fo Q.
Proof. unfold wp, run_ok. destruct (m s); auto. Qed.

(* using a [run_ok] fact inside a [wpK] derivation *)
Lemma wpK_run_ok A (m : M A) s K1 (fo1 : Prop) (Q1 : A -> Prop) Kabs (fo : Prop) (Q : A -> Prog.st -> Prop) :
  run_ok (m s) (calls s) K1 fo1 Q1 ->
  calls s + K1 <= Kabs -> (fo -> fo1) ->
  (forall a s', Q1 a -> calls s' <= calls s + K1 -> Q a s') ->
  wpK Kabs fo m Q s.
Proof.
  unfold wp, run_ok. intros H HK Hfo HQ. destruct (m s) as [a s'|s'|s'|s'].
  - destruct H as [H1 H2]. now apply HQ.
  - lia.
  - exact H.
  - destruct H as [H1 H2]. split; [lia|]. intros Hf. apply H2, Hfo, Hf.
Qed.

Lemma run_ok_weaken A (r : res A) c0 K K' (fo fo' : Prop) (Q Q' : A -> Prop) :
  K <= K' -> (fo' -> fo) -> (forall a, Q a -> Q' a) ->
  run_ok r c0 K fo Q -> run_ok r c0 K' fo' Q'.
Proof.
  unfold run_ok. intros HK Hfo HQ. destruct r as [a s'|s'|s'|s'].
  - intros [H1 H2]. split; [now apply HQ|lia].
  - lia.
  - auto.
  - intros [H1 H2]. split; [lia|]. intros Hf. apply H2, Hfo, Hf.
Qed.

(* a functional fact proved separately (e.g. an [on_done] theorem) can be added *)
Lemma run_ok_and A (r : res A) c0 K fo (Q Q' : A -> Prop) :
  run_ok r c0 K fo Q -> match r with Done a _ => Q' a | _ => True end ->
  run_ok r c0 K fo (fun a => Q a /\ Q' a).
Proof. unfold run_ok. destruct r; tauto. Qed.

Lemma run_ok_on_done A (m : M A) s K fo (Q : A -> Prop) :
  run_ok (m s) (calls s) K fo (fun _ => True) -> on_done m Q -> run_ok (m s) (calls s) K fo Q.
Proof.
  intros H Hd. specialize (Hd s). unfold run_ok in *. destruct (m s); tauto.
Qed.

(* what the statements give, one aspect at a time *)
Lemma run_ok_done A (r : res A) c0 K fo Q :
  run_ok r c0 K fo Q -> match r with Done a _ => Q a | _ => True end.
Proof. destruct r; cbn; tauto. Qed.
Lemma run_ok_no_panic A (r : res A) c0 K fo Q :
  run_ok r c0 K fo Q -> match r with Panic _ => False | _ => True end.
Proof. destruct r; cbn; tauto. Qed.
Lemma run_ok_calls A (r : res A) c0 K fo Q :
  run_ok r c0 K fo Q -> calls (final_st r) <= c0 + K.
Proof. destruct r; cbn; tauto. Qed.
Lemma run_ok_fuel A (r : res A) c0 K (fo : Prop) Q :
  run_ok r c0 K fo Q -> fo -> match r with OutOfFuel _ => False | _ => True end.
Proof. destruct r; cbn; tauto. Qed.

(* ------------------------------------------------------------------------------------------ *)
(** * 3. Steps that make no SAT call *)

Lemma add_clauses_done : forall C s, add_clauses C s = Done tt (st_adds s C).
Proof.
  induction C as [|c r IH]; intros s; cbn [add_clauses st_adds]; [reflexivity|].
  unfold bind, add_clause. fold (sess_add (sess s) c). fold (st_add s c). apply IH.
Qed.

Lemma encode_m_done : forall thr e range F r C s,
  encode_af e thr range F = Some (r, C) -> encode_m thr e range F s = Done tt (st_encoded s r C).
Proof.
  intros thr e range F r C s HE. unfold encode_m. rewrite HE. unfold bind, st_encoded.
  destruct r as [k|]; cbn [reserve ret]; apply add_clauses_done.
Qed.

Lemma calls_encoded : forall s r C, calls (st_encoded s r C) = calls s.
Proof. intros s r C. unfold st_encoded. rewrite st_adds_calls. destruct r; reflexivity. Qed.

(* ------------------------------------------------------------------------------------------ *)
(** * 4. The loop over components *)

Definition sumB (B : comp -> nat) (l : list comp) : nat := list_sum (map B l).

Lemma sumB_cons B c l : sumB B (c :: l) = B c + sumB B l.
Proof. reflexivity. Qed.

Lemma sumB_in B c l : In c l -> B c <= sumB B l.
Proof.
  induction l as [|d r IH]; intros H; [destruct H|]. rewrite sumB_cons.
  destruct H as [->|H]; [lia|]. specialize (IH H). lia.
Qed.

(* every body run appends the lifting of a local set satisfying [P]; the loop returns the start
   value followed by the gluing of one such set per component *)
Lemma for_ccs_wpK (B : comp -> nat) (fo : Prop) (P : comp -> list nat -> Prop)
      (f : list nat -> comp -> M (list nat)) Kabs :
  forall l acc s (Q : list nat -> Prog.st -> Prop),
  (forall c merged s0, In c l ->
     run_ok (f merged c s0) (calls s0) (B c) fo (fun r => exists x, P c x /\ r = merged ++ lift c x)) ->
  calls s + sumB B l <= Kabs ->
  (forall Ls s', Forall2 P l Ls -> calls s' <= calls s + sumB B l -> Q (acc ++ glue l Ls) s') ->
  wpK Kabs fo (for_ccs l acc f) Q s.
Proof.
  induction l as [|c r IH]; intros acc s Q Hbody HK HQ; cbn [for_ccs].
  - rewrite wp_ret. specialize (HQ [] s (Forall2_nil _)). cbn [glue] in HQ. rewrite app_nil_r in HQ.
    apply HQ. lia.
  - rewrite sumB_cons in HK. rewrite wp_bind.
    apply (wpK_run_ok _ _ _ _ _ _ _ _ _ (Hbody c acc s (or_introl eq_refl))); [lia|tauto|].
    intros a s' [x [Hx ->]] Hc. apply IH.
    + intros c' merged s0 Hc'. apply Hbody. now right.
    + lia.
    + intros Ls s'' HLs Hc''. specialize (HQ (x :: Ls) s'' (Forall2_cons _ _ Hx HLs)).
      cbn [glue] in HQ. rewrite app_assoc in HQ. apply HQ. rewrite sumB_cons. lia.
Qed.

Lemma for_ccs_ok (B : comp -> nat) (fo : Prop) (P : comp -> list nat -> Prop)
      (f : list nat -> comp -> M (list nat)) l acc s :
  (forall c merged s0, In c l ->
     run_ok (f merged c s0) (calls s0) (B c) fo (fun r => exists x, P c x /\ r = merged ++ lift c x)) ->
  run_ok (for_ccs l acc f s) (calls s) (sumB B l) fo
         (fun r => exists Ls, Forall2 P l Ls /\ r = acc ++ glue l Ls).
Proof.
  intros Hbody. apply run_ok_intro. apply (for_ccs_wpK B fo P f); [exact Hbody|lia|].
  intros Ls s' HLs Hc. split; [now exists Ls|exact Hc].
Qed.

(* ------------------------------------------------------------------------------------------ *)
(** * 5. Gluing with a distinguished first component, locality of acceptance *)

Section Merged.
  Variable F : af.
  Variable c : comp.
  Variable rest : list comp.
  Hypothesis Hok : decomp_ok F (c :: rest).

  (* membership of an argument of the first component in a gluing is membership in the first set *)
  Lemma glue_head_in : forall X Ls i,
    Forall2 local_set (c :: rest) (X :: Ls) -> i < length (c_ids c) ->
    (In (cc_global c i) (glue (c :: rest) (X :: Ls)) <-> In i X).
  Proof.
    intros X Ls i Hloc Hi. split.
    - intros Hx. apply in_glue in Hx. destruct Hx as [c' [S' [Hin Hx]]].
      apply in_lift in Hx. destruct Hx as [j [Hj E]].
      pose proof (in_combine_l _ _ _ _ Hin) as Hc'.
      pose proof (Forall2_combine _ _ _ _ _ Hloc c' S' Hin) as [_ HS'].
      assert (Hjlt : j < length (c_ids c')) by (apply HS' in Hj; apply in_seq in Hj; lia).
      assert (Hcc' : c' = c).
      { apply (comps_disjoint (c :: rest) c' c (cc_global c i) (d_nodup _ _ Hok) Hc' (or_introl eq_refl)).
        - rewrite <- E. apply (cc_global_in c' j Hjlt).
        - apply (cc_global_in c i Hi). }
      subst c'. unfold cc_global in E.
      apply (proj1 (NoDup_nth (c_ids c) 0) (comp_ids_NoDup F (c :: rest) Hok c (or_introl eq_refl))) in E;
        [|exact Hjlt|exact Hi].
      subst j.
      rewrite (combine_unique (c :: rest) (X :: Ls) c X S' (cc_global c i) (d_nodup _ _ Hok)
                 (cc_global_in c i Hi) (or_introl eq_refl) Hin). exact Hj.
    - intros HiX. cbn [glue]. apply in_or_app. left. apply in_lift. now exists i.
  Qed.

  Lemma glue_head_meets : forall X Ls la,
    Forall2 local_set (c :: rest) (X :: Ls) -> (forall i, In i la -> i < length (c_ids c)) ->
    ((exists a, In a (map (cc_global c) la) /\ In a (glue (c :: rest) (X :: Ls))) <->
     meets la X = true).
  Proof.
    intros X Ls la Hloc Hla. rewrite meets_spec. split.
    - intros [a [Ha HaL]]. apply in_map_iff in Ha. destruct Ha as [i [<- Hi]]. exists i.
      split; [exact Hi|]. now apply (glue_head_in X Ls i Hloc (Hla i Hi)).
    - intros [i [Hi HiX]]. exists (cc_global c i). split; [now apply in_map|].
      now apply (glue_head_in X Ls i Hloc (Hla i Hi)).
  Qed.

  (* every component of a decomposition has an extension, except possibly under ST *)
  Lemma comps_have_ext : forall s, s <> ST ->
    forall c', In c' (c :: rest) -> exists S, ext s (c_af c') S.
  Proof.
    intros s Hs c' Hc'. apply ext_exists; [exact (comp_af_wf F (c :: rest) Hok c' Hc')|exact Hs].
  Qed.

  Lemma cred_local : forall s la, s <> ST -> (forall i, In i la -> i < length (c_ids c)) ->
    (cred s F (map (cc_global c) la) <-> cred s (c_af c) la).
  Proof.
    intros s la Hs Hla. apply (cred_comp F (c :: rest) Hok s c la (or_introl eq_refl)).
    - intros i Hi. apply in_seq. specialize (Hla i Hi). lia.
    - exact (comps_have_ext s Hs).
  Qed.

  Lemma skep_local : forall s la, s <> ST -> (forall i, In i la -> i < length (c_ids c)) ->
    (skep s F (map (cc_global c) la) <-> skep s (c_af c) la).
  Proof.
    intros s la Hs Hla. apply (skep_comp F (c :: rest) Hok s c la (or_introl eq_refl)).
    - intros i Hi. apply in_seq. specialize (Hla i Hi). lia.
    - exact (comps_have_ext s Hs).
  Qed.

  (* a certificate: an extension of the first component completed by one extension per other
     component *)
  Lemma glue_cert : forall s X Ls,
    ext s (c_af c) X -> NoDup X -> Forall2 (fun c' S => ext s (c_af c') S /\ NoDup S) rest Ls ->
    let L := lift c X ++ glue rest Ls in
    ext s F L /\ NoDup L /\ incl L (args F) /\
    forall la, (forall i, In i la -> i < length (c_ids c)) ->
      ((exists a, In a (map (cc_global c) la) /\ In a L) <-> meets la X = true).
  Proof.
    intros s X Ls HX Hnd HLs L.
    assert (Hall : Forall2 (fun c' S => ext s (c_af c') S /\ NoDup S) (c :: rest) (X :: Ls)).
    { constructor; [now split|exact HLs]. }
    destruct (glue_ext_full F (c :: rest) Hok s (X :: Ls) Hall) as [H1 [H2 H3]].
    split; [exact H1|]. split; [exact H2|]. split; [exact H3|].
    intros la Hla. apply (glue_head_meets X Ls la); [|exact Hla].
    eapply Forall2_impl; [|exact Hall]. intros c' S Hc' [Hext HndS].
    exact (ext_local_set F (c :: rest) Hok s c' S Hc' HndS Hext).
  Qed.
End Merged.

(* ------------------------------------------------------------------------------------------ *)
(** * 6. The components a query works on, and their call bounds *)

Definition all_comps (g : gview) : list comp :=
  match all_ccs g with Some l => l | None => [] end.

Definition merged_comps (g : gview) (al : list nat) : list comp :=
  match merged_cc_of g (cc_new g) al with
  | Some (s', c) => c :: match remaining_ccs g s' with Some r => r | None => [] end
  | None => []
  end.

Lemma all_comps_eq g ccs : all_ccs g = Some ccs -> all_comps g = ccs.
Proof. unfold all_comps. now intros ->. Qed.

Lemma merged_comps_eq g al s' c rest :
  merged_cc_of g (cc_new g) al = Some (s', c) -> remaining_ccs g s' = Some rest ->
  merged_comps g al = c :: rest.
Proof. unfold merged_comps. now intros -> ->. Qed.

Theorem all_comps_decomp : forall g F, view_good g F -> decomp_ok F (all_comps g).
Proof. intros g F Hv. destruct (vg_cc g F Hv) as [ccs [H1 H2]]. now rewrite (all_comps_eq g ccs H1). Qed.

Theorem merged_comps_decomp : forall g F al, view_good g F ->
  (forall a, In a al -> In a (args F)) -> decomp_ok F (merged_comps g al).
Proof.
  intros g F al Hv Hal. destruct (vg_merged g F al Hv Hal) as [s' [c [la [rest [H1 [_ [_ [_ [H2 H3]]]]]]]]].
  now rewrite (merged_comps_eq g al s' c rest H1 H2).
Qed.

Print Assumptions view_good_compact.
Print Assumptions view_good_store.
Print Assumptions for_ccs_ok.
Print Assumptions glue_cert.
Print Assumptions all_comps_decomp.
Print Assumptions merged_comps_decomp.
