(* The clause templates of the dynamic encoder are a correct encoding (the C10 theorem for
   src/dynamics/dynamic_constraints_encoder.rs): for a framework given by its live ids and the
   attacker lists, an assignment of distinct positive variables to arguments (the attacker
   disjunction variable being the next one) and of selectors, the groups emitted by
   add_attacks_to_constraints_for_{complete,stable}_semantics, under true selectors, have exactly
   the complete (resp. stable) extensions as models restricted to the argument variables. *)
From Crusta Require Import Model.Dynamic Proofs.EncBase.
From Coq Require Import Lia ZifyBool.

Section Template.
Variable ids : list nat.              (* live argument ids *)
Variable atk : nat -> list nat.       (* attackers of an argument, iteration order, duplicates allowed *)
Hypothesis atk_live : forall a b, In a ids -> In b (atk a) -> In b ids.
Variables av sel : nat -> nat.        (* variable / current selector of an argument *)
Hypothesis av_pos : forall a, 0 < av a.
Hypothesis sel_pos : forall a, 0 < sel a.

(* the framework *)
Definition tF : af := {| args := ids; atts := flat_map (fun a => map (fun b => (b, a)) (atk a)) ids |}.

Lemma tF_att a b : att tF b a <-> In a ids /\ In b (atk a).
Proof.
  unfold att, tF. cbn [atts]. rewrite in_flat_map. split.
  - intros (a' & Ha' & Hin). apply in_map_iff in Hin. destruct Hin as (b' & E & Hb'). injection E as -> ->. auto.
  - intros [Ha Hb]. exists a. split; [exact Ha|]. apply in_map_iff. exists b. auto.
Qed.

Definition S_of (m : val) : list nat := filter (fun a => m (av a)) ids.
Lemma in_S_of m a : In a (S_of m) <-> In a ids /\ m (av a) = true.
Proof. unfold S_of. rewrite filter_In. tauto. Qed.

Lemma neg_zlit v : negate (zlit v) = znlit v.
Proof. reflexivity. Qed.

(* ---------------------------------------------------------------- complete semantics *)
Definition co_group (a : nat) : cnf :=
  [znlit (av a); znlit (S (av a))] :: co_clauses (zlit (sel a)) (av a) (map av (atk a)).

Lemma co_clauses_spec m sl tv (bs : list nat) :
  0 < sl -> 0 < tv -> m sl = true ->
  (vmodels m (co_clauses (zlit sl) tv (map av bs)) = true <->
   (forall b, In b bs -> m tv = true -> m (S (av b)) = true) /\
   (m tv = true \/ exists b, In b bs /\ m (S (av b)) = false) /\
   (forall b, In b bs -> m (av b) = true -> m (S tv) = true) /\
   (m (S tv) = true -> exists b, In b bs /\ m (av b) = true)).
Proof.
  intros Hsl Htv Hm. unfold co_clauses. rewrite !neg_zlit, !map_map.
  rewrite !vmodels_app_iff, !vmodels_single, !vmodels_map.
  cbn [app]. rewrite !vsat_cons, !vtrue_znlit, Hm. cbn [negb orb].
  rewrite (vtrue_zlit m tv Htv).
  rewrite (vsat_map_znlit m (fun b => S (av b))), (vsat_map_zlit m av) by exact av_pos.
  split.
  - intros (H1 & H2 & H3 & H4). repeat split.
    + intros b Hb Ht. specialize (H1 b Hb). rewrite !vsat_cons, !vtrue_znlit, Hm, Ht in H1. cbn [negb orb] in H1.
      rewrite vtrue_zlit in H1 by lia. rewrite vsat_nil, orb_false_r in H1. exact H1.
    + destruct (m tv) eqn:Et; [left; reflexivity|right]. cbn [orb] in H2.
      apply existsb_exists in H2. destruct H2 as (b & Hb & Hn). exists b. split; [exact Hb|]. now apply negb_true_iff.
    + intros b Hb Hmb. specialize (H3 b Hb). rewrite !vsat_cons, !vtrue_znlit, Hm, Hmb in H3. cbn [negb orb] in H3.
      rewrite vtrue_zlit in H3 by lia. rewrite vsat_nil, !orb_false_r in H3. exact H3.
    + intros Hd. rewrite Hd in H4. cbn [negb orb] in H4. apply existsb_exists in H4. exact H4.
  - intros (H1 & H2 & H3 & H4). repeat split.
    + intros b Hb. rewrite !vsat_cons, !vtrue_znlit, Hm. cbn [negb orb]. rewrite vtrue_zlit by lia.
      rewrite vsat_nil, orb_false_r. destruct (m tv) eqn:Et; [|reflexivity]. cbn [negb orb]. now apply H1.
    + destruct H2 as [->|(b & Hb & Hn)]; [reflexivity|]. apply orb_true_iff. right.
      apply existsb_exists. exists b. split; [exact Hb|]. now rewrite Hn.
    + intros b Hb. rewrite !vsat_cons, !vtrue_znlit, Hm. cbn [negb orb]. rewrite vtrue_zlit by lia.
      rewrite vsat_nil, orb_false_r. destruct (m (av b)) eqn:Eb; [|now rewrite orb_true_r].
      cbn [negb]. rewrite orb_false_r. now apply (H3 b).
    + destruct (m (S tv)) eqn:Ed; [|reflexivity]. cbn [negb orb]. apply existsb_exists. now apply H4.
Qed.

Section CoSound.
Variable m : val.
Hypothesis Hsel : forall a, In a ids -> m (sel a) = true.
Hypothesis Hmod : forall a, In a ids -> vmodels m (co_group a) = true.

Lemma co_group_facts a : In a ids ->
  (m (av a) = true -> m (S (av a)) = true -> False) /\
  (forall b, In b (atk a) -> m (av a) = true -> m (S (av b)) = true) /\
  (m (av a) = true \/ exists b, In b (atk a) /\ m (S (av b)) = false) /\
  (forall b, In b (atk a) -> m (av b) = true -> m (S (av a)) = true) /\
  (m (S (av a)) = true -> exists b, In b (atk a) /\ m (av b) = true).
Proof.
  intros Ha. pose proof (Hmod a Ha) as H. unfold co_group in H. apply vmodels_cons_iff in H. destruct H as [H0 H].
  apply (co_clauses_spec m (sel a) (av a) (atk a) (sel_pos a) (av_pos a) (Hsel a Ha)) in H.
  destruct H as (H1 & H2 & H3 & H4). repeat split; auto.
  intros Hv Hd. rewrite vsat_cons, vsat_cons, vsat_nil, !vtrue_znlit, Hv, Hd in H0. discriminate.
Qed.

Lemma co_disj_sem a : In a ids -> (m (S (av a)) = true <-> exists b, In b (S_of m) /\ att tF b a).
Proof.
  intros Ha. destruct (co_group_facts a Ha) as (_ & _ & _ & H3 & H4). split.
  - intros Hd. destruct (H4 Hd) as (b & Hb & Hmb). exists b. split.
    + apply in_S_of. split; [eapply atk_live; eassumption|exact Hmb].
    + apply tF_att. auto.
  - intros (b & Hb & Hab). apply in_S_of in Hb. apply tF_att in Hab. apply (H3 b); tauto.
Qed.

Theorem co_template_sound : co tF (S_of m).
Proof.
  assert (Hincl : incl (S_of m) (args tF)) by (intros a Ha; apply in_S_of in Ha; exact (proj1 Ha)).
  assert (Hcf : cf tF (S_of m)).
  { intros a b Ha Hb Hab. apply in_S_of in Hb. destruct Hb as [Hbi Hmb].
    destruct (co_group_facts b Hbi) as (H0 & _). apply H0; [exact Hmb|].
    apply (co_disj_sem b Hbi). exists a. auto. }
  split; [split; [exact Hincl|split; [exact Hcf|]]|].
  - intros a Ha b Hb. apply in_S_of in Ha. destruct Ha as [Hai Hma]. apply tF_att in Hb. destruct Hb as [_ Hb].
    destruct (co_group_facts a Hai) as (_ & H1 & _).
    pose proof (H1 b Hb Hma) as Hd. apply (co_disj_sem b (atk_live a b Hai Hb)) in Hd.
    destruct Hd as (c & Hc & Hcb). exists c. auto.
  - intros a Ha Hdef. cbn [args tF] in Ha. apply in_S_of. split; [exact Ha|].
    destruct (co_group_facts a Ha) as (_ & _ & [H|(b & Hb & Hn)] & _); [exact H|exfalso].
    assert (Hab : att tF b a) by (apply tF_att; auto).
    destruct (Hdef b Hab) as (c & Hc & Hcb).
    assert (Ht : m (S (av b)) = true) by (apply (co_disj_sem b (atk_live a b Ha Hb)); exists c; auto).
    congruence.
Qed.
End CoSound.

(* ---------------------------------------------------------------- stable semantics *)
Definition st_group (a : nat) : cnf := st_clauses (zlit (sel a)) (av a) (map av (atk a)).

Lemma st_clauses_spec m sl tv (bs : list nat) :
  0 < sl -> 0 < tv -> m sl = true ->
  (vmodels m (st_clauses (zlit sl) tv (map av bs)) = true <->
   (forall b, In b bs -> m tv = true -> m (av b) = true -> False) /\
   (m tv = true \/ exists b, In b bs /\ m (av b) = true)).
Proof.
  intros Hsl Htv Hm. unfold st_clauses. rewrite !neg_zlit, !map_map.
  rewrite !vmodels_app_iff, !vmodels_single, !vmodels_map.
  cbn [app]. rewrite !vsat_cons, !vtrue_znlit, Hm. cbn [negb orb].
  rewrite (vtrue_zlit m tv Htv), (vsat_map_zlit m av) by exact av_pos.
  split.
  - intros (H1 & H2). split.
    + intros b Hb Ht Hmb. specialize (H1 b Hb). rewrite !vsat_cons, !vtrue_znlit, Hm, Ht, Hmb, vsat_nil in H1. discriminate.
    + destruct (m tv) eqn:Et; [left; reflexivity|right]. cbn [orb] in H2. apply existsb_exists in H2. exact H2.
  - intros (H1 & H2). split.
    + intros b Hb. rewrite !vsat_cons, !vtrue_znlit, Hm, vsat_nil. cbn [negb orb].
      destruct (m tv) eqn:Et; [|reflexivity]. destruct (m (av b)) eqn:Eb; [|reflexivity].
      exfalso. exact (H1 b Hb eq_refl Eb).
    + destruct H2 as [->|(b & Hb & Hmb)]; [reflexivity|]. apply orb_true_iff. right.
      apply existsb_exists. exists b. auto.
Qed.

Theorem st_template_sound m :
  (forall a, In a ids -> m (sel a) = true) ->
  (forall a, In a ids -> vmodels m (st_group a) = true) -> st tF (S_of m).
Proof.
  intros Hsel Hmod.
  assert (Hf : forall a, In a ids ->
     (forall b, In b (atk a) -> m (av a) = true -> m (av b) = true -> False) /\
     (m (av a) = true \/ exists b, In b (atk a) /\ m (av b) = true)).
  { intros a Ha. apply (st_clauses_spec m (sel a) (av a) (atk a) (sel_pos a) (av_pos a) (Hsel a Ha)).
    apply Hmod. exact Ha. }
  split; [intros a Ha; apply in_S_of in Ha; exact (proj1 Ha)|]. split.
  - intros a b Ha Hb Hab. apply in_S_of in Ha, Hb. apply tF_att in Hab.
    destruct (Hf b (proj1 Hb)) as [H1 _]. apply (H1 a); tauto.
  - intros a Ha Hn. cbn [args tF] in Ha. destruct (Hf a Ha) as [_ [H|(b & Hb & Hmb)]].
    + exfalso. apply Hn. apply in_S_of. auto.
    + exists b. split; [apply in_S_of; split; [eapply atk_live; eassumption|exact Hmb]|apply tF_att; auto].
Qed.

(* ---------------------------------------------------------------- completeness *)
(* the variables in use are pairwise distinct (what Proofs/DynProofs.v: tables_distinct provides) *)
Hypothesis av_inj : forall a b, In a ids -> In b ids -> av a = av b -> a = b.
Hypothesis av_disj : forall a b, In a ids -> In b ids -> av a <> S (av b).
Hypothesis sel_av : forall a b, In a ids -> In b ids -> sel a <> av b.
Hypothesis sel_disj : forall a b, In a ids -> In b ids -> sel a <> S (av b).

Section Complete.
Variable X : list nat.

(* the canonical model of a set X: argument variables by membership, disjunction variables by
   "attacked by X", everything else (the selectors in particular) true *)
Definition model_of (v : nat) : bool :=
  match find (fun a => Nat.eqb (av a) v) ids with
  | Some a => memb a X
  | None =>
      match find (fun a => Nat.eqb (S (av a)) v) ids with
      | Some a => existsb (fun b => memb b X) (atk a)
      | None => true
      end
  end.

Lemma find_av a : In a ids -> find (fun x => Nat.eqb (av x) (av a)) ids = Some a.
Proof.
  intros Ha. destruct (find _ ids) as [x|] eqn:E.
  - apply find_some in E. destruct E as [Hx He]. apply Nat.eqb_eq in He. f_equal. now apply av_inj.
  - pose proof (find_none _ _ E a Ha) as Hn. cbv beta in Hn. rewrite Nat.eqb_refl in Hn. discriminate Hn.
Qed.
Lemma model_av a : In a ids -> model_of (av a) = memb a X.
Proof. intros Ha. unfold model_of. rewrite (find_av a Ha). reflexivity. Qed.
Lemma model_disj a : In a ids -> model_of (S (av a)) = existsb (fun b => memb b X) (atk a).
Proof.
  intros Ha. unfold model_of.
  destruct (find (fun x => Nat.eqb (av x) (S (av a))) ids) as [x|] eqn:E.
  - apply find_some in E. destruct E as [Hx He]. apply Nat.eqb_eq in He. exfalso. exact (av_disj x a Hx Ha He).
  - destruct (find (fun x => Nat.eqb (S (av x)) (S (av a))) ids) as [x|] eqn:E2.
    + apply find_some in E2. destruct E2 as [Hx He]. apply Nat.eqb_eq in He.
      assert (x = a) by (apply av_inj; auto; lia). subst x. reflexivity.
    + pose proof (find_none _ _ E2 a Ha) as Hn. cbv beta in Hn. rewrite Nat.eqb_refl in Hn. discriminate Hn.
Qed.
Lemma model_sel a : In a ids -> model_of (sel a) = true.
Proof.
  intros Ha. unfold model_of.
  destruct (find (fun x => Nat.eqb (av x) (sel a)) ids) as [x|] eqn:E.
  - apply find_some in E. destruct E as [Hx He]. apply Nat.eqb_eq in He. exfalso. exact (sel_av a x Ha Hx (eq_sym He)).
  - destruct (find (fun x => Nat.eqb (S (av x)) (sel a)) ids) as [x|] eqn:E2; [|reflexivity].
    apply find_some in E2. destruct E2 as [Hx He]. apply Nat.eqb_eq in He. exfalso. exact (sel_disj a x Ha Hx (eq_sym He)).
Qed.

Lemma attacked_iff a : In a ids ->
  (existsb (fun b => memb b X) (atk a) = true <-> exists b, In b X /\ att tF b a).
Proof.
  intros Ha. rewrite existsb_exists. split.
  - intros (b & Hb & Hm). exists b. split; [now apply memb_spec|apply tF_att; auto].
  - intros (b & Hb & Hab). apply tF_att in Hab. exists b. split; [tauto|now apply memb_spec].
Qed.

Theorem co_template_complete : co tF X ->
  (forall a, In a ids -> vmodels model_of (co_group a) = true) /\
  (forall a, In a ids -> model_of (sel a) = true) /\
  (forall a, In a ids -> (model_of (av a) = true <-> In a X)).
Proof.
  intros [[Hincl [Hcf Hdef]] Hco]. split; [|split].
  2:{ intros a Ha. now apply model_sel. }
  2:{ intros a Ha. rewrite (model_av a Ha). apply memb_spec. }
  intros a Ha. unfold co_group. apply vmodels_cons_iff. split.
  - rewrite vsat_cons, vsat_cons, vsat_nil, !vtrue_znlit, (model_av a Ha), (model_disj a Ha).
    destruct (memb a X) eqn:Ea; [|reflexivity]. cbn [negb orb]. rewrite orb_false_r. apply negb_true_iff.
    destruct (existsb _ (atk a)) eqn:Ex; [|reflexivity]. exfalso.
    apply (attacked_iff a Ha) in Ex. destruct Ex as (b & Hb & Hab). apply memb_spec in Ea. exact (Hcf b a Hb Ea Hab).
  - apply (co_clauses_spec model_of (sel a) (av a) (atk a) (sel_pos a) (av_pos a) (model_sel a Ha)).
    repeat split.
    + intros b Hb Hma. rewrite (model_av a Ha) in Hma. apply memb_spec in Hma.
      rewrite (model_disj b (atk_live a b Ha Hb)). apply (attacked_iff b (atk_live a b Ha Hb)).
      destruct (Hdef a Hma b) as (c & Hc & Hcb); [apply tF_att; auto|]. exists c. auto.
    + rewrite (model_av a Ha). destruct (memb a X) eqn:Ea; [left; reflexivity|right].
      apply memb_false in Ea.
      destruct (defendsb tF X a) eqn:Ed.
      { exfalso. apply Ea. apply Hco; [exact Ha|]. now apply defendsb_spec. }
      destruct (not_defended_witness tF X a Ed) as (b & Hb & Hnb). apply attacked_byb_false in Hnb.
      apply tF_att in Hb. exists b. split; [tauto|].
      rewrite (model_disj b (atk_live a b Ha (proj2 Hb))).
      destruct (existsb _ (atk b)) eqn:Ex; [|reflexivity]. exfalso.
      apply (attacked_iff b (atk_live a b Ha (proj2 Hb))) in Ex. destruct Ex as (c & Hc & Hcb). apply Hnb. exists c. auto.
    + intros b Hb Hmb. rewrite (model_av b (atk_live a b Ha Hb)) in Hmb. apply memb_spec in Hmb.
      rewrite (model_disj a Ha). apply (attacked_iff a Ha). exists b. split; [exact Hmb|apply tF_att; auto].
    + intros Hd. rewrite (model_disj a Ha) in Hd. apply (attacked_iff a Ha) in Hd. destruct Hd as (b & Hb & Hab).
      apply tF_att in Hab. exists b. split; [tauto|]. rewrite (model_av b (atk_live a b Ha (proj2 Hab))). now apply memb_spec.
Qed.

(* stable semantics has no disjunction variables (a selector may well be 1 + an argument variable):
   its canonical model only decodes argument variables *)
Definition st_model_of (v : nat) : bool :=
  match find (fun a => Nat.eqb (av a) v) ids with
  | Some a => memb a X
  | None => true
  end.
Lemma st_model_av a : In a ids -> st_model_of (av a) = memb a X.
Proof. intros Ha. unfold st_model_of. rewrite (find_av a Ha). reflexivity. Qed.
Lemma st_model_sel a : In a ids -> st_model_of (sel a) = true.
Proof.
  intros Ha. unfold st_model_of.
  destruct (find (fun x => Nat.eqb (av x) (sel a)) ids) as [x|] eqn:E; [|reflexivity].
  apply find_some in E. destruct E as [Hx He]. apply Nat.eqb_eq in He. exfalso. exact (sel_av a x Ha Hx (eq_sym He)).
Qed.

Theorem st_template_complete : st tF X ->
  (forall a, In a ids -> vmodels st_model_of (st_group a) = true) /\
  (forall a, In a ids -> st_model_of (sel a) = true) /\
  (forall a, In a ids -> (st_model_of (av a) = true <-> In a X)).
Proof.
  intros [Hincl [Hcf Hst]]. split; [|split].
  2:{ intros a Ha. now apply st_model_sel. }
  2:{ intros a Ha. rewrite (st_model_av a Ha). apply memb_spec. }
  intros a Ha. unfold st_group.
  apply (st_clauses_spec st_model_of (sel a) (av a) (atk a) (sel_pos a) (av_pos a) (st_model_sel a Ha)). split.
  - intros b Hb Hma Hmb. rewrite (st_model_av a Ha) in Hma. rewrite (st_model_av b (atk_live a b Ha Hb)) in Hmb.
    apply memb_spec in Hma, Hmb. apply (Hcf b a Hmb Hma). apply tF_att. auto.
  - rewrite (st_model_av a Ha). destruct (memb a X) eqn:Ea; [left; reflexivity|right]. apply memb_false in Ea.
    destruct (Hst a Ha Ea) as (b & Hb & Hab). apply tF_att in Hab. exists b. split; [tauto|].
    rewrite (st_model_av b (atk_live a b Ha (proj2 Hab))). now apply memb_spec.
Qed.
End Complete.
End Template.
