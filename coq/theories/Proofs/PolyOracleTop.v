(* The polynomial oracle and the model of the static solvers never disagree: whenever a completed
   acceptance run of [run_query] (Model/Solvers.v) returns a status and the rule [poly_status_full]
   (hence [poly_status], by PolyOracle.poly_status_le_full) decides the query, both are the same
   boolean.  Consequence of SolverTop.run_query_top (through Corollaries.done_status) and
   PolyOracle.poly_status_full_sound_prop.  So a verdict `bad poly-status-...` of the python oracle on
   an outcome of the real solver is also a difference between the real solver and the model. *)
From Crusta Require Import Spec.AF Spec.SemFacts Spec.Theory.
From Crusta Require Import Sat.Cnf Sat.Prog Model.Encoders Model.Graph Model.Solvers.
From Crusta Require Import Proofs.SolverBasics Proofs.TopBase Proofs.TopMax Proofs.SolverTop Proofs.Corollaries.
From Crusta Require Import Proofs.PolyOracleDefs Proofs.PolyOracle.
Import ListNotations.

Theorem model_agrees_cred : forall oracle thr g F,
  valid_oracle oracle -> 1 <= thr -> view_good g F ->
  forall s e al fuel cert st0 b c t w, supported s QDC -> enc_ok s e -> al_ok s QDC F al ->
  run_query oracle thr fuel s QDC cert e g al st0 = Done (OAcc b c) t ->
  poly_status_full F s Cred al = Some w -> b = w.
Proof.
  intros oracle thr g F Hv Ht Hg s e al fuel cert st0 b c t w Hs He Ha E Hp.
  pose proof (done_status oracle thr g F s QDC e al fuel cert st0 b c t
                (conj Hv (conj Ht (conj Hg (conj Hs (conj He Ha))))) ltac:(discriminate) E) as H1.
  pose proof (poly_status_full_sound_prop F s Cred al w (vg_wf g F Hg) Hp) as H2.
  unfold sem_status in H1. cbn [qpol] in H1. cbn [status] in H2.
  apply (bool_iff_eq b w _ _ H1 H2). reflexivity.
Qed.

Theorem model_agrees_skep : forall oracle thr g F,
  valid_oracle oracle -> 1 <= thr -> view_good g F ->
  forall s e al fuel cert st0 b c t w, supported s QDS -> enc_ok s e -> al_ok s QDS F al ->
  run_query oracle thr fuel s QDS cert e g al st0 = Done (OAcc b c) t ->
  poly_status_full F s Skep al = Some w -> b = w.
Proof.
  intros oracle thr g F Hv Ht Hg s e al fuel cert st0 b c t w Hs He Ha E Hp.
  pose proof (done_status oracle thr g F s QDS e al fuel cert st0 b c t
                (conj Hv (conj Ht (conj Hg (conj Hs (conj He Ha))))) ltac:(discriminate) E) as H1.
  pose proof (poly_status_full_sound_prop F s Skep al w (vg_wf g F Hg) Hp) as H2.
  unfold sem_status in H1. cbn [qpol] in H1. cbn [status] in H2.
  apply (bool_iff_eq b w _ _ H1 H2). reflexivity.
Qed.

Print Assumptions model_agrees_cred.
Print Assumptions model_agrees_skep.
