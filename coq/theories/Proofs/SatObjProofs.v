(* Proofs about Model/SatObjects.v (C15, C16a at the level of histories). *)
From Coq Require Import ZifyBool Lia.
From Crusta Require Import Sat.Cnf Sat.Dimacs Sat.Dpll Model.SatObjects Model.SatSpec
  Proofs.DimacsProofs Proofs.ReplyProofs Proofs.DpllProofs.
Import ListNotations.

(* ------------------------------------------------------------------ what a history declares *)
Lemma hist_nvars_app : forall a b, hist_nvars (a ++ b) = Nat.max (hist_nvars a) (hist_nvars b).
Proof. induction a as [|o a IH]; intros b; [reflexivity|]. cbn [app hist_nvars]. rewrite IH. lia. Qed.
Lemma hist_seen_app : forall a b, hist_seen (a ++ b) = Nat.max (hist_seen a) (hist_seen b).
Proof. induction a as [|o a IH]; intros b; [reflexivity|]. cbn [app hist_seen]. rewrite IH. lia. Qed.
Lemma hist_res_app : forall a b, hist_res (a ++ b) = Nat.max (hist_res a) (hist_res b).
Proof. induction a as [|o a IH]; intros b; [reflexivity|]. cbn [app hist_res]. rewrite IH. lia. Qed.
Lemma hist_nvars_split : forall ops, hist_nvars ops = Nat.max (hist_seen ops) (hist_res ops).
Proof.
  induction ops as [|o r IH]; [reflexivity|]. cbn [hist_nvars hist_seen hist_res]. rewrite IH.
  destruct o; cbn [op_vars op_seen op_res]; lia.
Qed.

Lemma clauses_of_app : forall a b, clauses_of (a ++ b) = clauses_of a ++ clauses_of b.
Proof. induction a as [|o a IH]; intros b; [reflexivity|]. destruct o; cbn [app clauses_of]; rewrite IH; reflexivity. Qed.

Lemma cnf_max_clauses_of : forall ops, cnf_max (clauses_of ops) <= hist_seen ops.
Proof.
  induction ops as [|o r IH]; [apply le_n|]. destruct o; cbn [clauses_of hist_seen op_seen op_vars cnf_max fold_right];
    fold (cnf_max (clauses_of r)); lia.
Qed.

Lemma cnf_ok_clauses_of : forall ops, hist_ok ops = true -> cnf_ok (clauses_of ops) = true.
Proof.
  induction ops as [|o r IH]; intros H; [reflexivity|]. cbn [hist_ok forallb] in H. apply andb_true_iff in H.
  destruct H as [Ho Hr]. fold (hist_ok r) in Hr. destruct o; cbn [clauses_of]; try (apply IH, Hr).
  cbn [cnf_ok forallb]. fold (cnf_ok (clauses_of r)). rewrite (IH Hr). cbn [op_ok] in Ho. rewrite Ho. reflexivity.
Qed.

Lemma hist_ok_app : forall a b, hist_ok (a ++ b) = hist_ok a && hist_ok b.
Proof. intros. unfold hist_ok. apply forallb_app. Qed.

Lemma query_ok : forall done a, hist_ok done = true -> clause_ok a = true -> cnf_ok (query done a) = true.
Proof. intros. unfold query. rewrite cnf_ok_app, cnf_ok_units, (cnf_ok_clauses_of done), H0; auto. Qed.
Lemma query_max : forall done a, cnf_max (query done a) <= Nat.max (hist_seen done) (clause_max a).
Proof. intros. unfold query. rewrite cnf_max_app, cnf_max_units. pose proof (cnf_max_clauses_of done). lia. Qed.

(* ------------------------------------------------------------------ run_obj *)
Lemma run_obj_app : forall {St} (step : St -> sop -> St * sobs) a b s,
  run_obj step s (a ++ b) =
  (fst (run_obj step (fst (run_obj step s a)) b), snd (run_obj step s a) ++ snd (run_obj step (fst (run_obj step s a)) b)).
Proof.
  intros St step a. induction a as [|o a IH]; intros b s.
  - cbn [app run_obj fst snd]. destruct (run_obj step s b); reflexivity.
  - cbn [app run_obj]. destruct (step s o) as [s1 ob]. rewrite IH.
    destruct (run_obj step s1 a) as [s2 obs]. cbn [fst snd]. destruct (run_obj step s2 b). reflexivity.
Qed.

(* ------------------------------------------------------------------ BufferedSatSolver: state *)
Definition binv (done : list sop) (s : bstate) : Prop :=
  btext s = print_clauses (clauses_of done) /\ bnclauses s = length (clauses_of done) /\ bnvars s = hist_nvars done.

Lemma binv_new : binv [] buf_new.
Proof. repeat split. Qed.

Lemma binv_step : forall fn done s o, binv done s -> binv (done ++ [o]) (fst (buf_step fn s o)).
Proof.
  intros fn done s o (I1 & I2 & I3). unfold binv. rewrite clauses_of_app, hist_nvars_app.
  destruct o as [c|n|a|]; cbn [buf_step fst btext bnclauses bnvars clauses_of hist_nvars op_vars].
  - rewrite print_clauses_app, app_length, I1, I2, I3. unfold print_clauses at 3. cbn [map concat length].
    rewrite app_nil_r. repeat split; lia.
  - rewrite app_nil_r, I1, I2, I3. repeat split; lia.
  - rewrite app_nil_r, I1, I2, I3. repeat split; lia.
  - rewrite app_nil_r, I1, I2, I3. repeat split; lia.
Qed.

Lemma binv_run : forall fn ops done s, binv done s -> binv (done ++ ops) (fst (run_obj (buf_step fn) s ops)).
Proof.
  intros fn ops. induction ops as [|o r IH]; intros done s I.
  - cbn [run_obj fst]. rewrite app_nil_r. exact I.
  - cbn [run_obj]. pose proof (binv_step fn done s o I) as I1.
    destruct (buf_step fn s o) as [s1 ob]. cbn [fst] in I1. specialize (IH _ _ I1).
    destruct (run_obj (buf_step fn) s1 r) as [s2 obs]. cbn [fst] in *. rewrite <- app_assoc in IH. exact IH.
Qed.

(* the bytes handed to the solving function *)
Lemma buf_instance_print : forall done s a, binv done s ->
  buf_instance s a = print_instance (Nat.max (hist_nvars done) (clause_max a)) (query done a).
Proof.
  intros done s a (I1 & I2 & I3). unfold buf_instance, print_instance, query.
  rewrite I1, I2, I3. rewrite app_length.
  assert (L : length (units a) = length a) by (unfold units; apply map_length). rewrite L.
  rewrite print_clauses_app, print_assumptions_units. reflexivity.
Qed.

(* C16a: for every history and every assumption list the instance is the canonical text of
   "clauses so far, then one unit clause per assumption", with an exact clause count and a
   variable count covering every variable, and the strict parser reads exactly that back *)
Theorem instance_wellformed : forall fn ops a, hist_ok ops = true -> clause_ok a = true ->
  let s := fst (run_obj (buf_step fn) buf_new ops) in
  let nv := Nat.max (hist_nvars ops) (clause_max a) in
  let f := clauses_of ops ++ units a in
  buf_instance s a = print_preamble nv (length f) ++ print_clauses f /\
  cnf_max f <= nv /\
  parse_instance (buf_instance s a) = Some (nv, f).
Proof.
  intros fn ops a Hok Ha s nv f.
  pose proof (binv_run fn ops [] buf_new binv_new) as I. cbn [app] in I. fold s in I.
  pose proof (buf_instance_print ops s a I) as E. fold nv in E. unfold query in E. fold f in E.
  assert (Hmax : cnf_max f <= nv).
  { pose proof (query_max ops a) as Q. unfold query in Q. fold f in Q. unfold nv. rewrite hist_nvars_split. lia. }
  split; [exact E|]. split; [exact Hmax|]. rewrite E. apply parse_print_instance; [|exact Hmax].
  apply (query_ok ops a Hok Ha).
Qed.

(* ------------------------------------------------------------------ the contract *)
Lemma buf_contract_step : forall fn done s o, solver_correct fn -> binv done s ->
  hist_ok (done ++ [o]) = true -> small (done ++ [o]) -> contract_ok done o (snd (buf_step fn s o)).
Proof.
  intros fn done s o Hfn I Hok Hsm. destruct o as [c|n|a|]; cbn [buf_step snd contract_ok]; try reflexivity.
  - rewrite (buf_instance_print done s a I). destruct I as (I1 & I2 & I3). rewrite I3.
    rewrite hist_ok_app in Hok. apply andb_true_iff in Hok. destruct Hok as [Hd Ha]. cbn [hist_ok forallb op_ok] in Ha.
    rewrite andb_true_r in Ha.
    assert (Hnv : Nat.max (hist_nvars done) (clause_max a) = hist_nvars (done ++ [OSolve a])).
    { rewrite hist_nvars_app. cbn [hist_nvars op_vars]. lia. }
    specialize (Hfn (Nat.max (hist_nvars done) (clause_max a)) (query done a) (query_ok done a Hd Ha)).
    rewrite Hnv in *. specialize (Hfn ltac:(pose proof (query_max done a); rewrite hist_nvars_app, hist_nvars_split; cbn [hist_nvars op_vars]; lia) Hsm).
    destruct (reply_parse _ _); cbn [obs_of_reply]; auto.
  - destruct I as (_ & _ & I3). rewrite I3. reflexivity.
Qed.

Theorem buffered_contract : forall fn ops, solver_correct fn -> hist_ok ops = true -> small ops ->
  all_ok [] ops (snd (run_obj (buf_step fn) buf_new ops)).
Proof.
  intros fn ops Hfn.
  assert (G : forall ops done s, binv done s -> hist_ok (done ++ ops) = true -> small (done ++ ops) ->
              all_ok done ops (snd (run_obj (buf_step fn) s ops))).
  { clear ops. induction ops as [|o r IH]; intros done s I Hok Hsm; [exact Logic.I|].
    cbn [run_obj].
    assert (Hok1 : hist_ok (done ++ [o]) = true).
    { rewrite hist_ok_app in *. apply andb_true_iff in Hok. destruct Hok as [A B]. cbn [hist_ok forallb] in B.
      apply andb_true_iff in B. destruct B as [B _]. rewrite A. cbn [hist_ok forallb]. rewrite B. reflexivity. }
    assert (Hsm1 : small (done ++ [o])).
    { unfold small in *. rewrite hist_nvars_app in *. cbn [hist_nvars] in *. lia. }
    pose proof (buf_contract_step fn done s o Hfn I Hok1 Hsm1) as C.
    pose proof (binv_step fn done s o I) as I1.
    destruct (buf_step fn s o) as [s1 ob]. cbn [fst snd] in *.
    specialize (IH (done ++ [o]) s1 I1). rewrite <- app_assoc in IH. cbn [app] in IH. specialize (IH Hok Hsm).
    destruct (run_obj (buf_step fn) s1 r) as [s2 obs]. cbn [snd] in *. split; assumption. }
  intros Hok Hsm. apply (G ops [] buf_new binv_new); assumption.
Qed.

(* ------------------------------------------------------------------ vdpll is a correct solving function *)
Lemma layout_ok_default : forall m, layout_ok (default_layout m) = true.
Proof.
  intros m. unfold default_layout, layout_ok. generalize (Nat.div (length (model_lits m)) 8). intros k.
  induction k as [|k IH]; [reflexivity|]. cbn [repeat forallb fst]. exact IH.
Qed.

Lemma vdpll_reply : forall nv f, cnf_ok f = true -> cnf_max f <= nv -> (Z.of_nat nv <= isize_max)%Z ->
  reply_parse nv (vdpll_fn (print_instance nv f)) =
  match solve_n nv f [] with Some m => RSat m | None => RUnsat end.
Proof.
  intros nv f Hok Hmax Hsm. unfold vdpll_fn. rewrite (parse_print_instance nv f Hok Hmax).
  destruct (solve_n nv f []) as [m|] eqn:E; cbn [print_reply].
  - destruct (solve_n_sound nv f [] m E) as (_ & Hlen & _). rewrite <- Hlen.
    apply reply_sat_roundtrip; try reflexivity; [rewrite Hlen; exact Hsm|apply layout_ok_default].
  - apply reply_unsat_roundtrip; reflexivity.
Qed.

Theorem vdpll_correct : solver_correct vdpll_fn.
Proof.
  intros nv f Hok Hmax Hsm. rewrite (vdpll_reply nv f Hok Hmax Hsm).
  destruct (solve_n nv f []) as [m|] eqn:E.
  - destruct (solve_n_sound nv f [] m E) as (Hm & Hlen & _). cbn [units map] in Hm. rewrite app_nil_r in Hm. split; assumption.
  - intros m. pose proof (solve_n_complete nv f []) as C. cbn [units map] in C. rewrite app_nil_r in C.
    apply (C Hok Hmax E m).
Qed.

(* ------------------------------------------------------------------ CadicalSolver: the wrapper *)
Lemma map_nth_seq : forall (m : assignment), map (fun i => nth (i - 1) m None) (seq 1 (length m)) = m.
Proof.
  intros m. apply (nth_ext _ _ None None).
  - rewrite map_length, seq_length. reflexivity.
  - intros k Hk. rewrite map_length, seq_length in Hk.
    rewrite (nth_indep _ None ((fun i => nth (i - 1) m None) 0)) by (rewrite map_length, seq_length; exact Hk).
    rewrite (map_nth (fun i => nth (i - 1) m None) (seq 1 (length m)) 0 k). rewrite seq_nth by exact Hk.
    replace (1 + k - 1) with k by lia. reflexivity.
Qed.

(* (i) one solve call: the assignment has n_vars entries, equals the backend's values on the
   variables the backend knows, is None on the remaining reserved ones; the state keeps clauses and
   reservation and only raises the largest variable seen (assumptions are not retained) *)
Theorem cadical_wrapper_solve : forall bk s a,
  let mv := Nat.max (cmaxvar s) (clause_max a) in
  let s' := fst (cad_step bk s (OSolve a)) in
  cclauses s' = cclauses s /\ creserved s' = creserved s /\ cmaxvar s' = mv /\
  match bk (rev (cclauses s)) a mv with
  | BSat value =>
      exists m, snd (cad_step bk s (OSolve a)) = ObsAns (Sat m) /\ length m = cad_n_vars s' /\
      (forall v, 1 <= v <= mv -> value_of m v = value v) /\
      (forall v, mv < v <= cad_n_vars s' -> value_of m v = None)
  | BUnsat => snd (cad_step bk s (OSolve a)) = ObsAns Unsat
  | BUnknown => snd (cad_step bk s (OSolve a)) = ObsAns Unknown
  end.
Proof.
  intros bk s a mv s'. unfold s'. cbn [cad_step]. fold mv.
  destruct (bk (rev (cclauses s)) a mv) as [value| |]; cbn [fst snd cclauses creserved cmaxvar]; repeat split; auto.
  eexists. split; [reflexivity|]. unfold cad_n_vars. cbn [cmaxvar creserved].
  split; [rewrite app_length, map_length, seq_length, repeat_length; lia|]. split.
  - intros v Hv. unfold value_of. rewrite app_nth1 by (rewrite map_length, seq_length; lia).
    rewrite (nth_indep _ None (value 0)) by (rewrite map_length, seq_length; lia).
    rewrite (map_nth value (seq 1 mv) 0 (v - 1)). rewrite seq_nth by lia. f_equal. lia.
  - intros v Hv. unfold value_of. rewrite app_nth2 by (rewrite map_length, seq_length; lia).
    apply nth_repeat.
Qed.

Definition cinv (done : list sop) (s : cstate) : Prop :=
  rev (cclauses s) = clauses_of done /\ cmaxvar s = hist_seen done /\ creserved s = hist_res done.

Lemma cinv_step : forall bk done s o, cinv done s -> cinv (done ++ [o]) (fst (cad_step bk s o)).
Proof.
  intros bk done s o (I1 & I2 & I3). unfold cinv. rewrite clauses_of_app, hist_seen_app, hist_res_app.
  destruct o as [c|n|a|]; cbn [cad_step fst clauses_of hist_seen hist_res op_seen op_res op_vars].
  - cbn [cclauses cmaxvar creserved rev]. rewrite I1, I2, I3. repeat split; lia.
  - cbn [cclauses cmaxvar creserved]. rewrite app_nil_r, I1, I2, I3. repeat split; lia.
  - destruct (bk _ _ _); cbn [fst cclauses cmaxvar creserved]; rewrite app_nil_r, I1, I2, I3; repeat split; lia.
  - rewrite app_nil_r, I1, I2, I3. repeat split; lia.
Qed.

(* clauses are forwarded unchanged and in order, n_vars is the declared variable count *)
Theorem cadical_wrapper_state : forall bk ops,
  let s := fst (run_obj (cad_step bk) cad_new ops) in
  rev (cclauses s) = clauses_of ops /\ cad_n_vars s = hist_nvars ops.
Proof.
  intros bk ops.
  assert (G : forall ops done s, cinv done s -> cinv (done ++ ops) (fst (run_obj (cad_step bk) s ops))).
  { clear ops. induction ops as [|o r IH]; intros done s I.
    - cbn [run_obj fst]. rewrite app_nil_r. exact I.
    - cbn [run_obj]. pose proof (cinv_step bk done s o I) as I1. destruct (cad_step bk s o) as [s1 ob]. cbn [fst] in I1.
      specialize (IH _ _ I1). destruct (run_obj (cad_step bk) s1 r) as [s2 obs]. cbn [fst] in *.
      rewrite <- app_assoc in IH. exact IH. }
  intros s. assert (I : cinv ops s) by (apply (G ops [] cad_new); repeat split).
  destruct I as (I1 & I2 & I3). split; [exact I1|]. unfold cad_n_vars. rewrite I2, I3, hist_nvars_split. reflexivity.
Qed.

(* ------------------------------------------------------------------ (iii) both objects on Dpll *)
Lemma solve_n_agree : forall n1 n2 f a, cnf_ok (f ++ units a) = true ->
  cnf_max (f ++ units a) <= n1 -> cnf_max (f ++ units a) <= n2 ->
  (exists m, solve_n n1 f a = Some m) -> exists m, solve_n n2 (f ++ units a) [] = Some m.
Proof.
  intros n1 n2 f a Hok H1 H2 [m Hm]. destruct (solve_n n2 (f ++ units a) []) as [m2|] eqn:E; [exists m2; reflexivity|].
  exfalso. destruct (solve_n_sound n1 f a m Hm) as (Hmod & _).
  pose proof (solve_n_complete n2 (f ++ units a) []) as C. cbn [units map] in C. rewrite app_nil_r in C.
  rewrite (C Hok H2 E m) in Hmod. discriminate.
Qed.

Lemma solve_n_agree' : forall n1 n2 f a, cnf_ok (f ++ units a) = true ->
  cnf_max (f ++ units a) <= n1 -> cnf_max (f ++ units a) <= n2 ->
  solve_n n1 f a = None -> solve_n n2 (f ++ units a) [] = None.
Proof.
  intros n1 n2 f a Hok H1 H2 Hn. destruct (solve_n n2 (f ++ units a) []) as [m2|] eqn:E; [|reflexivity].
  exfalso. destruct (solve_n_sound n2 _ [] m2 E) as (Hmod & _). cbn [units map] in Hmod. rewrite app_nil_r in Hmod.
  rewrite (solve_n_complete n1 f a Hok H1 Hn m2) in Hmod. discriminate.
Qed.

Lemma same_verdict_step : forall done cs bs o, cinv done cs -> binv done bs ->
  hist_ok (done ++ [o]) = true -> small (done ++ [o]) ->
  verdict_of (snd (cad_step dpll_backend cs o)) = verdict_of (snd (buf_step vdpll_fn bs o)) /\
  decided (snd (cad_step dpll_backend cs o)) /\ decided (snd (buf_step vdpll_fn bs o)).
Proof.
  intros done cs bs o (C1 & C2 & C3) I Hok Hsm.
  destruct o as [c|n|a|]; cbn [cad_step buf_step snd verdict_of decided]; auto.
  rewrite hist_ok_app in Hok. apply andb_true_iff in Hok. destruct Hok as [Hd Ha]. cbn [hist_ok forallb op_ok] in Ha.
  rewrite andb_true_r in Ha.
  rewrite (buf_instance_print done bs a I). destruct I as (I1 & I2 & I3). rewrite I3, C1, C2.
  pose proof (query_ok done a Hd Ha) as Qok. pose proof (query_max done a) as Qmax.
  assert (Hnv : (Z.of_nat (Nat.max (hist_nvars done) (clause_max a)) <= isize_max)%Z).
  { unfold small in Hsm. rewrite hist_nvars_app in Hsm. cbn [hist_nvars op_vars] in Hsm. lia. }
  assert (Qmax2 : cnf_max (query done a) <= Nat.max (hist_nvars done) (clause_max a)) by (rewrite hist_nvars_split; lia).
  rewrite (vdpll_reply (Nat.max (hist_nvars done) (clause_max a)) (query done a) Qok Qmax2 Hnv).
  unfold dpll_backend. unfold query in *.
  destruct (solve_n (Nat.max (hist_seen done) (clause_max a)) (clauses_of done) a) as [m|] eqn:E.
  - destruct (solve_n_agree _ (Nat.max (hist_nvars done) (clause_max a)) _ _ Qok Qmax Qmax2
               (ex_intro _ m E)) as [m2 E2].
    rewrite E2. cbn [snd obs_of_reply verdict_of decided]. auto.
  - rewrite (solve_n_agree' _ (Nat.max (hist_nvars done) (clause_max a)) _ _ Qok Qmax Qmax2 E).
    cbn [snd obs_of_reply verdict_of decided]. auto.
Qed.

Theorem same_verdicts : forall ops, hist_ok ops = true -> small ops ->
  let oc := snd (run_obj (cad_step dpll_backend) cad_new ops) in
  let ob := snd (run_obj (buf_step vdpll_fn) buf_new ops) in
  map verdict_of oc = map verdict_of ob /\ Forall decided oc /\ Forall decided ob.
Proof.
  intros ops.
  assert (G : forall ops done cs bs, cinv done cs -> binv done bs -> hist_ok (done ++ ops) = true -> small (done ++ ops) ->
    map verdict_of (snd (run_obj (cad_step dpll_backend) cs ops)) = map verdict_of (snd (run_obj (buf_step vdpll_fn) bs ops)) /\
    Forall decided (snd (run_obj (cad_step dpll_backend) cs ops)) /\ Forall decided (snd (run_obj (buf_step vdpll_fn) bs ops))).
  { clear ops. induction ops as [|o r IH]; intros done cs bs C I Hok Hsm.
    - cbn [run_obj snd map]. repeat split; constructor.
    - assert (Hok1 : hist_ok (done ++ [o]) = true).
      { rewrite hist_ok_app in *. apply andb_true_iff in Hok. destruct Hok as [A B]. cbn [hist_ok forallb] in B.
        apply andb_true_iff in B. destruct B as [B _]. rewrite A. cbn [hist_ok forallb]. rewrite B. reflexivity. }
      assert (Hsm1 : small (done ++ [o])).
      { unfold small in *. rewrite hist_nvars_app in *. cbn [hist_nvars] in *. lia. }
      destruct (same_verdict_step done cs bs o C I Hok1 Hsm1) as (V & D1 & D2).
      pose proof (cinv_step dpll_backend done cs o C) as C1. pose proof (binv_step vdpll_fn done bs o I) as I1.
      cbn [run_obj]. destruct (cad_step dpll_backend cs o) as [cs1 oc]. destruct (buf_step vdpll_fn bs o) as [bs1 ob].
      cbn [fst snd] in *. specialize (IH (done ++ [o]) cs1 bs1 C1 I1). rewrite <- app_assoc in IH. cbn [app] in IH.
      destruct (IH Hok Hsm) as (V' & D1' & D2').
      destruct (run_obj (cad_step dpll_backend) cs1 r) as [cs2 ocs]. destruct (run_obj (buf_step vdpll_fn) bs1 r) as [bs2 obs].
      cbn [snd map] in *. rewrite V, V'. repeat split; try constructor; auto. }
  intros Hok Hsm. apply (G ops [] cad_new buf_new); try assumption; repeat split.
Qed.

(* assumptions hold for one call only: a solve call leaves the formula of later calls unchanged *)
Lemma query_after_solve : forall done a b, query (done ++ [OSolve a]) b = query done b.
Proof. intros. unfold query. rewrite clauses_of_app. cbn [clauses_of]. rewrite app_nil_r. reflexivity. Qed.

(* ------------------------------------------------------------------ CadicalSolver on Dpll: the contract *)
Lemma lit_true_pad : forall (m pad : assignment) l, lit_true m l = true -> lit_true (m ++ pad) l = true.
Proof.
  intros m pad l H. unfold lit_true, value_of in *.
  destruct (Nat.lt_ge_cases (lit_var l - 1) (length m)) as [Hlt|Hge].
  - rewrite app_nth1 by exact Hlt. exact H.
  - rewrite (nth_overflow m None Hge) in H. discriminate.
Qed.

Lemma models_pad : forall (m pad : assignment) f, models m f = true -> models (m ++ pad) f = true.
Proof.
  intros m pad f H. unfold models in *. rewrite forallb_forall in *. intros c Hc. specialize (H c Hc).
  unfold sat_clause in *. apply existsb_exists in H. apply existsb_exists. destruct H as [l [Hl Ht]].
  exists l. split; [exact Hl|apply lit_true_pad, Ht].
Qed.

Lemma cad_contract_step : forall done s o, cinv done s -> hist_ok (done ++ [o]) = true ->
  contract_ok done o (snd (cad_step dpll_backend s o)).
Proof.
  intros done s o (C1 & C2 & C3) Hok. destruct o as [c|n|a|]; cbn [cad_step snd contract_ok]; try reflexivity.
  - rewrite hist_ok_app in Hok. apply andb_true_iff in Hok. destruct Hok as [Hd Ha]. cbn [hist_ok forallb op_ok] in Ha.
    rewrite andb_true_r in Ha. rewrite C1, C2, C3. unfold dpll_backend.
    pose proof (query_ok done a Hd Ha) as Qok. pose proof (query_max done a) as Qmax. unfold query in *.
    destruct (solve_n (Nat.max (hist_seen done) (clause_max a)) (clauses_of done) a) as [m|] eqn:E; cbn [snd].
    + destruct (solve_n_sound _ _ _ _ E) as (Hm & Hlen & _).
      rewrite <- Hlen at 1. rewrite map_nth_seq. split; [apply models_pad, Hm|].
      rewrite app_length, map_length, seq_length, repeat_length. rewrite hist_nvars_app, (hist_nvars_split done). cbn [hist_nvars op_vars]. lia.
    + intros m. apply (solve_n_complete _ _ _ Qok Qmax E m).
  - unfold cad_n_vars. rewrite C2, C3, hist_nvars_split. reflexivity.
Qed.

Theorem cadical_dpll_contract : forall ops, hist_ok ops = true ->
  all_ok [] ops (snd (run_obj (cad_step dpll_backend) cad_new ops)).
Proof.
  intros ops.
  assert (G : forall ops done s, cinv done s -> hist_ok (done ++ ops) = true ->
              all_ok done ops (snd (run_obj (cad_step dpll_backend) s ops))).
  { clear ops. induction ops as [|o r IH]; intros done s I Hok; [exact Logic.I|].
    cbn [run_obj].
    assert (Hok1 : hist_ok (done ++ [o]) = true).
    { rewrite hist_ok_app in *. apply andb_true_iff in Hok. destruct Hok as [A B]. cbn [hist_ok forallb] in B.
      apply andb_true_iff in B. destruct B as [B _]. rewrite A. cbn [hist_ok forallb]. rewrite B. reflexivity. }
    pose proof (cad_contract_step done s o I Hok1) as C.
    pose proof (cinv_step dpll_backend done s o I) as I1.
    destruct (cad_step dpll_backend s o) as [s1 ob]. cbn [fst snd] in *.
    specialize (IH (done ++ [o]) s1 I1). rewrite <- app_assoc in IH. cbn [app] in IH. specialize (IH Hok).
    destruct (run_obj (cad_step dpll_backend) s1 r) as [s2 obs]. cbn [snd] in *. split; assumption. }
  intros Hok. apply (G ops [] cad_new); [repeat split|exact Hok].
Qed.
