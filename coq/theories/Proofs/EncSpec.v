(* Statement vocabulary for the encoder theorems (C10).  Definitions only. *)
From Crusta Require Export Spec.AF Sat.Cnf Model.Encoders.

(* a compact framework with n arguments *)
Definition compact_af (F : af) (n : nat) : Prop := args F = seq 0 n /\ atts_ok n (atts F).

(* the argument set a total valuation denotes through encoder e *)
Definition ext_of (e : enc) (n : nat) (m : val) : list nat :=
  filter (fun a => m (arg_var e a)) (seq 0 n).

(* the clauses produced for F (None when the encoder panics with unimplemented!()) *)
Definition enc_clauses (e : enc) (thr : nat) (range : bool) (F : af) : option cnf :=
  option_map snd (encode_af e thr range F).

(* soundness: every model denotes a base set *)
Definition enc_sound (e : enc) (thr : nat) (F : af) (n : nat) : Prop :=
  forall C m, enc_clauses e thr false F = Some C -> vmodels m C = true ->
    basep (enc_base e) F (ext_of e n m).
(* completeness: every base set is denoted by a model *)
Definition enc_complete (e : enc) (thr : nat) (F : af) (n : nat) : Prop :=
  forall C S, enc_clauses e thr false F = Some C -> basep (enc_base e) F S ->
    exists m, vmodels m C = true /\ forall a, a < n -> (m (arg_var e a) = true <-> In a S).

(* range variants *)
Definition enc_range_sound (e : enc) (thr : nat) (F : af) (n : nat) : Prop :=
  forall C m, enc_clauses e thr true F = Some C -> vmodels m C = true ->
    basep (enc_base e) F (ext_of e n m) /\
    forall i, i < n -> m (range_var e n i) = true -> in_range F (ext_of e n m) i.
Definition enc_range_complete (e : enc) (thr : nat) (F : af) (n : nat) : Prop :=
  forall C S, enc_clauses e thr true F = Some C -> basep (enc_base e) F S ->
    exists m, vmodels m C = true /\
      (forall a, a < n -> (m (arg_var e a) = true <-> In a S)) /\
      (forall i, i < n -> (m (range_var e n i) = true <-> in_range F S i)).

(* variable layout: which variables may occur, and that the three classes never collide *)
Definition aux_zone (e : enc) (n : nat) (range : bool) (v : nat) : Prop :=
  match e with
  | AuxCf | AuxAdm | AuxCo => exists a, a < n /\ v = aux_disj a
  | HybCo => (if range then 2 * n else n) < v
  | _ => False
  end.
Definition var_class (e : enc) (n : nat) (range : bool) (v : nat) : Prop :=
  (exists a, a < n /\ v = arg_var e a) \/
  (range = true /\ exists a, a < n /\ v = range_var e n a) \/
  aux_zone e n range v.
Definition enc_layout (e : enc) (thr : nat) (range : bool) (F : af) (n : nat) : Prop :=
  (forall C, enc_clauses e thr range F = Some C ->
     forall c l, In c C -> In l c -> l <> 0%Z /\ var_class e n range (lit_var l)) /\
  (forall a b, arg_var e a = arg_var e b -> a = b) /\
  (forall a b, range_var e n a = range_var e n b -> a = b) /\
  (forall a, 0 < arg_var e a) /\
  (forall a b, a < n -> b < n -> arg_var e a <> range_var e n b) /\
  (forall a, a < n -> ~ aux_zone e n range (arg_var e a)) /\
  (forall a, a < n -> range = true -> ~ aux_zone e n range (range_var e n a)).

(* assignment_to_extension on a concrete (total) assignment is the set the valuation denotes *)
Definition a2e_ok (e : enc) (n : nat) : Prop :=
  forall m : assignment,
    assignment_to_extension n e m = ext_of e n (val_of m).
