(* Statements derived from Proofs/SolverCc.v in the form used by the Properties files: what a
   completed run ([Done]) of a per-component query returns, for every valid SAT oracle. *)
From Crusta Require Import Spec.AF Sat.Cnf Sat.Prog Model.Encoders Model.Graph Model.Solvers.
From Crusta Require Import Spec.SemFacts Proofs.ProgLaws Proofs.EncSpec Proofs.EncBase Proofs.SolverBasics Proofs.SolverCc.
Import ListNotations.
Open Scope prog_scope.

(* [Q] holds of the value of every completed run of [m], from any state *)
Definition on_done {A} (m : M A) (Q : A -> Prop) : Prop :=
  forall s, match m s with Done a _ => Q a | _ => True end.

Lemma wpT_on_done A (m : M A) (Q : A -> Prop) :
  (forall s, wp (fun _ => True) (fun _ => True) (fun _ => True) m (fun a _ => Q a) s) -> on_done m Q.
Proof. intros H s. specialize (H s). unfold wp in H. destruct (m s); auto. Qed.

Section Thms.
Variable oracle : nat -> cnf -> list lit -> answer.
Variable thr : nat.
Hypothesis Hthr : 1 <= thr.
Hypothesis Hvalid : valid_oracle oracle.

(* --- stable, one component --- *)
Theorem stable_component : forall c n la pol,
  compact_af (c_af c) n -> (forall a, In a la -> a < n) ->
  on_done (st_cc oracle thr c la pol) (st_cc_post c n la pol).
Proof.
  intros c n la pol HF Hla. apply wpT_on_done. intros s.
  exact (st_cc_spec oracle thr Hthr Hvalid c n HF la pol s Hla).
Qed.

(* single extension: a model of the component denotes a stable extension, no model = no extension *)
Corollary stable_component_se : forall c n,
  compact_af (c_af c) n ->
  on_done (st_cc oracle thr c [] false)
    (fun r => match r with
              | Some (m, _) => st (c_af c) (assignment_to_extension n StDefault m)
              | None => forall S, ~ st (c_af c) S
              end).
Proof.
  intros c n HF s. pose proof (stable_component c n [] false HF (fun a H => match H with end) s) as H.
  destruct (st_cc oracle thr c [] false s) as [r s'| | |]; auto.
  destruct r as [[m acc]|]; cbn [st_cc_post] in H.
  - tauto.
  - intros S HS. specialize (H S HS). discriminate.
Qed.

(* credulous / skeptical status of a list inside one component *)
Corollary stable_component_cred : forall c n la,
  compact_af (c_af c) n -> (forall a, In a la -> a < n) ->
  on_done (st_cc oracle thr c la true)
    (fun r => match r with
              | Some (m, true) => st (c_af c) (assignment_to_extension n StDefault m) /\
                                  meets la (assignment_to_extension n StDefault m) = true
              | Some (m, false) => st (c_af c) (assignment_to_extension n StDefault m) /\
                                   ~ cred ST (c_af c) la
              | None => forall S, ~ st (c_af c) S
              end).
Proof.
  intros c n la HF Hla s. pose proof (stable_component c n la true HF Hla s) as H.
  destruct (st_cc oracle thr c la true s) as [r s'| | |]; auto.
  destruct r as [[m [|]]|]; cbn [st_cc_post] in H.
  - destruct H as [H1 [H2 _]]. auto.
  - destruct H as [H1 [_ H2]]. split; [exact H1|]. intros [S [HS [a [Ha HaS]]]].
    specialize (H2 eq_refl S HS). pose proof (proj1 (meets_false la S) H2 a Ha). contradiction.
  - exact H.
Qed.

Corollary stable_component_skep : forall c n la,
  compact_af (c_af c) n -> (forall a, In a la -> a < n) ->
  on_done (st_cc oracle thr c la false)
    (fun r => match r with
              | Some (m, _) => st (c_af c) (assignment_to_extension n StDefault m) /\
                               meets la (assignment_to_extension n StDefault m) = false /\
                               ~ skep ST (c_af c) la
              | None => skep ST (c_af c) la
              end).
Proof.
  intros c n la HF Hla s. pose proof (stable_component c n la false HF Hla s) as H.
  destruct (st_cc oracle thr c la false s) as [r s'| | |]; auto.
  destruct r as [[m acc]|]; cbn [st_cc_post] in H.
  - destruct H as [H1 [_ H2]]. split; [exact H1|split; [exact H2|]]. intros Hsk.
    destruct (Hsk _ H1) as [a [Ha HaS]].
    pose proof (proj1 (meets_false la _) H2 a Ha). contradiction.
  - intros S HS. specialize (H S HS). apply meets_spec in H. exact H.
Qed.

(* --- the guarded disjunction query on an encoded component (CO-DC and everything that delegates
       to it), for every encoder --- *)
Theorem cred_query : forall e F n la close s,
  compact_af F n -> (forall a, In a la -> a < n) -> cls s = [] -> sess_bounded s ->
  match (encode_m thr e false F ;;; guarded_disj oracle e (ret la) close) s with
  | Done (Some m) _ =>
      basep (enc_base e) F (assignment_to_extension n e m) /\
      meets la (assignment_to_extension n e m) = true
  | Done None _ => forall S, basep (enc_base e) F S -> meets la S = false
  | _ => True
  end.
Proof.
  intros e F n la close s HF Hla Hc Hsb.
  pose proof (cred_query_spec oracle thr Hthr Hvalid e F n HF la Hla close s Hc Hsb) as H.
  unfold wp in H.
  destruct ((encode_m thr e false F ;;; guarded_disj oracle e (ret la) close) s) as [r s'| | |]; auto.
Qed.

(* for the complete-semantics encoders this is credulous acceptance under CO *)
Corollary cred_query_complete : forall e F n la close s,
  enc_base e = BCo ->
  compact_af F n -> (forall a, In a la -> a < n) -> cls s = [] -> sess_bounded s ->
  match (encode_m thr e false F ;;; guarded_disj oracle e (ret la) close) s with
  | Done (Some m) _ =>
      co F (assignment_to_extension n e m) /\ meets la (assignment_to_extension n e m) = true /\
      cred CO F la
  | Done None _ => ~ cred CO F la
  | _ => True
  end.
Proof.
  intros e F n la close s He HF Hla Hc Hsb.
  pose proof (cred_query e F n la close s HF Hla Hc Hsb) as H. rewrite He in H. cbn [basep] in H.
  destruct ((encode_m thr e false F ;;; guarded_disj oracle e (ret la) close) s) as [r s'| | |]; auto.
  destruct r as [m|].
  - destruct H as [H1 H2]. split; [exact H1|split; [exact H2|]].
    apply meets_spec in H2. destruct H2 as [a [Ha HaS]]. exists (assignment_to_extension n e m).
    split; [exact H1|]. now exists a.
  - intros [S [HS [a [Ha HaS]]]]. specialize (H S HS).
    pose proof (proj1 (meets_false la S) H a Ha). contradiction.
Qed.

(* ---------- single-argument forms (C02, C03, C04) ---------- *)
Lemma single_lt a n : a < n -> forall x, In x [a] -> x < n.
Proof. intros Ha x [<-|[]]. exact Ha. Qed.

Corollary complete_component_single : forall e F n a close s,
  enc_base e = BCo -> compact_af F n -> a < n -> cls s = [] -> sess_bounded s ->
  match (encode_m thr e false F ;;; guarded_disj oracle e (ret [a]) close) s with
  | Done (Some m) _ => cred CO F [a] /\ co F (assignment_to_extension n e m) /\
                       In a (assignment_to_extension n e m)
  | Done None _ => ~ cred CO F [a]
  | _ => True
  end.
Proof.
  intros e F n a close s He HF Ha Hc Hsb.
  pose proof (cred_query_complete e F n [a] close s He HF (single_lt a n Ha) Hc Hsb) as H.
  destruct ((encode_m thr e false F ;;; guarded_disj oracle e (ret [a]) close) s) as [[m|] ?| | |]; try tauto.
  destruct H as [H1 [H2 H3]]. split; [exact H3|split; [exact H1|]].
  apply meets_spec in H2. destruct H2 as [x [[<-|[]] Hx]]. exact Hx.
Qed.

Corollary stable_component_cred_single : forall c n a,
  compact_af (c_af c) n -> a < n ->
  on_done (st_cc oracle thr c [a] true)
    (fun r => match r with
              | Some (m, true) => cred ST (c_af c) [a] /\
                                  st (c_af c) (assignment_to_extension n StDefault m) /\
                                  In a (assignment_to_extension n StDefault m)
              | Some (m, false) => ~ cred ST (c_af c) [a] /\
                                  st (c_af c) (assignment_to_extension n StDefault m)
              | None => forall S, ~ st (c_af c) S
              end).
Proof.
  intros c n a HF Ha s.
  pose proof (stable_component_cred c n [a] HF (single_lt a n Ha) s) as H.
  destruct (st_cc oracle thr c [a] true s) as [[[m [|]]|] ?| | |]; try tauto.
  destruct H as [H1 H2]. apply meets_spec in H2. destruct H2 as [x [[<-|[]] Hx]].
  split; [|split; [exact H1|exact Hx]].
  exists (assignment_to_extension n StDefault m). split; [exact H1|]. exists a. split; [now left|exact Hx].
Qed.

Corollary stable_component_skep_single : forall c n a,
  compact_af (c_af c) n -> a < n ->
  on_done (st_cc oracle thr c [a] false)
    (fun r => match r with
              | Some (m, _) => ~ skep ST (c_af c) [a] /\
                                  st (c_af c) (assignment_to_extension n StDefault m) /\
                                  ~ In a (assignment_to_extension n StDefault m)
              | None => skep ST (c_af c) [a]
              end).
Proof.
  intros c n a HF Ha s.
  pose proof (stable_component_skep c n [a] HF (single_lt a n Ha) s) as H.
  destruct (st_cc oracle thr c [a] false s) as [[[m acc]|] ?| | |]; try tauto.
  destruct H as [H1 [H2 H3]]. split; [exact H3|split; [exact H1|]].
  intros Hin. pose proof (proj1 (meets_false [a] _) H2 a (or_introl eq_refl)). contradiction.
Qed.

End Thms.
