(* Reasoning rules for the SAT-program monad of Sat/Prog.v: a weakest-precondition transformer with
   one postcondition per kind of result, its rules for every primitive, and invariant preservation. *)
From Crusta Require Import Sat.Cnf Sat.Prog.
Import ListNotations.
Open Scope prog_scope.

Section WP.
Variable oracle : nat -> cnf -> list lit -> answer.
Variables QA QP QF : st -> Prop.   (* postconditions of Abort / Panic / OutOfFuel *)

Definition wp {A} (m : M A) (Q : A -> st -> Prop) (s : st) : Prop :=
  match m s with
  | Done a s' => Q a s'
  | Abort s' => QA s'
  | Panic s' => QP s'
  | OutOfFuel s' => QF s'
  end.

Lemma wp_ret A (a : A) Q s : wp (ret a) Q s <-> Q a s.
Proof. reflexivity. Qed.

Lemma wp_bind A B (m : M A) (k : A -> M B) Q s :
  wp (bind m k) Q s <-> wp m (fun a s' => wp (k a) Q s') s.
Proof. unfold wp, bind. destruct (m s); reflexivity. Qed.

Lemma wp_mono A (m : M A) (Q Q' : A -> st -> Prop) s :
  (forall a s', Q a s' -> Q' a s') -> wp m Q s -> wp m Q' s.
Proof. unfold wp. intros H. destruct (m s); auto. Qed.

Lemma wp_panic A Q s : wp (@panic A) Q s <-> QP s.
Proof. reflexivity. Qed.
Lemma wp_out_of_fuel A Q s : wp (@out_of_fuel A) Q s <-> QF s.
Proof. reflexivity. Qed.

Definition st_new (s : st) : st :=
  {| disc := disc s; sess := empty_session; nsess := S (nsess s); calls := calls s;
     rlog := (S (nsess s), ENew) :: rlog s |}.
Lemma wp_new_solver Q s : wp new_solver Q s <-> Q tt (st_new s).
Proof. reflexivity. Qed.

Definition sess_reserve (se : session) (n : nat) : session :=
  {| rclauses := rclauses se; reserved := Nat.max (reserved se) n; maxvar := maxvar se |}.
Definition st_reserve (s : st) (n : nat) : st :=
  log_ev (EReserve n) s (sess_reserve (sess s) n) (calls s).
Lemma wp_reserve n Q s : wp (reserve n) Q s <-> Q tt (st_reserve s n).
Proof. reflexivity. Qed.

Definition sess_add (se : session) (c : clause) : session :=
  {| rclauses := c :: rclauses se; reserved := reserved se;
     maxvar := Nat.max (maxvar se) (clause_max c) |}.
Definition st_add (s : st) (c : clause) : st :=
  log_ev (EClause c) s (sess_add (sess s) c) (calls s).
Lemma wp_add_clause c Q s : wp (add_clause c) Q s <-> Q tt (st_add s c).
Proof. reflexivity. Qed.

Definition st_nvars (s : st) : st :=
  log_ev (ENVars (session_n_vars (sess s))) s (sess s) (calls s).
Lemma wp_n_vars Q s : wp n_vars Q s <-> Q (session_n_vars (sess s)) (st_nvars s).
Proof. reflexivity. Qed.

Definition sess_solved (d : discipline) (se : session) (a : list lit) : session :=
  match d with
  | CadicalLike => {| rclauses := rclauses se; reserved := reserved se;
                      maxvar := Nat.max (maxvar se) (clause_max a) |}
  | BufferedLike => se
  end.
Definition answer_of (s : st) (a : list lit) : answer :=
  oracle (calls s) (rev (rclauses (sess s))) a.
Definition st_solved (s : st) (a : list lit) : st :=
  log_ev (ESolve a (answer_of s a)) s (sess_solved (disc s) (sess s) a) (S (calls s)).
Lemma wp_solve a Q s :
  wp (solve oracle a) Q s <->
  match answer_of s a with
  | Sat m => Q (Some m) (st_solved s a)
  | Unsat => Q None (st_solved s a)
  | Unknown => QA (st_solved s a)
  end.
Proof.
  unfold wp, solve, st_solved, answer_of, sess_solved.
  destruct (oracle (calls s) (rev (rclauses (sess s))) a); reflexivity.
Qed.

Fixpoint st_adds (s : st) (cs : cnf) : st :=
  match cs with [] => s | c :: r => st_adds (st_add s c) r end.
Lemma wp_add_clauses cs Q s : wp (add_clauses cs) Q s <-> Q tt (st_adds s cs).
Proof.
  revert s. induction cs as [|c r IH]; intros s; cbn [add_clauses st_adds].
  - reflexivity.
  - rewrite wp_bind, wp_add_clause. apply IH.
Qed.

End WP.

(* facts about the state transformers *)
Lemma st_adds_clauses s cs : rclauses (sess (st_adds s cs)) = rev cs ++ rclauses (sess s).
Proof.
  revert s. induction cs as [|c r IH]; intros s; cbn [st_adds rev]; [reflexivity|].
  rewrite IH. cbn. now rewrite <- app_assoc.
Qed.
Lemma st_adds_calls s cs : calls (st_adds s cs) = calls s.
Proof. revert s. induction cs as [|c r IH]; intros s; cbn [st_adds]; [reflexivity|]. now rewrite IH. Qed.
Lemma st_adds_disc s cs : disc (st_adds s cs) = disc s.
Proof. revert s. induction cs as [|c r IH]; intros s; cbn [st_adds]; [reflexivity|]. now rewrite IH. Qed.
Lemma st_adds_nsess s cs : nsess (st_adds s cs) = nsess s.
Proof. revert s. induction cs as [|c r IH]; intros s; cbn [st_adds]; [reflexivity|]. now rewrite IH. Qed.
Lemma st_adds_rlog s cs :
  rlog (st_adds s cs) = rev (map (fun c => (nsess s, EClause c)) cs) ++ rlog s.
Proof.
  revert s. induction cs as [|c r IH]; intros s; cbn [st_adds map rev]; [reflexivity|].
  rewrite IH. cbn. now rewrite <- app_assoc.
Qed.

(* ------------------------------------------------------------------------------------------ *)
(* Invariant preservation: [I] holds of every Done / Panic / OutOfFuel state, [IA] of every
   Abort state.  Used for log properties (C17) and counters (C18). *)
Section Preserve.
Variable oracle : nat -> cnf -> list lit -> answer.
Variables I IA : st -> Prop.

Definition preserves {A} (m : M A) : Prop :=
  forall s, I s -> wp IA I I m (fun _ s' => I s') s.

Lemma preserves_ret A (a : A) : preserves (ret a).
Proof. intros s H. exact H. Qed.
Lemma preserves_bind A B (m : M A) (k : A -> M B) :
  preserves m -> (forall a, preserves (k a)) -> preserves (bind m k).
Proof.
  intros Hm Hk s H. apply wp_bind. eapply wp_mono; [|apply Hm, H].
  intros a s' H'. now apply Hk.
Qed.
Lemma preserves_panic A : preserves (@panic A).
Proof. intros s H. exact H. Qed.
Lemma preserves_oof A : preserves (@out_of_fuel A).
Proof. intros s H. exact H. Qed.

Hypothesis I_new : forall s, I s -> I (st_new s).
Hypothesis I_reserve : forall s n, I s -> I (st_reserve s n).
Hypothesis I_add : forall s c, I s -> I (st_add s c).
Hypothesis I_nvars : forall s, I s -> I (st_nvars s).
Hypothesis I_solve : forall s a, I s ->
  match answer_of oracle s a with
  | Unknown => IA (st_solved oracle s a)
  | _ => I (st_solved oracle s a)
  end.

Lemma preserves_new_solver : preserves new_solver.
Proof. intros s H. now apply I_new. Qed.
Lemma preserves_reserve n : preserves (reserve n).
Proof. intros s H. now apply I_reserve. Qed.
Lemma preserves_add_clause c : preserves (add_clause c).
Proof. intros s H. now apply I_add. Qed.
Lemma preserves_n_vars : preserves n_vars.
Proof. intros s H. now apply I_nvars. Qed.
Lemma preserves_solve a : preserves (solve oracle a).
Proof.
  intros s H. apply wp_solve. pose proof (I_solve s a H) as Hs.
  destruct (answer_of oracle s a); exact Hs.
Qed.
Lemma preserves_add_clauses cs : preserves (add_clauses cs).
Proof.
  induction cs as [|c r IH]; cbn [add_clauses]; [apply preserves_ret|].
  apply preserves_bind; [apply preserves_add_clause|intros _; exact IH].
Qed.

End Preserve.
