(* C06 at the level of the model: the status computed by a component query does not depend on
   the SAT answers received (any two valid oracles, i.e. any two correct SAT backends), on the
   encoder, or on the certificate flag.  Corollaries of Proofs/SolverThms.v: both runs decide the
   same semantic question. *)
From Crusta Require Import Spec.AF Sat.Cnf Sat.Prog Model.Encoders Model.Graph Model.Solvers.
From Crusta Require Import Proofs.EncSpec Proofs.SolverBasics Proofs.SolverCc Proofs.SolverThms.
Import ListNotations.
Open Scope prog_scope.

Definition is_some {A} (o : option A) : bool := match o with Some _ => true | None => false end.

(* complete-semantics credulous query: two encoders, two backends, two certificate flags *)
Theorem complete_query_config_independent :
  forall o1 o2 thr1 thr2, 1 <= thr1 -> 1 <= thr2 -> valid_oracle o1 -> valid_oracle o2 ->
  forall e1 e2 F n la c1 c2 s1 s2,
  enc_base e1 = BCo -> enc_base e2 = BCo ->
  compact_af F n -> (forall a, In a la -> a < n) ->
  cls s1 = [] -> sess_bounded s1 -> cls s2 = [] -> sess_bounded s2 ->
  forall r1 t1 r2 t2,
  (encode_m thr1 e1 false F ;;; guarded_disj o1 e1 (ret la) c1) s1 = Done r1 t1 ->
  (encode_m thr2 e2 false F ;;; guarded_disj o2 e2 (ret la) c2) s2 = Done r2 t2 ->
  is_some r1 = is_some r2.
Proof.
  intros o1 o2 thr1 thr2 Ht1 Ht2 Hv1 Hv2 e1 e2 F n la c1 c2 s1 s2 He1 He2 HF Hla Hc1 Hb1 Hc2 Hb2
         r1 t1 r2 t2 H1 H2.
  pose proof (cred_query_complete o1 thr1 Ht1 Hv1 e1 F n la c1 s1 He1 HF Hla Hc1 Hb1) as P1.
  pose proof (cred_query_complete o2 thr2 Ht2 Hv2 e2 F n la c2 s2 He2 HF Hla Hc2 Hb2) as P2.
  rewrite H1 in P1. rewrite H2 in P2.
  destruct r1 as [m1|], r2 as [m2|]; cbn [is_some]; try reflexivity; exfalso.
  - destruct P1 as [_ [_ P1]]. contradiction.
  - destruct P2 as [_ [_ P2]]. contradiction.
Qed.

(* stable solver, one component: two backends give the same verdict *)
Definition st_verdict (r : option (assignment * bool)) : option bool := option_map snd r.

Theorem stable_component_backend_independent :
  forall o1 o2 thr1 thr2, 1 <= thr1 -> 1 <= thr2 -> valid_oracle o1 -> valid_oracle o2 ->
  forall c n la pol s1 s2,
  compact_af (c_af c) n -> (forall a, In a la -> a < n) ->
  forall r1 t1 r2 t2,
  st_cc o1 thr1 c la pol s1 = Done r1 t1 -> st_cc o2 thr2 c la pol s2 = Done r2 t2 ->
  st_verdict r1 = st_verdict r2.
Proof.
  intros o1 o2 thr1 thr2 Ht1 Ht2 Hv1 Hv2 c n la pol s1 s2 HF Hla r1 t1 r2 t2 H1 H2.
  pose proof (stable_component o1 thr1 Ht1 Hv1 c n la pol HF Hla s1) as P1.
  pose proof (stable_component o2 thr2 Ht2 Hv2 c n la pol HF Hla s2) as P2.
  rewrite H1 in P1. rewrite H2 in P2. unfold st_cc_post in P1, P2.
  destruct r1 as [[m1 a1]|], r2 as [[m2 a2]|]; cbn [st_verdict option_map snd].
  - f_equal. destruct pol.
    + destruct P1 as [S1 [P1a P1b]], P2 as [S2 [P2a P2b]].
      destruct a1, a2; try reflexivity; exfalso.
      * specialize (P1a eq_refl). specialize (P2b eq_refl _ S1). congruence.
      * specialize (P2a eq_refl). specialize (P1b eq_refl _ S2). congruence.
    + destruct P1 as [_ [-> _]], P2 as [_ [-> _]]. reflexivity.
  - exfalso. destruct pol.
    + destruct P1 as [S1 _]. exact (P2 _ S1).
    + destruct P1 as [S1 [_ M1]]. specialize (P2 _ S1). congruence.
  - exfalso. destruct pol.
    + destruct P2 as [S2 _]. exact (P1 _ S2).
    + destruct P2 as [S2 [_ M2]]. specialize (P1 _ S2). congruence.
  - reflexivity.
Qed.
