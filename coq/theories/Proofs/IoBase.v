(* Foundations for the reader/writer proofs: UTF-8 round trip, BufRead::lines() on rendered lines,
   split_whitespace on blank-separated tokens, decimal rendering and parsing. *)
From Crusta Require Import Spec.IoSpec.
From Coq Require Import Lia ZifyBool.
Local Open Scope N_scope.
Ltac Zify.zify_post_hook ::= Z.to_euclidean_division_equations.

Ltac rwb t v := let H := fresh in assert (H : t = v) by lia; rewrite H; clear H.
Tactic Notation "rwb2" constr(t) constr(v) tactic(tac) :=
  let H := fresh in assert (H : t = v) by tac; rewrite H; clear H.

(* ------------------------------------------------------------------ strings *)
Lemma str_eqb_eq a : forall b, str_eqb a b = true <-> a = b.
Proof.
  induction a as [|x a IH]; intros [|y b]; cbn [str_eqb]; try (split; [discriminate|discriminate]).
  - split; reflexivity.
  - rewrite andb_true_iff, N.eqb_eq, IH. split; [intros [-> ->]; reflexivity|].
    intros H; injection H; auto.
Qed.
Lemma str_eqb_refl a : str_eqb a a = true.
Proof. apply str_eqb_eq. reflexivity. Qed.

(* ------------------------------------------------------------------ UTF-8 *)
Lemma utf8_decode_encode_cp c r : scalar c ->
  utf8_decode (utf8_encode_cp c ++ r) = option_map (cons c) (utf8_decode r).
Proof.
  intros Hs. unfold utf8_encode_cp.
  destruct (c <? 128) eqn:E1.
  { cbn [app utf8_decode]. rewrite E1. reflexivity. }
  destruct (c <? 2048) eqn:E2.
  { cbn [app utf8_decode].
    rwb (192 + c / 64 <? 128) false.
    rwb (192 + c / 64 <? 194) false.
    rwb (192 + c / 64 <? 224) true.
    unfold is_cont.
    rwb ((128 <=? 128 + c mod 64) && (128 + c mod 64 <=? 191)) true.
    rwb ((192 + c / 64 - 192) * 64 + (128 + c mod 64 - 128)) c.
    reflexivity. }
  destruct (c <? 65536) eqn:E3.
  { cbn [app utf8_decode].
    rwb (224 + c / 4096 <? 128) false.
    rwb (224 + c / 4096 <? 194) false.
    rwb (224 + c / 4096 <? 224) false.
    rwb (224 + c / 4096 <? 240) true.
    unfold is_cont.
    rwb ((128 <=? 128 + c / 64 mod 64) && (128 + c / 64 mod 64 <=? 191)) true.
    rwb ((128 <=? 128 + c mod 64) && (128 + c mod 64 <=? 191)) true.
    rwb2 (if 224 + c / 4096 =? 224 then 160 <=? 128 + c / 64 mod 64 else true) true
      ltac:(unfold scalar in Hs; destruct (224 + c / 4096 =? 224) eqn:E; lia).
    rwb2 (if 224 + c / 4096 =? 237 then 128 + c / 64 mod 64 <=? 159 else true) true
      ltac:(unfold scalar in Hs; destruct (224 + c / 4096 =? 237) eqn:E; lia).
    cbn [andb].
    rwb ((224 + c / 4096 - 224) * 4096 + (128 + c / 64 mod 64 - 128) * 64 + (128 + c mod 64 - 128)) c.
    reflexivity. }
  cbn [app utf8_decode]. unfold scalar in Hs.
  rwb (240 + c / 262144 <? 128) false.
  rwb (240 + c / 262144 <? 194) false.
  rwb (240 + c / 262144 <? 224) false.
  rwb (240 + c / 262144 <? 240) false.
  rwb (240 + c / 262144 <? 245) true.
  unfold is_cont.
  rwb ((128 <=? 128 + c / 4096 mod 64) && (128 + c / 4096 mod 64 <=? 191)) true.
  rwb ((128 <=? 128 + c / 64 mod 64) && (128 + c / 64 mod 64 <=? 191)) true.
  rwb ((128 <=? 128 + c mod 64) && (128 + c mod 64 <=? 191)) true.
  rwb2 (if 240 + c / 262144 =? 240 then 144 <=? 128 + c / 4096 mod 64 else true) true
    ltac:(destruct (240 + c / 262144 =? 240) eqn:E; lia).
  rwb2 (if 240 + c / 262144 =? 244 then 128 + c / 4096 mod 64 <=? 143 else true) true
    ltac:(destruct (240 + c / 262144 =? 244) eqn:E; lia).
  cbn [andb].
  rwb ((240 + c / 262144 - 240) * 262144 + (128 + c / 4096 mod 64 - 128) * 4096
       + (128 + c / 64 mod 64 - 128) * 64 + (128 + c mod 64 - 128)) c.
  reflexivity.
Qed.

Lemma utf8_decode_encode s : forall r, Forall scalar s ->
  utf8_decode (utf8_encode s ++ r) = option_map (app s) (utf8_decode r).
Proof.
  induction s as [|c s IH]; intros r Hs.
  - cbn [utf8_encode flat_map app]. destruct (utf8_decode r); reflexivity.
  - inversion Hs as [|? ? Hc Hs']; subst.
    unfold utf8_encode. cbn [flat_map]. rewrite <- app_assoc.
    rewrite (utf8_decode_encode_cp c _ Hc). fold (utf8_encode s). rewrite (IH r Hs').
    destruct (utf8_decode r); reflexivity.
Qed.

Lemma utf8_roundtrip s : Forall scalar s -> utf8_decode (utf8_encode s) = Some s.
Proof.
  intros Hs. pose proof (utf8_decode_encode s [] Hs) as H. rewrite app_nil_r in H.
  rewrite H. cbn [utf8_decode option_map]. rewrite app_nil_r. reflexivity.
Qed.

(* the bytes of a character: itself when ASCII, otherwise all >= 128 *)
Lemma encode_cp_bytes c b : In b (utf8_encode_cp c) -> (b = c /\ c < 128) \/ 128 <= b.
Proof.
  unfold utf8_encode_cp.
  destruct (c <? 128) eqn:E1; [cbn [In]; intros [<-|[]]; left; lia|].
  destruct (c <? 2048) eqn:E2; [cbn [In]; intros [<-|[<-|[]]]; right; lia|].
  destruct (c <? 65536) eqn:E3; [cbn [In]; intros [<-|[<-|[<-|[]]]]; right; lia|].
  cbn [In]; intros [<-|[<-|[<-|[<-|[]]]]]; right; lia.
Qed.
Lemma encode_cp_nonnil c : utf8_encode_cp c <> [].
Proof.
  unfold utf8_encode_cp.
  destruct (c <? 128); [discriminate|]. destruct (c <? 2048); [discriminate|].
  destruct (c <? 65536); discriminate.
Qed.
Lemma encode_nonnil s : s <> [] -> utf8_encode s <> [].
Proof.
  destruct s as [|c s]; [congruence|]. intros _. unfold utf8_encode. cbn [flat_map].
  pose proof (encode_cp_nonnil c). destruct (utf8_encode_cp c); [congruence|discriminate].
Qed.
Lemma encode_app a b : utf8_encode (a ++ b) = utf8_encode a ++ utf8_encode b.
Proof. unfold utf8_encode. apply flat_map_app. Qed.

Lemma encode_no_byte s b : b < 128 -> ~ In b s -> ~ In b (utf8_encode s).
Proof.
  intros Hb Hn Hin. unfold utf8_encode in Hin. apply in_flat_map in Hin.
  destruct Hin as [c [Hc Hbc]]. apply encode_cp_bytes in Hbc.
  destruct Hbc as [[-> _]|H]; [contradiction|lia].
Qed.

Lemma clean_scalar s : clean s -> Forall scalar s.
Proof. intros H. eapply Forall_impl; [|exact H]. intros c [Hc _]; exact Hc. Qed.
Lemma clean_no_lf s : clean s -> ~ In 10 (utf8_encode s).
Proof.
  intros H. apply encode_no_byte; [lia|]. intros Hin.
  unfold clean in H. rewrite Forall_forall in H. destruct (H _ Hin) as [_ [Hc _]]. congruence.
Qed.
Lemma clean_no_cr s : clean s -> ~ In 13 (utf8_encode s).
Proof.
  intros H. apply encode_no_byte; [lia|]. intros Hin.
  unfold clean in H. rewrite Forall_forall in H. destruct (H _ Hin) as [_ [_ Hc]]. congruence.
Qed.

(* ------------------------------------------------------------------ lines *)
Lemma raw_lines_nl a : forall r, ~ In 10 a -> raw_lines (a ++ 10 :: r) = (a, true) :: raw_lines r.
Proof.
  induction a as [|b a IH]; intros r Hn.
  - cbn [app raw_lines]. rewrite N.eqb_refl. reflexivity.
  - cbn [app raw_lines]. destruct (b =? 10) eqn:E.
    + apply N.eqb_eq in E. subst b. exfalso. apply Hn. left; reflexivity.
    + rewrite IH; [reflexivity|]. intros Hin. apply Hn. right; assumption.
Qed.
Lemma raw_lines_last a : ~ In 10 a -> a <> [] -> raw_lines a = [(a, false)].
Proof.
  induction a as [|b a IH]; intros Hn Hne; [congruence|].
  cbn [raw_lines]. destruct (b =? 10) eqn:E.
  - apply N.eqb_eq in E. subst b. exfalso. apply Hn. left; reflexivity.
  - destruct a as [|b' a'].
    + cbn [raw_lines]. reflexivity.
    + rewrite IH; [reflexivity| |discriminate]. intros Hin. apply Hn. right; assumption.
Qed.

Lemma strip_cr_cons b r : r <> [] -> strip_cr (b :: r) = b :: strip_cr r.
Proof. destruct r; [congruence|reflexivity]. Qed.
Lemma strip_cr_snoc a : strip_cr (a ++ [13]) = a.
Proof.
  induction a as [|b a IH]; [reflexivity|].
  cbn [app]. rewrite strip_cr_cons by (destruct a; discriminate). rewrite IH. reflexivity.
Qed.
Lemma strip_cr_id a : ~ In 13 a -> strip_cr a = a.
Proof.
  induction a as [|b a IH]; intros Hn; [reflexivity|].
  destruct a as [|b' a'].
  - cbn [strip_cr]. destruct (b =? 13) eqn:E; [|reflexivity].
    apply N.eqb_eq in E. subst b. exfalso. apply Hn. left; reflexivity.
  - rewrite strip_cr_cons by discriminate. rewrite IH; [reflexivity|].
    intros Hin. apply Hn. right; assumption.
Qed.

Lemma line_of_lf s : clean s -> line_of (utf8_encode s, true) = Some s.
Proof.
  intros Hc. unfold line_of. cbn [fst snd].
  rewrite strip_cr_id by (apply clean_no_cr; assumption).
  apply utf8_roundtrip, clean_scalar, Hc.
Qed.
Lemma line_of_crlf s : clean s -> line_of (utf8_encode s ++ [13], true) = Some s.
Proof.
  intros Hc. unfold line_of. cbn [fst snd]. rewrite strip_cr_snoc.
  apply utf8_roundtrip, clean_scalar, Hc.
Qed.

Lemma lines_one s crlf r : clean s ->
  lines (utf8_encode s ++ eol crlf ++ r) = Some s :: lines r.
Proof.
  intros Hc. unfold lines. destruct crlf; cbn [eol app].
  - replace (utf8_encode s ++ 13 :: 10 :: r) with ((utf8_encode s ++ [13]) ++ 10 :: r)
      by (rewrite <- app_assoc; reflexivity).
    rewrite raw_lines_nl.
    + cbn [map]. rewrite line_of_crlf by assumption. reflexivity.
    + intros Hin. apply in_app_or in Hin. destruct Hin as [Hin|[Hin|[]]]; [|discriminate].
      revert Hin. apply clean_no_lf; assumption.
  - rewrite raw_lines_nl by (apply clean_no_lf; assumption).
    cbn [map]. rewrite line_of_lf by assumption. reflexivity.
Qed.

Lemma lines_render ls : forall eols fnl, Forall clean ls -> final_ok ls fnl ->
  lines (render_lines ls eols fnl) = map Some ls.
Proof.
  induction ls as [|s r IH]; intros eols fnl Hc Hf; [reflexivity|].
  inversion Hc as [|? ? Hs Hr]; subst.
  cbn [render_lines]. destruct r as [|s' r'].
  - destruct fnl.
    + rewrite <- (app_nil_r (eol (hd false eols))). rewrite lines_one by assumption. reflexivity.
    + rewrite app_nil_r. unfold lines.
      assert (Hne : s <> []) by (apply Hf; reflexivity).
      rewrite raw_lines_last; [|apply clean_no_lf; assumption|apply encode_nonnil; assumption].
      cbn [map]. unfold line_of. cbn [fst snd]. rewrite utf8_roundtrip by (apply clean_scalar; assumption).
      reflexivity.
  - rewrite lines_one by assumption. cbn [map]. f_equal.
    apply IH; [assumption|]. intros Hfn. apply Hf in Hfn. exact Hfn.
Qed.

(* ------------------------------------------------------------------ character classes *)
Definition ws (c : N) : Prop := is_ws c = true.
Definition nonws (c : N) : Prop := is_ws c = false.

Lemma blank_ws c : blank c -> ws c.
Proof. intros [H _]; exact H. Qed.
Lemma blanks_ws b : blanks b -> Forall ws b.
Proof. intros H. eapply Forall_impl; [|exact H]. intros c Hc; apply blank_ws, Hc. Qed.

Lemma is_ws_cases c : is_ws c = true ->
  (9 <= c <= 13) \/ c = 32 \/ c = 133 \/ c = 160 \/ c = 5760 \/ (8192 <= c <= 8202) \/
  (8232 <= c <= 8233) \/ c = 8239 \/ c = 8287 \/ c = 12288.
Proof.
  unfold is_ws, in_ranges, white_space_ranges. cbn [existsb fst snd]. lia.
Qed.
Lemma ws_scalar c : is_ws c = true -> scalar c.
Proof. intros H. apply is_ws_cases in H. unfold scalar. lia. Qed.
Lemma blank_inline c : blank c -> inline c.
Proof. intros [H [H1 H2]]. split; [apply ws_scalar, H|split; assumption]. Qed.
Lemma blanks_clean b : blanks b -> clean b.
Proof. intros H. eapply Forall_impl; [|exact H]. intros c Hc; apply blank_inline, Hc. Qed.

Lemma ascii_nonws c : 33 <= c <= 126 -> is_ws c = false.
Proof.
  intros H. destruct (is_ws c) eqn:E; [|reflexivity]. apply is_ws_cases in E. lia.
Qed.
Lemma digit_nonws c : is_digit c = true -> is_ws c = false.
Proof. unfold is_digit. intros H. apply ascii_nonws. lia. Qed.

Lemma ranges_disjoint_spec rs1 rs2 c :
  forallb (fun r1 => forallb (fun r2 => (snd r1 <? fst r2) || (snd r2 <? fst r1)) rs2) rs1 = true ->
  in_ranges c rs1 = true -> in_ranges c rs2 = false.
Proof.
  intros Hd H1. unfold in_ranges in *. apply existsb_exists in H1. destruct H1 as [r1 [Hin1 Hc1]].
  destruct (existsb _ rs2) eqn:E; [|reflexivity]. exfalso.
  apply existsb_exists in E. destruct E as [r2 [Hin2 Hc2]].
  rewrite forallb_forall in Hd. specialize (Hd _ Hin1). rewrite forallb_forall in Hd.
  specialize (Hd _ Hin2). lia.
Qed.
Lemma dec_nonws c : is_dec c = true -> is_ws c = false.
Proof.
  apply (ranges_disjoint_spec decimal_number_ranges white_space_ranges c). vm_compute. reflexivity.
Qed.
Lemma id_char_nonws c : is_id_char c = true -> is_ws c = false.
Proof.
  unfold is_id_char, is_id_start, is_alpha. intros H.
  destruct (is_dec c) eqn:E; [apply dec_nonws; assumption|].
  apply ascii_nonws. lia.
Qed.
Lemma dec_scalar c : is_dec c = true -> scalar c.
Proof.
  intros H. unfold is_dec, in_ranges in H. apply existsb_exists in H. destruct H as [r [Hin Hc]].
  assert (Hall : forallb (fun r => (snd r <? 55296) || ((57344 <=? fst r) && (snd r <? 1114112)))
                         decimal_number_ranges = true) by (vm_compute; reflexivity).
  rewrite forallb_forall in Hall. specialize (Hall _ Hin). unfold scalar. lia.
Qed.
Lemma id_char_scalar c : is_id_char c = true -> scalar c.
Proof.
  unfold is_id_char, is_id_start, is_alpha. intros H.
  destruct (is_dec c) eqn:E; [apply dec_scalar; assumption|]. unfold scalar. lia.
Qed.
Lemma id_char_not c x : is_id_char c = true -> (x = 10 \/ x = 13 \/ x = 40 \/ x = 41 \/ x = 44 \/ x = 46) -> c <> x.
Proof.
  intros H Hx Hc. subst c.
  destruct Hx as [-> | [-> | [-> | [-> | [-> | -> ]]]]]; vm_compute in H; discriminate.
Qed.
Lemma ws_not c x : is_ws c = true -> (x = 35 \/ x = 40 \/ x = 41 \/ x = 44 \/ x = 46 \/ x = 97) -> c <> x.
Proof.
  intros H Hx Hc. subst c.
  destruct Hx as [-> | [-> | [-> | [-> | [-> | -> ]]]]]; vm_compute in H; discriminate.
Qed.

(* ------------------------------------------------------------------ split_whitespace *)
Lemma split_ws_blanks b : Forall ws b -> split_ws b = [].
Proof.
  induction b as [|c b IH]; intros H; [reflexivity|].
  inversion H as [|? ? Hc Hb]; subst. cbn [split_ws]. unfold ws in Hc. rewrite Hc. apply IH, Hb.
Qed.

Definition ws_headed (rest : str) : Prop :=
  match rest with [] => True | d :: _ => is_ws d = true end.

Lemma split_ws_word tok : forall rest, tok <> [] -> Forall nonws tok -> ws_headed rest ->
  split_ws (tok ++ rest) = tok :: split_ws rest.
Proof.
  induction tok as [|c t IH]; intros rest Hne Hn Hr; [congruence|].
  inversion Hn as [|? ? Hc Ht]; subst. unfold nonws in Hc.
  cbn [app split_ws]. rewrite Hc.
  destruct t as [|d t'].
  - cbn [app]. destruct rest as [|e rest'].
    + reflexivity.
    + cbn [ws_headed] in Hr. rewrite Hr. reflexivity.
  - cbn [app]. inversion Ht as [|? ? Hd Ht']; subst. unfold nonws in Hd. rewrite Hd.
    change (d :: t' ++ rest) with ((d :: t') ++ rest).
    rewrite (IH rest); [reflexivity|discriminate|assumption|assumption].
Qed.

Lemma split_ws_skip pre : forall rest, Forall ws pre -> split_ws (pre ++ rest) = split_ws rest.
Proof.
  induction pre as [|c pre IH]; intros rest H; [reflexivity|].
  inversion H as [|? ? Hc Hp]; subst. cbn [app split_ws]. unfold ws in Hc. rewrite Hc.
  apply IH, Hp.
Qed.

Lemma ws_headed_app b rest : Forall ws b -> b <> [] -> ws_headed (b ++ rest).
Proof.
  destruct b as [|c b]; [congruence|]. intros H _. inversion H; subst. cbn [app ws_headed]. assumption.
Qed.
Lemma ws_headed_app_opt b rest : Forall ws b -> ws_headed rest -> ws_headed (b ++ rest).
Proof.
  destruct b as [|c b]; [intros _ H; exact H|]. intros H _. inversion H; subst.
  cbn [app ws_headed]. assumption.
Qed.

(* ------------------------------------------------------------------ decimal *)
Lemma digits_val_zeros z : forall r, digits_val (repeat 48 z ++ r) 0 = digits_val r 0.
Proof. induction z as [|z IH]; intros r; [reflexivity|]. cbn [repeat app digits_val]. apply IH. Qed.

Lemma dec_aux_val fuel : forall n acc, n < 2 ^ N.of_nat fuel ->
  digits_val (dec_aux fuel n acc) 0 = digits_val acc n.
Proof.
  induction fuel as [|f IH]; intros n acc Hn.
  - cbn [dec_aux]. cbn in Hn. replace n with 0 by lia. reflexivity.
  - cbn [dec_aux]. rewrite Nat2N.inj_succ, N.pow_succ_r' in Hn.
    destruct (n <? 10) eqn:E.
    + cbn [digits_val]. unfold is_digit.
      rwb ((48 <=? 48 + n mod 10) && (48 + n mod 10 <=? 57)) true.
      rwb (0 * 10 + (48 + n mod 10 - 48)) n. reflexivity.
    + rewrite IH by (set (P := 2 ^ N.of_nat f) in *; lia).
      cbn [digits_val]. unfold is_digit.
      rwb ((48 <=? 48 + n mod 10) && (48 + n mod 10 <=? 57)) true.
      rwb (n / 10 * 10 + (48 + n mod 10 - 48)) n. reflexivity.
Qed.

Lemma pos_size_bound p : N.pos p < 2 ^ N.of_nat (Pos.size_nat p).
Proof.
  induction p as [p IH|p IH|]; cbn [Pos.size_nat].
  - rewrite Nat2N.inj_succ, N.pow_succ_r'. set (P := 2 ^ N.of_nat (Pos.size_nat p)) in *. lia.
  - rewrite Nat2N.inj_succ, N.pow_succ_r'. set (P := 2 ^ N.of_nat (Pos.size_nat p)) in *. lia.
  - cbn. lia.
Qed.
Lemma size_bound n : n < 2 ^ N.of_nat (S (N.size_nat n)).
Proof.
  rewrite Nat2N.inj_succ, N.pow_succ_r'. destruct n as [|p]; cbn [N.size_nat].
  - cbn. lia.
  - pose proof (pos_size_bound p). set (P := 2 ^ N.of_nat (Pos.size_nat p)) in *. lia.
Qed.

Lemma dec_val n : digits_val (dec n) 0 = Some n.
Proof. unfold dec. rewrite dec_aux_val by apply size_bound. reflexivity. Qed.

Definition digit (c : N) : Prop := is_digit c = true.
Lemma dec_aux_digits fuel : forall n acc, Forall digit acc -> Forall digit (dec_aux fuel n acc).
Proof.
  induction fuel as [|f IH]; intros n acc Ha; cbn [dec_aux]; [assumption|].
  assert (Hd : digit (48 + n mod 10)) by (unfold digit, is_digit; lia).
  destruct (n <? 10); [constructor; assumption|]. apply IH. constructor; assumption.
Qed.
Lemma dec_aux_nonnil fuel : forall n acc, (acc <> [] \/ fuel <> O) -> dec_aux fuel n acc <> [].
Proof.
  induction fuel as [|f IH]; intros n acc H; cbn [dec_aux].
  - destruct H; [assumption|congruence].
  - destruct (n <? 10); [discriminate|]. apply IH. left; discriminate.
Qed.
Lemma dec_digits n : Forall digit (dec n).
Proof. apply dec_aux_digits. constructor. Qed.
Lemma dec_nonnil n : dec n <> [].
Proof. apply dec_aux_nonnil. right; discriminate. Qed.

Lemma digits_val_app a : forall b v, Forall digit a ->
  digits_val (a ++ b) v = match digits_val a v with Some w => digits_val b w | None => None end.
Proof.
  induction a as [|c a IH]; intros b v Ha; [reflexivity|].
  inversion Ha as [|? ? Hc Ha']; subst. cbn [app digits_val]. unfold digit in Hc. rewrite Hc.
  apply IH, Ha'.
Qed.

(* render_num *)
Lemma render_num_chars f n : Forall (fun c => c = 43 \/ digit c) (render_num f n) /\ render_num f n <> [].
Proof.
  unfold render_num. split.
  - apply Forall_app. split; [destruct (nf_plus f); repeat constructor; left; reflexivity|].
    apply Forall_app. split.
    + apply Forall_forall. intros c Hc. apply repeat_spec in Hc. subst c. right. reflexivity.
    + eapply Forall_impl; [|apply dec_digits]. intros c Hc; right; exact Hc.
  - intros H. apply app_eq_nil in H. destruct H as [_ H]. apply app_eq_nil in H. destruct H as [_ H].
    revert H. apply dec_nonnil.
Qed.
Lemma render_num_nonws f n : Forall nonws (render_num f n).
Proof.
  eapply Forall_impl; [|apply (proj1 (render_num_chars f n))].
  intros c [->|Hc]; [reflexivity|apply digit_nonws, Hc].
Qed.

Lemma digits_zeros_dec z n : digits_val (repeat 48 z ++ dec_nat n) 0 = Some (N.of_nat n).
Proof. rewrite digits_val_zeros. apply dec_val. Qed.

Lemma parse_isize_render f n : N.of_nat n <= isize_max ->
  parse_isize (render_num f n) = Some (Z.of_nat n).
Proof.
  intros Hn. unfold render_num. destruct (nf_plus f).
  - cbn [app parse_isize]. rewrite N.eqb_refl. unfold parse_digits.
    destruct (repeat 48 (nf_zeros f) ++ dec_nat n) eqn:E.
    + apply app_eq_nil in E. destruct E as [_ E]. exfalso. revert E. apply dec_nonnil.
    + rewrite <- E, digits_zeros_dec.
      rwb (N.of_nat n <=? isize_max) true. f_equal. lia.
  - cbn [app]. pose proof (digits_zeros_dec (nf_zeros f) n) as Hv.
    destruct (repeat 48 (nf_zeros f) ++ dec_nat n) as [|c r] eqn:E.
    + apply app_eq_nil in E. destruct E as [_ E]. exfalso. revert E. apply dec_nonnil.
    + assert (Hc : digit c).
      { assert (Hall : Forall digit (c :: r)).
        { rewrite <- E. apply Forall_app. split; [|apply dec_digits].
          apply Forall_forall. intros x Hx. apply repeat_spec in Hx. subst x. reflexivity. }
        inversion Hall; assumption. }
      unfold digit, is_digit in Hc. cbn [parse_isize].
      rwb (c =? 43) false. rwb (c =? 45) false. rewrite Hv.
      rwb (N.of_nat n <=? isize_max) true. f_equal. lia.
Qed.
