(* "The solver stays usable": in every reachable state of the complete, stable and preferred dynamic
   solvers a supported query on an argument of the current framework never panics (no unwrap on None,
   no index out of bounds), whatever the SAT solver answers.  It may only return, abort on an Unknown
   answer, or run out of the model's fuel.  Uses the invariants of Proofs/DynProofs.v. *)
From Crusta Require Import Model.Dynamic Proofs.StoreBase Proofs.StoreProofs Proofs.DynDefs Proofs.DynBase
  Proofs.DynProofs.
From Coq Require Import Lia ZifyBool.

(* ---------------------------------------------------------------- "never panics" *)
Definition np {A} (m : Prog.M A) : Prop := forall s, match m s with Panic _ => False | _ => True end.

Lemma np_ret {A} (a : A) : np (ret a).
Proof. intros s. exact I. Qed.
Lemma np_oof {A} : np (@out_of_fuel A).
Proof. intros s. exact I. Qed.
Lemma np_bind {A B} (m : Prog.M A) (k : A -> Prog.M B) (P : A -> Prop) :
  np m -> okm m P -> (forall a, P a -> np (k a)) -> np (bind m k).
Proof.
  intros Hm Hp Hk s. unfold bind. specialize (Hm s). destruct (m s) as [a s1|s1|s1|s1] eqn:E; try exact I.
  - exact (Hk a (Hp _ _ _ E) s1).
  - exact Hm.
Qed.
Lemma np_bind_any {A B} (m : Prog.M A) (k : A -> Prog.M B) : np m -> (forall a, np (k a)) -> np (bind m k).
Proof. intros Hm Hk. apply (np_bind m k (fun _ => True)); [exact Hm|apply okm_any|intros a _; apply Hk]. Qed.

Lemma np_n_vars : np n_vars. Proof. intros s. exact I. Qed.
Lemma np_add_clause c : np (add_clause c). Proof. intros s. exact I. Qed.
Lemma np_new_solver : np new_solver. Proof. intros s. exact I. Qed.
Lemma np_solve oracle a : np (Prog.solve oracle a).
Proof. intros s. unfold Prog.solve. destruct (oracle _ _ _); exact I. Qed.
Lemma np_add_clauses cs : np (add_clauses cs).
Proof. induction cs as [|c r IH]; cbn [add_clauses]; [apply np_ret|]. apply np_bind_any; [apply np_add_clause|intros _; exact IH]. Qed.
Lemma np_opt_m {A} (o : option A) : o <> None -> np (opt_m o).
Proof. intros H. destruct o; [apply np_ret|congruence]. Qed.
Lemma np_unwrap_ok {A} (r : A * result) : snd r = ROk -> np (unwrap_ok r).
Proof. destruct r as [a [| |]]; cbn [snd unwrap_ok]; intros H; try discriminate H. apply np_ret. Qed.
Lemma np_new_solver_var vars t : np (new_solver_var vars t).
Proof. unfold new_solver_var. apply np_bind_any; [apply np_n_vars|intros nv; apply np_ret]. Qed.
Lemma np_alloc_arg_vars sm vars id : np (alloc_arg_vars sm vars id).
Proof.
  unfold alloc_arg_vars. apply np_bind_any; [apply np_new_solver_var|]. intros r1.
  destruct sm; try apply np_ret;
    (apply np_bind_any; [apply np_new_solver_var|]; intros r2; apply np_bind_any; [apply np_add_clause|intros _; apply np_ret]).
Qed.

Section Safe.
Variable L : Type.
Variable leqb : L -> L -> bool.
Hypothesis leqb_spec : forall x y, leqb x y = true <-> x = y.

Notation fw := (fw L).
Notation Inv := (Inv L).
Notation get_argument := (get_argument L leqb).
Notation tabs := (DynProofs.tabs L).

(* ---------------------------------------------------------------- store facts *)
Lemma position_snoc_new {A} (p : A -> bool) (l : list A) x :
  position p l = None -> p x = true -> position p (l ++ [x]) = Some (length l).
Proof.
  induction l as [|y r IH]; cbn [position app length]; intros Hn Hx; [rewrite Hx; reflexivity|].
  destruct (p y); [discriminate|]. destruct (position p r) eqn:E; [discriminate|].
  rewrite (IH eq_refl Hx). reflexivity.
Qed.

Lemma get_after_new_argument (af : fw) l : get_argument (Store.new_argument L leqb af l) l <> None.
Proof.
  destruct (get_argument af l) as [id|] eqn:E.
  - rewrite (new_argument_existing L leqb af l id E), E. discriminate.
  - destruct (new_argument_fresh_slots L leqb af l E) as [Hs _].
    unfold Store.get_argument, find_label in *. rewrite Hs.
    rewrite (position_snoc_new _ _ _ E); [discriminate|]. cbn [slot_has]. apply leqb_spec. reflexivity.
Qed.

Lemma new_attack_ok_labels (af : fw) a b :
  snd (Store.new_attack L leqb af a b) = ROk -> get_argument af b <> None.
Proof.
  unfold Store.new_attack, Store.get_argument. destruct (find_label L leqb (ls af) a); [|discriminate].
  destruct (find_label L leqb (ls af) b); [discriminate|discriminate].
Qed.
Lemma remove_attack_ok_labels (af : fw) a b :
  snd (Store.remove_attack L leqb af a b) = ROk -> get_argument af b <> None.
Proof.
  unfold Store.remove_attack, Store.get_argument. destruct (find_label L leqb (ls af) a); [|discriminate].
  destruct (find_label L leqb (ls af) b); [discriminate|discriminate].
Qed.
Lemma remove_argument_ok_label (af : fw) l :
  snd (Store.remove_argument L leqb af l) = ROk -> get_argument af l <> None.
Proof.
  intros H E. rewrite (remove_argument_missing L leqb af l E) in H. discriminate H.
Qed.

Lemma attackers_live (af : fw) id b :
  Inv af -> In b (map fst (iter_attacks_to L af id)) -> has_argument_with_id L af b = true.
Proof.
  intros Hinv Hin. apply in_map_iff in Hin. destruct Hin as ([x y] & <- & Hin). cbn [fst].
  unfold iter_attacks_to in Hin. apply In_fs_map_nth in Hin. destruct Hin as (k & _ & Hk).
  destruct (inv_live L af Hinv k x y Hk) as (Hx & _). apply (has_arg_nth L). exact Hx.
Qed.
Lemma targets_live (af : fw) id b :
  Inv af -> In b (map snd (iter_attacks_from L af id)) -> has_argument_with_id L af b = true.
Proof.
  intros Hinv Hin. apply in_map_iff in Hin. destruct Hin as ([x y] & <- & Hin). cbn [snd].
  unfold iter_attacks_from in Hin. apply In_fs_map_nth in Hin. destruct Hin as (k & _ & Hk).
  destruct (inv_live L af Hinv k x y Hk) as (_ & Hy & _). apply (has_arg_nth L). exact Hy.
Qed.

Lemma label_of_live (af : fw) id : has_argument_with_id L af id = true -> label_of L af id <> None.
Proof.
  intros H. apply (has_arg_nth L) in H. unfold label_of. destruct (nth id (slots (ls af)) None) as [[i l]|]; congruence.
Qed.
Lemma labels_of_live (af : fw) ids :
  (forall id, In id ids -> has_argument_with_id L af id = true) -> labels_of L af ids <> None.
Proof.
  induction ids as [|i r IH]; intros H; cbn [labels_of]; [discriminate|].
  pose proof (label_of_live af i (H i (or_introl eq_refl))) as Hi.
  destruct (label_of L af i); [|congruence].
  destruct (labels_of L af r) eqn:E; [discriminate|]. exfalso. apply IH; [|reflexivity]. intros id Hid. apply H. right; exact Hid.
Qed.

Lemma get_argument_live (af : fw) l id : Inv af -> get_argument af l = Some id -> has_argument_with_id L af id = true.
Proof.
  intros Hinv H. apply (has_arg_nth L). rewrite (find_label_Some L leqb leqb_spec af l id Hinv H). discriminate.
Qed.

Lemma tbl_vars_some t ids : (forall id, In id ids -> tbl_var t id <> None) -> tbl_vars t ids <> None.
Proof.
  induction ids as [|i r IH]; intros H; cbn [tbl_vars]; [discriminate|].
  pose proof (H i (or_introl eq_refl)) as Hi. destruct (tbl_var t i); [|congruence].
  destruct (tbl_vars t r) eqn:E; [discriminate|]. exfalso. apply IH; [|reflexivity]. intros id Hid. apply H. right; exact Hid.
Qed.

(* ---------------------------------------------------------------- the encoder operations *)
Notation core := DynProofs.core.
Notation live_tbl := (DynProofs.live_tbl L).

Ltac np_match := match goal with |- np (match ?x with _ => _ end) => destruct x eqn:? end.

Lemma position_In {A} (p : A -> bool) (l : list A) x : In x l -> p x = true -> position p l <> None.
Proof. intros Hin Hp E. pose proof (position_None p l E x Hin). congruence. Qed.

Lemma np_remove_selector e id s : core e -> tbl_var (e_a2s e) id = Some s -> np (remove_selector e s).
Proof.
  intros (C1 & C2 & C3 & C4 & C5) Hs. unfold remove_selector.
  pose proof (nth_error_lt _ _ _ (C3 _ _ Hs)) as Hlt. apply Nat.ltb_lt in Hlt. rewrite Hlt.
  apply np_bind_any; [apply np_add_clause|]. intros _.
  assert (Hp : position (Z.eqb (zlit s)) (e_assum e) <> None).
  { apply (position_In _ _ (zlit s)); [apply C4; exists id, s; auto|apply Z.eqb_refl]. }
  destruct (position _ _); [apply np_ret|congruence].
Qed.

(* the first stage of update_attacks_to_constraints: the old selector, if any, is retired *)
Definition retire (e : denc) (to_id : nat) (os : option nat) : Prog.M denc :=
  match os with
  | Some s =>
      e' <- remove_selector e s ;;
      ret (enc_with e' (e_a2v e') (set_nth to_id None (e_a2s e')) (e_vars e') (e_assum e'))
  | None => ret e
  end.

Lemma retire_post af e id os :
  tabs af e -> nth_error (e_a2s e) id = Some os ->
  okm (retire e id os) (fun e1 => tabs af e1 /\ tbl_var (e_a2s e1) id = None /\ e_a2v e1 = e_a2v e /\
                                 e_sem e1 = e_sem e).
Proof.
  intros [Hc Hl] En. pose proof (nth_error_lt _ _ _ En) as Hid. unfold retire. destruct os as [s|].
  - eapply okm_bind; [apply remove_selector_spec|]. intros e' (p & Hp & ->). apply okm_ret.
    pose proof (tbl_var_of_nth_error _ _ _ En) as Hs.
    unfold enc_with at 1. cbn [e_sem e_a2v e_a2s e_vars e_assum e_upd enc_with].
    split; [split|].
    + exact (core_retire e id s p Hc Hs Hp).
    + apply (live_set_sel L af e id None). exact Hl. congruence.
    + cbn [e_a2s e_a2v e_sem]. rewrite tbl_var_set_eq by exact Hid. auto.
  - apply okm_ret. pose proof (tbl_var_of_nth_error _ _ _ En) as Hs. unfold DynProofs.tabs. auto.
Qed.

Lemma np_update_attacks_to af e id :
  tabs af e -> Inv af -> (e_upd e = true -> has_argument_with_id L af id = true) ->
  np (update_attacks_to L af e id).
Proof.
  intros Ht Hinv Hlive. unfold update_attacks_to. destruct (e_upd e) eqn:Eu; cbn [negb]; [|apply np_ret].
  specialize (Hlive eq_refl). pose proof Ht as [Hc Hl]. pose proof Hl as (L1 & L2 & L3 & L4).
  assert (Hv : tbl_var (e_a2v e) id <> None) by (apply L3; exact Hlive).
  assert (Hid : id < length (e_a2s e)).
  { destruct (tbl_var (e_a2v e) id) eqn:E; [|congruence]. apply tbl_var_lt in E. lia. }
  destruct (nth_error (e_a2s e) id) as [os|] eqn:En; [|apply nth_error_None in En; lia].
  change (np (e1 <- retire e id os ;;
              r <- new_solver_var (e_vars e1) (VSel id) ;;
              (let '(vars, sv) := r in
               let sl := zlit sv in
               let e2 := enc_with e1 (e_a2v e1) (set_nth id (Some sv) (e_a2s e1)) vars (e_assum e1 ++ [sl]) in
               if negb (has_argument_with_id L af id) then panic
               else
                 let attackers := map fst (iter_attacks_to L af id) in
                 match tbl_var (e_a2v e2) id, tbl_vars (e_a2v e2) attackers with
                 | Some tv, Some avs =>
                     add_clauses (match e_sem e2 with
                                  | DST => st_clauses sl tv avs
                                  | _ => co_clauses sl tv avs
                                  end) ;;; ret e2
                 | _, _ => panic
                 end))).
  eapply np_bind; [|apply (retire_post af e id os Ht En)|].
  { unfold retire. destruct os as [s|]; [|apply np_ret].
    apply np_bind_any; [apply (np_remove_selector e id s Hc); apply tbl_var_of_nth_error; exact En|intros e'; apply np_ret]. }
  intros e1 (Ht1 & Hn1 & Ha1 & Hs1).
  apply np_bind_any; [apply np_new_solver_var|]. intros [vars sv]. cbv zeta.
  rewrite Hlive. cbn [negb enc_with e_a2v e_sem].
  destruct (tbl_var (e_a2v e1) id) eqn:Etv; [|rewrite Ha1 in Etv; congruence].
  assert (Hatt : tbl_vars (e_a2v e1) (map fst (iter_attacks_to L af id)) <> None).
  { apply tbl_vars_some. intros b Hb. rewrite Ha1. apply L3. eapply attackers_live; eassumption. }
  destruct (tbl_vars (e_a2v e1) _); [|congruence].
  apply np_bind_any; [apply np_add_clauses|intros _; apply np_ret].
Qed.

Lemma np_fold_update_attacks_to af ids : forall e,
  tabs af e -> Inv af -> (e_upd e = true -> forall id, In id ids -> has_argument_with_id L af id = true) ->
  np (fold_m (update_attacks_to L af) ids e).
Proof.
  induction ids as [|id r IH]; intros e Ht Hinv Hlive; cbn [fold_m]; [apply np_ret|].
  eapply np_bind.
  - apply np_update_attacks_to; auto. intros Hu. apply Hlive; [exact Hu|left; reflexivity].
  - apply (update_attacks_to_ok L af e id Ht).
  - intros e1 (Ht1 & Hu1 & _). apply IH; auto. intros Hu id' Hid'. apply Hlive; [congruence|right; exact Hid'].
Qed.

Lemma np_enc_new_argument af e l : tabs af e -> Inv af -> np (enc_new_argument L leqb af e l).
Proof.
  intros Ht Hinv. unfold enc_new_argument. destruct (get_argument af l) eqn:Eg; [apply np_ret|].
  destruct (new_argument_fresh_slots L leqb af l Eg) as [Hsl Hmax]. rewrite Hmax.
  pose proof Ht as [Hc Hl]. pose proof Hl as (L1 & L2 & _).
  eapply np_bind; [apply np_alloc_arg_vars|apply alloc_arg_vars_ok|].
  intros [vars' v] (A1 & A2 & A3 & A4). cbn [fst snd] in *.
  assert (Hinv' : Inv (Store.new_argument L leqb af l)) by (apply (new_argument_ok L leqb leqb_spec af l Hinv)).
  eapply np_bind_any; [|intros e4; apply np_ret].
  apply np_update_attacks_to; [split| |].
  - apply core_push_arg; auto; try congruence; rewrite L1; auto.
  - eapply live_push; eassumption.
  - exact Hinv'.
  - intros _. apply (has_arg_nth L). rewrite Hsl, app_nth2, Nat.sub_diag by lia. cbn [nth]. discriminate.
Qed.

Lemma np_enc_new_attack af e a b :
  tabs af e -> Inv af -> e_upd e = false -> np (enc_new_attack L leqb af e a b).
Proof.
  intros Ht Hinv Hu. unfold enc_new_attack. pose proof (new_attack_ls L leqb af a b) as Hls.
  destruct (Store.new_attack L leqb af a b) as [af' [| |]] eqn:Er; cbn [fst] in Hls; [|apply np_ret|].
  - assert (Hg : get_argument af' b <> None).
    { unfold Store.get_argument. rewrite Hls. apply (new_attack_ok_labels af a b). rewrite Er. reflexivity. }
    destruct (get_argument af' b); [|congruence].
    apply np_bind_any; [|intros e'; apply np_ret].
    unfold update_attacks_to. rewrite Hu. cbn [negb]. apply np_ret.
  - exfalso. pose proof (step_ok L leqb leqb_spec af (OpNewAtt a b) Hinv) as (_ & _ & _ & Hnp).
    cbn [Store.step] in Hnp. rewrite Er in Hnp. cbn [snd] in Hnp. congruence.
Qed.
Lemma np_enc_remove_attack af e a b :
  tabs af e -> Inv af -> e_upd e = false -> np (enc_remove_attack L leqb af e a b).
Proof.
  intros Ht Hinv Hu. unfold enc_remove_attack. pose proof (remove_attack_ls L leqb af a b) as Hls.
  destruct (Store.remove_attack L leqb af a b) as [af' [| |]] eqn:Er; cbn [fst] in Hls; [|apply np_ret|].
  - assert (Hg : get_argument af' b <> None).
    { unfold Store.get_argument. rewrite Hls. apply (remove_attack_ok_labels af a b). rewrite Er. reflexivity. }
    destruct (get_argument af' b); [|congruence].
    apply np_bind_any; [|intros e'; apply np_ret].
    unfold update_attacks_to. rewrite Hu. cbn [negb]. apply np_ret.
  - exfalso. pose proof (step_ok L leqb leqb_spec af (OpRemAtt a b) Hinv) as (_ & _ & _ & Hnp).
    cbn [Store.step] in Hnp. rewrite Er in Hnp. cbn [snd] in Hnp. congruence.
Qed.

Lemma np_fold_upd_off af ids : forall e, e_upd e = false -> np (fold_m (update_attacks_to L af) ids e).
Proof.
  induction ids as [|id r IH]; intros e Hu; cbn [fold_m]; [apply np_ret|].
  unfold update_attacks_to at 1. rewrite Hu. cbn [negb]. intros s. unfold bind, ret. apply IH. exact Hu.
Qed.

Lemma enc_remove_argument_result af e l :
  get_argument af l <> None -> okm (enc_remove_argument L leqb af e l) (fun r => snd r = ROk).
Proof.
  intros Hg. unfold enc_remove_argument. destruct (get_argument af l) as [id|] eqn:Eg; [|congruence].
  pose proof (remove_argument_found L leqb af l id Eg) as Hok.
  destruct (Store.remove_argument L leqb af l) as [af' [| |]]; cbn [snd] in Hok; try discriminate Hok.
  destruct (tbl_var _ _); [|apply okm_panic].
  apply okm_bind_any. intros e2. destruct (Nat.ltb _ _); [|apply okm_panic].
  apply okm_bind_any. intros _. apply okm_bind_any. intros e4. apply okm_ret. reflexivity.
Qed.

Lemma np_enc_remove_argument af e l :
  tabs af e -> Inv af -> e_upd e = false -> get_argument af l <> None -> np (enc_remove_argument L leqb af e l).
Proof.
  intros Ht Hinv Hu Hg. unfold enc_remove_argument. destruct (get_argument af l) as [arg_id|] eqn:Eg; [|congruence].
  pose proof (remove_argument_found L leqb af l arg_id Eg) as Hok.
  destruct (Store.remove_argument L leqb af l) as [af' [| |]]; cbn [snd] in Hok; try discriminate Hok.
  pose proof Ht as [Hc Hl]. pose proof Hl as (L1 & L2 & L3 & L4). pose proof Hc as (C1 & C2 & C3 & C4 & C5).
  assert (Hlive : has_argument_with_id L af arg_id = true) by (eapply get_argument_live; eassumption).
  destruct (tbl_var (e_a2v e) arg_id) as [v|] eqn:Ev; [|exfalso; apply (proj1 (L3 arg_id) Hlive); exact Ev].
  pose proof (tbl_var_lt _ _ _ Ev) as Hid.
  set (e1 := enc_with e (set_nth arg_id None (e_a2v e)) (e_a2s e) (e_vars e) (e_assum e)).
  assert (Hc1 : core e1) by (apply core_drop; exact Hc).
  eapply (np_bind _ _ (fun e2 => length (e_vars e2) = length (e_vars e) /\ e_upd e2 = false)).
  - cbn [e1 enc_with e_a2s].
    destruct (nth_error (e_a2s e) arg_id) as [[s|]|] eqn:En; [| apply np_ret | apply nth_error_None in En; lia].
    apply np_bind_any; [|intros e'; apply np_ret].
    apply (np_remove_selector e1 arg_id s Hc1). cbn [e1 enc_with e_a2s]. apply tbl_var_of_nth_error. exact En.
  - cbn [e1 enc_with e_a2s].
    destruct (nth_error (e_a2s e) arg_id) as [[s|]|]; [| |apply okm_panic].
    + eapply okm_bind; [apply remove_selector_spec|]. intros e' (p & _ & ->). apply okm_ret.
      cbn [enc_with e_vars e_upd e1]. rewrite length_set_nth. auto.
    + apply okm_ret. cbn [enc_with e_vars e_upd e1]. auto.
  - intros e2 [Hlen Hu2]. pose proof (nth_error_lt _ _ _ (C1 _ _ Ev)) as Hv. rewrite <- Hlen in Hv.
    apply Nat.ltb_lt in Hv. rewrite Hv.
    apply np_bind_any; [apply np_add_clause|]. intros _.
    apply np_bind_any; [|intros e4; apply np_ret].
    apply np_fold_upd_off. cbn [enc_with e_upd]. exact Hu2.
Qed.

(* ---------------------------------------------------------------- replaying the buffer *)
Notation ev_apply := (DynDefs.ev_apply L leqb).
Definition ev_ok (af : fw) (ev : devent L) : Prop :=
  match ev with
  | DRemArg _ l => snd (Store.remove_argument L leqb af l) = ROk
  | DNewAtt _ a b => snd (Store.new_attack L leqb af a b) = ROk
  | DRemAtt _ a b => snd (Store.remove_attack L leqb af a b) = ROk
  | _ => True
  end.
Fixpoint replayable (af : fw) (evs : list (devent L)) : Prop :=
  match evs with
  | [] => True
  | ev :: r => ev_ok af ev /\ replayable (ev_apply af ev) r
  end.

Lemma inv_ev_apply af ev : Inv af -> Inv (ev_apply af ev).
Proof.
  intros Hinv. destruct ev as [l|l|a b|a b|x y z|x y z]; cbn [DynDefs.ev_apply]; try exact Hinv.
  - apply (new_argument_ok L leqb leqb_spec af l Hinv).
  - apply (step_ok L leqb leqb_spec af (OpRemArg l) Hinv).
  - apply (step_ok L leqb leqb_spec af (OpNewAtt a b) Hinv).
  - apply (step_ok L leqb leqb_spec af (OpRemAtt a b) Hinv).
Qed.
Lemma inv_fold evs : forall af, Inv af -> Inv (fold_left ev_apply evs af).
Proof. induction evs as [|ev r IH]; intros af H; cbn [fold_left]; [exact H|]. apply IH, inv_ev_apply, H. Qed.

Lemma replayable_snoc evs ev : forall af,
  replayable af evs -> ev_ok (fold_left ev_apply evs af) ev -> replayable af (evs ++ [ev]).
Proof.
  induction evs as [|x r IH]; intros af H Hok; cbn [app replayable fold_left] in *; [auto|].
  destruct H as [H1 H2]. split; [exact H1|]. apply IH; assumption.
Qed.

Definition rep_ok (e : denc) (st : fw * denc * list nat) : Prop :=
  tabs (fst (fst st)) (snd (fst st)) /\ e_upd (snd (fst st)) = e_upd e.

Lemma np_std_replay af e upd ev :
  tabs af e -> Inv af -> e_upd e = false -> ev_ok af ev -> np (std_replay L leqb (af, e, upd) ev).
Proof.
  intros Ht Hinv Hu Hok. unfold std_replay. destruct ev as [l|l|a b|a b|x y z|x y z]; cbn [ev_ok] in Hok.
  - eapply np_bind; [apply np_enc_new_argument; assumption|apply enc_new_argument_af|].
    intros r Hr. apply np_bind_any; [|intros id; apply np_ret].
    apply np_opt_m. rewrite Hr. apply get_after_new_argument.
  - pose proof (remove_argument_ok_label af l Hok) as Hg.
    apply np_bind_any; [apply np_opt_m; exact Hg|]. intros arg_id.
    eapply np_bind; [apply np_enc_remove_argument; assumption|apply (enc_remove_argument_result af e l Hg)|].
    intros r Hr. apply np_bind_any; [apply np_unwrap_ok; exact Hr|intros p; apply np_ret].
  - eapply (np_bind _ _ (fun r => snd r = ROk /\ get_argument (fst (fst r)) b <> None)).
    + apply np_enc_new_attack; assumption.
    + unfold enc_new_attack. pose proof (new_attack_ls L leqb af a b) as Hls.
      pose proof (new_attack_ok_labels af a b Hok) as Hg.
      destruct (Store.new_attack L leqb af a b) as [af' [| |]]; cbn [snd fst] in *; try discriminate Hok.
      destruct (get_argument af' b) eqn:Eg'; [|apply okm_panic].
      apply okm_bind_any. intros e'. apply okm_ret. cbn [fst snd]. split; [reflexivity|congruence].
    + intros r [Hr Hg]. eapply (np_bind _ _ (fun p => p = fst r)).
      * apply np_unwrap_ok. exact Hr.
      * apply okm_unwrap_ok. intros p0 Hp. rewrite Hp. reflexivity.
      * intros p ->. apply np_bind_any; [apply np_opt_m; exact Hg|intros id; apply np_ret].
  - eapply (np_bind _ _ (fun r => snd r = ROk /\ get_argument (fst (fst r)) b <> None)).
    + apply np_enc_remove_attack; assumption.
    + unfold enc_remove_attack. pose proof (remove_attack_ls L leqb af a b) as Hls.
      pose proof (remove_attack_ok_labels af a b Hok) as Hg.
      destruct (Store.remove_attack L leqb af a b) as [af' [| |]]; cbn [snd fst] in *; try discriminate Hok.
      destruct (get_argument af' b) eqn:Eg'; [|apply okm_panic].
      apply okm_bind_any. intros e'. apply okm_ret. cbn [fst snd]. split; [reflexivity|congruence].
    + intros r [Hr Hg]. eapply (np_bind _ _ (fun p => p = fst r)).
      * apply np_unwrap_ok. exact Hr.
      * apply okm_unwrap_ok. intros p0 Hp. rewrite Hp. reflexivity.
      * intros p ->. apply np_bind_any; [apply np_opt_m; exact Hg|intros id; apply np_ret].
  - apply np_ret.
  - apply np_ret.
Qed.

Lemma np_fold_std_replay evs : forall af e upd,
  tabs af e -> Inv af -> e_upd e = false -> replayable af evs ->
  np (fold_m (std_replay L leqb) evs (af, e, upd)).
Proof.
  induction evs as [|ev r IH]; intros af e upd Ht Hinv Hu Hrep; cbn [fold_m]; [apply np_ret|].
  destruct Hrep as [Hok Hrest].
  eapply (np_bind _ _ (fun st => fst (fst st) = ev_apply af ev /\ tabs (fst (fst st)) (snd (fst st)) /\
                                  e_upd (snd (fst st)) = false)).
  - apply np_std_replay; assumption.
  - intros ps st ps' E. split; [exact (std_replay_af L leqb af e upd ev _ _ _ E)|].
    destruct (std_replay_ok L leqb af e upd ev Ht _ _ _ E) as (H1 & H2 & _). split; [exact H1|congruence].
  - intros [[af1 e1] upd1] (Haf & Ht1 & Hu1). cbn [fst snd] in *. subst af1.
    apply IH; auto. apply inv_ev_apply. exact Hinv.
Qed.

(* ---------------------------------------------------------------- update_encoding *)
Notation pending := (DynDefs.pending L).

Lemma tabs_enable af e b : tabs af (enc_enable e b) <-> tabs af e.
Proof. unfold DynProofs.tabs, DynProofs.core, DynProofs.live_tbl, enc_enable. cbn [e_sem e_a2v e_a2s e_vars e_assum]. tauto. Qed.

(* what is known about a buffered standard solver between two calls *)
Record safe_pre (af : fw) (b : dbuf L) (e : denc) : Prop := {
  sp_enc : b_enc L b = XStd e;
  sp_tabs : tabs af e;
  sp_upd : e_upd e = false;
  sp_inv : Inv af;
  sp_rep : replayable af (pending b) }.

Lemma np_update_encoding af b e : safe_pre af b e -> np (update_encoding L leqb af b).
Proof.
  intros [He Ht Hu Hinv Hrep]. unfold update_encoding. rewrite He.
  eapply (np_bind _ _ (fun st => fst (fst st) = fold_left ev_apply (pending b) af /\
                                  tabs (fst (fst st)) (snd (fst st)))).
  - apply np_fold_std_replay; assumption.
  - intros ps st ps' E. split; [exact (fold_std_replay_af L leqb _ _ _ _ _ E)|].
    exact (proj1 (fold_std_replay_ok L leqb _ af e [] Ht _ _ _ E)).
  - intros [[af' e'] upd] [Haf Ht']. cbn [fst snd] in *.
    apply np_bind_any; [|intros e''; apply np_ret].
    apply np_fold_update_attacks_to.
    + apply tabs_enable. exact Ht'.
    + rewrite Haf. apply inv_fold. exact Hinv.
    + intros _ id Hid. apply filter_In in Hid. exact (proj2 Hid).
Qed.

(* after update_encoding *)
Record synced_post (l : L) (r : fw * dbuf L) : Prop := {
  so_enc : exists e, b_enc L (snd r) = XStd e /\ tables_ok L (fst r) e /\ DynProofs.conv e;
  so_inv : Inv (fst r) }.

(* ---------------------------------------------------------------- the queries *)
Lemma a2e_live (af : fw) e p m :
  tables_ok L af e -> DynProofs.conv e ->
  forall id, In id (args_where p (e_vars e) m) -> has_argument_with_id L af id = true.
Proof.
  intros Ht Hc id Hin. unfold args_where in Hin. destruct (filter_map_In _ _ _ Hin) as (v & _ & Hv).
  unfold var_to_arg in Hv. destruct (nth_error (e_vars e) v) as [[iv| | | |]|] eqn:Ev; try discriminate.
  injection Hv as ->. apply (t_live L af e Ht). rewrite (Hc _ _ Ev). discriminate.
Qed.

Lemma np_x_arg_var af e l id :
  tables_ok L af e -> Inv af -> get_argument af l = Some id -> np (x_arg_var L leqb af (XStd e) l).
Proof.
  intros Ht Hinv Hg. unfold x_arg_var. rewrite Hg. cbn [opt_m]. intros s. unfold bind, ret. cbn [x_a2v].
  assert (H : tbl_var (e_a2v e) id <> None) by (apply (t_live L af e Ht); eapply get_argument_live; eassumption).
  destruct (tbl_var (e_a2v e) id); [exact I|congruence].
Qed.

Section Queries.
Variable oracle : nat -> cnf -> list lit -> answer.
Variable s : dsolver L.
Variable l : L.
Variable P : fw * dbuf L -> Prop.
Hypothesis HP : okm (update_encoding L leqb (s_af L s) (s_buf L s)) P.
Hypothesis HPpost : forall r, P r ->
  Inv (fst r) /\ get_argument (fst r) l <> None /\
  exists e, b_enc L (snd r) = XStd e /\ tables_ok L (fst r) e /\ DynProofs.conv e.
Hypothesis Hnp : np (update_encoding L leqb (s_af L s) (s_buf L s)).

Lemma np_dc_query : np (dc_query oracle L leqb s l).
Proof.
  unfold dc_query. destruct (is_cred L leqb (s_buf L s) l) as [[b|] [e|]]; try apply np_ret.
  all: eapply np_bind; [exact Hnp|exact HP|]; intros [af buf] Hr;
    destruct (HPpost _ Hr) as (Hinv & Hg & e0 & He & Ht & Hc); cbn [fst snd] in *; rewrite He;
    (apply np_bind_any; [cbn [x_assumptions]; apply np_ret|]); intros asm;
    destruct (get_argument af l) as [id|] eqn:Eg; try congruence;
    (apply np_bind_any; [apply (np_x_arg_var af e0 l id Ht Hinv Eg)|]); intros v;
    (apply np_bind_any; [apply np_solve|]); intros [m|]; [|apply np_ret];
    (apply np_bind_any; [|intros acc; apply np_ret]);
    apply np_opt_m, labels_of_live; cbn [x_vars]; apply (a2e_live af e0 _ m Ht Hc).
Qed.

Lemma np_st_ds_query : np (st_ds_query oracle L leqb s l).
Proof.
  unfold st_ds_query. destruct (is_skep L leqb (s_buf L s) l) as [[b|] [e|]]; try apply np_ret.
  all: eapply np_bind; [exact Hnp|exact HP|]; intros [af buf] Hr;
    destruct (HPpost _ Hr) as (Hinv & Hg & e0 & He & Ht & Hc); cbn [fst snd] in *; rewrite He;
    (apply np_bind_any; [cbn [x_assumptions]; apply np_ret|]); intros asm;
    destruct (get_argument af l) as [id|] eqn:Eg; try congruence;
    (apply np_bind_any; [apply (np_x_arg_var af e0 l id Ht Hinv Eg)|]); intros v;
    (apply np_bind_any; [apply np_solve|]); intros [m|].
  all: try (apply np_bind_any; [|intros acc; apply np_ret];
            apply np_opt_m, labels_of_live; cbn [x_vars]; apply (a2e_live af e0 _ m Ht Hc)).
  all: cbn [opt_m]; intros ps; unfold bind, ret;
    assert (Hl : labels_of L af (map snd (iter_attacks_from L af id)) <> None)
      by (apply labels_of_live; intros b0 Hb0; eapply targets_live; eassumption);
    destruct (labels_of L af (map snd (iter_attacks_from L af id))); [exact I|congruence].
Qed.
End Queries.

(* ---------------------------------------------------------------- the preferred search *)
Lemma dyn_split_some (af : fw) e cur : tables_ok L af e -> dyn_split L af e cur <> None.
Proof.
  intros Ht. unfold dyn_split.
  set (ids := filter (has_argument_with_id L af) _).
  assert (Hlive : forall id, In id ids -> tbl_var (e_a2v e) id <> None).
  { intros id Hin. apply filter_In in Hin. apply (t_live L af e Ht). exact (proj2 Hin). }
  assert (H1 : tbl_vars (e_a2v e) (filter (fun i => memb i cur) ids) <> None).
  { apply tbl_vars_some. intros id Hin. apply filter_In in Hin. apply Hlive. exact (proj1 Hin). }
  assert (H2 : tbl_vars (e_a2v e) (filter (fun i => negb (memb i cur)) ids) <> None).
  { apply tbl_vars_some. intros id Hin. apply filter_In in Hin. apply Hlive. exact (proj1 Hin). }
  destruct (tbl_vars _ (filter (fun i => memb i cur) ids)); [|congruence].
  destruct (tbl_vars _ (filter (fun i => negb (memb i cur)) ids)); [discriminate|congruence].
Qed.

Section Pr.
Variable oracle : nat -> cnf -> list lit -> answer.

Lemma np_k_solve e a : np (k_solve oracle e a).
Proof. unfold k_solve. apply np_bind_any; [apply np_solve|intros r; apply np_ret]. Qed.
Lemma np_k_new_search e k : np (k_new_search oracle e k).
Proof. unfold k_new_search. apply np_bind_any; [apply np_k_solve|intros r; apply np_ret]. Qed.
Lemma np_k_discard af e k : tables_ok L af e -> np (k_discard L af e k).
Proof.
  intros Ht. unfold k_discard. apply np_bind_any; [apply np_opt_m, dyn_split_some; exact Ht|].
  intros sp. apply np_add_clause.
Qed.
Lemma np_k_compute_next af e k : tables_ok L af e -> k_state k <> MNone -> np (k_compute_next oracle L af e k).
Proof.
  intros Ht Hs. unfold k_compute_next. destruct (k_state k); try congruence.
  - apply np_bind_any; [apply np_k_discard; exact Ht|intros _; apply np_k_new_search].
  - apply np_bind_any; [apply np_opt_m, dyn_split_some; exact Ht|]. intros sp.
    apply np_bind_any; [apply np_add_clause|]. intros _.
    apply np_bind_any; [apply np_k_solve|intros r; apply np_ret].
  - apply np_k_new_search.
  - apply np_ret.
Qed.

Lemma np_pr_loop fuel af e arg_id : tables_ok L af e -> forall k fm in_all missing,
  k_state k <> MNone -> np (pr_loop oracle L fuel af e arg_id k fm in_all missing).
Proof.
  intros Ht. induction fuel as [|f IH]; intros k fm in_all missing Hs; cbn [pr_loop]; [apply np_oof|].
  apply np_bind_any; [apply np_k_compute_next; assumption|]. intros k'.
  destruct (k_state k') eqn:Es.
  - destruct (negb _); [apply np_ret|]. apply IH. rewrite Es. discriminate.
  - destruct (memb arg_id (k_cur k')).
    + apply np_bind_any; [apply np_k_discard; exact Ht|]. intros _. apply IH. cbn [k_with k_state]. discriminate.
    + apply IH. rewrite Es. discriminate.
  - apply IH. rewrite Es. discriminate.
  - apply np_ret.
  - apply IH. rewrite Es. discriminate.
Qed.

Lemma trues_live (af : fw) v : forall id, In id (trues L af v) -> has_argument_with_id L af id = true.
Proof. intros id Hin. unfold trues in Hin. apply filter_In in Hin. destruct Hin as [_ H]. apply andb_true_iff in H. tauto. Qed.

Variable s : dsolver L.
Variable l : L.
Variable P : fw * dbuf L -> Prop.
Hypothesis HP : okm (update_encoding L leqb (s_af L s) (s_buf L s)) P.
Hypothesis HPpost : forall r, P r ->
  Inv (fst r) /\ get_argument (fst r) l <> None /\
  exists e, b_enc L (snd r) = XStd e /\ tables_ok L (fst r) e /\ DynProofs.conv e.
Hypothesis Hnp : np (update_encoding L leqb (s_af L s) (s_buf L s)).

Lemma np_pr_ds_query fuel : np (pr_ds_query oracle L leqb fuel s l).
Proof.
  unfold pr_ds_query. destruct (is_skep L leqb (s_buf L s) l) as [[b|] [e|]]; try apply np_ret.
  all: eapply np_bind; [exact Hnp|exact HP|]; intros [af buf] Hr;
    destruct (HPpost _ Hr) as (Hinv & Hg & e0 & He & Ht & Hc); cbn [fst snd] in *; rewrite He;
    (apply np_bind_any; [apply np_n_vars|]); intros nv;
    (apply np_bind_any; [apply np_opt_m; exact Hg|]); intros arg_id;
    (apply np_bind_any; [apply np_pr_loop; [exact Ht|cbn [k_state]; discriminate]|]);
    intros [[[[k result] acc_b] ref_b] ext];
    (apply np_bind_any; [apply np_opt_m, labels_of_live, trues_live|]); intros acc;
    (apply np_bind_any; [apply np_opt_m, labels_of_live, trues_live|]); intros refused;
    (apply np_bind_any; [apply np_add_clause|]); intros _; apply np_ret.
Qed.
End Pr.

(* ---------------------------------------------------------------- reachable states *)
Notation reach := (DynDefs.reach L leqb).
Notation fresh := (DynDefs.fresh_fw L leqb).
Notation run_ops := (Store.run_ops L leqb).

Lemma buf_update_ev_ok (b : dbuf L) (o : op L) :
  snd (buf_update L leqb b o) = ROk ->
  exists ev, b_buffer L (fst (buf_update L leqb b o)) = b_buffer L b ++ [ev] /\ ev_ok (b_shadow L b) ev.
Proof.
  destruct o as [x|x|x y|x y]; cbn [buf_update].
  - intros _. exists (DNewArg L x). split; [reflexivity|exact I].
  - destruct (Store.remove_argument L leqb (b_shadow L b) x) as [sh [| |]] eqn:E; cbn [fst snd]; try discriminate.
    intros _. exists (DRemArg L x). split; [reflexivity|]. cbn [ev_ok]. rewrite E. reflexivity.
  - destruct (Store.new_attack L leqb (b_shadow L b) x y) as [sh [| |]] eqn:E; cbn [fst snd]; try discriminate.
    intros _. exists (DNewAtt L x y). split; [reflexivity|]. cbn [ev_ok]. rewrite E. reflexivity.
  - destruct (Store.remove_attack L leqb (b_shadow L b) x y) as [sh [| |]] eqn:E; cbn [fst snd]; try discriminate.
    intros _. exists (DRemAtt L x y). split; [reflexivity|]. cbn [ev_ok]. rewrite E. reflexivity.
Qed.

Lemma rep_reach k s os :
  reach k s os -> std_kind k -> Inv (s_af L s) /\ replayable (s_af L s) (pending (s_buf L s)).
Proof.
  induction 1 as [ps ps' s Hn|s os o Hr IH|s os oracle thr fuel q cert l ps ps' s' a Hr IH Hq]; intros Hk.
  - unfold dyn_new in Hn. destruct Hk as [-> |[-> | ->]];
      apply bind_Done in Hn; destruct Hn as (u & ps1 & _ & Hn); apply Done_inj in Hn; destruct Hn as [<- _];
      cbn [s_af s_buf]; (split; [apply (init_inv L leqb leqb_spec [])|exact I]).
  - destruct (IH Hk) as [Hinv Hrep]. pose proof (reach_frame_inv L leqb _ _ _ Hr) as [Hkind Hn Hs Hf].
    assert (Hnd : not_dummy k) by (destruct Hk as [-> |[-> | ->]]; exact I).
    assert (Hsy : fold_left ev_apply (pending (s_buf L s)) (s_af L s) = b_shadow L (s_buf L s)).
    { unfold DynDefs.synced in Hs. rewrite Hkind in Hs. destruct Hk as [-> |[-> | ->]]; exact Hs. }
    pose proof (buf_update_spec L leqb (s_buf L s) o) as Hb. cbv zeta in Hb. destruct Hb as (_ & _ & Hnx & _ & Hcase).
    pose proof (buf_update_ev_ok (s_buf L s) o) as Hev.
    unfold dyn_update. rewrite Hkind.
    assert (G : Inv (s_af L s) /\ replayable (s_af L s) (pending (fst (buf_update L leqb (s_buf L s) o)))).
    { split; [exact Hinv|]. destruct Hcase as [(Hok & _)|(_ & ->)]; [|exact Hrep].
      destruct (Hev Hok) as (ev & Hbf & Hevok).
      unfold DynDefs.pending at 1. rewrite Hnx, (pending_snoc L (s_buf L s) _ ev Hn Hbf).
      apply replayable_snoc; [exact Hrep|]. rewrite Hsy. exact Hevok. }
    destruct Hk as [-> |[-> | ->]];
      destruct (buf_update L leqb (s_buf L s) o) as [b r]; cbn [fst snd s_af s_buf] in *; exact G.
  - destruct (IH Hk) as [Hinv Hrep].
    pose proof (dyn_query_step L leqb _ _ _ _ _ _ _ _ _ _ Hq) as Hqs. cbn [fst] in Hqs.
    destruct Hqs as [->|(_ & _ & Haf & ev & Hev & Hbf & Hnx & _)]; [auto|].
    split; [rewrite Haf; apply inv_fold; exact Hinv|].
    unfold DynDefs.pending. rewrite Hnx, Hbf, skipn_app, skipn_all, Nat.sub_diag. cbn [skipn app replayable].
    split; [|exact I]. destruct ev; try discriminate Hev; exact I.
Qed.

(* "the solver stays usable": a supported query on an argument of the current framework never panics *)
Theorem std_query_never_panics k s os oracle thr fuel q cert l id ps :
  reach k s os -> get_argument (run_ops fresh os) l = Some id ->
  (k = KCo /\ q = QDC) \/ (k = KSt /\ (q = QDC \/ q = QDS)) \/ (k = KPr /\ q = QDS) ->
  match dyn_query oracle L leqb thr fuel s q cert l ps with Panic _ => False | _ => True end.
Proof.
  intros Hr Hl Hkq.
  assert (Hk : std_kind k) by (unfold std_kind; destruct Hkq as [[-> _]|[[-> _]|[-> _]]]; tauto).
  assert (Hnd : not_dummy k) by (destruct Hk as [-> |[-> | ->]]; exact I).
  pose proof (reach_frame_inv L leqb _ _ _ Hr) as [Hkind Hn Hs Hf].
  pose proof (enc_inv_reach L leqb _ _ _ Hr Hnd) as Hinv. pose proof (conv_reach L leqb _ _ _ Hr Hnd) as Hcv.
  pose proof (std_kind_reach L leqb _ _ _ Hr Hk) as Hstd.
  destruct (rep_reach _ _ _ Hr Hk) as [Hsinv Hrep].
  assert (Hsy : fold_left ev_apply (pending (s_buf L s)) (s_af L s) = run_ops fresh os).
  { unfold DynDefs.synced in Hs. unfold DynDefs.spec_fw in Hf. rewrite Hkind in Hs, Hf.
    destruct Hk as [-> |[-> | ->]]; congruence. }
  pose proof Hinv as Hinv0. pose proof Hcv as Hcv0. pose proof Hstd as Hstd0.
  destruct (b_enc L (s_buf L s)) as [e|e] eqn:Ee; [|destruct Hstd].
  unfold enc_inv in Hinv. rewrite Ee in Hinv. destruct Hinv as [Ht Hu]. unfold conv_buf in Hcv. rewrite Ee in Hcv.
  assert (Hpre : safe_pre (s_af L s) (s_buf L s) e).
  { split; auto. apply tables_ok_split. exact Ht. }
  pose proof (np_update_encoding _ _ _ Hpre) as Hnp.
  set (P := fun r : fw * dbuf L => (DynProofs.encoded L leqb (s_af L s) (s_buf L s) r) /\
              (enc_inv L (fst r) (snd r) /\ conv_buf L (snd r)) /\ DynProofs.is_std (b_enc L (snd r))).
  assert (HP : okm (update_encoding L leqb (s_af L s) (s_buf L s)) P).
  { intros p0 r p1 E. split; [exact (update_encoding_spec L leqb _ _ _ _ _ E)|]. split; [split|].
    - exact (update_encoding_tables L leqb _ _ Hinv0 _ _ _ E).
    - exact (update_encoding_conv L leqb _ _ Hinv0 Hcv0 _ _ _ E).
    - refine (update_encoding_std L leqb _ _ _ _ _ _ E). rewrite Ee. exact I. }
  assert (HPpost : forall r, P r ->
     Inv (fst r) /\ get_argument (fst r) l <> None /\
     exists e0, b_enc L (snd r) = XStd e0 /\ tables_ok L (fst r) e0 /\ DynProofs.conv e0).
  { intros r ((Haf & _) & (Hi & Hc) & Hst). split; [rewrite Haf; apply inv_fold; exact Hsinv|]. split.
    - rewrite Haf, Hsy, Hl. discriminate.
    - unfold enc_inv in Hi. unfold conv_buf in Hc. destruct (b_enc L (snd r)) as [e0|e0]; [|destruct Hst].
      exists e0. destruct Hi as [Hi _]. auto. }
  assert (Hstrip : forall m : Prog.M (dsolver L * answer_t), np m ->
            np (r <- m ;; ret (fst r, if cert then snd r else (fst (snd r), None)))).
  { intros m Hm. apply np_bind_any; [exact Hm|intros r; apply np_ret]. }
  unfold dyn_query. rewrite Hkind.
  destruct Hkq as [[-> ->]|[[-> [-> | ->]]|[-> ->]]]; apply Hstrip.
  - exact (np_dc_query oracle s l P HP HPpost Hnp).
  - exact (np_dc_query oracle s l P HP HPpost Hnp).
  - exact (np_st_ds_query oracle s l P HP HPpost Hnp).
  - exact (np_pr_ds_query oracle s l P HP HPpost Hnp fuel).
Qed.
End Safe.
