(* Executable form of the third rule of the POLYNOMIAL ORACLE of the equivalence reducer
     checks/C19.py  grounded_classes_verdict
   over the specification layer (Spec/AF.v, Spec/Theory.v) and the vocabulary of
   Proofs/PolyOracleDefs.v.  Definitions only; every function is polynomial in the size of the
   framework; the theorems are in Proofs/PolyClasses.v and stated in Properties/C19poly.v.

   The python code takes a seed argument s, forms E = G + {s} (G the grounded extension), tests
   that E is admissible
       hit = union of targets[a] for a in E
       if (E & hit) or any(not attackers[a] <= hit for a in E): continue
   closes it under "add what is defended"
       while ch: for a in range(n):
           if a not in E and a not in hit and attackers[a] <= hit: E.add(a); hit |= targets[a]
   and reports every class c with  (c & E) and not (c <= E).

   The closing loop is, instruction for instruction, the unit propagation [prop_step] /
   [prop_sweep] / [prop_iter] of Proofs/PolyOracleDefs.v (there it starts from the pair of empty
   sets and computes the grounded extension; here it starts from (E, hit F E)). *)
From Coq Require Import List Arith Bool.
From Crusta Require Import Spec.AF Spec.SemFacts Spec.Theory Proofs.PolyOracleDefs.
Import ListNotations.

(* the set obtained from E by repeatedly adding every argument that is not yet a member, is not
   attacked by a member and all of whose attackers are attacked by a member: one sweep over the
   arguments in order, repeated (number of arguments + 1) times - the python loop stops at the
   first sweep that changes nothing, and further sweeps do not change anything either *)
Definition acc_closure (F : af) (E : list nat) : list nat :=
  fst (prop_iter F (Datatypes.S (length (args F))) (E, hit F E)).

(* the admissibility test of the seed set: members are arguments, no member is in hit, the
   attackers of every member are in hit (the first is implicit in python: the members are
   identifiers of the framework by construction) *)
Definition seed_admb (F : af) (E : list nat) : bool :=
  t_membersb F E && t_cfb F E && t_admb F E.

(* the set E cuts the class C: some member of C is in E and C is not inside E *)
Definition cutsb (C E : list nat) : bool :=
  existsb (fun a => memb a E) C && negb (subsetb C E).

(* the verdict for one seed s and one class C: G + {s} is admissible and its closure cuts C *)
Definition cut_by_closure (F : af) (G : list nat) (s : nat) (C : list nat) : bool :=
  seed_admb F (s :: G) && cutsb C (acc_closure F (s :: G)).

(* the claim that is judged: a and b belong to exactly the same complete extensions *)
Definition same_complete_extensions (F : af) (a b : nat) : Prop :=
  forall E, co F E -> (In a E <-> In b E).
