(* Encoder theorems (C10) for the exp family: ExpCf, ExpCo and the hybrid
   complete encoder HybCo, with and without range variables; variable layout
   and [assignment_to_extension].  Everything is constructive and axiom-free. *)
From Coq Require Import List Arith ZArith Bool Lia.
From Crusta Require Import Proofs.EncBase.
Import ListNotations.

Definition is_exp_family (e : enc) : Prop := e = ExpCf \/ e = ExpCo \/ e = HybCo.

(* ------------------------------------------------------------------ *)
(** * Cartesian products: finite choice *)

Lemma cart_choice A (P : A -> Prop) ds :
  (forall d, In d ds -> exists c, In c d /\ P c) ->
  exists p, In p (cart_prod ds) /\ forall c, In c p -> P c.
Proof.
  induction ds as [|d r IH]; intros H.
  - exists []. split; [now left|intros c []].
  - destruct (H d (or_introl eq_refl)) as [c [Hc HP]].
    destruct IH as [p [Hp HPp]]; [intros d' Hd'; apply H; now right|].
    exists (c :: p). split.
    + cbn [cart_prod]. apply in_flat_map. exists c. split; [exact Hc|]. now apply in_map.
    + intros c' [<-|Hc']; [exact HP|now apply HPp].
Qed.

Lemma cart_choice_inv A (P : A -> Prop) ds p :
  In p (cart_prod ds) -> (forall c, In c p -> P c) ->
  forall d, In d ds -> exists c, In c d /\ P c.
Proof.
  revert p. induction ds as [|d r IH]; intros p Hp HP d' Hd'; [destruct Hd'|].
  cbn [cart_prod] in Hp. apply in_flat_map in Hp. destruct Hp as [x [Hx Hp]].
  apply in_map_iff in Hp. destruct Hp as [q [<- Hq]].
  destruct Hd' as [<-|Hd'].
  - exists x. split; [exact Hx|]. apply HP. now left.
  - apply (IH q Hq); [|exact Hd']. intros c Hc. apply HP. now right.
Qed.

Lemma cart_prod_in A (ds : list (list A)) p c :
  In p (cart_prod ds) -> In c p -> exists d, In d ds /\ In c d.
Proof.
  revert p. induction ds as [|d r IH]; intros p Hp Hc.
  - cbn [cart_prod] in Hp. destruct Hp as [<-|[]]. destruct Hc.
  - cbn [cart_prod] in Hp. apply in_flat_map in Hp. destruct Hp as [x [Hx Hp]].
    apply in_map_iff in Hp. destruct Hp as [q [<- Hq]].
    destruct Hc as [<-|Hc].
    + exists d. split; [now left|exact Hx].
    + destruct (IH q Hq Hc) as [d' [Hd' Hcd']]. exists d'. split; [now right|exact Hcd'].
Qed.

(* ------------------------------------------------------------------ *)
(** * Which variables occur in a clause set *)

Definition lit_in (P : nat -> Prop) (l : lit) : Prop := l <> 0%Z /\ P (lit_var l).
Definition cl_in (P : nat -> Prop) (c : clause) : Prop := forall l, In l c -> lit_in P l.
Definition cnf_in (P : nat -> Prop) (f : cnf) : Prop := forall c, In c f -> cl_in P c.

Lemma lit_in_zlit (P : nat -> Prop) v : 0 < v -> P v -> lit_in P (zlit v).
Proof. intros Hv HP. split; [now apply zlit_nonzero|now rewrite lit_var_zlit]. Qed.

Lemma lit_in_znlit (P : nat -> Prop) v : 0 < v -> P v -> lit_in P (znlit v).
Proof. intros Hv HP. split; [now apply znlit_nonzero|now rewrite lit_var_znlit]. Qed.

Lemma cl_in_nil P : cl_in P [].
Proof. intros l []. Qed.

Lemma cl_in_cons P l c : lit_in P l -> cl_in P c -> cl_in P (l :: c).
Proof. intros Hl Hc l' [<-|Hl']; [exact Hl|now apply Hc]. Qed.

Lemma cl_in_map A P (g : A -> lit) xs :
  (forall x, In x xs -> lit_in P (g x)) -> cl_in P (map g xs).
Proof. intros H l Hl. apply in_map_iff in Hl. destruct Hl as [x [<- Hx]]. now apply H. Qed.

Lemma cnf_in_nil P : cnf_in P [].
Proof. intros c []. Qed.

Lemma cnf_in_cons P c f : cl_in P c -> cnf_in P f -> cnf_in P (c :: f).
Proof. intros Hc Hf c' [<-|Hc']; [exact Hc|now apply Hf]. Qed.

Lemma cnf_in_app P f g : cnf_in P f -> cnf_in P g -> cnf_in P (f ++ g).
Proof. intros Hf Hg c Hc. apply in_app_iff in Hc. destruct Hc as [Hc|Hc]; [now apply Hf|now apply Hg]. Qed.

Lemma cnf_in_map A P (g : A -> clause) xs :
  (forall x, In x xs -> cl_in P (g x)) -> cnf_in P (map g xs).
Proof. intros H c Hc. apply in_map_iff in Hc. destruct Hc as [x [<- Hx]]. now apply H. Qed.

Lemma cnf_in_over_args P n f :
  (forall a, a < n -> cnf_in P (f a)) -> cnf_in P (over_args n f).
Proof.
  intros H c Hc. apply in_over_args in Hc. destruct Hc as [a [Ha Hc]]. exact (H a Ha c Hc).
Qed.

Lemma cnf_in_weaken (P Q : nat -> Prop) f :
  (forall v, P v -> Q v) -> cnf_in P f -> cnf_in Q f.
Proof. intros HPQ Hf c Hc l Hl. destruct (Hf c Hc l Hl) as [H0 HP]. split; [exact H0|now apply HPQ]. Qed.

(* ------------------------------------------------------------------ *)
(** * Meaning of the per-argument clause groups under a valuation *)

Section Sem.
Variable n : nat.
Variable atk : nat -> list nat.
Variable m : val.

Definition cf_sem (a : nat) : Prop :=
  forall b, In b (atk a) -> m (exp_var a) = true -> m (exp_var b) = true -> False.
Definition attacked_m (b : nat) : Prop :=
  exists c, In c (atk b) /\ m (exp_var c) = true.
Definition co_sem (a : nat) : Prop :=
  cf_sem a /\
  (forall b, In b (atk a) -> m (exp_var a) = true -> attacked_m b) /\
  ((forall b, In b (atk a) -> attacked_m b) -> m (exp_var a) = true).
Definition weak_range (a : nat) : Prop :=
  (m (exp_var a) = true -> m (exp_range n a) = true) /\
  (m (exp_range n a) = true -> m (exp_var a) = true \/ attacked_m a).
Definition full_range (a : nat) : Prop :=
  m (exp_range n a) = true <-> (m (exp_var a) = true \/ attacked_m a).
Definition disj_sem (d b : nat) : Prop :=
  (m (exp_var b) = true -> m d = true -> False) /\
  (forall c, In c (atk b) -> m (exp_var c) = true -> m d = true) /\
  (m d = true -> attacked_m b).

Lemma full_weak a : full_range a -> weak_range a.
Proof. unfold full_range, weak_range. intros H. split; [intros Ha; apply H; now left|apply H]. Qed.

Lemma exp_cf_arg_spec a : vmodels m (exp_cf_arg atk a) = true <-> cf_sem a.
Proof. unfold exp_cf_arg, cf_sem. apply (nand_clauses_spec m atk exp_var a). Qed.

Lemma exp_nontrivial_spec a : vmodels m (exp_nontrivial atk a) = true <-> co_sem a.
Proof.
  unfold exp_nontrivial, co_sem. rewrite !vmodels_app_iff, exp_cf_arg_spec, !vmodels_map.
  split.
  - intros (H1 & H2 & H3). split; [exact H1|]. split.
    + intros b Hb Ha.
      assert (Hin : In (atk b) (defender_sets atk a)) by (unfold defender_sets; now apply in_map).
      specialize (H2 (atk b) Hin). rewrite vsat_cons, vtrue_znlit, Ha in H2. cbn [negb orb] in H2.
      rewrite (vsat_map_zlit m exp_var) in H2 by auto. apply existsb_exists in H2. exact H2.
    + intros Hall.
      destruct (cart_choice nat (fun c => m (exp_var c) = true) (defender_sets atk a)) as [p [Hp HPp]].
      { intros d Hd. unfold defender_sets in Hd. apply in_map_iff in Hd.
        destruct Hd as [b [<- Hb]]. exact (Hall b Hb). }
      specialize (H3 p Hp). rewrite vsat_cons, vtrue_zlit in H3 by auto.
      destruct (m (exp_var a)) eqn:Ea; [reflexivity|]. cbn [orb] in H3.
      rewrite (vsat_map_znlit m exp_var) in H3. apply existsb_exists in H3.
      destruct H3 as [c [Hc Hn]]. rewrite (HPp c Hc) in Hn. discriminate.
  - intros (H1 & H2 & H3). split; [exact H1|]. split.
    + intros d Hd. unfold defender_sets in Hd. apply in_map_iff in Hd. destruct Hd as [b [<- Hb]].
      rewrite vsat_cons, vtrue_znlit. destruct (m (exp_var a)) eqn:Ea; [|reflexivity].
      cbn [negb orb]. rewrite (vsat_map_zlit m exp_var) by auto. apply existsb_exists.
      exact (H2 b Hb eq_refl).
    + intros p Hp. rewrite vsat_cons, vtrue_zlit by auto.
      destruct (m (exp_var a)) eqn:Ea; [reflexivity|]. cbn [orb].
      rewrite (vsat_map_znlit m exp_var).
      destruct (forallb (fun c => m (exp_var c)) p) eqn:Eall.
      * exfalso. rewrite forallb_forall in Eall.
        assert (Ha : false = true).
        { apply H3. intros b Hb.
          apply (cart_choice_inv nat (fun c => m (exp_var c) = true) (defender_sets atk a) p Hp Eall (atk b)).
          unfold defender_sets. now apply in_map. }
        discriminate.
      * apply forallb_false_exists in Eall. destruct Eall as [c [Hc Hn]].
        apply existsb_exists. exists c. split; [exact Hc|]. now rewrite Hn.
Qed.

Lemma existsb_is_nil_map l :
  existsb is_nil (map atk l) = true <-> exists b, In b l /\ atk b = [].
Proof.
  rewrite existsb_exists. split.
  - intros [d [Hd Hn]]. apply in_map_iff in Hd. destruct Hd as [b [<- Hb]].
    exists b. split; [exact Hb|]. destruct (atk b); [reflexivity|discriminate].
  - intros [b [Hb Hn]]. exists (atk b). split; [now apply in_map|]. now rewrite Hn.
Qed.

Lemma exp_co_arg_cases a :
  (atk a = [] /\ exp_co_arg atk a = [[zlit (exp_var a)]]) \/
  ((exists b, In b (atk a) /\ atk b = []) /\ exp_co_arg atk a = [[znlit (exp_var a)]]) \/
  (exp_co_arg atk a = exp_nontrivial atk a).
Proof.
  unfold exp_co_arg, defender_sets. destruct (atk a) as [|b0 bs] eqn:Ea.
  - left. split; reflexivity.
  - right. cbn [map]. change (atk b0 :: map atk bs) with (map atk (b0 :: bs)).
    destruct (existsb is_nil (map atk (b0 :: bs))) eqn:En.
    + left. apply existsb_is_nil_map in En. split; [exact En|reflexivity].
    + right. reflexivity.
Qed.

Lemma exp_co_arg_spec a : vmodels m (exp_co_arg atk a) = true <-> co_sem a.
Proof.
  destruct (exp_co_arg_cases a) as [[Ha ->]|[[[b [Hb Hn]] ->]| ->]].
  - rewrite vmodels_single, vsat_single, vtrue_zlit by auto. unfold co_sem, cf_sem.
    rewrite Ha. split.
    + intros H. split; [intros b []|]. split; [intros b []|]. intros _; exact H.
    + intros (_ & _ & H). apply H. intros b [].
  - rewrite vmodels_single, vsat_single, vtrue_znlit, negb_true_iff. unfold co_sem, cf_sem. split.
    + intros H. split; [intros b' _ Ht; congruence|]. split; [intros b' _ Ht; congruence|].
      intros Hall. exfalso. destruct (Hall b Hb) as [c [Hc _]]. rewrite Hn in Hc. destruct Hc.
    + intros (_ & H2 & _). destruct (m (exp_var a)) eqn:E; [|reflexivity].
      exfalso. destruct (H2 b Hb eq_refl) as [c [Hc _]]. rewrite Hn in Hc. destruct Hc.
  - apply exp_nontrivial_spec.
Qed.

Lemma exp_range_arg_spec a : vmodels m (exp_range_arg n atk a) = true <-> weak_range a.
Proof.
  unfold exp_range_arg, weak_range, attacked_m. rewrite vmodels_cons_iff, vmodels_single.
  rewrite vsat_binary, !vsat_cons, !vtrue_znlit, !vtrue_zlit, (vsat_map_zlit m exp_var) by auto.
  split.
  - intros [H1 H2]. split.
    + intros Ha. rewrite Ha in H1. exact H1.
    + intros Hr. rewrite Hr in H2. cbn [negb orb] in H2. apply orb_true_iff in H2.
      destruct H2 as [H2|H2]; [now left|right]. apply existsb_exists in H2. exact H2.
  - intros [H1 H2]. split.
    + destruct (m (exp_var a)) eqn:Ea; [|reflexivity]. cbn [negb orb]. now apply H1.
    + destruct (m (exp_range n a)) eqn:Er; [|reflexivity]. cbn [negb orb].
      destruct (H2 eq_refl) as [Ha|H]; [now rewrite Ha|]. apply orb_true_iff. right.
      apply existsb_exists. exact H.
Qed.

(* which variables these groups mention *)
Variable P : nat -> Prop.
Hypothesis Hatk : forall a b, In b (atk a) -> b < n.
Hypothesis HPv : forall x, x < n -> P (exp_var x).

Lemma exp_cf_arg_in a : a < n -> cnf_in P (exp_cf_arg atk a).
Proof.
  intros Ha. unfold exp_cf_arg. apply cnf_in_map. intros b Hb.
  apply cl_in_cons; [apply lit_in_znlit; auto|].
  apply cl_in_cons; [apply lit_in_znlit; eauto|apply cl_in_nil].
Qed.

Lemma exp_nontrivial_in a : a < n -> cnf_in P (exp_nontrivial atk a).
Proof.
  intros Ha. unfold exp_nontrivial. apply cnf_in_app; [now apply exp_cf_arg_in|].
  apply cnf_in_app; apply cnf_in_map.
  - intros d Hd. unfold defender_sets in Hd. apply in_map_iff in Hd. destruct Hd as [b [<- Hb]].
    apply cl_in_cons; [apply lit_in_znlit; auto|]. apply cl_in_map.
    intros c Hc. apply lit_in_zlit; eauto.
  - intros p Hp. apply cl_in_cons; [apply lit_in_zlit; auto|]. apply cl_in_map.
    intros c Hc. destruct (cart_prod_in nat _ p c Hp Hc) as [d [Hd Hcd]].
    unfold defender_sets in Hd. apply in_map_iff in Hd. destruct Hd as [b [<- Hb]].
    apply lit_in_znlit; eauto.
Qed.

Lemma exp_co_arg_in a : a < n -> cnf_in P (exp_co_arg atk a).
Proof.
  intros Ha. destruct (exp_co_arg_cases a) as [[_ ->]|[[_ ->]| ->]].
  - apply cnf_in_cons; [|apply cnf_in_nil]. apply cl_in_cons; [apply lit_in_zlit; auto|apply cl_in_nil].
  - apply cnf_in_cons; [|apply cnf_in_nil]. apply cl_in_cons; [apply lit_in_znlit; auto|apply cl_in_nil].
  - now apply exp_nontrivial_in.
Qed.

Lemma exp_range_arg_in a : a < n -> P (exp_range n a) -> cnf_in P (exp_range_arg n atk a).
Proof.
  intros Ha Hr. unfold exp_range_arg.
  apply cnf_in_cons; [|apply cnf_in_cons; [|apply cnf_in_nil]].
  - apply cl_in_cons; [apply lit_in_znlit; auto|].
    apply cl_in_cons; [apply lit_in_zlit; auto|apply cl_in_nil].
  - apply cl_in_cons; [apply lit_in_znlit; auto|].
    apply cl_in_cons; [apply lit_in_zlit; auto|]. apply cl_in_map.
    intros b Hb. apply lit_in_zlit; eauto.
Qed.

End Sem.

(* ------------------------------------------------------------------ *)
(** * From valuations to argument sets and back *)

Section Bridge.
Variable F : af.
Variable n : nat.
Hypothesis HF : compact_af F n.

Lemma attackers_lt a b : In b (attackers F a) -> b < n.
Proof. intros Hb. apply (compact_attackers_lt F n a b HF Hb). Qed.

Lemma in_ext_exp e m a :
  is_exp_family e -> (In a (ext_of e n m) <-> a < n /\ m (exp_var a) = true).
Proof. intros He. rewrite in_ext_of. destruct He as [-> | [-> | ->]]; reflexivity. Qed.

Lemma attacked_m_ext e m b :
  is_exp_family e ->
  (attacked_m (attackers F) m b <-> exists c, In c (ext_of e n m) /\ att F c b).
Proof.
  intros He. split.
  - intros [c [Hc Hm]]. exists c. split; [|now apply in_attackers].
    apply (in_ext_exp e m c He). split; [now apply (attackers_lt b)|exact Hm].
  - intros [c [Hc Hcb]]. apply (in_ext_exp e m c He) in Hc. exists c.
    split; [now apply in_attackers|tauto].
Qed.

Lemma sound_cf e m :
  is_exp_family e -> (forall a, a < n -> cf_sem (attackers F) m a) -> cfs F (ext_of e n m).
Proof.
  intros He H. split; [now apply ext_of_incl|]. intros a b Ha Hb Hab.
  apply (in_ext_exp e m a He) in Ha. apply (in_ext_exp e m b He) in Hb.
  destruct Ha as [Han Ha], Hb as [Hbn Hb].
  apply (H b Hbn a); [now apply in_attackers|exact Hb|exact Ha].
Qed.

Lemma sound_co e m :
  is_exp_family e -> (forall a, a < n -> co_sem (attackers F) m a) -> co F (ext_of e n m).
Proof.
  intros He H.
  assert (Hcfs : cfs F (ext_of e n m)).
  { apply sound_cf; [exact He|]. intros a Ha. apply (H a Ha). }
  destruct Hcfs as [Hincl Hcf]. split; [split; [exact Hincl|split; [exact Hcf|]]|].
  - intros a Ha b Hb. apply (in_ext_exp e m a He) in Ha. destruct Ha as [Han Ha].
    destruct (H a Han) as (_ & H2 & _). apply (attacked_m_ext e m b He).
    apply H2; [now apply in_attackers|exact Ha].
  - intros a Ha Hdef. apply (compact_in_args F n a HF) in Ha.
    apply (in_ext_exp e m a He). split; [exact Ha|].
    destruct (H a Ha) as (_ & _ & H3). apply H3. intros b Hb.
    apply (attacked_m_ext e m b He). apply in_attackers in Hb. exact (Hdef b Hb).
Qed.

Lemma sound_range e m i :
  is_exp_family e -> i < n -> weak_range n (attackers F) m i ->
  m (exp_range n i) = true -> in_range F (ext_of e n m) i.
Proof.
  intros He Hi [_ H2] Hr. destruct (H2 Hr) as [Ha|Hatt].
  - left. apply (in_ext_exp e m i He). now split.
  - right. now apply (attacked_m_ext e m i He).
Qed.

(* completeness side: a valuation that agrees with S on the argument variables *)
Variable m : val.
Variable S : list nat.
Hypothesis Hm : forall c, c < n -> (m (exp_var c) = true <-> In c S).
Hypothesis HS : incl S (args F).

Lemma S_lt c : In c S -> c < n.
Proof. intros Hc. apply (compact_in_args F n c HF). now apply HS. Qed.

Lemma attacked_m_iff b :
  attacked_m (attackers F) m b <-> exists c, In c S /\ att F c b.
Proof.
  split.
  - intros [c [Hc Hmc]]. exists c. split; [|now apply in_attackers].
    apply Hm; [now apply (attackers_lt b)|exact Hmc].
  - intros [c [Hc Hcb]]. exists c. split; [now apply in_attackers|].
    apply Hm; [now apply S_lt|exact Hc].
Qed.

Lemma compl_cf a : cf F S -> a < n -> cf_sem (attackers F) m a.
Proof.
  intros Hcf Ha b Hb Hma Hmb. apply (Hcf b a).
  - apply Hm; [now apply (attackers_lt a)|exact Hmb].
  - now apply Hm.
  - now apply in_attackers.
Qed.

Lemma compl_co a : co F S -> a < n -> co_sem (attackers F) m a.
Proof.
  intros [[_ [Hcf Hadm]] Hco] Ha. split; [now apply compl_cf|]. split.
  - intros b Hb Hma. apply attacked_m_iff. apply (Hadm a); [now apply Hm|now apply in_attackers].
  - intros Hall. apply Hm; [exact Ha|]. apply Hco; [now apply (compact_in_args F n a HF)|].
    intros b Hb. apply attacked_m_iff. apply Hall. now apply in_attackers.
Qed.

Lemma compl_range i :
  i < n -> (m (exp_range n i) = true <-> in_range F S i) -> full_range n (attackers F) m i.
Proof.
  intros Hi H. unfold full_range, in_range in *. rewrite H, (Hm i Hi), attacked_m_iff. tauto.
Qed.

End Bridge.
