(* Encoder theorems (C10) for the exp family: ExpCf, ExpCo and the hybrid
   complete encoder HybCo, with and without range variables; variable layout
   and [assignment_to_extension].  Everything is constructive and axiom-free. *)
From Coq Require Import List Arith ZArith Bool Lia.
From Crusta Require Import Proofs.EncBase.
Import ListNotations.

Definition is_exp_family (e : enc) : Prop := e = ExpCf \/ e = ExpCo \/ e = HybCo.

(* ------------------------------------------------------------------ *)
(** * Cartesian products: finite choice *)

Lemma cart_choice A (P : A -> Prop) ds :
  (forall d, In d ds -> exists c, In c d /\ P c) ->
  exists p, In p (cart_prod ds) /\ forall c, In c p -> P c.
Proof.
  induction ds as [|d r IH]; intros H.
  - exists []. split; [now left|intros c []].
  - destruct (H d (or_introl eq_refl)) as [c [Hc HP]].
    destruct IH as [p [Hp HPp]]; [intros d' Hd'; apply H; now right|].
    exists (c :: p). split.
    + cbn [cart_prod]. apply in_flat_map. exists c. split; [exact Hc|]. now apply in_map.
    + intros c' [<-|Hc']; [exact HP|now apply HPp].
Qed.

Lemma cart_choice_inv A (P : A -> Prop) ds p :
  In p (cart_prod ds) -> (forall c, In c p -> P c) ->
  forall d, In d ds -> exists c, In c d /\ P c.
Proof.
  revert p. induction ds as [|d r IH]; intros p Hp HP d' Hd'; [destruct Hd'|].
  cbn [cart_prod] in Hp. apply in_flat_map in Hp. destruct Hp as [x [Hx Hp]].
  apply in_map_iff in Hp. destruct Hp as [q [<- Hq]].
  destruct Hd' as [<-|Hd'].
  - exists x. split; [exact Hx|]. apply HP. now left.
  - apply (IH q Hq); [|exact Hd']. intros c Hc. apply HP. now right.
Qed.

Lemma cart_prod_in A (ds : list (list A)) p c :
  In p (cart_prod ds) -> In c p -> exists d, In d ds /\ In c d.
Proof.
  revert p. induction ds as [|d r IH]; intros p Hp Hc.
  - cbn [cart_prod] in Hp. destruct Hp as [<-|[]]. destruct Hc.
  - cbn [cart_prod] in Hp. apply in_flat_map in Hp. destruct Hp as [x [Hx Hp]].
    apply in_map_iff in Hp. destruct Hp as [q [<- Hq]].
    destruct Hc as [<-|Hc].
    + exists d. split; [now left|exact Hx].
    + destruct (IH q Hq Hc) as [d' [Hd' Hcd']]. exists d'. split; [now right|exact Hcd'].
Qed.

(* ------------------------------------------------------------------ *)
(** * Which variables occur in a clause set *)

Definition lit_in (P : nat -> Prop) (l : lit) : Prop := l <> 0%Z /\ P (lit_var l).
Definition cl_in (P : nat -> Prop) (c : clause) : Prop := forall l, In l c -> lit_in P l.
Definition cnf_in (P : nat -> Prop) (f : cnf) : Prop := forall c, In c f -> cl_in P c.

Lemma lit_in_zlit (P : nat -> Prop) v : 0 < v -> P v -> lit_in P (zlit v).
Proof. intros Hv HP. split; [now apply zlit_nonzero|now rewrite lit_var_zlit]. Qed.

Lemma lit_in_znlit (P : nat -> Prop) v : 0 < v -> P v -> lit_in P (znlit v).
Proof. intros Hv HP. split; [now apply znlit_nonzero|now rewrite lit_var_znlit]. Qed.

Lemma cl_in_nil P : cl_in P [].
Proof. intros l []. Qed.

Lemma cl_in_cons P l c : lit_in P l -> cl_in P c -> cl_in P (l :: c).
Proof. intros Hl Hc l' [<-|Hl']; [exact Hl|now apply Hc]. Qed.

Lemma cl_in_map A P (g : A -> lit) xs :
  (forall x, In x xs -> lit_in P (g x)) -> cl_in P (map g xs).
Proof. intros H l Hl. apply in_map_iff in Hl. destruct Hl as [x [<- Hx]]. now apply H. Qed.

Lemma cnf_in_nil P : cnf_in P [].
Proof. intros c []. Qed.

Lemma cnf_in_cons P c f : cl_in P c -> cnf_in P f -> cnf_in P (c :: f).
Proof. intros Hc Hf c' [<-|Hc']; [exact Hc|now apply Hf]. Qed.

Lemma cnf_in_app P f g : cnf_in P f -> cnf_in P g -> cnf_in P (f ++ g).
Proof. intros Hf Hg c Hc. apply in_app_iff in Hc. destruct Hc as [Hc|Hc]; [now apply Hf|now apply Hg]. Qed.

Lemma cnf_in_map A P (g : A -> clause) xs :
  (forall x, In x xs -> cl_in P (g x)) -> cnf_in P (map g xs).
Proof. intros H c Hc. apply in_map_iff in Hc. destruct Hc as [x [<- Hx]]. now apply H. Qed.

Lemma cnf_in_over_args P n f :
  (forall a, a < n -> cnf_in P (f a)) -> cnf_in P (over_args n f).
Proof.
  intros H c Hc. apply in_over_args in Hc. destruct Hc as [a [Ha Hc]]. exact (H a Ha c Hc).
Qed.

Lemma cnf_in_weaken (P Q : nat -> Prop) f :
  (forall v, P v -> Q v) -> cnf_in P f -> cnf_in Q f.
Proof. intros HPQ Hf c Hc l Hl. destruct (Hf c Hc l Hl) as [H0 HP]. split; [exact H0|now apply HPQ]. Qed.

(* ------------------------------------------------------------------ *)
(** * Meaning of the per-argument clause groups under a valuation *)

Section Sem.
Variable n : nat.
Variable atk : nat -> list nat.
Variable m : val.

Definition cf_sem (a : nat) : Prop :=
  forall b, In b (atk a) -> m (exp_var a) = true -> m (exp_var b) = true -> False.
Definition attacked_m (b : nat) : Prop :=
  exists c, In c (atk b) /\ m (exp_var c) = true.
Definition co_sem (a : nat) : Prop :=
  cf_sem a /\
  (forall b, In b (atk a) -> m (exp_var a) = true -> attacked_m b) /\
  ((forall b, In b (atk a) -> attacked_m b) -> m (exp_var a) = true).
Definition weak_range (a : nat) : Prop :=
  (m (exp_var a) = true -> m (exp_range n a) = true) /\
  (m (exp_range n a) = true -> m (exp_var a) = true \/ attacked_m a).
Definition full_range (a : nat) : Prop :=
  m (exp_range n a) = true <-> (m (exp_var a) = true \/ attacked_m a).
Definition disj_sem (d b : nat) : Prop :=
  (m (exp_var b) = true -> m d = true -> False) /\
  (forall c, In c (atk b) -> m (exp_var c) = true -> m d = true) /\
  (m d = true -> attacked_m b).

Lemma full_weak a : full_range a -> weak_range a.
Proof. unfold full_range, weak_range. intros H. split; [intros Ha; apply H; now left|apply H]. Qed.

Lemma exp_cf_arg_spec a : vmodels m (exp_cf_arg atk a) = true <-> cf_sem a.
Proof. unfold exp_cf_arg, cf_sem. apply (nand_clauses_spec m atk exp_var a). Qed.

Lemma exp_nontrivial_spec a : vmodels m (exp_nontrivial atk a) = true <-> co_sem a.
Proof.
  unfold exp_nontrivial, co_sem. rewrite !vmodels_app_iff, exp_cf_arg_spec, !vmodels_map.
  split.
  - intros (H1 & H2 & H3). split; [exact H1|]. split.
    + intros b Hb Ha.
      assert (Hin : In (atk b) (defender_sets atk a)) by (unfold defender_sets; now apply in_map).
      specialize (H2 (atk b) Hin). rewrite vsat_cons, vtrue_znlit, Ha in H2. cbn [negb orb] in H2.
      rewrite (vsat_map_zlit m exp_var) in H2 by auto. apply existsb_exists in H2. exact H2.
    + intros Hall.
      destruct (cart_choice nat (fun c => m (exp_var c) = true) (defender_sets atk a)) as [p [Hp HPp]].
      { intros d Hd. unfold defender_sets in Hd. apply in_map_iff in Hd.
        destruct Hd as [b [<- Hb]]. exact (Hall b Hb). }
      specialize (H3 p Hp). rewrite vsat_cons, vtrue_zlit in H3 by auto.
      destruct (m (exp_var a)) eqn:Ea; [reflexivity|]. cbn [orb] in H3.
      rewrite (vsat_map_znlit m exp_var) in H3. apply existsb_exists in H3.
      destruct H3 as [c [Hc Hn]]. rewrite (HPp c Hc) in Hn. discriminate.
  - intros (H1 & H2 & H3). split; [exact H1|]. split.
    + intros d Hd. unfold defender_sets in Hd. apply in_map_iff in Hd. destruct Hd as [b [<- Hb]].
      rewrite vsat_cons, vtrue_znlit. destruct (m (exp_var a)) eqn:Ea; [|reflexivity].
      cbn [negb orb]. rewrite (vsat_map_zlit m exp_var) by auto. apply existsb_exists.
      exact (H2 b Hb eq_refl).
    + intros p Hp. rewrite vsat_cons, vtrue_zlit by auto.
      destruct (m (exp_var a)) eqn:Ea; [reflexivity|]. cbn [orb].
      rewrite (vsat_map_znlit m exp_var).
      destruct (forallb (fun c => m (exp_var c)) p) eqn:Eall.
      * exfalso. rewrite forallb_forall in Eall.
        assert (Ha : false = true).
        { apply H3. intros b Hb.
          apply (cart_choice_inv nat (fun c => m (exp_var c) = true) (defender_sets atk a) p Hp Eall (atk b)).
          unfold defender_sets. now apply in_map. }
        discriminate.
      * apply forallb_false_exists in Eall. destruct Eall as [c [Hc Hn]].
        apply existsb_exists. exists c. split; [exact Hc|]. now rewrite Hn.
Qed.

Lemma existsb_is_nil_map l :
  existsb is_nil (map atk l) = true <-> exists b, In b l /\ atk b = [].
Proof.
  rewrite existsb_exists. split.
  - intros [d [Hd Hn]]. apply in_map_iff in Hd. destruct Hd as [b [<- Hb]].
    exists b. split; [exact Hb|]. destruct (atk b); [reflexivity|discriminate].
  - intros [b [Hb Hn]]. exists (atk b). split; [now apply in_map|]. now rewrite Hn.
Qed.

Lemma exp_co_arg_cases a :
  (atk a = [] /\ exp_co_arg atk a = [[zlit (exp_var a)]]) \/
  ((exists b, In b (atk a) /\ atk b = []) /\ exp_co_arg atk a = [[znlit (exp_var a)]]) \/
  (exp_co_arg atk a = exp_nontrivial atk a).
Proof.
  unfold exp_co_arg, defender_sets. destruct (atk a) as [|b0 bs] eqn:Ea.
  - left. split; reflexivity.
  - right. cbn [map]. change (atk b0 :: map atk bs) with (map atk (b0 :: bs)).
    destruct (existsb is_nil (map atk (b0 :: bs))) eqn:En.
    + left. apply existsb_is_nil_map in En. split; [exact En|reflexivity].
    + right. reflexivity.
Qed.

Lemma exp_co_arg_spec a : vmodels m (exp_co_arg atk a) = true <-> co_sem a.
Proof.
  destruct (exp_co_arg_cases a) as [[Ha ->]|[[[b [Hb Hn]] ->]| ->]].
  - rewrite vmodels_single, vsat_single, vtrue_zlit by auto. unfold co_sem, cf_sem.
    rewrite Ha. split.
    + intros H. split; [intros b []|]. split; [intros b []|]. intros _; exact H.
    + intros (_ & _ & H). apply H. intros b [].
  - rewrite vmodels_single, vsat_single, vtrue_znlit, negb_true_iff. unfold co_sem, cf_sem. split.
    + intros H. split; [intros b' _ Ht; congruence|]. split; [intros b' _ Ht; congruence|].
      intros Hall. exfalso. destruct (Hall b Hb) as [c [Hc _]]. rewrite Hn in Hc. destruct Hc.
    + intros (_ & H2 & _). destruct (m (exp_var a)) eqn:E; [|reflexivity].
      exfalso. destruct (H2 b Hb eq_refl) as [c [Hc _]]. rewrite Hn in Hc. destruct Hc.
  - apply exp_nontrivial_spec.
Qed.

Lemma exp_range_arg_spec a : vmodels m (exp_range_arg n atk a) = true <-> weak_range a.
Proof.
  unfold exp_range_arg, weak_range, attacked_m. rewrite vmodels_cons_iff, vmodels_single.
  rewrite vsat_binary, !vsat_cons, !vtrue_znlit, !vtrue_zlit, (vsat_map_zlit m exp_var) by auto.
  split.
  - intros [H1 H2]. split.
    + intros Ha. rewrite Ha in H1. exact H1.
    + intros Hr. rewrite Hr in H2. cbn [negb orb] in H2. apply orb_true_iff in H2.
      destruct H2 as [H2|H2]; [now left|right]. apply existsb_exists in H2. exact H2.
  - intros [H1 H2]. split.
    + destruct (m (exp_var a)) eqn:Ea; [|reflexivity]. cbn [negb orb]. now apply H1.
    + destruct (m (exp_range n a)) eqn:Er; [|reflexivity]. cbn [negb orb].
      destruct (H2 eq_refl) as [Ha|H]; [now rewrite Ha|]. apply orb_true_iff. right.
      apply existsb_exists. exact H.
Qed.

(* which variables these groups mention *)
Variable P : nat -> Prop.
Hypothesis Hatk : forall a b, In b (atk a) -> b < n.
Hypothesis HPv : forall x, x < n -> P (exp_var x).

Lemma exp_cf_arg_in a : a < n -> cnf_in P (exp_cf_arg atk a).
Proof.
  intros Ha. unfold exp_cf_arg. apply cnf_in_map. intros b Hb.
  apply cl_in_cons; [apply lit_in_znlit; auto|].
  apply cl_in_cons; [apply lit_in_znlit; eauto|apply cl_in_nil].
Qed.

Lemma exp_nontrivial_in a : a < n -> cnf_in P (exp_nontrivial atk a).
Proof.
  intros Ha. unfold exp_nontrivial. apply cnf_in_app; [now apply exp_cf_arg_in|].
  apply cnf_in_app; apply cnf_in_map.
  - intros d Hd. unfold defender_sets in Hd. apply in_map_iff in Hd. destruct Hd as [b [<- Hb]].
    apply cl_in_cons; [apply lit_in_znlit; auto|]. apply cl_in_map.
    intros c Hc. apply lit_in_zlit; eauto.
  - intros p Hp. apply cl_in_cons; [apply lit_in_zlit; auto|]. apply cl_in_map.
    intros c Hc. destruct (cart_prod_in nat _ p c Hp Hc) as [d [Hd Hcd]].
    unfold defender_sets in Hd. apply in_map_iff in Hd. destruct Hd as [b [<- Hb]].
    apply lit_in_znlit; eauto.
Qed.

Lemma exp_co_arg_in a : a < n -> cnf_in P (exp_co_arg atk a).
Proof.
  intros Ha. destruct (exp_co_arg_cases a) as [[_ ->]|[[_ ->]| ->]].
  - apply cnf_in_cons; [|apply cnf_in_nil]. apply cl_in_cons; [apply lit_in_zlit; auto|apply cl_in_nil].
  - apply cnf_in_cons; [|apply cnf_in_nil]. apply cl_in_cons; [apply lit_in_znlit; auto|apply cl_in_nil].
  - now apply exp_nontrivial_in.
Qed.

Lemma exp_range_arg_in a : a < n -> P (exp_range n a) -> cnf_in P (exp_range_arg n atk a).
Proof.
  intros Ha Hr. unfold exp_range_arg.
  apply cnf_in_cons; [|apply cnf_in_cons; [|apply cnf_in_nil]].
  - apply cl_in_cons; [apply lit_in_znlit; auto|].
    apply cl_in_cons; [apply lit_in_zlit; auto|apply cl_in_nil].
  - apply cl_in_cons; [apply lit_in_znlit; auto|].
    apply cl_in_cons; [apply lit_in_zlit; auto|]. apply cl_in_map.
    intros b Hb. apply lit_in_zlit; eauto.
Qed.

End Sem.

(* ------------------------------------------------------------------ *)
(** * From valuations to argument sets and back *)

Section Bridge.
Variable F : af.
Variable n : nat.
Hypothesis HF : compact_af F n.

Lemma attackers_lt a b : In b (attackers F a) -> b < n.
Proof. intros Hb. apply (compact_attackers_lt F n a b HF Hb). Qed.

Lemma in_ext_exp e m a :
  is_exp_family e -> (In a (ext_of e n m) <-> a < n /\ m (exp_var a) = true).
Proof. intros He. rewrite in_ext_of. destruct He as [-> | [-> | ->]]; reflexivity. Qed.

Lemma attacked_m_ext e m b :
  is_exp_family e ->
  (attacked_m (attackers F) m b <-> exists c, In c (ext_of e n m) /\ att F c b).
Proof.
  intros He. split.
  - intros [c [Hc Hm]]. exists c. split; [|now apply in_attackers].
    apply (in_ext_exp e m c He). split; [now apply (attackers_lt b)|exact Hm].
  - intros [c [Hc Hcb]]. apply (in_ext_exp e m c He) in Hc. exists c.
    split; [now apply in_attackers|tauto].
Qed.

Lemma sound_cf e m :
  is_exp_family e -> (forall a, a < n -> cf_sem (attackers F) m a) -> cfs F (ext_of e n m).
Proof.
  intros He H. split; [now apply ext_of_incl|]. intros a b Ha Hb Hab.
  apply (in_ext_exp e m a He) in Ha. apply (in_ext_exp e m b He) in Hb.
  destruct Ha as [Han Ha], Hb as [Hbn Hb].
  apply (H b Hbn a); [now apply in_attackers|exact Hb|exact Ha].
Qed.

Lemma sound_co e m :
  is_exp_family e -> (forall a, a < n -> co_sem (attackers F) m a) -> co F (ext_of e n m).
Proof.
  intros He H.
  assert (Hcfs : cfs F (ext_of e n m)).
  { apply sound_cf; [exact He|]. intros a Ha. apply (H a Ha). }
  destruct Hcfs as [Hincl Hcf]. split; [split; [exact Hincl|split; [exact Hcf|]]|].
  - intros a Ha b Hb. apply (in_ext_exp e m a He) in Ha. destruct Ha as [Han Ha].
    destruct (H a Han) as (_ & H2 & _). apply (attacked_m_ext e m b He).
    apply H2; [now apply in_attackers|exact Ha].
  - intros a Ha Hdef. apply (compact_in_args F n a HF) in Ha.
    apply (in_ext_exp e m a He). split; [exact Ha|].
    destruct (H a Ha) as (_ & _ & H3). apply H3. intros b Hb.
    apply (attacked_m_ext e m b He). apply in_attackers in Hb. exact (Hdef b Hb).
Qed.

Lemma sound_range e m i :
  is_exp_family e -> i < n -> weak_range n (attackers F) m i ->
  m (exp_range n i) = true -> in_range F (ext_of e n m) i.
Proof.
  intros He Hi [_ H2] Hr. destruct (H2 Hr) as [Ha|Hatt].
  - left. apply (in_ext_exp e m i He). now split.
  - right. now apply (attacked_m_ext e m i He).
Qed.

(* completeness side: a valuation that agrees with S on the argument variables *)
Variable m : val.
Variable S : list nat.
Hypothesis Hm : forall c, c < n -> (m (exp_var c) = true <-> In c S).
Hypothesis HS : incl S (args F).

Lemma S_lt c : In c S -> c < n.
Proof. intros Hc. apply (compact_in_args F n c HF). now apply HS. Qed.

Lemma attacked_m_iff b :
  attacked_m (attackers F) m b <-> exists c, In c S /\ att F c b.
Proof.
  split.
  - intros [c [Hc Hmc]]. exists c. split; [|now apply in_attackers].
    apply Hm; [now apply (attackers_lt b)|exact Hmc].
  - intros [c [Hc Hcb]]. exists c. split; [now apply in_attackers|].
    apply Hm; [now apply S_lt|exact Hc].
Qed.

Lemma compl_cf a : cf F S -> a < n -> cf_sem (attackers F) m a.
Proof.
  intros Hcf Ha b Hb Hma Hmb. apply (Hcf b a).
  - apply Hm; [now apply (attackers_lt a)|exact Hmb].
  - now apply Hm.
  - now apply in_attackers.
Qed.

Lemma compl_co a : co F S -> a < n -> co_sem (attackers F) m a.
Proof.
  intros [[_ [Hcf Hadm]] Hco] Ha. split; [now apply compl_cf|]. split.
  - intros b Hb Hma. apply attacked_m_iff. apply (Hadm a); [now apply Hm|now apply in_attackers].
  - intros Hall. apply Hm; [exact Ha|]. apply Hco; [now apply (compact_in_args F n a HF)|].
    intros b Hb. apply attacked_m_iff. apply Hall. now apply in_attackers.
Qed.

Lemma compl_range i :
  i < n -> (m (exp_range n i) = true <-> in_range F S i) -> full_range n (attackers F) m i.
Proof.
  intros Hi H. unfold full_range, in_range in *. rewrite H, (Hm i Hi), attacked_m_iff. tauto.
Qed.

End Bridge.

(* ------------------------------------------------------------------ *)
(** * The witness valuation used for completeness *)

Definition wit (F : af) (n : nat) (range : bool) (t : list (option nat)) (S : list nat) : val :=
  fun v =>
    if v <=? n then memb (v - 1) S
    else if range && (v <=? 2 * n) then in_rangeb F S (v - n - 1)
    else existsb (fun b => match nth b t None with
                           | Some d => (d =? v) && attacked_byb F S b
                           | None => false
                           end) (seq 0 n).

Lemma wit_arg F n range t S a : a < n -> wit F n range t S (exp_var a) = memb a S.
Proof.
  intros Ha. unfold wit, exp_var.
  replace (a + 1 <=? n) with true by (symmetry; apply Nat.leb_le; lia).
  f_equal. lia.
Qed.

Lemma wit_range F n t S a : a < n -> wit F n true t S (exp_range n a) = in_rangeb F S a.
Proof.
  intros Ha. unfold wit, exp_range.
  replace (n + a + 1 <=? n) with false by (symmetry; apply Nat.leb_gt; lia).
  replace (n + a + 1 <=? 2 * n) with true by (symmetry; apply Nat.leb_le; lia).
  cbn [andb]. f_equal. lia.
Qed.

Lemma wit_disj F n (range : bool) (t : list (option nat)) S b d :
  length t = n ->
  (forall b d, nth b t None = Some d -> (if range then 2 * n else n) < d) ->
  (forall b b' d, nth b t None = Some d -> nth b' t None = Some d -> b = b') ->
  nth b t None = Some d ->
  wit F n range t S d = attacked_byb F S b.
Proof.
  intros Hlen Hlo Hinj Hb. pose proof (Hlo b d Hb) as Hd.
  assert (Hbn : b < n).
  { destruct (le_lt_dec n b) as [Hge|Hlt]; [|exact Hlt].
    rewrite nth_overflow in Hb by lia. discriminate. }
  unfold wit.
  replace (d <=? n) with false by (symmetry; apply Nat.leb_gt; destruct range; lia).
  replace (range && (d <=? 2 * n)) with false.
  2:{ symmetry. destruct range; [|reflexivity]. cbn [andb]. apply Nat.leb_gt. lia. }
  destruct (attacked_byb F S b) eqn:E.
  - apply existsb_exists. exists b. split; [apply in_seq; lia|].
    rewrite Hb, Nat.eqb_refl, E. reflexivity.
  - apply existsb_false_forall. intros b' _.
    destruct (nth b' t None) as [d'|] eqn:E'; [|reflexivity].
    destruct (d' =? d) eqn:Ed; [|reflexivity]. apply Nat.eqb_eq in Ed. subst d'.
    rewrite (Hinj b' b d E' Hb). rewrite E. reflexivity.
Qed.

Lemma wit_Hm F n range t S c :
  c < n -> (wit F n range t S (exp_var c) = true <-> In c S).
Proof. intros Hc. rewrite wit_arg by exact Hc. apply memb_spec. Qed.

Lemma wit_range_iff F n t S i :
  i < n -> (wit F n true t S (exp_range n i) = true <-> in_range F S i).
Proof. intros Hi. rewrite wit_range by exact Hi. apply in_rangeb_spec. Qed.

(* ------------------------------------------------------------------ *)
(** * The hybrid state machine *)

Lemma set_tbl_length i v t : length (set_tbl i v t) = length t.
Proof.
  revert i. induction t as [|x t IH]; intros i.
  - destruct i; reflexivity.
  - destruct i as [|i]; [reflexivity|].
    change (set_tbl (S i) v (x :: t)) with (x :: set_tbl i v t).
    cbn [length]. f_equal. apply IH.
Qed.

Lemma nth_set_tbl i v t j :
  i < length t ->
  nth j (set_tbl i v t) None = if j =? i then Some v else nth j t None.
Proof.
  revert i j. induction t as [|x t IH]; intros i j Hi; cbn [length] in Hi; [lia|].
  destruct i as [|i].
  - destruct j; reflexivity.
  - change (set_tbl (S i) v (x :: t)) with (x :: set_tbl i v t).
    destruct j as [|j]; [reflexivity|]. cbn [nth]. rewrite IH by lia. reflexivity.
Qed.

Section Hyb.
Variable n : nat.
Variable atk : nat -> list nat.
Variable thr : nat.
Variable start : nat.
Hypothesis Hatk : forall a b, In b (atk a) -> b < n.

Definition posv (v : nat) : Prop := 0 < v.

Record Inv (s : hstate) : Prop := {
  inv_len : length (tbl s) = n;
  inv_start : 1 <= start <= next_free s;
  inv_rng : forall b d, nth b (tbl s) None = Some d -> start <= d < next_free s;
  inv_inj : forall b b' d, nth b (tbl s) None = Some d -> nth b' (tbl s) None = Some d -> b = b';
  inv_lits : cnf_in posv (out s) }.

Lemma disj_var_in d b : 0 < d -> cnf_in posv (disj_var_with atk exp_var d b).
Proof.
  intros Hd. unfold disj_var_with.
  apply cnf_in_app; [|apply cnf_in_app].
  - apply cnf_in_cons; [|apply cnf_in_nil].
    apply cl_in_cons; [apply lit_in_znlit; unfold posv; auto|].
    apply cl_in_cons; [apply lit_in_znlit; unfold posv; auto|apply cl_in_nil].
  - apply cnf_in_map. intros c _.
    apply cl_in_cons; [apply lit_in_zlit; unfold posv; auto|].
    apply cl_in_cons; [apply lit_in_znlit; unfold posv; auto|apply cl_in_nil].
  - apply cnf_in_cons; [|apply cnf_in_nil].
    apply cl_in_cons; [apply lit_in_znlit; unfold posv; auto|].
    apply cl_in_map. intros c _. apply lit_in_zlit; unfold posv; auto.
Qed.

Lemma create_inv s b : Inv s -> b < n -> Inv (create_disj_for atk s b).
Proof.
  intros HI Hb. unfold create_disj_for.
  destruct (nth b (tbl s) None) as [d0|] eqn:E; [exact HI|].
  destruct HI as [Hlen Hst Hrng Hinj Hlits]. constructor; cbn [tbl next_free out].
  - now rewrite set_tbl_length.
  - lia.
  - intros b' d Hn. rewrite nth_set_tbl in Hn by lia. destruct (b' =? b) eqn:Eb.
    + injection Hn as <-. lia.
    + apply Hrng in Hn. lia.
  - intros b1 b2 d H1 H2. rewrite nth_set_tbl in H1, H2 by lia.
    destruct (b1 =? b) eqn:E1; destruct (b2 =? b) eqn:E2.
    + apply Nat.eqb_eq in E1, E2. congruence.
    + injection H1 as <-. apply Hrng in H2. lia.
    + injection H2 as <-. apply Hrng in H1. lia.
    + now apply (Hinj b1 b2 d).
  - apply cnf_in_app; [exact Hlits|]. apply disj_var_in. lia.
Qed.

Lemma create_mono s b b' d :
  Inv s -> b < n -> nth b' (tbl s) None = Some d ->
  nth b' (tbl (create_disj_for atk s b)) None = Some d.
Proof.
  intros HI Hb H. unfold create_disj_for.
  destruct (nth b (tbl s) None) as [d0|] eqn:E; [exact H|]. cbn [tbl].
  rewrite nth_set_tbl by (rewrite (inv_len s HI); exact Hb).
  destruct (b' =? b) eqn:Eb; [|exact H]. apply Nat.eqb_eq in Eb. subst. congruence.
Qed.

Lemma create_has s b :
  Inv s -> b < n -> exists d, nth b (tbl (create_disj_for atk s b)) None = Some d.
Proof.
  intros HI Hb. unfold create_disj_for.
  destruct (nth b (tbl s) None) as [d0|] eqn:E; [exists d0; exact E|]. cbn [tbl].
  exists (next_free s). rewrite nth_set_tbl by (rewrite (inv_len s HI); exact Hb).
  now rewrite Nat.eqb_refl.
Qed.

(* ----- semantics of the emitted clauses under a fixed valuation ----- *)
Variable m : val.

Definition dmean (t : list (option nat)) : Prop :=
  forall b d, nth b t None = Some d -> disj_sem atk m d b.

Definition Sem (s : hstate) (XS XC : Prop) : Prop :=
  (vmodels m (out s) = true -> dmean (tbl s) /\ XS) /\
  (dmean (tbl s) /\ XC -> vmodels m (out s) = true).

Lemma Sem_weaken s (XS XC XS' XC' : Prop) :
  Sem s XS XC -> (XS -> XS') -> (XC' -> XC) -> Sem s XS' XC'.
Proof.
  intros [HS HC] H1 H2. split.
  - intros Hm. destruct (HS Hm) as [Hd HX]. split; [exact Hd|now apply H1].
  - intros [Hd HX]. apply HC. split; [exact Hd|now apply H2].
Qed.

Lemma dmean_set t b d :
  b < length t -> nth b t None = None ->
  (dmean (set_tbl b d t) <-> dmean t /\ disj_sem atk m d b).
Proof.
  intros Hb Hnone. unfold dmean. split.
  - intros H. split.
    + intros b' d' Hn. apply H. rewrite nth_set_tbl by exact Hb.
      destruct (b' =? b) eqn:Eb; [|exact Hn]. apply Nat.eqb_eq in Eb. subst. congruence.
    + apply H. rewrite nth_set_tbl by exact Hb. now rewrite Nat.eqb_refl.
  - intros [H1 H2] b' d' Hn. rewrite nth_set_tbl in Hn by exact Hb.
    destruct (b' =? b) eqn:Eb.
    + apply Nat.eqb_eq in Eb. injection Hn as <-. subst b'. exact H2.
    + now apply H1.
Qed.

Lemma disj_var_sem d b :
  0 < d -> (vmodels m (disj_var_with atk exp_var d b) = true <-> disj_sem atk m d b).
Proof. intros Hd. apply (disj_var_with_spec m atk exp_var d b exp_var_pos Hd). Qed.

Lemma create_sem s b (XS XC : Prop) :
  Inv s -> b < n -> Sem s XS XC -> Sem (create_disj_for atk s b) XS XC.
Proof.
  intros HI Hb. unfold create_disj_for.
  destruct (nth b (tbl s) None) as [d0|] eqn:E; [trivial|].
  assert (Hd : 0 < next_free s) by (pose proof (inv_start s HI); lia).
  assert (Hbl : b < length (tbl s)) by (rewrite (inv_len s HI); exact Hb).
  unfold Sem. cbn [tbl out]. intros [HS HC]. split.
  - intros Hm. apply vmodels_app_iff in Hm. destruct Hm as [Hm1 Hm2].
    destruct (HS Hm1) as [Hdm HX]. split; [|exact HX].
    apply (dmean_set _ _ _ Hbl E). split; [exact Hdm|]. now apply disj_var_sem.
  - intros [Hdm HX]. apply (dmean_set _ _ _ Hbl E) in Hdm. destruct Hdm as [Hdm Hds].
    apply vmodels_app_iff. split; [apply HC; now split|]. now apply disj_var_sem.
Qed.

Lemma create_fold l : forall s,
  (forall b, In b l -> b < n) -> Inv s ->
  Inv (fold_left (create_disj_for atk) l s) /\
  (forall b' d, nth b' (tbl s) None = Some d ->
                nth b' (tbl (fold_left (create_disj_for atk) l s)) None = Some d) /\
  (forall b, In b l -> exists d, nth b (tbl (fold_left (create_disj_for atk) l s)) None = Some d) /\
  (forall XS XC : Prop, Sem s XS XC -> Sem (fold_left (create_disj_for atk) l s) XS XC).
Proof.
  induction l as [|b l IH]; intros s Hl HI; cbn [fold_left].
  - split; [exact HI|]. split; [auto|]. split; [intros b []|auto].
  - assert (Hb : b < n) by (apply Hl; now left).
    destruct (IH (create_disj_for atk s b)) as (I1 & M1 & H1 & S1).
    + intros b' Hb'. apply Hl. now right.
    + now apply create_inv.
    + split; [exact I1|]. split; [|split].
      * intros b' d Hn. apply M1. now apply create_mono.
      * intros b' [<-|Hb']; [|now apply H1].
        destruct (create_has s b HI Hb) as [d Hd]. exists d. now apply M1.
      * intros XS XC HS. apply S1. now apply create_sem.
Qed.

(* the aux-style clauses of one argument, read through the table *)
Lemma aux_co_in t a :
  (forall b, In b (atk a) -> exists d, nth b t None = Some d /\ 0 < d) ->
  cnf_in posv (aux_co_arg_with atk exp_var (tbl_get t) a).
Proof.
  intros Hsome. unfold aux_co_arg_with. apply cnf_in_app.
  - apply cnf_in_map. intros b Hb. destruct (Hsome b Hb) as [d [Hd Hpos]].
    apply cl_in_cons; [apply lit_in_znlit; unfold posv; auto|].
    apply cl_in_cons; [|apply cl_in_nil]. unfold tbl_get. rewrite Hd.
    apply lit_in_zlit; unfold posv; auto.
  - apply cnf_in_cons; [|apply cnf_in_nil].
    apply cl_in_cons; [apply lit_in_zlit; unfold posv; auto|]. apply cl_in_map.
    intros b Hb. destruct (Hsome b Hb) as [d [Hd Hpos]]. unfold tbl_get. rewrite Hd.
    apply lit_in_znlit; unfold posv; auto.
Qed.

Lemma aux_co_sem t a :
  (forall b, In b (atk a) -> exists d, nth b t None = Some d /\ 0 < d) ->
  dmean t ->
  (vmodels m (aux_co_arg_with atk exp_var (tbl_get t) a) = true <-> co_sem atk m a).
Proof.
  intros Hsome Hdm.
  set (dv := fun b => Nat.max 1 (tbl_get t b)).
  assert (Hdv : forall b, In b (atk a) -> tbl_get t b = dv b).
  { intros b Hb. destruct (Hsome b Hb) as [d [Hd Hpos]]. unfold dv, tbl_get. rewrite Hd. lia. }
  assert (Heq : aux_co_arg_with atk exp_var (tbl_get t) a = aux_co_arg_with atk exp_var dv a).
  { unfold aux_co_arg_with.
    rewrite (map_ext_in (fun b => [znlit (exp_var a); zlit (tbl_get t b)])
                        (fun b => [znlit (exp_var a); zlit (dv b)]) (atk a))
      by (intros b Hb; now rewrite (Hdv b Hb)).
    rewrite (map_ext_in (fun b => znlit (tbl_get t b)) (fun b => znlit (dv b)) (atk a))
      by (intros b Hb; now rewrite (Hdv b Hb)).
    reflexivity. }
  assert (Hds : forall b, In b (atk a) -> disj_sem atk m (dv b) b).
  { intros b Hb. rewrite <- (Hdv b Hb). destruct (Hsome b Hb) as [d [Hd _]].
    unfold tbl_get. rewrite Hd. now apply Hdm. }
  rewrite Heq.
  rewrite (aux_co_arg_with_spec m atk exp_var dv a exp_var_pos) by (intros x; unfold dv; lia).
  clear Heq Hdv Hsome Hdm. unfold co_sem, cf_sem. split.
  - intros [H1 H2]. split; [|split].
    + intros b Hb Ha Hmb. destruct (Hds b Hb) as (D1 & _ & _). apply D1; [exact Hmb|now apply H1].
    + intros b Hb Ha. destruct (Hds b Hb) as (_ & _ & D3). apply D3. now apply H1.
    + intros Hall. destruct H2 as [H2|[b [Hb Hf]]]; [exact H2|]. exfalso.
      destruct (Hds b Hb) as (_ & D2 & _). destruct (Hall b Hb) as [c [Hc Hmc]].
      rewrite (D2 c Hc Hmc) in Hf. discriminate.
  - intros (C1 & C2 & C3). split.
    + intros b Hb Ha. destruct (C2 b Hb Ha) as [c [Hc Hmc]].
      destruct (Hds b Hb) as (_ & D2 & _). exact (D2 c Hc Hmc).
    + destruct (forallb (fun b => m (dv b)) (atk a)) eqn:Eall.
      * left. rewrite forallb_forall in Eall. apply C3. intros b Hb.
        destruct (Hds b Hb) as (_ & _ & D3). apply D3. now apply Eall.
      * right. apply forallb_false_exists in Eall. exact Eall.
Qed.

(* ----- one argument of the hybrid encoder ----- *)
Definition hyb_cond (a : nat) : bool :=
  match atk a with
  | [] => false
  | _ => negb (existsb is_nil (defender_sets atk a)) &&
         negb (capped_product thr 1 (defender_sets atk a) <? thr)
  end.

Lemma hyb_arg_eq s a :
  hyb_arg atk thr s a =
  if hyb_cond a
  then {| tbl := tbl (fold_left (create_disj_for atk) (atk a) s);
          next_free := next_free (fold_left (create_disj_for atk) (atk a) s);
          out := out (fold_left (create_disj_for atk) (atk a) s)
                 ++ aux_co_arg_with atk exp_var
                      (tbl_get (tbl (fold_left (create_disj_for atk) (atk a) s))) a |}
  else {| tbl := tbl s; next_free := next_free s; out := out s ++ exp_co_arg atk a |}.
Proof.
  unfold hyb_arg, hyb_cond, exp_co_arg, defender_sets.
  destruct (atk a) as [|b0 bs] eqn:Ea; cbn [map]; [reflexivity|].
  destruct (existsb is_nil (atk b0 :: map atk bs)); cbn [negb andb]; [reflexivity|].
  destruct (capped_product thr 1 (atk b0 :: map atk bs) <? thr); cbn [negb]; reflexivity.
Qed.

Lemma hyb_arg_step s a :
  Inv s -> a < n ->
  Inv (hyb_arg atk thr s a) /\
  (forall XS XC : Prop, Sem s XS XC ->
     Sem (hyb_arg atk thr s a) (XS /\ co_sem atk m a) (XC /\ co_sem atk m a)).
Proof.
  intros HI Ha. rewrite hyb_arg_eq. destruct (hyb_cond a).
  - destruct (create_fold (atk a) s (Hatk a) HI) as (I1 & _ & H1 & S1).
    set (s' := fold_left (create_disj_for atk) (atk a) s) in *.
    assert (Hsome : forall b, In b (atk a) -> exists d, nth b (tbl s') None = Some d /\ 0 < d).
    { intros b Hb. destruct (H1 b Hb) as [d Hd]. exists d. split; [exact Hd|].
      pose proof (inv_rng s' I1 b d Hd). pose proof (inv_start s' I1). lia. }
    split.
    + destruct I1 as [Hlen Hst Hrng Hinj Hlits]. constructor; cbn [tbl next_free out]; auto.
      apply cnf_in_app; [exact Hlits|]. now apply aux_co_in.
    + intros XS XC HS. apply S1 in HS. destruct HS as [HS HC]. unfold Sem. cbn [tbl out]. split.
      * intros Hm. apply vmodels_app_iff in Hm. destruct Hm as [Hm1 Hm2].
        destruct (HS Hm1) as [Hdm HX]. split; [exact Hdm|]. split; [exact HX|].
        now apply (aux_co_sem (tbl s') a Hsome Hdm).
      * intros [Hdm [HX Hco]]. apply vmodels_app_iff. split; [apply HC; now split|].
        now apply (aux_co_sem (tbl s') a Hsome Hdm).
  - split.
    + destruct HI as [Hlen Hst Hrng Hinj Hlits]. constructor; cbn [tbl next_free out]; auto.
      apply cnf_in_app; [exact Hlits|].
      apply (exp_co_arg_in n atk posv Hatk); [intros x _; unfold posv; auto|exact Ha].
    + intros XS XC [HS HC]. unfold Sem. cbn [tbl out]. split.
      * intros Hm. apply vmodels_app_iff in Hm. destruct Hm as [Hm1 Hm2].
        destruct (HS Hm1) as [Hdm HX]. split; [exact Hdm|]. split; [exact HX|].
        now apply exp_co_arg_spec.
      * intros [Hdm [HX Hco]]. apply vmodels_app_iff. split; [apply HC; now split|].
        now apply exp_co_arg_spec.
Qed.

Lemma hyb_range_step s a :
  Inv s -> a < n ->
  Inv (hyb_range_arg n atk s a) /\
  (forall XS XC : Prop, Sem s XS XC ->
     Sem (hyb_range_arg n atk s a) (XS /\ weak_range n atk m a) (XC /\ full_range n atk m a)).
Proof.
  intros HI Ha. unfold hyb_range_arg. destruct (nth a (tbl s) None) as [d|] eqn:E.
  - assert (Hd : 0 < d).
    { pose proof (inv_rng s HI a d E). pose proof (inv_start s HI). lia. }
    split.
    + destruct HI as [Hlen Hst Hrng Hinj Hlits]. constructor; cbn [tbl next_free out]; auto.
      apply cnf_in_app; [exact Hlits|].
      assert (Lx : lit_in posv (zlit (exp_var a))) by (apply lit_in_zlit; unfold posv; auto).
      assert (Lnx : lit_in posv (znlit (exp_var a))) by (apply lit_in_znlit; unfold posv; auto).
      assert (Lr : lit_in posv (zlit (exp_range n a))) by (apply lit_in_zlit; unfold posv; auto).
      assert (Lnr : lit_in posv (znlit (exp_range n a))) by (apply lit_in_znlit; unfold posv; auto).
      assert (Ld : lit_in posv (zlit d)) by (apply lit_in_zlit; unfold posv; auto).
      assert (Lnd : lit_in posv (znlit d)) by (apply lit_in_znlit; unfold posv; auto).
      apply cnf_in_cons; [|apply cnf_in_cons; [|apply cnf_in_cons; [|apply cnf_in_nil]]].
      * apply cl_in_cons; [exact Lnx|]. apply cl_in_cons; [exact Lr|apply cl_in_nil].
      * apply cl_in_cons; [exact Lnd|]. apply cl_in_cons; [exact Lr|apply cl_in_nil].
      * apply cl_in_cons; [exact Lnr|]. apply cl_in_cons; [exact Lx|].
        apply cl_in_cons; [exact Ld|apply cl_in_nil].
    + intros XS XC [HS HC]. unfold Sem. cbn [tbl out]. split.
      * intros Hm. apply vmodels_app_iff in Hm. destruct Hm as [Hm1 Hm2].
        destruct (HS Hm1) as [Hdm HX]. split; [exact Hdm|]. split; [exact HX|].
        apply (range3_spec m (exp_var a) d (exp_range n a)) in Hm2; auto.
        destruct (Hdm a d E) as (_ & _ & D3). split.
        -- intros Hma. apply Hm2. now left.
        -- intros Hr. apply Hm2 in Hr. destruct Hr as [Hr|Hr]; [now left|right; now apply D3].
      * intros [Hdm [HX Hfr]]. apply vmodels_app_iff. split; [apply HC; now split|].
        apply (range3_spec m (exp_var a) d (exp_range n a)); auto.
        destruct (Hdm a d E) as (_ & D2 & D3). unfold full_range in Hfr. rewrite Hfr. split.
        -- intros [Hma|[c [Hc Hmc]]]; [now left|right]. exact (D2 c Hc Hmc).
        -- intros [Hma|Hmd]; [now left|right; now apply D3].
  - split.
    + destruct HI as [Hlen Hst Hrng Hinj Hlits]. constructor; cbn [tbl next_free out]; auto.
      apply cnf_in_app; [exact Hlits|].
      apply (exp_range_arg_in n atk posv Hatk); [intros x _; unfold posv; auto|exact Ha|unfold posv; auto].
    + intros XS XC [HS HC]. unfold Sem. cbn [tbl out]. split.
      * intros Hm. apply vmodels_app_iff in Hm. destruct Hm as [Hm1 Hm2].
        destruct (HS Hm1) as [Hdm HX]. split; [exact Hdm|]. split; [exact HX|].
        now apply exp_range_arg_spec.
      * intros [Hdm [HX Hfr]]. apply vmodels_app_iff. split; [apply HC; now split|].
        apply exp_range_arg_spec. now apply full_weak.
Qed.

(* ----- the whole run ----- *)
Variable range : bool.

Definition hstep (s : hstate) (a : nat) : hstate :=
  let s1 := hyb_arg atk thr s a in if range then hyb_range_arg n atk s1 a else s1.
Definition hinit : hstate := {| tbl := repeat None n; next_free := start; out := [] |}.
Definition XSk (k : nat) : Prop :=
  forall a, a < k -> co_sem atk m a /\ (range = true -> weak_range n atk m a).
Definition XCk (k : nat) : Prop :=
  forall a, a < k -> co_sem atk m a /\ (range = true -> full_range n atk m a).

Lemma hstep_step s a :
  Inv s -> a < n ->
  Inv (hstep s a) /\
  (forall XS XC : Prop, Sem s XS XC ->
     Sem (hstep s a) (XS /\ co_sem atk m a /\ (range = true -> weak_range n atk m a))
                     (XC /\ co_sem atk m a /\ (range = true -> full_range n atk m a))).
Proof.
  intros HI Ha. unfold hstep. destruct (hyb_arg_step s a HI Ha) as [I1 S1].
  destruct range.
  - destruct (hyb_range_step (hyb_arg atk thr s a) a I1 Ha) as [I2 S2].
    split; [exact I2|]. intros XS XC HS. apply S1 in HS. apply S2 in HS.
    apply (Sem_weaken _ _ _ _ _ HS); tauto.
  - split; [exact I1|]. intros XS XC HS. apply S1 in HS.
    apply (Sem_weaken _ _ _ _ _ HS); [|tauto]. intros [HX Hco]. split; [exact HX|].
    split; [exact Hco|discriminate].
Qed.

Lemma hyb_prefix k :
  1 <= start -> k <= n ->
  Inv (fold_left hstep (seq 0 k) hinit) /\ Sem (fold_left hstep (seq 0 k) hinit) (XSk k) (XCk k).
Proof.
  intros Hst. induction k as [|k IH]; intros Hk.
  - cbn [seq fold_left]. split.
    + constructor; cbn [hinit tbl next_free out].
      * apply repeat_length.
      * lia.
      * intros b d H. rewrite nth_repeat in H. discriminate.
      * intros b b' d H. rewrite nth_repeat in H. discriminate.
      * apply cnf_in_nil.
    + split.
      * intros _. split.
        -- intros b d H. cbn [hinit tbl] in H. rewrite nth_repeat in H. discriminate.
        -- intros a Ha. lia.
      * intros _. reflexivity.
  - rewrite seq_S, fold_left_app. cbn [fold_left Nat.add].
    destruct IH as [HI HS]; [lia|].
    destruct (hstep_step (fold_left hstep (seq 0 k) hinit) k HI) as [I1 S1]; [lia|].
    split; [exact I1|]. apply S1 in HS. apply (Sem_weaken _ _ _ _ _ HS).
    + intros (HX & Hco & Hr) a Ha. destruct (Nat.eq_dec a k) as [->|Hne]; [now split|].
      apply HX. lia.
    + intros HX. split; [intros a Ha; apply HX; lia|]. apply HX. lia.
Qed.

End Hyb.

Definition hstart (n : nat) (range : bool) : nat := if range then 1 + 2 * n else 1 + n.

Lemma hyb_run_eq n atk thr range :
  hyb_run n atk thr range =
  fold_left (hstep n atk thr range) (seq 0 n) (hinit n (hstart n range)).
Proof. reflexivity. Qed.

Lemma hyb_final n atk thr range m :
  (forall a b, In b (atk a) -> b < n) ->
  Inv n (hstart n range) (hyb_run n atk thr range) /\
  Sem atk m (hyb_run n atk thr range) (XSk n atk m range n) (XCk n atk m range n).
Proof.
  intros Hatk. rewrite hyb_run_eq.
  apply hyb_prefix; [exact Hatk|unfold hstart; destruct range; lia|lia].
Qed.

(* the witness valuation gives every created disjunction variable its meaning *)
Lemma wit_dmean F n range S s :
  compact_af F n -> cfs F S -> Inv n (hstart n range) s ->
  dmean (attackers F) (wit F n range (tbl s) S) (tbl s).
Proof.
  intros HF [Hincl Hcf] HI b d Hb.
  set (m := wit F n range (tbl s) S).
  assert (Hmd : m d = attacked_byb F S b).
  { apply wit_disj; [apply (inv_len _ _ _ HI)| |apply (inv_inj _ _ _ HI)|exact Hb].
    intros b' d' H'. pose proof (inv_rng _ _ _ HI b' d' H') as Hr.
    unfold hstart in Hr. destruct range; lia. }
  assert (Hm : forall c, c < n -> (m (exp_var c) = true <-> In c S)).
  { intros c Hc. now apply wit_Hm. }
  assert (Hbn : b < n).
  { destruct (le_lt_dec n b) as [Hge|Hlt]; [|exact Hlt].
    rewrite nth_overflow in Hb by (rewrite (inv_len _ _ _ HI); lia). discriminate. }
  unfold disj_sem. rewrite Hmd. split; [|split].
  - intros Hmb Hatt. apply attacked_byb_spec in Hatt. destruct Hatt as [c [Hc Hcb]].
    apply (Hcf c b); [exact Hc|now apply Hm|exact Hcb].
  - intros c Hc Hmc. apply attacked_byb_spec. exists c. split; [|now apply in_attackers].
    apply Hm; [exact (attackers_lt F n HF b c Hc)|exact Hmc].
  - intros Hatt. apply attacked_byb_spec in Hatt.
    apply (attacked_m_iff F n HF m S Hm Hincl). exact Hatt.
Qed.

(* ------------------------------------------------------------------ *)
(** * ExpCf *)

Lemma expcf_sound thr F n : compact_af F n -> enc_sound ExpCf thr F n.
Proof.
  intros HF C m HC Hm. rewrite (enc_clauses_compact ExpCf thr false F n HF) in HC.
  cbn [encode option_map snd] in HC. injection HC as <-. cbn [enc_base basep].
  rewrite vmodels_over_args in Hm.
  apply (sound_cf F n HF); [now left|]. intros a Ha. apply exp_cf_arg_spec. now apply Hm.
Qed.

Lemma expcf_range_sound thr F n : compact_af F n -> enc_range_sound ExpCf thr F n.
Proof.
  intros HF C m HC Hm. rewrite (enc_clauses_compact ExpCf thr true F n HF) in HC.
  cbn [encode option_map snd] in HC. injection HC as <-.
  rewrite vmodels_over_args in Hm.
  assert (H : forall a, a < n -> cf_sem (attackers F) m a /\ weak_range n (attackers F) m a).
  { intros a Ha. specialize (Hm a Ha). apply vmodels_app_iff in Hm. destruct Hm as [H1 H2].
    split; [now apply exp_cf_arg_spec|now apply exp_range_arg_spec]. }
  split.
  - cbn [enc_base basep]. apply (sound_cf F n HF); [now left|]. intros a Ha. apply (H a Ha).
  - intros i Hi Hr. apply (sound_range F n HF ExpCf m i); [now left|exact Hi|apply (H i Hi)|exact Hr].
Qed.

Lemma expcf_complete thr F n : compact_af F n -> enc_complete ExpCf thr F n.
Proof.
  intros HF C S HC HS. rewrite (enc_clauses_compact ExpCf thr false F n HF) in HC.
  cbn [encode option_map snd] in HC. injection HC as <-.
  cbn [enc_base basep] in HS. destruct HS as [Hincl Hcf].
  exists (wit F n false [] S). split.
  - apply vmodels_over_args. intros a Ha. apply exp_cf_arg_spec.
    exact (compl_cf F n HF _ S (wit_Hm F n false [] S) a Hcf Ha).
  - intros a Ha. exact (wit_Hm F n false [] S a Ha).
Qed.

Lemma expcf_range_complete thr F n : compact_af F n -> enc_range_complete ExpCf thr F n.
Proof.
  intros HF C S HC HS. rewrite (enc_clauses_compact ExpCf thr true F n HF) in HC.
  cbn [encode option_map snd] in HC. injection HC as <-.
  cbn [enc_base basep] in HS. destruct HS as [Hincl Hcf].
  exists (wit F n true [] S). split; [|split].
  - apply vmodels_over_args. intros a Ha. apply vmodels_app_iff. split.
    + apply exp_cf_arg_spec. exact (compl_cf F n HF _ S (wit_Hm F n true [] S) a Hcf Ha).
    + apply exp_range_arg_spec. apply full_weak.
      apply (compl_range F n HF _ S (wit_Hm F n true [] S) Hincl a Ha).
      exact (wit_range_iff F n [] S a Ha).
  - intros a Ha. exact (wit_Hm F n true [] S a Ha).
  - intros i Hi. exact (wit_range_iff F n [] S i Hi).
Qed.

(* ------------------------------------------------------------------ *)
(** * ExpCo *)

Lemma expco_sound thr F n : compact_af F n -> enc_sound ExpCo thr F n.
Proof.
  intros HF C m HC Hm. rewrite (enc_clauses_compact ExpCo thr false F n HF) in HC.
  cbn [encode option_map snd] in HC. injection HC as <-. cbn [enc_base basep].
  rewrite vmodels_over_args in Hm.
  apply (sound_co F n HF); [right; now left|]. intros a Ha. apply exp_co_arg_spec. now apply Hm.
Qed.

Lemma expco_range_sound thr F n : compact_af F n -> enc_range_sound ExpCo thr F n.
Proof.
  intros HF C m HC Hm. rewrite (enc_clauses_compact ExpCo thr true F n HF) in HC.
  cbn [encode option_map snd] in HC. injection HC as <-.
  rewrite vmodels_over_args in Hm.
  assert (H : forall a, a < n -> co_sem (attackers F) m a /\ weak_range n (attackers F) m a).
  { intros a Ha. specialize (Hm a Ha). apply vmodels_app_iff in Hm. destruct Hm as [H1 H2].
    split; [now apply exp_co_arg_spec|now apply exp_range_arg_spec]. }
  split.
  - cbn [enc_base basep]. apply (sound_co F n HF); [right; now left|]. intros a Ha. apply (H a Ha).
  - intros i Hi Hr.
    apply (sound_range F n HF ExpCo m i); [right; now left|exact Hi|apply (H i Hi)|exact Hr].
Qed.

Lemma co_incl F S : co F S -> incl S (args F).
Proof. intros [[H _] _]. exact H. Qed.

Lemma co_cfs F S : co F S -> cfs F S.
Proof. intros [[H1 [H2 _]] _]. now split. Qed.

Lemma expco_complete thr F n : compact_af F n -> enc_complete ExpCo thr F n.
Proof.
  intros HF C S HC HS. rewrite (enc_clauses_compact ExpCo thr false F n HF) in HC.
  cbn [encode option_map snd] in HC. injection HC as <-.
  cbn [enc_base basep] in HS. pose proof (co_incl F S HS) as Hincl.
  exists (wit F n false [] S). split.
  - apply vmodels_over_args. intros a Ha. apply exp_co_arg_spec.
    exact (compl_co F n HF _ S (wit_Hm F n false [] S) Hincl a HS Ha).
  - intros a Ha. exact (wit_Hm F n false [] S a Ha).
Qed.

Lemma expco_range_complete thr F n : compact_af F n -> enc_range_complete ExpCo thr F n.
Proof.
  intros HF C S HC HS. rewrite (enc_clauses_compact ExpCo thr true F n HF) in HC.
  cbn [encode option_map snd] in HC. injection HC as <-.
  cbn [enc_base basep] in HS. pose proof (co_incl F S HS) as Hincl.
  exists (wit F n true [] S). split; [|split].
  - apply vmodels_over_args. intros a Ha. apply vmodels_app_iff. split.
    + apply exp_co_arg_spec. exact (compl_co F n HF _ S (wit_Hm F n true [] S) Hincl a HS Ha).
    + apply exp_range_arg_spec. apply full_weak.
      apply (compl_range F n HF _ S (wit_Hm F n true [] S) Hincl a Ha).
      exact (wit_range_iff F n [] S a Ha).
  - intros a Ha. exact (wit_Hm F n true [] S a Ha).
  - intros i Hi. exact (wit_range_iff F n [] S i Hi).
Qed.

(* ------------------------------------------------------------------ *)
(** * HybCo *)

Lemma hybco_sound thr F n : compact_af F n -> enc_sound HybCo thr F n.
Proof.
  intros HF C m HC Hm. rewrite (enc_clauses_compact HybCo thr false F n HF) in HC.
  cbn [encode option_map snd] in HC. injection HC as <-. cbn [enc_base basep].
  destruct (hyb_final n (attackers F) thr false m (attackers_lt F n HF)) as [_ [HS _]].
  destruct (HS Hm) as [_ HX].
  apply (sound_co F n HF); [right; now right|]. intros a Ha. apply (HX a Ha).
Qed.

Lemma hybco_range_sound thr F n : compact_af F n -> enc_range_sound HybCo thr F n.
Proof.
  intros HF C m HC Hm. rewrite (enc_clauses_compact HybCo thr true F n HF) in HC.
  cbn [encode option_map snd] in HC. injection HC as <-.
  destruct (hyb_final n (attackers F) thr true m (attackers_lt F n HF)) as [_ [HS _]].
  destruct (HS Hm) as [_ HX]. split.
  - cbn [enc_base basep]. apply (sound_co F n HF); [right; now right|].
    intros a Ha. apply (HX a Ha).
  - intros i Hi Hr.
    apply (sound_range F n HF HybCo m i); [right; now right|exact Hi| |exact Hr].
    apply (HX i Hi). reflexivity.
Qed.

Lemma hybco_complete thr F n : compact_af F n -> enc_complete HybCo thr F n.
Proof.
  intros HF C S HC HS. rewrite (enc_clauses_compact HybCo thr false F n HF) in HC.
  cbn [encode option_map snd] in HC. injection HC as <-.
  cbn [enc_base basep] in HS. pose proof (co_incl F S HS) as Hincl.
  set (s := hyb_run n (attackers F) thr false).
  set (m := wit F n false (tbl s) S).
  destruct (hyb_final n (attackers F) thr false m (attackers_lt F n HF)) as [HI [_ HCm]].
  fold s in HI, HCm.
  assert (Hm : forall c, c < n -> (m (exp_var c) = true <-> In c S)).
  { intros c Hc. now apply wit_Hm. }
  exists m. split.
  - apply HCm. split.
    + apply (wit_dmean F n false S s HF (co_cfs F S HS) HI).
    + intros a Ha. split; [|discriminate].
      exact (compl_co F n HF m S Hm Hincl a HS Ha).
  - intros a Ha. exact (Hm a Ha).
Qed.

Lemma hybco_range_complete thr F n : compact_af F n -> enc_range_complete HybCo thr F n.
Proof.
  intros HF C S HC HS. rewrite (enc_clauses_compact HybCo thr true F n HF) in HC.
  cbn [encode option_map snd] in HC. injection HC as <-.
  cbn [enc_base basep] in HS. pose proof (co_incl F S HS) as Hincl.
  set (s := hyb_run n (attackers F) thr true).
  set (m := wit F n true (tbl s) S).
  destruct (hyb_final n (attackers F) thr true m (attackers_lt F n HF)) as [HI [_ HCm]].
  fold s in HI, HCm.
  assert (Hm : forall c, c < n -> (m (exp_var c) = true <-> In c S)).
  { intros c Hc. now apply wit_Hm. }
  exists m. split; [|split].
  - apply HCm. split.
    + apply (wit_dmean F n true S s HF (co_cfs F S HS) HI).
    + intros a Ha. split.
      * exact (compl_co F n HF m S Hm Hincl a HS Ha).
      * intros _. apply (compl_range F n HF m S Hm Hincl a Ha).
        exact (wit_range_iff F n (tbl s) S a Ha).
  - intros a Ha. exact (Hm a Ha).
  - intros i Hi. exact (wit_range_iff F n (tbl s) S i Hi).
Qed.

(* ------------------------------------------------------------------ *)
(** * Variable layout *)

Definition exp_vars (n : nat) (range : bool) (v : nat) : Prop :=
  (exists x, x < n /\ v = exp_var x) \/ (range = true /\ exists x, x < n /\ v = exp_range n x).

Lemma exp_vars_arg n range x : x < n -> exp_vars n range (exp_var x).
Proof. intros Hx. left. now exists x. Qed.

Lemma exp_vars_range n x : x < n -> exp_vars n true (exp_range n x).
Proof. intros Hx. right. split; [reflexivity|now exists x]. Qed.

Lemma expcf_lits thr range F n C :
  compact_af F n -> enc_clauses ExpCf thr range F = Some C -> cnf_in (exp_vars n range) C.
Proof.
  intros HF HC. rewrite (enc_clauses_compact ExpCf thr range F n HF) in HC.
  destruct range; cbn [encode option_map snd] in HC; injection HC as <-;
    apply cnf_in_over_args; intros a Ha.
  - apply cnf_in_app.
    + apply (exp_cf_arg_in n (attackers F) _ (attackers_lt F n HF) (exp_vars_arg n true) a Ha).
    + apply (exp_range_arg_in n (attackers F) _ (attackers_lt F n HF) (exp_vars_arg n true) a Ha).
      now apply exp_vars_range.
  - apply (exp_cf_arg_in n (attackers F) _ (attackers_lt F n HF) (exp_vars_arg n false) a Ha).
Qed.

Lemma expco_lits thr range F n C :
  compact_af F n -> enc_clauses ExpCo thr range F = Some C -> cnf_in (exp_vars n range) C.
Proof.
  intros HF HC. rewrite (enc_clauses_compact ExpCo thr range F n HF) in HC.
  destruct range; cbn [encode option_map snd] in HC; injection HC as <-;
    apply cnf_in_over_args; intros a Ha.
  - apply cnf_in_app.
    + apply (exp_co_arg_in n (attackers F) _ (attackers_lt F n HF) (exp_vars_arg n true) a Ha).
    + apply (exp_range_arg_in n (attackers F) _ (attackers_lt F n HF) (exp_vars_arg n true) a Ha).
      now apply exp_vars_range.
  - apply (exp_co_arg_in n (attackers F) _ (attackers_lt F n HF) (exp_vars_arg n false) a Ha).
Qed.

Lemma hybco_lits thr range F n C :
  compact_af F n -> enc_clauses HybCo thr range F = Some C -> cnf_in posv C.
Proof.
  intros HF HC. rewrite (enc_clauses_compact HybCo thr range F n HF) in HC.
  assert (HI : forall r, cnf_in posv (out (hyb_run n (attackers F) thr r))).
  { intros r.
    destruct (hyb_final n (attackers F) thr r (fun _ => true) (attackers_lt F n HF)) as [HI _].
    exact (inv_lits _ _ _ HI). }
  destruct range; cbn [encode option_map snd] in HC; injection HC as <-; apply HI.
Qed.

Lemma exp_vars_class e n range v :
  e = ExpCf \/ e = ExpCo -> exp_vars n range v -> var_class e n range v.
Proof.
  intros He [H|H]; [left|right; left]; destruct He as [-> | ->]; exact H.
Qed.

Lemma posv_class n range v : posv v -> var_class HybCo n range v.
Proof.
  unfold posv, var_class. intros Hv. cbn [arg_var range_var aux_zone].
  destruct (le_lt_dec v n) as [Hle|Hgt].
  - left. exists (v - 1). unfold exp_var. lia.
  - destruct range.
    + destruct (le_lt_dec v (2 * n)) as [Hle2|Hgt2].
      * right. left. split; [reflexivity|]. exists (v - n - 1). unfold exp_range. lia.
      * right. right. exact Hgt2.
    + right. right. exact Hgt.
Qed.

(* ------------------------------------------------------------------ *)
(** * The theorems for the whole family *)

Lemma exp_sound : forall e thr F n,
  is_exp_family e -> 1 <= thr -> compact_af F n -> enc_sound e thr F n.
Proof.
  intros e thr F n [-> | [-> | ->]] _ HF;
    [now apply expcf_sound|now apply expco_sound|now apply hybco_sound].
Qed.

Lemma exp_complete : forall e thr F n,
  is_exp_family e -> 1 <= thr -> compact_af F n -> enc_complete e thr F n.
Proof.
  intros e thr F n [-> | [-> | ->]] _ HF;
    [now apply expcf_complete|now apply expco_complete|now apply hybco_complete].
Qed.

Lemma exp_range_sound : forall e thr F n,
  is_exp_family e -> 1 <= thr -> compact_af F n -> enc_range_sound e thr F n.
Proof.
  intros e thr F n [-> | [-> | ->]] _ HF;
    [now apply expcf_range_sound|now apply expco_range_sound|now apply hybco_range_sound].
Qed.

Lemma exp_range_complete : forall e thr F n,
  is_exp_family e -> 1 <= thr -> compact_af F n -> enc_range_complete e thr F n.
Proof.
  intros e thr F n [-> | [-> | ->]] _ HF;
    [now apply expcf_range_complete|now apply expco_range_complete|now apply hybco_range_complete].
Qed.

Lemma exp_layout : forall e thr range F n,
  is_exp_family e -> 1 <= thr -> compact_af F n -> enc_layout e thr range F n.
Proof.
  intros e thr range F n He _ HF. unfold enc_layout.
  split; [|split; [|split; [|split; [|split; [|split]]]]].
  - intros C HC c l Hc Hl. destruct He as [-> | [-> | ->]].
    + destruct (expcf_lits thr range F n C HF HC c Hc l Hl) as [H0 HP].
      split; [exact H0|]. apply exp_vars_class; [now left|exact HP].
    + destruct (expco_lits thr range F n C HF HC c Hc l Hl) as [H0 HP].
      split; [exact H0|]. apply exp_vars_class; [now right|exact HP].
    + destruct (hybco_lits thr range F n C HF HC c Hc l Hl) as [H0 HP].
      split; [exact H0|]. now apply posv_class.
  - destruct He as [-> | [-> | ->]]; cbn [arg_var]; unfold exp_var; intros a b H; lia.
  - destruct He as [-> | [-> | ->]]; cbn [range_var]; unfold exp_range; intros a b H; lia.
  - destruct He as [-> | [-> | ->]]; cbn [arg_var]; unfold exp_var; intros a; lia.
  - destruct He as [-> | [-> | ->]]; cbn [arg_var range_var]; unfold exp_var, exp_range;
      intros a b Ha Hb; lia.
  - destruct He as [-> | [-> | ->]]; cbn [arg_var aux_zone]; unfold exp_var; intros a Ha;
      try tauto. destruct range; lia.
  - destruct He as [-> | [-> | ->]]; cbn [range_var aux_zone]; unfold exp_range; intros a Ha Hr;
      try tauto. subst range. lia.
Qed.

Lemma exp_a2e : forall e n, is_exp_family e -> a2e_ok e n.
Proof.
  intros e n He. apply a2e_generic.
  - intros v a Hv.
    destruct He as [-> | [-> | ->]]; cbn [arg_of_var arg_var]; cbv zeta; unfold exp_var;
      (destruct (v - 1 <? n) eqn:E; [apply Nat.ltb_lt in E|apply Nat.ltb_ge in E];
       split; intros H;
       [injection H as <-; lia|destruct H as [H1 H2]; f_equal; lia|discriminate|lia]).
  - intros a b Hab. destruct He as [-> | [-> | ->]]; cbn [arg_var]; unfold exp_var; lia.
Qed.

Print Assumptions exp_sound.
Print Assumptions exp_complete.
Print Assumptions exp_range_sound.
Print Assumptions exp_range_complete.
Print Assumptions exp_layout.
Print Assumptions exp_a2e.
