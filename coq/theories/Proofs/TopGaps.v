(* Two gaps of the whole-framework solver proofs closed:

   PART 1 (C18, replay fuel).  With an oracle that answers Unknown from its N-th answer on (the
   replay oracle [script_oracle script], N = length script) and fuel >= N + 2, NO run of
   [run_query] ends OutOfFuel - for every script (valid or not), every start state, every
   framework view, every entry point.  The replay driver's fuel 2 * N + 12 is therefore
   sufficient; N + 2 is the smallest fuel with this property ([replay_fuel_tight]).
   Reason: every iteration of the four fuel-driven loops (compute_maximal, pr_ds_loop, rg_loop,
   id_enum_loop) consumes at least one answer, except the one iteration that leaves state MInit
   and the last iteration of compute_maximal (state MMaximal); the fuel is per loop.

   PART 2 (C01, good view of ICCMA-built stores).  The store built by the correspondence driver
   for an ICCMA instance - [fw_new_with_labels] on the labels, then one [new_attack_by_ids] per
   attack line, duplicates kept - presents exactly the compact framework of the attack list:
   same live ids, same max id, same attack iterators (all, from, to; insertion order), hence
   [view_good], and [af_of] of the store IS that compact framework. *)
From Crusta Require Import Spec.AF Sat.Cnf Sat.Prog Model.Store Model.Encoders Model.Graph Model.Solvers.
From Crusta Require Import Spec.SemFacts Spec.Theory Spec.Invariance Proofs.Decomp.
From Crusta Require Import Proofs.ProgLaws Proofs.EncSpec Proofs.StoreBase Proofs.StoreProofs.
From Crusta Require Import Proofs.SolverBasics Proofs.CallBounds.
From Crusta Require Import Proofs.TopBase Proofs.TopMax Proofs.SolverTop.
From Crusta Require Proofs.GroundedProofs Proofs.CompProofs.
From Coq Require Import ZifyBool.
Import ListNotations.
Open Scope prog_scope.

(* ------------------------------------------------------------------------------------------ *)
(** * Part 1. Replay fuel *)

Section ReplayFuel.
Variable oracle : nat -> cnf -> list lit -> answer.
Variable thr : nat.
Variable N : nat.
(* the oracle has at most N answers *)
Hypothesis oracle_ends : forall i F a, N <= i -> oracle i F a = Unknown.

(* answers left *)
Definition left_of (s : Prog.st) : nat := N - calls s.

Notation wpn := (wp (fun _ => True) (fun _ => True) (fun _ => False)).

(* [m] never runs out of fuel; a completed run returns a value satisfying [Q] and has consumed at
   least [d] answers *)
Definition nfq {A} (d : nat) (Q : A -> Prop) (m : M A) : Prop :=
  forall s, wpn m (fun a s' => Q a /\ left_of s' + d <= left_of s) s.
Notation nf := (nfq 0 (fun _ => True)).

Lemma nfq_wp A d (Q : A -> Prop) (m : M A) s (R : A -> Prog.st -> Prop) :
  nfq d Q m -> (forall a s', Q a -> left_of s' + d <= left_of s -> R a s') -> wpn m R s.
Proof.
  intros Hm HR. eapply wp_mono; [|apply Hm]. intros a s' [H1 H2]. now apply HR.
Qed.

Lemma nfq_weaken A d d' (Q Q' : A -> Prop) (m : M A) :
  nfq d Q m -> d' <= d -> (forall a, Q a -> Q' a) -> nfq d' Q' m.
Proof.
  intros Hm Hd HQ s. apply (nfq_wp _ d Q); [exact Hm|]. intros a s' H1 H2. split; [auto|lia].
Qed.

Lemma nfq_ret A (a : A) (Q : A -> Prop) : Q a -> nfq 0 Q (ret a).
Proof. intros H s. apply wp_ret. split; [exact H|lia]. Qed.
Lemma nf_ret A (a : A) : nf (ret a).
Proof. now apply nfq_ret. Qed.
Lemma nfq_panic A d (Q : A -> Prop) : nfq d Q (@panic A).
Proof. intros s. exact I. Qed.
Lemma nfq_bind A B d1 d2 (Q1 : A -> Prop) (Q2 : B -> Prop) (m : M A) (k : A -> M B) :
  nfq d1 Q1 m -> (forall a, Q1 a -> nfq d2 Q2 (k a)) -> nfq (d1 + d2) Q2 (bind m k).
Proof.
  intros Hm Hk s. apply wp_bind. apply (nfq_wp _ d1 Q1); [exact Hm|]. intros a s' Ha Hs.
  apply (nfq_wp _ d2 Q2); [now apply Hk|]. intros b s'' Hb Hs'. split; [exact Hb|lia].
Qed.
Lemma nf_bind A B (m : M A) (k : A -> M B) : nf m -> (forall a, nf (k a)) -> nf (bind m k).
Proof. intros Hm Hk. apply (nfq_bind _ _ 0 0 (fun _ => True)); auto. Qed.
(* a strict step first, anything afterwards *)
Lemma nfq_bind_l A B (Q : B -> Prop) (m : M A) (k : A -> M B) :
  nfq 1 (fun _ => True) m -> (forall a, nfq 0 Q (k a)) -> nfq 1 Q (bind m k).
Proof. intros Hm Hk. apply (nfq_bind _ _ 1 0 (fun _ => True)); auto. Qed.
(* anything first, a strict step afterwards *)
Lemma nfq_bind_r A B (Q : B -> Prop) (m : M A) (k : A -> M B) :
  nf m -> (forall a, nfq 1 Q (k a)) -> nfq 1 Q (bind m k).
Proof. intros Hm Hk. apply (nfq_bind _ _ 0 1 (fun _ => True)); auto. Qed.

Lemma nf_new : nf new_solver.
Proof. intros s. apply wp_new_solver. split; [exact I|]. unfold left_of. cbn. lia. Qed.
Lemma nf_reserve n : nf (reserve n).
Proof. intros s. apply wp_reserve. split; [exact I|]. unfold left_of. cbn. lia. Qed.
Lemma nf_add c : nf (add_clause c).
Proof. intros s. apply wp_add_clause. split; [exact I|]. unfold left_of. cbn. lia. Qed.
Lemma nf_nvars : nf n_vars.
Proof. intros s. apply wp_n_vars. split; [exact I|]. unfold left_of. cbn. lia. Qed.
Lemma nf_adds cs : nf (add_clauses cs).
Proof.
  intros s. apply wp_add_clauses. split; [exact I|]. unfold left_of. rewrite st_adds_calls. lia.
Qed.
(* the one strict primitive: a solve consumes an answer, or aborts when none is left *)
Lemma nfs_solve a : nfq 1 (fun _ => True) (solve oracle a).
Proof.
  intros s. apply wp_solve. unfold answer_of.
  destruct (Nat.le_gt_cases N (calls s)) as [Hge|Hlt].
  - rewrite (oracle_ends _ _ _ Hge). exact I.
  - destruct (oracle (calls s) (rev (rclauses (sess s))) a); try exact I;
      (split; [exact I|]); unfold left_of; cbn [st_solved log_ev calls]; lia.
Qed.
Lemma nf_solve a : nf (solve oracle a).
Proof. apply (nfq_weaken _ 1 0 (fun _ => True)); [apply nfs_solve|lia|auto]. Qed.

Ltac nstep :=
  first
    [ apply nf_ret | apply nfq_panic | apply nf_new | apply nf_reserve | apply nf_add
    | apply nf_nvars | apply nf_solve | apply nf_adds | assumption
    | apply nf_bind; [|intros ?]
    | match goal with
      | |- nfq _ _ (match ?x with _ => _ end) => destruct x
      | |- nfq _ _ (if ?x then _ else _) => destruct x
      | |- nfq _ _ (let '(_, _) := ?x in _) => destruct x
      end ].
Ltac nauto := repeat nstep.

Lemma nf_encode e range F : nf (encode_m thr e range F).
Proof. unfold encode_m. nauto. Qed.
Lemma nfq_new_computer e n has g a2e fl :
  nfq 0 (fun c => c_state c = MInit) (new_computer e n has g a2e fl).
Proof.
  unfold new_computer. apply (nfq_bind _ _ 0 0 (fun _ => True)); [apply nf_nvars|intros nv _].
  now apply nfq_ret.
Qed.
Lemma nf_new_cc_computer e F fl : nf (new_cc_computer e F fl).
Proof.
  unfold new_cc_computer. eapply nfq_weaken; [apply nfq_new_computer|lia|auto].
Qed.
Lemma nfs_solve_c c a : nfq 1 (fun _ => True) (solve_c oracle c a).
Proof. unfold solve_c. apply nfq_bind_l; [apply nfs_solve|intros r; apply nf_ret]. Qed.
Lemma nf_increase c : nf (increase_assumptions c).
Proof. unfold increase_assumptions. nauto. Qed.
Lemma nf_discard_maximal c : nf (discard_maximal c).
Proof. unfold discard_maximal. nauto. Qed.
Lemma nf_discard_current c : nf (discard_current c).
Proof. unfold discard_current. nauto. Qed.

Definition started (c : computer) : Prop := c_state c <> MInit.

Lemma nfs_new_search c : nfq 1 started (new_search oracle c).
Proof.
  unfold new_search. apply (nfq_bind _ _ 1 0 (fun _ => True)); [apply nfs_solve_c|intros r _].
  apply nfq_ret. destruct r as [[m e]|]; discriminate.
Qed.

(* one step of the computer: the new state is never MInit; an answer is consumed unless the old
   state is MInit *)
Lemma nfs_compute_next c : started c -> nfq 1 started (compute_next oracle c).
Proof.
  unfold started, compute_next. intros Hc. destruct (c_state c).
  - apply nfq_bind_r; [apply nf_discard_maximal|intros _; apply nfs_new_search].
  - apply nfq_bind_r; [apply nf_increase|intros a].
    apply (nfq_bind _ _ 1 0 (fun _ => True)); [apply nfs_solve_c|intros r _].
    apply nfq_ret. destruct r as [[m e]|]; discriminate.
  - apply nfs_new_search.
  - apply nfq_panic.
  - now contradiction Hc.
Qed.
Lemma nfq_compute_next c : nfq 0 started (compute_next oracle c).
Proof.
  destruct (c_state c) eqn:E;
    try (apply (nfq_weaken _ 1 0 started started);
         [apply nfs_compute_next; unfold started; rewrite E; discriminate|lia|auto]).
  unfold compute_next. rewrite E. apply nfq_ret. discriminate.
Qed.
Lemma nfq_discard_current_search c : nfq 0 started (discard_current_search c).
Proof.
  unfold discard_current_search.
  apply (nfq_bind _ _ 0 0 (fun _ => True)); [apply nf_discard_current|intros _ _].
  apply nfq_ret. discriminate.
Qed.
Lemma nf_drop c : nf (drop c).
Proof. unfold drop. apply nf_add. Qed.

(* the fuel a loop needs: one unit per answer left, one for the last iteration, one more for the
   iteration that leaves MInit *)
Definition need (c : computer) (s : Prog.st) : nat :=
  left_of s + match c_state c with MInit => 2 | _ => 1 end.

Lemma need_started c s : started c -> need c s = left_of s + 1.
Proof. unfold started, need. destruct (c_state c); congruence. Qed.
Lemma need_le c s : need c s <= N + 2.
Proof. unfold need, left_of. destruct (c_state c); lia. Qed.

(* the common first step of every loop iteration *)
Lemma next_wp c s f (R : computer -> Prog.st -> Prop) :
  need c s <= S f ->
  (forall c' s', started c' -> left_of s' <= left_of s -> need c' s' <= f -> R c' s') ->
  wpn (compute_next oracle c) R s.
Proof.
  intros Hf HR. destruct (c_state c) eqn:E.
  1-4: apply (nfq_wp _ 1 started);
       [apply nfs_compute_next; unfold started; rewrite E; discriminate|];
       intros c' s' Hc' Hs'; apply HR; [exact Hc'|lia|];
       rewrite (need_started _ _ Hc'); unfold need in Hf; rewrite E in Hf; lia.
  apply (nfq_wp _ 0 started); [apply nfq_compute_next|].
  intros c' s' Hc' Hs'. apply HR; [exact Hc'|lia|].
  rewrite (need_started _ _ Hc'). unfold need in Hf. rewrite E in Hf. lia.
Qed.

Notation post s := (fun _ s' => True /\ left_of s' + 0 <= left_of s).

Lemma post_trans A (m : M A) s s0 :
  left_of s <= left_of s0 -> wpn m (post s) s -> wpn m (post s0) s.
Proof. intros H. apply wp_mono. intros a s' [_ H']. split; [exact I|lia]. Qed.

Lemma compute_maximal_nf : forall fuel c s, need c s <= fuel ->
  wpn (compute_maximal oracle fuel c) (post s) s.
Proof.
  induction fuel as [|f IH]; intros c s Hf; [unfold need in Hf; destruct (c_state c); lia|].
  cbn [compute_maximal].
  assert (Hnext : wpn (c' <- compute_next oracle c ;; compute_maximal oracle f c') (post s) s).
  { apply wp_bind. apply (next_wp c s f); [exact Hf|]. intros c' s' Hc' Hs' Hn.
    apply post_trans; [exact Hs'|]. now apply IH. }
  destruct (c_state c); try exact Hnext.
  apply (nf_bind _ _ (drop c) (fun _ => ret (c_cur c))); [apply nf_drop|intros _; apply nf_ret].
Qed.

Lemma pr_ds_loop_nf F la sc : forall fuel k s, need k s <= fuel ->
  wpn (pr_ds_loop oracle fuel F la sc k) (post s) s.
Proof.
  induction fuel as [|f IH]; intros k s Hf; [unfold need in Hf; destruct (c_state k); lia|].
  cbn [pr_ds_loop]. apply wp_bind. apply (next_wp k s f); [exact Hf|]. intros k' s' Hk' Hs' Hn.
  apply post_trans; [exact Hs'|].
  assert (Hdone : forall r : bool * option (list nat), wpn (drop k' ;;; ret r) (post s') s').
  { intros r. apply (nf_bind _ _ (drop k') (fun _ => ret r)); [apply nf_drop|intros _; apply nf_ret]. }
  destruct (c_state k') eqn:E; try (now apply IH).
  - destruct (negb (meets la (c_cur k'))); [apply Hdone|now apply IH].
  - destruct (meets la (c_cur k')).
    + apply wp_bind. apply (nfq_wp _ 0 started); [apply nfq_discard_current_search|].
      intros k'' s'' Hk'' Hs''. apply post_trans; [lia|]. apply IH.
      rewrite (need_started _ _ Hk''). rewrite (need_started _ _ Hk') in Hn. lia.
    + destruct (sc && _); [apply Hdone|now apply IH].
  - apply Hdone.
Qed.

Lemma rg_loop_nf e n la cred : forall fuel k s, need k s <= fuel ->
  wpn (rg_loop oracle fuel e n la cred k) (post s) s.
Proof.
  induction fuel as [|f IH]; intros k s Hf; [unfold need in Hf; destruct (c_state k); lia|].
  cbn [rg_loop]. apply wp_bind. apply (next_wp k s f); [exact Hf|]. intros k' s' Hk' Hs' Hn.
  apply post_trans; [exact Hs'|].
  assert (Hdone : forall (r : bool * option (list nat)) s1, wpn (drop k' ;;; ret r) (post s1) s1).
  { intros r s1. apply (nf_bind _ _ (drop k') (fun _ => ret r)); [apply nf_drop|intros _; apply nf_ret]. }
  assert (Hrec : forall s1, left_of s1 <= left_of s' ->
            wpn (rg_loop oracle f e n la cred k') (post s') s1).
  { intros s1 H1. apply post_trans; [exact H1|]. apply IH.
    rewrite (need_started _ _ Hk'). rewrite (need_started _ _ Hk') in Hn. lia. }
  destruct (c_state k') eqn:E; try (apply Hrec; lia).
  - destruct (_ || _); [apply Hdone|].
    destruct (split_in_range k') as [inrg notr]. destruct cred.
    + apply wp_bind. apply (nfq_wp _ 0 (fun _ => True)); [apply nf_nvars|]. intros nv s1 _ H1.
      apply wp_bind. apply (nfq_wp _ 0 (fun _ => True)); [apply nf_add|]. intros _ s2 _ H2.
      apply wp_bind. apply (nfq_wp _ 0 (fun _ => True)); [apply nf_solve|]. intros r s3 _ H3.
      apply wp_bind. apply (nfq_wp _ 0 (fun _ => True)); [apply nf_add|]. intros _ s4 _ H4.
      destruct r; [|apply Hrec; lia]. apply post_trans; [lia|apply Hdone].
    + apply wp_bind. apply (nfq_wp _ 0 (fun _ => True)); [apply nf_solve|]. intros r s3 _ H3.
      destruct r; [|apply Hrec; lia]. apply post_trans; [lia|apply Hdone].
  - apply Hdone.
Qed.

Lemma id_enum_loop_nf n ngr : forall fuel k ia nia np s, need k s <= fuel ->
  wpn (id_enum_loop oracle fuel n ngr k ia nia np) (post s) s.
Proof.
  induction fuel as [|f IH]; intros k ia nia np s Hf;
    [unfold need in Hf; destruct (c_state k); lia|].
  cbn [id_enum_loop]. apply wp_bind. apply (next_wp k s f); [exact Hf|]. intros k' s' Hk' Hs' Hn.
  apply post_trans; [exact Hs'|].
  assert (Hdone : forall r : list bool * nat * nat, wpn (drop k' ;;; ret r) (post s') s').
  { intros r. apply (nf_bind _ _ (drop k') (fun _ => ret r)); [apply nf_drop|intros _; apply nf_ret]. }
  destruct (c_state k') eqn:E; try (now apply IH).
  - cbv zeta. destruct (Nat.eqb _ ngr); [apply Hdone|now apply IH].
  - apply Hdone.
Qed.

(* from here on: fuel >= N + 2 *)
Variable fuel : nat.
Hypothesis fuel_enough : N + 2 <= fuel.

Lemma nf_compute_maximal c : nf (compute_maximal oracle fuel c).
Proof. intros s. apply compute_maximal_nf. pose proof (need_le c s). lia. Qed.
Lemma nf_pr_ds_loop F la sc k : nf (pr_ds_loop oracle fuel F la sc k).
Proof. intros s. apply pr_ds_loop_nf. pose proof (need_le k s). lia. Qed.
Lemma nf_rg_loop e n la cred k : nf (rg_loop oracle fuel e n la cred k).
Proof. intros s. apply rg_loop_nf. pose proof (need_le k s). lia. Qed.
Lemma nf_id_enum_loop n ngr k ia nia np : nf (id_enum_loop oracle fuel n ngr k ia nia np).
Proof. intros s. apply id_enum_loop_nf. pose proof (need_le k s). lia. Qed.

Lemma nf_ccs g : nf (ccs_m g).                 Proof. unfold ccs_m. nauto. Qed.
Lemma nf_remaining g s : nf (remaining_m g s). Proof. unfold remaining_m. nauto. Qed.
Lemma nf_merged g al : nf (merged_m g al).     Proof. unfold merged_m. nauto. Qed.
Lemma nf_locals c al : nf (locals_m c al).     Proof. unfold locals_m. nauto. Qed.
Lemma nf_for_ccs A l (acc : A) f : (forall a c, nf (f a c)) -> nf (for_ccs l acc f).
Proof.
  intros Hf. revert acc. induction l as [|c r IH]; intros acc; cbn [for_ccs]; [apply nf_ret|].
  apply nf_bind; [apply Hf|intros a; apply IH].
Qed.

Lemma nf_guarded e lam close : nf lam -> nf (guarded_disj oracle e lam close).
Proof.
  intros Hl. unfold guarded_disj. apply nf_bind; [apply nf_nvars|intros nv]. cbv zeta.
  apply nf_bind; [exact Hl|intros la]. apply nf_bind; [apply nf_add|intros _].
  apply nf_bind; [apply nf_solve|intros r].
  apply nf_bind; [destruct close; [apply nf_add|apply nf_ret]|intros _; apply nf_ret].
Qed.
Lemma nf_co_dc e g al : nf (co_dc oracle thr e g al).
Proof.
  unfold co_dc. apply nf_bind; [apply nf_new|intros _]. apply nf_bind; [apply nf_merged|intros sc].
  cbv zeta. apply nf_bind; [apply nf_encode|intros _].
  apply nf_bind; [apply nf_guarded, nf_locals|intros r; apply nf_ret].
Qed.
Lemma nf_co_dc_cert e g al : nf (co_dc_cert oracle thr e g al).
Proof.
  unfold co_dc_cert. apply nf_bind; [apply nf_merged|intros sc]. cbv zeta.
  apply nf_bind; [apply nf_new|intros _]. apply nf_bind; [apply nf_encode|intros _].
  apply nf_bind; [apply nf_guarded, nf_locals|intros r].
  destruct r; [|apply nf_ret]. apply nf_bind; [apply nf_remaining|intros o; apply nf_ret].
Qed.

Lemma nf_st_cc c in_cc pol : nf (st_cc oracle thr c in_cc pol).
Proof.
  unfold st_cc. apply nf_bind; [apply nf_new|intros _]. apply nf_bind; [apply nf_encode|intros _].
  destruct in_cc as [|x xs].
  - apply nf_bind; [apply nf_solve|intros m; apply nf_ret].
  - destruct pol.
    + apply nf_bind; [apply nf_guarded, nf_ret|intros m1]. destruct m1; [apply nf_ret|].
      apply nf_bind; [apply nf_solve|intros m2; apply nf_ret].
    + apply nf_bind; [apply nf_solve|intros m; apply nf_ret].
Qed.
Lemma nf_st_se g : nf (st_se oracle thr g).
Proof.
  unfold st_se. apply nf_bind; [apply nf_ccs|intros ccs].
  generalize (@nil nat) as merged.
  induction ccs as [|c r IH]; intros merged; cbn [st_se_loop]; [apply nf_ret|].
  apply nf_bind; [apply nf_st_cc|intros m]. destruct m as [[m acc]|]; [apply IH|apply nf_ret].
Qed.
Lemma nf_st_accept g al pol sou : nf (st_accept oracle thr g al pol sou).
Proof.
  unfold st_accept. apply nf_bind; [apply nf_ccs|intros ccs].
  generalize (negb pol) as found. generalize (@nil nat) as merged.
  induction ccs as [|c r IH]; intros merged found; cbn [st_accept_loop];
    [destruct found; apply nf_ret|].
  apply nf_bind; [apply nf_st_cc|intros m]. destruct m as [[m acc]|]; [apply IH|apply nf_ret].
Qed.

Lemma nf_pr_max_in_cc e c : nf (pr_max_in_cc oracle thr fuel e c).
Proof.
  unfold pr_max_in_cc. apply nf_bind; [apply nf_new|intros _]. apply nf_bind; [apply nf_encode|intros _].
  apply nf_bind; [apply nf_new_cc_computer|intros k].
  apply nf_bind; [apply nf_compute_maximal|intros l; apply nf_ret].
Qed.
Lemma nf_pr_se e g : nf (pr_se oracle thr fuel e g).
Proof.
  unfold pr_se. apply nf_bind; [apply nf_ccs|intros ccs].
  apply nf_bind; [|intros r; apply nf_ret]. apply nf_for_ccs. intros merged c.
  apply nf_bind; [apply nf_pr_max_in_cc|intros l; apply nf_ret].
Qed.
Lemma nf_pr_ds_in_cc e c al sc : nf (pr_ds_in_cc oracle thr fuel e c al sc).
Proof.
  unfold pr_ds_in_cc. apply nf_bind; [apply nf_locals|intros la]. apply nf_bind; [apply nf_new|intros _].
  apply nf_bind; [apply nf_encode|intros _]. apply nf_bind; [apply nf_new_cc_computer|intros k].
  apply nf_pr_ds_loop.
Qed.
Lemma nf_pr_ds e g al : nf (pr_ds oracle thr fuel e g al).
Proof.
  unfold pr_ds. apply nf_bind; [apply nf_merged|intros sc].
  apply nf_bind; [apply nf_pr_ds_in_cc|intros r; apply nf_ret].
Qed.
Lemma nf_pr_ds_cert e g al : nf (pr_ds_cert oracle thr fuel e g al).
Proof.
  unfold pr_ds_cert. apply nf_bind; [apply nf_merged|intros sc].
  apply nf_bind; [apply nf_pr_ds_in_cc|intros r].
  destruct r as [[|] [ce|]]; try apply nfq_panic; try apply nf_ret.
  apply nf_bind; [apply nf_remaining|intros others].
  apply nf_bind; [|intros m; apply nf_ret]. apply nf_for_ccs. intros merged c.
  apply nf_bind; [apply nf_pr_max_in_cc|intros l; apply nf_ret].
Qed.

Lemma nf_rg_max_in_cc e c : nf (rg_max_in_cc oracle thr fuel e c).
Proof.
  unfold rg_max_in_cc. apply nf_bind; [apply nf_new|intros _]. apply nf_bind; [apply nf_encode|intros _].
  apply nf_bind; [apply nf_new_cc_computer|intros k].
  apply nf_bind; [apply nf_compute_maximal|intros l; apply nf_ret].
Qed.
Lemma nf_rg_se e g : nf (rg_se oracle thr fuel e g).
Proof.
  unfold rg_se. apply nf_bind; [apply nf_ccs|intros ccs].
  apply nf_bind; [|intros r; apply nf_ret]. apply nf_for_ccs. intros merged c.
  apply nf_bind; [apply nf_rg_max_in_cc|intros l; apply nf_ret].
Qed.
Lemma nf_rg_in_cc e c al cred : nf (rg_in_cc oracle thr fuel e c al cred).
Proof.
  unfold rg_in_cc. apply nf_bind; [apply nf_locals|intros la]. apply nf_bind; [apply nf_new|intros _].
  apply nf_bind; [apply nf_encode|intros _]. apply nf_bind; [apply nf_new_cc_computer|intros k].
  apply nf_rg_loop.
Qed.
Lemma nf_rg_accept e g al cred : nf (rg_accept oracle thr fuel e g al cred).
Proof.
  unfold rg_accept. apply nf_bind; [apply nf_merged|intros sc].
  apply nf_bind; [apply nf_rg_in_cc|intros r; apply nf_ret].
Qed.
Lemma nf_rg_accept_cert e g al cred : nf (rg_accept_cert oracle thr fuel e g al cred).
Proof.
  unfold rg_accept_cert. apply nf_bind; [apply nf_merged|intros sc].
  apply nf_bind; [apply nf_rg_in_cc|intros r]. destruct (snd r); [|apply nf_ret].
  apply nf_bind; [apply nf_remaining|intros others].
  apply nf_bind; [|intros m; apply nf_ret]. apply nf_for_ccs. intros merged c.
  apply nf_bind; [apply nf_rg_max_in_cc|intros l'; apply nf_ret].
Qed.

Lemma nf_id_in_all e F ngr : nf (id_in_all oracle thr fuel e F ngr).
Proof.
  unfold id_in_all. apply nf_bind; [apply nf_encode|intros _].
  apply nf_bind; [apply nf_new_cc_computer|intros k]. apply nf_id_enum_loop.
Qed.
Lemma nf_id_maximal_allowed e F ia : nf (id_maximal_allowed oracle fuel e F ia).
Proof.
  unfold id_maximal_allowed. apply nf_bind; [apply nf_new_cc_computer|intros k]. apply nf_compute_maximal.
Qed.
Lemma nf_id_ext_for_cc e F : nf (id_ext_for_cc oracle thr fuel e F).
Proof.
  unfold id_ext_for_cc. cbv zeta. apply nf_bind; [apply nf_new|intros _].
  apply nf_bind; [apply nf_id_in_all|intros r]. destruct r as [[ia nia] np].
  destruct (Nat.eqb nia _); [apply nf_ret|]. destruct (Nat.eqb np 1); [apply nf_ret|].
  apply nf_id_maximal_allowed.
Qed.
Lemma nf_id_se e g : nf (id_se oracle thr fuel e g).
Proof.
  unfold id_se. apply nf_bind; [apply nf_ccs|intros ccs].
  apply nf_bind; [|intros r; apply nf_ret]. apply nf_for_ccs. intros merged c.
  apply nf_bind; [apply nf_new|intros _]. apply nf_bind; [apply nf_encode|intros _].
  apply nf_bind; [apply nf_id_ext_for_cc|intros l; apply nf_ret].
Qed.
Lemma nf_id_cred_for_cc e F la : nf (id_cred_for_cc oracle thr fuel e F la).
Proof.
  unfold id_cred_for_cc. cbv zeta. apply nf_bind; [apply nf_new|intros _].
  apply nf_bind; [apply nf_id_in_all|intros r]. destruct r as [[ia nia] np].
  destruct (forallb _ la); [apply nf_ret|].
  destruct (Nat.eqb nia _); [apply nf_ret|]. destruct (Nat.eqb np 1); [apply nf_ret|].
  apply nf_bind; [apply nf_id_maximal_allowed|intros l; apply nf_ret].
Qed.
Lemma nf_id_dc e g al : nf (id_dc oracle thr fuel e g al).
Proof.
  unfold id_dc. apply nf_bind; [apply nf_merged|intros sc]. apply nf_bind; [apply nf_locals|intros la].
  apply nf_bind; [apply nf_id_cred_for_cc|intros r; apply nf_ret].
Qed.
Lemma nf_id_dc_cert e g al : nf (id_dc_cert oracle thr fuel e g al).
Proof.
  unfold id_dc_cert. apply nf_bind; [apply nf_merged|intros sc]. apply nf_bind; [apply nf_locals|intros la].
  apply nf_bind; [apply nf_id_cred_for_cc|intros r].
  destruct r as [[|] [ce|]]; try apply nf_ret.
  apply nf_bind; [apply nf_remaining|intros others].
  apply nf_bind; [|intros m; apply nf_ret]. apply nf_for_ccs. intros merged c.
  apply nf_bind; [apply nf_id_ext_for_cc|intros l; apply nf_ret].
Qed.
Lemma nf_id_ds_cert e g al : nf (id_ds_cert oracle thr fuel e g al).
Proof.
  unfold id_ds_cert. apply nf_bind; [apply nf_id_se|intros r].
  destruct r; [|apply nfq_panic]. destruct (meets al l); apply nf_ret.
Qed.

Theorem run_query_nf s q cert e g al : nf (run_query oracle thr fuel s q cert e g al).
Proof.
  unfold run_query.
  destruct s, q; try apply nfq_panic; try apply nf_ret;
    try (destruct cert);
    repeat first
      [ apply nf_ret
      | apply nf_co_dc | apply nf_co_dc_cert | apply nf_st_se | apply nf_st_accept
      | apply nf_pr_se | apply nf_pr_ds | apply nf_pr_ds_cert | apply nf_rg_se | apply nf_rg_accept
      | apply nf_rg_accept_cert | apply nf_id_se | apply nf_id_dc | apply nf_id_dc_cert
      | apply nf_id_ds_cert
      | apply nf_bind; [|intros ?] ].
Qed.

End ReplayFuel.

(* the replay oracle *)
Lemma script_oracle_ends : forall script i F a,
  length script <= i -> script_oracle script i F a = Unknown.
Proof. intros script i F a H. unfold script_oracle. now apply nth_overflow. Qed.

(* every start state, fuel >= number of recorded answers + 2 *)
Theorem replay_fuel_general : forall script thr fuel s q cert e g al st0,
  length script + 2 <= fuel ->
  match run_query (script_oracle script) thr fuel s q cert e g al st0 with
  | OutOfFuel _ => False
  | _ => True
  end.
Proof.
  intros script thr fuel s q cert e g al st0 Hf.
  pose proof (run_query_nf (script_oracle script) thr (length script)
                (script_oracle_ends script) fuel Hf s q cert e g al st0) as H.
  unfold wp in H. destruct (run_query _ _ _ _ _ _ _ _ _ st0); auto.
Qed.

(* the fuel of the replay driver (driver/d_static.ml) *)
Theorem replay_fuel_suffices : forall script thr d s q cert e g al,
  match run d (run_query (script_oracle script) thr (2 * length script + 12) s q cert e g al) with
  | OutOfFuel _ => False
  | _ => True
  end.
Proof.
  intros script thr d s q cert e g al. unfold run. apply replay_fuel_general. lia.
Qed.

(* the driver's "preceding query" mode: two queries in sequence on the same script and fuel *)
Theorem replay_fuel_suffices_seq : forall script thr d s1 q1 cert1 e1 g1 al1 s q cert e g al,
  let fuel := 2 * length script + 12 in
  match run d (bind (run_query (script_oracle script) thr fuel s1 q1 cert1 e1 g1 al1)
                    (fun _ => run_query (script_oracle script) thr fuel s q cert e g al)) with
  | OutOfFuel _ => False
  | _ => True
  end.
Proof.
  intros script thr d s1 q1 cert1 e1 g1 al1 s q cert e g al fuel. unfold run.
  assert (Hf : length script + 2 <= fuel) by (unfold fuel; lia).
  assert (H : nfq (length script) 0 (fun _ => True)
                (bind (run_query (script_oracle script) thr fuel s1 q1 cert1 e1 g1 al1)
                      (fun _ => run_query (script_oracle script) thr fuel s q cert e g al))).
  { apply nf_bind; [|intros _];
      apply (run_query_nf _ thr _ (script_oracle_ends script) fuel Hf). }
  specialize (H (init_st d)). unfold wp in H.
  destruct (bind _ _ (init_st d)); auto.
Qed.

(* N + 2 cannot be lowered: one argument, no attack, PR-SE, script [Unsat]: the loop of
   compute_maximal runs MInit -> MIntermediate -> (Unsat) MMaximal -> return, 3 iterations *)
Example replay_fuel_tight :
  let script := [Unsat] in
  let g := view_of_af (compact 1 []) in
  (exists st', run CadicalLike (run_query (script_oracle script) 1 (length script + 1) PR QSE false
                                 AuxCo g []) = OutOfFuel st') /\
  (exists st', run CadicalLike (run_query (script_oracle script) 1 (length script + 2) PR QSE false
                                 AuxCo g []) = Done (OExt (Some [0])) st').
Proof. split; eexists; vm_compute; reflexivity. Qed.

(* ------------------------------------------------------------------------------------------ *)
(** * Part 2. Stores built by the ICCMA reader path: labels, then [new_attack_by_ids] per line *)

(* two views with the same observations *)
Definition view_same (g g' : gview) : Prop :=
  g_maxid g = g_maxid g' /\ g_ids g = g_ids g' /\
  (forall a, g_from g a = g_from g' a) /\ (forall a, g_to g a = g_to g' a) /\
  g_atts g = g_atts g'.

Lemma view_good_same g g' F : view_same g g' -> view_good g F -> view_good g' F.
Proof.
  intros (Hm & Hi & Hf & Ht & Ha) [Hg Hc]. split.
  - destruct Hg as (G1 & G2 & G3 & G4 & G5). unfold GroundedProofs.view_ok.
    rewrite <- Hi, <- Hm. repeat split.
    + exact G1.
    + apply G2.
    + apply G2.
    + exact G3.
    + intros a b. rewrite <- Hf, <- Ht. apply G4.
    + rewrite <- Hf. apply G5.
    + rewrite <- Hf. apply G5.
  - destruct Hc as [C1 C2 C3 C4 C5 C6]. constructor.
    + exact C1.
    + rewrite <- Hi. exact C2.
    + rewrite <- Hm, <- Hi. exact C3.
    + intros a b. rewrite <- Hf. apply C4.
    + intros a b. rewrite <- Ht. apply C5.
    + rewrite <- Ha. exact C6.
Qed.

(* list facts *)
Lemma fs_map_Some A (l : list A) : filter_some (map Some l) = l.
Proof. induction l as [|x r IH]; cbn [map filter_some]; [reflexivity|now rewrite IH]. Qed.

Lemma fs_length_le A (l : list (option A)) : length (filter_some l) <= length l.
Proof. induction l as [|[x|] r IH]; cbn [filter_some length]; lia. Qed.

Lemma fs_full A (l : list (option A)) :
  length (filter_some l) = length l -> map Some (filter_some l) = l.
Proof.
  induction l as [|[x|] r IH]; cbn [filter_some length map]; intros H.
  - reflexivity.
  - f_equal. apply IH. lia.
  - pose proof (fs_length_le A r). lia.
Qed.

Lemma map_fst_seq A (q : list (nat * A)) :
  (forall i p, nth_error q i = Some p -> fst p = i) -> map fst q = seq 0 (length q).
Proof.
  intros H. apply (nth_ext _ _ 0 0); [now rewrite map_length, seq_length|].
  intros i Hi. rewrite map_length in Hi. rewrite seq_nth by exact Hi. cbn [plus].
  destruct (nth_error q i) as [p|] eqn:E.
  - rewrite (nth_error_nth _ _ 0 (map_nth_error fst _ _ E)). now apply H.
  - apply nth_error_None in E. lia.
Qed.

Section IccmaStore.
Variable L : Type.
Variable leqb : L -> L -> bool.
Hypothesis leqb_spec : forall x y, leqb x y = true <-> x = y.

Notation fw := (fw L).
Notation init := (fw_new_with_labels L leqb).

(* one attack line of the ICCMA reader path (a rejected line leaves the store unchanged) *)
Definition add_by_ids (f : fw) (p : nat * nat) : fw :=
  fst (new_attack_by_ids L f (fst p) (snd p)).
Definition build_iccma (labels : list L) (lines : list (nat * nat)) : fw :=
  fold_left add_by_ids lines (init labels).
Definition line_okb (n : nat) (p : nat * nat) : bool := Nat.ltb (fst p) n && Nat.ltb (snd p) n.

(* ---------------- the label set ---------------- *)
Lemma init_lset_ok labels : lset_ok L (new_with_labels L leqb labels).
Proof.
  unfold new_with_labels. apply (fold_new_label_ok L leqb leqb_spec).
  unfold lset_ok. cbn [slots n_removed filter_some map length].
  split; [intros [|i] p Hi; discriminate|]. split; [constructor|]. split; reflexivity.
Qed.

Lemma lset_ok_len s : lset_ok L s -> ls_len L s = length (slots s).
Proof. intros (_ & _ & _ & H). unfold ls_len. rewrite H. lia. Qed.

Lemma lset_ok_ids s : lset_ok L s -> map fst (ls_iter L s) = seq 0 (length (slots s)).
Proof.
  intros (H1 & _ & H3 & _). unfold ls_iter. rewrite <- H3. apply map_fst_seq.
  intros i p Hp. apply (H1 i p). rewrite <- (fs_full _ _ H3).
  rewrite (nth_error_nth _ _ None (map_nth_error Some _ _ Hp)). reflexivity.
Qed.

Lemma lset_ok_max s : lset_ok L s ->
  ls_max_id L s = match length (slots s) with 0 => None | S k => Some k end.
Proof.
  intros _. unfold ls_max_id. destruct (slots s) as [|x r]; [reflexivity|].
  cbn [length]. f_equal. lia.
Qed.

(* distinct labels: one slot per label *)
Lemma find_label_In s l id : lset_ok L s ->
  find_label L leqb s l = Some id -> In l (map snd (filter_some (slots s))).
Proof.
  intros (H1 & _) Hf. pose proof (position_slot L leqb leqb_spec l _ id H1 Hf) as Hn.
  apply in_map_iff. exists (id, l). split; [reflexivity|]. apply In_fs_nth. now exists id.
Qed.

Lemma fold_new_label_length labels : forall s, lset_ok L s -> NoDup labels ->
  (forall l, In l labels -> ~ In l (map snd (filter_some (slots s)))) ->
  length (slots (fold_left (new_label L leqb) labels s)) = length (slots s) + length labels.
Proof.
  induction labels as [|l r IH]; intros s Hs Hnd Hfresh; cbn [fold_left length]; [lia|].
  inversion Hnd as [|? ? Hl Hr]; subst.
  assert (Hnone : find_label L leqb s l = None).
  { destruct (find_label L leqb s l) as [id|] eqn:E; [|reflexivity].
    exfalso. apply (Hfresh l (or_introl eq_refl)). exact (find_label_In s l id Hs E). }
  rewrite IH.
  - unfold new_label. rewrite Hnone. cbn [slots]. rewrite app_length. cbn [length]. lia.
  - apply (new_label_ok L leqb leqb_spec). exact Hs.
  - exact Hr.
  - intros l' Hl'. unfold new_label. rewrite Hnone. cbn [slots].
    rewrite fs_app, map_app. cbn [filter_some map snd]. intros Hin. apply in_app_or in Hin.
    destruct Hin as [Hin|[->|[]]]; [|contradiction].
    exact (Hfresh l' (or_intror Hl') Hin).
Qed.

Lemma init_n_arguments labels : NoDup labels -> n_arguments L (init labels) = length labels.
Proof.
  intros Hnd. unfold n_arguments, fw_new_with_labels, fw_new. cbn [ls].
  rewrite (lset_ok_len _ (init_lset_ok labels)). unfold new_with_labels.
  rewrite fold_new_label_length; [reflexivity| |exact Hnd|intros l _ []].
  unfold lset_ok. cbn [slots n_removed filter_some map length].
  split; [intros [|i] p Hi; discriminate|]. split; [constructor|]. split; reflexivity.
Qed.

(* ---------------- the attack tables: insertions only ---------------- *)
(* [f] holds the label set [s0] (n live labels) and exactly the attacks [l], in this order; the
   index vector of an argument lists the positions of its attacks in increasing order *)
Record built (s0 : lset L) (n : nat) (l : list (nat * nat)) (f : fw) : Prop := {
  b_ls : ls f = s0;
  b_atts : attacks f = map Some l;
  b_lfrom : length (afrom f) = n;
  b_lto : length (ato f) = n;
  b_ifrom : forall a k, In k (nth a (afrom f) []) -> k < length l;
  b_ito : forall a k, In k (nth a (ato f) []) -> k < length l;
  b_from : forall a, map (fun i => nth i (map Some l) None) (nth a (afrom f) []) =
                     map Some (filter (fun p => Nat.eqb (fst p) a) l);
  b_to : forall a, map (fun i => nth i (map Some l) None) (nth a (ato f) []) =
                   map Some (filter (fun p => Nat.eqb (snd p) a) l) }.

Lemma built_init s0 : built s0 (ls_len L s0) [] (fw_new L s0).
Proof.
  constructor; cbn [fw_new ls attacks afrom ato map filter length].
  - reflexivity.
  - reflexivity.
  - apply repeat_length.
  - apply repeat_length.
  - intros a k. rewrite nth_repeat. intros [].
  - intros a k. rewrite nth_repeat. intros [].
  - intros a. rewrite nth_repeat. reflexivity.
  - intros a. rewrite nth_repeat. reflexivity.
Qed.

Lemma idx_old (l : list (nat * nat)) p idx : (forall k, In k idx -> k < length l) ->
  map (fun i => nth i (map Some (l ++ [p])) None) idx = map (fun i => nth i (map Some l) None) idx.
Proof.
  intros H. apply map_ext_in. intros k Hk. rewrite map_app. apply app_nth1.
  rewrite map_length. now apply H.
Qed.
Lemma idx_new (l : list (nat * nat)) p : nth (length l) (map Some (l ++ [p])) None = Some p.
Proof.
  rewrite map_app. rewrite app_nth2 by (rewrite map_length; lia).
  rewrite map_length, Nat.sub_diag. reflexivity.
Qed.

(* the index vectors after one insertion, for a selector [sel] (source or target) *)
Lemma vec_step (sel : nat * nat -> nat) (l : list (nat * nat)) (p : nat * nat) (v : list (list nat)) :
  sel p < length v ->
  (forall a k, In k (nth a v []) -> k < length l) ->
  (forall a, map (fun i => nth i (map Some l) None) (nth a v []) =
             map Some (filter (fun q => Nat.eqb (sel q) a) l)) ->
  let v' := set_nth (sel p) (nth (sel p) v [] ++ [length l]) v in
  (forall a k, In k (nth a v' []) -> k < length (l ++ [p])) /\
  (forall a, map (fun i => nth i (map Some (l ++ [p])) None) (nth a v' []) =
             map Some (filter (fun q => Nat.eqb (sel q) a) (l ++ [p]))).
Proof.
  intros Hlt Hidx Hmap v'. unfold v'. split.
  - intros a k Hin. rewrite app_length. cbn [length].
    destruct (Nat.eq_dec a (sel p)) as [->|Hne].
    + rewrite nth_set_nth_eq in Hin by exact Hlt. apply in_app_or in Hin.
      destruct Hin as [Hin|[<-|[]]]; [|lia]. specialize (Hidx _ _ Hin). lia.
    + rewrite nth_set_nth_neq in Hin by congruence. specialize (Hidx _ _ Hin). lia.
  - intros a. rewrite filter_app. cbn [filter].
    destruct (Nat.eq_dec a (sel p)) as [->|Hne].
    + rewrite nth_set_nth_eq by exact Hlt. rewrite Nat.eqb_refl.
      rewrite (map_app (fun i => nth i (map Some (l ++ [p])) None)).
      rewrite idx_old by apply Hidx. rewrite Hmap. cbn [map]. rewrite idx_new.
      rewrite map_app. reflexivity.
    + rewrite nth_set_nth_neq by congruence.
      assert (E : Nat.eqb (sel p) a = false) by (apply Nat.eqb_neq; congruence).
      rewrite E, app_nil_r. rewrite idx_old by apply Hidx. apply Hmap.
Qed.

Lemma built_step s0 n l f p : ls_len L s0 = n -> built s0 n l f ->
  built s0 n (if line_okb n p then l ++ [p] else l) (add_by_ids f p).
Proof.
  intros Hn [B1 B2 B3 B4 B5 B6 B7 B8]. destruct p as [a b].
  unfold add_by_ids, new_attack_by_ids, line_okb. cbn [fst snd]. rewrite B1, Hn.
  destruct (Nat.leb n a || Nat.leb n b) eqn:E.
  - assert (E' : Nat.ltb a n && Nat.ltb b n = false) by lia. rewrite E'. cbn [fst].
    now constructor.
  - assert (E' : Nat.ltb a n && Nat.ltb b n = true) by lia. rewrite E'. cbn [fst].
    assert (Hk : length (attacks f) = length l) by (rewrite B2; apply map_length).
    rewrite Hk.
    destruct (vec_step fst l (a, b) (afrom f)) as [F1 F2]; [cbn [fst]; lia|exact B5|exact B7|].
    destruct (vec_step snd l (a, b) (ato f)) as [T1 T2]; [cbn [snd]; lia|exact B6|exact B8|].
    cbn [fst snd] in F1, F2, T1, T2.
    constructor; cbn [ls attacks afrom ato].
    + reflexivity.
    + rewrite B2, map_app. reflexivity.
    + now rewrite length_set_nth.
    + now rewrite length_set_nth.
    + exact F1.
    + exact T1.
    + exact F2.
    + exact T2.
Qed.

Lemma built_fold s0 n : ls_len L s0 = n -> forall lines l f, built s0 n l f ->
  built s0 n (l ++ filter (line_okb n) lines) (fold_left add_by_ids lines f).
Proof.
  intros Hn. induction lines as [|p r IH]; intros l f Hb; cbn [fold_left filter].
  - now rewrite app_nil_r.
  - pose proof (built_step s0 n l f p Hn Hb) as Hs. destruct (line_okb n p).
    + replace (l ++ p :: filter (line_okb n) r) with ((l ++ [p]) ++ filter (line_okb n) r)
        by (rewrite <- app_assoc; reflexivity).
      now apply IH.
    + now apply IH.
Qed.

(* the observations of a built store *)
Lemma built_iter_attacks s0 n l f : built s0 n l f -> iter_attacks L f = l.
Proof. intros B. unfold iter_attacks. rewrite (b_atts _ _ _ _ B). apply fs_map_Some. Qed.
Lemma built_iter_from s0 n l f a : built s0 n l f ->
  iter_attacks_from L f a = filter (fun p => Nat.eqb (fst p) a) l.
Proof.
  intros B. unfold iter_attacks_from. rewrite (b_atts _ _ _ _ B), (b_from _ _ _ _ B).
  apply fs_map_Some.
Qed.
Lemma built_iter_to s0 n l f a : built s0 n l f ->
  iter_attacks_to L f a = filter (fun p => Nat.eqb (snd p) a) l.
Proof.
  intros B. unfold iter_attacks_to. rewrite (b_atts _ _ _ _ B), (b_to _ _ _ _ B).
  apply fs_map_Some.
Qed.

Lemma line_okb_ok n lines : atts_ok n (filter (line_okb n) lines).
Proof.
  intros a b Hin. apply filter_In in Hin. destruct Hin as [_ H]. unfold line_okb in H.
  cbn [fst snd] in H. lia.
Qed.
Lemma line_okb_all n lines : atts_ok n lines -> filter (line_okb n) lines = lines.
Proof.
  intros H. induction lines as [|[a b] r IH]; cbn [filter]; [reflexivity|].
  destruct (H a b (or_introl eq_refl)) as [Ha Hb].
  unfold line_okb at 1. cbn [fst snd].
  assert (E : Nat.ltb a n && Nat.ltb b n = true) by lia. rewrite E. f_equal. apply IH.
  intros x y Hin. apply H. now right.
Qed.

(* the general form: any label list (repetitions are merged by new_with_labels), any lines (the
   lines with an id out of range are rejected by new_attack_by_ids and leave no trace) *)
Theorem iccma_store_general : forall labels lines,
  let f := build_iccma labels lines in
  let n := n_arguments L (init labels) in
  let F := compact n (filter (line_okb n) lines) in
  compact_af F n /\ view_same (view_of_af F) (view_of_fw f) /\
  CompProofs.af_of f = F /\ view_good (view_of_fw f) F.
Proof.
  intros labels lines f n F.
  pose proof (init_lset_ok labels) as Hls.
  set (s0 := new_with_labels L leqb labels) in *.
  assert (Hn : ls_len L s0 = n) by reflexivity.
  assert (B : built s0 n (filter (line_okb n) lines) f).
  { apply (built_fold s0 n Hn lines [] (fw_new L s0)). rewrite <- Hn. apply built_init. }
  assert (HF : compact_af F n) by (split; [reflexivity|apply line_okb_ok]).
  assert (Hlen : length (slots s0) = n) by (rewrite <- Hn; symmetry; apply lset_ok_len, Hls).
  assert (Hsame : view_same (view_of_af F) (view_of_fw f)).
  { unfold view_same, view_of_af, view_of_fw. cbn [g_maxid g_ids g_from g_to g_atts].
    unfold max_argument_id, live_ids, iter_args. rewrite (b_ls _ _ _ _ B).
    rewrite (lset_ok_max _ Hls), (lset_ok_ids _ Hls), Hlen.
    cbn [F compact args atts]. rewrite seq_length. repeat split.
    - intros a. now rewrite (built_iter_from _ _ _ _ a B).
    - intros a. now rewrite (built_iter_to _ _ _ _ a B).
    - now rewrite (built_iter_attacks _ _ _ _ B). }
  split; [exact HF|]. split; [exact Hsame|]. split.
  - unfold CompProofs.af_of, F, compact. f_equal.
    + unfold live_ids, iter_args. rewrite (b_ls _ _ _ _ B), (lset_ok_ids _ Hls), Hlen. reflexivity.
    + apply (built_iter_attacks _ _ _ _ B).
  - apply (view_good_same (view_of_af F)); [exact Hsame|]. exact (view_good_compact F n HF).
Qed.

(* the form of the brief: n distinct labels, lines over ids < n, duplicates and self-attacks
   allowed *)
Theorem iccma_store_good : forall labels lines,
  NoDup labels -> atts_ok (length labels) lines ->
  let f := fold_left (fun f p => fst (new_attack_by_ids L f (fst p) (snd p))) lines
                     (fw_new_with_labels L leqb labels) in
  let F := compact (length labels) lines in
  compact_af F (length labels) /\ CompProofs.af_of f = F /\ view_good (view_of_fw f) F.
Proof.
  intros labels lines Hnd Hok f F.
  destruct (iccma_store_general labels lines) as (H1 & _ & H3 & H4).
  rewrite (init_n_arguments labels Hnd), (line_okb_all _ _ Hok) in H1, H3, H4.
  split; [exact H1|]. split; [exact H3|exact H4].
Qed.

End IccmaStore.

(* hence the dispatcher theorem applies to the frameworks the correspondence driver builds *)
Corollary run_query_iccma : forall L (leqb : L -> L -> bool),
  (forall x y, leqb x y = true <-> x = y) ->
  forall labels lines, NoDup labels -> atts_ok (length labels) lines ->
  let f := fold_left (fun f p => fst (new_attack_by_ids L f (fst p) (snd p))) lines
                     (fw_new_with_labels L leqb labels) in
  let F := compact (length labels) lines in
  forall oracle thr s q e al fuel cert st0,
  valid_oracle oracle -> 1 <= thr -> supported s q -> enc_ok s e -> al_ok s q F al ->
  run_ok (run_query oracle thr fuel s q cert e (view_of_fw f) al st0) (calls st0)
         (total_bound s e (query_comps s q cert (view_of_fw f) al))
         (fuel_ok s e (query_comps s q cert (view_of_fw f) al) fuel)
         (outcome_spec s q cert F al).
Proof.
  intros L leqb Hl labels lines Hnd Hok f F oracle thr s q e al fuel cert st0 Hv Ht Hs He Ha.
  apply run_query_top.
  destruct (iccma_store_good L leqb Hl labels lines Hnd Hok) as (_ & _ & Hg).
  unfold query_ok. tauto.
Qed.

(* the hypotheses are satisfiable, duplicates and a self-attack included; the view of the store
   and the view of the compact framework compute the same grounded extension *)
Example iccma_example :
  let lines := [(0, 1); (1, 2); (0, 1); (2, 2); (1, 2)] in
  let f := fold_left (fun f p => fst (new_attack_by_ids nat f (fst p) (snd p))) lines
                     (fw_new_with_labels nat Nat.eqb [1; 2; 3]) in
  NoDup [1; 2; 3] /\ atts_ok 3 lines /\
  g_atts (view_of_fw f) = lines /\ g_from (view_of_fw f) 0 = [1; 1] /\
  g_to (view_of_fw f) 2 = [1; 2; 1] /\ grounded (view_of_fw f) = [0].
Proof.
  cbv zeta. split; [repeat constructor; cbn; intuition lia|].
  split; [intros a b H; cbn in H; intuition (try congruence);
          match goal with E : (_, _) = (_, _) |- _ => injection E as <- <-; lia end|].
  repeat split; vm_compute; reflexivity.
Qed.

Print Assumptions run_query_nf.
Print Assumptions replay_fuel_general.
Print Assumptions replay_fuel_suffices.
Print Assumptions replay_fuel_suffices_seq.
Print Assumptions replay_fuel_tight.
Print Assumptions view_good_same.
Print Assumptions iccma_store_general.
Print Assumptions iccma_store_good.
Print Assumptions run_query_iccma.
Print Assumptions iccma_example.
