(* Top-level correctness of [Solvers.run_query]: for every solver type, every kind of query and
   both certificate flags the model does not panic on by construction, every valid SAT oracle,
   every threshold >= 1, every admissible encoder and every view [g] of a framework [F]
   ([view_good g F]: compact frameworks and reachable stores are instances), the run
     - returns, when it completes, an answer that satisfies the specification [outcome_spec];
     - never panics;
     - makes at most [total_bound] SAT calls (sum over the components the query works on);
     - runs out of fuel only if the fuel is below the need of one of these components.
   No hypothesis about the graph algorithms is left: everything follows from [view_good]. *)
From Crusta Require Import Spec.AF Sat.Cnf Sat.Prog Model.Store Model.Encoders Model.Graph Model.Solvers.
From Crusta Require Import Spec.SemFacts Spec.Theory Spec.Invariance Proofs.Decomp.
From Crusta Require Import Proofs.ProgLaws Proofs.EncSpec Proofs.EncBase Proofs.EncAll
  Proofs.SolverBasics Proofs.SolverCc Proofs.SolverThms Proofs.CallBounds Proofs.SolverWhole.
From Crusta Require Import Proofs.MaxExtCore Proofs.MaxExtPref Proofs.MaxExtIdeal Proofs.MaxExtRange.
From Crusta Require Import Proofs.TopBase Proofs.TopMax.
From Crusta Require Proofs.GroundedProofs Proofs.SolverWholeEx.
From Coq Require Import ZifyBool.
Import ListNotations.
Open Scope prog_scope.

(* ------------------------------------------------------------------------------------------ *)
(** * The specification of [run_query] *)

(* the trait implementations that exist (for the others the model panics by construction) *)
Definition supported (s : sem) (q : query) : Prop :=
  match s, q with
  | CO, QSE | CO, QDS | PR, QDC => False
  | _, _ => True
  end.

Definition qpol (q : query) : bool := match q with QDC => true | _ => false end.

Definition outcome_spec (s : sem) (q : query) (cert : bool) (F : af) (al : list nat)
           (o : outcome) : Prop :=
  match q, o with
  | QSE, OExt r => se_spec s F r
  | QSE, OAcc _ _ => False
  | _, OAcc b c => acc_spec s (qpol q) cert F al (b, c)
  | _, OExt _ => False
  end.

(* premises on the listed arguments: none for single-extension queries and for GR / ST (unknown
   ids are ignored there); otherwise they must be arguments of F (the library panics on unknown
   ids).  The list may be empty and may contain repetitions. *)
Definition al_ok (s : sem) (q : query) (F : af) (al : list nat) : Prop :=
  match q with
  | QSE => True
  | _ => match s with
         | GR | ST => True
         | _ => forall a, In a al -> In a (args F)
         end
  end.

(* the components a query works on: all connected components, or the merged component of the
   listed arguments followed by the remaining connected components *)
Definition query_comps (s : sem) (q : query) (cert : bool) (g : gview) (al : list nat) : list comp :=
  match q, s with
  | QSE, _ | _, GR | _, ST => all_comps g
  | QDS, ID => if cert then all_comps g else merged_comps g al
  | _, _ => merged_comps g al
  end.

Theorem query_comps_decomp : forall g F s q cert al, view_good g F -> al_ok s q F al ->
  decomp_ok F (query_comps s q cert g al).
Proof.
  intros g F s q cert al Hvg Hal.
  destruct q, s, cert; cbn [query_comps al_ok] in *;
    try exact (all_comps_decomp g F Hvg);
    try (apply (merged_comps_decomp g F al Hvg); tauto).
Qed.

(* ------------------------------------------------------------------------------------------ *)
Section Top.
Variable oracle : nat -> cnf -> list lit -> answer.
Variable thr : nat.
Hypothesis Hthr : 1 <= thr.
Hypothesis Hvalid : valid_oracle oracle.

(** * Safety (no panic, call bounds) of the stable and the complete solver *)

Lemma st_cc_safe : forall c la pol s,
  run_ok (st_cc oracle thr c la pol s) (calls s) 2 True (fun _ => True).
Proof.
  intros c la pol s. pose proof (st_cc_calls oracle thr c la pol s) as Hc.
  assert (Hp : wp (fun _ => True) (fun _ => False) (fun _ => False) (st_cc oracle thr c la pol)
                  (fun _ _ => True) s).
  { unfold st_cc. destruct (encode_af_some thr StDefault (c_af c)) as [r [C HE]].
    rewrite wp_bind, wp_new_solver, wp_bind. rewrite (wp_encode_m thr _ _ _ StDefault false (c_af c) r C _ _ HE).
    destruct la as [|x xs].
    - rewrite wp_bind, wp_solve. destruct (answer_of oracle _ []); rewrite ?wp_ret; exact I.
    - destruct pol.
      + rewrite wp_bind. apply wp_guarded_calls; [|intros; exact I]. intros [m|] s2 _.
        * rewrite wp_ret. exact I.
        * rewrite wp_bind, wp_solve. destruct (answer_of oracle s2 []); rewrite ?wp_ret; exact I.
      + rewrite wp_bind, wp_solve. destruct (answer_of oracle _ _); rewrite ?wp_ret; exact I. }
  unfold wp in Hp. unfold run_ok. destruct (st_cc oracle thr c la pol s); try tauto.
Qed.

Lemma st_se_loop_safe : forall l merged s,
  run_ok (st_se_loop oracle thr l merged s) (calls s) (2 * length l) True (fun _ => True).
Proof.
  induction l as [|c r IH]; intros merged s; apply run_ok_intro; cbn [st_se_loop length].
  - rewrite wp_ret. split; [exact I|lia].
  - rewrite wp_bind. apply (wpK_run_ok _ _ _ _ _ _ _ _ _ (st_cc_safe c [] false s)); [lia|tauto|].
    intros [[m acc]|] s1 _ Hc1.
    + apply (wpK_run_ok _ _ _ _ _ _ _ _ _ (IH (merged ++ st_a2e c m) s1)); [lia|tauto|].
      intros a s2 _ Hc2. split; [exact I|lia].
    + rewrite wp_ret. split; [exact I|lia].
Qed.

Lemma st_accept_loop_safe : forall al pol sou l merged found s,
  run_ok (st_accept_loop oracle thr al pol sou l merged found s) (calls s) (2 * length l) True
         (fun _ => True).
Proof.
  intros al pol sou. induction l as [|c r IH]; intros merged found s; apply run_ok_intro;
    cbn [st_accept_loop length].
  - destruct found; rewrite wp_ret; (split; [exact I|lia]).
  - rewrite wp_bind. apply (wpK_run_ok _ _ _ _ _ _ _ _ _ (st_cc_safe c _ pol s)); [lia|tauto|].
    intros [[m acc]|] s1 _ Hc1.
    + apply (wpK_run_ok _ _ _ _ _ _ _ _ _ (IH (merged ++ st_a2e c m) (acc || found) s1)); [lia|tauto|].
      intros a s2 _ Hc2. split; [exact I|lia].
    + rewrite wp_ret. split; [exact I|lia].
Qed.

(* the query of the complete solver on the merged component *)
Lemma co_query_safe : forall e c al la close s, locals c al = Some la ->
  run_ok ((encode_m thr e false (c_af c) ;;; guarded_disj oracle e (locals_m c al) close) s)
         (calls s) 1 True (fun _ => True).
Proof.
  intros e c al la close s Hl. unfold locals_m. rewrite Hl.
  pose proof (co_query_calls oracle thr e (c_af c) la close s) as Hc.
  assert (Hp : wp (fun _ => True) (fun _ => False) (fun _ => False)
                  (encode_m thr e false (c_af c) ;;; guarded_disj oracle e (ret la) close)
                  (fun _ _ => True) s).
  { destruct (encode_af_some thr e (c_af c)) as [r [C HE]].
    rewrite wp_bind. rewrite (wp_encode_m thr _ _ _ e false (c_af c) r C _ _ HE).
    apply wp_guarded_calls; intros; exact I. }
  unfold wp in Hp. unfold run_ok.
  destruct ((encode_m thr e false (c_af c) ;;; guarded_disj oracle e (ret la) close) s); try tauto.
Qed.

(* ------------------------------------------------------------------------------------------ *)
Section Framework.
Variable F : af.
Variable g : gview.
Hypothesis Hvg : view_good g F.

Let Hwf : wf F := vg_wf g F Hvg.
Let Hcc := vg_cc g F Hvg.
Let Hmerged := vg_merged_whole g F Hvg.
Let Hgr := vg_gr g F Hvg.
Let Hgr_cc : forall ccs c, decomp_ok F ccs -> In c ccs -> gr (c_af c) (grounded (view_of_af (c_af c))) :=
  fun ccs c Hok Hc => proj1 (comp_gr F ccs c Hok Hc).
Let Hgr_cc_nd : forall ccs c, decomp_ok F ccs -> In c ccs -> NoDup (grounded (view_of_af (c_af c))) :=
  fun ccs c Hok Hc => proj2 (comp_gr F ccs c Hok Hc).

(** * The theorems of Proofs/SolverWhole.v with their graph hypotheses discharged *)
Corollary run_query_se_good : forall fuel s cert e al, s = GR \/ s = ST ->
  on_done (run_query oracle thr fuel s QSE cert e g al) (se_outcome s F).
Proof. exact (run_query_se_whole oracle thr Hthr Hvalid F g Hcc Hgr). Qed.

Corollary run_query_dc_good : forall fuel s cert e al,
  s = GR \/ s = ST \/
  (s = CO /\ enc_base e = BCo /\ al <> [] /\ forall a, In a al -> In a (args F)) ->
  on_done (run_query oracle thr fuel s QDC cert e g al) (dc_outcome s F al cert).
Proof. exact (run_query_dc_whole oracle thr Hthr Hvalid F g Hwf Hcc Hmerged Hgr Hgr_cc). Qed.

Corollary run_query_ds_good : forall fuel s cert e al, s = GR \/ s = ST ->
  on_done (run_query oracle thr fuel s QDS cert e g al) (ds_outcome s F al cert).
Proof. exact (run_query_ds_whole oracle thr Hthr Hvalid F g Hwf Hcc Hgr). Qed.

Corollary run_query_cert_nodup_good : forall fuel s q cert e al,
  q = QDC \/ q = QDS ->
  s = GR \/ s = ST \/
  (s = CO /\ q = QDC /\ enc_base e = BCo /\ al <> [] /\ forall a, In a al -> In a (args F)) ->
  on_done (run_query oracle thr fuel s q cert e g al)
    (fun o => match o with OAcc _ (Some L) => NoDup L | _ => True end).
Proof.
  exact (run_query_cert_nodup oracle thr Hthr Hvalid F g Hwf Hcc Hmerged Hgr Hgr_cc Hgr_cc_nd).
Qed.

(** * GR *)
Theorem gr_se_top : se_spec GR F (Some (gr_se g)).
Proof. exact (gr_se_whole F g Hgr). Qed.

Theorem gr_dc_top : forall al, acc_spec GR true true F al (gr_dc g al).
Proof.
  intros al. destruct (gr_dc g al) as [b c] eqn:E.
  destruct (gr_dc_whole F g Hwf Hgr al b c E) as [H1 H2]. unfold acc_spec. cbn [fst snd].
  split; [exact H1|]. destruct c as [L|]; [|intros _; exact H2].
  destruct H2 as [Hb [H3 [H4 [H5 H6]]]]. tauto.
Qed.

Theorem gr_ds_top : forall al, acc_spec GR false true F al (gr_ds g al).
Proof.
  intros al. destruct (gr_ds g al) as [b c] eqn:E.
  destruct (gr_ds_whole F g Hwf Hgr al b c E) as [H1 H2]. unfold acc_spec. cbn [fst snd].
  split; [exact H1|]. destruct c as [L|]; [|intros _; exact H2].
  destruct H2 as [Hb [H3 [H4 [H5 H6]]]]. tauto.
Qed.

(** * ST *)
Lemma total_bound_two : forall s e l, s = ST \/ s = CO -> total_bound s e l = 2 * length l.
Proof. intros s e l [-> | ->]; unfold total_bound; exact (sumB_const 2 l). Qed.

Theorem st_se_top : forall e fuel s,
  run_ok (st_se oracle thr g s) (calls s) (total_bound ST e (all_comps g))
         (fuel_ok ST e (all_comps g) fuel) (se_spec ST F).
Proof.
  intros e fuel s. apply run_ok_on_done.
  - destruct Hcc as [ccs [Hall Hok]]. rewrite (all_comps_eq g ccs Hall).
    rewrite (total_bound_two ST e ccs (or_introl eq_refl)).
    unfold st_se, ccs_m. rewrite Hall, bind_ret_l.
    exact (run_ok_weaken _ _ _ _ _ _ _ _ _ (le_n _) (fun _ => I) (fun a Ha => Ha) (st_se_loop_safe ccs [] s)).
  - intros s0. pose proof (st_se_whole oracle thr Hthr Hvalid F g Hcc s0) as H.
    destruct (st_se oracle thr g s0) as [[L|] s1| | |]; try exact I; cbn [se_spec ext]; [exact H|].
    split; [reflexivity|exact H].
Qed.

Lemma st_accept_safe : forall e fuel al pol sou s,
  run_ok (st_accept oracle thr g al pol sou s) (calls s) (total_bound ST e (all_comps g))
         (fuel_ok ST e (all_comps g) fuel) (fun _ => True).
Proof.
  intros e fuel al pol sou s. destruct Hcc as [ccs [Hall Hok]]. rewrite (all_comps_eq g ccs Hall).
  rewrite (total_bound_two ST e ccs (or_introl eq_refl)).
  unfold st_accept, ccs_m. rewrite Hall, bind_ret_l.
  exact (run_ok_weaken _ _ _ _ _ _ _ _ _ (le_n _) (fun _ => I) (fun a Ha => Ha)
           (st_accept_loop_safe al pol sou ccs [] (negb pol) s)).
Qed.

Theorem st_dc_top : forall e fuel al s,
  run_ok (st_dc oracle thr g al s) (calls s) (total_bound ST e (all_comps g))
         (fuel_ok ST e (all_comps g) fuel) (acc_spec ST true true F al).
Proof.
  intros e fuel al s. apply run_ok_on_done; [exact (st_accept_safe e fuel al true false s)|].
  intros s0. pose proof (st_dc_whole oracle thr Hthr Hvalid F g Hcc al s0) as H.
  destruct (st_dc oracle thr g al s0) as [[[|] [L|]] s1| | |]; try exact I; try contradiction;
    unfold acc_spec; cbn [fst snd negb].
  - destruct H as [H1 [H2 [H3 [H4 H5]]]]. split; [tauto|]. repeat (split; [assumption||reflexivity|]). exact H4.
  - split; [split; [discriminate|intros Hc; destruct (H Hc)]|reflexivity].
Qed.

Theorem st_ds_top : forall e fuel al s,
  run_ok (st_ds oracle thr g al s) (calls s) (total_bound ST e (all_comps g))
         (fuel_ok ST e (all_comps g) fuel) (acc_spec ST false true F al).
Proof.
  intros e fuel al s. apply run_ok_on_done; [exact (st_accept_safe e fuel al false true s)|].
  intros s0. pose proof (st_ds_whole oracle thr Hthr Hvalid F g Hcc al s0) as H.
  destruct (st_ds oracle thr g al s0) as [[[|] [L|]] s1| | |]; try exact I; try contradiction;
    unfold acc_spec; cbn [fst snd negb].
  - split; [tauto|reflexivity].
  - destruct H as [H1 [H2 [H3 [H4 H5]]]]. split; [split; [discriminate|intros Hc; destruct (H5 Hc)]|].
    repeat (split; [assumption||reflexivity|]). exact H4.
Qed.

(** * CO *)
Section Complete.
Variable e : enc.
Variable al : list nat.
Hypothesis He : enc_base e = BCo.
Hypothesis Hal : forall a, In a al -> In a (args F).

Lemma co_dc_safe : forall fuel s,
  run_ok (co_dc oracle thr e g al s) (calls s) (total_bound CO e (merged_comps g al))
         (fuel_ok CO e (merged_comps g al) fuel) (fun _ => True).
Proof.
  intros fuel s.
  destruct (vg_merged g F al Hvg Hal) as [s' [c [la [rest [Hm [Hl [Hmap [Hlt [Hrem Hok]]]]]]]]].
  rewrite (merged_comps_eq g al s' c rest Hm Hrem), (total_bound_two CO e _ (or_intror eq_refl)).
  cbn [length]. apply run_ok_intro. unfold co_dc, merged_m.
  rewrite wp_bind, wp_new_solver, Hm, wp_bind, wp_ret. cbv zeta. cbn [snd].
  rewrite wp_bind_assoc, wp_bind.
  apply (wpK_run_ok _ _ _ _ _ _ _ _ _ (co_query_safe e c al la true (st_new s) Hl));
    [cbn [calls st_new]; lia|tauto|].
  intros r s1 _ Hc1. rewrite wp_ret. cbn [calls st_new] in Hc1. split; [exact I|lia].
Qed.

Lemma co_dc_cert_safe : forall fuel s,
  run_ok (co_dc_cert oracle thr e g al s) (calls s) (total_bound CO e (merged_comps g al))
         (fuel_ok CO e (merged_comps g al) fuel) (fun _ => True).
Proof.
  intros fuel s.
  destruct (vg_merged g F al Hvg Hal) as [s' [c [la [rest [Hm [Hl [Hmap [Hlt [Hrem Hok]]]]]]]]].
  rewrite (merged_comps_eq g al s' c rest Hm Hrem), (total_bound_two CO e _ (or_intror eq_refl)).
  cbn [length]. apply run_ok_intro. unfold co_dc_cert, merged_m, remaining_m.
  rewrite Hm, wp_bind, wp_ret. cbv zeta. cbn [snd fst]. rewrite wp_bind, wp_new_solver, Hrem.
  rewrite wp_bind_assoc, wp_bind.
  apply (wpK_run_ok _ _ _ _ _ _ _ _ _ (co_query_safe e c al la false (st_new s) Hl));
    [cbn [calls st_new]; lia|tauto|].
  intros [m|] s1 _ Hc1; cbn [calls st_new] in Hc1.
  - rewrite wp_bind, !wp_ret. split; [exact I|lia].
  - rewrite wp_ret. split; [exact I|lia].
Qed.

(* the functional part, for every list of arguments of F (also the empty one) *)
Lemma co_dc_fun : on_done (co_dc oracle thr e g al) (fun b => b = true <-> cred CO F al).
Proof.
  destruct (vg_merged g F al Hvg Hal) as [s0 [c [la [rest [Hm [Hl [Hmap [Hlt [Hrem Hok]]]]]]]]].
  pose proof (comp_compact F (c :: rest) Hok c (or_introl eq_refl)) as HF.
  apply wpT_on_done. intros s. unfold co_dc, merged_m, locals_m.
  rewrite wp_bind, wp_new_solver, Hm, wp_bind, wp_ret. cbv zeta. cbn [snd]. rewrite Hl.
  rewrite wp_bind_assoc, wp_bind.
  eapply wp_mono;
    [|apply (cred_query_spec oracle thr Hthr Hvalid e (c_af c) (length (c_ids c)) HF la Hlt true
               (st_new s)); [apply cls_new|apply sb_new]].
  intros r s'' Hr. rewrite wp_ret. rewrite He in Hr. cbn [basep] in Hr.
  rewrite <- Hmap, (co_merged_local F c rest la Hok Hlt).
  destruct r as [m|].
  - split; [intros _|reflexivity]. destruct Hr as [H1 H2]. apply meets_spec in H2.
    destruct H2 as [a [Ha HaS]]. exists (assignment_to_extension (length (c_ids c)) e m).
    split; [exact H1|exists a; split; assumption].
  - split; [discriminate|]. intros [S [HS [a [Ha HaS]]]]. specialize (Hr S HS).
    pose proof (proj1 (meets_false la S) Hr a Ha). contradiction.
Qed.

Lemma co_dc_cert_fun : on_done (co_dc_cert oracle thr e g al) (acc_spec CO true true F al).
Proof.
  destruct (vg_merged g F al Hvg Hal) as [s0 [c [la [rest [Hm [Hl [Hmap [Hlt [Hrem Hok]]]]]]]]].
  pose proof (comp_compact F (c :: rest) Hok c (or_introl eq_refl)) as HF.
  pose proof (co_merged_local F c rest la Hok Hlt) as Hloc. rewrite Hmap in Hloc.
  intros s. pose proof (co_dc_cert_shape oracle thr Hthr Hvalid g e al s0 c rest la He Hm Hrem Hl HF Hlt s) as H.
  destruct (co_dc_cert oracle thr e g al s) as [[[|] [L|]] s'| | |]; try exact I; try contradiction;
    unfold acc_spec; cbn [fst snd negb].
  - destruct H as [X [-> [H1 [H2 H3]]]].
    assert (Hrest : Forall2 (fun c' S => ext CO (c_af c') S /\ NoDup S) rest
                      (map (fun oc => grounded (view_of_af (c_af oc))) rest)).
    { apply Forall2_map_same. intros oc Hoc. assert (Hoc' : In oc (c :: rest)) by now right.
      split; [exact (comp_gr_co F (c :: rest) oc Hok Hoc')|exact (proj2 (comp_gr F (c :: rest) oc Hok Hoc'))]. }
    destruct (glue_cert F c rest Hok CO X _ H1 H2 Hrest) as [HL [Hnd [Hincl Hiff]]].
    cbn [glue]. specialize (Hiff la Hlt). rewrite Hmap in Hiff. apply Hiff in H3.
    split; [split; [intros _|reflexivity]; eexists; split; [exact HL|exact H3]|].
    repeat (split; [assumption||reflexivity|]). exact H3.
  - split; [|reflexivity]. split; [discriminate|]. rewrite Hloc.
    intros [S [HS [a [Ha HaS]]]]. specialize (H S HS).
    pose proof (proj1 (meets_false la S) H a Ha). contradiction.
Qed.

Theorem co_dc_top : forall fuel s,
  run_ok (co_dc oracle thr e g al s) (calls s) (total_bound CO e (merged_comps g al))
         (fuel_ok CO e (merged_comps g al) fuel) (fun b => acc_spec CO true false F al (b, None)).
Proof.
  intros fuel s. apply run_ok_on_done; [exact (co_dc_safe fuel s)|].
  intros s0. pose proof (co_dc_fun s0) as H.
  destruct (co_dc oracle thr e g al s0) as [b s1| | |]; try exact I.
  unfold acc_spec. cbn [fst snd]. split; [exact H|discriminate].
Qed.

Theorem co_dc_cert_top : forall fuel s,
  run_ok (co_dc_cert oracle thr e g al s) (calls s) (total_bound CO e (merged_comps g al))
         (fuel_ok CO e (merged_comps g al) fuel) (acc_spec CO true true F al).
Proof. intros fuel s. apply run_ok_on_done; [exact (co_dc_cert_safe fuel s)|exact co_dc_cert_fun]. Qed.
End Complete.

(* ------------------------------------------------------------------------------------------ *)
(** * The dispatcher *)

Lemma wrap_se (m : M (option (list nat))) s c0 K fo sm cert al :
  run_ok (m s) c0 K fo (se_spec sm F) ->
  run_ok ((r <- m ;; ret (OExt r)) s) c0 K fo (outcome_spec sm QSE cert F al).
Proof. intros H. apply (run_ok_map _ _ _ OExt _ _ _ _ _ _ H). intros r Hr. exact Hr. Qed.

Lemma wrap_acc (m : M (bool * option (list nat))) s c0 K fo sm q al :
  q <> QSE -> run_ok (m s) c0 K fo (acc_spec sm (qpol q) true F al) ->
  run_ok ((r <- m ;; ret (OAcc (fst r) (snd r))) s) c0 K fo (outcome_spec sm q true F al).
Proof.
  intros Hq H. apply (run_ok_map _ _ _ (fun r => OAcc (fst r) (snd r)) _ _ _ _ _ _ H).
  intros [b c] Hr. destruct q; [congruence|exact Hr|exact Hr].
Qed.

Lemma acc_spec_drop sm pol al r :
  acc_spec sm pol true F al r -> acc_spec sm pol false F al (fst r, None).
Proof. intros [H _]. split; [exact H|discriminate]. Qed.

Lemma wrap_nocert (m : M (bool * option (list nat))) s c0 K fo sm q al :
  q <> QSE -> run_ok (m s) c0 K fo (acc_spec sm (qpol q) true F al) ->
  run_ok ((r <- m ;; ret (OAcc (fst r) None)) s) c0 K fo (outcome_spec sm q false F al).
Proof.
  intros Hq H. apply (run_ok_map _ _ _ (fun r => OAcc (fst r) None) _ _ _ _ _ _ H).
  intros r Hr. apply acc_spec_drop in Hr. destruct q; [congruence|exact Hr|exact Hr].
Qed.

Lemma wrap_accb (m : M bool) s c0 K fo sm q al :
  q <> QSE -> run_ok (m s) c0 K fo (fun b => acc_spec sm (qpol q) false F al (b, None)) ->
  run_ok ((r <- m ;; ret (OAcc r None)) s) c0 K fo (outcome_spec sm q false F al).
Proof.
  intros Hq H. apply (run_ok_map _ _ _ (fun r => OAcc r None) _ _ _ _ _ _ H).
  intros b Hr. destruct q; [congruence|exact Hr|exact Hr].
Qed.

Lemma run_ok_pure A (a : A) s K fo (Q : A -> Prop) : Q a -> run_ok (ret a s) (calls s) K fo Q.
Proof. intros H. split; [exact H|lia]. Qed.

Lemma enc_ok_rg s e : (s = SST \/ s = STG) -> enc_ok s e -> rg_sem s e.
Proof. intros [-> | ->] H; [left|right]; split; [reflexivity|exact H|reflexivity|exact H]. Qed.

Theorem run_query_correct : forall fuel s q cert e al st0,
  supported s q -> enc_ok s e -> al_ok s q F al ->
  run_ok (run_query oracle thr fuel s q cert e g al st0) (calls st0)
         (total_bound s e (query_comps s q cert g al))
         (fuel_ok s e (query_comps s q cert g al) fuel)
         (outcome_spec s q cert F al).
Proof.
  intros fuel s q cert e al st0 Hsup He Hal.
  destruct s, q; cbn [supported] in Hsup; try contradiction; clear Hsup;
    unfold run_query; cbv beta iota zeta; cbn [query_comps al_ok enc_ok] in *.
  - (* GR SE *) apply run_ok_pure. exact gr_se_top.
  - (* GR DC *)
    destruct cert; [apply wrap_acc|apply wrap_nocert]; try discriminate;
      apply run_ok_pure; exact (gr_dc_top al).
  - (* GR DS *)
    destruct cert; [apply wrap_acc|apply wrap_nocert]; try discriminate;
      apply run_ok_pure; exact (gr_ds_top al).
  - (* CO DC *)
    destruct cert.
    + apply wrap_acc; [discriminate|]. exact (co_dc_cert_top e al He Hal fuel st0).
    + apply wrap_accb; [discriminate|]. exact (co_dc_top e al He Hal fuel st0).
  - (* PR SE *) apply wrap_se. exact (pr_se_top oracle thr Hthr Hvalid F g Hvg fuel e st0 He).
  - (* PR DS *)
    destruct cert.
    + apply wrap_acc; [discriminate|].
      exact (pr_ds_cert_top oracle thr Hthr Hvalid F g Hvg al Hal fuel e st0 He).
    + apply wrap_accb; [discriminate|].
      exact (pr_ds_top oracle thr Hthr Hvalid F g Hvg al Hal fuel e st0 He).
  - (* ST SE *) apply wrap_se. exact (st_se_top e fuel st0).
  - (* ST DC *)
    destruct cert; [apply wrap_acc|apply wrap_nocert]; try discriminate; exact (st_dc_top e fuel al st0).
  - (* ST DS *)
    destruct cert; [apply wrap_acc|apply wrap_nocert]; try discriminate; exact (st_ds_top e fuel al st0).
  - (* SST SE *) apply wrap_se.
    exact (rg_se_top oracle thr Hthr Hvalid F g Hvg SST fuel e st0 (enc_ok_rg SST e (or_introl eq_refl) He)).
  - (* SST DC *)
    pose proof (enc_ok_rg SST e (or_introl eq_refl) He) as Hrg. destruct cert.
    + apply wrap_acc; [discriminate|].
      exact (rg_accept_cert_top oracle thr Hthr Hvalid F g Hvg al Hal SST fuel e true st0 Hrg).
    + apply wrap_accb; [discriminate|].
      exact (rg_accept_top oracle thr Hthr Hvalid F g Hvg al Hal SST fuel e true st0 Hrg).
  - (* SST DS *)
    pose proof (enc_ok_rg SST e (or_introl eq_refl) He) as Hrg. destruct cert.
    + apply wrap_acc; [discriminate|].
      exact (rg_accept_cert_top oracle thr Hthr Hvalid F g Hvg al Hal SST fuel e false st0 Hrg).
    + apply wrap_accb; [discriminate|].
      exact (rg_accept_top oracle thr Hthr Hvalid F g Hvg al Hal SST fuel e false st0 Hrg).
  - (* STG SE *) apply wrap_se.
    exact (rg_se_top oracle thr Hthr Hvalid F g Hvg STG fuel e st0 (enc_ok_rg STG e (or_intror eq_refl) He)).
  - (* STG DC *)
    pose proof (enc_ok_rg STG e (or_intror eq_refl) He) as Hrg. destruct cert.
    + apply wrap_acc; [discriminate|].
      exact (rg_accept_cert_top oracle thr Hthr Hvalid F g Hvg al Hal STG fuel e true st0 Hrg).
    + apply wrap_accb; [discriminate|].
      exact (rg_accept_top oracle thr Hthr Hvalid F g Hvg al Hal STG fuel e true st0 Hrg).
  - (* STG DS *)
    pose proof (enc_ok_rg STG e (or_intror eq_refl) He) as Hrg. destruct cert.
    + apply wrap_acc; [discriminate|].
      exact (rg_accept_cert_top oracle thr Hthr Hvalid F g Hvg al Hal STG fuel e false st0 Hrg).
    + apply wrap_accb; [discriminate|].
      exact (rg_accept_top oracle thr Hthr Hvalid F g Hvg al Hal STG fuel e false st0 Hrg).
  - (* ID SE *) apply wrap_se. exact (id_se_top oracle thr Hthr Hvalid F g Hvg fuel e st0 He).
  - (* ID DC *)
    destruct cert.
    + apply wrap_acc; [discriminate|].
      exact (id_dc_cert_top oracle thr Hthr Hvalid F g Hvg al Hal fuel e st0 He).
    + apply wrap_accb; [discriminate|].
      exact (id_dc_top oracle thr Hthr Hvalid F g Hvg al Hal true fuel e st0 He).
  - (* ID DS *)
    destruct cert.
    + apply wrap_acc; [discriminate|].
      exact (id_ds_cert_top oracle thr Hthr Hvalid F g Hvg al fuel e st0 He).
    + apply wrap_accb; [discriminate|].
      exact (id_dc_top oracle thr Hthr Hvalid F g Hvg al Hal false fuel e st0 He).
Qed.

End Framework.
End Top.

(* ------------------------------------------------------------------------------------------ *)
(** * The statements re-exported by the Properties files *)

(* the premises common to all of them *)
Definition query_ok (oracle : nat -> cnf -> list lit -> answer) (thr : nat) (g : gview) (F : af)
           (s : sem) (q : query) (e : enc) (al : list nat) : Prop :=
  valid_oracle oracle /\ 1 <= thr /\ view_good g F /\ supported s q /\ enc_ok s e /\ al_ok s q F al.

Theorem run_query_top : forall oracle thr g F s q e al fuel cert st0,
  query_ok oracle thr g F s q e al ->
  run_ok (run_query oracle thr fuel s q cert e g al st0) (calls st0)
         (total_bound s e (query_comps s q cert g al))
         (fuel_ok s e (query_comps s q cert g al) fuel)
         (outcome_spec s q cert F al).
Proof.
  intros oracle thr g F s q e al fuel cert st0 (Hv & Ht & Hg & Hs & He & Ha).
  exact (run_query_correct oracle thr Ht Hv F g Hg fuel s q cert e al st0 Hs He Ha).
Qed.

(* C01: single-extension answers *)
Theorem single_extension : forall oracle thr g F s e al fuel cert st0,
  query_ok oracle thr g F s QSE e al ->
  match run_query oracle thr fuel s QSE cert e g al st0 with
  | Done (OExt (Some L)) _ => ext s F L /\ NoDup L /\ incl L (args F)
  | Done (OExt None) _ => s = ST /\ forall S, ~ ext s F S
  | Done (OAcc _ _) _ => False
  | Panic _ => False
  | _ => True
  end.
Proof.
  intros oracle thr g F s e al fuel cert st0 H.
  pose proof (run_query_top oracle thr g F s QSE e al fuel cert st0 H) as R. unfold run_ok in R.
  destruct (run_query oracle thr fuel s QSE cert e g al st0) as [[[L|]|b c] s1|s1|s1|s1]; try exact I;
    try exact R; destruct R as [R _]; exact R.
Qed.

(* C02 / C07: credulous acceptance of a list of arguments *)
Theorem credulous : forall oracle thr g F s e al fuel cert st0,
  query_ok oracle thr g F s QDC e al ->
  match run_query oracle thr fuel s QDC cert e g al st0 with
  | Done (OAcc b _) _ => b = true <-> cred s F al
  | Done (OExt _) _ => False
  | Panic _ => False
  | _ => True
  end.
Proof.
  intros oracle thr g F s e al fuel cert st0 H.
  pose proof (run_query_top oracle thr g F s QDC e al fuel cert st0 H) as R. unfold run_ok in R.
  destruct (run_query oracle thr fuel s QDC cert e g al st0) as [[r|b c] s1|s1|s1|s1]; try exact I;
    try exact R; destruct R as [R _]; [exact R|]. exact (proj1 R).
Qed.

(* C03 / C07: skeptical acceptance of a list of arguments *)
Theorem skeptical : forall oracle thr g F s e al fuel cert st0,
  query_ok oracle thr g F s QDS e al ->
  match run_query oracle thr fuel s QDS cert e g al st0 with
  | Done (OAcc b _) _ => b = true <-> skep s F al
  | Done (OExt _) _ => False
  | Panic _ => False
  | _ => True
  end.
Proof.
  intros oracle thr g F s e al fuel cert st0 H.
  pose proof (run_query_top oracle thr g F s QDS e al fuel cert st0 H) as R. unfold run_ok in R.
  destruct (run_query oracle thr fuel s QDS cert e g al st0) as [[r|b c] s1|s1|s1|s1]; try exact I;
    try exact R; destruct R as [R _]; [exact R|]. exact (proj1 R).
Qed.

(* C04: certificates *)
Theorem certificates : forall oracle thr g F s q e al fuel cert st0,
  query_ok oracle thr g F s q e al -> q <> QSE ->
  match run_query oracle thr fuel s q cert e g al st0 with
  | Done (OAcc b (Some L)) _ =>
      cert = true /\ b = qpol q /\ ext s F L /\ NoDup L /\ incl L (args F) /\
      (if qpol q then exists a, In a al /\ In a L else forall a, In a al -> ~ In a L)
  | Done (OAcc b None) _ => cert = true -> b = negb (qpol q)
  | Done (OExt _) _ => False
  | Panic _ => False
  | _ => True
  end.
Proof.
  intros oracle thr g F s q e al fuel cert st0 H Hq.
  pose proof (run_query_top oracle thr g F s q e al fuel cert st0 H) as R. unfold run_ok in R.
  destruct (run_query oracle thr fuel s q cert e g al st0) as [[r|b c] s1|s1|s1|s1]; try exact I;
    try exact R; destruct R as [R _]; destruct q; try congruence; try exact R;
    destruct R as [_ R]; cbn [snd fst] in R; destruct c; exact R.
Qed.

(* C07: the answer to a list is the disjunction over its members *)
Lemma cred_list_disj : forall s F al, cred s F al <-> exists a, In a al /\ cred s F [a].
Proof.
  intros s F al. unfold cred. split.
  - intros [S [HS [a [Ha HaS]]]]. exists a. split; [exact Ha|]. exists S. split; [exact HS|].
    exists a. split; [now left|exact HaS].
  - intros [a [Ha [S [HS [a' [[<-|[]] HaS]]]]]]. exists S. split; [exact HS|]. now exists a.
Qed.

Theorem lists : forall oracle thr g F s q e al fuel cert st0,
  query_ok oracle thr g F s q e al -> q <> QSE ->
  match run_query oracle thr fuel s q cert e g al st0 with
  | Done (OAcc b _) _ =>
      b = true <-> if qpol q then exists a, In a al /\ cred s F [a]
                   else forall S, ext s F S -> exists a, In a al /\ In a S
  | Done (OExt _) _ => False
  | Panic _ => False
  | _ => True
  end.
Proof.
  intros oracle thr g F s q e al fuel cert st0 H Hq.
  pose proof (run_query_top oracle thr g F s q e al fuel cert st0 H) as R. unfold run_ok in R.
  destruct (run_query oracle thr fuel s q cert e g al st0) as [[r|b c] s1|s1|s1|s1]; try exact I;
    try exact R; destruct R as [R _]; destruct q; try congruence; try exact R;
    destruct R as [R _]; cbn [fst qpol] in *.
  - rewrite R. apply cred_list_disj.
  - exact R.
Qed.

(* C18: number of SAT calls of every run, whatever its kind; no panic *)
Theorem call_bound : forall oracle thr g F s q e al fuel cert st0,
  query_ok oracle thr g F s q e al ->
  match run_query oracle thr fuel s q cert e g al st0 with
  | Done _ s' | Abort s' | OutOfFuel s' =>
      calls s' <= calls st0 + total_bound s e (query_comps s q cert g al)
  | Panic _ => False
  end.
Proof.
  intros oracle thr g F s q e al fuel cert st0 H.
  pose proof (run_query_top oracle thr g F s q e al fuel cert st0 H) as R. unfold run_ok in R.
  destruct (run_query oracle thr fuel s q cert e g al st0); tauto.
Qed.

(* C18: the fuel that suffices *)
Theorem terminates : forall oracle thr g F s q e al fuel cert st0,
  query_ok oracle thr g F s q e al ->
  2 * total_bound s e (query_comps s q cert g al) + 4 <= fuel ->
  match run_query oracle thr fuel s q cert e g al st0 with
  | OutOfFuel _ | Panic _ => False
  | _ => True
  end.
Proof.
  intros oracle thr g F s q e al fuel cert st0 H Hf.
  pose proof (run_query_top oracle thr g F s q e al fuel cert st0 H) as R. unfold run_ok in R.
  pose proof (fuel_ok_sum s e _ fuel Hf) as Hfo.
  destruct (run_query oracle thr fuel s q cert e g al st0); tauto.
Qed.

Theorem terminates_per_component : forall oracle thr g F s q e al fuel cert st0,
  query_ok oracle thr g F s q e al ->
  (forall c, In c (query_comps s q cert g al) -> 2 * comp_bound s e c + 4 <= fuel) ->
  match run_query oracle thr fuel s q cert e g al st0 with
  | OutOfFuel _ | Panic _ => False
  | _ => True
  end.
Proof.
  intros oracle thr g F s q e al fuel cert st0 H Hf.
  pose proof (run_query_top oracle thr g F s q e al fuel cert st0 H) as R. unfold run_ok in R.
  destruct (run_query oracle thr fuel s q cert e g al st0); tauto.
Qed.

(* C06: the status is a function of (semantics, kind of query, framework, arguments): any two
   completed runs agree, whatever the oracles, thresholds, fuels, encoders, certificate flags,
   views of the framework and start states *)
Theorem status_function_of_semantics :
  forall o1 o2 thr1 thr2 g1 g2 F s q e1 e2 al fuel1 fuel2 cert1 cert2 st1 st2 b1 c1 t1 b2 c2 t2,
  query_ok o1 thr1 g1 F s q e1 al -> query_ok o2 thr2 g2 F s q e2 al -> q <> QSE ->
  run_query o1 thr1 fuel1 s q cert1 e1 g1 al st1 = Done (OAcc b1 c1) t1 ->
  run_query o2 thr2 fuel2 s q cert2 e2 g2 al st2 = Done (OAcc b2 c2) t2 ->
  b1 = b2.
Proof.
  intros o1 o2 thr1 thr2 g1 g2 F s q e1 e2 al fuel1 fuel2 cert1 cert2 st1 st2 b1 c1 t1 b2 c2 t2
         H1 H2 Hq E1 E2.
  pose proof (run_query_top o1 thr1 g1 F s q e1 al fuel1 cert1 st1 H1) as R1.
  pose proof (run_query_top o2 thr2 g2 F s q e2 al fuel2 cert2 st2 H2) as R2.
  rewrite E1 in R1. rewrite E2 in R2. destruct R1 as [R1 _]. destruct R2 as [R2 _].
  destruct q; [congruence| |]; cbn [outcome_spec] in R1, R2;
    destruct R1 as [R1 _]; destruct R2 as [R2 _]; cbn [fst qpol] in R1, R2;
    (assert (Hb : b1 = true <-> b2 = true) by (rewrite R1, R2; reflexivity));
    destruct b1, b2; try reflexivity; [symmetry; now apply Hb|now apply Hb|symmetry; now apply Hb|now apply Hb].
Qed.

(* the same for the single-extension queries: the answers of any two completed runs are
   extensions of the same framework under the same semantics (equality of the lists is not
   claimed: different oracles may pick different extensions) *)

(* the hypotheses are satisfiable: a compact framework *)
Example query_ok_example :
  query_ok (fun _ _ _ => Unknown) 1 (view_of_af (compact 3 [(0, 1); (1, 0)])) (compact 3 [(0, 1); (1, 0)])
           PR QDS AuxCo [0; 2].
Proof.
  split; [intros i C a; exact I|]. split; [lia|]. split; [|split; [exact I|split; [now left|]]].
  - apply (view_good_compact _ 3). split; [reflexivity|].
    intros a b [E|[E|[]]]; injection E as <- <-; lia.
  - intros a [<-|[<-|[]]]; cbn; tauto.
Qed.

(* ------------------------------------------------------------------------------------------ *)
(** * The same statements with explicit premises (the form re-exported by Properties/C*.v) *)
Section Explicit.
Variable oracle : nat -> cnf -> list lit -> answer.
Variable thr : nat.
Variable g : gview.
Variable F : af.
Hypothesis Hvalid : valid_oracle oracle.
Hypothesis Hthr : 1 <= thr.
Hypothesis Hvg : view_good g F.

Lemma mk_query_ok s q e al : supported s q -> enc_ok s e -> al_ok s q F al ->
  query_ok oracle thr g F s q e al.
Proof using Hvalid Hthr Hvg. unfold query_ok. tauto. Qed.

Theorem top_run_query : forall s q e al fuel cert st0,
  supported s q -> enc_ok s e -> al_ok s q F al ->
  run_ok (run_query oracle thr fuel s q cert e g al st0) (calls st0)
         (total_bound s e (query_comps s q cert g al))
         (fuel_ok s e (query_comps s q cert g al) fuel)
         (outcome_spec s q cert F al).
Proof using Hvalid Hthr Hvg.
  intros s q e al fuel cert st0 Hs He Ha. exact (run_query_top _ _ _ _ _ _ _ _ _ _ _ (mk_query_ok s q e al Hs He Ha)).
Qed.

Theorem top_single_extension : forall s e al fuel cert st0,
  supported s QSE -> enc_ok s e ->
  match run_query oracle thr fuel s QSE cert e g al st0 with
  | Done (OExt (Some L)) _ => ext s F L /\ NoDup L /\ incl L (args F)
  | Done (OExt None) _ => s = ST /\ forall S, ~ ext s F S
  | Done (OAcc _ _) _ => False
  | Panic _ => False
  | _ => True
  end.
Proof using Hvalid Hthr Hvg.
  intros s e al fuel cert st0 Hs He. exact (single_extension _ _ _ _ _ _ _ _ _ _ (mk_query_ok s QSE e al Hs He I)).
Qed.

Theorem top_credulous : forall s e al fuel cert st0,
  supported s QDC -> enc_ok s e -> al_ok s QDC F al ->
  match run_query oracle thr fuel s QDC cert e g al st0 with
  | Done (OAcc b _) _ => b = true <-> cred s F al
  | Done (OExt _) _ => False
  | Panic _ => False
  | _ => True
  end.
Proof using Hvalid Hthr Hvg.
  intros s e al fuel cert st0 Hs He Ha. exact (credulous _ _ _ _ _ _ _ _ _ _ (mk_query_ok s QDC e al Hs He Ha)).
Qed.

(* DC-PR is answered by the complete solver (credulous acceptance coincides under CO and PR) *)
Theorem top_credulous_preferred : forall e al fuel cert st0,
  enc_ok CO e -> al_ok CO QDC F al ->
  match run_query oracle thr fuel CO QDC cert e g al st0 with
  | Done (OAcc b _) _ => b = true <-> cred PR F al
  | Done (OExt _) _ => False
  | Panic _ => False
  | _ => True
  end.
Proof using Hvalid Hthr Hvg.
  intros e al fuel cert st0 He Ha. pose proof (top_credulous CO e al fuel cert st0 I He Ha) as H.
  destruct (run_query oracle thr fuel CO QDC cert e g al st0) as [[r|b c] s1|s1|s1|s1]; try exact H.
  rewrite H. exact (cred_co_pr F al (vg_wf g F Hvg)).
Qed.

Theorem top_skeptical : forall s e al fuel cert st0,
  supported s QDS -> enc_ok s e -> al_ok s QDS F al ->
  match run_query oracle thr fuel s QDS cert e g al st0 with
  | Done (OAcc b _) _ => b = true <-> skep s F al
  | Done (OExt _) _ => False
  | Panic _ => False
  | _ => True
  end.
Proof using Hvalid Hthr Hvg.
  intros s e al fuel cert st0 Hs He Ha. exact (skeptical _ _ _ _ _ _ _ _ _ _ (mk_query_ok s QDS e al Hs He Ha)).
Qed.

Theorem top_certificates : forall s q e al fuel cert st0,
  q <> QSE -> supported s q -> enc_ok s e -> al_ok s q F al ->
  match run_query oracle thr fuel s q cert e g al st0 with
  | Done (OAcc b (Some L)) _ =>
      cert = true /\ b = qpol q /\ ext s F L /\ NoDup L /\ incl L (args F) /\
      (if qpol q then exists a, In a al /\ In a L else forall a, In a al -> ~ In a L)
  | Done (OAcc b None) _ => cert = true -> b = negb (qpol q)
  | Done (OExt _) _ => False
  | Panic _ => False
  | _ => True
  end.
Proof using Hvalid Hthr Hvg.
  intros s q e al fuel cert st0 Hq Hs He Ha.
  exact (certificates _ _ _ _ _ _ _ _ _ _ _ (mk_query_ok s q e al Hs He Ha) Hq).
Qed.

Theorem top_lists : forall s q e al fuel cert st0,
  q <> QSE -> supported s q -> enc_ok s e -> al_ok s q F al ->
  match run_query oracle thr fuel s q cert e g al st0 with
  | Done (OAcc b _) _ =>
      b = true <-> if qpol q then exists a, In a al /\ cred s F [a]
                   else forall S, ext s F S -> exists a, In a al /\ In a S
  | Done (OExt _) _ => False
  | Panic _ => False
  | _ => True
  end.
Proof using Hvalid Hthr Hvg.
  intros s q e al fuel cert st0 Hq Hs He Ha.
  exact (lists _ _ _ _ _ _ _ _ _ _ _ (mk_query_ok s q e al Hs He Ha) Hq).
Qed.

Theorem top_call_bound : forall s q e al fuel cert st0,
  supported s q -> enc_ok s e -> al_ok s q F al ->
  decomp_ok F (query_comps s q cert g al) /\
  match run_query oracle thr fuel s q cert e g al st0 with
  | Done _ s' | Abort s' | OutOfFuel s' =>
      calls s' <= calls st0 + total_bound s e (query_comps s q cert g al)
  | Panic _ => False
  end.
Proof using Hvalid Hthr Hvg.
  intros s q e al fuel cert st0 Hs He Ha. split; [exact (query_comps_decomp g F s q cert al Hvg Ha)|].
  exact (call_bound _ _ _ _ _ _ _ _ _ _ _ (mk_query_ok s q e al Hs He Ha)).
Qed.

Theorem top_terminates : forall s q e al fuel cert st0,
  supported s q -> enc_ok s e -> al_ok s q F al ->
  (forall c, In c (query_comps s q cert g al) -> 2 * comp_bound s e c + 4 <= fuel) ->
  match run_query oracle thr fuel s q cert e g al st0 with
  | OutOfFuel _ | Panic _ => False
  | _ => True
  end.
Proof using Hvalid Hthr Hvg.
  intros s q e al fuel cert st0 Hs He Ha.
  exact (terminates_per_component _ _ _ _ _ _ _ _ _ _ _ (mk_query_ok s q e al Hs He Ha)).
Qed.

Theorem top_terminates_sum : forall s q e al fuel cert st0,
  supported s q -> enc_ok s e -> al_ok s q F al ->
  2 * total_bound s e (query_comps s q cert g al) + 4 <= fuel ->
  match run_query oracle thr fuel s q cert e g al st0 with
  | OutOfFuel _ | Panic _ => False
  | _ => True
  end.
Proof using Hvalid Hthr Hvg.
  intros s q e al fuel cert st0 Hs He Ha.
  exact (terminates _ _ _ _ _ _ _ _ _ _ _ (mk_query_ok s q e al Hs He Ha)).
Qed.
End Explicit.

Theorem top_status_function_of_semantics :
  forall o1 o2 thr1 thr2 g1 g2 F s q e1 e2 al fuel1 fuel2 cert1 cert2 st1 st2 b1 c1 t1 b2 c2 t2,
  valid_oracle o1 -> valid_oracle o2 -> 1 <= thr1 -> 1 <= thr2 ->
  view_good g1 F -> view_good g2 F ->
  q <> QSE -> supported s q -> enc_ok s e1 -> enc_ok s e2 -> al_ok s q F al ->
  run_query o1 thr1 fuel1 s q cert1 e1 g1 al st1 = Done (OAcc b1 c1) t1 ->
  run_query o2 thr2 fuel2 s q cert2 e2 g2 al st2 = Done (OAcc b2 c2) t2 ->
  b1 = b2.
Proof.
  intros o1 o2 thr1 thr2 g1 g2 F s q e1 e2 al fuel1 fuel2 cert1 cert2 st1 st2 b1 c1 t1 b2 c2 t2
         Hv1 Hv2 Ht1 Ht2 Hg1 Hg2 Hq Hs He1 He2 Ha.
  apply (status_function_of_semantics o1 o2 thr1 thr2 g1 g2 F s q e1 e2 al fuel1 fuel2 cert1 cert2
           st1 st2 b1 c1 t1 b2 c2 t2); try assumption.
  - exact (mk_query_ok o1 thr1 g1 F Hv1 Ht1 Hg1 s q e1 al Hs He1 Ha).
  - exact (mk_query_ok o2 thr2 g2 F Hv2 Ht2 Hg2 s q e2 al Hs He2 Ha).
Qed.

(* stores: every framework reachable from [new_with_labels] by any update history *)
Corollary run_query_store : forall L (leqb : L -> L -> bool),
  (forall x y, leqb x y = true <-> x = y) ->
  forall f : fw L, GroundedProofs.reachable L leqb f ->
  forall oracle thr s q e al fuel cert st0,
  valid_oracle oracle -> 1 <= thr -> supported s q -> enc_ok s e ->
  al_ok s q (GroundedProofs.af_of L f) al ->
  run_ok (run_query oracle thr fuel s q cert e (view_of_fw f) al st0) (calls st0)
         (total_bound s e (query_comps s q cert (view_of_fw f) al))
         (fuel_ok s e (query_comps s q cert (view_of_fw f) al) fuel)
         (outcome_spec s q cert (GroundedProofs.af_of L f) al).
Proof.
  intros L leqb Hl f Hr oracle thr s q e al fuel cert st0 Hv Ht Hs He Ha.
  apply run_query_top. pose proof (view_good_store L leqb Hl f Hr) as Hg. unfold query_ok. tauto.
Qed.

(* a completed run, through the theorems: 0 <-> 1 -> 2, 3 -> 3 -> 4 (two components), DS-PR with
   certificate of the list [2; 4] with a brute-force oracle *)
Definition ex_F : af := compact 5 [(0, 1); (1, 0); (1, 2); (3, 3); (3, 4)].

Lemma ex_query_ok : forall s q e al, supported s q -> enc_ok s e -> al_ok s q ex_F al ->
  query_ok SolverWholeEx.bf_oracle 1 (view_of_af ex_F) ex_F s q e al.
Proof.
  intros s q e al Hs He Ha. split; [exact SolverWholeEx.bf_oracle_valid|]. split; [lia|].
  split; [|tauto]. apply (view_good_compact _ 5). split; [reflexivity|].
  intros a b [E|[E|[E|[E|[E|[]]]]]]; injection E as <- <-; lia.
Qed.

Example run_example :
  match run_query SolverWholeEx.bf_oracle 1 100 PR QDS true AuxCo (view_of_af ex_F) [2; 4]
                  (init_st CadicalLike) with
  | Done (OAcc b (Some L)) t =>
      b = false /\ L = [1] /\ pr ex_F L /\ ~ skep PR ex_F [2; 4] /\
      calls t <= total_bound PR AuxCo (query_comps PR QDS true (view_of_af ex_F) [2; 4])
  | _ => False
  end.
Proof.
  assert (Hq : query_ok SolverWholeEx.bf_oracle 1 (view_of_af ex_F) ex_F PR QDS AuxCo [2; 4]).
  { apply ex_query_ok; [exact I|now left|]. intros a [<-|[<-|[]]]; cbn; tauto. }
  pose proof (certificates _ _ _ _ _ _ _ _ 100 true (init_st CadicalLike) Hq ltac:(discriminate)) as H1.
  pose proof (skeptical _ _ _ _ _ _ _ 100 true (init_st CadicalLike) Hq) as H2.
  pose proof (call_bound _ _ _ _ _ _ _ _ 100 true (init_st CadicalLike) Hq) as H3.
  remember (run_query SolverWholeEx.bf_oracle 1 100 PR QDS true AuxCo (view_of_af ex_F) [2; 4]
              (init_st CadicalLike)) as r eqn:E.
  vm_compute in E. subst r. cbn [qpol negb] in H1.
  destruct H1 as [_ [Hb [Hpr _]]]. split; [exact Hb|]. split; [reflexivity|]. split; [exact Hpr|].
  split; [|exact H3]. intros Hsk. apply H2 in Hsk. discriminate.
Qed.

Print Assumptions query_comps_decomp.
Print Assumptions run_query_correct.
Print Assumptions run_query_top.
Print Assumptions single_extension.
Print Assumptions credulous.
Print Assumptions skeptical.
Print Assumptions certificates.
Print Assumptions lists.
Print Assumptions call_bound.
Print Assumptions terminates.
Print Assumptions terminates_per_component.
Print Assumptions status_function_of_semantics.
Print Assumptions top_run_query.
Print Assumptions top_single_extension.
Print Assumptions top_credulous.
Print Assumptions top_credulous_preferred.
Print Assumptions top_skeptical.
Print Assumptions top_certificates.
Print Assumptions top_lists.
Print Assumptions top_call_bound.
Print Assumptions top_terminates.
Print Assumptions top_terminates_sum.
Print Assumptions top_status_function_of_semantics.
Print Assumptions run_query_store.
Print Assumptions run_example.
