(* C18, "for PR and ID no candidate set is ever examined twice", at the level of the EVENT LOG.
   The Sat answers logged by a MaximalExtensionComputer (preferred and ideal flavours), decoded with
   the encoder's assignment_to_extension, are base sets of the component and pairwise different AS
   SETS; the Unsat answers each mark a maximal candidate reached or the end of the search.
   Proofs/MaxExtCore.v has this as ghost lists inside [kinv]; here the lists ARE the decoded log:
   the invariant [linv] ties them to [rlog].  The state machine is re-traversed once with this
   invariant (no call counting, no fuel accounting, no functional postcondition), reusing the
   refinement lemmas [sat_refines] / [unsat_refines] of MaxExtCore. *)
From Crusta Require Import Spec.AF Spec.SemFacts Spec.Theory Sat.Cnf Sat.Prog.
From Crusta Require Import Model.Encoders Model.Graph Model.Solvers.
From Crusta Require Import Proofs.ProgLaws Proofs.EncSpec Proofs.EncBase Proofs.EncAll Proofs.SolverBasics.
From Crusta Require Import Proofs.SolverCc Proofs.SolverThms Proofs.MaxExtCore Proofs.MaxExtPref Proofs.MaxExtIdeal.
From Crusta Require Proofs.GroundedProofs.
From Crusta Require Import Proofs.Decomp Proofs.TopBase Proofs.TopMax Proofs.SolverTop.
From Coq Require Import Lia ZifyBool.
Import ListNotations.
Open Scope prog_scope.

(* ------------------------------------------------------------------------------------------ *)
(** * Decoding a log (most recent event first) *)

(* the sets the Sat answers of the log denote (n arguments, encoder e), most recent first *)
Fixpoint sat_sets (n : nat) (e : enc) (l : list (nat * event)) : list (list nat) :=
  match l with
  | [] => []
  | (_, ESolve _ (Sat m)) :: r => assignment_to_extension n e m :: sat_sets n e r
  | _ :: r => sat_sets n e r
  end.
(* the number of Unsat answers *)
Fixpoint n_unsat (l : list (nat * event)) : nat :=
  match l with
  | [] => 0
  | (_, ESolve _ Unsat) :: r => S (n_unsat r)
  | _ :: r => n_unsat r
  end.
(* no answer at all *)
Definition no_answer (l : list (nat * event)) : Prop :=
  forall k a r, ~ In (k, ESolve a r) l.

Lemma sat_sets_app n e l l' : sat_sets n e (l ++ l') = sat_sets n e l ++ sat_sets n e l'.
Proof.
  induction l as [|[k ev] r IH]; [reflexivity|]. cbn [app sat_sets].
  destruct ev as [| | | |a [m| |]]; cbn [app]; now rewrite IH.
Qed.
Lemma n_unsat_app l l' : n_unsat (l ++ l') = n_unsat l + n_unsat l'.
Proof.
  induction l as [|[k ev] r IH]; [reflexivity|]. cbn [app n_unsat].
  destruct ev as [| | | |a [m| |]]; cbn [app]; rewrite IH; reflexivity.
Qed.
Lemma no_answer_sat n e l : no_answer l -> sat_sets n e l = [].
Proof.
  induction l as [|[k ev] r IH]; intros H; [reflexivity|]. cbn [sat_sets].
  assert (Hr : no_answer r) by (intros k' a' r' Hin; apply (H k' a' r'); now right).
  destruct ev as [| | | |a res]; try (now apply IH). exfalso. apply (H k a res). now left.
Qed.
Lemma no_answer_unsat l : no_answer l -> n_unsat l = 0.
Proof.
  induction l as [|[k ev] r IH]; intros H; [reflexivity|]. cbn [n_unsat].
  assert (Hr : no_answer r) by (intros k' a' r' Hin; apply (H k' a' r'); now right).
  destruct ev as [| | | |a res]; try (now apply IH). exfalso. apply (H k a res). now left.
Qed.
Lemma no_answer_nil : no_answer [].
Proof. intros k a r []. Qed.
Lemma no_answer_cons k ev l : (forall a r, ev <> ESolve a r) -> no_answer l -> no_answer ((k, ev) :: l).
Proof. intros He Hl k' a r [E|Hin]; [injection E as _ E; now apply (He a r)|now apply (Hl k' a r)]. Qed.
Lemma no_answer_app l l' : no_answer l -> no_answer l' -> no_answer (l ++ l').
Proof. intros H H' k a r Hin. apply in_app_or in Hin. destruct Hin; [now apply (H k a r)|now apply (H' k a r)]. Qed.

Lemma rlog_solved oracle s a :
  rlog (st_solved oracle s a) = (nsess s, ESolve a (answer_of oracle s a)) :: rlog s.
Proof. reflexivity. Qed.
Lemma rlog_add s c : rlog (st_add s c) = (nsess s, EClause c) :: rlog s.
Proof. reflexivity. Qed.
Lemma rlog_nvars s : rlog (st_nvars s) = (nsess s, ENVars (session_n_vars (sess s))) :: rlog s.
Proof. reflexivity. Qed.

(* ------------------------------------------------------------------------------------------ *)
(** * The state machine of the MaximalExtensionComputer with the log-tied invariant *)
Section Core.
Variable oracle : nat -> cnf -> list lit -> answer.
Hypothesis Hvalid : valid_oracle oracle.
Variable e : enc.
Variable F : af.
Variable n : nat.
Hypothesis HF : compact_af F n.

Notation base := (basep (enc_base e) F).
Notation a2e := (assignment_to_extension n e).
Notation SS := (sat_sets n e).

Variable C0 : cnf.
Variable selv : nat.
Hypothesis Hsound0 : forall v : val, vmodels v C0 = true -> base (ext_of e n v).
Hypothesis Hcomplete0 : forall S, base S ->
  exists v : val, vmodels v C0 = true /\ forall a, a < n -> (v (arg_var e a) = true <-> In a S).
Hypothesis Hfresh : bounded C0 (selv - 1).
Hypothesis Hselpos : 0 < selv.
Hypothesis Hargs : forall a, a < n -> arg_var e a < selv.

Variable fl : flavour.
Variable allowedb : nat -> bool.
Hypothesis Hfl : fl_ok e n fl allowedb.

Notation cand := (cand e F allowedb).
Notation maxc := (maxc e F allowedb).
Notation bcl := (bclause e n selv).
Notation K := (kk e F n selv fl).

Hypothesis Hgr0 : cand (gr0 F).

(* the log when the computer was created *)
Variable L0 : list (nat * event).

(* ghost: the blocked sets (one per guarded clause), the maximal sets reached; [new] = the events
   logged since the computer was created *)
Definition linv (k : computer) (s : Prog.st) (Bs Ps : list (list nat)) (new : list (nat * event)) : Prop :=
  k = K (c_cur k) (c_model k) (c_state k) /\
  rlog s = new ++ L0 /\
  cls s = C0 ++ map bcl Bs /\
  (forall S, In S (SS new) -> base S) /\ sepl (SS new) /\
  (forall P, In P Ps -> maxc P /\ In P Bs) /\ sepl Ps /\
  n_unsat new = length Ps + (match c_state k with MNone => 1 | _ => 0 end) /\
  match c_state k with
  | MInit => Bs = [] /\ SS new = []
  | MIntermediate =>
      cand (c_cur k) /\ (forall B, In B Bs -> ~ incl (c_cur k) B) /\
      (forall S, In S (SS new) -> In S Bs \/ S = c_cur k)
  | MMaximal => maxc (c_cur k) /\ (forall S, In S (SS new) -> In S Bs)
  | MJustDiscarded => fl = FPref /\ forall S, In S (SS new) -> In S Bs
  | MNone => True
  end.
Definition linvE (k : computer) (s : Prog.st) : Prop := exists Bs Ps new, linv k s Bs Ps new.

(* what holds of the log in EVERY state the computation can stop in *)
Definition lfacts (s : Prog.st) : Prop :=
  exists new Ps, rlog s = new ++ L0 /\
    (forall S, In S (SS new) -> base S) /\ sepl (SS new) /\
    (forall P, In P Ps -> maxc P) /\ sepl Ps /\ n_unsat new <= length Ps + 1.

Lemma linv_facts k s : linvE k s -> lfacts s.
Proof.
  intros (Bs & Ps & new & _ & Hl & _ & Hb & Hs & HP & HsP & Hu & _).
  exists new, Ps. split; [exact Hl|]. split; [exact Hb|]. split; [exact Hs|].
  split; [intros P HPin; exact (proj1 (HP P HPin))|]. split; [exact HsP|].
  rewrite Hu. destruct (c_state k); lia.
Qed.

(* events that are not answers Sat / Unsat leave the facts alone *)
Lemma lfacts_ev s ev se c : (forall a m, ev <> ESolve a (Sat m)) -> (forall a, ev <> ESolve a Unsat) ->
  lfacts s -> lfacts (log_ev ev s se c).
Proof.
  intros H1 H2 (new & Ps & Hl & Hb & Hs & HP & HsP & Hu).
  exists ((nsess s, ev) :: new), Ps. cbn [log_ev rlog]. rewrite Hl.
  assert (E1 : SS ((nsess s, ev) :: new) = SS new).
  { cbn [sat_sets]. destruct ev as [| | | |a [m| |]]; try reflexivity. exfalso. now apply (H1 a m). }
  assert (E2 : n_unsat ((nsess s, ev) :: new) = n_unsat new).
  { cbn [n_unsat]. destruct ev as [| | | |a [m| |]]; try reflexivity. exfalso. now apply (H2 a). }
  rewrite E1, E2. repeat (split; [assumption || reflexivity|]). exact Hu.
Qed.
Lemma lfacts_add s c : lfacts s -> lfacts (st_add s c).
Proof. apply lfacts_ev; discriminate. Qed.

Notation wpl := (wp lfacts lfacts lfacts).

Lemma not_incl_ne (S T : list nat) : ~ incl S T -> ~ seteq S T.
Proof. intros H E. apply H. now apply seteq_incl1. Qed.

(* new_search on a session where every set returned so far is blocked *)
Lemma new_search_step cur m stt s Bs Ps new :
  fl = FPref ->
  rlog s = new ++ L0 -> cls s = C0 ++ map bcl Bs ->
  (forall S, In S (SS new) -> base S) -> sepl (SS new) ->
  (forall P, In P Ps -> maxc P /\ In P Bs) -> sepl Ps ->
  n_unsat new = length Ps ->
  (forall S, In S (SS new) -> In S Bs) ->
  wpl (new_search oracle (K cur m stt)) linvE s.
Proof.
  intros Hfp Hl Hc Hb Hs HP HsP Hu HSB.
  assert (Hall : forall a, allowedb a = true) by (unfold fl_ok in Hfl; now rewrite Hfp in Hfl).
  unfold new_search, solve_c. cbn [c_sel c_addl kk]. rewrite !wp_bind, wp_solve.
  pose proof (asm_search e n selv allowedb Hall) as Hasm.
  destruct (answer_of oracle s ([negate (zlit selv)] ++ [])) as [m'| |] eqn:Ha.
  - rewrite !wp_ret. cbn [option_map c_a2e kk].
    destruct (sat_refines oracle Hvalid e F n C0 selv Hsound0 Hselpos allowedb s Bs _ [] m' Hc Hasm
                (fun a (H : In a []) => match H with end) Ha) as (Hcd & _ & Hnb).
    exists Bs, Ps, ((nsess s, ESolve ([negate (zlit selv)] ++ []) (Sat m')) :: new).
    unfold linv, with_state, with_cur. cbn [kk c_e c_n c_has c_g c_a2e c_cur c_model c_state c_sel c_fl c_addl sat_sets n_unsat length].
    split; [reflexivity|]. split; [rewrite rlog_solved, Ha, Hl; reflexivity|].
    split; [now rewrite cls_solved|].
    split; [intros S [<-|HS]; [exact (proj1 Hcd)|now apply Hb]|].
    split; [split; [|exact Hs]; intros T HT; apply not_incl_ne, Hnb, HSB, HT|].
    split; [exact HP|]. split; [exact HsP|]. split; [lia|].
    split; [exact Hcd|]. split; [exact Hnb|].
    intros S [<-|HS]; [now right|left; now apply HSB].
  - rewrite !wp_ret. cbn [option_map].
    exists Bs, Ps, ((nsess s, ESolve ([negate (zlit selv)] ++ []) Unsat) :: new).
    unfold linv, with_state, with_cur. cbn [kk c_e c_n c_has c_g c_a2e c_cur c_model c_state c_sel c_fl c_addl sat_sets n_unsat length].
    split; [reflexivity|]. split; [rewrite rlog_solved, Ha, Hl; reflexivity|].
    split; [now rewrite cls_solved|].
    split; [exact Hb|]. split; [exact Hs|]. split; [exact HP|]. split; [exact HsP|]. split; [lia|exact I].
  - exists ((nsess s, ESolve ([negate (zlit selv)] ++ []) Unknown) :: new), Ps.
    rewrite rlog_solved, Ha, Hl. cbn [sat_sets n_unsat].
    split; [reflexivity|]. split; [exact Hb|]. split; [exact Hs|].
    split; [intros P HPin; exact (proj1 (HP P HPin))|]. split; [exact HsP|lia].
Qed.

Lemma fl_cases : fl = FPref \/ exists forb, fl = FIdeal forb.
Proof.
  clear Hgr0. unfold fl_ok in Hfl.
  destruct fl; [left; reflexivity|contradiction|right; eexists; reflexivity].
Qed.

Lemma compute_next_step k s : linvE k s -> wpl (compute_next oracle k) linvE s.
Proof.
  intros (Bs & Ps & new & Hk & Hl & Hc & Hb & Hs & HP & HsP & Hu & Hst).
  rewrite Hk. unfold compute_next. cbn [c_state kk].
  destruct (c_state k) eqn:Est.
  - (* MMaximal *)
    destruct Hst as (Hmax & HSB).
    assert (Hcur : forall a, In a (c_cur k) -> a < n).
    { intros a Ha. destruct Hmax as [[Hb' _] _]. exact (base_lt e F n HF _ a Hb' Ha). }
    set (kc := K (c_cur k) (c_model k) MMaximal).
    unfold discard_maximal. change (c_fl kc) with fl.
    destruct fl_cases as [Efl|[forb Efl]]; rewrite Efl.
    + change (split_in_extension (c_e kc) (c_n kc) (c_has kc) (c_cur kc))
        with (split_in_extension e n (fun i => Nat.ltb i n) (c_cur k)).
      change (c_sel kc) with (zlit selv).
      rewrite (split_eq e n _ Hcur). cbn [snd].
      change (out_lits e n (c_cur k) ++ [zlit selv]) with (bcl (c_cur k)).
      rewrite wp_bind, wp_add_clause. unfold kc.
      apply (new_search_step _ _ _ _ (Bs ++ [c_cur k]) Ps ((nsess s, EClause (bcl (c_cur k))) :: new));
        try assumption.
      * rewrite rlog_add, Hl. reflexivity.
      * now apply cls_add_block.
      * intros P HPin. destruct (HP P HPin) as [H1 H2]. split; [exact H1|apply in_or_app; now left].
      * cbn [n_unsat]. lia.
      * cbn [sat_sets]. intros S HS. apply in_or_app. left. now apply HSB.
    + rewrite wp_bind, wp_panic. apply (linv_facts k).
      exists Bs, Ps, new. unfold linv. rewrite Est. tauto.
  - (* MIntermediate *)
    destruct Hst as ([Hb' Hal] & Hnb & HSB).
    assert (Hcur : forall a, In a (c_cur k) -> a < n) by (intros a Ha; exact (base_lt e F n HF _ a Hb' Ha)).
    pose proof (asm_increase e n selv fl allowedb Hfl (c_cur k)) as Hasm.
    set (s1 := st_add s (bcl (c_cur k))).
    assert (Hc1 : cls s1 = C0 ++ map bcl (Bs ++ [c_cur k])) by now apply cls_add_block.
    assert (Hl1 : rlog s1 = ((nsess s, EClause (bcl (c_cur k))) :: new) ++ L0).
    { unfold s1. rewrite rlog_add, Hl. reflexivity. }
    set (kc := K (c_cur k) (c_model k) MIntermediate).
    assert (Hstep : forall asm, asm_ok e n selv allowedb (asm ++ []) (c_cur k) ->
              wpl (r <- solve_c oracle kc asm ;;
                   ret match r with
                       | Some (m, e0) => with_cur kc e0 (Some m) MIntermediate
                       | None => with_state kc MMaximal
                       end) linvE s1).
    { intros asm Hasm'. unfold solve_c. change (c_addl kc) with (@nil lit). change (c_a2e kc) with a2e.
      rewrite !wp_bind, wp_solve.
      destruct (answer_of oracle s1 (asm ++ [])) as [m'| |] eqn:Ha.
      - rewrite !wp_ret. cbn [option_map].
        destruct (sat_refines oracle Hvalid e F n C0 selv Hsound0 Hselpos allowedb s1 _ _ _ m' Hc1 Hasm' Hcur Ha)
          as (Hcd & Hinc & Hnb').
        exists (Bs ++ [c_cur k]), Ps,
               ((nsess s1, ESolve (asm ++ []) (Sat m')) :: (nsess s, EClause (bcl (c_cur k))) :: new).
        unfold linv, kc, with_state, with_cur. cbn [kk c_e c_n c_has c_g c_a2e c_cur c_model c_state c_sel c_fl c_addl sat_sets n_unsat length].
        split; [reflexivity|]. split; [rewrite rlog_solved, Ha, Hl1; reflexivity|].
        split; [now rewrite cls_solved|].
        split; [intros S [<-|HS]; [exact (proj1 Hcd)|now apply Hb]|].
        split; [split; [|exact Hs]|].
        { intros T HT. apply not_incl_ne, Hnb'. apply in_or_app.
          destruct (HSB T HT) as [H| ->]; [now left|right; now left]. }
        split; [intros P HPin; destruct (HP P HPin) as [H1 H2]; split; [exact H1|apply in_or_app; now left]|].
        split; [exact HsP|]. split; [lia|].
        split; [exact Hcd|]. split; [exact Hnb'|].
        intros S [<-|HS]; [now right|left]. apply in_or_app.
        destruct (HSB S HS) as [H| ->]; [now left|right; now left].
      - rewrite !wp_ret. cbn [option_map].
        pose proof (unsat_refines oracle Hvalid e F n HF C0 selv Hcomplete0 Hfresh Hselpos Hargs allowedb
                      s1 _ _ _ Hc1 Hasm' Ha) as Hun.
        assert (Hmax : maxc (c_cur k)).
        { split; [split; assumption|]. intros T HT HcT.
          destruct (Hun T HT HcT) as [B [HB HTB]]. apply in_app_or in HB.
          destruct HB as [HB|[<-|[]]]; [|exact HTB]. exfalso. apply (Hnb B HB). exact (incl_tran HcT HTB). }
        exists (Bs ++ [c_cur k]), (c_cur k :: Ps),
               ((nsess s1, ESolve (asm ++ []) Unsat) :: (nsess s, EClause (bcl (c_cur k))) :: new).
        unfold linv, kc, with_state, with_cur. cbn [kk c_e c_n c_has c_g c_a2e c_cur c_model c_state c_sel c_fl c_addl sat_sets n_unsat length].
        split; [reflexivity|]. split; [rewrite rlog_solved, Ha, Hl1; reflexivity|].
        split; [now rewrite cls_solved|].
        split; [exact Hb|]. split; [exact Hs|].
        split.
        { intros P [<-|HPin]; [split; [exact Hmax|apply in_or_app; right; now left]|].
          destruct (HP P HPin) as [H1 H2]. split; [exact H1|apply in_or_app; now left]. }
        split; [split; [|exact HsP]|].
        { intros T HT. apply not_incl_ne, Hnb. now apply HP. }
        split; [lia|]. split; [exact Hmax|].
        intros S HS. apply in_or_app. destruct (HSB S HS) as [H| ->]; [now left|right; now left].
      - exists ((nsess s1, ESolve (asm ++ []) Unknown) :: (nsess s, EClause (bcl (c_cur k))) :: new), Ps.
        rewrite rlog_solved, Ha, Hl1. cbn [sat_sets n_unsat].
        split; [reflexivity|]. split; [exact Hb|]. split; [exact Hs|].
        split; [intros P HPin; exact (proj1 (HP P HPin))|]. split; [exact HsP|lia]. }
    unfold increase_assumptions. change (c_fl kc) with fl.
    destruct fl_cases as [Efl|[forb Efl]]; rewrite Efl in Hasm |- *;
      change (split_in_extension (c_e kc) (c_n kc) (c_has kc) (c_cur kc))
        with (split_in_extension e n (fun i => Nat.ltb i n) (c_cur k));
      change (c_sel kc) with (zlit selv);
      rewrite (split_eq e n _ Hcur); cbv beta iota; rewrite !wp_bind, wp_add_clause, wp_ret;
      change (out_lits e n (c_cur k) ++ [zlit selv]) with (bcl (c_cur k)); fold s1;
      apply Hstep; exact Hasm.
  - (* MJustDiscarded *)
    destruct Hst as (Hfp & HSB).
    apply (new_search_step _ _ _ _ Bs Ps new); try assumption. lia.
  - (* MNone *)
    rewrite wp_panic. apply (linv_facts k). exists Bs, Ps, new. unfold linv. rewrite Est. tauto.
  - (* MInit *)
    destruct Hst as (-> & HSS). rewrite wp_ret.
    exists [], Ps, new. unfold linv, with_state, with_cur. cbn [kk c_e c_n c_has c_g c_a2e c_cur c_model c_state c_sel c_fl c_addl sat_sets n_unsat length].
    split; [reflexivity|]. split; [exact Hl|]. split; [exact Hc|]. split; [exact Hb|]. split; [exact Hs|].
    split; [exact HP|]. split; [exact HsP|]. split; [lia|].
    split; [exact Hgr0|]. split; [intros B []|]. rewrite HSS. intros S [].
Qed.

(* discard_current_search (preferred skeptical loop): the current set is blocked *)
Lemma discard_current_step k s : linvE k s -> c_state k = MIntermediate ->
  wpl (discard_current_search k) linvE s.
Proof.
  intros (Bs & Ps & new & Hk & Hl & Hc & Hb & Hs & HP & HsP & Hu & Hst) Est. rewrite Est in *.
  destruct Hst as ([Hb' Hal] & Hnb & HSB).
  assert (Hcur : forall a, In a (c_cur k) -> a < n) by (intros a Ha; exact (base_lt e F n HF _ a Hb' Ha)).
  rewrite Hk. set (kc := K (c_cur k) (c_model k) MIntermediate).
  unfold discard_current_search, discard_current. change (c_fl kc) with fl.
  destruct fl_cases as [Efl|[forb Efl]]; rewrite Efl.
  - change (split_in_extension (c_e kc) (c_n kc) (c_has kc) (c_cur kc))
      with (split_in_extension e n (fun i => Nat.ltb i n) (c_cur k)).
    change (c_sel kc) with (zlit selv).
    rewrite (split_eq e n _ Hcur). cbn [snd].
    change (out_lits e n (c_cur k) ++ [zlit selv]) with (bcl (c_cur k)).
    rewrite wp_bind, wp_add_clause, wp_ret.
    exists (Bs ++ [c_cur k]), Ps, ((nsess s, EClause (bcl (c_cur k))) :: new).
    unfold linv, kc, with_state, with_cur. cbn [kk c_e c_n c_has c_g c_a2e c_cur c_model c_state c_sel c_fl c_addl sat_sets n_unsat length].
    split; [reflexivity|]. split; [rewrite rlog_add, Hl; reflexivity|].
    split; [now apply cls_add_block|]. split; [exact Hb|]. split; [exact Hs|].
    split; [intros P HPin; destruct (HP P HPin) as [H1 H2]; split; [exact H1|apply in_or_app; now left]|].
    split; [exact HsP|]. split; [lia|]. split; [exact Efl|].
    intros S HS. apply in_or_app. destruct (HSB S HS) as [H| ->]; [now left|right; now left].
  - rewrite wp_bind, wp_panic. apply (linv_facts k).
    exists Bs, Ps, new. unfold linv. rewrite Est. repeat (split; [assumption|]). split; [split; assumption|]. split; assumption.
Qed.

(* drop: one unit clause *)
Lemma drop_step A (a : A) k s : lfacts s -> wpl (drop k ;;; ret a) (fun _ s' => lfacts s') s.
Proof. intros H. unfold drop. rewrite wp_bind, wp_add_clause, wp_ret. now apply lfacts_add. Qed.

(* ---------- the loops: every state they can stop in satisfies the log facts ---------- *)
Notation Qf := (fun _ s' => lfacts s').

Lemma compute_maximal_l fuel : forall k s, linvE k s -> wpl (compute_maximal oracle fuel k) Qf s.
Proof.
  induction fuel as [|f IH]; intros k s Hi; cbn [compute_maximal].
  - rewrite wp_out_of_fuel. exact (linv_facts k s Hi).
  - destruct (c_state k);
      try (rewrite wp_bind; eapply wp_mono; [|exact (compute_next_step k s Hi)];
           intros k' s' Hi'; exact (IH k' s' Hi')).
    apply drop_step. exact (linv_facts k s Hi).
Qed.

Lemma pr_ds_loop_l fuel F' la sc : forall k s, linvE k s -> wpl (pr_ds_loop oracle fuel F' la sc k) Qf s.
Proof.
  induction fuel as [|f IH]; intros k s Hi; cbn [pr_ds_loop].
  - rewrite wp_out_of_fuel. exact (linv_facts k s Hi).
  - rewrite wp_bind. eapply wp_mono; [|exact (compute_next_step k s Hi)].
    intros k' s' Hi'. cbv beta. destruct (c_state k') eqn:Est; try exact (IH k' s' Hi').
    + destruct (negb (meets la (c_cur k'))); [|exact (IH k' s' Hi')].
      apply drop_step. exact (linv_facts k' s' Hi').
    + destruct (meets la (c_cur k')).
      * rewrite wp_bind. eapply wp_mono; [|exact (discard_current_step k' s' Hi' Est)].
        intros k'' s'' Hi''. exact (IH k'' s'' Hi'').
      * destruct (sc && _); [|exact (IH k' s' Hi')].
        apply drop_step. exact (linv_facts k' s' Hi').
    + apply drop_step. exact (linv_facts k' s' Hi').
Qed.

Lemma id_enum_loop_l fuel n' ngr : forall k ia nia np s, linvE k s ->
  wpl (id_enum_loop oracle fuel n' ngr k ia nia np) Qf s.
Proof.
  induction fuel as [|f IH]; intros k ia nia np s Hi; cbn [id_enum_loop].
  - rewrite wp_out_of_fuel. exact (linv_facts k s Hi).
  - rewrite wp_bind. eapply wp_mono; [|exact (compute_next_step k s Hi)].
    intros k' s' Hi'. cbv beta. destruct (c_state k') eqn:Est; try exact (IH k' _ _ _ s' Hi').
    + cbv zeta. destruct (Nat.eqb _ ngr); [|exact (IH k' _ _ _ s' Hi')].
      apply drop_step. exact (linv_facts k' s' Hi').
    + apply drop_step. exact (linv_facts k' s' Hi').
Qed.

(* a fresh computer satisfies the invariant *)
Lemma linv_init s : rlog s = L0 -> cls s = C0 -> linvE (K [] None MInit) s.
Proof.
  intros Hl Hc. exists [], [], []. unfold linv. cbn [kk c_cur c_model c_state sat_sets n_unsat length map].
  split; [reflexivity|]. split; [exact Hl|]. split; [now rewrite app_nil_r|].
  split; [intros S []|]. split; [exact I|]. split; [intros P []|]. split; [exact I|]. split; [reflexivity|].
  split; reflexivity.
Qed.

End Core.

(* ------------------------------------------------------------------------------------------ *)
(** * One connected component *)

(* what is proved of the events [new] a run logged on a component F (n arguments, encoder e) *)
(* the Sat answers: base sets, pairwise different as sets, hence at most |base| of them *)
Definition sat_no_twice (e : enc) (F : af) (n : nat) (new : list (nat * event)) : Prop :=
  (forall S, In S (sat_sets n e new) -> basep (enc_base e) F S) /\
  sepl (sat_sets n e new) /\
  length (sat_sets n e new) <= length (all_base (enc_base e) F).
(* the Unsat answers of a preferred computation: one per preferred extension reached, one for the
   end of the search *)
Definition unsat_le_pr (F : af) (new : list (nat * event)) : Prop :=
  n_unsat new <= length (all_exts PR F) + 1.

Definition since (s0 : Prog.st) (P : list (nat * event) -> Prop) (s' : Prog.st) : Prop :=
  exists new, rlog s' = new ++ rlog s0 /\ P new.

Lemma wp_conj A (QA QP QF QA' QP' QF' : Prog.st -> Prop) (m : M A) (Q Q' : A -> Prog.st -> Prop) s :
  wp QA QP QF m Q s -> wp QA' QP' QF' m Q' s ->
  wp (fun t => QA t /\ QA' t) (fun t => QP t /\ QP' t) (fun t => QF t /\ QF' t) m
     (fun a t => Q a t /\ Q' a t) s.
Proof. unfold wp. destruct (m s); auto. Qed.

Lemma wp_result A (QA QP QF : Prog.st -> Prop) (m : M A) (Q : A -> Prog.st -> Prop) s (R : Prog.st -> Prop) :
  (forall t, QA t -> R t) -> (forall t, QP t -> R t) -> (forall t, QF t -> R t) ->
  (forall a t, Q a t -> R t) ->
  wp QA QP QF m Q s ->
  match m s with Done _ t | Abort t | Panic t | OutOfFuel t => R t end.
Proof. unfold wp. intros H1 H2 H3 H4. destruct (m s); eauto. Qed.

Lemma no_answer_clauses k (C : cnf) : no_answer (rev (map (fun c => (k, EClause c)) C)).
Proof.
  intros k' a r Hin. apply in_rev in Hin. apply in_map_iff in Hin. destruct Hin as [c [E _]]. discriminate.
Qed.
Lemma rlog_encoded s r C : exists pre, rlog (st_encoded s r C) = pre ++ rlog s /\ no_answer pre.
Proof.
  unfold st_encoded. rewrite st_adds_rlog. destruct r as [k|].
  - exists (rev (map (fun c => (nsess (st_reserve s k), EClause c)) C) ++ [(nsess s, EReserve k)]).
    split; [rewrite <- app_assoc; reflexivity|].
    apply no_answer_app; [apply no_answer_clauses|apply no_answer_cons; [discriminate|apply no_answer_nil]].
  - eexists. split; [reflexivity|apply no_answer_clauses].
Qed.

Section Component.
Variable oracle : nat -> cnf -> list lit -> answer.
Variable thr : nat.
Hypothesis Hthr : 1 <= thr.
Hypothesis Hvalid : valid_oracle oracle.
Variable e : enc.
Variable F : af.
Variable n : nat.
Hypothesis HF : compact_af F n.
Hypothesis Hpe : pr_enc e.

Notation base := (basep (enc_base e) F).

(* the encoding and the creation of a computer on an empty session: the computer starts in a
   state whose session holds exactly the encoder's clauses; nothing was asked yet *)
Lemma setup_log (QA QP QF : Prog.st -> Prop) fl A (cont : computer -> M A) (Q : A -> Prog.st -> Prop) s :
  cls s = [] -> sess_bounded s ->
  (forall C selv s2 pre, enc_clauses e thr false F = Some C -> cls s2 = C ->
     sess_bounded s2 -> fresh_sel e n C selv ->
     rlog s2 = pre ++ rlog s -> no_answer pre ->
     wp QA QP QF (cont (kk e F n selv fl [] None MInit)) Q s2) ->
  wp QA QP QF (encode_m thr e false F ;;; k <- new_cc_computer e F fl ;; cont k) Q s.
Proof.
  intros Hc Hsb HQ. destruct (enc_reserve thr Hthr e F n HF Hpe) as (r & C & HE & Hr).
  rewrite wp_bind, (wp_encode_m thr _ _ _ e false F (Some r) C _ _ HE).
  unfold new_cc_computer, new_computer.
  rewrite (compact_length F n HF), wp_bind, wp_bind, wp_n_vars, wp_ret.
  set (s1 := st_encoded s (Some r) C).
  destruct (rlog_encoded s (Some r) C) as (pre & Hpre & Hna). fold s1 in Hpre.
  apply (HQ C (1 + session_n_vars (sess s1)) (st_nvars s1)
            ((nsess s1, ENVars (session_n_vars (sess s1))) :: pre)).
  - exact (enc_clauses_some thr e false F (Some r) C HE).
  - rewrite cls_nvars. unfold s1. now rewrite cls_encoded, Hc.
  - apply sb_nvars. unfold s1. now apply sb_encoded.
  - split; [|split].
    + replace (1 + session_n_vars (sess s1) - 1) with (session_n_vars (sess s1)) by lia.
      replace C with (cls s1) by (unfold s1; now rewrite cls_encoded, Hc).
      apply nvars_fresh. unfold s1. now apply sb_encoded.
    + lia.
    + intros a Ha. specialize (Hr a Ha).
      assert (r <= reserved (sess s1)).
      { unfold s1, st_encoded. rewrite st_adds_reserved. cbn. lia. }
      unfold session_n_vars. lia.
  - rewrite rlog_nvars, Hpre. reflexivity.
  - apply no_answer_cons; [discriminate|exact Hna].
Qed.

(* from the facts of the computer to the readable ones, preferred flavour *)
Lemma lfacts_pref L pre s' : no_answer pre ->
  lfacts e F n (fun _ => true) (pre ++ L) s' ->
  exists new, rlog s' = new ++ L /\ sat_no_twice e F n new /\ unsat_le_pr F new.
Proof.
  intros Hna (new & Ps & Hl & Hb & Hs & HP & HsP & Hu).
  exists (new ++ pre). split; [rewrite Hl; apply app_assoc|].
  unfold sat_no_twice, unsat_le_pr.
  rewrite sat_sets_app, n_unsat_app, (no_answer_sat n e pre Hna), (no_answer_unsat pre Hna), app_nil_r, Nat.add_0_r.
  split; [split; [exact Hb|split; [exact Hs|exact (sepl_base_le (enc_base e) F _ Hb Hs)]]|].
  assert (length Ps <= length (all_exts PR F)); [|lia].
  apply sepl_pr_le; [|exact HsP]. intros P HPin.
  apply (maxc_pr e F n HF (pr_base_adm e F Hpe) (pr_pr_base e F n HF Hpe) (fun _ => true)); [reflexivity|now apply HP].
Qed.

(* any flavour: the Sat answers *)
Lemma lfacts_sat alw L pre s' : no_answer pre ->
  lfacts e F n alw (pre ++ L) s' ->
  exists new, rlog s' = new ++ L /\ sat_no_twice e F n new.
Proof.
  intros Hna (new & Ps & Hl & Hb & Hs & _).
  exists (new ++ pre). split; [rewrite Hl; apply app_assoc|].
  unfold sat_no_twice. rewrite sat_sets_app, (no_answer_sat n e pre Hna), app_nil_r.
  split; [exact Hb|split; [exact Hs|exact (sepl_base_le (enc_base e) F _ Hb Hs)]].
Qed.

Section Preferred.
Hypothesis Hgr : gr_start F.

Let Hgr0 : cand e F (fun _ => true) (gr0 F).
Proof. split; [apply (co_base e F Hpe), Hgr|intros a _; reflexivity]. Qed.

Notation PRF := (fun new => sat_no_twice e F n new /\ unsat_le_pr F new).

(* a preferred computer created on an empty session and run by [body]: whatever happens, the
   events logged since [s] satisfy the facts *)
Lemma pref_session A (body : computer -> M A) s :
  cls s = [] -> sess_bounded s ->
  (forall C selv L0, 
     (forall v : val, vmodels v C = true -> base (ext_of e n v)) ->
     (forall S, base S -> exists v : val, vmodels v C = true /\
                  forall a, a < n -> (v (arg_var e a) = true <-> In a S)) ->
     bounded C (selv - 1) -> 0 < selv -> (forall a, a < n -> arg_var e a < selv) ->
     forall k s2, linvE e F n C selv FPref (fun _ => true) L0 k s2 ->
     wp (lfacts e F n (fun _ => true) L0) (lfacts e F n (fun _ => true) L0) (lfacts e F n (fun _ => true) L0)
        (body k) (fun _ s' => lfacts e F n (fun _ => true) L0 s') s2) ->
  wp (since s PRF) (since s PRF) (since s PRF)
     (encode_m thr e false F ;;; k <- new_cc_computer e F FPref ;; body k)
     (fun _ s' => since s PRF s') s.
Proof.
  intros Hc Hsb Hbody. apply setup_log; [exact Hc|exact Hsb|].
  intros C selv s2 pre HC Hc2 Hsb2 (Hfresh & Hselpos & Hargs) Hl2 Hna.
  assert (Hfin : forall t, lfacts e F n (fun _ => true) (rlog s2) t -> since s PRF t).
  { intros t Ht. rewrite Hl2 in Ht. exact (lfacts_pref (rlog s) pre t Hna Ht). }
  eapply (wp_conseq _ (lfacts e F n (fun _ => true) (rlog s2)) (lfacts e F n (fun _ => true) (rlog s2))
            (lfacts e F n (fun _ => true) (rlog s2))); [exact Hfin|exact Hfin|exact Hfin|].
  eapply wp_mono; [intros a t Ht; exact (Hfin t Ht)|].
  apply (Hbody C selv (rlog s2)
           (fun v Hv => all_sound e thr F n Hthr HF C v HC Hv)
           (fun S HS => all_complete e thr F n Hthr HF C S HC HS) Hfresh Hselpos Hargs).
  apply linv_init; [reflexivity|exact Hc2].
Qed.

(* the facts are insensitive to events that are not answers, logged before the session *)
Lemma prf_pre s1 s pre t : rlog s1 = pre ++ rlog s -> no_answer pre -> since s1 PRF t -> since s PRF t.
Proof.
  intros Hl Hna (new & Hn & [(H1 & H2 & H3) H4]). exists (new ++ pre). split; [rewrite Hn, Hl; apply app_assoc|].
  unfold sat_no_twice, unsat_le_pr in *.
  rewrite sat_sets_app, n_unsat_app, (no_answer_sat n e pre Hna), (no_answer_unsat pre Hna), app_nil_r, Nat.add_0_r.
  tauto.
Qed.
Lemma prf_nil s : since s PRF s.
Proof.
  exists []. split; [reflexivity|]. unfold sat_no_twice, unsat_le_pr. cbn [sat_sets n_unsat length].
  split; [split; [intros S []|split; [exact I|lia]]|lia].
Qed.
Lemma prf_new s t : since (st_new s) PRF t -> since s PRF t.
Proof.
  apply (prf_pre (st_new s) s [(S (nsess s), ENew)]); [reflexivity|].
  apply no_answer_cons; [discriminate|apply no_answer_nil].
Qed.

(* SE-PR on one component: new session, encoding, computer, compute_maximal *)
Theorem pr_max_in_cc_log c fuel s : c_af c = F ->
  match pr_max_in_cc oracle thr fuel e c s with
  | Done _ t | Abort t | Panic t | OutOfFuel t => since s PRF t
  end.
Proof.
  intros Ec. unfold pr_max_in_cc. rewrite Ec.
  apply (wp_result _ (since s PRF) (since s PRF) (since s PRF) _ (fun _ t => since s PRF t)); auto.
  rewrite wp_bind, wp_new_solver.
  eapply (wp_conseq _ (since (st_new s) PRF) (since (st_new s) PRF) (since (st_new s) PRF));
    try (intros t; apply prf_new).
  eapply wp_mono; [intros a t; apply prf_new|].
  apply (pref_session _ (fun k => l <- compute_maximal oracle fuel k ;; ret (lift c l)));
    [apply cls_new|apply sb_new|].
  intros C selv L0 Hs0 Hc0 Hfr Hsp Hargs k s2 Hi. rewrite wp_bind.
  eapply wp_mono; [|exact (compute_maximal_l oracle Hvalid e F n HF C selv Hs0 Hc0 Hfr Hsp Hargs FPref
                            (fun _ => true) (fl_ok_pref e n) Hgr0 L0 fuel k s2 Hi)].
  intros l t Ht. rewrite wp_ret. exact Ht.
Qed.

(* DS-PR on one component: the counter-example loop, with or without the shortcut *)
Theorem pr_ds_in_cc_log c fuel al sc s : c_af c = F ->
  match pr_ds_in_cc oracle thr fuel e c al sc s with
  | Done _ t | Abort t | Panic t | OutOfFuel t => since s PRF t
  end.
Proof.
  intros Ec. unfold pr_ds_in_cc. rewrite Ec.
  apply (wp_result _ (since s PRF) (since s PRF) (since s PRF) _ (fun _ t => since s PRF t)); auto.
  rewrite wp_bind. unfold locals_m. destruct (locals c al) as [la|]; [rewrite wp_ret|rewrite wp_panic; apply prf_nil].
  rewrite wp_bind, wp_new_solver.
  eapply (wp_conseq _ (since (st_new s) PRF) (since (st_new s) PRF) (since (st_new s) PRF));
    try (intros t; apply prf_new).
  eapply wp_mono; [intros a t; apply prf_new|].
  apply (pref_session _ (fun k => pr_ds_loop oracle fuel F la sc k)); [apply cls_new|apply sb_new|].
  intros C selv L0 Hs0 Hc0 Hfr Hsp Hargs k s2 Hi.
  exact (pr_ds_loop_l oracle Hvalid e F n HF C selv Hs0 Hc0 Hfr Hsp Hargs FPref
           (fun _ => true) (fl_ok_pref e n) Hgr0 L0 fuel F la sc k s2 Hi).
Qed.

End Preferred.
End Component.

(* ------------------------------------------------------------------------------------------ *)
(** * One connected component, ideal semantics: two phases on one session *)

(* phase 1 enumerates preferred extensions (a preferred computer), phase 2 - only when the
   intersection of the preferred extensions is neither the grounded extension nor the single
   preferred extension - grows a chain of sets inside that intersection (a second computer, ideal
   flavour, on the same session).  Within EACH phase no set is returned twice; a set may be
   returned once in each phase. *)
Definition ideal_two_phases (e : enc) (F : af) (n : nat) (new : list (nat * event)) : Prop :=
  exists new1 new2, new = new2 ++ new1 /\
    (sat_no_twice e F n new1 /\ unsat_le_pr F new1) /\ sat_no_twice e F n new2.

Section IdealComponent.
Variable oracle : nat -> cnf -> list lit -> answer.
Variable thr : nat.
Hypothesis Hthr : 1 <= thr.
Hypothesis Hvalid : valid_oracle oracle.
Variable e : enc.
Variable F : af.
Variable n : nat.
Hypothesis HF : compact_af F n.
Hypothesis Hpe : pr_enc e.
Hypothesis Hgr : gr_least F.

Notation base := (basep (enc_base e) F).
Notation g0 := (grounded (view_of_af F)).
Notation PRF := (fun new => sat_no_twice e F n new /\ unsat_le_pr F new).
Notation SAT := (sat_no_twice e F n).
Notation ID2 := (ideal_two_phases e F n).

Let Hwf : wf F := compact_wf F n HF.
Let Hgrs : gr_start F := gr_least_start F Hgr.
Let Hgrco : co F g0 := proj1 (proj1 Hgr).
Let Hgr0 : cand e F (fun _ => true) (gr0 F).
Proof. split; [apply (co_base e F Hpe), Hgrco|intros a _; reflexivity]. Qed.

Lemma sat_nil : SAT [].
Proof. unfold sat_no_twice. cbn [sat_sets length]. split; [intros S []|split; [exact I|lia]]. Qed.

(* phase 2: a computer of the ideal flavour on the session phase 1 left behind *)
Lemma ideal_session in_all fuel s :
  length in_all = n -> pr_core_spec F (id_single in_all) -> left_over thr e F n s ->
  wp (since s SAT) (since s SAT) (since s SAT)
     (id_maximal_allowed oracle fuel e F in_all) (fun _ t => since s SAT t) s.
Proof.
  intros Hlen Hcore (C & selv & Bs & HC & (Hfresh & Hselpos & Hargs) & Hcls & Hsb).
  unfold id_maximal_allowed, new_cc_computer, new_computer.
  rewrite (compact_length F n HF), wp_bind, wp_bind, wp_n_vars, wp_ret.
  set (nv := session_n_vars (sess s)). set (C0 := cls s).
  assert (Hb0 : bounded C0 nv) by (now apply nvars_fresh).
  assert (Hsel_le : selv <= nv).
  { specialize (Hb0 [zlit selv] (zlit selv)). rewrite lit_var_zlit in Hb0. apply Hb0; [|now left].
    unfold C0. rewrite Hcls. apply in_or_app. right. now left. }
  assert (Hs0 : forall v : val, vmodels v C0 = true -> base (ext_of e n v)).
  { intros v Hv. unfold C0 in Hv. rewrite Hcls, !vmodels_app in Hv.
    apply andb_prop in Hv. destruct Hv as [Hv _]. apply andb_prop in Hv. destruct Hv as [Hv _].
    exact (all_sound e thr F n Hthr HF C v HC Hv). }
  assert (Hc0 : forall S, base S -> exists v : val, vmodels v C0 = true /\
                  forall a, a < n -> (v (arg_var e a) = true <-> In a S)).
  { intros S HS. destruct (all_complete e thr F n Hthr HF C S HC HS) as [v [Hv Hvs]].
    exists (upd v selv true). split.
    - unfold C0. rewrite Hcls, !vmodels_app. apply andb_true_intro. split; [apply andb_true_intro; split|].
      + rewrite (vmodels_upd v selv true C (selv - 1) Hfresh); [exact Hv|lia].
      + apply vmodels_map. intros B _. apply (bclause_sel e n selv Hselpos). apply upd_same.
      + apply vmodels_single. rewrite vsat_single, (vtrue_zlit _ _ Hselpos). apply upd_same.
    - intros a Ha. rewrite upd_other; [now apply Hvs|]. specialize (Hargs a Ha). lia. }
  assert (Hg : cand e F (alw in_all) (gr0 F)).
  { split; [apply (co_base e F Hpe), Hgrco|]. intros a Ha.
    assert (In a (id_single in_all)).
    { apply Hcore. split; [exact (co_incl F _ Hgrco a Ha)|]. intros P HP. now apply (g0_below F n HF Hgr P). }
    now apply (in_id_single thr Hthr n in_all a Hlen) in H. }
  assert (Hsp : 0 < 1 + nv) by lia.
  assert (Hna : no_answer [(nsess s, ENVars nv)]) by (apply no_answer_cons; [discriminate|apply no_answer_nil]).
  assert (Hfin : forall t, lfacts e F n (alw in_all) (rlog (st_nvars s)) t -> since s SAT t).
  { intros t Ht. rewrite rlog_nvars in Ht.
    exact (lfacts_sat e F n (alw in_all) (rlog s) [(nsess s, ENVars nv)] t Hna Ht). }
  eapply (wp_conseq _ (lfacts e F n (alw in_all) (rlog (st_nvars s))) (lfacts e F n (alw in_all) (rlog (st_nvars s)))
            (lfacts e F n (alw in_all) (rlog (st_nvars s)))); [exact Hfin|exact Hfin|exact Hfin|].
  eapply wp_mono; [intros a t Ht; exact (Hfin t Ht)|].
  apply (compute_maximal_l oracle Hvalid e F n HF C0 (1 + nv) Hs0 Hc0
           ltac:(replace (1 + nv - 1) with nv by lia; exact Hb0) Hsp
           ltac:(intros a Ha; specialize (Hargs a Ha); lia)
           (FIdeal (id_forbidden e in_all)) (alw in_all) (fl_ok_ideal thr Hthr e n in_all Hlen) Hg
           (rlog (st_nvars s)) fuel).
  apply linv_init; [reflexivity|apply cls_nvars].
Qed.

(* phase 1: the enumeration of the preferred extensions; functional facts from MaxExtIdeal,
   log facts from the invariant *)
Lemma enum_session fuel s : cls s = [] -> sess_bounded s ->
  wp (since s PRF) (since s PRF) (since s PRF)
     (id_in_all oracle thr fuel e F (length g0))
     (fun r t => (in_all_post F n r /\ left_over thr e F n t) /\ since s PRF t) s.
Proof.
  intros Hc Hsb.
  pose proof (id_in_all_spec oracle thr Hthr Hvalid e F n HF Hpe Hgr fuel True
                (fun _ => True) (fun _ => True)
                (fun r t => in_all_post F n r /\ left_over thr e F n t) s Hc Hsb (or_intror I)
                (fun _ _ => I) (fun _ _ _ => I) (fun r t H1 H2 _ => conj H1 H2)) as W1.
  assert (W2 : wp (since s PRF) (since s PRF) (since s PRF)
                  (id_in_all oracle thr fuel e F (length g0)) (fun _ t => since s PRF t) s).
  { unfold id_in_all. cbv zeta. rewrite (compact_length F n HF).
    apply (pref_session thr Hthr e F n HF Hpe _
             (fun k => id_enum_loop oracle fuel n (length g0) k (repeat true n) 0 0)); [exact Hc|exact Hsb|].
    intros C selv L0 Hs0 Hc0 Hfr Hsp Hargs k s2 Hi.
    exact (id_enum_loop_l oracle Hvalid e F n HF C selv Hs0 Hc0 Hfr Hsp Hargs FPref
             (fun _ => true) (fl_ok_pref e n) Hgr0 L0 fuel n (length g0) k _ _ _ s2 Hi). }
  pose proof (wp_conj _ _ _ _ _ _ _ _ _ _ _ W1 W2) as W.
  eapply wp_conseq; [| | |exact W]; cbv beta; tauto.
Qed.

Lemma id2_phase1 s t : since (st_new s) PRF t -> since s ID2 t.
Proof.
  intros H. apply (prf_new e F n) in H. destruct H as (new & Hl & Hf).
  exists new. split; [exact Hl|]. exists new, []. split; [reflexivity|]. split; [exact Hf|apply sat_nil].
Qed.
Lemma id2_phase2 s s1 t : since (st_new s) PRF s1 -> since s1 SAT t -> since s ID2 t.
Proof.
  intros H1 (new2 & Hl2 & Hf2). apply (prf_new e F n) in H1. destruct H1 as (new1 & Hl1 & Hf1).
  exists (new2 ++ new1). split; [rewrite Hl2, Hl1; apply app_assoc|].
  exists new1, new2. split; [reflexivity|]. split; assumption.
Qed.

(* SE-ID on one component *)
Theorem id_ext_for_cc_log fuel s :
  match id_ext_for_cc oracle thr fuel e F s with
  | Done _ t | Abort t | Panic t | OutOfFuel t => since s ID2 t
  end.
Proof.
  unfold id_ext_for_cc. cbv zeta.
  apply (wp_result _ (since s ID2) (since s ID2) (since s ID2) _ (fun _ t => since s ID2 t)); auto.
  rewrite wp_bind, wp_new_solver, wp_bind.
  eapply (wp_conseq _ (since (st_new s) PRF) (since (st_new s) PRF) (since (st_new s) PRF));
    try (intros t; apply id2_phase1).
  eapply wp_mono; [|exact (enum_session fuel (st_new s) (cls_new s) (sb_new s))].
  intros [[in_all n_in_all] n_pref] s1 [[(Hlen & Hcore & _) Hleft] H1]. cbn [fst snd] in Hlen, Hcore.
  destruct (Nat.eqb n_in_all (length g0)); [rewrite wp_ret; now apply id2_phase1|].
  destruct (Nat.eqb n_pref 1); [rewrite wp_ret; now apply id2_phase1|].
  eapply (wp_conseq _ (since s1 SAT) (since s1 SAT) (since s1 SAT));
    try (intros t; apply (id2_phase2 s s1 t H1)).
  eapply wp_mono; [intros a t; apply (id2_phase2 s s1 t H1)|].
  exact (ideal_session in_all fuel s1 Hlen Hcore Hleft).
Qed.

(* DC-ID (and, through it, DS-ID) on one component *)
Theorem id_cred_for_cc_log fuel la s :
  match id_cred_for_cc oracle thr fuel e F la s with
  | Done _ t | Abort t | Panic t | OutOfFuel t => since s ID2 t
  end.
Proof.
  unfold id_cred_for_cc. cbv zeta.
  apply (wp_result _ (since s ID2) (since s ID2) (since s ID2) _ (fun _ t => since s ID2 t)); auto.
  rewrite wp_bind, wp_new_solver, wp_bind.
  eapply (wp_conseq _ (since (st_new s) PRF) (since (st_new s) PRF) (since (st_new s) PRF));
    try (intros t; apply id2_phase1).
  eapply wp_mono; [|exact (enum_session fuel (st_new s) (cls_new s) (sb_new s))].
  intros [[in_all n_in_all] n_pref] s1 [[(Hlen & Hcore & _) Hleft] H1]. cbn [fst snd] in Hlen, Hcore.
  destruct (forallb _ la); [rewrite wp_ret; now apply id2_phase1|].
  destruct (Nat.eqb n_in_all (length g0)); [rewrite wp_ret; now apply id2_phase1|].
  destruct (Nat.eqb n_pref 1); [rewrite wp_ret; now apply id2_phase1|].
  rewrite wp_bind.
  eapply (wp_conseq _ (since s1 SAT) (since s1 SAT) (since s1 SAT));
    try (intros t; apply (id2_phase2 s s1 t H1)).
  eapply wp_mono; [|exact (ideal_session in_all fuel s1 Hlen Hcore Hleft)].
  intros l t Ht. rewrite wp_ret. exact (id2_phase2 s s1 t H1 Ht).
Qed.

End IdealComponent.

(* ------------------------------------------------------------------------------------------ *)
(** * The statements re-exported by Properties/C18log.v *)

(* pairwise different AS SETS, by positions *)
Definition pairwise_different (l : list (list nat)) : Prop :=
  forall i j S T, i < j -> nth_error l i = Some S -> nth_error l j = Some T ->
    ~ (forall a, In a S <-> In a T).

Lemma sepl_pairwise l : sepl l -> pairwise_different l.
Proof.
  induction l as [|X r IH]; intros Hs i j S T Hij Hi Hj.
  - destruct i; discriminate.
  - destruct Hs as [Hne Hr]. destruct j as [|j]; [lia|]. cbn [nth_error] in Hj. destruct i as [|i].
    + cbn [nth_error] in Hi. injection Hi as ->. apply (Hne T). exact (nth_error_In r j Hj).
    + cbn [nth_error] in Hi. apply (IH Hr i j S T); [lia|exact Hi|exact Hj].
Qed.

(* the facts about the Sat answers of one computer, spelled out *)
Definition sat_answers_ok (e : enc) (F : af) (n : nat) (new : list (nat * event)) : Prop :=
  let sets := sat_sets n e new in
  (forall S, In S sets -> basep (enc_base e) F S) /\
  pairwise_different sets /\
  length sets <= length (all_base (enc_base e) F).

Lemma sat_no_twice_ok e F n new : sat_no_twice e F n new -> sat_answers_ok e F n new.
Proof. intros (H1 & H2 & H3). split; [exact H1|]. split; [exact (sepl_pairwise _ H2)|exact H3]. Qed.

Section Export.
Variable oracle : nat -> cnf -> list lit -> answer.
Variable thr : nat.
Hypothesis Hthr : 1 <= thr.
Hypothesis Hvalid : valid_oracle oracle.
Variable e : enc.
Hypothesis Hpe : pr_enc e.

Lemma compact_gr_least F n : compact_af F n -> gr_least F.
Proof. intros HF. exact (GroundedProofs.grounded_compact F n HF). Qed.

Theorem log_preferred_se : forall c n, compact_af (c_af c) n -> forall fuel s,
  match pr_max_in_cc oracle thr fuel e c s with
  | Done _ t | Abort t | Panic t | OutOfFuel t =>
      exists new, rlog t = new ++ rlog s /\
        sat_answers_ok e (c_af c) n new /\ n_unsat new <= length (all_exts PR (c_af c)) + 1
  end.
Proof.
  intros c n HF fuel s.
  pose proof (pr_max_in_cc_log oracle thr Hthr Hvalid e (c_af c) n HF Hpe
                (gr_least_start _ (compact_gr_least _ n HF)) c fuel s eq_refl) as H.
  destruct (pr_max_in_cc oracle thr fuel e c s); destruct H as (new & Hl & H1 & H2);
    exists new; (split; [exact Hl|split; [exact (sat_no_twice_ok _ _ _ _ H1)|exact H2]]).
Qed.

Theorem log_preferred_ds : forall c n, compact_af (c_af c) n -> forall fuel al shortcut s,
  match pr_ds_in_cc oracle thr fuel e c al shortcut s with
  | Done _ t | Abort t | Panic t | OutOfFuel t =>
      exists new, rlog t = new ++ rlog s /\
        sat_answers_ok e (c_af c) n new /\ n_unsat new <= length (all_exts PR (c_af c)) + 1
  end.
Proof.
  intros c n HF fuel al sc s.
  pose proof (pr_ds_in_cc_log oracle thr Hthr Hvalid e (c_af c) n HF Hpe
                (gr_least_start _ (compact_gr_least _ n HF)) c fuel al sc s eq_refl) as H.
  destruct (pr_ds_in_cc oracle thr fuel e c al sc s); destruct H as (new & Hl & H1 & H2);
    exists new; (split; [exact Hl|split; [exact (sat_no_twice_ok _ _ _ _ H1)|exact H2]]).
Qed.

Lemma id2_ok F n s t : since s (ideal_two_phases e F n) t ->
  exists new1 new2, rlog t = new2 ++ new1 ++ rlog s /\
    (sat_answers_ok e F n new1 /\ n_unsat new1 <= length (all_exts PR F) + 1) /\
    sat_answers_ok e F n new2.
Proof.
  intros (new & Hl & new1 & new2 & -> & [H1 H2] & H3). exists new1, new2.
  split; [rewrite Hl; symmetry; apply app_assoc|].
  split; [split; [exact (sat_no_twice_ok _ _ _ _ H1)|exact H2]|exact (sat_no_twice_ok _ _ _ _ H3)].
Qed.

Theorem log_ideal_se : forall F n, compact_af F n -> forall fuel s,
  match id_ext_for_cc oracle thr fuel e F s with
  | Done _ t | Abort t | Panic t | OutOfFuel t =>
      exists new1 new2, rlog t = new2 ++ new1 ++ rlog s /\
        (sat_answers_ok e F n new1 /\ n_unsat new1 <= length (all_exts PR F) + 1) /\
        sat_answers_ok e F n new2
  end.
Proof.
  intros F n HF fuel s.
  pose proof (id_ext_for_cc_log oracle thr Hthr Hvalid e F n HF Hpe (compact_gr_least F n HF) fuel s) as H.
  destruct (id_ext_for_cc oracle thr fuel e F s); exact (id2_ok F n s _ H).
Qed.

Theorem log_ideal_cred : forall F n, compact_af F n -> forall fuel la s,
  match id_cred_for_cc oracle thr fuel e F la s with
  | Done _ t | Abort t | Panic t | OutOfFuel t =>
      exists new1 new2, rlog t = new2 ++ new1 ++ rlog s /\
        (sat_answers_ok e F n new1 /\ n_unsat new1 <= length (all_exts PR F) + 1) /\
        sat_answers_ok e F n new2
  end.
Proof.
  intros F n HF fuel la s.
  pose proof (id_cred_for_cc_log oracle thr Hthr Hvalid e F n HF Hpe (compact_gr_least F n HF) fuel la s) as H.
  destruct (id_cred_for_cc oracle thr fuel e F la s); exact (id2_ok F n s _ H).
Qed.

End Export.

(* ------------------------------------------------------------------------------------------ *)
(** * Whole runs: one segment of the log per component worked on *)

(* [segmented P cs new]: the events [new] (most recent first) split into consecutive segments, one
   per component of [cs] in the order the components were worked on, and the segment of c
   satisfies [P c] *)
Inductive segmented (P : comp -> list (nat * event) -> Prop) : list comp -> list (nat * event) -> Prop :=
| seg_nil : segmented P [] []
| seg_cons : forall c cs seg rest, P c seg -> segmented P cs rest -> segmented P (c :: cs) (rest ++ seg).

(* the facts of a preferred / an ideal computation on the component c (its framework has the
   arguments 0 .. |c_ids c| - 1) *)
Definition comp_pr_ok (e : enc) (c : comp) (seg : list (nat * event)) : Prop :=
  sat_answers_ok e (c_af c) (length (c_ids c)) seg /\
  n_unsat seg <= length (all_exts PR (c_af c)) + 1.
Definition comp_id_ok (e : enc) (c : comp) (seg : list (nat * event)) : Prop :=
  exists new1 new2, seg = new2 ++ new1 /\ comp_pr_ok e c new1 /\
                    sat_answers_ok e (c_af c) (length (c_ids c)) new2.

Definition run_segs (P : comp -> list (nat * event) -> Prop) (l : list comp) (s t : Prog.st) : Prop :=
  exists cs new, rlog t = new ++ rlog s /\ incl cs l /\ segmented P cs new.

(* [R] holds of the final state however the program ends *)
Definition every {A} (m : M A) (R : Prog.st -> Prop) (s : Prog.st) : Prop :=
  wp R R R m (fun _ t => R t) s.
Lemma every_match A (m : M A) R s :
  match m s with Done _ t | Abort t | Panic t | OutOfFuel t => R t end <-> every m R s.
Proof. unfold every, wp. destruct (m s); reflexivity. Qed.
Lemma every_conseq A (m : M A) (R R' : Prog.st -> Prop) s : (forall t, R t -> R' t) -> every m R s -> every m R' s.
Proof. unfold every, wp. intros H. destruct (m s); auto. Qed.

Lemma segs_nil P l s : run_segs P l s s.
Proof. exists [], []. split; [reflexivity|]. split; [intros x []|constructor]. Qed.
Lemma segs_one P c r s t : since s (P c) t -> run_segs P (c :: r) s t.
Proof.
  intros (seg & Hl & Hp). exists [c], ([] ++ seg). split; [exact Hl|]. split; [intros x [<-|[]]; now left|].
  constructor; [exact Hp|constructor].
Qed.
Lemma segs_step P c r s s1 t : since s (P c) s1 -> run_segs P r s1 t -> run_segs P (c :: r) s t.
Proof.
  intros (seg & Hl & Hp) (cs & new & Hl' & Hin & Hs). exists (c :: cs), (new ++ seg).
  split; [rewrite Hl', Hl; apply app_assoc|]. split.
  - intros x [<-|Hx]; [now left|right; now apply Hin].
  - now constructor.
Qed.
Lemma segs_weaken P l l' s t : incl l l' -> run_segs P l s t -> run_segs P l' s t.
Proof. intros H (cs & new & Hl & Hin & Hs). exists cs, new. split; [exact Hl|]. split; [exact (incl_tran Hin H)|exact Hs]. Qed.

Lemma for_ccs_segs A P (f : A -> comp -> M A) l :
  (forall c acc s, In c l -> every (f acc c) (since s (P c)) s) ->
  forall acc s, every (for_ccs l acc f) (run_segs P l s) s.
Proof.
  induction l as [|c r IH]; intros Hf acc s; cbn [for_ccs]; unfold every.
  - rewrite wp_ret. apply segs_nil.
  - rewrite wp_bind.
    eapply (wp_conseq _ (since s (P c)) (since s (P c)) (since s (P c))); try (intros t; apply segs_one).
    eapply wp_mono; [|exact (Hf c acc s (or_introl eq_refl))].
    intros a s1 H1. cbv beta.
    eapply (wp_conseq _ (run_segs P r s1) (run_segs P r s1) (run_segs P r s1));
      try (intros t; apply (segs_step P c r s s1 t H1)).
    eapply wp_mono; [intros b t; apply (segs_step P c r s s1 t H1)|].
    apply IH. intros c' acc' s' Hc'. apply Hf. now right.
Qed.

(* events that are not answers, logged before the computation, are absorbed *)
Lemma sat_ok_pre e F n seg pre : no_answer pre -> sat_answers_ok e F n seg -> sat_answers_ok e F n (seg ++ pre).
Proof.
  intros Hna H. unfold sat_answers_ok in *. cbv zeta in *.
  rewrite sat_sets_app, (no_answer_sat n e pre Hna), app_nil_r. exact H.
Qed.
Lemma comp_pr_pre e c seg pre : no_answer pre -> comp_pr_ok e c seg -> comp_pr_ok e c (seg ++ pre).
Proof.
  intros Hna [H1 H2]. split; [now apply sat_ok_pre|].
  rewrite n_unsat_app, (no_answer_unsat pre Hna), Nat.add_0_r. exact H2.
Qed.
Lemma comp_id_pre e c seg pre : no_answer pre -> comp_id_ok e c seg -> comp_id_ok e c (seg ++ pre).
Proof.
  intros Hna (new1 & new2 & -> & H1 & H2). exists (new1 ++ pre), new2.
  split; [symmetry; apply app_assoc|]. split; [now apply comp_pr_pre|exact H2].
Qed.
Lemma since_pre (P : list (nat * event) -> Prop) s1 s pre t :
  (forall seg, P seg -> P (seg ++ pre)) -> rlog s1 = pre ++ rlog s -> since s1 P t -> since s P t.
Proof.
  intros HP Hl (seg & Hs & Hp). exists (seg ++ pre). split; [rewrite Hs, Hl; apply app_assoc|now apply HP].
Qed.
Lemma comp_pr_id e c seg : comp_pr_ok e c seg -> comp_id_ok e c seg.
Proof.
  intros H. exists seg, []. split; [reflexivity|]. split; [exact H|].
  unfold sat_answers_ok. cbn [sat_sets length]. split; [intros S []|]. split; [|lia].
  intros i j S T _ Hi. destruct i; discriminate.
Qed.

Section Run.
Variable oracle : nat -> cnf -> list lit -> answer.
Variable thr : nat.
Hypothesis Hthr : 1 <= thr.
Hypothesis Hvalid : valid_oracle oracle.
Variable e : enc.
Hypothesis Hpe : pr_enc e.

Notation okc := (fun c => compact_af (c_af c) (length (c_ids c))).
Notation PRc := (comp_pr_ok e).
Notation IDc := (comp_id_ok e).

(* the per-component bodies *)
Lemma body_pr_max c fuel (merged : list nat) s : okc c ->
  every (l <- pr_max_in_cc oracle thr fuel e c ;; ret (merged ++ l)) (since s (PRc c)) s.
Proof.
  intros Hc. unfold every. rewrite wp_bind.
  eapply wp_mono; [|apply every_match; exact (log_preferred_se oracle thr Hthr Hvalid e Hpe c _ Hc fuel s)].
  intros l t Ht. rewrite wp_ret. exact Ht.
Qed.
Lemma body_pr_ds c fuel al sc s : okc c ->
  every (pr_ds_in_cc oracle thr fuel e c al sc) (since s (PRc c)) s.
Proof. intros Hc. apply every_match. exact (log_preferred_ds oracle thr Hthr Hvalid e Hpe c _ Hc fuel al sc s). Qed.

Lemma id_since F n s t :
  (exists new1 new2, rlog t = new2 ++ new1 ++ rlog s /\
     (sat_answers_ok e F n new1 /\ n_unsat new1 <= length (all_exts PR F) + 1) /\ sat_answers_ok e F n new2) ->
  since s (fun seg => exists new1 new2, seg = new2 ++ new1 /\
             (sat_answers_ok e F n new1 /\ n_unsat new1 <= length (all_exts PR F) + 1) /\
             sat_answers_ok e F n new2) t.
Proof.
  intros (new1 & new2 & Hl & H1 & H2). exists (new2 ++ new1). split; [rewrite Hl; apply app_assoc|].
  exists new1, new2. split; [reflexivity|]. split; assumption.
Qed.

Lemma body_id_ext c fuel s : okc c -> every (id_ext_for_cc oracle thr fuel e (c_af c)) (since s (IDc c)) s.
Proof.
  intros Hc. apply every_match.
  pose proof (log_ideal_se oracle thr Hthr Hvalid e Hpe (c_af c) _ Hc fuel s) as H.
  destruct (id_ext_for_cc oracle thr fuel e (c_af c) s); exact (id_since _ _ s _ H).
Qed.
Lemma body_id_cred c fuel la s : okc c -> every (id_cred_for_cc oracle thr fuel e (c_af c) la) (since s (IDc c)) s.
Proof.
  intros Hc. apply every_match.
  pose proof (log_ideal_cred oracle thr Hthr Hvalid e Hpe (c_af c) _ Hc fuel la s) as H.
  destruct (id_cred_for_cc oracle thr fuel e (c_af c) la s); exact (id_since _ _ s _ H).
Qed.

(* id_se opens a session per component that is never used, then id_ext_for_cc opens its own *)
Lemma body_id_se c fuel (merged : list nat) s : okc c ->
  every (new_solver ;;; encode_m thr e false (c_af c) ;;;
         l <- id_ext_for_cc oracle thr fuel e (c_af c) ;; ret (merged ++ lift c l)) (since s (IDc c)) s.
Proof.
  intros Hc. unfold every.
  destruct (enc_reserve thr Hthr e (c_af c) _ Hc Hpe) as (r & C & HE & _).
  rewrite wp_bind, wp_new_solver, wp_bind, (wp_encode_m thr _ _ _ e false (c_af c) (Some r) C _ _ HE), wp_bind.
  set (s1 := st_encoded (st_new s) (Some r) C).
  destruct (rlog_encoded (st_new s) (Some r) C) as (pre & Hpre & Hna). fold s1 in Hpre.
  assert (Hl1 : rlog s1 = (pre ++ [(S (nsess s), ENew)]) ++ rlog s) by (rewrite Hpre, <- app_assoc; reflexivity).
  assert (Hna1 : no_answer (pre ++ [(S (nsess s), ENew)])).
  { apply no_answer_app; [exact Hna|apply no_answer_cons; [discriminate|apply no_answer_nil]]. }
  assert (Hconv : forall t, since s1 (IDc c) t -> since s (IDc c) t).
  { intros t. apply (since_pre _ s1 s _ t (fun seg => comp_id_pre e c seg _ Hna1) Hl1). }
  eapply (wp_conseq _ (since s1 (IDc c)) (since s1 (IDc c)) (since s1 (IDc c))); try exact Hconv.
  eapply wp_mono; [|exact (body_id_ext c fuel s1 Hc)].
  intros l t Ht. rewrite wp_ret. exact (Hconv t Ht).
Qed.

Section Entries.
Variable g : gview.
Variable fuel : nat.

Theorem pr_se_segs s : (forall c, In c (all_comps g) -> okc c) ->
  every (pr_se oracle thr fuel e g) (run_segs PRc (all_comps g) s) s.
Proof.
  unfold pr_se, ccs_m, all_comps. intros Hok. unfold every. destruct (all_ccs g) as [ccs|].
  - rewrite wp_bind, wp_ret, wp_bind. eapply wp_mono; [|apply for_ccs_segs].
    + intros r t Ht. rewrite wp_ret. exact Ht.
    + intros c acc s' Hc. apply body_pr_max. now apply Hok.
  - rewrite wp_bind, wp_panic. apply segs_nil.
Qed.

Theorem pr_ds_segs al s : (forall c, In c (merged_comps g al) -> okc c) ->
  every (pr_ds oracle thr fuel e g al) (run_segs PRc (merged_comps g al) s) s.
Proof.
  unfold pr_ds, merged_m, merged_comps. intros Hok. unfold every.
  destruct (merged_cc_of g (cc_new g) al) as [[s' c]|].
  - rewrite wp_bind, wp_ret, wp_bind. cbn [snd].
    eapply (wp_conseq _ (since s (PRc c)) (since s (PRc c)) (since s (PRc c))); try (intros t; apply segs_one).
    eapply wp_mono; [|apply body_pr_ds; apply Hok; now left].
    intros r t Ht. rewrite wp_ret. now apply segs_one.
  - rewrite wp_bind, wp_panic. apply segs_nil.
Qed.

Theorem pr_ds_cert_segs al s : (forall c, In c (merged_comps g al) -> okc c) ->
  every (pr_ds_cert oracle thr fuel e g al) (run_segs PRc (merged_comps g al) s) s.
Proof.
  unfold pr_ds_cert, merged_m, merged_comps. intros Hok. unfold every.
  destruct (merged_cc_of g (cc_new g) al) as [[s' c]|]; [|rewrite wp_bind, wp_panic; apply segs_nil].
  rewrite wp_bind, wp_ret, wp_bind. cbn [snd fst].
  eapply (wp_conseq _ (since s (PRc c)) (since s (PRc c)) (since s (PRc c))); try (intros t; apply segs_one).
  eapply wp_mono; [|apply body_pr_ds; apply Hok; now left].
  intros [b ce] s1 H1. unfold remaining_m.
  destruct b, ce as [ce|]; try (rewrite wp_ret; now apply segs_one); try (rewrite wp_panic; now apply segs_one).
  destruct (remaining_ccs g s') as [others|]; [|rewrite wp_bind, wp_panic; now apply segs_one].
  rewrite wp_bind, wp_ret, wp_bind.
  eapply (wp_conseq _ (run_segs PRc others s1) (run_segs PRc others s1) (run_segs PRc others s1));
    try (intros t; apply (segs_step PRc c others s s1 t H1)).
  eapply wp_mono; [|apply for_ccs_segs].
  - intros r t Ht. rewrite wp_ret. exact (segs_step PRc c others s s1 t H1 Ht).
  - intros c' acc s'' Hc'. apply body_pr_max. apply Hok. now right.
Qed.

Theorem id_se_segs s : (forall c, In c (all_comps g) -> okc c) ->
  every (id_se oracle thr fuel e g) (run_segs IDc (all_comps g) s) s.
Proof.
  unfold id_se, ccs_m, all_comps. intros Hok. unfold every. destruct (all_ccs g) as [ccs|].
  - rewrite wp_bind, wp_ret, wp_bind. eapply wp_mono; [|apply for_ccs_segs].
    + intros r t Ht. rewrite wp_ret. exact Ht.
    + intros c acc s' Hc. apply body_id_se. now apply Hok.
  - rewrite wp_bind, wp_panic. apply segs_nil.
Qed.

Theorem id_dc_segs al s : (forall c, In c (merged_comps g al) -> okc c) ->
  every (id_dc oracle thr fuel e g al) (run_segs IDc (merged_comps g al) s) s.
Proof.
  unfold id_dc, merged_m, locals_m, merged_comps. intros Hok. unfold every.
  destruct (merged_cc_of g (cc_new g) al) as [[s' c]|]; [|rewrite wp_bind, wp_panic; apply segs_nil].
  rewrite wp_bind, wp_ret, wp_bind. cbn [snd].
  destruct (locals c al) as [la|]; [rewrite wp_ret|rewrite wp_panic; apply segs_nil]. rewrite wp_bind.
  eapply (wp_conseq _ (since s (IDc c)) (since s (IDc c)) (since s (IDc c))); try (intros t; apply segs_one).
  eapply wp_mono; [|apply body_id_cred; apply Hok; now left].
  intros r t Ht. rewrite wp_ret. now apply segs_one.
Qed.

Theorem id_dc_cert_segs al s : (forall c, In c (merged_comps g al) -> okc c) ->
  every (id_dc_cert oracle thr fuel e g al) (run_segs IDc (merged_comps g al) s) s.
Proof.
  unfold id_dc_cert, merged_m, locals_m, merged_comps. intros Hok. unfold every.
  destruct (merged_cc_of g (cc_new g) al) as [[s' c]|]; [|rewrite wp_bind, wp_panic; apply segs_nil].
  rewrite wp_bind, wp_ret, wp_bind. cbn [snd fst].
  destruct (locals c al) as [la|]; [rewrite wp_ret|rewrite wp_panic; apply segs_nil]. rewrite wp_bind.
  eapply (wp_conseq _ (since s (IDc c)) (since s (IDc c)) (since s (IDc c))); try (intros t; apply segs_one).
  eapply wp_mono; [|apply body_id_cred; apply Hok; now left].
  intros [b ce] s1 H1. unfold remaining_m.
  destruct b, ce as [ce|]; try (rewrite wp_ret; now apply segs_one).
  destruct (remaining_ccs g s') as [others|]; [|rewrite wp_bind, wp_panic; now apply segs_one].
  rewrite wp_bind, wp_ret, wp_bind.
  eapply (wp_conseq _ (run_segs IDc others s1) (run_segs IDc others s1) (run_segs IDc others s1));
    try (intros t; apply (segs_step IDc c others s s1 t H1)).
  eapply wp_mono; [|apply for_ccs_segs].
  - intros r t Ht. rewrite wp_ret. exact (segs_step IDc c others s s1 t H1 Ht).
  - intros c' acc s'' Hc'. unfold every. rewrite wp_bind.
    eapply wp_mono; [|apply body_id_ext; apply Hok; now right].
    intros l t Ht. rewrite wp_ret. exact Ht.
Qed.

Theorem id_ds_cert_segs al s : (forall c, In c (all_comps g) -> okc c) ->
  every (id_ds_cert oracle thr fuel e g al) (run_segs IDc (all_comps g) s) s.
Proof.
  intros Hok. unfold id_ds_cert, every. rewrite wp_bind.
  eapply wp_mono; [|exact (id_se_segs s Hok)].
  intros [ext|] t Ht; [destruct (meets al ext); rewrite wp_ret; exact Ht|rewrite wp_panic; exact Ht].
Qed.

End Entries.
End Run.

(* the dispatcher: every PR / ID entry point of run_query *)
Lemma every_bind_ret A B (m : M A) (f : A -> B) R s : every m R s -> every (r <- m ;; ret (f r)) R s.
Proof. unfold every. intros H. rewrite wp_bind. eapply wp_mono; [|exact H]. intros a t Ht. rewrite wp_ret. exact Ht. Qed.

Definition comp_log_ok (s : sem) (e : enc) : comp -> list (nat * event) -> Prop :=
  match s with ID => comp_id_ok e | _ => comp_pr_ok e end.

Theorem run_query_segs : forall oracle thr g F,
  valid_oracle oracle -> 1 <= thr -> view_good g F ->
  forall s q cert e al fuel st0, s = PR \/ s = ID ->
  supported s q -> enc_ok s e -> al_ok s q F al ->
  match run_query oracle thr fuel s q cert e g al st0 with
  | Done _ t | Abort t | Panic t | OutOfFuel t =>
      run_segs (comp_log_ok s e) (query_comps s q cert g al) st0 t
  end.
Proof.
  intros oracle thr g F Hv Ht Hvg s q cert e al fuel st0 Hs Hsup He Ha.
  pose proof (query_comps_decomp g F s q cert al Hvg Ha) as Hd.
  assert (Hok : forall c, In c (query_comps s q cert g al) -> compact_af (c_af c) (length (c_ids c))).
  { intros c Hc. exact (d_compact _ _ Hd c Hc). }
  assert (Hpe : pr_enc e) by (destruct Hs as [-> | ->]; exact He).
  apply every_match. unfold run_query.
  destruct Hs as [-> | ->]; destruct q; cbn [supported] in Hsup; try contradiction;
    cbn [query_comps comp_log_ok] in *.
  - apply every_bind_ret. exact (pr_se_segs oracle thr Ht Hv e Hpe g fuel st0 Hok).
  - destruct cert; apply every_bind_ret.
    + exact (pr_ds_cert_segs oracle thr Ht Hv e Hpe g fuel al st0 Hok).
    + exact (pr_ds_segs oracle thr Ht Hv e Hpe g fuel al st0 Hok).
  - apply every_bind_ret. exact (id_se_segs oracle thr Ht Hv e Hpe g fuel st0 Hok).
  - destruct cert; apply every_bind_ret.
    + exact (id_dc_cert_segs oracle thr Ht Hv e Hpe g fuel al st0 Hok).
    + exact (id_dc_segs oracle thr Ht Hv e Hpe g fuel al st0 Hok).
  - destruct cert; apply every_bind_ret.
    + exact (id_ds_cert_segs oracle thr Ht Hv e Hpe g fuel al st0 Hok).
    + exact (id_dc_segs oracle thr Ht Hv e Hpe g fuel al st0 Hok).
Qed.

(* consequence for the whole log: summing over the segments, the run received at most
   sum |base(c)| (PR) resp. 2 * sum |base(c)| (ID) Sat answers *)
Fixpoint n_sat (l : list (nat * event)) : nat :=
  match l with
  | [] => 0
  | (_, ESolve _ (Sat _)) :: r => S (n_sat r)
  | _ :: r => n_sat r
  end.
Lemma n_sat_sets n e l : length (sat_sets n e l) = n_sat l.
Proof.
  induction l as [|[k ev] r IH]; [reflexivity|]. cbn [sat_sets n_sat].
  destruct ev as [| | | |a [m| |]]; cbn [length]; now rewrite IH.
Qed.
Lemma n_sat_app l l' : n_sat (l ++ l') = n_sat l + n_sat l'.
Proof.
  induction l as [|[k ev] r IH]; [reflexivity|]. cbn [app n_sat].
  destruct ev as [| | | |a [m| |]]; cbn [app]; rewrite IH; reflexivity.
Qed.
Definition base_count (e : enc) (cs : list comp) : nat :=
  fold_right (fun c acc => length (all_base (enc_base e) (c_af c)) + acc) 0 cs.

Lemma segmented_pr_count e cs new : segmented (comp_pr_ok e) cs new -> n_sat new <= base_count e cs.
Proof.
  induction 1 as [|c cs seg rest [(_ & _ & H3) _] _ IH]; [cbn; lia|].
  rewrite n_sat_app. cbn [base_count fold_right]. fold (base_count e cs).
  rewrite (n_sat_sets (length (c_ids c)) e seg) in H3. lia.
Qed.
Lemma segmented_id_count e cs new : segmented (comp_id_ok e) cs new -> n_sat new <= 2 * base_count e cs.
Proof.
  induction 1 as [|c cs seg rest (new1 & new2 & -> & [(_ & _ & H3) _] & (_ & _ & H4)) _ IH]; [cbn; lia|].
  rewrite !n_sat_app. cbn [base_count fold_right]. fold (base_count e cs).
  rewrite (n_sat_sets (length (c_ids c)) e new1) in H3. rewrite (n_sat_sets (length (c_ids c)) e new2) in H4. lia.
Qed.

Print Assumptions compute_next_step.
Print Assumptions log_preferred_se.
Print Assumptions log_preferred_ds.
Print Assumptions log_ideal_se.
Print Assumptions log_ideal_cred.
Print Assumptions run_query_segs.
Print Assumptions segmented_pr_count.
Print Assumptions segmented_id_count.
