(* The dynamic PREFERRED solver (kind KPr, skeptical acceptance): the MaximalExtensionComputer copy of
   Model/Dynamic.v (dcomp / k_compute_next / k_discard / k_new_search / pr_loop) on the SHARED session
   whose clauses satisfy the clause-set invariant.  Same abstract loop as Proofs/MaxExtCore.v (states
   Init / Intermediate / Maximal / JustDiscarded / None, ghost list of blocked sets, invariant [dead]);
   the static lemmas are hard-wired to Model.Solvers.computer and a compact encoded component, so the
   step lemmas are re-proved here against the bridge theorems of Proofs/DynFun.v.
   Part A: blocking clauses, what a valid answer means.  Part B: the state machine and the loop.
   Part C: the query, the cache, reachable states.  Part D: the theorems. *)
From Crusta Require Import Model.Dynamic Spec.SemFacts Spec.Theory Spec.Invariance Proofs.ProgLaws Proofs.StoreBase
  Proofs.StoreProofs Proofs.EncBase Proofs.SolverBasics Proofs.MaxExtCore Proofs.GroundedProofs Proofs.DynDefs
  Proofs.DynBase Proofs.DynProofs Proofs.DynEnc Proofs.DynSafe Proofs.DynStore Proofs.DynFunDefs Proofs.DynInv
  Proofs.DynFun Proofs.DynTotal Proofs.CompProofs.
From Coq Require Import Lia ZifyBool.

Lemma Forall2_in_l {A B} (R : A -> B -> Prop) l1 l2 x :
  Forall2 R l1 l2 -> In x l1 -> exists y, In y l2 /\ R x y.
Proof.
  induction 1 as [|a b r1 r2 Hab Hr IH]; intros Hin; [destruct Hin|].
  destruct Hin as [<-|Hin]; [exists b; split; [left; reflexivity|exact Hab]|].
  destruct (IH Hin) as (y & Hy & HR). exists y. split; [right; exact Hy|exact HR].
Qed.
Lemma Forall2_in_r {A B} (R : A -> B -> Prop) l1 l2 y :
  Forall2 R l1 l2 -> In y l2 -> exists x, In x l1 /\ R x y.
Proof.
  induction 1 as [|a b r1 r2 Hab Hr IH]; intros Hin; [destruct Hin|].
  destruct Hin as [<-|Hin]; [exists a; split; [left; reflexivity|exact Hab]|].
  destruct (IH Hin) as (x & Hx & HR). exists x. split; [right; exact Hx|exact HR].
Qed.
Lemma Forall2_snoc {A B} (R : A -> B -> Prop) l1 l2 x y :
  Forall2 R l1 l2 -> R x y -> Forall2 R (l1 ++ [x]) (l2 ++ [y]).
Proof. intros H1 H2. apply Forall2_app; [exact H1|constructor; [exact H2|constructor]]. Qed.

Lemma add_clause_Done c ps u ps' : add_clause c ps = Done u ps' -> ps' = st_add ps c.
Proof. unfold add_clause, st_add, log_ev, sess_add. intros E. apply Done_inj in E. destruct E as [_ <-]. reflexivity. Qed.

Lemma nth_bools_of size cur i : i < size -> nth i (bools_of size cur) false = memb i cur.
Proof.
  intros Hi. unfold bools_of.
  rewrite (nth_indep _ false ((fun x => memb x cur) 0)) by (rewrite map_length, seq_length; exact Hi).
  rewrite (map_nth (fun x => memb x cur)). rewrite seq_nth by exact Hi. reflexivity.
Qed.
Lemma length_bools_of size cur : length (bools_of size cur) = size.
Proof. unfold bools_of. now rewrite map_length, seq_length. Qed.
Lemma length_or_at ids v : length (or_at ids v) = length v.
Proof. unfold or_at. rewrite map_length, combine_length, seq_length. lia. Qed.
Lemma length_add_defeated {L} (af : fw L) cur v : length (add_defeated L af cur v) = length v.
Proof. unfold add_defeated. apply length_or_at. Qed.

Section Pref.
Variable L : Type.
Variable leqb : L -> L -> bool.
Hypothesis leqb_spec : forall x y, leqb x y = true <-> x = y.
Variable oracle : nat -> cnf -> list lit -> answer.
Hypothesis Hvalid : valid_oracle oracle.

Notation fw := (fw L).
Notation Inv := (Inv L).
Notation get_argument := (get_argument L leqb).
Notation has := (has_argument_with_id L).

(* ================================================================ Part A and B: one query *)
Section Loop.
Variable af : fw.
Variable e : denc.
Variable C1 : cnf.                   (* the session when the search starts (after update_encoding) *)
Variable g : nat.                    (* the MaxExt selector variable: 1 + n_vars at that moment *)
Variable id : nat.                   (* the queried argument *)
Variable dv : nat -> option bool.
Variable atk : nat -> list nat.
Hypothesis Ht : tables_ok L af e.
Hypothesis Hinv : Inv af.
Hypothesis Hz : vz e.
Hypothesis Hcv : conv e.
Hypothesis H2 : forall x, live_var e x -> dv x = None.
Hypothesis H3 : forall a, has af a = true -> tbl_var (e_a2s e) a <> None.
Hypothesis H4 : forall a, has af a = true ->
  (forall b, In b (atk a) <-> attacks_of L af b a) /\ incl (group e a (atk a)) C1.
Hypothesis H5 : forall c, In c C1 -> dead_clause dv c \/ exists a, has af a = true /\ In c (group e a (atk a)).
Hypothesis Hsem : e_sem e = DPR.
Hypothesis Hg : forall x, live_var e x -> x < g.
Hypothesis HgC : bounded C1 (g - 1).

Let ids := live_ids L af.
Let F := @af_of L af.
Let gr0 := grounded (view_of_fw af).
Hypothesis Hwf : wf F.
Hypothesis Hgr : co F gr0 /\ NoDup gr0.

Lemma Hes : esem e = CO.
Proof. unfold esem. rewrite Hsem. reflexivity. Qed.

Hypothesis Hgpos : 0 < g.

Lemma live_ne_g a : In a ids -> avar e a <> g /\ svar e a <> g.
Proof.
  intros Ha. pose proof (Hg _ (lv_av L af e Ht Hinv a Ha)). pose proof (Hg _ (lv_sel L af e Hinv H3 a Ha)). lia.
Qed.

Lemma co_ids S : co F S -> incl S ids.
Proof. intros HS. exact (proj1 (co_adm F S HS)). Qed.

(* ---- literals of the live arguments inside / outside a set; blocking clauses *)
Definition is_in (cur : list nat) (ins : list lit) : Prop :=
  forall l, In l ins <-> exists a, In a ids /\ In a cur /\ l = zlit (avar e a).
Definition is_bcl (B : list nat) (c : clause) : Prop :=
  forall l, In l c <-> l = zlit g \/ exists a, In a ids /\ ~ In a B /\ l = zlit (avar e a).

Lemma has_lt_size (cur : list nat) a : has af a = true ->
  a < fold_left (fun acc x => Nat.max acc (S x)) cur
        (Nat.max (n_arguments L af) (match max_argument_id L af with Some m => S m | None => 0 end)).
Proof.
  intros Hlive.
  assert (Hsz : forall l acc, acc <= fold_left (fun acc a => Nat.max acc (S a)) l acc).
  { induction l as [|x r IH]; intros acc; cbn [fold_left]; [lia|]. specialize (IH (Nat.max acc (S x))). lia. }
  pose proof (has_lt L af a Hlive) as H1.
  assert (length (slots (ls af)) <= match max_argument_id L af with Some m => S m | None => 0 end).
  { unfold max_argument_id, ls_max_id. destruct (slots (ls af)); cbn [length]; lia. }
  pose proof (Hsz cur (Nat.max (n_arguments L af) (match max_argument_id L af with Some m => S m | None => 0 end))). lia.
Qed.

Lemma dyn_split_spec cur ins outs :
  dyn_split L af e cur = Some (ins, outs) -> is_in cur ins /\ is_bcl cur (outs ++ [zlit g]).
Proof.
  unfold dyn_split. intros H.
  set (size := fold_left _ cur _) in H.
  set (ids0 := filter (has_argument_with_id L af) (seq 0 size)) in H.
  destruct (tbl_vars (e_a2v e) (filter (fun i => memb i cur) ids0)) as [iv|] eqn:Ei; [|discriminate].
  destruct (tbl_vars (e_a2v e) (filter (fun i => negb (memb i cur)) ids0)) as [ov|] eqn:Eo; [|discriminate].
  injection H as <- <-. apply tbl_vars_map in Ei, Eo. change (fun i => match tbl_var (e_a2v e) i with Some v => v | None => 1 end) with (avar e) in Ei, Eo.
  assert (Hids0 : forall a, In a ids0 <-> In a ids).
  { intros a. unfold ids0, ids. rewrite filter_In, in_seq, (ids_has L af Hinv). split; [tauto|].
    intros Ha. split; [|exact Ha]. pose proof (has_lt_size cur a Ha). fold size in H. lia. }
  split.
  - intros l. rewrite Ei, map_map, in_map_iff. split.
    + intros (a & <- & Ha). apply filter_In in Ha. destruct Ha as [Ha Hm]. exists a.
      split; [apply Hids0, Ha|]. split; [apply memb_spec, Hm|reflexivity].
    + intros (a & Ha & Hc & ->). exists a. split; [reflexivity|]. apply filter_In. split; [apply Hids0, Ha|apply memb_spec, Hc].
  - intros l. rewrite in_app_iff, Eo, map_map, in_map_iff. cbn [In]. split.
    + intros [(a & <- & Ha)|[<-|[]]]; [right|left; reflexivity]. apply filter_In in Ha. destruct Ha as [Ha Hm].
      exists a. split; [apply Hids0, Ha|]. split; [apply memb_false, negb_true_iff, Hm|reflexivity].
    + intros [->|(a & Ha & Hc & ->)]; [right; left; reflexivity|left]. exists a. split; [reflexivity|].
      apply filter_In. split; [apply Hids0, Ha|]. apply negb_true_iff, memb_false, Hc.
Qed.

Lemma is_in_nil : is_in [] [].
Proof. intros l. split; [intros []|intros (a & _ & [] & _)]. Qed.

Lemma bcl_sat3 (m : assignment) B c :
  is_bcl B c -> value_of m g = Some false -> sat_clause m c = true ->
  exists a, In a ids /\ ~ In a B /\ value_of m (avar e a) = Some true.
Proof.
  intros Hc Hgv Hs. unfold sat_clause in Hs. apply existsb_exists in Hs. destruct Hs as (l & Hl & Hlt).
  apply Hc in Hl. destruct Hl as [->|(a & Ha & Hn & ->)].
  - apply (lit_true_zlit m g Hgpos) in Hlt. congruence.
  - exists a. split; [exact Ha|]. split; [exact Hn|]. apply (lit_true_zlit m _ (avar_pos L af e Ht Hz a)). exact Hlt.
Qed.

Lemma bcl_vsat (v : val) B c a :
  is_bcl B c -> In a ids -> ~ In a B -> v (avar e a) = true -> vsat_clause v c = true.
Proof.
  intros Hc Ha Hn Hv. apply vsat_exists. exists (zlit (avar e a)). split; [apply Hc; right; eauto|].
  rewrite vtrue_zlit by apply (avar_pos L af e Ht Hz). exact Hv.
Qed.

(* ---- what a valid answer means on the session C1 ++ blocking clauses, under
   (literals of cur) ++ [-g] ++ selectors *)
Lemma sat_step cs Bs ins cur (m : assignment) :
  Forall2 is_bcl Bs cs -> is_in cur ins ->
  models m (C1 ++ cs) = true -> forallb (lit_true m) ((ins ++ [negate (zlit g)]) ++ e_assum e) = true ->
  co F (dyn_a2e (e_vars e) m) /\ NoDup (dyn_a2e (e_vars e) m) /\
  (forall a, In a cur -> In a ids -> In a (dyn_a2e (e_vars e) m)) /\
  forall B, In B Bs -> ~ incl (dyn_a2e (e_vars e) m) B.
Proof.
  intros Hbs Hin Hm Ha. unfold models in Hm. rewrite forallb_app in Hm. apply andb_true_iff in Hm.
  destruct Hm as [Hm1 Hm2]. rewrite !forallb_app in Ha. apply andb_true_iff in Ha. destruct Ha as [Ha Ha3].
  apply andb_true_iff in Ha. destruct Ha as [Ha1 Ha2]. cbn [forallb] in Ha2. rewrite andb_true_r, neg_zlit in Ha2.
  apply lit_true_znlit in Ha2. rewrite forallb_forall in Ha1, Ha3, Hm2.
  destruct (sat_facts L af e C1 atk Ht Hinv Hz H3 H4 Hcv m Hm1 Ha3) as (K1 & K2 & K3 & K4). rewrite Hes in K1.
  split; [exact K1|]. split; [exact K2|]. split.
  - intros a Hc Hi. apply (in_dyn_a2e L af e Ht Hinv Hz Hcv). split; [exact Hi|].
    assert (Hl : lit_true m (zlit (avar e a)) = true) by (apply Ha1, Hin; eauto).
    apply (lit_true_zlit m _ (avar_pos L af e Ht Hz a)) in Hl. unfold val_of. now rewrite Hl.
  - intros B HB Hincl. destruct (Forall2_in_l _ _ _ _ Hbs HB) as (c & Hc & Hbc).
    destruct (bcl_sat3 m B c Hbc Ha2 (Hm2 c Hc)) as (a & Hi & Hn & Hv). apply Hn, Hincl.
    apply (in_dyn_a2e L af e Ht Hinv Hz Hcv). split; [exact Hi|]. unfold val_of. now rewrite Hv.
Qed.

Lemma unsat_step cs Bs ins cur :
  Forall2 is_bcl Bs cs -> is_in cur ins ->
  (forall v : val, vmodels v (C1 ++ cs) = true ->
     forallb (vtrue v) ((ins ++ [negate (zlit g)]) ++ e_assum e) = true -> False) ->
  forall S, co F S -> incl cur S -> exists B, In B Bs /\ incl S B.
Proof.
  intros Hbs Hin Hu S HS Hcur.
  destruct (below_some_dec S Bs) as [Hex|Hno]; [exact Hex|exfalso].
  assert (HS' : ext (esem e) F S) by (rewrite Hes; exact HS).
  destruct (bridge_complete L af e C1 dv atk Ht Hinv Hz H2 H3 H4 H5 S HS') as (m & M1 & M2 & M3).
  set (m' := upd m g false).
  assert (Hlive : forall x, live_var e x -> m' x = m x).
  { intros x Hx. unfold m'. apply upd_other. specialize (Hg x Hx). lia. }
  apply (Hu m').
  - rewrite vmodels_app. apply andb_true_iff. split.
    + unfold m'. rewrite (vmodels_upd m g false C1 (g - 1) HgC); [exact M1|lia].
    + apply vmodels_forall. intros c Hc. destruct (Forall2_in_r _ _ _ _ Hbs Hc) as (B & HB & Hbc).
      specialize (Hno B HB).
      destruct (forallb (fun a => memb a B) S) eqn:Ef.
      { exfalso. apply Hno. intros a Ha. rewrite forallb_forall in Ef. apply memb_spec, Ef, Ha. }
      apply forallb_false_exists in Ef. destruct Ef as (a & Ha & Hm).
      assert (Hi : In a ids) by (apply (co_ids S HS), Ha).
      apply (bcl_vsat m' B c a Hbc Hi); [apply memb_false, Hm|].
      rewrite (Hlive _ (lv_av L af e Ht Hinv a Hi)). apply (M3 a Hi), Ha.
  - rewrite !forallb_app. apply andb_true_iff. split; [apply andb_true_iff; split|].
    + apply forallb_forall. intros l Hl. apply Hin in Hl. destruct Hl as (a & Hi & Hc & ->).
      rewrite vtrue_zlit by apply (avar_pos L af e Ht Hz). rewrite (Hlive _ (lv_av L af e Ht Hinv a Hi)).
      apply (M3 a Hi), Hcur, Hc.
    + cbn [forallb]. rewrite andb_true_r, neg_zlit, vtrue_znlit. unfold m'. now rewrite upd_same.
    + apply forallb_forall. intros x Hx. destruct (assum_sel L af e Ht Hinv x Hx) as (a & Hi & ->).
      pose proof (M2 _ Hx) as Hv. rewrite vtrue_zlit in * by apply (svar_pos L af e Ht Hz).
      rewrite (Hlive _ (lv_sel L af e Hinv H3 a Hi)). exact Hv.
Qed.

(* ---- preferred = maximal complete *)
Lemma max_co_pr cur : co F cur -> (forall T, co F T -> incl cur T -> incl T cur) -> pr F cur.
Proof.
  intros Hc Hmax. split; [apply co_adm, Hc|]. intros S HS Hi.
  destruct (adm_extends_pr F S Hwf HS) as (P & HP & HSP).
  assert (incl P cur) by (apply Hmax; [apply pr_co; assumption|exact (incl_tran Hi HSP)]).
  exact (incl_tran HSP H).
Qed.

(* ================================================================ Part B *)
(* no counter-example (a preferred extension without id) lies below a blocked set *)
Definition dead (Bs : list (list nat)) : Prop :=
  forall B P, In B Bs -> pr F P -> ~ In id P -> ~ incl P B.
Lemma dead_app Bs Bs' : dead Bs -> dead Bs' -> dead (Bs ++ Bs').
Proof. intros D1 D2 B P HB. apply in_app_or in HB. destruct HB; [now apply D1|now apply D2]. Qed.
Lemma dead_nil : dead [].
Proof. intros B P []. Qed.
(* an admissible set that contains id *)
Lemma dead_has_id cur : adm F cur -> In id cur -> dead [cur].
Proof.
  intros Ha Hi B P [<-|[]] HP Hn Hinc. apply Hn. apply (proj2 HP cur Ha Hinc). exact Hi.
Qed.
(* a complete set with a strictly larger complete set above it *)
Lemma dead_grown cur X : adm F cur -> adm F X -> incl cur X -> ~ incl X cur -> dead [cur].
Proof.
  intros Ha HX Hi Hn B P [<-|[]] HP _ Hinc. apply Hn.
  assert (incl cur P) by (apply (proj2 HP cur Ha Hinc)).
  assert (incl X P) by (apply (proj2 HP X HX); exact (incl_tran Hinc Hi)).
  exact (incl_tran H0 Hinc).
Qed.

Definition blocked (ps : Prog.st) (Bs : list (list nat)) : Prop :=
  exists cs, cls ps = C1 ++ cs /\ Forall2 is_bcl Bs cs.

Definition linv (k : dcomp) (ps : Prog.st) (Bs : list (list nat)) : Prop :=
  k_sel k = zlit g /\ blocked ps Bs /\
  match k_state k with
  | MInit => Bs = []
  | MIntermediate => co F (k_cur k) /\ NoDup (k_cur k) /\ (forall B, In B Bs -> ~ incl (k_cur k) B) /\ dead Bs
  | MMaximal => exists Bs0, Bs = Bs0 ++ [k_cur k] /\ pr F (k_cur k) /\ NoDup (k_cur k) /\ dead Bs0
  | MJustDiscarded => dead Bs
  | MNone => dead Bs /\ forall S, co F S -> exists B, In B Bs /\ incl S B
  end.

Lemma blocked_solved ps Bs a : blocked ps Bs -> blocked (st_solved oracle ps a) Bs.
Proof. intros (cs & E & Hf). exists cs. rewrite cls_solved. auto. Qed.
Lemma blocked_add ps Bs B c : blocked ps Bs -> is_bcl B c -> blocked (st_add ps c) (Bs ++ [B]).
Proof.
  intros (cs & E & Hf) Hc. exists (cs ++ [c]). rewrite cls_add, E, app_assoc. split; [reflexivity|].
  apply Forall2_snoc; assumption.
Qed.

Lemma k_solve_inv a ps r ps' :
  k_solve oracle e a ps = Done r ps' ->
  ps' = st_solved oracle ps (a ++ e_assum e) /\
  match answer_of oracle ps (a ++ e_assum e) with
  | Sat m => r = Some (dyn_a2e (e_vars e) m)
  | Unsat => r = None
  | Unknown => False
  end.
Proof.
  unfold k_solve. intros E. apply bind_Done in E. destruct E as (m & ps1 & E1 & E2).
  apply solve_Done in E1. destruct E1 as [-> Ha]. apply ret_Done in E2. destruct E2 as [<- <-]. split; [reflexivity|].
  destruct (answer_of oracle ps (a ++ e_assum e)); try exact Ha; subst m; reflexivity.
Qed.

(* one SAT call on a blocked session under (literals of cur) ++ [-g] *)
Lemma solve_step ps Bs ins cur r ps' :
  blocked ps Bs -> is_in cur ins -> k_solve oracle e (ins ++ [negate (zlit g)]) ps = Done r ps' ->
  blocked ps' Bs /\
  match r with
  | Some X => co F X /\ NoDup X /\ (forall a, In a cur -> In a ids -> In a X) /\ forall B, In B Bs -> ~ incl X B
  | None => forall S, co F S -> incl cur S -> exists B, In B Bs /\ incl S B
  end.
Proof.
  intros Hb Hin E. apply k_solve_inv in E. destruct E as [-> Ha]. split; [apply blocked_solved, Hb|].
  destruct Hb as (cs & Ec & Hf).
  pose proof (valid_answer oracle ps ((ins ++ [negate (zlit g)]) ++ e_assum e) Hvalid) as Hv. rewrite Ec in Hv.
  destruct (answer_of oracle ps ((ins ++ [negate (zlit g)]) ++ e_assum e)) as [m| |]; [| |destruct Ha]; subst r.
  - destruct Hv as [Hm Hl]. exact (sat_step cs Bs ins cur m Hf Hin Hm Hl).
  - exact (unsat_step cs Bs ins cur Hf Hin Hv).
Qed.

Lemma k_discard_step k ps Bs u ps' :
  k_sel k = zlit g -> blocked ps Bs -> k_discard L af e k ps = Done u ps' -> blocked ps' (Bs ++ [k_cur k]).
Proof.
  intros Hs Hb E. unfold k_discard in E. apply bind_Done in E. destruct E as ([ins outs] & ps1 & E1 & E2).
  apply opt_m_Done in E1. destruct E1 as [E1 ->]. apply add_clause_Done in E2. subst ps'. cbn [snd].
  rewrite Hs. apply blocked_add; [exact Hb|]. exact (proj2 (dyn_split_spec _ _ _ E1)).
Qed.

(* ---- the SAT log: the sets decoded from the Sat answers of a stretch of the log (most recent first) *)
Definition sats (lg : list (nat * event)) : list (list nat) :=
  flat_map (fun p => match snd p with ESolve _ (Sat m) => [dyn_a2e (e_vars e) m] | _ => [] end) lg.
Lemma sats_app l1 l2 : sats (l1 ++ l2) = sats l1 ++ sats l2.
Proof. unfold sats. apply flat_map_app. Qed.

Lemma k_solve_log a ps r ps' :
  k_solve oracle e a ps = Done r ps' ->
  exists ev, rlog ps' = ev :: rlog ps /\ sats [ev] = match r with Some X => [X] | None => [] end.
Proof.
  intros E. apply k_solve_inv in E. destruct E as [-> Ha]. eexists. split; [reflexivity|].
  unfold sats. cbn [flat_map snd app]. destruct (answer_of oracle ps (a ++ e_assum e)); [| |destruct Ha]; subst r; reflexivity.
Qed.
Lemma k_discard_log k ps u ps' :
  k_discard L af e k ps = Done u ps' -> exists ev, rlog ps' = ev :: rlog ps /\ sats [ev] = [].
Proof.
  unfold k_discard. intros E. apply bind_Done in E. destruct E as (sp & ps1 & E1 & E2).
  apply opt_m_Done in E1. destruct E1 as [_ ->]. apply add_clause_Done in E2. subst ps'. eexists. split; reflexivity.
Qed.

(* ---- SAT calls: at most n more answers consumed, however the program ends *)
Definition cle (n : nat) {A} (m : Prog.M A) : Prop :=
  forall s, match m s with Done _ s' | Abort s' | Panic s' | OutOfFuel s' => calls s' <= calls s + n end.
Lemma cle_ret {A} (a : A) : cle 0 (ret a).
Proof. intros s. cbn. lia. Qed.
Lemma cle_panic {A} : cle 0 (@panic A).
Proof. intros s. cbn. lia. Qed.
Lemma cle_bind {A B} i j (m : Prog.M A) (k : A -> Prog.M B) : cle i m -> (forall a, cle j (k a)) -> cle (i + j) (bind m k).
Proof.
  intros Hm Hk s. unfold bind. specialize (Hm s). destruct (m s) as [a s1|s1|s1|s1]; try lia.
  specialize (Hk a s1). destruct (k a s1); lia.
Qed.
Lemma cle_weaken {A} i j (m : Prog.M A) : cle i m -> i <= j -> cle j m.
Proof. intros H Hij s. specialize (H s). destruct (m s); lia. Qed.
Lemma cle_opt_m {A} (o : option A) : cle 0 (opt_m o).
Proof. destruct o; [apply cle_ret|apply cle_panic]. Qed.
Lemma cle_add_clause c : cle 0 (add_clause c).
Proof. intros s. cbn. lia. Qed.
Lemma cle_k_solve a : cle 1 (k_solve oracle e a).
Proof.
  unfold k_solve. apply (cle_bind 1 0); [|intros r; apply cle_ret].
  intros s. unfold Prog.solve. destruct (oracle (calls s) (rev (rclauses (sess s))) (a ++ e_assum e)); cbn; lia.
Qed.
Lemma cle_k_new_search k : cle 1 (k_new_search oracle e k).
Proof. unfold k_new_search. apply (cle_bind 1 0); [apply cle_k_solve|intros r; apply cle_ret]. Qed.
Lemma cle_k_discard k : cle 0 (k_discard L af e k).
Proof. unfold k_discard. apply (cle_bind 0 0); [apply cle_opt_m|intros sp; apply cle_add_clause]. Qed.
Definition cst (st : mstate) : nat := match st with MInit => 0 | _ => 1 end.
Lemma cle_k_compute_next k : cle (cst (k_state k)) (k_compute_next oracle L af e k).
Proof.
  unfold k_compute_next. destruct (k_state k); cbn [cst].
  - apply (cle_bind 0 1); [apply cle_k_discard|intros _; apply cle_k_new_search].
  - apply (cle_bind 0 1); [apply cle_opt_m|]. intros sp. apply (cle_bind 0 1); [apply cle_add_clause|]. intros _.
    apply (cle_bind 1 0); [apply cle_k_solve|intros r; apply cle_ret].
  - apply cle_k_new_search.
  - apply (cle_weaken 0); [apply cle_panic|lia].
  - apply cle_ret.
Qed.

(* ---- ghost lists for the fuel bound: the sets that have been current (pairwise different complete
   extensions), the maximal sets reached (pairwise different preferred extensions) *)
Definition cnt (k : dcomp) (Bs Ss Ps : list (list nat)) : Prop :=
  (forall S, In S Ss -> co F S) /\ sepl Ss /\ (forall P, In P Ps -> pr F P /\ In P Bs) /\ sepl Ps /\
  match k_state k with
  | MInit => Ss = [] /\ Ps = []
  | MIntermediate => forall S, In S Ss -> In S Bs \/ S = k_cur k
  | MNone => True
  | _ => forall S, In S Ss -> In S Bs
  end.
Definition pot (Ss Ps : list (list nat)) (st : mstate) : nat :=
  length Ss + length Ps + match st with MNone => 1 | _ => 0 end.

Lemma sepl_co_le l : (forall S, In S l -> co F S) -> sepl l -> length l <= length (all_exts CO F).
Proof.
  intros Hb Hs. rewrite all_exts_eq. apply sepl_length_le; [| |exact Hs].
  - intros S HS. apply (ext_incl CO F S). now apply Hb.
  - intros S HS. apply (extb_ext CO). apply (ext_seteq CO F S).
    + apply seteq_sym, canon_seteq. apply (ext_incl CO F S). now apply Hb.
    + now apply Hb.
Qed.

(* the bound on the number of iterations of the search: complete + preferred extensions + 1 *)
Definition pr_dyn_bound : nat := length (all_exts CO F) + length (all_exts PR F) + 1.

Lemma pot_lt k Bs Ss Ps : cnt k Bs Ss Ps -> k_state k <> MNone -> pot Ss Ps (k_state k) < pr_dyn_bound.
Proof.
  intros (HS & HsS & HP & HsP & _) Hn. pose proof (sepl_co_le Ss HS HsS).
  assert (length Ps <= length (all_exts PR F)) by (apply sepl_pr_le; [intros P H'; apply HP, H'|exact HsP]).
  unfold pot, pr_dyn_bound. destruct (k_state k); try lia. congruence.
Qed.

Lemma new_search_step k ps Bs Ss Ps k' ps' :
  k_sel k = zlit g -> blocked ps Bs -> dead Bs ->
  (forall S, In S Ss -> co F S) -> sepl Ss -> (forall P, In P Ps -> pr F P /\ In P Bs) -> sepl Ps ->
  (forall S, In S Ss -> In S Bs) ->
  k_new_search oracle e k ps = Done k' ps' ->
  exists Ss', linv k' ps' Bs /\ cnt k' Bs Ss' Ps /\ (k_state k' = MIntermediate \/ k_state k' = MNone) /\
              pot Ss' Ps (k_state k') = length Ss + length Ps + 1 /\
              exists lg, rlog ps' = lg ++ rlog ps /\ Ss' = sats lg ++ Ss.
Proof.
  intros Hs Hb Hd HS HsS HP HsP HSB E. unfold k_new_search in E. apply bind_Done in E. destruct E as (r & ps1 & E1 & E2).
  rewrite Hs in E1. change [negate (zlit g)] with ([] ++ [negate (zlit g)]) in E1.
  destruct (solve_step ps Bs [] [] r ps1 Hb is_in_nil E1) as [Hb1 Hr].
  destruct (k_solve_log _ _ _ _ E1) as (ev & Hlg & Hsat).
  apply ret_Done in E2. destruct E2 as [<- <-]. destruct r as [X|].
  - destruct Hr as (K1 & K2 & _ & K4). exists (X :: Ss). split; [|split; [|split; [left; reflexivity|split]]].
    4:{ exists [ev]. rewrite Hsat. split; [exact Hlg|reflexivity]. }
    + unfold linv. cbn [k_with k_sel k_state k_cur]. auto 7.
    + unfold cnt. cbn [k_with k_state k_cur]. split; [intros S [<-|H']; auto|].
      split; [split; [|exact HsS]; intros T HT; apply not_incl_not_seteq, K4, HSB, HT|].
      split; [exact HP|]. split; [exact HsP|]. intros S [<-|H']; auto.
    + unfold pot. cbn [k_with k_state length]. lia.
  - exists Ss. split; [|split; [|split; [right; reflexivity|split]]].
    4:{ exists [ev]. rewrite Hsat. split; [exact Hlg|reflexivity]. }
    + unfold linv. cbn [k_with k_sel k_state k_cur].
      split; [exact Hs|]. split; [exact Hb1|]. split; [exact Hd|]. intros S HS'. apply Hr; [exact HS'|intros a []].
    + unfold cnt. cbn [k_with k_state]. auto.
    + unfold pot. cbn [k_with k_state]. lia.
Qed.

Definition next_ok (st st' : mstate) : Prop :=
  match st with
  | MInit => st' = MIntermediate
  | MIntermediate => st' = MIntermediate \/ st' = MMaximal
  | MMaximal | MJustDiscarded => st' = MIntermediate \/ st' = MNone
  | MNone => False
  end.

Lemma k_compute_next_step k ps Bs Ss Ps k' ps' :
  linv k ps Bs -> cnt k Bs Ss Ps -> (k_state k = MMaximal -> In id (k_cur k)) ->
  k_compute_next oracle L af e k ps = Done k' ps' ->
  exists Bs' Ss' Ps', linv k' ps' Bs' /\ cnt k' Bs' Ss' Ps' /\ next_ok (k_state k) (k_state k') /\
                      pot Ss' Ps' (k_state k') = pot Ss Ps (k_state k) + 1 /\
                      (exists lg, rlog ps' = lg ++ rlog ps /\
                                  Ss' = sats lg ++ (match k_state k with MInit => [gr0] | _ => [] end) ++ Ss) /\
                      (k_state k' = MMaximal -> k_cur k' = k_cur k) /\ (k_state k' <> MMaximal -> Ps' = Ps).
Proof.
  intros (Hs & Hb & Hst) (HS & HsS & HP & HsP & Hc) Hmx E. unfold k_compute_next in E. destruct (k_state k) eqn:Est.
  - (* Maximal, contains id: block it again, search elsewhere *)
    destruct Hst as (Bs0 & -> & Hpr & Hnd & Hd0).
    apply bind_Done in E. destruct E as (u & ps1 & E1 & E2).
    pose proof (k_discard_step k ps _ u ps1 Hs Hb E1) as Hb1.
    assert (Hd : dead ((Bs0 ++ [k_cur k]) ++ [k_cur k])).
    { pose proof (dead_has_id (k_cur k) (pr_adm F _ Hpr) (Hmx eq_refl)) as Hdc.
      apply dead_app; [apply dead_app|]; assumption. }
    destruct (k_discard_log k ps u ps1 E1) as (ev0 & Hlg0 & Hsat0).
    destruct (new_search_step k ps1 _ Ss Ps k' ps' Hs Hb1 Hd HS HsS) as (Ss' & Hl & Hc' & Hn & Hp & lg & Hlg & HSs'); try assumption.
    + intros P HP'. destruct (HP P HP') as [H1 H1']. split; [exact H1|apply in_or_app; left; exact H1'].
    + intros S HS'. apply in_or_app. left. apply Hc, HS'.
    + exists ((Bs0 ++ [k_cur k]) ++ [k_cur k]), Ss', Ps. split; [exact Hl|]. split; [exact Hc'|]. split; [exact Hn|].
      split; [rewrite Hp; unfold pot; lia|]. split; [|split; [destruct Hn as [Hn|Hn]; rewrite Hn; discriminate|reflexivity]].
      exists (lg ++ [ev0]). rewrite Hlg, Hlg0, <- app_assoc. split; [reflexivity|].
      rewrite sats_app, Hsat0, app_nil_r. exact HSs'.
  - (* Intermediate: block the current set, look for a strictly larger one *)
    destruct Hst as (Hco & Hnd & Hnb & Hd).
    apply bind_Done in E. destruct E as ([ins outs] & ps1 & E1 & E2). apply opt_m_Done in E1. destruct E1 as [E1 ->].
    destruct (dyn_split_spec _ _ _ E1) as [Hin Hbc]. cbn [fst snd] in E2.
    apply bind_Done in E2. destruct E2 as (u & ps2 & E2 & E3). apply add_clause_Done in E2. subst ps2.
    rewrite Hs in E3. pose proof (blocked_add ps Bs (k_cur k) _ Hb Hbc) as Hb1.
    apply bind_Done in E3. destruct E3 as (r & ps3 & E3 & E4).
    destruct (solve_step _ _ ins (k_cur k) r ps3 Hb1 Hin E3) as [Hb2 Hr].
    destruct (k_solve_log _ _ _ _ E3) as (ev & Hlg & Hsat).
    assert (Hlog : exists lg, rlog ps3 = lg ++ rlog ps /\ sats lg = match r with Some X => [X] | None => [] end).
    { exists [ev; (nsess ps, EClause (outs ++ [zlit g]))]. split; [rewrite Hlg; reflexivity|].
      change [ev; (nsess ps, EClause (outs ++ [zlit g]))] with ([ev] ++ [(nsess ps, EClause (outs ++ [zlit g]))]).
      rewrite sats_app, Hsat. unfold sats. cbn [flat_map snd app]. now rewrite app_nil_r. }
    destruct Hlog as (lg & Hlg' & Hsat').
    apply ret_Done in E4. destruct E4 as [<- <-].
    assert (HSB : forall S, In S Ss -> In S (Bs ++ [k_cur k])).
    { intros S HS'. apply in_or_app. destruct (Hc S HS') as [H'| ->]; [left; exact H'|right; left; reflexivity]. }
    assert (HPB : forall P, In P Ps -> pr F P /\ In P (Bs ++ [k_cur k])).
    { intros P HP'. destruct (HP P HP') as [H1 H1']. split; [exact H1|apply in_or_app; left; exact H1']. }
    destruct r as [X|].
    + destruct Hr as (K1 & K2 & K3 & K4). exists (Bs ++ [k_cur k]), (X :: Ss), Ps.
      split; [|split; [|split; [left; reflexivity|split; [|split; [|split; [discriminate|reflexivity]]]]]].
      4:{ exists lg. rewrite Hsat'. split; [exact Hlg'|reflexivity]. }
      * unfold linv. cbn [k_with k_sel k_state k_cur]. split; [exact Hs|]. split; [exact Hb2|].
        split; [exact K1|]. split; [exact K2|]. split; [exact K4|].
        apply dead_app; [exact Hd|]. apply (dead_grown (k_cur k) X); [apply co_adm, Hco|apply co_adm, K1| |].
        -- intros a Ha. apply K3; [exact Ha|apply (co_ids _ Hco), Ha].
        -- apply K4. apply in_or_app. right. left. reflexivity.
      * unfold cnt. cbn [k_with k_state k_cur]. split; [intros S [<-|H']; auto|].
        split; [split; [|exact HsS]; intros T HT; apply not_incl_not_seteq, K4, HSB, HT|].
        split; [exact HPB|]. split; [exact HsP|]. intros S [<-|H']; auto.
      * unfold pot. cbn [k_with k_state length]. lia.
    + exists (Bs ++ [k_cur k]), Ss, (k_cur k :: Ps).
      assert (Hpr : pr F (k_cur k)).
      { apply max_co_pr; [exact Hco|]. intros T HT Hi. destruct (Hr T HT Hi) as (B & HB & HTB). apply in_app_or in HB.
        destruct HB as [HB|[<-|[]]]; [|exact HTB]. exfalso. apply (Hnb B HB). exact (incl_tran Hi HTB). }
      split; [|split; [|split; [right; reflexivity|split; [|split; [|split; [reflexivity|intros Hx; exfalso; apply Hx; reflexivity]]]]]].
      4:{ exists lg. rewrite Hsat'. split; [exact Hlg'|reflexivity]. }
      * unfold linv. cbn [k_with k_sel k_state k_cur]. split; [exact Hs|]. split; [exact Hb2|].
        exists Bs. auto.
      * unfold cnt. cbn [k_with k_state k_cur]. split; [exact HS|]. split; [exact HsS|]. split.
        { intros P [<-|HP']; [split; [exact Hpr|apply in_or_app; right; left; reflexivity]|apply HPB, HP']. }
        split; [split; [|exact HsP]; intros T HT; apply not_incl_not_seteq, Hnb, (HP T HT)|]. exact HSB.
      * unfold pot. cbn [k_with k_state length]. lia.
  - destruct (new_search_step k ps Bs Ss Ps k' ps' Hs Hb Hst HS HsS HP HsP Hc E) as (Ss' & Hl & Hc' & Hn & Hp & lg & Hlg & HSs').
    exists Bs, Ss', Ps. split; [exact Hl|]. split; [exact Hc'|]. split; [exact Hn|].
    split; [rewrite Hp; unfold pot; lia|]. split; [exists lg; auto|]. split; [destruct Hn as [Hn|Hn]; rewrite Hn; discriminate|reflexivity].
  - discriminate E.
  - apply ret_Done in E. destruct E as [<- <-]. subst Bs. destruct Hc as [-> ->]. exists [], [gr0], [].
    split; [|split; [|split; [reflexivity|split; [reflexivity|split; [exists []; split; reflexivity|split; [discriminate|reflexivity]]]]]].
    + unfold linv. cbn [k_with k_sel k_state k_cur]. split; [exact Hs|]. split; [exact Hb|].
      split; [exact (proj1 Hgr)|]. split; [exact (proj2 Hgr)|]. split; [intros B []|apply dead_nil].
    + unfold cnt. cbn [k_with k_state k_cur]. split; [intros S [<-|[]]; exact (proj1 Hgr)|].
      split; [split; [intros T []|exact I]|]. split; [intros P []|]. split; [exact I|]. intros S [<-|[]]. right. reflexivity.
Qed.

(* never out of fuel, structurally *)
Lemma nof_k_solve a : nof (k_solve oracle e a).
Proof. unfold k_solve. apply nof_bind; [apply nof_solve|intros r; apply nof_ret]. Qed.
Lemma nof_k_new_search k : nof (k_new_search oracle e k).
Proof. unfold k_new_search. apply nof_bind; [apply nof_k_solve|intros r; apply nof_ret]. Qed.
Lemma nof_k_discard k : nof (k_discard L af e k).
Proof. unfold k_discard. apply nof_bind; [apply nof_opt_m|intros sp; apply nof_add_clause]. Qed.
Lemma nof_k_compute_next k : nof (k_compute_next oracle L af e k).
Proof.
  unfold k_compute_next. destruct (k_state k).
  - apply nof_bind; [apply nof_k_discard|intros _; apply nof_k_new_search].
  - apply nof_bind; [apply nof_opt_m|]. intros sp. apply nof_bind; [apply nof_add_clause|]. intros _.
    apply nof_bind; [apply nof_k_solve|intros r; apply nof_ret].
  - apply nof_k_new_search.
  - apply nof_panic.
  - apply nof_ret.
Qed.

(* the result of the loop, for every outcome *)
Definition loop_post (result : bool) (ext : option (list nat)) : Prop :=
  (result = false /\ exists X, ext = Some X /\ pr F X /\ NoDup X /\ ~ In id X) \/
  (result = true /\ ext = None /\ forall P, pr F P -> In id P).

Lemma pot_le k Bs Ss Ps : cnt k Bs Ss Ps -> pot Ss Ps (k_state k) <= pr_dyn_bound.
Proof.
  intros (HS & HsS & HP & HsP & _). pose proof (sepl_co_le Ss HS HsS).
  assert (length Ps <= length (all_exts PR F)) by (apply sepl_pr_le; [intros P H'; apply HP, H'|exact HsP]).
  unfold pot, pr_dyn_bound. destruct (k_state k); lia.
Qed.

(* what is known when the loop ends in state ps': the call account, and (when it returns) the decoded
   Sat answers of the log since ps, in front of the sets that were current before *)
Definition CB (k : dcomp) (ps : Prog.st) (Ss Ps : list (list nat)) (ps' : Prog.st) : Prop :=
  calls ps' + pot Ss Ps (k_state k) + 1 <= calls ps + cst (k_state k) + pr_dyn_bound.
Definition ini (st : mstate) : list (list nat) := match st with MInit => [gr0] | _ => [] end.
Definition LOG (k : dcomp) (ps : Prog.st) (Ss : list (list nat)) (ps' : Prog.st) : Prop :=
  exists lg, rlog ps' = lg ++ rlog ps /\
    sepl (sats lg ++ ini (k_state k) ++ Ss) /\ forall S, In S (sats lg ++ ini (k_state k) ++ Ss) -> co F S.

Lemma pr_loop_out fuel : forall k fm in_all missing ps Bs Ss Ps,
  linv k ps Bs -> cnt k Bs Ss Ps -> k_state k <> MNone -> (k_state k = MMaximal -> In id (k_cur k)) ->
  id < length missing ->
  match pr_loop oracle L fuel af e id k fm in_all missing ps with
  | Done (_, result, _, _, ext) ps' => loop_post result ext /\ CB k ps Ss Ps ps' /\ LOG k ps Ss ps'
  | OutOfFuel ps' => fuel + pot Ss Ps (k_state k) < pr_dyn_bound /\ CB k ps Ss Ps ps'
  | Abort ps' | Panic ps' => CB k ps Ss Ps ps'
  end.
Proof.
  induction fuel as [|f IH]; intros k fm in_all missing ps Bs Ss Ps Hl Hc Hnn Hmx Hlen; cbn [pr_loop].
  - unfold out_of_fuel. cbn [Nat.add]. pose proof (pot_lt k Bs Ss Ps Hc Hnn). split; [assumption|]. unfold CB. lia.
  - unfold bind at 1. pose proof (nof_k_compute_next k ps) as Hnof. pose proof (cle_k_compute_next k ps) as Hcl.
    pose proof (pot_lt k Bs Ss Ps Hc Hnn) as Hplt.
    destruct (k_compute_next oracle L af e k ps) as [k1 ps1| | |] eqn:E1; cbv beta iota in Hcl, Hnof;
      try (unfold CB; lia); try (destruct Hnof).
    destruct (k_compute_next_step k ps Bs Ss Ps k1 ps1 Hl Hc Hmx E1) as (Bs1 & Ss1 & Ps1 & Hl1 & Hc1 & Hn & Hp & (lg1 & Hlg1 & HSs1) & Hcur1 & HPs1).
    pose proof Hl1 as (Hs1 & Hb1 & Hst1).
    assert (Hcst1 : cst (k_state k1) = 1).
    { destruct (k_state k); cbn [next_ok] in Hn; try contradiction; try (destruct Hn as [Hn|Hn]); rewrite Hn; reflexivity. }
    fold (ini (k_state k)) in HSs1.
    assert (Hini1 : ini (k_state k1) = []).
    { unfold ini. destruct (k_state k1); try reflexivity. discriminate Hcst1. }
    (* the account and the log, transported from (k1, ps1) to (k, ps) *)
    assert (HCB : forall ps', CB k1 ps1 Ss1 Ps1 ps' -> CB k ps Ss Ps ps') by (intros ps'; unfold CB; lia).
    assert (HLOG : forall ps', LOG k1 ps1 Ss1 ps' -> LOG k ps Ss ps').
    { intros ps' (lg & A1 & A2 & A3). exists (lg ++ lg1). rewrite A1, Hlg1, <- app_assoc. split; [reflexivity|].
      rewrite sats_app, <- app_assoc. rewrite Hini1, HSs1 in A2, A3. cbn [app] in A2, A3. auto. }
    assert (Hrec : forall k2 fm2 ia2 ms2 ps2 Bs2,
              linv k2 ps2 Bs2 -> cnt k2 Bs2 Ss1 Ps1 -> k_state k2 <> MNone ->
              (k_state k2 = MMaximal -> In id (k_cur k2)) -> id < length ms2 ->
              k_state k2 <> MInit -> pot Ss1 Ps1 (k_state k2) = pot Ss1 Ps1 (k_state k1) ->
              calls ps2 <= calls ps1 -> rlog ps2 = (rlog ps2) -> (exists lg2, rlog ps2 = lg2 ++ rlog ps1 /\ sats lg2 = []) ->
              match pr_loop oracle L f af e id k2 fm2 ia2 ms2 ps2 with
              | Done (_, result, _, _, ext) ps' => loop_post result ext /\ CB k ps Ss Ps ps' /\ LOG k ps Ss ps'
              | OutOfFuel ps' => S f + pot Ss Ps (k_state k) < pr_dyn_bound /\ CB k ps Ss Ps ps'
              | Abort ps' | Panic ps' => CB k ps Ss Ps ps'
              end).
    { intros k2 fm2 ia2 ms2 ps2 Bs2 A1 A2 A3 A4 A5 A6 A7 A8 _ (lg2 & A9 & A10).
      pose proof (IH k2 fm2 ia2 ms2 ps2 Bs2 Ss1 Ps1 A1 A2 A3 A4 A5) as G.
      assert (Hc2 : cst (k_state k2) = 1) by (destruct (k_state k2); try reflexivity; congruence).
      assert (Hi2 : ini (k_state k2) = []) by (unfold ini; destruct (k_state k2); try reflexivity; congruence).
      assert (T1 : forall ps', CB k2 ps2 Ss1 Ps1 ps' -> CB k ps Ss Ps ps').
      { intros ps' Hx. apply HCB. unfold CB in *. rewrite Hc2, A7 in Hx. rewrite Hcst1. lia. }
      assert (T2 : forall ps', LOG k2 ps2 Ss1 ps' -> LOG k ps Ss ps').
      { intros ps' (lg & B1 & B2 & B3). apply HLOG. exists (lg ++ lg2). rewrite B1, A9, <- app_assoc. split; [reflexivity|].
        rewrite sats_app, A10, app_nil_r, Hini1. rewrite Hi2 in B2, B3. auto. }
      destruct (pr_loop oracle L f af e id k2 fm2 ia2 ms2 ps2) as [[[[[? ?] ?] ?] ?] ?| | |].
      - destruct G as (G1 & G2 & G3). auto.
      - auto.
      - auto.
      - destruct G as [G1 G2]. split; [|auto]. rewrite A7 in G1. lia. }
    assert (Hself : exists lg2, rlog ps1 = lg2 ++ rlog ps1 /\ sats lg2 = []) by (exists []; split; reflexivity).
    destruct (k_state k1) eqn:Est1.
    + (* Maximal *)
      destruct Hst1 as (Bs0 & HBs & Hpr & Hnd & Hd0).
      rewrite (nth_bools_of _ _ _ Hlen).
      destruct (memb id (k_cur k1)) eqn:Em; cbn [negb].
      * apply (Hrec k1 _ _ _ ps1 Bs1); auto; try (rewrite Est1; auto; discriminate).
        -- intros _. apply memb_spec, Em.
        -- destruct fm; [rewrite length_add_defeated; exact Hlen|].
           rewrite map_length, combine_length, length_add_defeated, length_bools_of. lia.
      * unfold ret. split; [|split].
        -- left. split; [reflexivity|]. eexists. split; [reflexivity|]. split; [exact Hpr|]. split; [exact Hnd|].
           apply memb_false, Em.
        -- apply HCB. unfold CB. pose proof (pot_lt k1 Bs1 Ss1 Ps1 Hc1 ltac:(rewrite Est1; discriminate)). rewrite Est1 in *. cbn [cst]. lia.
        -- apply HLOG. exists []. split; [reflexivity|]. cbn [app sats flat_map]. rewrite Est1. cbn [ini app].
           destruct Hc1 as (B1 & B2 & _). auto.
    + (* Intermediate *)
      destruct Hst1 as (Hco & Hnd & Hnb & Hd).
      destruct (memb id (k_cur k1)) eqn:Em.
      * unfold bind at 1. pose proof (nof_k_discard k1 ps1) as Hnof'. pose proof (cle_k_discard k1 ps1) as Hcl'.
        pose proof (pot_lt k1 Bs1 Ss1 Ps1 Hc1 ltac:(rewrite Est1; discriminate)) as Hplt1. rewrite Est1 in Hplt1.
        destruct (k_discard L af e k1 ps1) as [u ps2| | |] eqn:E2; cbv beta iota in Hcl', Hnof';
          try (apply HCB; unfold CB; rewrite Est1; cbn [cst]; lia); try (destruct Hnof').
        pose proof (k_discard_step k1 ps1 Bs1 u ps2 Hs1 Hb1 E2) as Hb2.
        destruct (k_discard_log k1 ps1 u ps2 E2) as (ev & Hev & Hsev).
        apply (Hrec (k_with k1 (k_cur k1) MJustDiscarded) _ _ _ ps2 (Bs1 ++ [k_cur k1])).
        -- unfold linv. cbn [k_with k_sel k_state k_cur]. split; [exact Hs1|]. split; [exact Hb2|].
           apply dead_app; [exact Hd|]. apply dead_has_id; [apply co_adm, Hco|apply memb_spec, Em].
        -- destruct Hc1 as (A1 & A2 & A3 & A4 & A5). rewrite Est1 in A5. unfold cnt. cbn [k_with k_state].
           split; [exact A1|]. split; [exact A2|]. split.
           { intros P HP'. destruct (A3 P HP') as [B1 B2]. split; [exact B1|apply in_or_app; left; exact B2]. }
           split; [exact A4|]. intros S HS'. apply in_or_app.
           destruct (A5 S HS') as [H'| ->]; [left; exact H'|right; left; reflexivity].
        -- cbn [k_with k_state]. discriminate.
        -- cbn [k_with k_state]. discriminate.
        -- rewrite length_add_defeated. exact Hlen.
        -- cbn [k_with k_state]. discriminate.
        -- cbn [k_with k_state]. reflexivity.
        -- lia.
        -- reflexivity.
        -- exists [ev]. auto.
      * apply (Hrec k1 _ _ _ ps1 Bs1); auto; try (rewrite Est1; auto; discriminate).
        rewrite length_add_defeated. exact Hlen.
    + apply (Hrec k1 _ _ _ ps1 Bs1); auto; try (rewrite Est1; auto; discriminate).
    + (* None: every preferred extension contains id *)
      unfold ret. split; [|split].
      * right. split; [reflexivity|]. split; [reflexivity|]. intros P HP.
        destruct (in_dec Nat.eq_dec id P) as [Hi|Hn']; [exact Hi|exfalso].
        destruct Hst1 as [Hd Hcov]. destruct (Hcov P (pr_co F P Hwf HP)) as (B & HB & HPB).
        exact (Hd B P HB HP Hn' HPB).
      * apply HCB. unfold CB. pose proof (pot_le k1 Bs1 Ss1 Ps1 Hc1). rewrite Est1 in *. cbn [cst]. lia.
      * apply HLOG. exists []. split; [reflexivity|]. cbn [app sats flat_map]. rewrite Est1. cbn [ini app].
        destruct Hc1 as (B1 & B2 & _). auto.
    + discriminate Hcst1.
Qed.

(* ---- the TIGHT account.  The loop never continues from a maximal set: a current set that contains the
   argument is discarded at once, so [k_compute_next] is only asked to grow sets WITHOUT the argument, a
   set proved maximal is then a counter-example and the loop returns.  Hence at most one maximal set is
   ever reached, and the calls are bounded by the number of COMPLETE extensions alone (each set that
   has been current costs one call, except the grounded start; the final Unsat costs one). *)
Definition co_bound : nat := length (all_exts CO F) + 1.
Definition CBt (k : dcomp) (ps : Prog.st) (Ss : list (list nat)) (ps' : Prog.st) : Prop :=
  calls ps' + length Ss + 1 <= calls ps + cst (k_state k) + co_bound.

Lemma pr_loop_tight fuel : forall k fm in_all missing ps Bs Ss,
  linv k ps Bs -> cnt k Bs Ss [] -> k_state k <> MNone -> k_state k <> MMaximal ->
  (k_state k = MIntermediate -> ~ In id (k_cur k)) -> id < length missing ->
  match pr_loop oracle L fuel af e id k fm in_all missing ps with
  | Done _ ps' | Abort ps' | Panic ps' => CBt k ps Ss ps'
  | OutOfFuel ps' => fuel + length Ss < co_bound /\ CBt k ps Ss ps'
  end.
Proof.
  induction fuel as [|f IH]; intros k fm in_all missing ps Bs Ss Hl Hc Hnn Hnm Hni Hlen; cbn [pr_loop].
  - assert (HSs : length Ss <= length (all_exts CO F)) by (destruct Hc as (A1 & A2 & _); apply sepl_co_le; assumption).
    unfold out_of_fuel, CBt, co_bound. cbn [Nat.add]. lia.
  - assert (HSs : length Ss <= length (all_exts CO F)) by (destruct Hc as (A1 & A2 & _); apply sepl_co_le; assumption).
    unfold bind at 1. pose proof (nof_k_compute_next k ps) as Hnof. pose proof (cle_k_compute_next k ps) as Hcl.
    destruct (k_compute_next oracle L af e k ps) as [k1 ps1| | |] eqn:E1; cbv beta iota in Hcl, Hnof;
      try (unfold CBt, co_bound; lia); try (destruct Hnof).
    destruct (k_compute_next_step k ps Bs Ss [] k1 ps1 Hl Hc ltac:(intros Hx; congruence) E1)
      as (Bs1 & Ss1 & Ps1 & Hl1 & Hc1 & Hn & Hp & _ & Hcur1 & HPs1).
    pose proof Hl1 as (Hs1 & Hb1 & Hst1).
    assert (Hcst1 : cst (k_state k1) = 1).
    { destruct (k_state k); cbn [next_ok] in Hn; try contradiction; try (destruct Hn as [Hn|Hn]); rewrite Hn; reflexivity. }
    assert (Hrec : forall k2 fm2 ia2 ms2 ps2 Bs2,
              linv k2 ps2 Bs2 -> cnt k2 Bs2 Ss1 [] -> k_state k2 <> MNone -> k_state k2 <> MMaximal ->
              (k_state k2 = MIntermediate -> ~ In id (k_cur k2)) -> id < length ms2 -> k_state k2 <> MInit ->
              length Ss1 = length Ss + 1 -> calls ps2 <= calls ps1 ->
              match pr_loop oracle L f af e id k2 fm2 ia2 ms2 ps2 with
              | Done _ ps' | Abort ps' | Panic ps' => CBt k ps Ss ps'
              | OutOfFuel ps' => S f + length Ss < co_bound /\ CBt k ps Ss ps'
              end).
    { intros k2 fm2 ia2 ms2 ps2 Bs2 A1 A2 A3 A4 A5 A6 A7 A8 A9.
      pose proof (IH k2 fm2 ia2 ms2 ps2 Bs2 Ss1 A1 A2 A3 A4 A5 A6) as G.
      assert (Hc2 : cst (k_state k2) = 1) by (destruct (k_state k2); try reflexivity; congruence).
      unfold CBt in *. rewrite Hc2 in G.
      destruct (pr_loop oracle L f af e id k2 fm2 ia2 ms2 ps2); try lia. }
    destruct (k_state k1) eqn:Est1.
    + (* Maximal: it grew from a set without the argument, the loop returns *)
      assert (Hki : k_state k = MIntermediate).
      { destruct (k_state k); cbn [next_ok] in Hn; try contradiction; try reflexivity;
          try (destruct Hn as [Hn|Hn]; discriminate Hn); discriminate Hn. }
      rewrite (nth_bools_of _ _ _ Hlen), (Hcur1 eq_refl).
      rewrite (proj2 (memb_false id (k_cur k)) (Hni Hki)). cbn [negb]. unfold ret, CBt, co_bound. lia.
    + (* Intermediate *)
      assert (HP1 : Ps1 = []) by (apply HPs1; discriminate). subst Ps1.
      assert (HS1 : length Ss1 = length Ss + 1).
      { unfold pot in Hp. destruct (k_state k); try congruence; lia. }
      destruct Hst1 as (Hco & Hnd & Hnb & Hd).
      destruct (memb id (k_cur k1)) eqn:Em.
      * unfold bind at 1. pose proof (nof_k_discard k1 ps1) as Hnof'. pose proof (cle_k_discard k1 ps1) as Hcl'.
        destruct (k_discard L af e k1 ps1) as [u ps2| | |] eqn:E2; cbv beta iota in Hcl', Hnof';
          try (unfold CBt, co_bound; lia); try (destruct Hnof').
        pose proof (k_discard_step k1 ps1 Bs1 u ps2 Hs1 Hb1 E2) as Hb2.
        apply (Hrec (k_with k1 (k_cur k1) MJustDiscarded) _ _ _ ps2 (Bs1 ++ [k_cur k1])); cbn [k_with k_state]; try discriminate; try lia.
        -- unfold linv. cbn [k_with k_sel k_state k_cur]. split; [exact Hs1|]. split; [exact Hb2|].
           apply dead_app; [exact Hd|]. apply dead_has_id; [apply co_adm, Hco|apply memb_spec, Em].
        -- destruct Hc1 as (A1 & A2 & A3 & A4 & A5). rewrite Est1 in A5. unfold cnt. cbn [k_with k_state].
           split; [exact A1|]. split; [exact A2|]. split; [intros P []|]. split; [exact I|].
           intros S HS'. apply in_or_app. destruct (A5 S HS') as [H'| ->]; [left; exact H'|right; left; reflexivity].
        -- rewrite length_add_defeated. exact Hlen.
      * apply (Hrec k1 _ _ _ ps1 Bs1); auto; try (rewrite Est1; discriminate); try lia.
        -- intros _. apply memb_false, Em.
        -- rewrite length_add_defeated. exact Hlen.
    + assert (HP1 : Ps1 = []) by (apply HPs1; discriminate). subst Ps1.
      assert (HS1 : length Ss1 = length Ss + 1) by (unfold pot in Hp; destruct (k_state k); try congruence; lia).
      apply (Hrec k1 _ _ _ ps1 Bs1); auto; try (rewrite Est1; discriminate); lia.
    + unfold ret, CBt, co_bound. lia.
    + discriminate Hcst1.
Qed.

End Loop.
(* ================================================================ Part C *)
Notation dsolver := (dsolver L).
Notation reach := (DynDefs.reach L leqb).
Notation vreach := (DynFunDefs.vreach L leqb oracle).
Notation fresh := (DynDefs.fresh_fw L leqb).
Notation run_ops := (Store.run_ops L leqb).
Notation trailing := (DynDefs.trailing L).
Notation pending := (DynDefs.pending L).
Notation ev_apply := (DynDefs.ev_apply L leqb).

(* ---- what a query of the preferred solver does *)
Lemma pr_ds_query_full fuel (s : dsolver) l ps s' ans ps' :
  pr_ds_query oracle L leqb fuel s l ps = Done (s', ans) ps' ->
  (exists b X, is_skep L leqb (s_buf L s) l = (Some b, Some X) /\ s' = s /\ ans = (b, Some X) /\ ps' = ps) \/
  (exists af buf ps1, update_encoding L leqb (s_af L s) (s_buf L s) ps = Done (af, buf) ps1 /\
   forall e, b_enc L buf = XStd e ->
     exists arg_id ps2 k result acc_b ref_b ext ps3 acc refused,
       get_argument af l = Some arg_id /\ sess ps2 = sess ps1 /\
       pr_loop oracle L fuel af e arg_id
         {| k_cur := []; k_state := MInit; k_sel := zlit (1 + session_n_vars (sess ps1)) |} true None
         (repeat false (1 + match max_argument_id L af with Some m => m | None => 0 end)) ps2
         = Done (k, result, acc_b, ref_b, ext) ps3 /\
       s' = pushed_state L s af buf (DSkep L acc refused ext) /\ ans = (result, ext) /\
       ps2 = st_nvars ps1 /\ ps' = st_add ps3 [k_sel k]).
Proof.
  unfold pr_ds_query. intros E.
  destruct (is_skep L leqb (s_buf L s) l) as [[b|] [X|]].
  1:{ left. apply ret_Done in E. destruct E as [E <-]. apply pair_equal_spec in E. destruct E as [<- <-].
      exists b, X. auto. }
  all: right; apply bind_Done in E; destruct E as ([af buf] & ps1 & E1 & E2);
    exists af, buf, ps1; (split; [exact E1|]); intros e He; rewrite He in E2;
    apply bind_Done in E2; destruct E2 as (n & ps2 & E2 & E3);
    assert (Hps2 : ps2 = st_nvars ps1) by (unfold n_vars in E2; apply Done_inj in E2; destruct E2 as [_ <-]; reflexivity);
    apply n_vars_sess in E2; destruct E2 as [-> Hs2];
    apply bind_Done in E3; destruct E3 as (arg_id & ps3 & E3 & E4); apply opt_m_Done in E3; destruct E3 as [Hid ->];
    apply bind_Done in E4; destruct E4 as ([[[[k result] acc_b] ref_b] X'] & ps4 & E4 & E5);
    apply bind_Done in E5; destruct E5 as (acc & ps5 & E5 & E6); apply opt_m_Done in E5; destruct E5 as [_ ->];
    apply bind_Done in E6; destruct E6 as (refused & ps6 & E6 & E7); apply opt_m_Done in E6; destruct E6 as [_ ->];
    apply bind_Done in E7; destruct E7 as (u & ps7 & E7 & E8); apply add_clause_Done in E7;
    apply ret_Done in E8; destruct E8 as [E8 <-]; apply pair_equal_spec in E8; destruct E8 as [<- <-];
    exists arg_id, ps2, k, result, acc_b, ref_b, X', ps4, acc, refused; auto 8.
Qed.

Lemma dyn_query_pr_inv' thr fuel (s : dsolver) q cert l ps s' a ps' :
  s_kind L s = KPr -> dyn_query oracle L leqb thr fuel s q cert l ps = Done (s', a) ps' ->
  q = QDS /\ exists ans, a = (if cert then ans else (fst ans, None)) /\
    pr_ds_query oracle L leqb fuel s l ps = Done (s', ans) ps'.
Proof.
  intros Hk E. unfold dyn_query in E. rewrite Hk in E. destruct q; try discriminate E. split; [reflexivity|].
  apply bind_Done in E. destruct E as ([s1 ans] & ps1 & E1 & E2).
  apply ret_Done in E2. destruct E2 as [E2 <-]. cbn [fst snd] in E2.
  apply pair_equal_spec in E2. destruct E2 as [<- <-]. exists ans. auto.
Qed.

(* ---- the state in which the search starts *)
Lemma query_ready_pr thr (s : dsolver) ps os af buf ps1 :
  vreach thr KPr s ps os ->
  update_encoding L leqb (s_af L s) (s_buf L s) ps = Done (af, buf) ps1 ->
  exists e, b_enc L buf = XStd e /\ ready L af e ps1 /\ e_sem e = DPR /\
    (forall x, live_var e x -> x <= session_n_vars (sess ps1)) /\
    bounded (cls ps1) (session_n_vars (sess ps1)) /\
    af = run_ops fresh os /\ b_buffer L buf = b_buffer L (s_buf L s) /\
    b_next L buf = length (b_buffer L (s_buf L s)).
Proof.
  intros Hv Hue. assert (Hsk : std_kind KPr) by (unfold std_kind; tauto).
  pose proof (vreach_reach L leqb _ _ _ _ _ _ Hv) as Hr.
  pose proof (vreach_VI_pr L leqb leqb_spec _ _ _ _ _ Hv) as Hvi.
  pose proof (std_kind_reach L leqb _ _ _ Hr Hsk) as Hstd.
  destruct (b_enc L (s_buf L s)) as [e0|e0] eqn:Ee0; [|destruct Hstd].
  destruct (reach_RS L leqb leqb_spec KPr s os ps e0 Hr Hsk Ee0 Hvi) as [Hrs Hu].
  destruct (update_encoding_RS L leqb leqb_spec _ _ _ _ _ _ _ Ee0 Hrs Hu Hue) as (e & He & [Ht Hinv Hz Hbd (dv & atk & Hc)] & _).
  exists e. split; [exact He|].
  pose proof (enc_inv_reach L leqb _ _ _ Hr I) as Hei. pose proof (conv_reach L leqb _ _ _ Hr I) as Hcv.
  pose proof (update_encoding_conv L leqb _ _ Hei Hcv _ _ _ Hue) as Hcv'. unfold conv_buf in Hcv'. cbn [snd] in Hcv'. rewrite He in Hcv'.
  pose proof (update_encoding_sem L leqb _ _ _ Hei (sem_reach L leqb _ _ _ Hr Hsk) _ _ _ Hue) as Hs'.
  unfold sem_buf in Hs'. cbn [snd] in Hs'. rewrite He in Hs'.
  destruct (update_encoding_spec L leqb _ _ _ _ _ Hue) as (E1 & E2 & E3 & _). cbn [fst snd] in E1, E2, E3.
  pose proof (reach_frame_inv L leqb _ _ _ Hr) as [Hkind _ Hsy Hsp].
  pose proof (proj2 (tables_ok_split L af e) Ht) as Ht'.
  split; [|split; [exact Hs'|split; [|split; [|split; [|auto]]]]].
  - split; auto. exact (cinv_clause_inv L _ _ _ _ _ _ Hc Ht').
  - exact (live_var_le L af e _ _ dv atk (sess ps1) Hc Ht' eq_refl Hbd).
  - apply nvars_fresh. exact Hbd.
  - rewrite E1. unfold DynDefs.synced in Hsy. unfold DynDefs.spec_fw in Hsp. rewrite Hkind in Hsy, Hsp. congruence.
Qed.

Lemma fresh_reachable_g os : GroundedProofs.reachable L leqb (run_ops fresh os).
Proof. exists [], os. reflexivity. Qed.

(* ---- the outcome of a search *)
Lemma pr_search_out fuel (af : fw) e ps1 ps2 l id os :
  ready L af e ps1 -> e_sem e = DPR ->
  (forall x, live_var e x -> x <= session_n_vars (sess ps1)) ->
  bounded (cls ps1) (session_n_vars (sess ps1)) ->
  af = run_ops fresh os -> get_argument af l = Some id -> sess ps2 = sess ps1 ->
  match pr_loop oracle L fuel af e id
          {| k_cur := []; k_state := MInit; k_sel := zlit (1 + session_n_vars (sess ps1)) |} true None
          (repeat false (1 + match max_argument_id L af with Some m => m | None => 0 end)) ps2 with
  | Done (_, result, _, _, ext) ps3 =>
      ((result = false /\ exists X, ext = Some X /\ pr (af_of af) X /\ NoDup X /\ ~ In id X) \/
       (result = true /\ ext = None /\ forall P, pr (af_of af) P -> In id P)) /\
      calls ps3 + 1 <= calls ps2 + pr_dyn_bound af /\
      exists lg, rlog ps3 = lg ++ rlog ps2 /\
        sepl (sats e lg ++ [grounded (view_of_fw af)]) /\
        forall S, In S (sats e lg ++ [grounded (view_of_fw af)]) -> co (af_of af) S
  | OutOfFuel ps3 => fuel < pr_dyn_bound af /\ calls ps3 + 1 <= calls ps2 + pr_dyn_bound af
  | Abort ps3 | Panic ps3 => calls ps3 + 1 <= calls ps2 + pr_dyn_bound af
  end.
Proof.
  intros [Ht Hinv Hz Hcv (dv & atk & H1 & H2 & H3 & H4 & H5)] Hsem Hlv Hbd Haf Hid Hs2.
  assert (Hcls : cls ps2 = cls ps1) by (unfold cls; now rewrite Hs2).
  assert (Hwf : wf (af_of af)) by (rewrite Haf; exact (af_of_wf L leqb leqb_spec _ (fresh_reachable_g os))).
  assert (Hgr : co (af_of af) (grounded (view_of_fw af)) /\ NoDup (grounded (view_of_fw af))).
  { rewrite Haf. destruct (grounded_store L leqb leqb_spec _ (fresh_reachable_g os)) as [[Hco _] Hnd]. split; assumption. }
  assert (Hlive : has af id = true) by (eapply (get_argument_live L leqb leqb_spec); eassumption).
  pose proof (pr_loop_out af e (cls ps1) (1 + session_n_vars (sess ps1)) id dv atk Ht Hinv Hz Hcv H2 H3 H4 H5 Hsem) as G.
  specialize (G ltac:(intros x Hx; specialize (Hlv x Hx); lia)).
  specialize (G ltac:(replace (1 + session_n_vars (sess ps1) - 1) with (session_n_vars (sess ps1)) by lia; exact Hbd)).
  specialize (G Hwf Hgr ltac:(lia) fuel
                {| k_cur := []; k_state := MInit; k_sel := zlit (1 + session_n_vars (sess ps1)) |} true None
                (repeat false (1 + match max_argument_id L af with Some m => m | None => 0 end)) ps2 [] [] []).
  assert (G' := G (conj eq_refl (conj (ex_intro _ [] (conj (eq_trans (eq_sym (app_nil_r _)) (f_equal (fun x => x ++ []) Hcls) ) (Forall2_nil _))) eq_refl))).
  clear G.
  assert (Hcnt : cnt af {| k_cur := []; k_state := MInit; k_sel := zlit (1 + session_n_vars (sess ps1)) |} [] [] []).
  { unfold cnt. cbn [k_state sepl]. split; [intros S []|]. split; [exact I|]. split; [intros P []|]. split; [exact I|]. split; reflexivity. }
  specialize (G' Hcnt ltac:(discriminate) ltac:(discriminate)).
  assert (Hlen : id < length (repeat false (1 + match max_argument_id L af with Some m => m | None => 0 end))).
  { rewrite repeat_length. pose proof (has_lt L af id Hlive) as Hl.
    unfold max_argument_id, ls_max_id. destruct (slots (ls af)); cbn [length] in *; lia. }
  specialize (G' Hlen). unfold CB, LOG, pot, cst, ini in G'. cbn [k_state length Nat.add] in G'.
  destruct (pr_loop oracle L fuel af e id _ true None _ ps2) as [[[[[k result] acc_b] ref_b] ext] ps3|ps3|ps3|ps3].
  - destruct G' as (G1 & G2 & lg & G3 & G4 & G5). split; [exact G1|]. split; [lia|]. exists lg.
    rewrite app_nil_r in G4, G5. auto.
  - lia.
  - lia.
  - destruct G' as [G1 G2]. split; lia.
Qed.

(* the tight account of a search: at most one call per complete extension *)
Lemma pr_search_tight fuel (af : fw) e ps1 ps2 l id os :
  ready L af e ps1 -> e_sem e = DPR ->
  (forall x, live_var e x -> x <= session_n_vars (sess ps1)) ->
  bounded (cls ps1) (session_n_vars (sess ps1)) ->
  af = run_ops fresh os -> get_argument af l = Some id -> sess ps2 = sess ps1 ->
  match pr_loop oracle L fuel af e id
          {| k_cur := []; k_state := MInit; k_sel := zlit (1 + session_n_vars (sess ps1)) |} true None
          (repeat false (1 + match max_argument_id L af with Some m => m | None => 0 end)) ps2 with
  | Done _ ps3 | Abort ps3 | Panic ps3 => calls ps3 <= calls ps2 + length (all_exts CO (af_of af))
  | OutOfFuel ps3 => fuel <= length (all_exts CO (af_of af)) /\ calls ps3 <= calls ps2 + length (all_exts CO (af_of af))
  end.
Proof.
  intros [Ht Hinv Hz Hcv (dv & atk & H1 & H2 & H3 & H4 & H5)] Hsem Hlv Hbd Haf Hid Hs2.
  assert (Hcls : cls ps2 = cls ps1) by (unfold cls; now rewrite Hs2).
  assert (Hwf : wf (af_of af)) by (rewrite Haf; exact (af_of_wf L leqb leqb_spec _ (fresh_reachable_g os))).
  assert (Hgr : co (af_of af) (grounded (view_of_fw af)) /\ NoDup (grounded (view_of_fw af))).
  { rewrite Haf. destruct (grounded_store L leqb leqb_spec _ (fresh_reachable_g os)) as [[Hco _] Hnd]. split; assumption. }
  assert (Hlive : has af id = true) by (eapply (get_argument_live L leqb leqb_spec); eassumption).
  pose proof (pr_loop_tight af e (cls ps1) (1 + session_n_vars (sess ps1)) id dv atk Ht Hinv Hz Hcv H2 H3 H4 H5 Hsem) as G.
  specialize (G ltac:(intros x Hx; specialize (Hlv x Hx); lia)).
  specialize (G ltac:(replace (1 + session_n_vars (sess ps1) - 1) with (session_n_vars (sess ps1)) by lia; exact Hbd)).
  specialize (G Hwf Hgr ltac:(lia) fuel
                {| k_cur := []; k_state := MInit; k_sel := zlit (1 + session_n_vars (sess ps1)) |} true None
                (repeat false (1 + match max_argument_id L af with Some m => m | None => 0 end)) ps2 [] []).
  assert (G' := G (conj eq_refl (conj (ex_intro _ [] (conj (eq_trans (eq_sym (app_nil_r _)) (f_equal (fun x => x ++ []) Hcls) ) (Forall2_nil _))) eq_refl))).
  clear G.
  assert (Hcnt : cnt af {| k_cur := []; k_state := MInit; k_sel := zlit (1 + session_n_vars (sess ps1)) |} [] [] []).
  { unfold cnt. cbn [k_state sepl]. split; [intros S []|]. split; [exact I|]. split; [intros P []|]. split; [exact I|]. split; reflexivity. }
  specialize (G' Hcnt ltac:(discriminate) ltac:(discriminate) ltac:(discriminate)).
  assert (Hlen : id < length (repeat false (1 + match max_argument_id L af with Some m => m | None => 0 end))).
  { rewrite repeat_length. pose proof (has_lt L af id Hlive) as Hl.
    unfold max_argument_id, ls_max_id. destruct (slots (ls af)); cbn [length] in *; lia. }
  specialize (G' Hlen). unfold CBt, co_bound, cst in G'. cbn [k_state length Nat.add] in G'.
  destruct (pr_loop oracle L fuel af e id _ true None _ ps2); lia.
Qed.

Lemma pr_search_correct fuel (af : fw) e ps1 ps2 l id k result acc_b ref_b ext ps3 os :
  ready L af e ps1 -> e_sem e = DPR ->
  (forall x, live_var e x -> x <= session_n_vars (sess ps1)) ->
  bounded (cls ps1) (session_n_vars (sess ps1)) ->
  af = run_ops fresh os -> get_argument af l = Some id -> sess ps2 = sess ps1 ->
  pr_loop oracle L fuel af e id
    {| k_cur := []; k_state := MInit; k_sel := zlit (1 + session_n_vars (sess ps1)) |} true None
    (repeat false (1 + match max_argument_id L af with Some m => m | None => 0 end)) ps2
    = Done (k, result, acc_b, ref_b, ext) ps3 ->
  (result = false /\ exists X, ext = Some X /\ pr (af_of af) X /\ NoDup X /\ ~ In id X) \/
  (result = true /\ ext = None /\ forall P, pr (af_of af) P -> In id P).
Proof.
  intros A1 A2 A3 A4 A5 A6 A7 E.
  pose proof (pr_search_out fuel af e ps1 ps2 l id os A1 A2 A3 A4 A5 A6 A7) as G. rewrite E in G. exact (proj1 G).
Qed.

(* ---- cached entries of the preferred solver: the stored set is a preferred extension *)
Definition pcache_ok (af : fw) (ev : devent L) : Prop :=
  match ev with
  | DCred _ _ _ (Some X) | DSkep _ _ _ (Some X) => pr (af_of af) X /\ NoDup X /\ incl X (live_ids L af)
  | _ => True
  end.
Definition PInv (s : dsolver) : Prop :=
  (forall ev, In ev (trailing (s_buf L s)) -> pcache_ok (s_af L s) ev) /\
  (trailing (s_buf L s) <> [] -> forall ev, In ev (pending (s_buf L s)) -> is_update_ev L ev = false).

Lemma pushed_PInv (s : dsolver) af buf ev :
  PInv s -> af = fold_left ev_apply (pending (s_buf L s)) (s_af L s) ->
  b_buffer L buf = b_buffer L (s_buf L s) -> b_next L buf = length (b_buffer L (s_buf L s)) ->
  is_update_ev L ev = false -> pcache_ok af ev ->
  PInv (pushed_state L s af buf ev).
Proof.
  intros [C1 C2] Haf Hb Hn Hev Hok. unfold PInv, pushed_state, DynDefs.trailing, DynDefs.pending, buf_push, buf_with.
  cbn [s_buf s_af b_buffer b_next]. rewrite Hb, trailing_snoc, Hev. split.
  - intros ev' [<-|Hin]; [exact Hok|].
    assert (Hne : trailing (s_buf L s) <> []).
    { unfold DynDefs.trailing. intros E. rewrite E in Hin. destruct Hin. }
    rewrite Haf, (fold_no_update L leqb _ _ (C2 Hne)). apply C1. exact Hin.
  - intros _ ev'. rewrite Hn, skipn_app, skipn_all, Nat.sub_diag. cbn [skipn app]. intros [<-|[]]. exact Hev.
Qed.

Theorem vreach_PInv thr s ps os : vreach thr KPr s ps os -> PInv s.
Proof.
  induction 1 as [ps0 s ps Hn|s ps os o Hr IH|s ps os fuel q cert l s' a ps' Hr IH Hq].
  - unfold dyn_new in Hn. apply bind_Done in Hn. destruct Hn as (u & ps1 & _ & Hn). apply Done_inj in Hn.
    destruct Hn as [<- _]. split; cbn [s_buf s_af]; unfold DynDefs.trailing; cbn; [tauto|congruence].
  - pose proof (vreach_reach L leqb _ _ _ _ _ _ Hr) as Hr'.
    pose proof (reach_frame_inv L leqb _ _ _ Hr') as [Hkind _ _ _].
    unfold dyn_update. pose proof (buf_update_spec L leqb (s_buf L s) o) as Hb. cbv zeta in Hb.
    destruct Hb as (_ & _ & _ & _ & Hcase). rewrite Hkind.
    destruct (buf_update L leqb (s_buf L s) o) as [b r]. cbn [fst snd] in *.
    destruct Hcase as [(_ & ev & Hev & Hbf & _)|(_ & ->)]; [|destruct s; exact IH].
    unfold PInv, DynDefs.trailing. cbn [s_buf s_af]. rewrite Hbf, trailing_snoc, Hev.
    split; [intros ev' []|congruence].
  - pose proof (vreach_reach L leqb _ _ _ _ _ _ Hr) as Hr'.
    pose proof (reach_frame_inv L leqb _ _ _ Hr') as [Hkind _ _ _].
    destruct (dyn_query_pr_inv' thr fuel s q cert l ps s' a ps' Hkind Hq) as (_ & ans & _ & Hpr).
    destruct (pr_ds_query_full fuel s l ps s' ans ps' Hpr) as
      [(b & X & _ & -> & _ & _)|(af & buf & ps1 & Hue & Hrest)]; [exact IH|].
    destruct (query_ready_pr thr s ps os af buf ps1 Hr Hue) as (e & He & Hrd & Hsem & Hlv & Hbd & Haf & Hbf & Hnx).
    destruct (update_encoding_spec L leqb _ _ _ _ _ Hue) as (E1 & _). cbn [fst] in E1.
    destruct (Hrest e He) as (id & ps2 & k & result & acc_b & ref_b & ext & ps3 & acc & refused & Hid & Hs2 & Hloop & -> & _).
    apply pushed_PInv; auto. cbn [pcache_ok]. destruct ext as [X|]; [|exact I].
    destruct (pr_search_correct fuel af e ps1 ps2 l id k result acc_b ref_b (Some X) ps3 os Hrd Hsem Hlv Hbd Haf Hid Hs2 Hloop)
      as [(_ & X' & EX & Hp & Hnd & _)|(_ & EX & _)]; [|discriminate EX].
    injection EX as <-. split; [exact Hp|]. split; [exact Hnd|]. exact (proj1 (pr_adm _ _ Hp)).
Qed.

(* ================================================================ Part D *)
Lemma hit_framework_pr (s : dsolver) os :
  reach KPr s os -> PInv s -> trailing (s_buf L s) <> [] -> s_af L s = run_ops fresh os.
Proof.
  intros Hr [_ C2] Hne. pose proof (reach_frame_inv L leqb _ _ _ Hr) as [Hkind _ Hsy Hsp].
  unfold DynDefs.synced in Hsy. unfold DynDefs.spec_fw in Hsp. rewrite Hkind in Hsy, Hsp.
  rewrite (fold_no_update L leqb _ _ (C2 Hne)) in Hsy. congruence.
Qed.

(* THE FUNCTIONAL THEOREM for the dynamic preferred solver *)
Theorem pr_functional thr s ps os fuel cert l id s' b c ps' :
  vreach thr KPr s ps os ->
  get_argument (run_ops fresh os) l = Some id ->
  dyn_query oracle L leqb thr fuel s QDS cert l ps = Done (s', (b, c)) ps' ->
  answer_ok PR false cert (af_of (run_ops fresh os)) id (b, c).
Proof.
  intros Hv Hl Hq.
  pose proof (vreach_reach L leqb _ _ _ _ _ _ Hv) as Hr.
  pose proof (reach_frame_inv L leqb _ _ _ Hr) as [Hkind _ _ _].
  pose proof (vreach_PInv thr s ps os Hv) as Hpi.
  destruct (dyn_query_pr_inv' thr fuel s QDS cert l ps s' (b, c) ps' Hkind Hq) as (_ & ans & -> & Hpr).
  apply answer_ok_strip.
  destruct (pr_ds_query_full fuel s l ps s' ans ps' Hpr) as
    [(b0 & X & Hhit & _ & -> & _)|(af & buf & ps1 & Hue & Hrest)].
  - (* served from the cache *)
    pose proof Hhit as Hhit'. unfold is_skep in Hhit'.
    destruct (skep_scan_hit L leqb _ _ _ _ Hhit') as (_ & ev & Hin & acc & refused & Hev & _).
    fold (trailing (s_buf L s)) in Hin.
    pose proof (hit_framework_pr s os Hr Hpi (trailing_ne L s ev Hin)) as Haf.
    destruct (pr_cache_sound L leqb leqb_spec s os l b0 X Hr Hhit) as [-> Hnot].
    rewrite Haf in Hnot. specialize (Hnot id Hl).
    pose proof (proj1 Hpi ev Hin) as Hok. rewrite Haf in Hok.
    assert (G : pr (af_of (run_ops fresh os)) X /\ NoDup X /\ incl X (live_ids L (run_ops fresh os))).
    { destruct Hev as [-> | ->]; exact Hok. }
    destruct G as (K1 & K2 & K3). split; cbn [fst snd].
    + split; [discriminate|]. intros Hsk. destruct (Hsk X K1) as (a & [<-|[]] & Ha). contradiction.
    + auto 7.
  - destruct (query_ready_pr thr s ps os af buf ps1 Hv Hue) as (e & He & Hrd & Hsem & Hlv & Hbd & Haf & _).
    destruct (Hrest e He) as (id' & ps2 & k & result & acc_b & ref_b & ext & ps3 & acc & refused & Hid & Hs2 & Hloop & _ & -> & _).
    assert (id' = id) by (rewrite Haf in Hid; congruence). subst id'.
    destruct (pr_search_correct fuel af e ps1 ps2 l id k result acc_b ref_b ext ps3 os Hrd Hsem Hlv Hbd Haf Hid Hs2 Hloop)
      as [(-> & X & -> & Hp & Hnd & Hn)|(-> & -> & Hall)]; rewrite Haf in *; split; cbn [fst snd].
    + split; [discriminate|]. intros Hsk. destruct (Hsk X Hp) as (a & [<-|[]] & Ha). contradiction.
    + split; [reflexivity|]. split; [reflexivity|]. split; [exact Hp|]. split; [exact Hnd|].
      split; [exact (proj1 (pr_adm _ _ Hp))|exact Hn].
    + split; [intros _|reflexivity]. intros P HP. exists id. split; [left; reflexivity|apply Hall, HP].
    + reflexivity.
Qed.

(* ---- the outcome form: returns the answer, or aborts on an Unknown; never panics; runs out of fuel
   only if the fuel is below the bound *)
Lemma bind_OOF {A B} (m : Prog.M A) (k : A -> Prog.M B) ps ps' :
  bind m k ps = OutOfFuel ps' ->
  m ps = OutOfFuel ps' \/ exists a ps1, m ps = Done a ps1 /\ k a ps1 = OutOfFuel ps'.
Proof.
  unfold bind. destruct (m ps) as [a ps1| | |]; intros E; try discriminate E; [right; eauto|].
  left. injection E as ->. reflexivity.
Qed.

Lemma nof_not_OOF {A} (m : Prog.M A) ps ps' : nof m -> m ps <> OutOfFuel ps'.
Proof. intros H E. specialize (H ps). rewrite E in H. exact H. Qed.

Lemma pr_ds_query_oof thr fuel (s : dsolver) ps os l id ps' :
  vreach thr KPr s ps os -> get_argument (run_ops fresh os) l = Some id ->
  pr_ds_query oracle L leqb fuel s l ps = OutOfFuel ps' -> fuel < pr_dyn_bound (run_ops fresh os).
Proof.
  intros Hv Hl E. assert (Hsk : std_kind KPr) by (unfold std_kind; tauto).
  pose proof (std_kind_reach L leqb _ _ _ (vreach_reach L leqb _ _ _ _ _ _ Hv) Hsk) as Hstd.
  unfold pr_ds_query in E. destruct (is_skep L leqb (s_buf L s) l) as [[b|] [X|]]; [discriminate E| | |].
  all: apply bind_OOF in E; destruct E as [E|([af buf] & ps1 & Hue & E)];
    [exfalso; exact (nof_not_OOF _ _ _ (nof_update_encoding L leqb _ _ Hstd) E)|];
    destruct (query_ready_pr thr s ps os af buf ps1 Hv Hue) as (e & He & Hrd & Hsem & Hlv & Hbd & Haf & _);
    rewrite He in E;
    apply bind_OOF in E; destruct E as [E|(n & ps2 & E2 & E)]; [discriminate E|];
    apply n_vars_sess in E2; destruct E2 as [-> Hs2];
    apply bind_OOF in E; destruct E as [E|(id' & ps3 & E3 & E)]; [exfalso; exact (nof_not_OOF _ _ _ (nof_opt_m _) E)|];
    apply opt_m_Done in E3; destruct E3 as [Hid ->];
    assert (id' = id) by (rewrite Haf in Hid; congruence); subst id';
    pose proof (pr_search_out fuel af e ps1 ps2 l id os Hrd Hsem Hlv Hbd Haf Hid Hs2) as G;
    apply bind_OOF in E; destruct E as [E|([[[[k result] acc_b] ref_b] X'] & ps4 & E4 & E)];
    [rewrite E in G; rewrite <- Haf; exact (proj1 G)|];
    exfalso; refine (nof_not_OOF _ _ _ _ E);
    (apply nof_bind; [apply nof_opt_m|]); intros acc; (apply nof_bind; [apply nof_opt_m|]); intros refused;
    (apply nof_bind; [apply nof_add_clause|]); intros _; apply nof_ret.
Qed.

Theorem pr_functional_run thr s ps os fuel cert l id :
  vreach thr KPr s ps os -> get_argument (run_ops fresh os) l = Some id ->
  match dyn_query oracle L leqb thr fuel s QDS cert l ps with
  | Done (s', (b, c)) ps' => answer_ok PR false cert (af_of (run_ops fresh os)) id (b, c)
  | Abort _ => True
  | Panic _ => False
  | OutOfFuel _ => fuel < pr_dyn_bound (run_ops fresh os)
  end.
Proof.
  intros Hv Hl. pose proof (vreach_reach L leqb _ _ _ _ _ _ Hv) as Hr.
  pose proof (reach_frame_inv L leqb _ _ _ Hr) as [Hkind _ _ _].
  pose proof (std_query_never_panics L leqb leqb_spec KPr s os oracle thr fuel QDS cert l id ps Hr Hl
                (or_intror (or_intror (conj eq_refl eq_refl)))) as Hnp.
  destruct (dyn_query oracle L leqb thr fuel s QDS cert l ps) as [[s' [b c]] ps'|ps'|ps'|ps'] eqn:Hq.
  - exact (pr_functional thr s ps os fuel cert l id s' b c ps' Hv Hl Hq).
  - exact I.
  - exact Hnp.
  - unfold dyn_query in Hq. rewrite Hkind in Hq. apply bind_OOF in Hq.
    destruct Hq as [Hq|(r & ps1 & _ & Hq)]; [|discriminate Hq].
    exact (pr_ds_query_oof thr fuel s ps os l id ps' Hv Hl Hq).
Qed.

End Pref.

(* the status of the preferred solver depends on the abstract framework only *)
Section PrefIndep.
Variable L : Type.
Variable leqb : L -> L -> bool.
Hypothesis leqb_spec : forall x y, leqb x y = true <-> x = y.

Corollary pr_status_history_independent
  oracle1 oracle2 thr1 thr2 s1 s2 ps1 ps2 os1 os2 fuel1 fuel2 cert1 cert2 l1 l2 id s1' s2' b1 b2 c1 c2 ps1' ps2' :
  valid_oracle oracle1 -> valid_oracle oracle2 ->
  vreach L leqb oracle1 thr1 KPr s1 ps1 os1 -> vreach L leqb oracle2 thr2 KPr s2 ps2 os2 ->
  af_equiv (af_of (run_ops L leqb (fresh_fw L leqb) os1)) (af_of (run_ops L leqb (fresh_fw L leqb) os2)) ->
  get_argument L leqb (run_ops L leqb (fresh_fw L leqb) os1) l1 = Some id ->
  get_argument L leqb (run_ops L leqb (fresh_fw L leqb) os2) l2 = Some id ->
  dyn_query oracle1 L leqb thr1 fuel1 s1 QDS cert1 l1 ps1 = Done (s1', (b1, c1)) ps1' ->
  dyn_query oracle2 L leqb thr2 fuel2 s2 QDS cert2 l2 ps2 = Done (s2', (b2, c2)) ps2' ->
  b1 = b2.
Proof.
  intros Hv1 Hv2 Hr1 Hr2 Heq Hl1 Hl2 Hq1 Hq2.
  destruct (pr_functional L leqb leqb_spec oracle1 Hv1 _ _ _ _ _ _ _ _ _ _ _ _ Hr1 Hl1 Hq1) as [A1 _].
  destruct (pr_functional L leqb leqb_spec oracle2 Hv2 _ _ _ _ _ _ _ _ _ _ _ _ Hr2 Hl2 Hq2) as [A2 _].
  cbn [fst] in A1, A2.
  assert (E : b1 = true <-> b2 = true) by (rewrite A1, A2; apply skep_af_equiv; exact Heq).
  destruct b1, b2; try reflexivity; [symmetry|]; apply E; reflexivity.
Qed.
End PrefIndep.
