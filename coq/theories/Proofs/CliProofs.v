(* Proofs about Model/Cli.v (property C05):
   (i)   the 21 problem strings: count, distinctness, [accepted p <-> In (upper p) problems_21],
         case-insensitivity, the `problems` listing;
   (ii)  every error class gives ExitNonZero (which carries no output), bytes come only from a
         [Done] outcome, an Unknown SAT answer gives ExitNonZero (via AbortProofs.unknown_aborts);
   (iii) shape of the output and the parse-back lemma [parse_answer (render o) = Some o];
   (iv)  the dispatch table of solve_command.rs and its semantic justification (Spec/Theory.v),
         end-to-end correctness of the five problems answered by the grounded solver
         (GroundedProofs), the DC-PR certificate gap (finding F-CLI-1) as a counter-example. *)
From Coq Require Import String Ascii NArith List Bool Lia.
From Crusta Require Import Spec.AF Spec.SemFacts Spec.Theory Sat.Cnf Sat.Prog Model.Solvers Model.Cli.
From Crusta Require Import Proofs.AbortProofs Proofs.GroundedProofs.
Import ListNotations.

(* ------------------------------------------------------------------ bytes *)
Lemma beqb_eq : forall a b, beqb a b = true <-> a = b.
Proof.
  induction a as [|x a IH]; destruct b as [|y b]; cbn [beqb]; split; intros H;
    try reflexivity; try discriminate.
  - apply andb_true_iff in H. destruct H as [H1 H2]. apply N.eqb_eq in H1. apply IH in H2. congruence.
  - injection H as -> ->. apply andb_true_iff. split; [apply N.eqb_refl|apply IH; reflexivity].
Qed.
Lemma beqb_refl a : beqb a a = true.
Proof. apply beqb_eq. reflexivity. Qed.
Lemma bmem_In : forall a l, bmem a l = true <-> In a l.
Proof.
  intros a l. unfold bmem. rewrite existsb_exists. split.
  - intros [x [Hx E]]. apply beqb_eq in E. subst. exact Hx.
  - intros H. exists a. split; [exact H|apply beqb_refl].
Qed.

Fixpoint nodupb (l : list bytes) : bool :=
  match l with [] => true | x :: r => negb (bmem x r) && nodupb r end.
Lemma nodupb_NoDup : forall l, nodupb l = true -> NoDup l.
Proof.
  induction l as [|x r IH]; cbn [nodupb]; intros H; constructor.
  - apply andb_true_iff in H. destruct H as [H _]. intros Hin. apply bmem_In in Hin.
    rewrite Hin in H. discriminate.
  - apply IH. apply andb_true_iff in H. apply H.
Qed.

(* ------------------------------------------------------------------ (i) problem strings *)
Lemma upper_lower_byte b : upper_byte (lower_byte b) = upper_byte b.
Proof.
  unfold upper_byte, lower_byte.
  destruct (N.leb_spec 65 b); destruct (N.leb_spec b 90); cbn [andb].
  all: repeat match goal with |- context [N.leb ?x ?y] => destruct (N.leb_spec x y) end; cbn [andb].
  all: lia.
Qed.
Lemma lower_upper_byte b : lower_byte (upper_byte b) = lower_byte b.
Proof.
  unfold upper_byte, lower_byte.
  destruct (N.leb_spec 97 b); destruct (N.leb_spec b 122); cbn [andb].
  all: repeat match goal with |- context [N.leb ?x ?y] => destruct (N.leb_spec x y) end; cbn [andb].
  all: lia.
Qed.
Lemma upper_byte_hyphen b : N.eqb (upper_byte b) hyphen = N.eqb b hyphen.
Proof.
  unfold upper_byte, hyphen.
  repeat match goal with |- context [N.leb ?a ?b] => destruct (N.leb_spec a b) end; cbn [andb];
    try reflexivity.
  destruct (N.eqb_spec (b - 32) 45), (N.eqb_spec b 45); try reflexivity; lia.
Qed.
Lemma upper_lower w : upper (lower w) = upper w.
Proof. unfold upper, lower. rewrite map_map. apply map_ext. exact upper_lower_byte. Qed.
Lemma lower_upper w : lower (upper w) = lower w.
Proof. unfold upper, lower. rewrite map_map. apply map_ext. exact lower_upper_byte. Qed.
Lemma upper_idem w : upper (upper w) = upper w.
Proof. rewrite <- (upper_lower (upper w)), lower_upper, upper_lower. reflexivity. Qed.

Lemma split_first_upper : forall p,
  split_first hyphen (upper p) =
  match split_first hyphen p with Some (a, b) => Some (upper a, upper b) | None => None end.
Proof.
  induction p as [|x r IH]; [reflexivity|].
  cbn [upper map split_first]. fold (upper r). rewrite upper_byte_hyphen.
  destruct (N.eqb x hyphen); [reflexivity|].
  rewrite IH. destruct (split_first hyphen r) as [[a b]|]; reflexivity.
Qed.
Lemma split_first_app : forall sep p a b, split_first sep p = Some (a, b) -> p = a ++ sep :: b.
Proof.
  intros sep. induction p as [|x r IH]; intros a b H; [discriminate|].
  cbn [split_first] in H. destruct (N.eqb_spec x sep) as [->|_].
  - injection H as <- <-. reflexivity.
  - destruct (split_first sep r) as [[a' b']|]; [|discriminate].
    injection H as <- <-. cbn [app]. f_equal. apply IH. reflexivity.
Qed.
Lemma split_first_notin : forall sep l rest, ~ In sep l ->
  split_first sep (l ++ sep :: rest) = Some (l, rest).
Proof.
  intros sep. induction l as [|x l IH]; intros rest Hn; cbn [app split_first].
  - rewrite N.eqb_refl. reflexivity.
  - destruct (N.eqb_spec x sep) as [->|_]; [exfalso; apply Hn; left; reflexivity|].
    rewrite IH; [reflexivity|]. intros H. apply Hn. right. exact H.
Qed.

Lemma query_of_bytes_upper w : query_of_bytes (upper w) = query_of_bytes w.
Proof. unfold query_of_bytes. rewrite lower_upper. reflexivity. Qed.
Lemma sem_of_bytes_upper w : sem_of_bytes (upper w) = sem_of_bytes w.
Proof. unfold sem_of_bytes. rewrite lower_upper. reflexivity. Qed.

(* case-insensitivity of the whole reading *)
Theorem read_problem_string_upper : forall p,
  read_problem_string (upper p) = read_problem_string p.
Proof.
  intros p. unfold read_problem_string. rewrite split_first_upper.
  destruct (split_first hyphen p) as [[a b]|]; [|reflexivity].
  rewrite query_of_bytes_upper, sem_of_bytes_upper. reflexivity.
Qed.
Theorem accepted_upper : forall p, accepted (upper p) = accepted p.
Proof. intros p. unfold accepted. rewrite read_problem_string_upper. reflexivity. Qed.
Theorem read_problem_string_lower : forall p,
  read_problem_string (lower p) = read_problem_string p.
Proof.
  intros p. rewrite <- (read_problem_string_upper (lower p)), upper_lower.
  apply read_problem_string_upper.
Qed.

Lemma query_of_bytes_name w q : query_of_bytes w = Some q -> upper w = query_name q.
Proof.
  unfold query_of_bytes. intros H. rewrite <- upper_lower.
  repeat match type of H with
         | (if beqb ?a ?b then _ else _) = _ =>
             let E := fresh "E" in destruct (beqb a b) eqn:E;
             [apply beqb_eq in E; rewrite E; injection H as <-; reflexivity|]
         end.
  discriminate.
Qed.
Lemma sem_of_bytes_name w s : sem_of_bytes w = Some s -> upper w = sem_name s.
Proof.
  unfold sem_of_bytes. intros H. rewrite <- upper_lower.
  repeat match type of H with
         | (if beqb ?a ?b then _ else _) = _ =>
             let E := fresh "E" in destruct (beqb a b) eqn:E;
             [apply beqb_eq in E; rewrite E; injection H as <-; reflexivity|]
         end.
  discriminate.
Qed.

Lemma read_problem_string_inr p q s :
  read_problem_string p = inr (q, s) -> upper p = problem_string q s.
Proof.
  unfold read_problem_string. intros H.
  destruct (split_first hyphen p) as [[a b]|] eqn:E; [|discriminate].
  destruct (query_of_bytes a) as [q'|] eqn:Eq; [|discriminate].
  destruct (sem_of_bytes b) as [s'|] eqn:Es; [|discriminate].
  injection H as <- <-. apply split_first_app in E. subst p.
  unfold upper, problem_string. rewrite map_app. cbn [map].
  fold (upper a). fold (upper b).
  rewrite (query_of_bytes_name _ _ Eq), (sem_of_bytes_name _ _ Es). reflexivity.
Qed.

Lemma problem_string_in q s : In (problem_string q s) problems_21.
Proof. apply bmem_In. destruct q, s; reflexivity. Qed.
Lemma problem_string_read q s : read_problem_string (problem_string q s) = inr (q, s).
Proof. destruct q, s; reflexivity. Qed.
Lemma in_problems_21 p : In p problems_21 -> exists q s, p = problem_string q s.
Proof.
  unfold problems_21. intros H. apply in_flat_map in H. destruct H as [s [_ H]].
  apply in_map_iff in H. destruct H as [q [<- _]]. exists q, s. reflexivity.
Qed.

Theorem problems_21_length : List.length problems_21 = 21.
Proof. reflexivity. Qed.
Theorem problems_21_NoDup : NoDup problems_21.
Proof. apply nodupb_NoDup. reflexivity. Qed.
Theorem problems_21_upper : forall p, In p problems_21 -> upper p = p.
Proof. intros p H. destruct (in_problems_21 p H) as [q [s ->]]. destruct q, s; reflexivity. Qed.

Theorem accepted_iff : forall p, accepted p = true <-> In (upper p) problems_21.
Proof.
  intros p. split.
  - unfold accepted. destruct (read_problem_string p) as [e|[q s]] eqn:E; [discriminate|].
    intros _. rewrite (read_problem_string_inr _ _ _ E). apply problem_string_in.
  - intros H. rewrite <- accepted_upper. destruct (in_problems_21 _ H) as [q [s ->]].
    unfold accepted. rewrite problem_string_read. reflexivity.
Qed.

(* the three error classes of read_problem_string are exactly the non-accepted strings *)
Theorem rejected_iff : forall p, accepted p = false <-> exists e, read_problem_string p = inl e.
Proof.
  intros p. unfold accepted. destruct (read_problem_string p) as [e|[q s]]; split;
    try discriminate; eauto. intros [e He]. discriminate.
Qed.

Theorem problems_listing :
  problems_line =
  B "[SE-GR,DC-GR,DS-GR,SE-CO,DC-CO,DS-CO,SE-PR,DC-PR,DS-PR,SE-ST,DC-ST,DS-ST,SE-SST,DC-SST,DS-SST,SE-STG,DC-STG,DS-STG,SE-ID,DC-ID,DS-ID]" ++ [nl]
  /\ forall oracle thr d fuel inst, exec oracle thr d fuel CProblems inst = Some (Exit0 problems_line).
Proof. split; reflexivity. Qed.

(* the listing, split on commas, is problems_21 *)
Lemma split_on_sep : forall sep a r, ~ In sep a -> split_on sep (a ++ sep :: r) = a :: split_on sep r.
Proof.
  intros sep. induction a as [|x a IH]; intros r Hn; cbn [app split_on].
  - rewrite N.eqb_refl. reflexivity.
  - destruct (N.eqb_spec x sep) as [->|_]; [exfalso; apply Hn; left; reflexivity|].
    rewrite IH; [reflexivity|]. intros H. apply Hn. right. exact H.
Qed.
Lemma split_on_nosep : forall sep a, ~ In sep a -> split_on sep a = [a].
Proof.
  intros sep. induction a as [|x a IH]; intros Hn; cbn [split_on]; [reflexivity|].
  destruct (N.eqb_spec x sep) as [->|_]; [exfalso; apply Hn; left; reflexivity|].
  rewrite IH; [reflexivity|]. intros H. apply Hn. right. exact H.
Qed.

(* ------------------------------------------------------------------ (ii) errors, Done only *)
Section Run.
Variable oracle : nat -> cnf -> list lit -> answer.
Variable thr : nat.
Variable d : discipline.
Variable fuel : nat.

Lemma validate_inr : forall o inst i q s al,
  validate o inst = inr (i, q, s, al) ->
  o_reader o <> RIccma23Aba /\ inst = Some i /\
  read_problem_string (o_problem o) = inr (q, s) /\
  match o_arg o with
  | None => q = QSE /\ al = []
  | Some a => exists id, i_arg i a = Some id /\ al = match q with QSE => [] | _ => [id] end
  end.
Proof.
  intros o inst i q s al. unfold validate.
  destruct (o_reader o) eqn:Er; try discriminate;
    (destruct inst as [i0|]; [|discriminate]);
    (destruct (o_arg o) as [a|] eqn:Ea;
     [destruct (i_arg i0 a) as [id|] eqn:Ei; [|discriminate]|]);
    (destruct (read_problem_string (o_problem o)) as [e|[q0 s0]] eqn:Ep; [discriminate|]);
    destruct q0; intros H; try discriminate; injection H as <- <- <- <-;
    (split; [discriminate|split; [reflexivity|split; [reflexivity|]]]);
    try (exists id; split; [exact Ei|reflexivity]); try (split; reflexivity).
Qed.

(* the error classes of the statement *)
Definition usage_or_input_error (o : options) (inst : option instance) : Prop :=
  o_reader o = RIccma23Aba                                              (* reader offered but not implemented: panic *)
  \/ inst = None                                                        (* unreadable or ill-formed file *)
  \/ (exists i a, inst = Some i /\ o_arg o = Some a /\ i_arg i a = None)   (* unknown query argument *)
  \/ accepted (o_problem o) = false                                     (* unknown problem *)
  \/ (exists q s, read_problem_string (o_problem o) = inr (q, s) /\ q <> QSE /\ o_arg o = None).  (* missing argument *)

Theorem errors_exit_nonzero : forall o inst,
  usage_or_input_error o inst ->
  run_traced oracle thr d fuel o inst = (ExitNonZero, []).
Proof.
  intros o inst He. unfold run_traced.
  destruct (validate o inst) as [e|[[[i q] s] al]] eqn:V; [reflexivity|exfalso].
  apply validate_inr in V. destruct V as (Hr & Hi & Hp & Ha).
  destruct He as [H|[H|[H|[H|H]]]].
  - contradiction.
  - congruence.
  - destruct H as (i' & a & H1 & H2 & H3). rewrite H2 in Ha. destruct Ha as (id & Hid & _).
    assert (i' = i) by congruence. subst i'. congruence.
  - unfold accepted in H. rewrite Hp in H. discriminate.
  - destruct H as (q' & s' & H1 & H2 & H3). rewrite H3 in Ha. destruct Ha as [Hq _].
    rewrite Hp in H1. injection H1 as <- <-. contradiction.
Qed.

(* conversely, an error of [validate] is one of these classes: when none applies the query is run *)
Theorem validate_inl : forall o inst e, validate o inst = inl e -> usage_or_input_error o inst.
Proof.
  intros o inst e. unfold validate, usage_or_input_error.
  destruct (o_reader o) eqn:Er.
  3: { intros _. left. reflexivity. }
  all: (destruct inst as [i0|]; [|intros _; right; left; reflexivity]).
  all: destruct (o_arg o) as [a|] eqn:Ea.
  all: try (destruct (i_arg i0 a) as [id|] eqn:Ei;
            [|intros _; right; right; left; exists i0, a; auto]).
  all: (destruct (read_problem_string (o_problem o)) as [e'|[q0 s0]] eqn:Ep;
        [intros _; right; right; right; left; unfold accepted; rewrite Ep; reflexivity|]).
  all: destruct q0; try discriminate.
  all: intros _; right; right; right; right; eexists _, s0;
       (split; [reflexivity|split; [discriminate|reflexivity]]).
Qed.

(* bytes are produced only from a [Done] outcome of the dispatched query, after it returned *)
Theorem exit0_inv : forall o inst out,
  run oracle thr d fuel o inst = Exit0 out ->
  exists i q s al oc st',
    validate o inst = inr (i, q, s, al) /\
    Prog.run d (query_prog oracle thr fuel o i q s al) = Done oc st' /\
    out = render (writer_of (o_reader o)) (i_label i) oc.
Proof.
  intros o inst out. unfold run, run_traced.
  destruct (validate o inst) as [e|[[[i q] s] al]] eqn:V; cbn [fst]; [discriminate|].
  destruct (Prog.run d (query_prog oracle thr fuel o i q s al)) as [oc st'|st'|st'|st'] eqn:R;
    try discriminate.
  intros H. injection H as <-. exists i, q, s, al, oc, st'.
  split; [reflexivity|split; [exact R|reflexivity]].
Qed.

(* an aborted or panicking query gives a non-zero exit *)
Theorem abort_exit_nonzero : forall o inst i q s al st',
  validate o inst = inr (i, q, s, al) ->
  (Prog.run d (query_prog oracle thr fuel o i q s al) = Abort st' \/
   Prog.run d (query_prog oracle thr fuel o i q s al) = Panic st') ->
  run oracle thr d fuel o inst = ExitNonZero.
Proof.
  intros o inst i q s al st' V [H|H]; unfold run, run_traced; rewrite V, H; reflexivity.
Qed.

(* C17 at the level of the tools: if the SAT log of the run contains an Unknown answer the tool
   exits with a non-zero status (and ExitNonZero carries no output) *)
Theorem unknown_exit_nonzero : forall o inst k a,
  In (k, ESolve a Unknown) (snd (run_traced oracle thr d fuel o inst)) ->
  fst (run_traced oracle thr d fuel o inst) = ExitNonZero.
Proof.
  intros o inst k a. unfold run_traced.
  destruct (validate o inst) as [e|[[[i q] s] al]] eqn:V; cbn [fst snd]; [reflexivity|].
  unfold query_prog.
  pose proof (unknown_aborts oracle thr d fuel (solver_for q s) q (o_cert o)
                (encoder_for (o_problem o) s (o_encoding o)) (i_g i) al) as H.
  destruct (Prog.run d (run_query oracle thr fuel (solver_for q s) q (o_cert o)
              (encoder_for (o_problem o) s (o_encoding o)) (i_g i) al)) as [oc st'|st'|st'|st'];
    try reflexivity; intros Hin; exfalso; unfold log_of in Hin; cbn [final_st] in Hin;
    apply in_rev in Hin; unfold no_unknown in H; rewrite Forall_forall in H;
    apply (H _ Hin); exists a; reflexivity.
Qed.

(* the same for a recorded script: an Exit0 result consumed no Unknown answer *)
Corollary exit0_no_unknown : forall o inst out,
  fst (run_traced oracle thr d fuel o inst) = Exit0 out ->
  forall k a, ~ In (k, ESolve a Unknown) (snd (run_traced oracle thr d fuel o inst)).
Proof.
  intros o inst out H k a Hin. rewrite (unknown_exit_nonzero o inst k a Hin) in H. discriminate.
Qed.

End Run.

(* ------------------------------------------------------------------ (iii) shape of the output *)
Theorem status_lines : status_line true = B "YES" ++ [nl] /\ status_line false = B "NO" ++ [nl]
                       /\ no_extension_line = B "NO" ++ [nl].
Proof. repeat split; reflexivity. Qed.

Theorem witness_lines : forall label e,
  witness_line WIccma label e = B "w" ++ flat_map (fun a => B " " ++ label a) e ++ [nl] /\
  witness_line WApx label e =
    B "[" ++ match e with [] => [] | a :: r => label a ++ flat_map (fun b => B "," ++ label b) r end
          ++ B "]" ++ [nl].
Proof. intros label e. split; reflexivity. Qed.

(* one status line and/or one witness line, nothing else, never empty *)
Theorem render_shape : forall w label o,
  exists (st : option bool) (wi : option (list nat)),
    render w label o =
      match st with Some b => status_line b | None => [] end ++
      match wi with Some e => witness_line w label e | None => [] end
    /\ (st <> None \/ wi <> None)
    /\ match o with
       | OExt (Some e) => st = None /\ wi = Some e
       | OExt None => st = Some false /\ wi = None
       | OAcc b c => st = Some b /\ wi = c
       end.
Proof.
  intros w label o. destruct o as [[e|]|b [c|]].
  - exists None, (Some e). repeat split; [right; discriminate].
  - exists (Some false), None. repeat split; [left; discriminate].
  - exists (Some b), (Some c). repeat split; [left; discriminate].
  - exists (Some b), None. cbn [render]. rewrite app_nil_r. repeat split; left; discriminate.
Qed.

Fixpoint count_nl (l : bytes) : nat :=
  match l with [] => 0 | x :: r => (if N.eqb x nl then 1 else 0) + count_nl r end.
Lemma count_nl_app a b : count_nl (a ++ b) = count_nl a + count_nl b.
Proof. induction a as [|x a IH]; cbn [app count_nl]; [reflexivity|]. rewrite IH. lia. Qed.
Lemma count_nl_notin l : ~ In nl l -> count_nl l = 0.
Proof.
  induction l as [|x l IH]; intros H; cbn [count_nl]; [reflexivity|].
  destruct (N.eqb_spec x nl) as [->|_]; [exfalso; apply H; left; reflexivity|].
  rewrite IH; [reflexivity|]. intros H'. apply H. right. exact H'.
Qed.
Lemma count_nl_flat (sep : N) (label : nat -> bytes) : sep <> nl -> forall e,
  (forall a, In a e -> ~ In nl (label a)) ->
  count_nl (flat_map (fun a : nat => sep :: label a) e) = 0.
Proof.
  intros Hs. induction e as [|a e IH]; intros H; cbn [flat_map]; [reflexivity|].
  rewrite count_nl_app. cbn [count_nl]. destruct (N.eqb_spec sep nl); [contradiction|].
  rewrite count_nl_notin by (apply H; left; reflexivity).
  rewrite IH; [reflexivity|]. intros b Hb. apply H. right. exact Hb.
Qed.
(* a witness line is ONE line: its only newline is its last byte *)
Theorem witness_line_one_line : forall w label e,
  (forall a, In a e -> ~ In nl (label a)) ->
  count_nl (witness_line w label e) = 1 /\ exists body, witness_line w label e = body ++ [nl].
Proof.
  intros w label e H. destruct w; cbn [witness_line].
  - split.
    + cbn [count_nl]. rewrite count_nl_app. destruct e as [|a r].
      * reflexivity.
      * rewrite count_nl_app, count_nl_notin by (apply H; left; reflexivity).
        rewrite (count_nl_flat comma label) by
          (try discriminate; intros b Hb; apply H; right; exact Hb). reflexivity.
    + exists (91%N :: match e with [] => [] | a :: r => label a ++ flat_map (fun b => comma :: label b) r end ++ [93%N]).
      cbn [app]. f_equal. rewrite <- app_assoc. reflexivity.
  - split.
    + cbn [count_nl]. rewrite count_nl_app, (count_nl_flat space label) by (try discriminate; exact H).
      reflexivity.
    + exists (119%N :: flat_map (fun a => space :: label a) e). reflexivity.
Qed.

(* ---- reading the answer back *)
Definition sep_of (w : writer) : N := match w with WIccma => space | WApx => comma end.
Definition label_ok (w : writer) (label : nat -> bytes) (un : bytes -> option nat) (a : nat) : Prop :=
  un (label a) = Some a /\ label a <> [] /\ ~ In nl (label a) /\ ~ In (sep_of w) (label a).
Definition outcome_args (o : outcome) : list nat :=
  match o with OExt (Some e) => e | OAcc _ (Some e) => e | _ => [] end.
Definition kind_ok (q : query) (o : outcome) : Prop :=
  match q, o with
  | QSE, OExt _ => True
  | QDC, OAcc _ _ | QDS, OAcc _ _ => True
  | _, _ => False
  end.

Lemma split_on_flat sep (label : nat -> bytes) : forall r a,
  (forall b, In b (a :: r) -> ~ In sep (label b)) ->
  split_on sep (label a ++ flat_map (fun b => sep :: label b) r) = label a :: map label r.
Proof.
  induction r as [|b r IH]; intros a H; cbn [flat_map map].
  - rewrite app_nil_r. apply split_on_nosep. apply H. left. reflexivity.
  - cbn [app]. rewrite split_on_sep by (apply H; left; reflexivity).
    f_equal. apply IH. intros c Hc. apply H. right. exact Hc.
Qed.
Lemma map_opt_labels (un : bytes -> option nat) (label : nat -> bytes) : forall e,
  (forall a, In a e -> un (label a) = Some a) -> map_opt un (map label e) = Some e.
Proof.
  induction e as [|a e IH]; intros H; cbn [map map_opt]; [reflexivity|].
  rewrite (H a (or_introl eq_refl)), IH; [reflexivity|]. intros b Hb. apply H. right. exact Hb.
Qed.
Lemma strip_last_app : forall l z, strip_last (l ++ [z]) = Some (l, z).
Proof.
  induction l as [|x l IH]; intros z; [reflexivity|].
  cbn [app strip_last]. destruct (l ++ [z]) eqn:E.
  - destruct l; discriminate.
  - rewrite <- E, IH. reflexivity.
Qed.

Definition witness_body (w : writer) (label : nat -> bytes) (e : list nat) : bytes :=
  match w with
  | WIccma => 119%N :: flat_map (fun a => space :: label a) e
  | WApx => 91%N :: match e with [] => [] | a :: r => label a ++ flat_map (fun b => comma :: label b) r end ++ [93%N]
  end.
Lemma witness_line_body w label e : witness_line w label e = witness_body w label e ++ [nl].
Proof.
  destruct w; cbn [witness_line witness_body app]; [|reflexivity].
  f_equal. rewrite <- app_assoc. reflexivity.
Qed.
Lemma in_flat_labels (sep x : N) (label : nat -> bytes) : forall e,
  In x (flat_map (fun a : nat => sep :: label a) e) -> x = sep \/ exists a, In a e /\ In x (label a).
Proof.
  induction e as [|a e IH]; cbn [flat_map]; intros H; [destruct H|].
  destruct H as [H|H]; [left; congruence|]. apply in_app_or in H. destruct H as [H|H].
  - right. exists a. split; [left; reflexivity|exact H].
  - destruct (IH H) as [E|[b [Hb Hx]]]; [left; exact E|right; exists b; split; [right; exact Hb|exact Hx]].
Qed.
Lemma witness_body_no_nl w label e :
  (forall a, In a e -> ~ In nl (label a)) -> ~ In nl (witness_body w label e).
Proof.
  intros H Hin. destruct w; cbn [witness_body] in Hin.
  - destruct Hin as [Hin|Hin]; [discriminate|]. apply in_app_or in Hin. destruct Hin as [Hin|Hin].
    + destruct e as [|a r]; [destruct Hin|]. apply in_app_or in Hin. destruct Hin as [Hin|Hin].
      * apply (H a (or_introl eq_refl) Hin).
      * apply in_flat_labels in Hin. destruct Hin as [E|[b [Hb Hx]]]; [discriminate|].
        apply (H b (or_intror Hb) Hx).
    + destruct Hin as [Hin|[]]. discriminate.
  - destruct Hin as [Hin|Hin]; [discriminate|].
    apply in_flat_labels in Hin. destruct Hin as [E|[b [Hb Hx]]]; [discriminate|]. apply (H b Hb Hx).
Qed.

Lemma parse_witness_body w label un e :
  (forall a, In a e -> label_ok w label un a) ->
  parse_witness w un (witness_body w label e) = Some e.
Proof.
  intros H. destruct w; cbn [witness_body parse_witness].
  - rewrite N.eqb_refl, strip_last_app, N.eqb_refl. destruct e as [|a r]; [reflexivity|].
    destruct (label a ++ flat_map (fun b => comma :: label b) r) eqn:E.
    + exfalso. destruct (H a (or_introl eq_refl)) as (_ & Hne & _). destruct (label a); [congruence|discriminate].
    + rewrite <- E. rewrite split_on_flat by (intros b Hb; apply (H b Hb)).
      apply (map_opt_labels un label (a :: r)). intros b Hb. apply (H b Hb).
  - rewrite N.eqb_refl. destruct e as [|a r]; [reflexivity|]. cbn [flat_map app].
    unfold space at 1. rewrite N.eqb_refl. fold space.
    rewrite split_on_flat by (intros b Hb; apply (H b Hb)).
    apply (map_opt_labels un label (a :: r)). intros b Hb. apply (H b Hb).
Qed.

Lemma witness_body_not_NO w label e : beqb (witness_body w label e) (B "NO") = false.
Proof. destruct w; reflexivity. Qed.

Lemma split_first_status b rest :
  split_first nl (status_line b ++ rest) = Some (if b then B "YES" else B "NO", rest).
Proof. destruct b; reflexivity. Qed.
Lemma status_of_line_status (b : bool) : status_of_line (if b then B "YES" else B "NO") = Some b.
Proof. destruct b; reflexivity. Qed.
Lemma match_nonempty {A T} (l : list A) (x y : T) :
  l <> [] -> match l with [] => x | _ :: _ => y end = y.
Proof. destruct l; [congruence|reflexivity]. Qed.
Lemma witness_line_nonempty w label e : witness_body w label e ++ [nl] <> [].
Proof. destruct w; discriminate. Qed.

Theorem parse_render : forall w label un q o,
  kind_ok q o -> (forall a, In a (outcome_args o) -> label_ok w label un a) ->
  parse_answer w un q (render w label o) = Some o.
Proof.
  intros w label un q o Hk Hl.
  assert (Hnl : forall e, (forall a, In a e -> label_ok w label un a) ->
                          ~ In nl (witness_body w label e)).
  { intros e He. apply witness_body_no_nl. intros a Ha. apply (He a Ha). }
  assert (Hacc : forall b c q', q' <> QSE ->
            (forall a, In a c -> label_ok w label un a) ->
            parse_answer w un q' (status_line b ++ witness_line w label c) = Some (OAcc b (Some c))).
  { intros b c q' Hq Hc. unfold parse_answer. rewrite split_first_status, witness_line_body.
    destruct q'; [contradiction| |]; rewrite status_of_line_status;
      rewrite (split_first_notin nl _ [] (Hnl c Hc)), (parse_witness_body w label un c Hc);
      apply (match_nonempty _ _ _ (witness_line_nonempty w label c)). }
  destruct o as [[e|]|b [c|]]; destruct q; try contradiction; cbn [render outcome_args] in *.
  - unfold parse_answer.
    rewrite witness_line_body, (split_first_notin nl _ [] (Hnl e Hl)).
    rewrite witness_body_not_NO, (parse_witness_body w label un e Hl). reflexivity.
  - reflexivity.
  - apply Hacc; [discriminate|exact Hl].
  - apply Hacc; [discriminate|exact Hl].
  - destruct b; reflexivity.
  - destruct b; reflexivity.
Qed.

(* the hypotheses of [parse_render] are satisfiable: ICCMA labels are decimal numbers *)
Example parse_render_example :
  let label := fun a => dec (N.of_nat (S a)) in
  let un := fun b => match parse_usize b with Some v => Some (N.to_nat v - 1) | None => None end in
  (forall a, In a [0; 2; 11] -> label_ok WIccma label un a) /\
  render WIccma label (OAcc true (Some [0; 2; 11])) = B "YES" ++ [nl] ++ B "w 1 3 12" ++ [nl] /\
  parse_answer WIccma un QDC (B "YES" ++ [nl] ++ B "w 1 3 12" ++ [nl]) = Some (OAcc true (Some [0; 2; 11])).
Proof.
  cbn zeta. split; [|split; reflexivity].
  intros a [<-|[<-|[<-|[]]]]; (split; [reflexivity|split; [discriminate|split]]);
    vm_compute; intuition discriminate.
Qed.

(* ------------------------------------------------------------------ (iv) dispatch *)
(* which solver type and which entry point answer a problem string *)
Definition dispatch (p : bytes) : option (sem * query) :=
  match read_problem_string p with
  | inr (q, s) => Some (solver_for q s, q)
  | inl _ => None
  end.

Theorem dispatch_table :
  map (fun p => (p, dispatch p)) problems_21 =
  [ (B "SE-GR", Some (GR, QSE)); (B "DC-GR", Some (GR, QDC)); (B "DS-GR", Some (GR, QDS));
    (B "SE-CO", Some (GR, QSE)); (B "DC-CO", Some (CO, QDC)); (B "DS-CO", Some (GR, QDS));
    (B "SE-PR", Some (PR, QSE)); (B "DC-PR", Some (CO, QDC)); (B "DS-PR", Some (PR, QDS));
    (B "SE-ST", Some (ST, QSE)); (B "DC-ST", Some (ST, QDC)); (B "DS-ST", Some (ST, QDS));
    (B "SE-SST", Some (SST, QSE)); (B "DC-SST", Some (SST, QDC)); (B "DS-SST", Some (SST, QDS));
    (B "SE-STG", Some (STG, QSE)); (B "DC-STG", Some (STG, QDC)); (B "DS-STG", Some (STG, QDS));
    (B "SE-ID", Some (ID, QSE)); (B "DC-ID", Some (ID, QDC)); (B "DS-ID", Some (ID, QDS)) ].
Proof. reflexivity. Qed.

Theorem dispatch_total : forall p, In p problems_21 ->
  exists q s, p = problem_string q s /\ dispatch p = Some (solver_for q s, q) /\
              (solver_for q s = s \/ (q, s, solver_for q s) = (QSE, CO, GR)
               \/ (q, s, solver_for q s) = (QDS, CO, GR) \/ (q, s, solver_for q s) = (QDC, PR, CO)).
Proof.
  intros p H. destruct (in_problems_21 p H) as [q [s ->]]. exists q, s.
  split; [reflexivity|]. unfold dispatch. rewrite problem_string_read. split; [reflexivity|].
  destruct q, s; cbn [solver_for]; auto.
Qed.

(* every selectable encoder is one the solver type accepts: complete-based solvers get a
   complete-semantics encoder (SE-PR may get the admissibility one), the stage solver a
   conflict-freeness one *)
Theorem encoder_table : forall raw s eo,
  match s with
  | GR | ST => encoder_for raw s eo = StDefault
  | STG => In (encoder_for raw s eo) [AuxCf; ExpCf]
  | PR => In (encoder_for raw s eo) [AuxAdm; AuxCo; ExpCo; HybCo] /\
          (raw <> B "SE-PR" -> In (encoder_for raw s eo) [AuxCo; ExpCo; HybCo])
  | CO | SST | ID => In (encoder_for raw s eo) [AuxCo; ExpCo; HybCo]
  end.
Proof.
  intros raw s eo. destruct s; cbn [encoder_for]; try reflexivity;
    try solve [destruct eo; cbn [In]; auto 6].
  destruct (beqb raw _) eqn:E.
  - apply beqb_eq in E. split; [destruct eo; cbn [In]; auto 6|]. intros Hn. contradiction.
  - split; [|intros _]; destruct eo; cbn [In]; auto 6.
Qed.

(* semantic justification of the three substitutions (Spec/Theory.v) *)
Theorem dispatch_sound : forall q s F, wf F ->
  match q with
  | QSE => (forall S, ext (solver_for q s) F S -> ext s F S) /\
           ((exists S, ext s F S) -> exists S, ext (solver_for q s) F S)
  | QDC => forall A, cred (solver_for q s) F A <-> cred s F A
  | QDS => forall A, skep (solver_for q s) F A <-> skep s F A
  end.
Proof.
  intros q s F Hwf. destruct q, s; cbn [solver_for]; try (split; auto; fail);
    try (intros A; reflexivity).
  - (* SE-CO by the grounded extension *)
    split; [intros S HS; apply (gr_co F S Hwf HS)|intros _; apply (gr_exists F Hwf)].
  - (* DC-PR by the complete semantics *)
    intros A. apply (cred_co_pr F A Hwf).
  - (* DS-CO by the grounded extension *)
    intros A. apply (skep_gr_co F A Hwf).
Qed.

(* F-CLI-1: the substitution DC-PR -> complete solver is right for the STATUS only; the certificate
   of the complete solver (a complete extension containing the argument, cf. C02/C04) need not be
   preferred.  Counter-example: p af 3 / 1 2 / 2 1, argument 3. *)
Theorem dcpr_certificate_gap :
  let F := compact 3 [(0, 1); (1, 0)] in
  wf F /\ co F [2] /\ In 2 [2] /\ cred PR F [2] /\ ~ pr F [2].
Proof.
  cbn zeta. split; [|split; [|split; [|split]]].
  - split; [repeat constructor; cbn; intuition lia|].
    intros a b [H|[H|[]]]; injection H as <- <-; cbn; auto.
  - apply cob_co. reflexivity.
  - left. reflexivity.
  - apply credb_cred. reflexivity.
  - intros H. apply prb_pr in H. discriminate.
Qed.

(* ---- end to end for the five problems answered by the grounded solver (no SAT call): the tool
   exits with 0 and prints the rendering of an answer that is right for the PROBLEM's semantics *)
Section Grounded.
Variable oracle : nat -> cnf -> list lit -> answer.
Variable thr : nat.
Variable d : discipline.
Variable fuel : nat.

Theorem grounded_problems_correct : forall o inst i q s al F,
  wf F -> view_ok (i_g i) F ->
  validate o inst = inr (i, q, s, al) -> solver_for q s = GR ->
  exists oc,
    run_traced oracle thr d fuel o inst = (Exit0 (render (writer_of (o_reader o)) (i_label i) oc), []) /\
    match q, oc with
    | QSE, OExt (Some e) => ext s F e
    | QDC, OAcc b c =>
        (b = true <-> cred s F al) /\
        (forall e, c = Some e -> ext s F e /\ exists a, In a al /\ In a e) /\
        (o_cert o = false -> c = None)
    | QDS, OAcc b c =>
        (b = true <-> skep s F al) /\
        (forall e, c = Some e -> ext s F e /\ ~ exists a, In a al /\ In a e) /\
        (o_cert o = false -> c = None)
    | _, _ => False
    end.
Proof.
  intros o inst i q s al F Hwf Hok V Hs. unfold run_traced. rewrite V. unfold query_prog. rewrite Hs.
  destruct (gr_dc_correct (i_g i) F al Hwf Hok) as (Hdc1 & Hdc2 & Hdc3).
  destruct (gr_ds_correct (i_g i) F al Hwf Hok) as (Hds1 & Hds2 & Hds3).
  pose proof (gr_se_correct (i_g i) F Hwf Hok) as Hse.
  destruct q.
  - (* SE-GR, SE-CO *)
    exists (OExt (Some (gr_se (i_g i)))). split; [reflexivity|].
    destruct s; cbn [solver_for] in Hs; try discriminate; cbn [ext].
    + exact Hse.
    + apply (gr_co F _ Hwf Hse).
  - (* DC-GR *)
    destruct s; cbn [solver_for] in Hs; try discriminate.
    destruct (o_cert o) eqn:Ec.
    + exists (OAcc (fst (gr_dc (i_g i) al)) (snd (gr_dc (i_g i) al))).
      split; [reflexivity|].
      split; [exact Hdc1|split; [exact Hdc2|discriminate]].
    + exists (OAcc (fst (gr_dc (i_g i) al)) None).
      split; [reflexivity|].
      split; [exact Hdc1|split; [discriminate|reflexivity]].
  - (* DS-GR, DS-CO *)
    assert (Hsk : fst (gr_ds (i_g i) al) = true <-> skep s F al).
    { destruct s; cbn [solver_for] in Hs; try discriminate; [exact Hds1|].
      rewrite Hds1. apply (skep_gr_co F al Hwf). }
    assert (Hex : forall e, gr F e -> ext s F e).
    { destruct s; cbn [solver_for] in Hs; try discriminate; cbn [ext]; [auto|].
      intros e He. apply (gr_co F e Hwf He). }
    destruct (o_cert o) eqn:Ec.
    + exists (OAcc (fst (gr_ds (i_g i) al)) (snd (gr_ds (i_g i) al))).
      split; [reflexivity|].
      split; [exact Hsk|split; [|discriminate]].
      intros e He. destruct (Hds2 e He) as [H1 H2]. split; [apply Hex; exact H1|exact H2].
    + exists (OAcc (fst (gr_ds (i_g i) al)) None).
      split; [reflexivity|].
      split; [exact Hsk|split; [discriminate|reflexivity]].
Qed.
End Grounded.

(* ------------------------------------------------------------------ (d) the wrapper *)
Definition wrapper_tail : list bytes :=
  common_args ++ [B "--with-certificate"; B "--reader"; B "iccma23"].

Lemma key_of_false_true t k : key_of false t = Some k -> key_of true t = Some k.
Proof.
  unfold key_of. destruct (beqb t _); [auto|]. destruct (beqb t _); [auto|].
  destruct (beqb t _); [auto|]. cbn [negb]. discriminate.
Qed.
Lemma key_of_false_kind t k : key_of false t = Some k -> k = KF \/ k = KP \/ k = KA.
Proof.
  unfold key_of. destruct (beqb t _); [intros H; injection H as <-; auto|].
  destruct (beqb t _); [intros H; injection H as <-; auto|].
  destruct (beqb t _); [intros H; injection H as <-; auto|]. cbn [negb]. discriminate.
Qed.

(* the tokens accepted by the pre-validation are consumed in the same way by the solve parser and
   touch only -f, -p, -a *)
Lemma prevalidated_prefix : forall real p p',
  parse_tokens false real p = Some p' ->
  (forall tail, parse_tokens true (real ++ tail) p = parse_tokens true tail p') /\
  p_r p' = p_r p /\ p_enc p' = p_enc p /\ p_log p' = p_log p /\ p_c p' = p_c p /\
  p_f p' <> None /\ p_p p' <> None.
Proof.
  fix IH 1. intros real p p'. destruct real as [|t r].
  - cbn [parse_tokens app]. destruct (p_f p) eqn:Ef; [|discriminate].
    destruct (p_p p) eqn:Ep; [|discriminate]. intros H. injection H as <-.
    repeat split; try reflexivity; congruence.
  - cbn [parse_tokens app]. destruct (key_of false t) as [k|] eqn:Ek.
    + rewrite (key_of_false_true _ _ Ek). destruct r as [|v r']; [discriminate|].
      destruct (get_key k p) eqn:Eg; [discriminate|].
      destruct (value_ok k v) eqn:Ev; [|discriminate].
      intros H. destruct (IH r' _ _ H) as (H1 & H2 & H3 & H4 & H5 & H6 & H7).
      split; [intros tail; cbn [app]; rewrite Ev; apply H1|].
      destruct (key_of_false_kind _ _ Ek) as [ -> | [ -> | -> ] ]; cbn [set_key p_r p_enc p_log p_c] in *;
        repeat split; assumption.
    + cbn [andb]. discriminate.
Qed.

Lemma wrapper_tail_eval : forall p,
  p_r p = None -> p_enc p = None -> p_log p = None -> p_c p = false ->
  p_f p <> None -> p_p p <> None ->
  exists p', parse_tokens true wrapper_tail p = Some p' /\
             p_r p' = Some (B "iccma23") /\ p_enc p' = None /\ p_log p' = Some (B "off") /\ p_c p' = true
             /\ p_f p' = p_f p /\ p_p p' = p_p p /\ p_a p' = p_a p.
Proof.
  intros [f pp a r e l c]. cbn [p_r p_enc p_log p_c p_f p_p p_a]. intros -> -> -> -> Hf Hp.
  destruct f as [f|]; [|congruence]. destruct pp as [pp|]; [|congruence].
  eexists. split; [reflexivity|]. repeat split; reflexivity.
Qed.

(* whatever the user typed (in the modelled token form), a solve run of the wrapper has logging
   off, certificates on, the ICCMA'23 reader and the default encoding *)
Theorem wrapper_forces_options : forall real o f,
  parse_wrapper real = CSolve o f ->
  o_reader o = RIccma23 /\ o_cert o = true /\ o_logging_off o = true /\ o_encoding o = EncAbsent.
Proof.
  intros real o f. unfold parse_wrapper. destruct real as [|t0 r0]; [discriminate|].
  remember (t0 :: r0) as real eqn:Hreal.
  destruct (is_problems_only real) eqn:Epb.
  - unfold wrapper_argv. rewrite Hreal, <- Hreal, Epb. discriminate.
  - destruct (parse_tokens false real popts_empty) as [p0|] eqn:Ep0; [|discriminate].
    unfold wrapper_argv. rewrite Hreal, <- Hreal, Epb.
    unfold parse_main. rewrite beqb_refl.
    destruct (prevalidated_prefix _ _ _ Ep0) as (H1 & H2 & H3 & H4 & H5 & H6 & H7).
    rewrite H1.
    destruct (wrapper_tail_eval p0 H2 H3 H4 H5 H6 H7) as (p' & E & Hr & He & Hl & Hc & Hf & Hp & Ha).
    match goal with |- match ?X with _ => _ end = _ -> _ =>
      replace X with (Some p') by (symmetry; exact E) end.
    unfold options_of. destruct (p_f p') as [f'|]; [|discriminate].
    destruct (p_p p') as [pr|]; [|discriminate].
    intros H. injection H as <- <-. cbn [o_reader o_cert o_logging_off o_encoding].
    rewrite Hr, He, Hl, Hc. repeat split; reflexivity.
Qed.
