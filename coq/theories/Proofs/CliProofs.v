From Crusta Require Import Model.Cli.
