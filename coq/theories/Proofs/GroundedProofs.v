(* Correctness of the model of src/utils/grounded_extension_computer.rs (Model/Graph.v:
   [grounded]) against the textbook grounded extension (Spec/Theory.v: [lfp], [gr]).

   The algorithm keeps, per argument, a counter of the attacks (WITH multiplicity: compact
   frameworks built by the readers can hold the same attack several times) whose source is not
   yet known to be defeated, a work list [g_ext] processed by index and [defeated] flags.  When
   the counter of [t] is 1 and a further attacker of [t] is defeated, [t] is pushed and its counter
   is left at 1.

   Main results:
     grounded_correct   : wf F -> view_ok g F -> gr F (grounded g) /\ NoDup (grounded g)
     grounded_lfp       : wf F -> view_ok g F -> seteq (grounded g) (lfp F)
     view_of_af_ok      : compact_af F n -> view_ok (view_of_af F) F
     grounded_compact   : compact_af F n -> gr F (grounded (view_of_af F)) /\ NoDup ...
     view_of_fw_ok      : reachable store f -> view_ok (view_of_fw f) (af_of f)
     grounded_store     : reachable store f -> gr (af_of f) (grounded (view_of_fw f)) /\ NoDup ...
     gr_se_correct, gr_dc_correct, gr_ds_correct : the GR queries of Model/Solvers.v answer
                          [gr], [cred GR], [skep GR] and their certificates are grounded
   The fuel [S size] of [g_loop] is shown sufficient (the work list is duplicate free and made of
   arguments, all of them <= max id). *)
From Coq Require Import List Arith Bool Lia Permutation ZifyBool.
From Crusta Require Import Spec.AF Spec.SemFacts Spec.Theory Model.Store Model.Graph Model.Solvers.
From Crusta Require Import Proofs.StoreBase Proofs.EncSpec Proofs.StoreProofs.
Import ListNotations.

Notation cocc := (count_occ Nat.eq_dec).

(* ------------------------------------------------------------------ *)
(** * Views consistent with a framework *)

(* [g] presents the framework [F]: same arguments (listed once), every argument below the
   announced maximal id, and the two adjacency functions list the same multiset of attacks,
   whose support is the attack relation of [F]. *)
Definition view_ok (g : gview) (F : af) : Prop :=
  NoDup (g_ids g) /\
  (forall a, In a (g_ids g) <-> In a (args F)) /\
  (forall a, In a (args F) -> exists m, g_maxid g = Some m /\ a <= m) /\
  (forall a b, cocc (g_from g a) b = cocc (g_to g b) a) /\
  (forall a b, In b (g_from g a) <-> att F a b).

(* ------------------------------------------------------------------ *)
(** * List helpers *)

Definition undefb (df : list bool) (d : nat) : bool := negb (nth_bool df d).
Definition undef_in (df : list bool) (l : list nat) : nat := length (filter (undefb df) l).

Lemma undef_in_set df d l : d < length df -> nth_bool df d = false ->
  undef_in (set_nth d true df) l + cocc l d = undef_in df l.
Proof.
  intros Hd Hf. unfold undef_in. induction l as [|x l IH]; [reflexivity|].
  cbn [filter count_occ]. destruct (Nat.eq_dec x d) as [->|Hne].
  - assert (E1 : undefb (set_nth d true df) d = false).
    { unfold undefb, nth_bool. rewrite nth_set_nth_eq by assumption. reflexivity. }
    assert (E2 : undefb df d = true) by (unfold undefb; rewrite Hf; reflexivity).
    rewrite E1, E2. cbn [length]. lia.
  - assert (E : undefb (set_nth d true df) x = undefb df x).
    { unfold undefb, nth_bool. rewrite nth_set_nth_neq by congruence. reflexivity. }
    rewrite E. destruct (undefb df x); cbn [length]; lia.
Qed.

Lemma undef_in_zero df l : undef_in df l = 0 <-> forall x, In x l -> nth_bool df x = true.
Proof.
  unfold undef_in. induction l as [|x l IH]; cbn [filter].
  - split; [intros _ x []|reflexivity].
  - unfold undefb at 1. destruct (nth_bool df x) eqn:E; cbn [negb length].
    + rewrite IH. split.
      * intros H y [<-|Hy]; [assumption|apply H; assumption].
      * intros H y Hy. apply H. right. assumption.
    + split; [lia|]. intros H. specialize (H x (or_introl eq_refl)). congruence.
Qed.

Lemma nth_bool_repeat_false n d : nth_bool (repeat false n) d = false.
Proof.
  unfold nth_bool. revert d. induction n as [|n IH]; intros [|d]; cbn [repeat nth]; auto.
Qed.

Lemma undef_in_repeat n l : undef_in (repeat false n) l = length l.
Proof.
  unfold undef_in. induction l as [|x l IH]; [reflexivity|].
  cbn [filter]. unfold undefb at 1. rewrite nth_bool_repeat_false. cbn [negb length]. lia.
Qed.

Lemma nodup_bounded_length (l : list nat) n :
  NoDup l -> (forall a, In a l -> a < n) -> length l <= n.
Proof.
  intros Hnd Hb. rewrite <- (seq_length n 0). apply NoDup_incl_length; [assumption|].
  intros a Ha. apply in_seq. specialize (Hb a Ha). lia.
Qed.

(* ------------------------------------------------------------------ *)
(** * The loop invariant *)

Section Grounded.
Variable g : gview.
Variable F : af.
Variable m : nat.
Hypothesis Hwf : wf F.
Hypothesis Hok : view_ok g F.
Hypothesis Hm : g_maxid g = Some m.

Lemma args_le a : In a (args F) -> a <= m.
Proof.
  intros Ha. destruct Hok as (_ & _ & H & _). destruct (H a Ha) as (m' & E & Hle).
  rewrite Hm in E. injection E as <-. assumption.
Qed.

Lemma from_att a b : In b (g_from g a) <-> att F a b.
Proof. destruct Hok as (_ & _ & _ & _ & H). apply H. Qed.

Lemma to_att a b : In a (g_to g b) <-> att F a b.
Proof.
  rewrite <- from_att. destruct Hok as (_ & _ & _ & H & _).
  rewrite (count_occ_In Nat.eq_dec (g_to g b) a), (count_occ_In Nat.eq_dec (g_from g a) b), H.
  reflexivity.
Qed.

Lemma att_args a b : att F a b -> In a (args F) /\ In b (args F).
Proof. destruct Hwf as [_ H]. apply H. Qed.

Definition undef (df : list bool) (t : nat) : nat := undef_in df (g_to g t).

(* [P]: the decrement requests still pending (the rest of the attacks from the argument that
   has just been marked defeated) *)
Record J (s : gstate) (P : list nat) : Prop := {
  J_ldef : length (defeated s) = S m;
  J_lcnt : length (cnt s) = S m;
  J_nd : NoDup (g_ext s);
  J_snd : incl (g_ext s) (lfp F);
  J_def : forall d, nth_bool (defeated s) d = true -> exists a, In a (g_ext s) /\ att F a d;
  J_in : forall t, In t (args F) ->
           (In t (g_ext s) <-> undef (defeated s) t + cocc P t = 0);
  J_cnt : forall t, In t (args F) -> ~ In t (g_ext s) ->
           nth_nat (cnt s) t = undef (defeated s) t + cocc P t }.

Definition ext_le (s s' : gstate) : Prop :=
  (exists l, g_ext s' = g_ext s ++ l) /\
  forall d, nth_bool (defeated s) d = true -> nth_bool (defeated s') d = true.

Lemma ext_le_refl s : ext_le s s.
Proof. split; [exists []; rewrite app_nil_r; reflexivity|auto]. Qed.

Lemma ext_le_trans s1 s2 s3 : ext_le s1 s2 -> ext_le s2 s3 -> ext_le s1 s3.
Proof.
  intros [[l1 E1] H1] [[l2 E2] H2]. split; [|auto].
  exists (l1 ++ l2). rewrite E2, E1, app_assoc. reflexivity.
Qed.

Lemma ext_le_In s s' a : ext_le s s' -> In a (g_ext s) -> In a (g_ext s').
Proof. intros [[l E] _] Ha. rewrite E. apply in_or_app. left. assumption. Qed.

(* an argument all of whose attackers are marked defeated is defended by the work list *)
Lemma undef0_lfp (ex : list nat) (df : list bool) t :
  incl ex (lfp F) ->
  (forall d, nth_bool df d = true -> exists a, In a ex /\ att F a d) ->
  In t (args F) -> undef df t = 0 -> In t (lfp F).
Proof.
  intros Hs Hd Ht Hu. apply (proj2 (lfp_fixpoint F t)). apply in_charf. split; [assumption|].
  intros b Hb. apply to_att in Hb. unfold undef in Hu. rewrite undef_in_zero in Hu.
  destruct (Hd b (Hu b Hb)) as (a & Ha & Hab). exists a. split; [apply Hs; assumption|assumption].
Qed.

Lemma g_defend_J s t P : J s (t :: P) -> In t (args F) ->
  J (g_defend s t) P /\ ext_le s (g_defend s t).
Proof.
  intros HJ Ht.
  assert (Hnin : ~ In t (g_ext s)).
  { intros Hin. apply (J_in _ _ HJ t Ht) in Hin. rewrite count_occ_cons_eq in Hin by reflexivity. lia. }
  pose proof (J_cnt _ _ HJ t Ht Hnin) as Hc. rewrite count_occ_cons_eq in Hc by reflexivity.
  assert (Hlt : t < length (cnt s)). { rewrite (J_lcnt _ _ HJ). pose proof (args_le t Ht). lia. }
  unfold g_defend. destruct (Nat.eqb_spec (nth_nat (cnt s) t) 1) as [E1|N1].
  - (* pushed *)
    assert (Hu : undef (defeated s) t = 0) by lia.
    assert (Hp : cocc P t = 0) by lia.
    split; [|split; [exists [t]; reflexivity|auto]].
    constructor; cbn [g_ext defeated cnt].
    + apply (J_ldef _ _ HJ).
    + apply (J_lcnt _ _ HJ).
    + apply NoDup_snoc; [apply (J_nd _ _ HJ)|assumption].
    + apply incl_app; [apply (J_snd _ _ HJ)|].
      intros x [<-|[]]. apply (undef0_lfp (g_ext s) (defeated s)); try assumption.
      * apply (J_snd _ _ HJ).
      * apply (J_def _ _ HJ).
    + intros d Hd. destruct (J_def _ _ HJ d Hd) as (a & Ha & Hat).
      exists a. split; [apply in_or_app; left; assumption|assumption].
    + intros t' Ht'. rewrite in_app_iff. cbn [In].
      destruct (Nat.eq_dec t t') as [<-|Hne].
      * split; [intros _; lia|intros _; right; left; reflexivity].
      * pose proof (J_in _ _ HJ t' Ht') as Hi. rewrite count_occ_cons_neq in Hi by assumption.
        rewrite <- Hi. split; [intros [H|[H|[]]]; [assumption|congruence]|auto].
    + intros t' Ht' Hn'. rewrite in_app_iff in Hn'. cbn [In] in Hn'.
      assert (Hne : t <> t') by (intros ->; apply Hn'; auto).
      pose proof (J_cnt _ _ HJ t' Ht') as Hi. rewrite count_occ_cons_neq in Hi by assumption.
      apply Hi. intros H. apply Hn'. auto.
  - (* decremented *)
    split; [|split; [exists []; cbn [g_ext]; rewrite app_nil_r; reflexivity|auto]].
    constructor; cbn [g_ext defeated cnt].
    + apply (J_ldef _ _ HJ).
    + rewrite length_set_nth. apply (J_lcnt _ _ HJ).
    + apply (J_nd _ _ HJ).
    + apply (J_snd _ _ HJ).
    + apply (J_def _ _ HJ).
    + intros t' Ht'. destruct (Nat.eq_dec t t') as [<-|Hne].
      * split; [intros H; contradiction|intros H; lia].
      * pose proof (J_in _ _ HJ t' Ht') as Hi. rewrite count_occ_cons_neq in Hi by assumption.
        exact Hi.
    + intros t' Ht' Hn'. unfold nth_nat. destruct (Nat.eq_dec t t') as [<-|Hne].
      * rewrite nth_set_nth_eq by assumption. unfold nth_nat in *. lia.
      * rewrite nth_set_nth_neq by assumption.
        pose proof (J_cnt _ _ HJ t' Ht' Hn') as Hi. rewrite count_occ_cons_neq in Hi by assumption.
        exact Hi.
Qed.

Lemma fold_defend_J : forall l s, J s l -> incl l (args F) ->
  J (fold_left g_defend l s) [] /\ ext_le s (fold_left g_defend l s).
Proof.
  induction l as [|t l IH]; intros s HJ Hl; cbn [fold_left].
  - split; [assumption|apply ext_le_refl].
  - destruct (g_defend_J s t l HJ (Hl t (or_introl eq_refl))) as [HJ1 Hle1].
    destruct (IH _ HJ1 (fun x Hx => Hl x (or_intror Hx))) as [HJ2 Hle2].
    split; [assumption|]. eapply ext_le_trans; eassumption.
Qed.

Lemma g_defeat_J s d : J s [] -> (exists a, In a (g_ext s) /\ att F a d) ->
  J (g_defeat g s d) [] /\ ext_le s (g_defeat g s d) /\
  nth_bool (defeated (g_defeat g s d)) d = true.
Proof.
  intros HJ (a & Ha & Had). unfold g_defeat.
  destruct (nth_bool (defeated s) d) eqn:E.
  { split; [assumption|split; [apply ext_le_refl|assumption]]. }
  assert (Hd : d < length (defeated s)).
  { rewrite (J_ldef _ _ HJ). pose proof (args_le d (proj2 (att_args a d Had))). lia. }
  set (s1 := {| g_ext := g_ext s; defeated := set_nth d true (defeated s); cnt := cnt s |}).
  assert (Hcount : forall t, undef (defeated s1) t + cocc (g_from g d) t = undef (defeated s) t).
  { intros t. unfold undef. cbn [s1 defeated].
    destruct Hok as (_ & _ & _ & Hc & _). rewrite Hc. apply undef_in_set; assumption. }
  assert (HJ1 : J s1 (g_from g d)).
  { constructor.
    - cbn [s1 defeated]. rewrite length_set_nth. apply (J_ldef _ _ HJ).
    - apply (J_lcnt _ _ HJ).
    - apply (J_nd _ _ HJ).
    - apply (J_snd _ _ HJ).
    - intros d' Hd'. cbn [s1 defeated g_ext] in *. destruct (Nat.eq_dec d d') as [<-|Hne].
      + exists a. auto.
      + unfold nth_bool in Hd'. rewrite nth_set_nth_neq in Hd' by assumption.
        apply (J_def _ _ HJ d' Hd').
    - intros t Ht. rewrite Hcount. pose proof (J_in _ _ HJ t Ht) as Hi.
      cbn [count_occ] in Hi. rewrite Nat.add_0_r in Hi. exact Hi.
    - intros t Ht Hn. rewrite Hcount. pose proof (J_cnt _ _ HJ t Ht Hn) as Hi.
      cbn [count_occ] in Hi. rewrite Nat.add_0_r in Hi. exact Hi. }
  assert (Hle1 : ext_le s s1).
  { split; [exists []; cbn [s1 g_ext]; rewrite app_nil_r; reflexivity|].
    intros d' Hd'. cbn [s1 defeated]. unfold nth_bool in *.
    destruct (Nat.eq_dec d d') as [<-|Hne]; [congruence|].
    rewrite nth_set_nth_neq by assumption. assumption. }
  assert (Hl : incl (g_from g d) (args F)).
  { intros x Hx. apply from_att in Hx. apply (att_args d x Hx). }
  destruct (fold_defend_J (g_from g d) s1 HJ1 Hl) as [HJ2 Hle2].
  split; [exact HJ2|]. split; [eapply ext_le_trans; eassumption|].
  apply (proj2 Hle2). cbn [s1 defeated]. unfold nth_bool. apply nth_set_nth_eq. assumption.
Qed.

Lemma fold_defeat_J a : forall l s, J s [] -> In a (g_ext s) -> incl l (g_from g a) ->
  J (fold_left (g_defeat g) l s) [] /\ ext_le s (fold_left (g_defeat g) l s) /\
  forall d, In d l -> nth_bool (defeated (fold_left (g_defeat g) l s)) d = true.
Proof.
  induction l as [|d l IH]; intros s HJ Ha Hl; cbn [fold_left].
  - split; [assumption|split; [apply ext_le_refl|intros d []]].
  - assert (Had : att F a d) by (apply from_att, Hl; left; reflexivity).
    destruct (g_defeat_J s d HJ (ex_intro _ a (conj Ha Had))) as (HJ1 & Hle1 & Hd1).
    destruct (IH _ HJ1 (ext_le_In _ _ _ Hle1 Ha) (fun x Hx => Hl x (or_intror Hx)))
      as (HJ2 & Hle2 & Hd2).
    split; [assumption|]. split; [eapply ext_le_trans; eassumption|].
    intros d' [<-|Hd']; [apply (proj2 Hle2); assumption|apply Hd2; assumption].
Qed.

(* the first [k] elements of the work list have been processed *)
Definition Cinv (s : gstate) (k : nat) : Prop :=
  forall i a d, i < k -> nth_error (g_ext s) i = Some a -> att F a d ->
    nth_bool (defeated s) d = true.

Lemma g_process_J s k a : J s [] -> Cinv s k -> nth_error (g_ext s) k = Some a ->
  J (g_process g s a) [] /\ Cinv (g_process g s a) (S k) /\
  S k <= length (g_ext (g_process g s a)).
Proof.
  intros HJ HC Hk. unfold g_process.
  assert (Ha : In a (g_ext s)) by (eapply nth_error_In; eassumption).
  assert (Hklt : k < length (g_ext s)) by (apply nth_error_Some; congruence).
  destruct (fold_defeat_J a (g_from g a) s HJ Ha (incl_refl _)) as (HJ1 & Hle & Hd).
  set (s' := fold_left (g_defeat g) (g_from g a) s) in *.
  destruct Hle as [[l El] Hmono].
  split; [assumption|]. split.
  - intros i b d Hi Hb Hbd.
    assert (Hb0 : nth_error (g_ext s) i = Some b).
    { rewrite El in Hb. rewrite nth_error_app1 in Hb by lia. assumption. }
    destruct (Nat.eq_dec i k) as [->|Hne].
    + assert (b = a) by congruence. subst b. apply Hd. apply from_att. assumption.
    + apply Hmono. apply (HC i b d); [lia|assumption|assumption].
  - rewrite El, app_length. lia.
Qed.

Lemma J_length s P : J s P -> length (g_ext s) <= S m.
Proof.
  intros HJ. apply nodup_bounded_length; [apply (J_nd _ _ HJ)|].
  intros a Ha. apply (J_snd _ _ HJ) in Ha.
  assert (In a (args F)) by (apply (adm_incl F (lfp F) (lfp_adm F)); assumption).
  pose proof (args_le a H). lia.
Qed.

(* a fully processed work list is closed under the characteristic function *)
Lemma closed_final s : J s [] -> Cinv s (length (g_ext s)) ->
  incl (charf F (g_ext s)) (g_ext s).
Proof.
  intros HJ HC t Ht. apply in_charf in Ht. destruct Ht as [Ht Hdef].
  apply (J_in _ _ HJ t Ht). cbn [count_occ]. rewrite Nat.add_0_r.
  unfold undef. apply undef_in_zero. intros b Hb. apply to_att in Hb.
  destruct (Hdef b Hb) as (c & Hc & Hcb).
  destruct (In_nth_error _ _ Hc) as [i Hi].
  apply (HC i c b); [apply nth_error_Some; congruence|assumption|assumption].
Qed.

Definition final_ok (r : list nat) : Prop :=
  NoDup r /\ incl r (lfp F) /\ incl (charf F r) r.

Lemma g_loop_ok : forall fuel k s, J s [] -> Cinv s k -> k <= length (g_ext s) ->
  S m < k + fuel -> final_ok (g_loop fuel g k s).
Proof.
  induction fuel as [|fuel IH]; intros k s HJ HC Hk Hf.
  - pose proof (J_length _ _ HJ). lia.
  - cbn [g_loop]. destruct (nth_error (g_ext s) k) as [a|] eqn:E.
    + destruct (g_process_J s k a HJ HC E) as (HJ1 & HC1 & Hk1).
      apply IH; try assumption. lia.
    + apply nth_error_None in E. assert (k = length (g_ext s)) by lia. subst k.
      split; [apply (J_nd _ _ HJ)|]. split; [apply (J_snd _ _ HJ)|].
      apply closed_final; assumption.
Qed.

(* ---------------- initialisation ---------------- *)
Definition init_step (s : gstate) (a : nat) : gstate :=
  let c := length (g_to g a) in
  {| g_ext := if Nat.eqb c 0 then g_ext s ++ [a] else g_ext s;
     defeated := defeated s;
     cnt := set_nth a c (cnt s) |}.

Lemma init_fold : forall l s,
  let s' := fold_left init_step l s in
  g_ext s' = g_ext s ++ filter (fun a => Nat.eqb (length (g_to g a)) 0) l /\
  defeated s' = defeated s /\
  length (cnt s') = length (cnt s) /\
  (forall a, In a l -> a < length (cnt s) -> nth_nat (cnt s') a = length (g_to g a)) /\
  (forall a, ~ In a l -> nth_nat (cnt s') a = nth_nat (cnt s) a).
Proof.
  induction l as [|x l IH]; intros s; cbn zeta; cbn [fold_left filter].
  - rewrite app_nil_r. repeat split; auto. intros a [].
  - destruct (IH (init_step s x)) as (E1 & E2 & E3 & E4 & E5). cbn zeta in *.
    cbn [init_step g_ext defeated cnt] in E1, E2, E3, E4, E5.
    rewrite length_set_nth in E3, E4.
    split; [|split; [assumption|split; [assumption|split]]].
    + rewrite E1.
      destruct (Nat.eqb (length (g_to g x)) 0); [rewrite <- app_assoc|]; reflexivity.
    + intros a Ha Hlt. destruct (in_dec Nat.eq_dec a l) as [Hin|Hnin]; [apply E4; assumption|].
      destruct Ha as [->|Ha]; [|contradiction].
      rewrite (E5 a Hnin). unfold nth_nat. apply nth_set_nth_eq. assumption.
    + intros a Ha. cbn [In] in Ha. rewrite (E5 a) by tauto.
      unfold nth_nat. apply nth_set_nth_neq. intros ->. tauto.
Qed.

Definition init_state : gstate :=
  fold_left init_step (g_ids g)
    {| g_ext := []; defeated := repeat false (S m); cnt := repeat 0 (S m) |}.

Lemma init_J : J init_state [].
Proof.
  destruct (init_fold (g_ids g)
              {| g_ext := []; defeated := repeat false (S m); cnt := repeat 0 (S m) |})
    as (E1 & E2 & E3 & E4 & _).
  cbn zeta in *. fold init_state in E1, E2, E3, E4. cbn [g_ext defeated cnt app] in *.
  rewrite repeat_length in E3, E4.
  destruct Hok as (Hnd & Hids & _).
  assert (Hun : forall t, undef (defeated init_state) t = length (g_to g t)).
  { intros t. rewrite E2. unfold undef. apply undef_in_repeat. }
  constructor.
  - rewrite E2. apply repeat_length.
  - assumption.
  - rewrite E1. apply NoDup_filter. assumption.
  - rewrite E1. intros t Ht. apply filter_In in Ht. destruct Ht as [Ht Hz].
    apply Nat.eqb_eq in Hz. apply Hids in Ht.
    apply (proj2 (lfp_fixpoint F t)). apply in_charf. split; [assumption|].
    intros b Hb. apply to_att in Hb. apply length_zero_iff_nil in Hz. rewrite Hz in Hb.
    destruct Hb.
  - intros d Hd. rewrite E2, nth_bool_repeat_false in Hd. discriminate.
  - intros t Ht. rewrite Hun, E1, filter_In, Nat.eqb_eq, Hids. cbn [count_occ]. split.
    + intros [_ H]. lia.
    + intros H. split; [assumption|lia].
  - intros t Ht _. rewrite Hun. cbn [count_occ]. rewrite Nat.add_0_r.
    apply E4; [apply Hids; assumption|]. pose proof (args_le t Ht). lia.
Qed.

Lemma grounded_unfold : grounded g = g_loop (S (S m)) g 0 init_state.
Proof. unfold grounded. rewrite Hm. reflexivity. Qed.

Lemma grounded_final_ok : final_ok (grounded g).
Proof.
  rewrite grounded_unfold. apply g_loop_ok.
  - apply init_J.
  - intros i a d Hi. lia.
  - lia.
  - lia.
Qed.

End Grounded.

(* ------------------------------------------------------------------ *)
(** * Abstract correctness *)

Lemma view_ok_none g F : view_ok g F -> g_maxid g = None -> args F = [].
Proof.
  intros (_ & _ & H & _) E. destruct (args F) as [|a r]; [reflexivity|].
  destruct (H a (or_introl eq_refl)) as (m & Em & _). congruence.
Qed.

Theorem grounded_lfp : forall g F, wf F -> view_ok g F ->
  seteq (grounded g) (lfp F) /\ NoDup (grounded g).
Proof.
  intros g F Hwf Hok. destruct (g_maxid g) as [m|] eqn:Em.
  - destruct (grounded_final_ok g F m Hwf Hok Em) as (Hnd & Hs & Hc).
    split; [|assumption]. apply seteq_incl_both; [assumption|].
    apply lfp_least_prefix. assumption.
  - pose proof (view_ok_none g F Hok Em) as Ha.
    unfold grounded. rewrite Em. unfold lfp. rewrite Ha. cbn [length iter_charf].
    split; [apply seteq_refl|constructor].
Qed.

Theorem grounded_correct : forall g F, wf F -> view_ok g F ->
  gr F (grounded g) /\ NoDup (grounded g).
Proof.
  intros g F Hwf Hok. destruct (grounded_lfp g F Hwf Hok) as [He Hnd].
  split; [|assumption].
  apply (gr_seteq F (lfp F) (grounded g)); [apply seteq_sym; assumption|].
  apply gr_lfp. assumption.
Qed.

(* ------------------------------------------------------------------ *)
(** * Instances *)

(* the two adjacency functions of Spec/AF.v list the same multiset of attacks *)
Lemma cocc_attacked_attackers F a b : cocc (attacked F a) b = cocc (attackers F b) a.
Proof.
  unfold attacked, attackers. induction (atts F) as [|[x y] l IH]; [reflexivity|].
  cbn [filter fst snd].
  destruct (Nat.eqb_spec x a) as [->|Hx]; destruct (Nat.eqb_spec y b) as [->|Hy];
    cbn [map fst snd].
  - rewrite !count_occ_cons_eq by reflexivity. f_equal. assumption.
  - rewrite count_occ_cons_neq by assumption. assumption.
  - rewrite count_occ_cons_neq by assumption. assumption.
  - assumption.
Qed.

(* a view whose adjacency lists are those of [F] up to order *)
Lemma view_ok_perm g F :
  NoDup (g_ids g) ->
  (forall a, In a (g_ids g) <-> In a (args F)) ->
  (forall a, In a (args F) -> exists m, g_maxid g = Some m /\ a <= m) ->
  (forall a, Permutation (g_from g a) (attacked F a)) ->
  (forall a, Permutation (g_to g a) (attackers F a)) ->
  view_ok g F.
Proof.
  intros Hnd Hids Hmax Hf Ht. split; [assumption|]. split; [assumption|]. split; [assumption|].
  split.
  - intros a b.
    rewrite (proj1 (Permutation_count_occ Nat.eq_dec _ _) (Hf a) b).
    rewrite (proj1 (Permutation_count_occ Nat.eq_dec _ _) (Ht b) a).
    apply cocc_attacked_attackers.
  - intros a b. rewrite <- in_attacked. split.
    + apply Permutation_in. apply Hf.
    + apply Permutation_in. apply Permutation_sym. apply Hf.
Qed.

(* ---------------- compact frameworks ---------------- *)
Lemma compact_af_wf F n : compact_af F n -> wf F.
Proof.
  intros [Ha Hatt]. split.
  - rewrite Ha. apply seq_NoDup.
  - intros a b Hab. destruct (Hatt a b Hab) as [H1 H2]. rewrite Ha, !in_seq. lia.
Qed.

Theorem view_of_af_ok : forall F n, compact_af F n -> view_ok (view_of_af F) F.
Proof.
  intros F n [Ha Hatt]. apply view_ok_perm; unfold view_of_af;
    cbn [g_ids g_maxid g_from g_to]; rewrite ?Ha, ?seq_length.
  - apply seq_NoDup.
  - intros a. reflexivity.
  - intros a Hin. apply in_seq in Hin. destruct n as [|k]; [lia|].
    exists k. split; [reflexivity|lia].
  - intros a. apply Permutation_refl.
  - intros a. apply Permutation_refl.
Qed.

Theorem grounded_compact : forall F n, compact_af F n ->
  gr F (grounded (view_of_af F)) /\ NoDup (grounded (view_of_af F)).
Proof.
  intros F n HF. apply grounded_correct.
  - apply (compact_af_wf F n HF).
  - apply (view_of_af_ok F n HF).
Qed.

Theorem grounded_compact_lfp : forall F n, compact_af F n ->
  seteq (grounded (view_of_af F)) (lfp F).
Proof.
  intros F n HF. apply grounded_lfp.
  - apply (compact_af_wf F n HF).
  - apply (view_of_af_ok F n HF).
Qed.

(* ---------------- the framework store ---------------- *)
Lemma ssorted_lt_NoDup (l : list nat) : Sorted.StronglySorted lt l -> NoDup l.
Proof.
  induction 1 as [|a l Hs IH Hf]; constructor; [|assumption].
  intros Hin. rewrite Forall_forall in Hf. specialize (Hf a Hin). lia.
Qed.

Section StoreInstance.
Variable L : Type.
Variable leqb : L -> L -> bool.
Hypothesis leqb_spec : forall x y, leqb x y = true <-> x = y.

(* the abstract framework a store denotes *)
Definition af_of (f : fw L) : af := {| args := live_ids L f; atts := iter_attacks L f |}.

Definition reachable (f : fw L) : Prop :=
  exists ls os, f = run_ops L leqb (fw_new_with_labels L leqb ls) os.

Lemma af_of_wf f : reachable f -> wf (af_of f).
Proof.
  intros Hr. destruct (spec_wellformed L leqb leqb_spec f Hr) as (_ & Hs & _ & Hatt & _).
  cbn zeta in *. split.
  - apply ssorted_lt_NoDup. exact Hs.
  - intros a b Hab. exact (Hatt a b Hab).
Qed.

Theorem view_of_fw_ok : forall f, reachable f -> view_ok (view_of_fw f) (af_of f).
Proof.
  intros f Hr.
  destruct (spec_wellformed L leqb leqb_spec f Hr) as (_ & Hs & Hlt & _).
  destruct (observations L leqb leqb_spec f Hr) as (_ & _ & _ & Hfrom & Hto & _ & _ & Hmax).
  cbn zeta in *. apply view_ok_perm; unfold view_of_fw; cbn [g_ids g_maxid g_from g_to].
  - apply ssorted_lt_NoDup. exact Hs.
  - intros a. reflexivity.
  - intros a Ha. specialize (Hlt a Ha). rewrite Hmax.
    destruct (Nat.eqb_spec (next_id (abs L f)) 0) as [E|E]; [lia|].
    exists (next_id (abs L f) - 1). split; [reflexivity|lia].
  - intros a. unfold attacked. apply Permutation_map. apply Hfrom.
  - intros a. unfold attackers. apply Permutation_map. apply Hto.
Qed.

Theorem grounded_store : forall f, reachable f ->
  gr (af_of f) (grounded (view_of_fw f)) /\ NoDup (grounded (view_of_fw f)).
Proof.
  intros f Hr. apply grounded_correct; [apply af_of_wf|apply view_of_fw_ok]; assumption.
Qed.

Theorem grounded_store_lfp : forall f, reachable f ->
  seteq (grounded (view_of_fw f)) (lfp (af_of f)).
Proof.
  intros f Hr. apply grounded_lfp; [apply af_of_wf|apply view_of_fw_ok]; assumption.
Qed.

End StoreInstance.

(* ------------------------------------------------------------------ *)
(** * The GR queries of the solver model (Model/Solvers.v: gr_se, gr_dc, gr_ds) *)

Lemma meets_spec al e : meets al e = true <-> exists a, In a al /\ In a e.
Proof. apply (meetsb_spec al e). Qed.

Theorem gr_se_correct : forall g F, wf F -> view_ok g F -> gr F (gr_se g).
Proof. intros g F Hwf Hok. apply (grounded_correct g F Hwf Hok). Qed.

(* credulous acceptance: the answer is right and a positive answer carries a grounded
   certificate meeting the query *)
Theorem gr_dc_correct : forall g F al, wf F -> view_ok g F ->
  (fst (gr_dc g al) = true <-> cred GR F al) /\
  (forall e, snd (gr_dc g al) = Some e -> gr F e /\ exists a, In a al /\ In a e) /\
  (fst (gr_dc g al) = false -> snd (gr_dc g al) = None).
Proof.
  intros g F al Hwf Hok. destruct (grounded_correct g F Hwf Hok) as [Hgr _].
  unfold gr_dc. cbn zeta. destruct (meets al (grounded g)) eqn:E; cbn [fst snd].
  - apply meets_spec in E. split; [|split].
    + split; [intros _|reflexivity]. exists (grounded g). split; assumption.
    + intros e He. injection He as <-. split; assumption.
    + discriminate.
  - split; [|split].
    + split; [discriminate|]. intros (S & HS & a & Ha & HaS).
      assert (Hm : meets al (grounded g) = true).
      { apply meets_spec. exists a. split; [assumption|].
        apply (gr_unique2 F S (grounded g) Hwf HS Hgr). assumption. }
      congruence.
    + discriminate.
    + reflexivity.
Qed.

(* skeptical acceptance: the answer is right and a negative answer carries a grounded
   counter-example missing the query *)
Theorem gr_ds_correct : forall g F al, wf F -> view_ok g F ->
  (fst (gr_ds g al) = true <-> skep GR F al) /\
  (forall e, snd (gr_ds g al) = Some e -> gr F e /\ ~ exists a, In a al /\ In a e) /\
  (fst (gr_ds g al) = true -> snd (gr_ds g al) = None).
Proof.
  intros g F al Hwf Hok. destruct (grounded_correct g F Hwf Hok) as [Hgr _].
  unfold gr_ds. cbn zeta. destruct (meets al (grounded g)) eqn:E; cbn [fst snd].
  - apply meets_spec in E. destruct E as (a & Ha & Hae). split; [|split].
    + split; [intros _|reflexivity]. intros S HS. exists a. split; [assumption|].
      apply (gr_unique2 F (grounded g) S Hwf Hgr HS). assumption.
    + discriminate.
    + reflexivity.
  - assert (Hn : ~ exists a, In a al /\ In a (grounded g)).
    { intros H. apply meets_spec in H. congruence. }
    split; [|split].
    + split; [discriminate|]. intros Hs. exfalso. apply Hn. apply (Hs (grounded g) Hgr).
    + intros e He. injection He as <-. split; assumption.
    + discriminate.
Qed.

(* ---------------- the hypotheses are satisfiable ---------------- *)
Example grounded_example :
  let F := compact 4 [(0, 1); (0, 1); (1, 2); (3, 3); (2, 3)] in
  compact_af F 4 /\ grounded (view_of_af F) = [0; 2].
Proof.
  cbn zeta. split; [|reflexivity]. split; [reflexivity|].
  intros a b Hab. cbn [In] in Hab.
  repeat (destruct Hab as [Hab|Hab]; [injection Hab as <- <-; lia|]). destruct Hab.
Qed.

Print Assumptions grounded_correct.
Print Assumptions grounded_lfp.
Print Assumptions view_of_af_ok.
Print Assumptions grounded_compact.
Print Assumptions grounded_compact_lfp.
Print Assumptions view_of_fw_ok.
Print Assumptions grounded_store.
Print Assumptions grounded_store_lfp.
Print Assumptions gr_se_correct.
Print Assumptions gr_dc_correct.
Print Assumptions gr_ds_correct.
