(* Proofs about Model/Readers.v, ICCMA'23 part: the label set built by [new_with_labels], the
   faithfulness of [read_iccma] on every rendering of every abstract instance, totality, the
   rejection lemmas and [read_arg_from_str]. *)
From Crusta Require Import Spec.IoSpec Proofs.IoBase Proofs.StoreBase.
From Coq Require Import Lia ZifyBool.

(* ------------------------------------------------------------------ label sets *)
Section Labels.
Variable L : Type.
Variable leqb : L -> L -> bool.
Hypothesis leqb_spec : forall x y, leqb x y = true <-> x = y.

Fixpoint fresh_slots (off : nat) (l : list L) : list (option (nat * L)) :=
  match l with
  | [] => []
  | x :: r => Some (off, x) :: fresh_slots (S off) r
  end.

Lemma fresh_slots_app a : forall off b,
  fresh_slots off (a ++ b) = fresh_slots off a ++ fresh_slots (off + length a) b.
Proof.
  induction a as [|x a IH]; intros off b; cbn [app fresh_slots length].
  - rewrite Nat.add_0_r. reflexivity.
  - rewrite IH. do 3 f_equal. lia.
Qed.
Lemma fresh_slots_length l : forall off, length (fresh_slots off l) = length l.
Proof. induction l as [|x l IH]; intros off; cbn [fresh_slots length]; [reflexivity|]. rewrite IH. reflexivity. Qed.
Lemma fs_fresh_slots l : forall off, filter_some (fresh_slots off l) = numbered off l.
Proof. induction l as [|x l IH]; intros off; cbn [fresh_slots filter_some numbered]; [reflexivity|]. rewrite IH. reflexivity. Qed.
Lemma map_snd_numbered (l : list L) : forall off, map snd (numbered off l) = l.
Proof. induction l as [|x l IH]; intros off; cbn [numbered map snd]; [reflexivity|]. rewrite IH. reflexivity. Qed.
Lemma map_fst_numbered (l : list L) : forall off, map fst (numbered off l) = seq off (length l).
Proof. induction l as [|x l IH]; intros off; cbn [numbered map fst seq length]; [reflexivity|]. rewrite IH. reflexivity. Qed.
Lemma nth_fresh_slots l : forall off k, k < length l ->
  exists x, nth k (fresh_slots off l) None = Some (off + k, x) /\ nth_error l k = Some x.
Proof.
  induction l as [|y l IH]; intros off k Hk; cbn [length] in Hk; [lia|].
  destruct k as [|k]; cbn [fresh_slots nth nth_error].
  - exists y. rewrite Nat.add_0_r. split; reflexivity.
  - destruct (IH (S off) k ltac:(lia)) as [x [H1 H2]]. exists x. split; [|assumption].
    rewrite H1. do 2 f_equal. lia.
Qed.

Lemma position_fresh x l : forall off,
  position (slot_has L leqb x) (fresh_slots off l) =
  option_map (fun i => i) (position (leqb x) l).
Proof.
  induction l as [|y l IH]; intros off; cbn [fresh_slots position]; [reflexivity|].
  cbn [slot_has]. destruct (leqb x y); [reflexivity|]. rewrite IH.
  destruct (position (leqb x) l); reflexivity.
Qed.
Lemma position_None_iff (p : L -> bool) l : position p l = None <-> existsb p l = false.
Proof.
  induction l as [|y l IH]; cbn [position existsb]; [split; reflexivity|].
  destruct (p y); cbn [orb]; [split; discriminate|].
  destruct (position p l); cbn [option_map]; [split; [discriminate|]|].
  - intros H. apply IH in H. discriminate.
  - split; [intros _; apply IH; reflexivity|reflexivity].
Qed.

Definition plain (l : list L) : lset L := {| slots := fresh_slots 0 l; n_removed := 0 |}.

Lemma new_label_plain pre x :
  new_label L leqb (plain pre) x =
  plain (if existsb (leqb x) pre then pre else pre ++ [x]).
Proof.
  unfold new_label, find_label, plain. cbn [slots n_removed]. rewrite position_fresh.
  destruct (existsb (leqb x) pre) eqn:E.
  - destruct (position (leqb x) pre) eqn:P; [reflexivity|].
    apply position_None_iff in P. congruence.
  - apply position_None_iff in E. rewrite E. cbn [option_map].
    rewrite fresh_slots_app, fresh_slots_length. reflexivity.
Qed.

Lemma fold_new_label_plain l : forall pre,
  fold_left (new_label L leqb) l (plain pre) = plain (pre ++ dedup leqb pre l).
Proof.
  induction l as [|x l IH]; intros pre; cbn [fold_left dedup].
  - rewrite app_nil_r. reflexivity.
  - rewrite new_label_plain. destruct (existsb (leqb x) pre); rewrite IH; [reflexivity|].
    rewrite <- app_assoc. reflexivity.
Qed.

Lemma new_with_labels_plain l : new_with_labels L leqb l = plain (dedup leqb [] l).
Proof. unfold new_with_labels. change {| slots := []; n_removed := 0 |} with (plain []). apply fold_new_label_plain. Qed.

Lemma dedup_nodup l : forall seen, NoDup (seen ++ l) -> dedup leqb seen l = l.
Proof.
  induction l as [|x l IH]; intros seen Hnd; cbn [dedup]; [reflexivity|].
  destruct (existsb (leqb x) seen) eqn:E.
  - apply existsb_exists in E. destruct E as [y [Hy Hxy]]. apply leqb_spec in Hxy. subst y.
    exfalso. apply NoDup_remove_2 in Hnd. apply Hnd. apply in_or_app. left; assumption.
  - f_equal. apply IH. rewrite <- app_assoc. exact Hnd.
Qed.

Lemma init_ls l : ls (fw_new_with_labels L leqb l) = plain (dedup leqb [] l).
Proof. unfold fw_new_with_labels, fw_new. cbn [ls]. apply new_with_labels_plain. Qed.
Lemma plain_len l : ls_len L (plain l) = length l.
Proof. unfold ls_len, plain. cbn [slots n_removed]. rewrite fresh_slots_length. lia. Qed.
Lemma init_iter_args l :
  iter_args L (fw_new_with_labels L leqb l) = numbered 0 (dedup leqb [] l).
Proof. unfold iter_args, ls_iter. rewrite init_ls. cbn [plain slots]. apply fs_fresh_slots. Qed.
Lemma init_attacks l : attacks (fw_new_with_labels L leqb l) = [].
Proof. reflexivity. Qed.

Lemma find_label_plain pre x :
  find_label L leqb (plain pre) x = position (leqb x) pre.
Proof.
  unfold find_label, plain. cbn [slots]. rewrite position_fresh.
  destruct (position _ pre); reflexivity.
Qed.
End Labels.

Arguments plain {L}. Arguments fresh_slots {L}.

(* ------------------------------------------------------------------ ICCMA: the store side *)
Lemma nat_eqb_spec x y : Nat.eqb x y = true <-> x = y.
Proof. apply Nat.eqb_eq. Qed.

Lemma iccma_init_ls n : ls (fw_new_with_labels nat Nat.eqb (seq 1 n)) = plain (seq 1 n).
Proof.
  rewrite (init_ls nat Nat.eqb). rewrite (dedup_nodup nat Nat.eqb nat_eqb_spec); [reflexivity|].
  apply seq_NoDup.
Qed.
Lemma iccma_init_nargs n : n_arguments nat (fw_new_with_labels nat Nat.eqb (seq 1 n)) = n.
Proof. unfold n_arguments. rewrite iccma_init_ls, plain_len, seq_length. reflexivity. Qed.

Lemma nabi_ls f a b : ls (fst (new_attack_by_ids nat f a b)) = ls f.
Proof. unfold new_attack_by_ids. destruct (_ || _); reflexivity. Qed.
Lemma nabi_nargs f a b : n_arguments nat (fst (new_attack_by_ids nat f a b)) = n_arguments nat f.
Proof. unfold n_arguments. rewrite nabi_ls. reflexivity. Qed.
Lemma nabi_ok f a b : a < n_arguments nat f -> b < n_arguments nat f ->
  snd (new_attack_by_ids nat f a b) = ROk /\
  attacks (fst (new_attack_by_ids nat f a b)) = attacks f ++ [Some (a, b)].
Proof.
  unfold new_attack_by_ids, n_arguments. intros Ha Hb.
  destruct (Nat.leb (ls_len nat (ls f)) a) eqn:E1; [apply Nat.leb_le in E1; lia|].
  destruct (Nat.leb (ls_len nat (ls f)) b) eqn:E2; [apply Nat.leb_le in E2; lia|].
  cbn [orb fst snd attacks]. split; reflexivity.
Qed.

Lemma iccma_fw_fold atts : forall f0,
  (forall p, In p atts -> fst p < n_arguments nat f0 /\ snd p < n_arguments nat f0) ->
  let f := fold_left (fun f p => fst (new_attack_by_ids nat f (fst p) (snd p))) atts f0 in
  ls f = ls f0 /\ attacks f = attacks f0 ++ map Some atts.
Proof.
  induction atts as [|p atts IH]; intros f0 Hb; cbn [fold_left map].
  - rewrite app_nil_r. split; reflexivity.
  - destruct (Hb p (or_introl eq_refl)) as [Ha Hb'].
    destruct (nabi_ok f0 (fst p) (snd p) Ha Hb') as [_ Hatt].
    specialize (IH (fst (new_attack_by_ids nat f0 (fst p) (snd p)))).
    destruct IH as [H1 H2].
    + intros q Hq. rewrite nabi_nargs. apply Hb. right; assumption.
    + split; [rewrite H1; apply nabi_ls|]. rewrite H2, Hatt, <- app_assoc. destruct p; reflexivity.
Qed.

Lemma fs_map_Some {A} (l : list A) : filter_some (map Some l) = l.
Proof. induction l as [|x l IH]; cbn [map filter_some]; [reflexivity|]. rewrite IH. reflexivity. Qed.

(* the framework denoted by an ICCMA file has exactly the declared arguments, in order, with ids
   0..n-1, and exactly the declared attacks, in order, duplicates kept *)
Lemma iccma_fw_shape n atts : (forall p, In p atts -> fst p < n /\ snd p < n) ->
  iter_args nat (iccma_fw n atts) = numbered 0 (seq 1 n) /\
  iter_attacks nat (iccma_fw n atts) = atts /\
  observe (iccma_fw n atts) = (seq 1 n, atts).
Proof.
  intros Hb. unfold iccma_fw.
  destruct (iccma_fw_fold atts (fw_new_with_labels nat Nat.eqb (seq 1 n))) as [H1 H2].
  { rewrite iccma_init_nargs. exact Hb. }
  assert (Ha : iter_args nat (fold_left (fun f p => fst (new_attack_by_ids nat f (fst p) (snd p))) atts
                                (fw_new_with_labels nat Nat.eqb (seq 1 n))) = numbered 0 (seq 1 n)).
  { unfold iter_args, ls_iter. rewrite H1, iccma_init_ls. cbn [plain slots]. apply fs_fresh_slots. }
  assert (Hb2 : iter_attacks nat (fold_left (fun f p => fst (new_attack_by_ids nat f (fst p) (snd p))) atts
                                (fw_new_with_labels nat Nat.eqb (seq 1 n))) = atts).
  { unfold iter_attacks. rewrite H2. cbn [attacks fw_new_with_labels fw_new app]. apply fs_map_Some. }
  split; [assumption|]. split; [assumption|].
  unfold observe. rewrite Ha, Hb2, map_snd_numbered. reflexivity.
Qed.

(* ------------------------------------------------------------------ ICCMA: one step of the reader *)
Inductive stepres := Stop (r : rd (fw nat)) | Cont (af : option (fw nat)) (fe : bool).

Definition iccma_step (l : option str) (af : option (fw nat)) (found_empty : bool) : stepres :=
  match l with
  | None => Stop RdErr
  | Some l =>
      if starts_with_hash l then Cont af found_empty
      else if is_nil l then Cont af true
      else if found_empty then Stop RdErr
      else
        match af with
        | None =>
            match read_preamble (split_ws l) with
            | Some n => Cont (Some (fw_new_with_labels nat Nat.eqb (seq 1 n))) found_empty
            | None => Stop RdErr
            end
        | Some f =>
            match split_ws l with
            | [w0; w1] =>
                match read_idx w0 (n_arguments nat f), read_idx w1 (n_arguments nat f) with
                | Some a, Some b =>
                    match new_attack_by_ids nat f (a - 1) (b - 1) with
                    | (f', ROk) => Cont (Some f') found_empty
                    | _ => Stop RdPanic
                    end
                | _, _ => Stop RdErr
                end
            | _ => Stop RdErr
            end
        end
  end.

Lemma iccma_lines_cons l r af fe :
  iccma_lines (l :: r) af fe =
  match iccma_step l af fe with Stop x => x | Cont af' fe' => iccma_lines r af' fe' end.
Proof.
  unfold iccma_step. cbn [iccma_lines]. destruct l as [l|]; [|reflexivity].
  destruct (starts_with_hash l); [reflexivity|]. destruct (is_nil l); [reflexivity|].
  destruct fe; [reflexivity|]. destruct af as [f|].
  - destruct (split_ws l) as [|w0 [|w1 [|w2 ws]]]; try reflexivity.
    destruct (read_idx w0 (n_arguments nat f)); [|reflexivity].
    destruct (read_idx w1 (n_arguments nat f)); [|reflexivity].
    destruct (new_attack_by_ids nat f (n - 1) (n0 - 1)) as [f' [| |]]; reflexivity.
  - destruct (read_preamble (split_ws l)); reflexivity.
Qed.

Lemma read_idx_range w n a : read_idx w n = Some a -> 1 <= a <= n.
Proof.
  unfold read_idx. destruct (parse_isize w) as [z|]; [|discriminate].
  destruct ((1 <=? z)%Z && (z <=? Z.of_nat n)%Z) eqn:E; [|discriminate].
  intros H. injection H as <-. lia.
Qed.

(* a step either continues or stops with an error: never a panic, never an early Ok; the
   found-empty flag never goes back, a framework once created stays, with the same size *)
Lemma iccma_step_cases l af fe :
  iccma_step l af fe = Stop RdErr \/
  exists af' fe', iccma_step l af fe = Cont af' fe' /\ (fe = true -> fe' = true) /\
    (forall f, af = Some f -> exists f', af' = Some f' /\ n_arguments nat f' = n_arguments nat f).
Proof.
  unfold iccma_step. destruct l as [l|]; [|left; reflexivity].
  destruct (starts_with_hash l).
  { right. exists af, fe. split; [reflexivity|]. split; [auto|]. intros f ->. exists f; auto. }
  destruct (is_nil l).
  { right. exists af, true. split; [reflexivity|]. split; [auto|]. intros f ->. exists f; auto. }
  destruct fe; [left; reflexivity|]. destruct af as [f|].
  - destruct (split_ws l) as [|w0 [|w1 [|w2 ws]]]; try (left; reflexivity).
    destruct (read_idx w0 (n_arguments nat f)) as [a|] eqn:Ea; [|left; reflexivity].
    destruct (read_idx w1 (n_arguments nat f)) as [b|] eqn:Eb; [|left; reflexivity].
    apply read_idx_range in Ea. apply read_idx_range in Eb.
    destruct (nabi_ok f (a - 1) (b - 1) ltac:(lia) ltac:(lia)) as [Hok _].
    pose proof (nabi_nargs f (a - 1) (b - 1)) as Hn.
    destruct (new_attack_by_ids nat f (a - 1) (b - 1)) as [f' r]. cbn [fst snd] in *. subst r.
    right. exists (Some f'), false. split; [reflexivity|]. split; [auto|].
    intros g Hg. injection Hg as <-. exists f'. auto.
  - destruct (read_preamble (split_ws l)) as [n|]; [|left; reflexivity].
    right. eexists _, false. split; [reflexivity|]. split; [auto|]. intros f Hf; discriminate.
Qed.

(* totality: the model of the reader never reaches the panic of [new_attack_by_ids(..).unwrap()] *)
Lemma iccma_lines_no_panic ls : forall af fe, iccma_lines ls af fe <> RdPanic.
Proof.
  induction ls as [|l r IH]; intros af fe.
  - cbn [iccma_lines]. destruct af; discriminate.
  - rewrite iccma_lines_cons. destruct (iccma_step_cases l af fe) as [H|[af' [fe' [H _]]]]; rewrite H.
    + discriminate.
    + apply IH.
Qed.
Lemma read_iccma_total bytes : read_iccma bytes <> RdPanic.
Proof. apply iccma_lines_no_panic. Qed.

(* whatever a prefix of the file contains, the reader has either already failed or goes on *)
Lemma iccma_prefix pre : forall rest af fe,
  iccma_lines (pre ++ rest) af fe = RdErr \/
  exists af' fe', iccma_lines (pre ++ rest) af fe = iccma_lines rest af' fe' /\
    (fe = true -> fe' = true) /\
    (forall f, af = Some f -> exists f', af' = Some f' /\ n_arguments nat f' = n_arguments nat f).
Proof.
  induction pre as [|l pre IH]; intros rest af fe.
  - right. exists af, fe. split; [reflexivity|]. split; [auto|]. intros f ->. exists f; auto.
  - cbn [app]. rewrite iccma_lines_cons.
    destruct (iccma_step_cases l af fe) as [H|[af1 [fe1 [H [Hfe Haf]]]]]; rewrite H; [left; reflexivity|].
    destruct (IH rest af1 fe1) as [H2|[af2 [fe2 [H2 [Hfe2 Haf2]]]]]; [left; assumption|].
    right. exists af2, fe2. split; [assumption|]. split; [auto|].
    intros f Hf. destruct (Haf f Hf) as [f1 [-> Hn1]]. destruct (Haf2 f1 eq_refl) as [f2 [-> Hn2]].
    exists f2. split; [reflexivity|congruence].
Qed.

(* ------------------------------------------------------------------ ICCMA: rejection lemmas *)
(* (c1) a line that is not valid UTF-8 *)
Lemma iccma_rejects_invalid_utf8 ls : forall af fe, In None ls -> iccma_lines ls af fe = RdErr.
Proof.
  intros af fe Hin. apply in_split in Hin. destruct Hin as [pre [post ->]].
  destruct (iccma_prefix pre (None :: post) af fe) as [H|[af' [fe' [H _]]]]; [assumption|].
  rewrite H. reflexivity.
Qed.

Definition is_comment (l : option str) : Prop :=
  match l with Some s => starts_with_hash s = true | None => False end.
Definition is_content (l : str) : Prop := starts_with_hash l = false /\ l <> [].

Lemma iccma_skip_comments cs : forall rest af fe, Forall is_comment cs ->
  iccma_lines (cs ++ rest) af fe = iccma_lines rest af fe.
Proof.
  induction cs as [|c cs IH]; intros rest af fe Hc; [reflexivity|].
  inversion Hc as [|? ? H1 H2]; subst. cbn [app]. rewrite iccma_lines_cons.
  destruct c as [s|]; [|destruct H1]. cbn [is_comment] in H1. unfold iccma_step. rewrite H1.
  apply IH, H2.
Qed.

Lemma is_nil_false l : l <> [] -> is_nil l = false.
Proof. destruct l; [congruence|reflexivity]. Qed.

(* (c2) content after an empty line *)
Lemma iccma_content_when_found_empty ls : forall af l, In (Some l) ls -> is_content l ->
  iccma_lines ls af true = RdErr.
Proof.
  intros af l Hin [Hh Hn]. apply in_split in Hin. destruct Hin as [pre [post ->]].
  destruct (iccma_prefix pre (Some l :: post) af true) as [H|[af' [fe' [H [Hfe _]]]]]; [assumption|].
  rewrite H, (Hfe eq_refl), iccma_lines_cons. unfold iccma_step.
  rewrite Hh, (is_nil_false l Hn). reflexivity.
Qed.
Lemma iccma_rejects_content_after_blank pre post l af fe :
  In (Some l) post -> is_content l -> iccma_lines (pre ++ Some [] :: post) af fe = RdErr.
Proof.
  intros Hin Hc.
  destruct (iccma_prefix pre (Some [] :: post) af fe) as [H|[af' [fe' [H _]]]]; [assumption|].
  etransitivity; [exact H|]. rewrite iccma_lines_cons. cbn [iccma_step starts_with_hash is_nil].
  apply (iccma_content_when_found_empty post af' l Hin Hc).
Qed.

(* (c3) no preamble at all: only comments and empty lines *)
Lemma iccma_rejects_missing_header ls : forall fe,
  Forall (fun l => is_comment l \/ l = Some []) ls -> iccma_lines ls None fe = RdErr.
Proof.
  induction ls as [|l r IH]; intros fe H; [reflexivity|].
  inversion H as [|? ? H1 H2]; subst. rewrite iccma_lines_cons. destruct H1 as [H1 | ->].
  - destruct l as [s|]; [|destruct H1]. cbn [is_comment] in H1. unfold iccma_step. rewrite H1. apply IH, H2.
  - cbn [iccma_step starts_with_hash is_nil]. apply IH, H2.
Qed.

(* (c4) the first content line is not a well-formed preamble *)
Lemma iccma_rejects_bad_header cs h rest fe : Forall is_comment cs -> is_content h ->
  read_preamble (split_ws h) = None -> iccma_lines (cs ++ Some h :: rest) None fe = RdErr.
Proof.
  intros Hc [Hh Hn] Hp. rewrite iccma_skip_comments by assumption. rewrite iccma_lines_cons.
  unfold iccma_step. rewrite Hh, (is_nil_false h Hn), Hp. destruct fe; reflexivity.
Qed.

(* (c5) after a well-formed preamble declaring n arguments: any content line that is not exactly
   two words, both integers in 1..n (arity, index 0, index > n, non-integer, overflow) *)
Definition bad_attack_line (n : nat) (l : str) : Prop :=
  forall w0 w1 a b, split_ws l = [w0; w1] -> read_idx w0 n = Some a -> read_idx w1 n = Some b -> False.

Lemma iccma_bad_attack_line_state body : forall f fe l, In (Some l) body -> is_content l ->
  bad_attack_line (n_arguments nat f) l -> iccma_lines body (Some f) fe = RdErr.
Proof.
  intros f fe l Hin [Hh Hn] Hbad. apply in_split in Hin. destruct Hin as [pre [post ->]].
  destruct (iccma_prefix pre (Some l :: post) (Some f) fe) as [H|[af' [fe' [H [_ Haf]]]]]; [assumption|].
  rewrite H. destruct (Haf f eq_refl) as [f' [-> Hn']]. rewrite iccma_lines_cons.
  unfold iccma_step. rewrite Hh, (is_nil_false l Hn). destruct fe'; [reflexivity|].
  rewrite Hn'. unfold bad_attack_line in Hbad.
  destruct (split_ws l) as [|w0 [|w1 [|w2 ws]]]; try reflexivity.
  destruct (read_idx w0 (n_arguments nat f)) as [a|] eqn:Ea; [|reflexivity].
  destruct (read_idx w1 (n_arguments nat f)) as [b|] eqn:Eb; [|reflexivity].
  exfalso. exact (Hbad w0 w1 a b eq_refl Ea Eb).
Qed.

Lemma iccma_rejects_bad_attack_line cs h n body l : Forall is_comment cs -> is_content h ->
  read_preamble (split_ws h) = Some n -> In (Some l) body -> is_content l -> bad_attack_line n l ->
  iccma_lines (cs ++ Some h :: body) None false = RdErr.
Proof.
  intros Hc [Hh Hn] Hp Hin Hl Hbad. rewrite iccma_skip_comments by assumption.
  rewrite iccma_lines_cons. unfold iccma_step. rewrite Hh, (is_nil_false h Hn), Hp.
  apply (iccma_bad_attack_line_state body _ false l Hin Hl). rewrite iccma_init_nargs. exact Hbad.
Qed.

(* ------------------------------------------------------------------ ICCMA: faithfulness *)
Lemma hash_comment_line t : starts_with_hash (comment_line t) = true.
Proof. reflexivity. Qed.

Lemma content_pre pre (c : N) rest : Forall ws pre -> c <> 35%N ->
  starts_with_hash (pre ++ c :: rest) = false /\ is_nil (pre ++ c :: rest) = false.
Proof.
  intros Hp Hc. destruct pre as [|d pre]; cbn [app starts_with_hash is_nil].
  - split; [apply N.eqb_neq; assumption|reflexivity].
  - inversion Hp; subst. split; [|reflexivity]. apply N.eqb_neq.
    apply (ws_not d 35%N); [assumption|auto].
Qed.

Lemma render_num_head f n : exists c r, render_num f n = c :: r /\ c <> 35%N.
Proof.
  destruct (render_num_chars f n) as [Hall Hne]. destruct (render_num f n) as [|c r]; [congruence|].
  exists c, r. split; [reflexivity|]. inversion Hall as [|? ? Hc _]; subst.
  destruct Hc as [->|Hc]; [discriminate|]. unfold digit, is_digit in Hc. lia.
Qed.

Lemma ws_headed_blanks b : Forall ws b -> ws_headed b.
Proof. destruct b as [|c b]; [constructor|]. intros H; inversion H; subst. assumption. Qed.

Lemma header_line_facts f : iccma_file_ok f ->
  starts_with_hash (header_line f) = false /\ is_nil (header_line f) = false /\
  read_preamble (split_ws (header_line f)) = Some (f_n f).
Proof.
  intros [_ [Hpre [Hs1 [Hn1 [Hs2 [Hn2 [Hpost [Hn _]]]]]]]].
  apply blanks_ws in Hpre, Hs1, Hs2, Hpost. unfold header_line.
  destruct (content_pre (f_pre f) 112%N
              (f_sep1 f ++ [97; 102]%N ++ f_sep2 f ++ render_num (f_nfmt f) (f_n f) ++ f_post f) Hpre ltac:(discriminate))
    as [H1 H2].
  split; [exact H1|]. split; [exact H2|].
  rewrite split_ws_skip by assumption.
  rewrite (split_ws_word [112%N]); [|discriminate|repeat constructor|apply ws_headed_app; assumption].
  rewrite split_ws_skip by assumption.
  rewrite (split_ws_word [97; 102]%N); [|discriminate|repeat constructor|apply ws_headed_app; assumption].
  rewrite split_ws_skip by assumption.
  rewrite (split_ws_word (render_num (f_nfmt f) (f_n f)));
    [|apply render_num_chars|apply render_num_nonws|apply ws_headed_blanks; assumption].
  rewrite split_ws_blanks by assumption.
  unfold read_preamble. cbn [str_eqb w_p w_af]. rewrite !N.eqb_refl. cbn [andb].
  rewrite parse_isize_render by assumption.
  rwb (0 <=? Z.of_nat (f_n f))%Z true. rewrite Nat2Z.id. reflexivity.
Qed.

Lemma read_idx_render f a n : 1 <= a <= n -> (N.of_nat n <= isize_max)%N ->
  read_idx (render_num f a) n = Some a.
Proof.
  intros Ha Hn. unfold read_idx. rewrite parse_isize_render by lia.
  rwb ((1 <=? Z.of_nat a)%Z && (Z.of_nat a <=? Z.of_nat n)%Z) true. rewrite Nat2Z.id. reflexivity.
Qed.

Lemma att_line_facts n l : att_line_ok n l -> (N.of_nat n <= isize_max)%N ->
  starts_with_hash (render_att_line l) = false /\ is_nil (render_att_line l) = false /\
  exists w0 w1, split_ws (render_att_line l) = [w0; w1] /\
    read_idx w0 n = Some (al_a l) /\ read_idx w1 n = Some (al_b l).
Proof.
  intros [Hpre [Hsep [Hne [Hpost [Ha Hb]]]]] Hn.
  apply blanks_ws in Hpre, Hsep, Hpost. unfold render_att_line.
  destruct (render_num_head (al_fa l) (al_a l)) as [c [r [Ec Hc]]].
  split; [|split].
  - rewrite Ec. cbn [app]. apply (content_pre _ c); assumption.
  - rewrite Ec. cbn [app]. apply (content_pre _ c); assumption.
  - exists (render_num (al_fa l) (al_a l)), (render_num (al_fb l) (al_b l)).
    rewrite split_ws_skip by assumption.
    rewrite (split_ws_word (render_num (al_fa l) (al_a l)));
      [|apply render_num_chars|apply render_num_nonws|apply ws_headed_app; assumption].
    rewrite split_ws_skip by assumption.
    rewrite (split_ws_word (render_num (al_fb l) (al_b l)));
      [|apply render_num_chars|apply render_num_nonws|apply ws_headed_blanks; assumption].
    rewrite split_ws_blanks by assumption.
    split; [reflexivity|]. split; apply read_idx_render; assumption.
Qed.

Definition add_att (f : fw nat) (p : nat * nat) : fw nat := fst (new_attack_by_ids nat f (fst p) (snd p)).
Definition body_attacks (items : list body_item) : list (nat * nat) :=
  flat_map (fun i => match i with BAttack l => [(al_a l - 1, al_b l - 1)] | BComment _ => [] end) items.

Lemma body_run n items : forall f0 rest, (N.of_nat n <= isize_max)%N ->
  Forall (body_item_ok n) items -> n_arguments nat f0 = n ->
  iccma_lines (map Some (map body_line items) ++ rest) (Some f0) false =
  iccma_lines rest (Some (fold_left add_att (body_attacks items) f0)) false.
Proof.
  induction items as [|i items IH]; intros f0 rest Hn Hok Hf0; [reflexivity|].
  inversion Hok as [|? ? Hi Hr]; subst. cbn [map app]. rewrite iccma_lines_cons.
  destruct i as [t|l]; cbn [body_line body_attacks flat_map].
  - cbn [iccma_step starts_with_hash comment_line]. rewrite N.eqb_refl. apply IH; auto.
  - cbn [body_item_ok] in Hi.
    destruct (att_line_facts _ l Hi Hn) as [H1 [H2 [w0 [w1 [Hw [Ha Hb]]]]]].
    unfold iccma_step. rewrite H1, H2, Hw, Ha, Hb.
    destruct Hi as [_ [_ [_ [_ [Hra Hrb]]]]].
    destruct (nabi_ok f0 (al_a l - 1) (al_b l - 1) ltac:(lia) ltac:(lia)) as [Hok' _].
    pose proof (nabi_nargs f0 (al_a l - 1) (al_b l - 1)) as Hn'.
    cbn [app fold_left]. unfold add_att at 2. cbn [fst snd].
    destruct (new_attack_by_ids nat f0 (al_a l - 1) (al_b l - 1)) as [f' r]. cbn [fst snd] in *. subst r.
    apply IH; auto; congruence.
Qed.

Lemma tail_run items : forall f0 fe, iccma_lines (map Some (map tail_line items)) (Some f0) fe = RdOk f0.
Proof.
  induction items as [|i items IH]; intros f0 fe; [reflexivity|].
  cbn [map]. rewrite iccma_lines_cons. destruct i as [t|]; cbn [tail_line].
  - cbn [iccma_step starts_with_hash comment_line]. rewrite N.eqb_refl. apply IH.
  - cbn [iccma_step starts_with_hash is_nil]. apply IH.
Qed.

Lemma iccma_file_lines_clean f : iccma_file_ok f -> Forall clean (iccma_file_lines f).
Proof.
  intros [Hh [Hpre [Hs1 [_ [Hs2 [_ [Hpost [_ [Hbody Htail]]]]]]]]].
  assert (Hnum : forall g n, clean (render_num g n)).
  { intros g n. eapply Forall_impl; [|apply (proj1 (render_num_chars g n))].
    intros c [->|Hc]; [unfold inline, scalar; lia|]. unfold digit, is_digit in Hc. unfold inline, scalar. lia. }
  assert (Hcomment : forall t, clean t -> clean (comment_line t)).
  { intros t Ht. constructor; [unfold inline, scalar; lia|exact Ht]. }
  unfold iccma_file_lines. apply Forall_app. split.
  { apply Forall_forall. intros s Hs. apply in_map_iff in Hs. destruct Hs as [t [<- Ht]].
    apply Hcomment. rewrite Forall_forall in Hh. apply Hh, Ht. }
  apply Forall_app. split.
  { assert (Hp : clean [112%N]) by (repeat constructor; unfold scalar; lia).
    assert (Haf : clean [97; 102]%N) by (repeat constructor; unfold scalar; lia).
    constructor; [|constructor]. unfold header_line. unfold clean in *.
    apply Forall_app; split; [apply blanks_clean; assumption|].
    apply Forall_app; split; [assumption|].
    apply Forall_app; split; [apply blanks_clean; assumption|].
    apply Forall_app; split; [assumption|].
    apply Forall_app; split; [apply blanks_clean; assumption|].
    apply Forall_app; split; [apply Hnum|apply blanks_clean; assumption]. }
  apply Forall_app. split.
  - apply Forall_forall. intros s Hs. apply in_map_iff in Hs. destruct Hs as [i [<- Hi]].
    rewrite Forall_forall in Hbody. specialize (Hbody _ Hi). destruct i as [t|l]; cbn [body_line body_item_ok] in *.
    + apply Hcomment, Hbody.
    + destruct Hbody as [H1 [H2 [_ [H3 _]]]]. unfold render_att_line. unfold clean in *.
      apply Forall_app; split; [apply blanks_clean; assumption|].
      apply Forall_app; split; [apply Hnum|].
      apply Forall_app; split; [apply blanks_clean; assumption|].
      apply Forall_app; split; [apply Hnum|apply blanks_clean; assumption].
  - apply Forall_forall. intros s Hs. apply in_map_iff in Hs. destruct Hs as [i [<- Hi]].
    rewrite Forall_forall in Htail. specialize (Htail _ Hi). destruct i as [t|]; cbn [tail_line tail_item_ok] in *.
    + apply Hcomment, Htail.
    + constructor.
Qed.

(* (a) every rendering of every abstract instance is read as that instance *)
Lemma iccma_faithful f eols fnl : iccma_file_ok f -> final_ok (iccma_file_lines f) fnl ->
  read_iccma (render_lines (iccma_file_lines f) eols fnl) = RdOk (iccma_fw (f_n f) (file_attacks f)).
Proof.
  intros Hok Hfin. unfold read_iccma.
  rewrite lines_render; [|apply iccma_file_lines_clean; assumption|assumption].
  unfold iccma_file_lines. rewrite !map_app.
  rewrite iccma_skip_comments.
  2:{ apply Forall_forall. intros l Hl. apply in_map_iff in Hl. destruct Hl as [s [<- Hs]].
      apply in_map_iff in Hs. destruct Hs as [t [<- _]]. reflexivity. }
  cbn [map app]. rewrite iccma_lines_cons.
  destruct (header_line_facts f Hok) as [H1 [H2 H3]]. unfold iccma_step. rewrite H1, H2, H3.
  destruct Hok as [_ [_ [_ [_ [_ [_ [_ [Hn [Hbody _]]]]]]]]].
  rewrite (body_run (f_n f)); [|assumption|assumption|apply iccma_init_nargs].
  rewrite tail_run. reflexivity.
Qed.

Lemma file_attacks_bound f : iccma_file_ok f ->
  forall p, In p (file_attacks f) -> fst p < f_n f /\ snd p < f_n f.
Proof.
  intros [_ [_ [_ [_ [_ [_ [_ [_ [Hbody _]]]]]]]]] p Hp. unfold file_attacks in Hp.
  apply in_flat_map in Hp. destruct Hp as [i [Hi Hp]]. rewrite Forall_forall in Hbody.
  specialize (Hbody _ Hi). destruct i as [t|l]; [destruct Hp|]. destruct Hp as [<-|[]].
  cbn [body_item_ok] in Hbody. destruct Hbody as [_ [_ [_ [_ [Ha Hb]]]]]. cbn [fst snd]. lia.
Qed.

(* ------------------------------------------------------------------ ICCMA: read_arg_from_str *)
(* (d) on the framework the reader returns: exactly the argument with that 1-based index *)
Lemma iccma_read_arg_exact n atts s : (forall p, In p atts -> fst p < n /\ snd p < n) ->
  iccma_read_arg (iccma_fw n atts) s =
  match parse_usize s with
  | Some k => if (0 <? k)%N && (k <=? N.of_nat n)%N then RdOk (N.to_nat k - 1, N.to_nat k) else RdErr
  | None => RdErr
  end.
Proof.
  intros Hb. unfold iccma_read_arg, iccma_fw.
  destruct (iccma_fw_fold atts (fw_new_with_labels nat Nat.eqb (seq 1 n))) as [H1 _].
  { rewrite iccma_init_nargs. exact Hb. }
  unfold n_arguments. rewrite H1, iccma_init_ls, plain_len, seq_length.
  destruct (parse_usize s) as [k|]; [|reflexivity].
  destruct ((0 <? k)%N && (k <=? N.of_nat n)%N) eqn:E; [|reflexivity].
  cbn [plain slots].
  destruct (nth_fresh_slots nat (seq 1 n) 0 (N.to_nat k - 1)) as [x [Hx Hnth]].
  { rewrite seq_length. lia. }
  rewrite Hx. cbn [Nat.add]. f_equal. f_equal.
  apply nth_error_nth with (d := 0) in Hnth. rewrite seq_nth in Hnth by lia. lia.
Qed.
