(* C17 at the level of the model: a SAT answer that is Unknown aborts the query, whatever the
   query, the framework, the encoder and the other answers; and a query that completes (or panics,
   or runs out of fuel) has consumed no Unknown answer.  Proved for every entry point of
   Model.Solvers through [run_query]. *)
From Crusta Require Import Sat.Cnf Sat.Prog Model.Encoders Model.Graph Model.Solvers Proofs.ProgLaws.
Import ListNotations.
Open Scope prog_scope.

Definition is_unknown_event (e : nat * event) : Prop := exists a, snd e = ESolve a Unknown.
Definition no_unknown (l : list (nat * event)) : Prop := Forall (fun e => ~ is_unknown_event e) l.
(* the most recent event is an Unknown answer and it is the only one *)
Definition aborted_log (l : list (nat * event)) : Prop :=
  exists k a r, l = (k, ESolve a Unknown) :: r /\ no_unknown r.

Definition Iclean (s : Prog.st) : Prop := no_unknown (rlog s).
Definition Iabort (s : Prog.st) : Prop := aborted_log (rlog s).

Section Abort.
Variable oracle : nat -> cnf -> list lit -> answer.
Variable thr : nat.

Notation pres := (preserves Iabort Iclean Iclean).
Notation P := (fun A (m : M A) => preserves Iclean Iabort m).

Lemma nu_cons k e l : (forall a, e <> ESolve a Unknown) -> no_unknown l -> no_unknown ((k, e) :: l).
Proof. intros He Hl. constructor; [|exact Hl]. intros [a Ha]. cbn in Ha. now apply (He a). Qed.

Lemma c_new s : Iclean s -> Iclean (st_new s).
Proof. intros H. apply nu_cons; [discriminate|exact H]. Qed.
Lemma c_reserve s n : Iclean s -> Iclean (st_reserve s n).
Proof. intros H. apply nu_cons; [discriminate|exact H]. Qed.
Lemma c_add s c : Iclean s -> Iclean (st_add s c).
Proof. intros H. apply nu_cons; [discriminate|exact H]. Qed.
Lemma c_nvars s : Iclean s -> Iclean (st_nvars s).
Proof. intros H. apply nu_cons; [discriminate|exact H]. Qed.
Lemma c_solve s a : Iclean s ->
  match answer_of oracle s a with
  | Unknown => Iabort (st_solved oracle s a)
  | _ => Iclean (st_solved oracle s a)
  end.
Proof.
  intros H. unfold st_solved. destruct (answer_of oracle s a) eqn:E.
  - apply nu_cons; [discriminate|exact H].
  - apply nu_cons; [discriminate|exact H].
  - exists (nsess s), a, (rlog s). split; [reflexivity|exact H].
Qed.

Lemma p_ret A (a : A) : P A (ret a).            Proof. apply preserves_ret. Qed.
Lemma p_panic A : P A (@panic A).               Proof. apply preserves_panic. Qed.
Lemma p_oof A : P A (@out_of_fuel A).           Proof. apply preserves_oof. Qed.
Lemma p_bind A B (m : M A) (k : A -> M B) : P A m -> (forall a, P B (k a)) -> P B (bind m k).
Proof. apply preserves_bind. Qed.
Lemma p_new : P unit new_solver.                Proof. apply preserves_new_solver, c_new. Qed.
Lemma p_reserve n : P unit (reserve n).         Proof. apply preserves_reserve, c_reserve. Qed.
Lemma p_add c : P unit (add_clause c).          Proof. apply preserves_add_clause, c_add. Qed.
Lemma p_nvars : P nat n_vars.                   Proof. apply preserves_n_vars, c_nvars. Qed.
Lemma p_solve a : P _ (solve oracle a).         Proof. apply preserves_solve, c_solve. Qed.
Lemma p_adds cs : P unit (add_clauses cs).      Proof. apply preserves_add_clauses, c_add. Qed.

Ltac pstep :=
  first
    [ apply p_ret | apply p_panic | apply p_oof | apply p_new | apply p_reserve | apply p_add
    | apply p_nvars | apply p_solve | apply p_adds | assumption
    | apply p_bind; [|intros ?]
    | match goal with
      | |- preserves _ _ (match ?x with _ => _ end) => destruct x
      | |- preserves _ _ (if ?x then _ else _) => destruct x
      | |- preserves _ _ (let '(_, _) := ?x in _) => destruct x
      end ].
Ltac pauto := repeat pstep.

Lemma p_encode e range F : P unit (encode_m thr e range F).
Proof. unfold encode_m. pauto. Qed.
Lemma p_new_computer e n has g a2e fl : P _ (new_computer e n has g a2e fl).
Proof. unfold new_computer. pauto. Qed.
Lemma p_new_cc_computer e F fl : P _ (new_cc_computer e F fl).
Proof. unfold new_cc_computer. apply p_new_computer. Qed.
Lemma p_solve_c c a : P _ (solve_c oracle c a).
Proof. unfold solve_c. pauto. Qed.
Lemma p_increase c : P _ (increase_assumptions c).
Proof. unfold increase_assumptions. pauto. Qed.
Lemma p_discard_maximal c : P _ (discard_maximal c).
Proof. unfold discard_maximal. pauto. Qed.
Lemma p_discard_current c : P _ (discard_current c).
Proof. unfold discard_current. pauto. Qed.
Lemma p_new_search c : P _ (new_search oracle c).
Proof. unfold new_search. apply p_bind; [apply p_solve_c|intros ?; pauto]. Qed.
Lemma p_compute_next c : P _ (compute_next oracle c).
Proof.
  unfold compute_next. destruct (c_state c).
  - apply p_bind; [apply p_discard_maximal|intros _; apply p_new_search].
  - apply p_bind; [apply p_increase|intros a].
    apply p_bind; [apply p_solve_c|intros r; pauto].
  - apply p_new_search.
  - apply p_panic.
  - apply p_ret.
Qed.
Lemma p_discard_current_search c : P _ (discard_current_search c).
Proof. unfold discard_current_search. apply p_bind; [apply p_discard_current|intros _; apply p_ret]. Qed.
Lemma p_drop c : P _ (drop c).
Proof. unfold drop. apply p_add. Qed.
Lemma p_compute_maximal fuel c : P _ (compute_maximal oracle fuel c).
Proof.
  revert c. induction fuel as [|f IH]; intros c; cbn [compute_maximal]; [apply p_oof|].
  destruct (c_state c);
    try (apply p_bind; [apply p_compute_next|intros c'; apply IH]).
  apply p_bind; [apply p_drop|intros _; apply p_ret].
Qed.

Lemma p_ccs g : P _ (ccs_m g).            Proof. unfold ccs_m. pauto. Qed.
Lemma p_remaining g s : P _ (remaining_m g s). Proof. unfold remaining_m. pauto. Qed.
Lemma p_merged g al : P _ (merged_m g al). Proof. unfold merged_m. pauto. Qed.
Lemma p_locals c al : P _ (locals_m c al). Proof. unfold locals_m. pauto. Qed.
Lemma p_for_ccs A l (acc : A) f : (forall a c, P A (f a c)) -> P A (for_ccs l acc f).
Proof.
  intros Hf. revert acc. induction l as [|c r IH]; intros acc; cbn [for_ccs]; [apply p_ret|].
  apply p_bind; [apply Hf|intros a; apply IH].
Qed.

Lemma p_guarded e lam close : P _ lam -> P _ (guarded_disj oracle e lam close).
Proof.
  intros Hl. unfold guarded_disj. apply p_bind; [apply p_nvars|intros nv]. cbv zeta.
  apply p_bind; [exact Hl|intros la]. apply p_bind; [apply p_add|intros _].
  apply p_bind; [apply p_solve|intros r].
  apply p_bind; [destruct close; [apply p_add|apply p_ret]|intros _; apply p_ret].
Qed.
Lemma p_co_dc e g al : P _ (co_dc oracle thr e g al).
Proof.
  unfold co_dc. apply p_bind; [apply p_new|intros _]. apply p_bind; [apply p_merged|intros sc].
  cbv zeta. apply p_bind; [apply p_encode|intros _].
  apply p_bind; [apply p_guarded, p_locals|intros r; apply p_ret].
Qed.
Lemma p_co_dc_cert e g al : P _ (co_dc_cert oracle thr e g al).
Proof.
  unfold co_dc_cert. apply p_bind; [apply p_merged|intros sc]. cbv zeta.
  apply p_bind; [apply p_new|intros _]. apply p_bind; [apply p_encode|intros _].
  apply p_bind; [apply p_guarded, p_locals|intros r].
  destruct r; [|apply p_ret]. apply p_bind; [apply p_remaining|intros o; apply p_ret].
Qed.

Lemma p_st_cc c in_cc pol : P _ (st_cc oracle thr c in_cc pol).
Proof.
  unfold st_cc. apply p_bind; [apply p_new|intros _]. apply p_bind; [apply p_encode|intros _].
  destruct in_cc as [|x xs].
  - apply p_bind; [apply p_solve|intros m; apply p_ret].
  - destruct pol.
    + apply p_bind; [apply p_guarded, p_ret|intros m1]. destruct m1; [apply p_ret|].
      apply p_bind; [apply p_solve|intros m2; apply p_ret].
    + apply p_bind; [apply p_solve|intros m; apply p_ret].
Qed.
Lemma p_st_se g : P _ (st_se oracle thr g).
Proof.
  unfold st_se. apply p_bind; [apply p_ccs|intros ccs].
  generalize (@nil nat) as merged.
  induction ccs as [|c r IH]; intros merged; cbn [st_se_loop]; [apply p_ret|].
  apply p_bind; [apply p_st_cc|intros m]. destruct m as [[m acc]|]; [apply IH|apply p_ret].
Qed.
Lemma p_st_accept g al pol sou : P _ (st_accept oracle thr g al pol sou).
Proof.
  unfold st_accept. apply p_bind; [apply p_ccs|intros ccs].
  generalize (negb pol) as found. generalize (@nil nat) as merged.
  induction ccs as [|c r IH]; intros merged found; cbn [st_accept_loop];
    [destruct found; apply p_ret|].
  apply p_bind; [apply p_st_cc|intros m]. destruct m as [[m acc]|]; [apply IH|apply p_ret].
Qed.

Lemma p_pr_max_in_cc fuel e c : P _ (pr_max_in_cc oracle thr fuel e c).
Proof.
  unfold pr_max_in_cc. apply p_bind; [apply p_new|intros _]. apply p_bind; [apply p_encode|intros _].
  apply p_bind; [apply p_new_cc_computer|intros k].
  apply p_bind; [apply p_compute_maximal|intros l; apply p_ret].
Qed.
Lemma p_pr_se fuel e g : P _ (pr_se oracle thr fuel e g).
Proof.
  unfold pr_se. apply p_bind; [apply p_ccs|intros ccs].
  apply p_bind; [|intros r; apply p_ret]. apply p_for_ccs. intros merged c.
  apply p_bind; [apply p_pr_max_in_cc|intros l; apply p_ret].
Qed.
Lemma p_pr_ds_loop fuel F la sc k : P _ (pr_ds_loop oracle fuel F la sc k).
Proof.
  revert k. induction fuel as [|f IH]; intros k; cbn [pr_ds_loop]; [apply p_oof|].
  apply p_bind; [apply p_compute_next|intros k'].
  destruct (c_state k'); try apply IH.
  - destruct (negb (meets la (c_cur k'))); [|apply IH].
    apply p_bind; [apply p_drop|intros _; apply p_ret].
  - destruct (meets la (c_cur k')).
    + apply p_bind; [apply p_discard_current_search|intros k''; apply IH].
    + destruct (sc && _); [|apply IH]. apply p_bind; [apply p_drop|intros _; apply p_ret].
  - apply p_bind; [apply p_drop|intros _; apply p_ret].
Qed.
Lemma p_pr_ds_in_cc fuel e c al sc : P _ (pr_ds_in_cc oracle thr fuel e c al sc).
Proof.
  unfold pr_ds_in_cc. apply p_bind; [apply p_locals|intros la]. apply p_bind; [apply p_new|intros _].
  apply p_bind; [apply p_encode|intros _]. apply p_bind; [apply p_new_cc_computer|intros k].
  apply p_pr_ds_loop.
Qed.
Lemma p_pr_ds fuel e g al : P _ (pr_ds oracle thr fuel e g al).
Proof.
  unfold pr_ds. apply p_bind; [apply p_merged|intros sc].
  apply p_bind; [apply p_pr_ds_in_cc|intros r; apply p_ret].
Qed.
Lemma p_pr_ds_cert fuel e g al : P _ (pr_ds_cert oracle thr fuel e g al).
Proof.
  unfold pr_ds_cert. apply p_bind; [apply p_merged|intros sc].
  apply p_bind; [apply p_pr_ds_in_cc|intros r].
  destruct r as [[|] [ce|]]; try apply p_panic; try apply p_ret.
  apply p_bind; [apply p_remaining|intros others].
  apply p_bind; [|intros m; apply p_ret]. apply p_for_ccs. intros merged c.
  apply p_bind; [apply p_pr_max_in_cc|intros l; apply p_ret].
Qed.

Lemma p_rg_max_in_cc fuel e c : P _ (rg_max_in_cc oracle thr fuel e c).
Proof.
  unfold rg_max_in_cc. apply p_bind; [apply p_new|intros _]. apply p_bind; [apply p_encode|intros _].
  apply p_bind; [apply p_new_cc_computer|intros k].
  apply p_bind; [apply p_compute_maximal|intros l; apply p_ret].
Qed.
Lemma p_rg_se fuel e g : P _ (rg_se oracle thr fuel e g).
Proof.
  unfold rg_se. apply p_bind; [apply p_ccs|intros ccs].
  apply p_bind; [|intros r; apply p_ret]. apply p_for_ccs. intros merged c.
  apply p_bind; [apply p_rg_max_in_cc|intros l; apply p_ret].
Qed.
Lemma p_rg_loop fuel e n la cred k : P _ (rg_loop oracle fuel e n la cred k).
Proof.
  revert k. induction fuel as [|f IH]; intros k; cbn [rg_loop]; [apply p_oof|].
  apply p_bind; [apply p_compute_next|intros k'].
  destruct (c_state k'); try apply IH.
  - destruct (_ || _).
    + apply p_bind; [apply p_drop|intros _; apply p_ret].
    + destruct (split_in_range k') as [inrg notr]. destruct cred.
      * apply p_bind; [apply p_nvars|intros nv]. apply p_bind; [apply p_add|intros _].
        apply p_bind; [apply p_solve|intros r]. apply p_bind; [apply p_add|intros _].
        destruct r; [|apply IH]. apply p_bind; [apply p_drop|intros _; apply p_ret].
      * apply p_bind; [apply p_solve|intros r].
        destruct r; [|apply IH]. apply p_bind; [apply p_drop|intros _; apply p_ret].
  - apply p_bind; [apply p_drop|intros _; apply p_ret].
Qed.
Lemma p_rg_in_cc fuel e c al cred : P _ (rg_in_cc oracle thr fuel e c al cred).
Proof.
  unfold rg_in_cc. apply p_bind; [apply p_locals|intros la]. apply p_bind; [apply p_new|intros _].
  apply p_bind; [apply p_encode|intros _]. apply p_bind; [apply p_new_cc_computer|intros k].
  apply p_rg_loop.
Qed.
Lemma p_rg_accept fuel e g al cred : P _ (rg_accept oracle thr fuel e g al cred).
Proof.
  unfold rg_accept. apply p_bind; [apply p_merged|intros sc].
  apply p_bind; [apply p_rg_in_cc|intros r; apply p_ret].
Qed.
Lemma p_rg_accept_cert fuel e g al cred : P _ (rg_accept_cert oracle thr fuel e g al cred).
Proof.
  unfold rg_accept_cert. apply p_bind; [apply p_merged|intros sc].
  apply p_bind; [apply p_rg_in_cc|intros r]. destruct (snd r); [|apply p_ret].
  apply p_bind; [apply p_remaining|intros others].
  apply p_bind; [|intros m; apply p_ret]. apply p_for_ccs. intros merged c.
  apply p_bind; [apply p_rg_max_in_cc|intros l'; apply p_ret].
Qed.

Lemma p_id_enum_loop fuel n ngr k ia nia np : P _ (id_enum_loop oracle fuel n ngr k ia nia np).
Proof.
  revert k ia nia np. induction fuel as [|f IH]; intros k ia nia np; cbn [id_enum_loop]; [apply p_oof|].
  apply p_bind; [apply p_compute_next|intros k'].
  destruct (c_state k'); try apply IH.
  - cbv zeta. destruct (Nat.eqb _ ngr); [|apply IH].
    apply p_bind; [apply p_drop|intros _; apply p_ret].
  - apply p_bind; [apply p_drop|intros _; apply p_ret].
Qed.
Lemma p_id_in_all fuel e F ngr : P _ (id_in_all oracle thr fuel e F ngr).
Proof.
  unfold id_in_all. apply p_bind; [apply p_encode|intros _].
  apply p_bind; [apply p_new_cc_computer|intros k]. apply p_id_enum_loop.
Qed.
Lemma p_id_maximal_allowed fuel e F ia : P _ (id_maximal_allowed oracle fuel e F ia).
Proof.
  unfold id_maximal_allowed. apply p_bind; [apply p_new_cc_computer|intros k]. apply p_compute_maximal.
Qed.
Lemma p_id_ext_for_cc fuel e F : P _ (id_ext_for_cc oracle thr fuel e F).
Proof.
  unfold id_ext_for_cc. cbv zeta. apply p_bind; [apply p_new|intros _].
  apply p_bind; [apply p_id_in_all|intros r]. destruct r as [[ia nia] np].
  destruct (Nat.eqb nia _); [apply p_ret|]. destruct (Nat.eqb np 1); [apply p_ret|].
  apply p_id_maximal_allowed.
Qed.
Lemma p_id_se fuel e g : P _ (id_se oracle thr fuel e g).
Proof.
  unfold id_se. apply p_bind; [apply p_ccs|intros ccs].
  apply p_bind; [|intros r; apply p_ret]. apply p_for_ccs. intros merged c.
  apply p_bind; [apply p_new|intros _]. apply p_bind; [apply p_encode|intros _].
  apply p_bind; [apply p_id_ext_for_cc|intros l; apply p_ret].
Qed.
Lemma p_id_cred_for_cc fuel e F la : P _ (id_cred_for_cc oracle thr fuel e F la).
Proof.
  unfold id_cred_for_cc. cbv zeta. apply p_bind; [apply p_new|intros _].
  apply p_bind; [apply p_id_in_all|intros r]. destruct r as [[ia nia] np].
  destruct (forallb _ la); [apply p_ret|].
  destruct (Nat.eqb nia _); [apply p_ret|]. destruct (Nat.eqb np 1); [apply p_ret|].
  apply p_bind; [apply p_id_maximal_allowed|intros l; apply p_ret].
Qed.
Lemma p_id_dc fuel e g al : P _ (id_dc oracle thr fuel e g al).
Proof.
  unfold id_dc. apply p_bind; [apply p_merged|intros sc]. apply p_bind; [apply p_locals|intros la].
  apply p_bind; [apply p_id_cred_for_cc|intros r; apply p_ret].
Qed.
Lemma p_id_dc_cert fuel e g al : P _ (id_dc_cert oracle thr fuel e g al).
Proof.
  unfold id_dc_cert. apply p_bind; [apply p_merged|intros sc]. apply p_bind; [apply p_locals|intros la].
  apply p_bind; [apply p_id_cred_for_cc|intros r].
  destruct r as [[|] [ce|]]; try apply p_ret.
  apply p_bind; [apply p_remaining|intros others].
  apply p_bind; [|intros m; apply p_ret]. apply p_for_ccs. intros merged c.
  apply p_bind; [apply p_id_ext_for_cc|intros l; apply p_ret].
Qed.
Lemma p_id_ds_cert fuel e g al : P _ (id_ds_cert oracle thr fuel e g al).
Proof.
  unfold id_ds_cert. apply p_bind; [apply p_id_se|intros r].
  destruct r; [|apply p_panic]. destruct (meets al l); apply p_ret.
Qed.

Theorem run_query_preserves fuel s q cert e g al :
  P _ (run_query oracle thr fuel s q cert e g al).
Proof.
  unfold run_query.
  destruct s, q; try apply p_panic; try apply p_ret;
    try (destruct cert);
    repeat first
      [ apply p_ret
      | apply p_co_dc | apply p_co_dc_cert | apply p_st_se | apply p_st_accept
      | apply p_pr_se | apply p_pr_ds | apply p_pr_ds_cert | apply p_rg_se | apply p_rg_accept
      | apply p_rg_accept_cert | apply p_id_se | apply p_id_dc | apply p_id_dc_cert | apply p_id_ds_cert
      | apply p_bind; [|intros ?] ].
Qed.

(* the statement used by Properties/C17.v *)
Theorem unknown_aborts : forall d fuel s q cert e g al,
  match run d (run_query oracle thr fuel s q cert e g al) with
  | Abort st' => aborted_log (rlog st')
  | Done _ st' | Panic st' | OutOfFuel st' => no_unknown (rlog st')
  end.
Proof.
  intros d fuel s q cert e g al. unfold run.
  pose proof (run_query_preserves fuel s q cert e g al (init_st d)) as H.
  unfold wp in H. assert (Hi : Iclean (init_st d)) by constructor.
  specialize (H Hi).
  destruct (run_query oracle thr fuel s q cert e g al (init_st d)); exact H.
Qed.

End Abort.

(* an Unknown answer at the k-th call, when the program gets that far, aborts it there: the log of
   any run contains at most one Unknown, and only as its last event *)
Corollary script_unknown_aborts : forall script thr d fuel s q cert e g al r,
  r = run d (run_query (script_oracle script) thr fuel s q cert e g al) ->
  (exists k a, In (k, ESolve a Unknown) (log_of r)) ->
  exists st', r = Abort st'.
Proof.
  intros script thr d fuel s q cert e g al r Hr [k [a Hin]].
  pose proof (unknown_aborts (script_oracle script) thr d fuel s q cert e g al) as H.
  rewrite <- Hr in H. unfold log_of in Hin. apply in_rev in Hin.
  destruct r as [o st'|st'|st'|st']; cbn [final_st] in Hin; try (now eexists);
    exfalso; unfold no_unknown in H; rewrite Forall_forall in H;
    apply (H _ Hin); exists a; reflexivity.
Qed.
