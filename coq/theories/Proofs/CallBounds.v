(* C18, loop-free solvers: the complete and the stable solver make at most two SAT calls per
   connected component, whatever the answers.  Stated on the call counter of the program state,
   for every kind of result (completed, aborted, panicked). *)
From Crusta Require Import Spec.AF Sat.Cnf Sat.Prog Model.Encoders Model.Graph Model.Solvers.
From Crusta Require Import Proofs.ProgLaws.
From Coq Require Import Lia.
Import ListNotations.
Open Scope prog_scope.

Section Bounds.
Variable oracle : nat -> cnf -> list lit -> answer.
Variable thr : nat.

(* calls made by a run started in s: never more than k, and the session counter moves by at most j *)
Definition calls_le (s : Prog.st) (k : nat) (s' : Prog.st) : Prop := calls s' <= calls s + k.
Notation wpC s k := (wp (calls_le s k) (calls_le s k) (calls_le s k)).

Lemma calls_adds s cs : calls (st_adds s cs) = calls s.
Proof. apply st_adds_calls. Qed.

Lemma wp_encode_calls (QA QP QF : Prog.st -> Prop) e range F (Q : unit -> Prog.st -> Prop) s :
  (forall s', calls s' = calls s -> Q tt s') -> (forall s', calls s' = calls s -> QP s') ->
  wp QA QP QF (encode_m thr e range F) Q s.
Proof.
  intros HQ HP. unfold encode_m. destruct (encode_af e thr range F) as [[r C]|]; [|now apply HP].
  rewrite wp_bind. destruct r as [k|].
  - rewrite wp_reserve, wp_add_clauses. apply HQ. now rewrite calls_adds.
  - rewrite wp_ret, wp_add_clauses. apply HQ. now rewrite calls_adds.
Qed.

Lemma wp_guarded_calls (QA QP QF : Prog.st -> Prop) e la close (Q : option assignment -> Prog.st -> Prop) s :
  (forall r s', calls s' = calls s + 1 -> Q r s') -> (forall s', calls s' = calls s + 1 -> QA s') ->
  wp QA QP QF (guarded_disj oracle e (ret la) close) Q s.
Proof.
  intros HQ HA. unfold guarded_disj.
  rewrite wp_bind, wp_n_vars. cbv zeta. rewrite wp_bind, wp_ret, wp_bind, wp_add_clause, wp_bind, wp_solve.
  destruct (answer_of oracle _ _).
  - rewrite wp_bind. destruct close; rewrite ?wp_add_clause, !wp_ret; apply HQ; cbn; lia.
  - rewrite wp_bind. destruct close; rewrite ?wp_add_clause, !wp_ret; apply HQ; cbn; lia.
  - apply HA. cbn. lia.
Qed.

Theorem st_cc_calls c in_cc pol s :
  match st_cc oracle thr c in_cc pol s with
  | Done _ s' | Abort s' | Panic s' | OutOfFuel s' => calls s' <= calls s + 2
  end.
Proof.
  assert (H : wpC s 2 (st_cc oracle thr c in_cc pol) (fun _ s' => calls s' <= calls s + 2) s).
  { unfold st_cc. rewrite wp_bind, wp_new_solver, wp_bind.
    apply wp_encode_calls; [intros s1 H1|intros s1 H1; unfold calls_le; cbn in H1; lia].
    cbn in H1. destruct in_cc as [|x xs].
    - rewrite wp_bind, wp_solve. destruct (answer_of oracle s1 []); unfold calls_le; cbn; lia.
    - destruct pol.
      + rewrite wp_bind. apply wp_guarded_calls; [intros r s2 H2|intros s2 H2; unfold calls_le; lia].
        destruct r as [m|].
        * rewrite wp_ret. lia.
        * rewrite wp_bind, wp_solve. destruct (answer_of oracle s2 []); unfold calls_le; cbn; lia.
      + rewrite wp_bind, wp_solve. destruct (answer_of oracle s1 _); unfold calls_le; cbn; lia. }
  unfold wp, calls_le in H. destruct (st_cc oracle thr c in_cc pol s); exact H.
Qed.

Theorem co_query_calls e F la close s :
  match (encode_m thr e false F ;;; guarded_disj oracle e (ret la) close) s with
  | Done _ s' | Abort s' | Panic s' | OutOfFuel s' => calls s' <= calls s + 1
  end.
Proof.
  assert (H : wpC s 1 (encode_m thr e false F ;;; guarded_disj oracle e (ret la) close)
                  (fun _ s' => calls s' <= calls s + 1) s).
  { rewrite wp_bind. apply wp_encode_calls; [intros s1 H1|intros s1 H1; unfold calls_le; lia].
    apply wp_guarded_calls; [intros r s2 H2; lia|intros s2 H2; unfold calls_le; lia]. }
  unfold wp, calls_le in H.
  destruct ((encode_m thr e false F ;;; guarded_disj oracle e (ret la) close) s); exact H.
Qed.

End Bounds.
