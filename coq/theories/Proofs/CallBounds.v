(* C18, loop-free solvers: the complete and the stable solver make at most two SAT calls per
   connected component, whatever the answers.  Stated on the call counter of the program state,
   for every kind of result (completed, aborted, panicked). *)
From Crusta Require Import Spec.AF Sat.Cnf Sat.Prog Model.Encoders Model.Graph Model.Solvers.
From Crusta Require Import Proofs.ProgLaws.
From Coq Require Import Lia.
Import ListNotations.
Open Scope prog_scope.

Section Bounds.
Variable oracle : nat -> cnf -> list lit -> answer.
Variable thr : nat.

(* calls made by a run started in s: never more than k, and the session counter moves by at most j *)
Definition calls_le (s : Prog.st) (k : nat) (s' : Prog.st) : Prop := calls s' <= calls s + k.
Notation wpC s k := (wp (calls_le s k) (calls_le s k) (calls_le s k)).

Lemma calls_adds s cs : calls (st_adds s cs) = calls s.
Proof. apply st_adds_calls. Qed.

Lemma encode_calls e range F s :
  wp (fun s' => calls s' = calls s) (fun s' => calls s' = calls s) (fun s' => calls s' = calls s)
     (encode_m thr e range F) (fun _ s' => calls s' = calls s) s.
Proof.
  unfold encode_m. destruct (encode_af e thr range F) as [[r C]|]; [|reflexivity].
  rewrite wp_bind. destruct r as [k|].
  - rewrite wp_reserve, wp_add_clauses. now rewrite calls_adds.
  - rewrite wp_ret, wp_add_clauses. now rewrite calls_adds.
Qed.

Lemma guarded_calls e la close s0 s :
  calls s = calls s0 ->
  wpC s0 1 (guarded_disj oracle e (ret la) close) (fun _ s' => calls s' <= calls s0 + 1) s.
Proof.
  intros Hc. unfold guarded_disj.
  rewrite wp_bind, wp_n_vars. cbv zeta. rewrite wp_bind, wp_ret, wp_bind, wp_add_clause, wp_bind, wp_solve.
  destruct (answer_of oracle _ _); unfold calls_le; cbn; try lia;
    rewrite wp_bind; destruct close; rewrite ?wp_add_clause, ?wp_ret; cbn; lia.
Qed.

Theorem st_cc_calls c in_cc pol s :
  match st_cc oracle thr c in_cc pol s with
  | Done _ s' | Abort s' | Panic s' | OutOfFuel s' => calls s' <= calls s + 2
  end.
Proof.
  assert (H : wpC s 2 (st_cc oracle thr c in_cc pol) (fun _ s' => calls s' <= calls s + 2) s).
  { unfold st_cc. rewrite wp_bind, wp_new_solver, wp_bind.
    pose proof (encode_calls StDefault false (c_af c) (st_new s)) as He. unfold wp in He |- *.
    destruct (encode_m thr StDefault false (c_af c) (st_new s)) as [[] s1|s1|s1|s1];
      unfold calls_le; cbn in He; try lia.
    destruct in_cc as [|x xs].
    - fold (wp (calls_le s 2) (calls_le s 2) (calls_le s 2)
               (m <- solve oracle [];; ret (option_map (fun m0 => (m0, false)) m))
               (fun _ s' => calls s' <= calls s + 2) s1).
      rewrite wp_bind, wp_solve. destruct (answer_of oracle s1 []); unfold calls_le; cbn; lia.
    - destruct pol.
      + match goal with |- match ?m s1 with _ => _ end =>
          change (wp (calls_le s 2) (calls_le s 2) (calls_le s 2) m (fun _ s' => calls s' <= calls s + 2) s1) end.
        rewrite wp_bind.
        pose proof (guarded_calls StDefault (x :: xs) true s s1 He) as Hg.
        unfold wp in Hg |- *.
        destruct (guarded_disj oracle StDefault (ret (x :: xs)) true s1) as [r s2|s2|s2|s2];
          unfold calls_le in *; try lia.
        destruct r as [m|].
        * cbn. lia.
        * fold (wp (calls_le s 2) (calls_le s 2) (calls_le s 2)
                   (m2 <- solve oracle [];; ret (option_map (fun m => (m, false)) m2))
                   (fun _ s' => calls s' <= calls s + 2) s2).
          rewrite wp_bind, wp_solve. destruct (answer_of oracle s2 []); unfold calls_le; cbn; lia.
      + match goal with |- match ?m s1 with _ => _ end =>
          change (wp (calls_le s 2) (calls_le s 2) (calls_le s 2) m (fun _ s' => calls s' <= calls s + 2) s1) end.
        rewrite wp_bind, wp_solve. destruct (answer_of oracle s1 _); unfold calls_le; cbn; lia. }
  unfold wp, calls_le in H. destruct (st_cc oracle thr c in_cc pol s); exact H.
Qed.

Theorem co_query_calls e F la close s :
  match (encode_m thr e false F ;;; guarded_disj oracle e (ret la) close) s with
  | Done _ s' | Abort s' | Panic s' | OutOfFuel s' => calls s' <= calls s + 1
  end.
Proof.
  assert (H : wpC s 1 (encode_m thr e false F ;;; guarded_disj oracle e (ret la) close)
                  (fun _ s' => calls s' <= calls s + 1) s).
  { rewrite wp_bind. pose proof (encode_calls e false F s) as He. unfold wp in He |- *.
    destruct (encode_m thr e false F s) as [[] s1|s1|s1|s1]; unfold calls_le; cbn in He; try lia.
    exact (guarded_calls e la close s s1 He). }
  unfold wp, calls_le in H.
  destruct ((encode_m thr e false F ;;; guarded_disj oracle e (ret la) close) s); exact H.
Qed.

End Bounds.
