(* The rules of the POLYNOMIAL ORACLE of the checks (checks/solvers_common.py poly_judge,
   checks/dyn_common.py dyn_poly_verdict), proved over the specification layer for frameworks of
   any size.  Definitions: Proofs/PolyOracleDefs.v.  Readable statements: Properties/C03poly.v.

   1. vocabulary (some_in_g, all_in_d, defeatedb, g_stableb, hit, the t_* tests)
   2. R1  a member of the grounded extension is in every complete extension
   3. R2  an argument defeated by the grounded extension is in no complete extension
   4. R3  a stable grounded extension is the only extension of every semantics
   5. the executable rules poly_status / dyn_poly_status / poly_status_full are sound
   6. R5  the tests on a returned set
   7. the unit propagation of the python code computes the grounded extension *)
From Coq Require Import List Arith Bool Lia.
From Crusta Require Import Spec.AF Spec.SemFacts Spec.Theory Proofs.PolyOracleDefs.
Import ListNotations.

(* ------------------------------------------------------------------ *)
(** * 1. Vocabulary *)

Lemma defeatedb_spec : forall F a,
  defeatedb F a = true <-> exists b, In b (lfp F) /\ att F b a.
Proof. intros F a. unfold defeatedb. apply attacked_byb_spec. Qed.

Lemma some_in_g_meetsb : forall F A, some_in_g F A = meetsb A (lfp F).
Proof. reflexivity. Qed.

Lemma some_in_g_spec : forall F A,
  some_in_g F A = true <-> exists a, In a A /\ In a (lfp F).
Proof. intros F A. rewrite some_in_g_meetsb. apply meetsb_spec. Qed.

Lemma all_in_d_spec : forall F A,
  all_in_d F A = true <-> forall a, In a A -> exists b, In b (lfp F) /\ att F b a.
Proof.
  intros F A. unfold all_in_d. rewrite forallb_forall. split.
  - intros H a Ha. apply defeatedb_spec. apply H. exact Ha.
  - intros H a Ha. apply defeatedb_spec. apply H. exact Ha.
Qed.

Lemma lfp_incl_args : forall F, incl (lfp F) (args F).
Proof. intros F. apply adm_incl. apply lfp_adm. Qed.

Lemma lfp_cf : forall F, cf F (lfp F).
Proof. intros F. apply adm_cf. apply lfp_adm. Qed.

(* the grounded extension is stable exactly when no argument is left outside G and D *)
Lemma g_stableb_spec : forall F, g_stableb F = true <-> st F (lfp F).
Proof.
  intros F. unfold g_stableb. rewrite forallb_forall. split.
  - intros H. split; [apply lfp_incl_args|]. split; [apply lfp_cf|].
    intros a Ha Hn. specialize (H a Ha). apply orb_true_iff in H. destruct H as [H|H].
    + exfalso. apply Hn. apply memb_In. exact H.
    + apply defeatedb_spec. exact H.
  - intros [_ [_ H]] a Ha. apply orb_true_iff.
    destruct (memb a (lfp F)) eqn:E; [left; reflexivity|right].
    apply defeatedb_spec. apply H; [exact Ha|]. apply memb_false. exact E.
Qed.

Lemma g_stableb_stb : forall F, g_stableb F = stb F (lfp F).
Proof.
  intros F. apply bool_eq_iff. rewrite g_stableb_spec, stb_st. reflexivity.
Qed.

Lemma g_stableb_prop : forall F,
  g_stableb F = true <->
  forall a, In a (args F) -> In a (lfp F) \/ exists b, In b (lfp F) /\ att F b a.
Proof.
  intros F. unfold g_stableb. rewrite forallb_forall. split.
  - intros H a Ha. specialize (H a Ha). apply orb_true_iff in H. destruct H as [H|H].
    + left. apply memb_In. exact H.
    + right. apply defeatedb_spec. exact H.
  - intros H a Ha. apply orb_true_iff. destruct (H a Ha) as [H1|H1].
    + left. apply memb_In. exact H1.
    + right. apply defeatedb_spec. exact H1.
Qed.

Lemma statusb_status : forall s q F A, statusb s q F A = true <-> status s q F A.
Proof. intros s [|] F A; cbn [statusb status]; [apply credb_cred | apply skepb_skep]. Qed.

Lemma statusb_false : forall s q F A, statusb s q F A = false <-> ~ status s q F A.
Proof.
  intros s q F A. rewrite <- statusb_status. destruct (statusb s q F A); split; intros H.
  - discriminate H.
  - exfalso. apply H. reflexivity.
  - intros H1. discriminate H1.
  - reflexivity.
Qed.

(* every semantics but the stage one selects complete extensions *)
Lemma ext_co : forall s F S, wf F -> s <> STG -> ext s F S -> co F S.
Proof.
  intros s F S Hw Hs H. destruct s; cbn [ext] in H.
  - apply gr_co; assumption.
  - exact H.
  - apply pr_co; assumption.
  - apply st_co; assumption.
  - apply sst_co; assumption.
  - congruence.
  - apply idl_co; assumption.
Qed.

(* ------------------------------------------------------------------ *)
(** * 2. R1: members of the grounded extension *)

Theorem grounded_in_complete : forall F S a, In a (lfp F) -> co F S -> In a S.
Proof. intros F S a Ha HS. exact (lfp_least_co F S HS a Ha). Qed.

Theorem grounded_in_ext : forall s F S a, wf F -> s <> STG ->
  In a (lfp F) -> ext s F S -> In a S.
Proof.
  intros s F S a Hw Hs Ha HS. apply (grounded_in_complete F S a Ha).
  apply (ext_co s); assumption.
Qed.

Theorem grounded_skep : forall s F A, wf F -> s <> STG ->
  (exists a, In a A /\ In a (lfp F)) -> skep s F A.
Proof.
  intros s F A Hw Hs [a [HaA HaG]] S HS. exists a. split; [exact HaA|].
  apply (grounded_in_ext s F S a); assumption.
Qed.

Theorem grounded_cred : forall s F A, wf F -> s <> STG -> s <> ST ->
  (exists a, In a A /\ In a (lfp F)) -> cred s F A.
Proof.
  intros s F A Hw Hs Hs' H. apply skep_cred_wf; [exact Hw | exact Hs' |].
  apply grounded_skep; assumption.
Qed.

Theorem grounded_status : forall s q F A, wf F -> s <> STG -> (q = Skep \/ s <> ST) ->
  (exists a, In a A /\ In a (lfp F)) -> status s q F A.
Proof.
  intros s q F A Hw Hs Hq H. destruct q; cbn [status].
  - destruct Hq as [Hq|Hq]; [discriminate Hq|]. apply grounded_cred; assumption.
  - apply grounded_skep; assumption.
Qed.

(* ------------------------------------------------------------------ *)
(** * 3. R2: arguments defeated by the grounded extension *)

Theorem defeated_not_in_complete : forall F S a b,
  In b (lfp F) -> att F b a -> co F S -> ~ In a S.
Proof.
  intros F S a b Hb Hba HS Ha.
  pose proof (grounded_in_complete F S b Hb HS) as HbS.
  exact (adm_cf F S (co_adm F S HS) b a HbS Ha Hba).
Qed.

Theorem defeated_not_in_ext : forall s F S a b, wf F -> s <> STG ->
  In b (lfp F) -> att F b a -> ext s F S -> ~ In a S.
Proof.
  intros s F S a b Hw Hs Hb Hba HS. apply (defeated_not_in_complete F S a b Hb Hba).
  apply (ext_co s); assumption.
Qed.

Theorem defeated_not_cred : forall s F A, wf F -> s <> STG ->
  (forall a, In a A -> exists b, In b (lfp F) /\ att F b a) -> ~ cred s F A.
Proof.
  intros s F A Hw Hs H [S [HS [a [HaA HaS]]]]. destruct (H a HaA) as [b [Hb Hba]].
  exact (defeated_not_in_ext s F S a b Hw Hs Hb Hba HS HaS).
Qed.

Theorem defeated_not_skep : forall s F A, wf F -> s <> STG -> s <> ST ->
  (forall a, In a A -> exists b, In b (lfp F) /\ att F b a) -> ~ skep s F A.
Proof.
  intros s F A Hw Hs Hs' H Hk. apply (defeated_not_cred s F A Hw Hs H).
  apply skep_cred_wf; assumption.
Qed.

Theorem defeated_status : forall s q F A, wf F -> s <> STG -> (q = Cred \/ s <> ST) ->
  (forall a, In a A -> exists b, In b (lfp F) /\ att F b a) -> ~ status s q F A.
Proof.
  intros s q F A Hw Hs Hq H. destruct q; cbn [status].
  - apply defeated_not_cred; assumption.
  - destruct Hq as [Hq|Hq]; [discriminate Hq|]. apply defeated_not_skep; assumption.
Qed.

(* ------------------------------------------------------------------ *)
(** * 4. R3: the grounded extension is stable *)

Lemma g_stable_co_unique : forall F S, st F (lfp F) -> co F S -> seteq S (lfp F).
Proof.
  intros F S [_ [_ Hst]] HS. apply seteq_incl_both.
  - intros a Ha. destruct (in_dec Nat.eq_dec a (lfp F)) as [Hi|Hn]; [exact Hi|exfalso].
    destruct (Hst a (co_incl F S HS a Ha) Hn) as [b [Hb Hba]].
    exact (defeated_not_in_complete F S a b Hb Hba HS Ha).
  - apply lfp_least_co. exact HS.
Qed.

Lemma g_stable_idl : forall F, wf F -> st F (lfp F) -> idl F (lfp F).
Proof.
  intros F Hw Hst. split; [apply lfp_adm|]. split.
  - intros P HP. apply lfp_least_co. apply pr_co; assumption.
  - intros S' _ Hb. apply Hb. apply st_pr; assumption.
Qed.

Lemma g_stable_ext_lfp : forall s F, wf F -> st F (lfp F) -> ext s F (lfp F).
Proof.
  intros s F Hw Hst. destruct s; cbn [ext].
  - apply gr_lfp; exact Hw.
  - apply lfp_co.
  - apply st_pr; assumption.
  - exact Hst.
  - apply st_sst; assumption.
  - apply st_stg; assumption.
  - apply g_stable_idl; assumption.
Qed.

Theorem g_stable_unique : forall s F S, wf F -> st F (lfp F) ->
  (ext s F S <-> seteq S (lfp F)).
Proof.
  intros s F S Hw Hst. split.
  - intros HS. apply (g_stable_co_unique F S Hst).
    assert (Hc : s <> STG -> co F S) by (intros Hs; apply (ext_co s); assumption).
    destruct s; try (apply Hc; discriminate).
    cbn [ext] in HS. apply st_co; [exact Hw|].
    apply (proj1 (stg_st_collapse F S Hw (ex_intro _ (lfp F) Hst))). exact HS.
  - intros E. apply (ext_seteq s F (lfp F) S); [apply seteq_sym; exact E|].
    apply g_stable_ext_lfp; assumption.
Qed.

Theorem g_stable_status : forall s q F A, wf F -> st F (lfp F) ->
  (status s q F A <-> exists a, In a A /\ In a (lfp F)).
Proof.
  intros s q F A Hw Hst. destruct q; cbn [status]; split.
  - intros [S [HS [a [HaA HaS]]]]. exists a. split; [exact HaA|].
    apply (proj1 (g_stable_unique s F S Hw Hst) HS a). exact HaS.
  - intros H. exists (lfp F). split; [apply g_stable_ext_lfp; assumption | exact H].
  - intros H. apply H. apply g_stable_ext_lfp; assumption.
  - intros [a [HaA HaG]] S HS. exists a. split; [exact HaA|].
    apply (proj2 (proj1 (g_stable_unique s F S Hw Hst) HS a)). exact HaG.
Qed.

Theorem g_stable_statusb : forall s q F A, wf F -> g_stableb F = true ->
  statusb s q F A = some_in_g F A.
Proof.
  intros s q F A Hw Hg. apply bool_eq_iff. rewrite statusb_status, some_in_g_spec.
  apply g_stable_status; [exact Hw | apply g_stableb_spec; exact Hg].
Qed.

(* ------------------------------------------------------------------ *)
(** * 5. The executable rules are sound *)

(* the grounded semantics itself, and DS-CO: grounded membership, whatever the framework *)
Theorem gr_status : forall q F A, wf F ->
  (status GR q F A <-> exists a, In a A /\ In a (lfp F)).
Proof.
  intros q F A Hw. destruct q; cbn [status]; split.
  - intros [S [HS [a [HaA HaS]]]]. exists a. split; [exact HaA|].
    apply (proj1 (gr_unique F S Hw HS a)). exact HaS.
  - intros H. exists (lfp F). split; [apply gr_lfp; exact Hw | exact H].
  - intros H. apply H. apply gr_lfp. exact Hw.
  - intros [a [HaA HaG]] S HS. exists a. split; [exact HaA|].
    apply (proj2 (gr_unique F S Hw HS a)). exact HaG.
Qed.

Theorem gr_statusb : forall q F A, wf F -> statusb GR q F A = some_in_g F A.
Proof.
  intros q F A Hw. apply bool_eq_iff. rewrite statusb_status, some_in_g_spec.
  apply gr_status. exact Hw.
Qed.

Theorem co_skepb : forall F A, wf F -> statusb CO Skep F A = some_in_g F A.
Proof.
  intros F A Hw. apply bool_eq_iff. rewrite statusb_status, some_in_g_spec. cbn [status].
  apply skep_co_gr; [exact Hw | apply gr_lfp; exact Hw].
Qed.

Lemma grounded_statusb : forall s q F A, wf F -> s <> STG -> (q = Skep \/ s <> ST) ->
  some_in_g F A = true -> statusb s q F A = true.
Proof.
  intros s q F A Hw Hs Hq H. apply statusb_status. apply grounded_status; try assumption.
  apply some_in_g_spec. exact H.
Qed.

Lemma defeated_statusb : forall s q F A, wf F -> s <> STG -> (q = Cred \/ s <> ST) ->
  all_in_d F A = true -> statusb s q F A = false.
Proof.
  intros s q F A Hw Hs Hq H. apply statusb_false. apply defeated_status; try assumption.
  apply all_in_d_spec. exact H.
Qed.

Ltac poly_case Hw :=
  match goal with
  | H : Some _ = Some _ |- _ => injection H as H; subst
  | H : None = Some _ |- _ => discriminate H
  | H : context [if ?c then _ else _] |- _ => destruct c eqn:?
  end.

Ltac poly_close Hw :=
  first
  [ symmetry; apply g_stable_statusb; assumption
  | apply g_stable_statusb; assumption
  | apply gr_statusb; assumption
  | apply co_skepb; assumption
  | apply grounded_statusb; [assumption | discriminate | first [left; reflexivity | right; discriminate] | assumption]
  | apply defeated_statusb; [assumption | discriminate | first [left; reflexivity | right; discriminate] | assumption] ].

Theorem poly_status_full_sound : forall F s q A b, wf F ->
  poly_status_full F s q A = Some b -> statusb s q F A = b.
Proof.
  intros F s q A b Hw H. unfold poly_status_full in H.
  destruct (g_stableb F) eqn:Hg.
  - injection H as H. subst b. apply g_stable_statusb; assumption.
  - destruct s, q; repeat poly_case Hw; poly_close Hw.
Qed.

Theorem poly_status_sound : forall F s q A b, wf F ->
  poly_status F s q A = Some b -> statusb s q F A = b.
Proof.
  intros F s q A b Hw H. unfold poly_status in H.
  destruct s; try (injection H as H; subst b; apply gr_statusb; exact Hw);
    (destruct A as [|a0 A0]; [discriminate H|]);
    (destruct (g_stableb F) eqn:Hg;
      [injection H as H; subst b; apply g_stable_statusb; assumption|]);
    destruct q; repeat poly_case Hw; poly_close Hw.
Qed.

Theorem dyn_poly_status_sound : forall F s q a b, wf F ->
  dyn_poly_status F s q a = Some b -> statusb s q F [a] = b.
Proof.
  intros F s q a b Hw H.
  assert (Eg : some_in_g F [a] = memb a (lfp F)).
  { unfold some_in_g. cbn [existsb]. apply orb_false_r. }
  assert (Ed : all_in_d F [a] = defeatedb F a).
  { unfold all_in_d. cbn [forallb]. apply andb_true_r. }
  unfold dyn_poly_status in H. rewrite <- Eg, <- Ed in H.
  destruct s; try discriminate H;
    (destruct (g_stableb F) eqn:Hg;
      [injection H as H; subst b; apply g_stable_statusb; assumption|]);
    destruct q; repeat poly_case Hw; poly_close Hw.
Qed.

(* the python rules are instances of the full rule: whatever they decide, it decides the same *)
Theorem poly_status_le_full : forall F s q A b,
  poly_status F s q A = Some b -> poly_status_full F s q A = Some b.
Proof.
  intros F s q A b H. unfold poly_status in H. unfold poly_status_full.
  destruct (g_stableb F) eqn:Hg.
  - destruct s; try exact H; (destruct A as [|a0 A0]; [discriminate H | exact H]).
  - destruct s, q; try exact H; (destruct A as [|a0 A0]; [discriminate H|]); try exact H;
      try discriminate H;
      destruct (some_in_g F (a0 :: A0)); try exact H;
      destruct (all_in_d F (a0 :: A0)); try exact H; discriminate H.
Qed.

(* Prop reading of the soundness theorems *)
Corollary poly_status_sound_prop : forall F s q A b, wf F ->
  poly_status F s q A = Some b -> (b = true <-> status s q F A).
Proof.
  intros F s q A b Hw H. rewrite <- statusb_status.
  rewrite (poly_status_sound F s q A b Hw H). reflexivity.
Qed.

Corollary dyn_poly_status_sound_prop : forall F s q a b, wf F ->
  dyn_poly_status F s q a = Some b -> (b = true <-> status s q F [a]).
Proof.
  intros F s q a b Hw H. rewrite <- statusb_status.
  rewrite (dyn_poly_status_sound F s q a b Hw H). reflexivity.
Qed.

Corollary poly_status_full_sound_prop : forall F s q A b, wf F ->
  poly_status_full F s q A = Some b -> (b = true <-> status s q F A).
Proof.
  intros F s q A b Hw H. rewrite <- statusb_status.
  rewrite (poly_status_full_sound F s q A b Hw H). reflexivity.
Qed.

(* ------------------------------------------------------------------ *)
(** * 6. R5: the tests on a returned set *)

Lemma in_hit : forall F S x, In x (hit F S) <-> exists a, In a S /\ att F a x.
Proof.
  intros F S x. unfold hit. rewrite in_flat_map. split.
  - intros [a [Ha Hx]]. exists a. split; [exact Ha | apply in_attacked; exact Hx].
  - intros [a [Ha Hx]]. exists a. split; [exact Ha | apply in_attacked; exact Hx].
Qed.

Lemma t_cfb_cf : forall F S, t_cfb F S = true <-> cf F S.
Proof.
  intros F S. unfold t_cfb. rewrite forallb_forall. split.
  - intros H a b Ha Hb Hab. specialize (H b Hb). apply negb_true_iff in H.
    apply memb_false in H. apply H. apply in_hit. exists a. split; assumption.
  - intros H b Hb. apply negb_true_iff. apply memb_false. intros Hh.
    apply in_hit in Hh. destruct Hh as [a [Ha Hab]]. exact (H a b Ha Hb Hab).
Qed.

Lemma attackers_hit_defends : forall F S a,
  subsetb (attackers F a) (hit F S) = true <-> defends F S a.
Proof.
  intros F S a. rewrite subsetb_incl. split.
  - intros H b Hb. apply in_hit. apply H. apply in_attackers. exact Hb.
  - intros H b Hb. apply in_hit. apply H. apply in_attackers. exact Hb.
Qed.

Lemma t_admb_spec : forall F S, t_admb F S = true <-> forall a, In a S -> defends F S a.
Proof.
  intros F S. unfold t_admb. rewrite forallb_forall. split.
  - intros H a Ha. apply attackers_hit_defends. apply H. exact Ha.
  - intros H a Ha. apply attackers_hit_defends. apply H. exact Ha.
Qed.

Lemma t_cob_spec : forall F S,
  t_cob F S = true <-> forall a, In a (args F) -> defends F S a -> In a S.
Proof.
  intros F S. unfold t_cob. rewrite forallb_forall. split.
  - intros H a Ha Hd. specialize (H a Ha). apply orb_true_iff in H. destruct H as [H|H].
    + apply memb_In. exact H.
    + apply negb_true_iff in H. apply attackers_hit_defends in Hd. congruence.
  - intros H a Ha. apply orb_true_iff.
    destruct (subsetb (attackers F a) (hit F S)) eqn:E; [left|right; reflexivity].
    apply memb_In. apply H; [exact Ha|]. apply attackers_hit_defends. exact E.
Qed.

Lemma t_stb_spec : forall F S,
  t_stb F S = true <->
  forall a, In a (args F) -> ~ In a S -> exists b, In b S /\ att F b a.
Proof.
  intros F S. unfold t_stb. rewrite forallb_forall. split.
  - intros H a Ha Hn. specialize (H a Ha). apply orb_true_iff in H. destruct H as [H|H].
    + exfalso. apply Hn. apply memb_In. exact H.
    + apply in_hit. apply memb_In. exact H.
  - intros H a Ha. apply orb_true_iff. destruct (memb a S) eqn:E; [left; reflexivity|right].
    apply memb_In. apply in_hit. apply H; [exact Ha|]. apply memb_false. exact E.
Qed.

Theorem cert_cfs : forall F S, t_membersb F S && t_cfb F S = true <-> cfs F S.
Proof.
  intros F S. unfold t_membersb, cfs. rewrite andb_true_iff, subsetb_incl, t_cfb_cf.
  reflexivity.
Qed.

Theorem cert_adm : forall F S,
  t_membersb F S && t_cfb F S && t_admb F S = true <-> adm F S.
Proof.
  intros F S. unfold t_membersb, adm.
  rewrite !andb_true_iff, subsetb_incl, t_cfb_cf, t_admb_spec. tauto.
Qed.

Theorem cert_co : forall F S,
  t_membersb F S && t_cfb F S && t_admb F S && t_cob F S = true <-> co F S.
Proof.
  intros F S. unfold co. rewrite andb_true_iff, cert_adm, t_cob_spec. reflexivity.
Qed.

Theorem cert_st : forall F S,
  t_membersb F S && t_cfb F S && t_stb F S = true <-> st F S.
Proof.
  intros F S. unfold t_membersb, st.
  rewrite !andb_true_iff, subsetb_incl, t_cfb_cf, t_stb_spec. tauto.
Qed.

Theorem cert_gr : forall F S, wf F -> (t_grb F S = true <-> gr F S).
Proof. intros F S Hw. apply grb_fast_gr. exact Hw. Qed.

(* the test applied to a set returned for semantics s: passed by every extension (so a set that
   fails it is not one); exact for CO, ST, GR *)
Theorem poly_cert_test_necessary : forall s F S, wf F ->
  ext s F S -> poly_cert_test s F S = true.
Proof.
  intros s F S Hw H. unfold poly_cert_test.
  destruct s.
  - pose proof (gr_co F S Hw H) as Hc. apply cert_co in Hc.
    apply (cert_gr F S Hw) in H. rewrite !andb_true_iff in Hc. rewrite !andb_true_iff. tauto.
  - apply cert_co in H. rewrite !andb_true_iff in H. rewrite !andb_true_iff. tauto.
  - pose proof (pr_co F S Hw H) as Hc. apply cert_co in Hc.
    rewrite !andb_true_iff in Hc. rewrite !andb_true_iff. tauto.
  - pose proof (st_adm F S Hw H) as Ha. apply cert_adm in Ha. apply cert_st in H.
    rewrite !andb_true_iff in Ha, H. rewrite !andb_true_iff. tauto.
  - pose proof (sst_co F S Hw H) as Hc. apply cert_co in Hc.
    rewrite !andb_true_iff in Hc. rewrite !andb_true_iff. tauto.
  - pose proof (stg_cfs F S H) as Hc. apply cert_cfs in Hc. rewrite andb_true_r. exact Hc.
  - pose proof (idl_co F S Hw H) as Hc. apply cert_co in Hc.
    rewrite !andb_true_iff in Hc. rewrite !andb_true_iff. tauto.
Qed.

Theorem poly_cert_test_exact : forall s F S, wf F -> s = CO \/ s = ST \/ s = GR ->
  (poly_cert_test s F S = true <-> ext s F S).
Proof.
  intros s F S Hw Hs. split; [|apply poly_cert_test_necessary; exact Hw].
  unfold poly_cert_test. intros H. destruct Hs as [->|[->| ->]]; cbn [ext].
  - apply cert_co. rewrite !andb_true_iff in H. rewrite !andb_true_iff. tauto.
  - apply cert_st. rewrite !andb_true_iff in H. rewrite !andb_true_iff. tauto.
  - apply (cert_gr F S Hw). rewrite !andb_true_iff in H. tauto.
Qed.

(* what a certificate that passed the tests proves about the status *)
Theorem cert_cred_witness : forall F S A,
  co F S -> (exists a, In a A /\ In a S) -> wf F -> cred CO F A /\ cred PR F A.
Proof.
  intros F S A HS Hm Hw.
  assert (Hc : cred CO F A) by (exists S; split; [exact HS | exact Hm]).
  split; [exact Hc | apply (cred_co_pr F A Hw); exact Hc].
Qed.

Theorem cert_cred_witness_st : forall F S A,
  st F S -> (exists a, In a A /\ In a S) -> cred ST F A.
Proof. intros F S A HS Hm. exists S. split; [exact HS | exact Hm]. Qed.

Theorem cert_skep_counter : forall s F S A,
  ext s F S -> (forall a, In a A -> ~ In a S) -> ~ skep s F A.
Proof.
  intros s F S A HS Hn Hk. destruct (Hk S HS) as [a [HaA HaS]]. exact (Hn a HaA HaS).
Qed.

(* ------------------------------------------------------------------ *)
(** * 7. The unit propagation computes the grounded extension *)

(* invariant of the loop: G is inside the grounded extension, D is what G attacks *)
Definition prop_inv (F : af) (st : list nat * list nat) : Prop :=
  incl (fst st) (lfp F) /\
  forall x, In x (snd st) <-> exists b, In b (fst st) /\ att F b x.

Lemma lfp_closed : forall F a, In a (args F) -> defends F (lfp F) a -> In a (lfp F).
Proof.
  intros F a Ha Hd. apply (proj2 (lfp_fixpoint F a)). apply in_charf. split; assumption.
Qed.

Lemma prop_inv_init : forall F, prop_inv F ([], []).
Proof.
  intros F. split; cbn [fst snd].
  - intros a [].
  - intros x. split; [intros [] | intros [b [[] _]]].
Qed.

Lemma prop_step_fires : forall F G D a,
  prop_step F (G, D) a = (a :: G, attacked F a ++ D) \/ prop_step F (G, D) a = (G, D).
Proof.
  intros F G D a. unfold prop_step.
  destruct (negb (memb a G) && negb (memb a D) && subsetb (attackers F a) D);
    [left | right]; reflexivity.
Qed.

Lemma prop_step_inv : forall F st a, In a (args F) ->
  prop_inv F st -> prop_inv F (prop_step F st a).
Proof.
  intros F [G D] a Ha [HG HD]. cbn [fst snd] in HG, HD. unfold prop_step.
  destruct (negb (memb a G) && negb (memb a D) && subsetb (attackers F a) D) eqn:E;
    [|split; assumption].
  apply andb_true_iff in E. destruct E as [_ E]. apply subsetb_incl in E.
  assert (HaG : In a (lfp F)).
  { apply lfp_closed; [exact Ha|]. intros b Hb.
    assert (Hd : In b D) by (apply E; apply in_attackers; exact Hb).
    apply HD in Hd. destruct Hd as [c [Hc Hcb]]. exists c. split; [apply HG; exact Hc | exact Hcb]. }
  split; cbn [fst snd].
  - intros x [<-|Hx]; [exact HaG | apply HG; exact Hx].
  - intros x. rewrite in_app_iff. split.
    + intros [Hx|Hx].
      * exists a. split; [left; reflexivity | apply in_attacked; exact Hx].
      * apply HD in Hx. destruct Hx as [b [Hb Hbx]]. exists b. split; [right; exact Hb | exact Hbx].
    + intros [b [[<-|Hb] Hbx]].
      * left. apply in_attacked. exact Hbx.
      * right. apply HD. exists b. split; assumption.
Qed.

Lemma prop_step_mono : forall F st a, incl (fst st) (fst (prop_step F st a)).
Proof.
  intros F [G D] a. destruct (prop_step_fires F G D a) as [E|E]; rewrite E; cbn [fst].
  - apply incl_tl. apply incl_refl.
  - apply incl_refl.
Qed.

Lemma fold_step_inv : forall F l st, incl l (args F) ->
  prop_inv F st -> prop_inv F (fold_left (prop_step F) l st).
Proof.
  intros F l. induction l as [|a l IH]; intros st Hl Hi; cbn [fold_left]; [exact Hi|].
  apply IH.
  - intros x Hx. apply Hl. right. exact Hx.
  - apply prop_step_inv; [apply Hl; left; reflexivity | exact Hi].
Qed.

Lemma fold_step_mono : forall F l st, incl (fst st) (fst (fold_left (prop_step F) l st)).
Proof.
  intros F l. induction l as [|a l IH]; intros st; cbn [fold_left]; [apply incl_refl|].
  apply (incl_tran (prop_step_mono F st a)). apply IH.
Qed.

(* an argument defended by the current G is in G after its own step *)
Lemma prop_step_takes : forall F st a, In a (args F) -> prop_inv F st ->
  defends F (fst st) a -> In a (fst (prop_step F st a)).
Proof.
  intros F [G D] a Ha [HG HD] Hd. cbn [fst snd] in HG, HD, Hd. unfold prop_step.
  destruct (memb a G) eqn:EG; cbn [negb andb].
  { cbn [fst]. apply memb_In. exact EG. }
  assert (ED : memb a D = false).
  { apply memb_false. intros HaD. apply HD in HaD. destruct HaD as [b [Hb Hba]].
    assert (HaL : In a (lfp F)).
    { apply lfp_closed; [exact Ha|]. apply (defends_mono F G (lfp F) a HG Hd). }
    exact (lfp_cf F b a (HG b Hb) HaL Hba). }
  rewrite ED. cbn [negb andb].
  assert (ES : subsetb (attackers F a) D = true).
  { apply subsetb_incl. intros b Hb. apply in_attackers in Hb. apply HD. apply Hd. exact Hb. }
  rewrite ES. cbn [fst]. left. reflexivity.
Qed.

Lemma fold_step_takes : forall F l st a, incl l (args F) -> prop_inv F st ->
  In a l -> defends F (fst st) a -> In a (fst (fold_left (prop_step F) l st)).
Proof.
  intros F l. induction l as [|x l IH]; intros st a Hl Hi Ha Hd; [destruct Ha|].
  cbn [fold_left].
  assert (Hx : In x (args F)) by (apply Hl; left; reflexivity).
  assert (Hl' : incl l (args F)) by (intros y Hy; apply Hl; right; exact Hy).
  destruct Ha as [<-|Ha].
  - apply (fold_step_mono F l (prop_step F st x)). apply prop_step_takes; assumption.
  - apply IH; [exact Hl' | apply prop_step_inv; assumption | exact Ha |].
    apply (defends_mono F (fst st)); [apply prop_step_mono | exact Hd].
Qed.

Lemma prop_sweep_inv : forall F st, prop_inv F st -> prop_inv F (prop_sweep F st).
Proof. intros F st. unfold prop_sweep. apply fold_step_inv. apply incl_refl. Qed.

(* one sweep applies the characteristic function at least once *)
Lemma prop_sweep_charf : forall F st, prop_inv F st ->
  incl (charf F (fst st)) (fst (prop_sweep F st)).
Proof.
  intros F st Hi a Ha. apply in_charf in Ha. destruct Ha as [Ha Hd].
  unfold prop_sweep. apply fold_step_takes; [apply incl_refl | exact Hi | exact Ha | exact Hd].
Qed.

Lemma prop_iter_inv : forall F k st, prop_inv F st -> prop_inv F (prop_iter F k st).
Proof.
  intros F k. induction k as [|k IH]; intros st Hi; cbn [prop_iter]; [exact Hi|].
  apply IH. apply prop_sweep_inv. exact Hi.
Qed.

Lemma prop_iter_mono : forall F k st, incl (fst st) (fst (prop_iter F k st)).
Proof.
  intros F k. induction k as [|k IH]; intros st; cbn [prop_iter]; [apply incl_refl|].
  apply (incl_tran (fold_step_mono F (args F) st)). apply IH.
Qed.

Lemma prop_iter_above : forall F k st X, prop_inv F st -> incl X (fst st) ->
  incl (iter_charf F k X) (fst (prop_iter F k st)).
Proof.
  intros F k. induction k as [|k IH]; intros st X Hi HX; cbn [prop_iter iter_charf]; [exact HX|].
  apply IH; [apply prop_sweep_inv; exact Hi|].
  apply (incl_tran (charf_mono F X (fst st) HX)). apply prop_sweep_charf. exact Hi.
Qed.

(* every number of sweeps from the number of arguments on gives G = grounded extension,
   D = the arguments it attacks *)
Theorem prop_iter_grounded : forall F k, length (args F) <= k ->
  seteq (fst (prop_iter F k ([], []))) (lfp F) /\
  forall x, In x (snd (prop_iter F k ([], []))) <-> exists b, In b (lfp F) /\ att F b x.
Proof.
  intros F k Hk.
  pose proof (prop_iter_inv F k ([], []) (prop_inv_init F)) as [HG HD].
  assert (E : seteq (fst (prop_iter F k ([], []))) (lfp F)).
  { apply seteq_incl_both; [exact HG|].
    intros a Ha. apply (prop_iter_above F k ([], []) [] (prop_inv_init F) (incl_refl _)).
    apply (proj2 (iter_charf_stationary F k Hk a)). exact Ha. }
  split; [exact E|]. intros x. rewrite HD. split.
  - intros [b [Hb Hbx]]. exists b. split; [apply E; exact Hb | exact Hbx].
  - intros [b [Hb Hbx]]. exists b. split; [apply E; exact Hb | exact Hbx].
Qed.

Theorem prop_ground_grounded : forall F G D, prop_ground F = (G, D) ->
  seteq G (lfp F) /\ forall x, In x D <-> exists b, In b (lfp F) /\ att F b x.
Proof.
  intros F G D E.
  pose proof (prop_iter_grounded F (Datatypes.S (length (args F))) (Nat.le_succ_diag_r _)) as H.
  unfold prop_ground in E. rewrite E in H. exact H.
Qed.

(* the python loop stops at the first sweep that changes nothing: any such state reached from the
   empty one is the grounded extension *)
Theorem prop_fixpoint_grounded : forall F st, prop_inv F st ->
  seteq (fst (prop_sweep F st)) (fst st) ->
  seteq (fst st) (lfp F) /\ forall x, In x (snd st) <-> exists b, In b (lfp F) /\ att F b x.
Proof.
  intros F st Hi Hfix. destruct Hi as [HG HD].
  assert (E : seteq (fst st) (lfp F)).
  { apply seteq_incl_both; [exact HG|]. apply lfp_least_prefix.
    intros a Ha. apply Hfix. apply prop_sweep_charf; [split; assumption | exact Ha]. }
  split; [exact E|]. intros x. rewrite HD. split.
  - intros [b [Hb Hbx]]. exists b. split; [apply E; exact Hb | exact Hbx].
  - intros [b [Hb Hbx]]. exists b. split; [apply E; exact Hb | exact Hbx].
Qed.

(* the vocabulary of the rules, computed by the propagation *)
Corollary prop_ground_vocabulary : forall F G D, prop_ground F = (G, D) ->
  (forall a, memb a G = memb a (lfp F)) /\ (forall a, memb a D = defeatedb F a).
Proof.
  intros F G D E. destruct (prop_ground_grounded F G D E) as [HG HD]. split; intros a.
  - apply bool_eq_iff. rewrite !memb_In. apply HG.
  - apply bool_eq_iff. rewrite memb_In, defeatedb_spec. apply HD.
Qed.

(* compact frameworks (ids 0..n-1, attacks between them) are well formed *)
Lemma wf_compact : forall n l, atts_ok n l -> wf (compact n l).
Proof.
  intros n l H. split; cbn [compact args atts].
  - apply seq_NoDup.
  - intros a b Hab. destruct (H a b Hab) as [Ha Hb]. split; apply in_seq; lia.
Qed.

(* ------------------------------------------------------------------ *)
(** * 8. The statements in the form of Properties/C03poly.v *)

Theorem poly_grounded_member_accepted : forall F a, wf F -> In a (lfp F) ->
  (forall S, co F S -> In a S) /\
  (forall s S, s <> STG -> ext s F S -> In a S) /\
  (forall s, s <> STG -> skep s F [a]) /\
  (forall s, s <> STG -> s <> ST -> cred s F [a]).
Proof.
  intros F a Hw Ha.
  assert (Hm : exists x, In x [a] /\ In x (lfp F)) by (exists a; split; [left; reflexivity | exact Ha]).
  split; [intros S HS; apply (grounded_in_complete F S a Ha HS)|].
  split; [intros s S Hs HS; apply (grounded_in_ext s F S a Hw Hs Ha HS)|].
  split.
  - intros s Hs. apply grounded_skep; assumption.
  - intros s Hs Hs'. apply grounded_cred; assumption.
Qed.

Theorem poly_defeated_rejected : forall F a b, wf F -> In b (lfp F) -> att F b a ->
  (forall S, co F S -> ~ In a S) /\
  (forall s S, s <> STG -> ext s F S -> ~ In a S) /\
  (forall s, s <> STG -> ~ cred s F [a]) /\
  (forall s, s <> STG -> s <> ST -> ~ skep s F [a]).
Proof.
  intros F a b Hw Hb Hba.
  assert (Hd : forall x, In x [a] -> exists c, In c (lfp F) /\ att F c x).
  { intros x [<-|[]]. exists b. split; assumption. }
  split; [intros S HS; apply (defeated_not_in_complete F S a b Hb Hba HS)|].
  split; [intros s S Hs HS; apply (defeated_not_in_ext s F S a b Hw Hs Hb Hba HS)|].
  split.
  - intros s Hs. apply defeated_not_cred; assumption.
  - intros s Hs Hs'. apply defeated_not_skep; assumption.
Qed.

Theorem poly_grounded_stable_unique : forall F, wf F ->
  (forall a, In a (args F) -> In a (lfp F) \/ exists b, In b (lfp F) /\ att F b a) ->
  forall s,
  (forall S, ext s F S <-> (forall a, In a S <-> In a (lfp F))) /\
  (forall A, cred s F A <-> exists a, In a A /\ In a (lfp F)) /\
  (forall A, skep s F A <-> exists a, In a A /\ In a (lfp F)).
Proof.
  intros F Hw Hg s.
  assert (Hst : st F (lfp F)) by (apply g_stableb_spec; apply g_stableb_prop; exact Hg).
  split; [intros S; apply (g_stable_unique s F S Hw Hst)|].
  split; intros A.
  - apply (g_stable_status s Cred F A Hw Hst).
  - apply (g_stable_status s Skep F A Hw Hst).
Qed.

Theorem poly_lists : forall F s A, wf F -> s <> STG ->
  ((exists a, In a A /\ In a (lfp F)) -> skep s F A /\ (s <> ST -> cred s F A)) /\
  ((forall a, In a A -> exists b, In b (lfp F) /\ att F b a) ->
   ~ cred s F A /\ (s <> ST -> ~ skep s F A)).
Proof.
  intros F s A Hw Hs. split; intros H; split.
  - apply grounded_skep; assumption.
  - intros Hs'. apply grounded_cred; assumption.
  - apply defeated_not_cred; assumption.
  - intros Hs'. apply defeated_not_skep; assumption.
Qed.

(* the oracle's reading of "complete" and "stable", in words *)
Theorem co_reading : forall F S,
  co F S <->
  incl S (args F) /\
  (forall a b, In a S -> In b S -> ~ att F a b) /\
  (forall a b, In a S -> att F b a -> exists c, In c S /\ att F c b) /\
  (forall a, In a (args F) -> ~ In a S ->
     exists b, att F b a /\ forall c, In c S -> ~ att F c b).
Proof.
  intros F S. split.
  - intros HS. pose proof HS as [[Hi [Hcf Hd]] Hc]. split; [exact Hi|]. split; [exact Hcf|].
    split; [intros a b Ha Hba; apply (Hd a Ha b Hba)|].
    intros a Ha Hn. apply cert_co in HS. apply andb_true_iff in HS. destruct HS as [_ HS].
    unfold t_cob in HS. rewrite forallb_forall in HS. specialize (HS a Ha).
    apply orb_true_iff in HS. destruct HS as [HS|HS].
    { exfalso. apply Hn. apply memb_In. exact HS. }
    apply negb_true_iff in HS. unfold subsetb in HS.
    destruct (forallb_false_ex _ _ _ HS) as [b [Hb Hm]].
    exists b. split; [apply in_attackers; exact Hb|].
    intros c Hc' Hcb. apply memb_false in Hm. apply Hm. apply in_hit. exists c. split; assumption.
  - intros [Hi [Hcf [Hd Hc]]]. split.
    + split; [exact Hi|]. split; [exact Hcf|]. intros a Ha b Hba. apply (Hd a b Ha Hba).
    + intros a Ha Hdef. destruct (in_dec Nat.eq_dec a S) as [Hin|Hn]; [exact Hin|exfalso].
      destruct (Hc a Ha Hn) as [b [Hba Hno]]. destruct (Hdef b Hba) as [c [Hc' Hcb]].
      exact (Hno c Hc' Hcb).
Qed.

Theorem st_reading : forall F S,
  st F S <->
  incl S (args F) /\
  (forall a b, In a S -> In b S -> ~ att F a b) /\
  (forall a, In a (args F) -> ~ In a S -> exists b, In b S /\ att F b a).
Proof. intros F S. unfold st, cf. reflexivity. Qed.

Theorem poly_certificate_tests : forall F S,
  (t_membersb F S && t_cfb F S = true <-> cfs F S) /\
  (t_membersb F S && t_cfb F S && t_admb F S = true <-> adm F S) /\
  (t_membersb F S && t_cfb F S && t_admb F S && t_cob F S = true <-> co F S) /\
  (t_membersb F S && t_cfb F S && t_stb F S = true <-> st F S).
Proof.
  intros F S. split; [apply cert_cfs|]. split; [apply cert_adm|].
  split; [apply cert_co | apply cert_st].
Qed.

Theorem poly_certificate_sem : forall s F S, wf F ->
  (ext s F S -> poly_cert_test s F S = true) /\
  (s = CO \/ s = ST \/ s = GR -> poly_cert_test s F S = true -> ext s F S).
Proof.
  intros s F S Hw. split.
  - apply poly_cert_test_necessary. exact Hw.
  - intros Hs. apply (poly_cert_test_exact s F S Hw Hs).
Qed.

Theorem poly_status_all_sound : forall F s q A b, wf F ->
  (poly_status F s q A = Some b -> statusb s q F A = b /\ (b = true <-> status s q F A)) /\
  (poly_status_full F s q A = Some b -> statusb s q F A = b /\ (b = true <-> status s q F A)) /\
  (forall a, dyn_poly_status F s q a = Some b ->
     statusb s q F [a] = b /\ (b = true <-> status s q F [a])).
Proof.
  intros F s q A b Hw. split; [|split].
  - intros H. split; [apply poly_status_sound | apply poly_status_sound_prop]; assumption.
  - intros H. split; [apply poly_status_full_sound | apply poly_status_full_sound_prop]; assumption.
  - intros a H. split; [apply dyn_poly_status_sound | apply dyn_poly_status_sound_prop]; assumption.
Qed.

Theorem poly_propagation : forall F,
  (forall G D, prop_ground F = (G, D) ->
     (forall a, In a G <-> In a (lfp F)) /\
     (forall a, In a D <-> exists b, In b (lfp F) /\ att F b a)) /\
  (forall k G D, prop_iter F k ([], []) = (G, D) ->
     (forall a, In a (fst (prop_sweep F (G, D))) <-> In a G) ->
     (forall a, In a G <-> In a (lfp F)) /\
     (forall a, In a D <-> exists b, In b (lfp F) /\ att F b a)).
Proof.
  intros F. split.
  - intros G D E. exact (prop_ground_grounded F G D E).
  - intros k G D E Hfix.
    pose proof (prop_iter_inv F k ([], []) (prop_inv_init F)) as Hi. rewrite E in Hi.
    exact (prop_fixpoint_grounded F (G, D) Hi Hfix).
Qed.

Lemma wf_compactb : forall n l, atts_okb n l = true -> wf (compact n l).
Proof.
  intros n l H. apply wf_compact. intros a b Hab. unfold atts_okb in H.
  rewrite forallb_forall in H. specialize (H (a, b) Hab). cbn [fst snd] in H.
  apply andb_true_iff in H. destruct H as [H1 H2].
  apply Nat.ltb_lt in H1. apply Nat.ltb_lt in H2. split; assumption.
Qed.

Print Assumptions poly_status_sound.
Print Assumptions dyn_poly_status_sound.
Print Assumptions poly_status_full_sound.
Print Assumptions g_stable_unique.
Print Assumptions poly_cert_test_necessary.
Print Assumptions prop_ground_grounded.
Print Assumptions prop_fixpoint_grounded.
