(* C17 for the dynamic solvers (Model/Dynamic.v): an Unknown answer aborts the query, and a query
   that ends in any other way consumed no Unknown answer.  Stated RELATIVE to the program state
   the query starts in (the dynamic solvers keep one SAT session alive across queries): the events
   logged by the query itself are [new] with [rlog ps' = new ++ rlog ps].
   Part 1 re-proves the structural lemmas of Proofs/AbortProofs.v for an ARBITRARY pair of
   invariants (I for Done / Panic / OutOfFuel, IA for Abort) closed under the five primitives, for
   every function of Model/Solvers.v; part 2 does the same for every function of Model/Dynamic.v;
   part 3 instantiates the invariants with "the log is [new ++ base] and [new] has no Unknown" /
   "[new] is an Unknown answer on top of Unknown-free events". *)
From Crusta Require Import Sat.Cnf Sat.Prog Model.Store Model.Encoders Model.Graph Model.Solvers Model.Dynamic.
From Crusta Require Import Proofs.ProgLaws Proofs.AbortProofs.
Import ListNotations.
Open Scope prog_scope.

Section Gen.
Variable oracle : nat -> cnf -> list lit -> answer.
Variable thr : nat.
Variables I IA : Prog.st -> Prop.
Hypothesis I_new : forall s, I s -> I (st_new s).
Hypothesis I_reserve : forall s n, I s -> I (st_reserve s n).
Hypothesis I_add : forall s c, I s -> I (st_add s c).
Hypothesis I_nvars : forall s, I s -> I (st_nvars s).
Hypothesis I_solve : forall s a, I s ->
  match answer_of oracle s a with
  | Unknown => IA (st_solved oracle s a)
  | _ => I (st_solved oracle s a)
  end.

Notation P := (fun A (m : M A) => preserves I IA m).

(* ------------------------------------------------------------------------------------------ *)
(** * Part 1: Model/Solvers.v (same scripts as Proofs/AbortProofs.v) *)

Lemma p_ret A (a : A) : P A (ret a).            Proof. apply preserves_ret. Qed.
Lemma p_panic A : P A (@panic A).               Proof. apply preserves_panic. Qed.
Lemma p_oof A : P A (@out_of_fuel A).           Proof. apply preserves_oof. Qed.
Lemma p_bind A B (m : M A) (k : A -> M B) : P A m -> (forall a, P B (k a)) -> P B (bind m k).
Proof. apply preserves_bind. Qed.
Lemma p_new : P unit new_solver.                Proof. apply preserves_new_solver, I_new. Qed.
Lemma p_reserve n : P unit (reserve n).         Proof. apply preserves_reserve, I_reserve. Qed.
Lemma p_add c : P unit (add_clause c).          Proof. apply preserves_add_clause, I_add. Qed.
Lemma p_nvars : P nat n_vars.                   Proof. apply preserves_n_vars, I_nvars. Qed.
Lemma p_solve a : P _ (solve oracle a).         Proof. apply preserves_solve, I_solve. Qed.
Lemma p_adds cs : P unit (add_clauses cs).      Proof. apply preserves_add_clauses, I_add. Qed.

Ltac pstep :=
  first
    [ apply p_ret | apply p_panic | apply p_oof | apply p_new | apply p_reserve | apply p_add
    | apply p_nvars | apply p_solve | apply p_adds | assumption
    | apply p_bind; [|intros ?]
    | match goal with
      | |- preserves _ _ (match ?x with _ => _ end) => destruct x
      | |- preserves _ _ (if ?x then _ else _) => destruct x
      | |- preserves _ _ (let '(_, _) := ?x in _) => destruct x
      end ].
Ltac pauto := repeat pstep.

Lemma p_encode e range F : P unit (encode_m thr e range F).
Proof. unfold encode_m. pauto. Qed.
Lemma p_new_computer e n has g a2e fl : P _ (new_computer e n has g a2e fl).
Proof. unfold new_computer. pauto. Qed.
Lemma p_new_cc_computer e F fl : P _ (new_cc_computer e F fl).
Proof. unfold new_cc_computer. apply p_new_computer. Qed.
Lemma p_solve_c c a : P _ (solve_c oracle c a).
Proof. unfold solve_c. pauto. Qed.
Lemma p_increase c : P _ (increase_assumptions c).
Proof. unfold increase_assumptions. pauto. Qed.
Lemma p_discard_maximal c : P _ (discard_maximal c).
Proof. unfold discard_maximal. pauto. Qed.
Lemma p_discard_current c : P _ (discard_current c).
Proof. unfold discard_current. pauto. Qed.
Lemma p_new_search c : P _ (new_search oracle c).
Proof. unfold new_search. apply p_bind; [apply p_solve_c|intros ?; pauto]. Qed.
Lemma p_compute_next c : P _ (compute_next oracle c).
Proof.
  unfold compute_next. destruct (c_state c).
  - apply p_bind; [apply p_discard_maximal|intros _; apply p_new_search].
  - apply p_bind; [apply p_increase|intros a].
    apply p_bind; [apply p_solve_c|intros r; pauto].
  - apply p_new_search.
  - apply p_panic.
  - apply p_ret.
Qed.
Lemma p_discard_current_search c : P _ (discard_current_search c).
Proof. unfold discard_current_search. apply p_bind; [apply p_discard_current|intros _; apply p_ret]. Qed.
Lemma p_drop c : P _ (drop c).
Proof. unfold drop. apply p_add. Qed.
Lemma p_compute_maximal fuel c : P _ (compute_maximal oracle fuel c).
Proof.
  revert c. induction fuel as [|f IH]; intros c; cbn [compute_maximal]; [apply p_oof|].
  destruct (c_state c);
    try (apply p_bind; [apply p_compute_next|intros c'; apply IH]).
  apply p_bind; [apply p_drop|intros _; apply p_ret].
Qed.

Lemma p_ccs g : P _ (ccs_m g).            Proof. unfold ccs_m. pauto. Qed.
Lemma p_remaining g s : P _ (remaining_m g s). Proof. unfold remaining_m. pauto. Qed.
Lemma p_merged g al : P _ (merged_m g al). Proof. unfold merged_m. pauto. Qed.
Lemma p_locals c al : P _ (locals_m c al). Proof. unfold locals_m. pauto. Qed.
Lemma p_for_ccs A l (acc : A) f : (forall a c, P A (f a c)) -> P A (for_ccs l acc f).
Proof.
  intros Hf. revert acc. induction l as [|c r IH]; intros acc; cbn [for_ccs]; [apply p_ret|].
  apply p_bind; [apply Hf|intros a; apply IH].
Qed.

Lemma p_guarded e lam close : P _ lam -> P _ (guarded_disj oracle e lam close).
Proof.
  intros Hl. unfold guarded_disj. apply p_bind; [apply p_nvars|intros nv]. cbv zeta.
  apply p_bind; [exact Hl|intros la]. apply p_bind; [apply p_add|intros _].
  apply p_bind; [apply p_solve|intros r].
  apply p_bind; [destruct close; [apply p_add|apply p_ret]|intros _; apply p_ret].
Qed.
Lemma p_co_dc e g al : P _ (co_dc oracle thr e g al).
Proof.
  unfold co_dc. apply p_bind; [apply p_new|intros _]. apply p_bind; [apply p_merged|intros sc].
  cbv zeta. apply p_bind; [apply p_encode|intros _].
  apply p_bind; [apply p_guarded, p_locals|intros r; apply p_ret].
Qed.
Lemma p_co_dc_cert e g al : P _ (co_dc_cert oracle thr e g al).
Proof.
  unfold co_dc_cert. apply p_bind; [apply p_merged|intros sc]. cbv zeta.
  apply p_bind; [apply p_new|intros _]. apply p_bind; [apply p_encode|intros _].
  apply p_bind; [apply p_guarded, p_locals|intros r].
  destruct r; [|apply p_ret]. apply p_bind; [apply p_remaining|intros o; apply p_ret].
Qed.

Lemma p_st_cc c in_cc pol : P _ (st_cc oracle thr c in_cc pol).
Proof.
  unfold st_cc. apply p_bind; [apply p_new|intros _]. apply p_bind; [apply p_encode|intros _].
  destruct in_cc as [|x xs].
  - apply p_bind; [apply p_solve|intros m; apply p_ret].
  - destruct pol.
    + apply p_bind; [apply p_guarded, p_ret|intros m1]. destruct m1; [apply p_ret|].
      apply p_bind; [apply p_solve|intros m2; apply p_ret].
    + apply p_bind; [apply p_solve|intros m; apply p_ret].
Qed.
Lemma p_st_se g : P _ (st_se oracle thr g).
Proof.
  unfold st_se. apply p_bind; [apply p_ccs|intros ccs].
  generalize (@nil nat) as merged.
  induction ccs as [|c r IH]; intros merged; cbn [st_se_loop]; [apply p_ret|].
  apply p_bind; [apply p_st_cc|intros m]. destruct m as [[m acc]|]; [apply IH|apply p_ret].
Qed.
Lemma p_st_accept g al pol sou : P _ (st_accept oracle thr g al pol sou).
Proof.
  unfold st_accept. apply p_bind; [apply p_ccs|intros ccs].
  generalize (negb pol) as found. generalize (@nil nat) as merged.
  induction ccs as [|c r IH]; intros merged found; cbn [st_accept_loop];
    [destruct found; apply p_ret|].
  apply p_bind; [apply p_st_cc|intros m]. destruct m as [[m acc]|]; [apply IH|apply p_ret].
Qed.

Lemma p_pr_max_in_cc fuel e c : P _ (pr_max_in_cc oracle thr fuel e c).
Proof.
  unfold pr_max_in_cc. apply p_bind; [apply p_new|intros _]. apply p_bind; [apply p_encode|intros _].
  apply p_bind; [apply p_new_cc_computer|intros k].
  apply p_bind; [apply p_compute_maximal|intros l; apply p_ret].
Qed.
Lemma p_pr_se fuel e g : P _ (pr_se oracle thr fuel e g).
Proof.
  unfold pr_se. apply p_bind; [apply p_ccs|intros ccs].
  apply p_bind; [|intros r; apply p_ret]. apply p_for_ccs. intros merged c.
  apply p_bind; [apply p_pr_max_in_cc|intros l; apply p_ret].
Qed.
Lemma p_pr_ds_loop fuel F la sc k : P _ (pr_ds_loop oracle fuel F la sc k).
Proof.
  revert k. induction fuel as [|f IH]; intros k; cbn [pr_ds_loop]; [apply p_oof|].
  apply p_bind; [apply p_compute_next|intros k'].
  destruct (c_state k'); try apply IH.
  - destruct (negb (meets la (c_cur k'))); [|apply IH].
    apply p_bind; [apply p_drop|intros _; apply p_ret].
  - destruct (meets la (c_cur k')).
    + apply p_bind; [apply p_discard_current_search|intros k''; apply IH].
    + destruct (sc && _); [|apply IH]. apply p_bind; [apply p_drop|intros _; apply p_ret].
  - apply p_bind; [apply p_drop|intros _; apply p_ret].
Qed.
Lemma p_pr_ds_in_cc fuel e c al sc : P _ (pr_ds_in_cc oracle thr fuel e c al sc).
Proof.
  unfold pr_ds_in_cc. apply p_bind; [apply p_locals|intros la]. apply p_bind; [apply p_new|intros _].
  apply p_bind; [apply p_encode|intros _]. apply p_bind; [apply p_new_cc_computer|intros k].
  apply p_pr_ds_loop.
Qed.
Lemma p_pr_ds fuel e g al : P _ (pr_ds oracle thr fuel e g al).
Proof.
  unfold pr_ds. apply p_bind; [apply p_merged|intros sc].
  apply p_bind; [apply p_pr_ds_in_cc|intros r; apply p_ret].
Qed.
Lemma p_pr_ds_cert fuel e g al : P _ (pr_ds_cert oracle thr fuel e g al).
Proof.
  unfold pr_ds_cert. apply p_bind; [apply p_merged|intros sc].
  apply p_bind; [apply p_pr_ds_in_cc|intros r].
  destruct r as [[|] [ce|]]; try apply p_panic; try apply p_ret.
  apply p_bind; [apply p_remaining|intros others].
  apply p_bind; [|intros m; apply p_ret]. apply p_for_ccs. intros merged c.
  apply p_bind; [apply p_pr_max_in_cc|intros l; apply p_ret].
Qed.

Lemma p_rg_max_in_cc fuel e c : P _ (rg_max_in_cc oracle thr fuel e c).
Proof.
  unfold rg_max_in_cc. apply p_bind; [apply p_new|intros _]. apply p_bind; [apply p_encode|intros _].
  apply p_bind; [apply p_new_cc_computer|intros k].
  apply p_bind; [apply p_compute_maximal|intros l; apply p_ret].
Qed.
Lemma p_rg_se fuel e g : P _ (rg_se oracle thr fuel e g).
Proof.
  unfold rg_se. apply p_bind; [apply p_ccs|intros ccs].
  apply p_bind; [|intros r; apply p_ret]. apply p_for_ccs. intros merged c.
  apply p_bind; [apply p_rg_max_in_cc|intros l; apply p_ret].
Qed.
Lemma p_rg_loop fuel e n la cred k : P _ (rg_loop oracle fuel e n la cred k).
Proof.
  revert k. induction fuel as [|f IH]; intros k; cbn [rg_loop]; [apply p_oof|].
  apply p_bind; [apply p_compute_next|intros k'].
  destruct (c_state k'); try apply IH.
  - destruct (_ || _).
    + apply p_bind; [apply p_drop|intros _; apply p_ret].
    + destruct (split_in_range k') as [inrg notr]. destruct cred.
      * apply p_bind; [apply p_nvars|intros nv]. apply p_bind; [apply p_add|intros _].
        apply p_bind; [apply p_solve|intros r]. apply p_bind; [apply p_add|intros _].
        destruct r; [|apply IH]. apply p_bind; [apply p_drop|intros _; apply p_ret].
      * apply p_bind; [apply p_solve|intros r].
        destruct r; [|apply IH]. apply p_bind; [apply p_drop|intros _; apply p_ret].
  - apply p_bind; [apply p_drop|intros _; apply p_ret].
Qed.
Lemma p_rg_in_cc fuel e c al cred : P _ (rg_in_cc oracle thr fuel e c al cred).
Proof.
  unfold rg_in_cc. apply p_bind; [apply p_locals|intros la]. apply p_bind; [apply p_new|intros _].
  apply p_bind; [apply p_encode|intros _]. apply p_bind; [apply p_new_cc_computer|intros k].
  apply p_rg_loop.
Qed.
Lemma p_rg_accept fuel e g al cred : P _ (rg_accept oracle thr fuel e g al cred).
Proof.
  unfold rg_accept. apply p_bind; [apply p_merged|intros sc].
  apply p_bind; [apply p_rg_in_cc|intros r; apply p_ret].
Qed.
Lemma p_rg_accept_cert fuel e g al cred : P _ (rg_accept_cert oracle thr fuel e g al cred).
Proof.
  unfold rg_accept_cert. apply p_bind; [apply p_merged|intros sc].
  apply p_bind; [apply p_rg_in_cc|intros r]. destruct (snd r); [|apply p_ret].
  apply p_bind; [apply p_remaining|intros others].
  apply p_bind; [|intros m; apply p_ret]. apply p_for_ccs. intros merged c.
  apply p_bind; [apply p_rg_max_in_cc|intros l'; apply p_ret].
Qed.

Lemma p_id_enum_loop fuel n ngr k ia nia np : P _ (id_enum_loop oracle fuel n ngr k ia nia np).
Proof.
  revert k ia nia np. induction fuel as [|f IH]; intros k ia nia np; cbn [id_enum_loop]; [apply p_oof|].
  apply p_bind; [apply p_compute_next|intros k'].
  destruct (c_state k'); try apply IH.
  - cbv zeta. destruct (Nat.eqb _ ngr); [|apply IH].
    apply p_bind; [apply p_drop|intros _; apply p_ret].
  - apply p_bind; [apply p_drop|intros _; apply p_ret].
Qed.
Lemma p_id_in_all fuel e F ngr : P _ (id_in_all oracle thr fuel e F ngr).
Proof.
  unfold id_in_all. apply p_bind; [apply p_encode|intros _].
  apply p_bind; [apply p_new_cc_computer|intros k]. apply p_id_enum_loop.
Qed.
Lemma p_id_maximal_allowed fuel e F ia : P _ (id_maximal_allowed oracle fuel e F ia).
Proof.
  unfold id_maximal_allowed. apply p_bind; [apply p_new_cc_computer|intros k]. apply p_compute_maximal.
Qed.
Lemma p_id_ext_for_cc fuel e F : P _ (id_ext_for_cc oracle thr fuel e F).
Proof.
  unfold id_ext_for_cc. cbv zeta. apply p_bind; [apply p_new|intros _].
  apply p_bind; [apply p_id_in_all|intros r]. destruct r as [[ia nia] np].
  destruct (Nat.eqb nia _); [apply p_ret|]. destruct (Nat.eqb np 1); [apply p_ret|].
  apply p_id_maximal_allowed.
Qed.
Lemma p_id_se fuel e g : P _ (id_se oracle thr fuel e g).
Proof.
  unfold id_se. apply p_bind; [apply p_ccs|intros ccs].
  apply p_bind; [|intros r; apply p_ret]. apply p_for_ccs. intros merged c.
  apply p_bind; [apply p_new|intros _]. apply p_bind; [apply p_encode|intros _].
  apply p_bind; [apply p_id_ext_for_cc|intros l; apply p_ret].
Qed.
Lemma p_id_cred_for_cc fuel e F la : P _ (id_cred_for_cc oracle thr fuel e F la).
Proof.
  unfold id_cred_for_cc. cbv zeta. apply p_bind; [apply p_new|intros _].
  apply p_bind; [apply p_id_in_all|intros r]. destruct r as [[ia nia] np].
  destruct (forallb _ la); [apply p_ret|].
  destruct (Nat.eqb nia _); [apply p_ret|]. destruct (Nat.eqb np 1); [apply p_ret|].
  apply p_bind; [apply p_id_maximal_allowed|intros l; apply p_ret].
Qed.
Lemma p_id_dc fuel e g al : P _ (id_dc oracle thr fuel e g al).
Proof.
  unfold id_dc. apply p_bind; [apply p_merged|intros sc]. apply p_bind; [apply p_locals|intros la].
  apply p_bind; [apply p_id_cred_for_cc|intros r; apply p_ret].
Qed.
Lemma p_id_dc_cert fuel e g al : P _ (id_dc_cert oracle thr fuel e g al).
Proof.
  unfold id_dc_cert. apply p_bind; [apply p_merged|intros sc]. apply p_bind; [apply p_locals|intros la].
  apply p_bind; [apply p_id_cred_for_cc|intros r].
  destruct r as [[|] [ce|]]; try apply p_ret.
  apply p_bind; [apply p_remaining|intros others].
  apply p_bind; [|intros m; apply p_ret]. apply p_for_ccs. intros merged c.
  apply p_bind; [apply p_id_ext_for_cc|intros l; apply p_ret].
Qed.
Lemma p_id_ds_cert fuel e g al : P _ (id_ds_cert oracle thr fuel e g al).
Proof.
  unfold id_ds_cert. apply p_bind; [apply p_id_se|intros r].
  destruct r; [|apply p_panic]. destruct (meets al l); apply p_ret.
Qed.

Theorem run_query_preserves fuel s q cert e g al :
  P _ (run_query oracle thr fuel s q cert e g al).
Proof.
  unfold run_query.
  destruct s, q; try apply p_panic; try apply p_ret;
    try (destruct cert);
    repeat first
      [ apply p_ret
      | apply p_co_dc | apply p_co_dc_cert | apply p_st_se | apply p_st_accept
      | apply p_pr_se | apply p_pr_ds | apply p_pr_ds_cert | apply p_rg_se | apply p_rg_accept
      | apply p_rg_accept_cert | apply p_id_se | apply p_id_dc | apply p_id_dc_cert | apply p_id_ds_cert
      | apply p_bind; [|intros ?] ].
Qed.

(* ------------------------------------------------------------------------------------------ *)
(** * Part 2: Model/Dynamic.v *)
Section Dyn.
Variable L : Type.
Variable leqb : L -> L -> bool.

Lemma p_opt_m A (o : option A) : P _ (opt_m o).
Proof. unfold opt_m. pauto. Qed.
Lemma p_unwrap_ok A (r : A * result) : P _ (unwrap_ok r).
Proof. unfold unwrap_ok. pauto. Qed.
Lemma p_fold_m A B (f : A -> B -> M A) l a : (forall a x, P _ (f a x)) -> P _ (fold_m f l a).
Proof.
  intros Hf. revert a. induction l as [|x r IH]; intros a; cbn [fold_m]; [apply p_ret|].
  apply p_bind; [apply Hf|intros a'; apply IH].
Qed.

Lemma p_new_solver_var vars t : P _ (new_solver_var vars t).
Proof. unfold new_solver_var. pauto. Qed.
Lemma p_alloc_arg_vars sm vars id : P _ (alloc_arg_vars sm vars id).
Proof.
  unfold alloc_arg_vars. apply p_bind; [apply p_new_solver_var|intros r1].
  destruct sm; try apply p_ret;
    (apply p_bind; [apply p_new_solver_var|intros r2]; pauto).
Qed.
Lemma p_remove_selector e s : P _ (remove_selector e s).
Proof. unfold remove_selector. pauto. Qed.
Lemma p_update_attacks_to af e t : P _ (update_attacks_to L af e t).
Proof.
  unfold update_attacks_to. destruct (negb (e_upd e)); [apply p_ret|].
  destruct (nth_error (e_a2s e) t) as [os|]; [|apply p_panic].
  apply p_bind.
  - destruct os as [s|]; [|apply p_ret].
    apply p_bind; [apply p_remove_selector|intros e'; apply p_ret].
  - intros e1. apply p_bind; [apply p_new_solver_var|intros r]. destruct r as [vars sv].
    cbv zeta. pauto.
Qed.
Lemma p_enc_new_argument af e l : P _ (enc_new_argument L leqb af e l).
Proof.
  unfold enc_new_argument. destruct (get_argument L leqb af l); [apply p_ret|]. cbv zeta.
  destruct (max_argument_id L _); [|apply p_panic].
  apply p_bind; [apply p_alloc_arg_vars|intros r]. cbv zeta.
  apply p_bind; [apply p_update_attacks_to|intros e4; apply p_ret].
Qed.
Lemma p_enc_remove_argument af e l : P _ (enc_remove_argument L leqb af e l).
Proof.
  unfold enc_remove_argument. destruct (get_argument L leqb af l) as [arg_id|]; [|apply p_ret]. cbv zeta.
  destruct (Store.remove_argument L leqb af l) as [af' [| |]]; try apply p_ret.
  destruct (tbl_var (e_a2v e) arg_id) as [v|]; [|apply p_panic]. cbv zeta.
  apply p_bind.
  - destruct (nth_error _ arg_id) as [[s|]|]; [|apply p_ret|apply p_panic].
    apply p_bind; [apply p_remove_selector|intros e'; apply p_ret].
  - intros e2. destruct (Nat.ltb v _); [|apply p_panic].
    apply p_bind; [apply p_add|intros _].
    apply p_bind; [apply p_fold_m; intros; apply p_update_attacks_to|intros e4; apply p_ret].
Qed.
Lemma p_enc_new_attack af e a b : P _ (enc_new_attack L leqb af e a b).
Proof.
  unfold enc_new_attack. destruct (Store.new_attack L leqb af a b) as [af' [| |]];
    [|apply p_ret|apply p_panic].
  destruct (get_argument L leqb af' b); [|apply p_panic].
  apply p_bind; [apply p_update_attacks_to|intros e'; apply p_ret].
Qed.
Lemma p_enc_remove_attack af e a b : P _ (enc_remove_attack L leqb af e a b).
Proof.
  unfold enc_remove_attack. destruct (Store.remove_attack L leqb af a b) as [af' [| |]];
    [|apply p_ret|apply p_panic].
  destruct (get_argument L leqb af' b); [|apply p_panic].
  apply p_bind; [apply p_update_attacks_to|intros e'; apply p_ret].
Qed.

Lemma p_att_new_argument af e l : P _ (att_new_argument L leqb af e l).
Proof. unfold att_new_argument. cbv zeta. pauto. Qed.
Lemma p_att_remove_argument af e l : P _ (att_remove_argument L leqb af e l).
Proof. unfold att_remove_argument. pauto. Qed.
Lemma p_st_inner n v atk cl : P _ (st_inner n v atk cl).
Proof.
  revert cl. induction atk as [|b r IH]; intros cl; cbn [st_inner]; [apply p_ret|].
  apply p_bind; [apply p_nvars|intros nv]. cbv zeta.
  do 4 (apply p_bind; [apply p_add|intros _]). apply IH.
Qed.
Lemma p_co_inner1 n v atk cl : P _ (co_inner1 n v atk cl).
Proof.
  revert cl. induction atk as [|b r IH]; intros cl; cbn [co_inner1]; [apply p_ret|].
  apply p_bind; [apply p_nvars|intros nv]. cbv zeta.
  do 4 (apply p_bind; [apply p_add|intros _]). apply IH.
Qed.
Lemma p_co_inner2 n v atk cl : P _ (co_inner2 n v atk cl).
Proof.
  revert cl. induction atk as [|b r IH]; intros cl; cbn [co_inner2]; [apply p_ret|].
  apply p_bind; [apply p_nvars|intros nv]. cbv zeta.
  do 4 (apply p_bind; [apply p_add|intros _]). apply IH.
Qed.
Lemma p_att_update_encoding af e : P _ (att_update_encoding L af e).
Proof.
  unfold att_update_encoding. destruct (negb (a_need e)); [apply p_ret|]. cbv zeta.
  destruct (a_sem e); [| |apply p_panic].
  - apply p_bind; [apply p_new|intros _]. apply p_bind; [apply p_reserve|intros _].
    destruct (Nat.ltb _ _); [apply p_panic|].
    apply p_bind.
    { apply p_fold_m. intros _ v. apply p_bind; [apply p_add|intros _].
      apply p_bind; [apply p_co_inner1|intros cl; apply p_add]. }
    intros _. apply p_bind; [|intros _; apply p_ret].
    apply p_fold_m. intros _ v. apply p_bind; [apply p_co_inner2|intros cl; apply p_add].
  - apply p_bind; [apply p_new|intros _]. apply p_bind; [apply p_reserve|intros _].
    destruct (Nat.ltb _ _); [apply p_panic|].
    apply p_bind; [|intros _; apply p_ret].
    apply p_fold_m. intros _ v. apply p_bind; [apply p_st_inner|intros cl; apply p_add].
Qed.

Lemma p_std_replay st ev : P _ (std_replay L leqb st ev).
Proof.
  unfold std_replay. destruct st as [[af e] upd]. destruct ev; try apply p_ret.
  - apply p_bind; [apply p_enc_new_argument|intros r].
    apply p_bind; [apply p_opt_m|intros id; apply p_ret].
  - apply p_bind; [apply p_opt_m|intros id]. cbv zeta.
    apply p_bind; [apply p_enc_remove_argument|intros r].
    apply p_bind; [apply p_unwrap_ok|intros p; apply p_ret].
  - apply p_bind; [apply p_enc_new_attack|intros r].
    apply p_bind; [apply p_unwrap_ok|intros p].
    apply p_bind; [apply p_opt_m|intros id; apply p_ret].
  - apply p_bind; [apply p_enc_remove_attack|intros r].
    apply p_bind; [apply p_unwrap_ok|intros p].
    apply p_bind; [apply p_opt_m|intros id; apply p_ret].
Qed.
Lemma p_att_replay st ev : P _ (att_replay L leqb st ev).
Proof.
  unfold att_replay. destruct st as [af e]. destruct ev; try apply p_ret.
  - apply p_att_new_argument.
  - apply p_bind; [apply p_att_remove_argument|intros r; apply p_unwrap_ok].
  - apply p_bind; [apply p_unwrap_ok|intros p; apply p_ret].
  - apply p_bind; [apply p_unwrap_ok|intros p; apply p_ret].
Qed.
Lemma p_update_encoding af b : P _ (update_encoding L leqb af b).
Proof.
  unfold update_encoding. cbv zeta. destruct (b_enc L b) as [e|e].
  - apply p_bind; [apply p_fold_m; intros; apply p_std_replay|intros st].
    destruct st as [[af' e'] upd].
    apply p_bind; [apply p_fold_m; intros; apply p_update_attacks_to|intros e''; apply p_ret].
  - apply p_bind; [apply p_fold_m; intros; apply p_att_replay|intros st].
    apply p_bind; [apply p_att_update_encoding|intros e'; apply p_ret].
Qed.

Lemma p_x_assumptions af x : P _ (x_assumptions L af x).
Proof. unfold x_assumptions. destruct x; [apply p_ret|apply p_opt_m]. Qed.
Lemma p_x_arg_var af x l : P _ (x_arg_var L leqb af x l).
Proof. unfold x_arg_var. apply p_bind; [apply p_opt_m|intros id; apply p_opt_m]. Qed.

Lemma p_dc_query s l : P _ (dc_query oracle L leqb s l).
Proof.
  unfold dc_query. destruct (is_cred L leqb (s_buf L s) l) as [[b|] [e|]]; try apply p_ret;
    (apply p_bind; [apply p_update_encoding|intros r]; destruct r as [af buf]; cbv zeta;
     apply p_bind; [apply p_x_assumptions|intros asm];
     apply p_bind; [apply p_x_arg_var|intros v];
     apply p_bind; [apply p_solve|intros m]; destruct m as [m|]; [|apply p_ret];
     apply p_bind; [apply p_opt_m|intros acc; apply p_ret]).
Qed.
Lemma p_st_ds_query s l : P _ (st_ds_query oracle L leqb s l).
Proof.
  unfold st_ds_query. destruct (is_skep L leqb (s_buf L s) l) as [[b|] [e|]]; try apply p_ret;
    (apply p_bind; [apply p_update_encoding|intros r]; destruct r as [af buf]; cbv zeta;
     apply p_bind; [apply p_x_assumptions|intros asm];
     apply p_bind; [apply p_x_arg_var|intros v];
     apply p_bind; [apply p_solve|intros m]; destruct m as [m|];
     [apply p_bind; [apply p_opt_m|intros acc; apply p_ret]
     |apply p_bind; [apply p_opt_m|intros id];
      apply p_bind; [apply p_opt_m|intros refused; apply p_ret]]).
Qed.

Lemma p_k_solve e a : P _ (k_solve oracle e a).
Proof. unfold k_solve. pauto. Qed.
Lemma p_k_new_search e k : P _ (k_new_search oracle e k).
Proof. unfold k_new_search. apply p_bind; [apply p_k_solve|intros r; apply p_ret]. Qed.
Lemma p_k_discard af e k : P _ (k_discard L af e k).
Proof. unfold k_discard. apply p_bind; [apply p_opt_m|intros sp; apply p_add]. Qed.
Lemma p_k_compute_next af e k : P _ (k_compute_next oracle L af e k).
Proof.
  unfold k_compute_next. destruct (k_state k).
  - apply p_bind; [apply p_k_discard|intros _; apply p_k_new_search].
  - apply p_bind; [apply p_opt_m|intros sp]. apply p_bind; [apply p_add|intros _].
    apply p_bind; [apply p_k_solve|intros r; apply p_ret].
  - apply p_k_new_search.
  - apply p_panic.
  - apply p_ret.
Qed.
Lemma p_pr_loop fuel af e arg_id k fm ia mi : P _ (pr_loop oracle L fuel af e arg_id k fm ia mi).
Proof.
  revert k fm ia mi. induction fuel as [|f IH]; intros k fm ia mi; cbn [pr_loop]; [apply p_oof|].
  apply p_bind; [apply p_k_compute_next|intros k']. cbv zeta.
  destruct (k_state k'); try apply IH.
  - destruct (negb _); [apply p_ret|apply IH].
  - destruct (memb arg_id (k_cur k')); [|apply IH].
    apply p_bind; [apply p_k_discard|intros _; apply IH].
  - apply p_ret.
Qed.
Lemma p_pr_ds_query fuel s l : P _ (pr_ds_query oracle L leqb fuel s l).
Proof.
  unfold pr_ds_query. destruct (is_skep L leqb (s_buf L s) l) as [[b|] [e|]]; try apply p_ret;
    (apply p_bind; [apply p_update_encoding|intros r]; destruct r as [af buf];
     destruct (b_enc L buf) as [e'|e']; [|apply p_panic];
     apply p_bind; [apply p_nvars|intros nv]; cbv zeta;
     apply p_bind; [apply p_opt_m|intros arg_id];
     apply p_bind; [apply p_pr_loop|intros res];
     destruct res as [[[[k result] acc_b] ref_b] ext];
     apply p_bind; [apply p_opt_m|intros acc];
     apply p_bind; [apply p_opt_m|intros refused];
     apply p_bind; [apply p_add|intros _; apply p_ret]).
Qed.

Lemma p_dyn_new k : P _ (dyn_new L leqb k).
Proof. unfold dyn_new. cbv zeta. destruct k; pauto. Qed.
Lemma p_outcome_answer o : P _ (outcome_answer o).
Proof. unfold outcome_answer. pauto. Qed.

Theorem dyn_query_preserves fuel s q cert l : P _ (dyn_query oracle L leqb thr fuel s q cert l).
Proof.
  unfold dyn_query.
  destruct (s_kind L s), q; try apply p_panic;
    try (apply p_bind; [first [apply p_dc_query|apply p_st_ds_query|apply p_pr_ds_query]
                       |intros r; apply p_ret]);
    (apply p_bind; [apply p_opt_m|intros id];
     apply p_bind; [apply run_query_preserves|intros o];
     apply p_bind; [apply p_outcome_answer|intros a; apply p_ret]).
Qed.

End Dyn.
End Gen.

(* ------------------------------------------------------------------------------------------ *)
(** * Part 3: the log invariants relative to a start state *)

(* the events logged since the log was [base] contain no Unknown answer / are an Unknown answer
   on top of events without Unknown answer *)
Definition clean_since (base : list (nat * event)) (s : Prog.st) : Prop :=
  exists new, rlog s = new ++ base /\ no_unknown new.
Definition aborted_since (base : list (nat * event)) (s : Prog.st) : Prop :=
  exists new, rlog s = new ++ base /\ aborted_log new.

Section Since.
Variable oracle : nat -> cnf -> list lit -> answer.
Variable base : list (nat * event).

Lemma cs_ev s e se c : (forall a, e <> ESolve a Unknown) ->
  clean_since base s -> clean_since base (log_ev e s se c).
Proof.
  intros He [new [E Hn]]. exists ((nsess s, e) :: new). split.
  - cbn [log_ev rlog]. rewrite E. reflexivity.
  - now apply nu_cons.
Qed.
Lemma cs_new s : clean_since base s -> clean_since base (st_new s).
Proof.
  intros [new [E Hn]]. exists ((S (nsess s), ENew) :: new). split.
  - cbn [st_new rlog]. rewrite E. reflexivity.
  - apply nu_cons; [discriminate|exact Hn].
Qed.
Lemma cs_reserve s n : clean_since base s -> clean_since base (st_reserve s n).
Proof. apply cs_ev. discriminate. Qed.
Lemma cs_add s c : clean_since base s -> clean_since base (st_add s c).
Proof. apply cs_ev. discriminate. Qed.
Lemma cs_nvars s : clean_since base s -> clean_since base (st_nvars s).
Proof. apply cs_ev. discriminate. Qed.
Lemma cs_solve s a : clean_since base s ->
  match answer_of oracle s a with
  | Unknown => aborted_since base (st_solved oracle s a)
  | _ => clean_since base (st_solved oracle s a)
  end.
Proof.
  intros H. unfold st_solved. destruct (answer_of oracle s a) eqn:E.
  - apply cs_ev; [discriminate|exact H].
  - apply cs_ev; [discriminate|exact H].
  - destruct H as [new [El Hn]]. exists ((nsess s, ESolve a Unknown) :: new). split.
    + cbn [log_ev rlog]. rewrite El. reflexivity.
    + exists (nsess s), a, new. split; [reflexivity|exact Hn].
Qed.
Lemma cs_start s : rlog s = base -> clean_since base s.
Proof. intros E. exists []. split; [exact E|constructor]. Qed.
End Since.

(* the generic consequence: any program that preserves the two invariants *)
Lemma since_result A (m : M A) (ps : Prog.st) :
  preserves (clean_since (rlog ps)) (aborted_since (rlog ps)) m ->
  match m ps with
  | Abort ps' => aborted_since (rlog ps) ps'
  | Done _ ps' | Panic ps' | OutOfFuel ps' => clean_since (rlog ps) ps'
  end.
Proof.
  intros H. specialize (H ps (cs_start _ ps eq_refl)). unfold wp in H.
  destruct (m ps); exact H.
Qed.

(* the statements used by Properties/C17.v *)
Theorem dyn_unknown_aborts :
  forall oracle (L : Type) (leqb : L -> L -> bool) thr fuel (s : dsolver L) q cert l ps,
  match dyn_query oracle L leqb thr fuel s q cert l ps with
  | Abort ps' => exists new, rlog ps' = new ++ rlog ps /\ aborted_log new
  | Done _ ps' | Panic ps' | OutOfFuel ps' => exists new, rlog ps' = new ++ rlog ps /\ no_unknown new
  end.
Proof.
  intros oracle L leqb thr fuel s q cert l ps.
  apply (since_result _ (dyn_query oracle L leqb thr fuel s q cert l) ps).
  apply dyn_query_preserves;
    [apply cs_new|apply cs_reserve|apply cs_add|apply cs_nvars|apply cs_solve].
Qed.

(* creating a dynamic solver consumes no answer at all: it always returns *)
Theorem dyn_new_no_answer : forall (L : Type) (leqb : L -> L -> bool) k ps,
  exists s ps', dyn_new L leqb k ps = Done s ps' /\ calls ps' = calls ps /\
    exists new, rlog ps' = new ++ rlog ps /\ no_unknown new.
Proof.
  intros L leqb k ps.
  pose proof (since_result _ (dyn_new L leqb k) ps) as H.
  assert (Hp : preserves (clean_since (rlog ps)) (aborted_since (rlog ps)) (dyn_new L leqb k)).
  { apply p_dyn_new; first [apply cs_new|apply cs_reserve|apply cs_add|apply cs_nvars]. }
  specialize (H Hp). clear Hp.
  destruct k; cbn in H |- *; (eexists; eexists; split; [reflexivity|split; [reflexivity|exact H]]).
Qed.

(* the same relative form for the static entry point, from ANY start state (strengthens
   AbortProofs.unknown_aborts, which starts from [init_st]) *)
Theorem run_query_unknown_aborts_since : forall oracle thr fuel s q cert e g al ps,
  match run_query oracle thr fuel s q cert e g al ps with
  | Abort ps' => exists new, rlog ps' = new ++ rlog ps /\ aborted_log new
  | Done _ ps' | Panic ps' | OutOfFuel ps' => exists new, rlog ps' = new ++ rlog ps /\ no_unknown new
  end.
Proof.
  intros oracle thr fuel s q cert e g al ps.
  apply (since_result _ (run_query oracle thr fuel s q cert e g al) ps).
  apply run_query_preserves;
    [apply cs_new|apply cs_reserve|apply cs_add|apply cs_nvars|apply cs_solve].
Qed.

(* replay form: with a recorded answer script, if the events a dynamic query logged contain an
   Unknown answer then the query was aborted *)
Corollary dyn_script_unknown_aborts :
  forall script (L : Type) (leqb : L -> L -> bool) thr fuel (s : dsolver L) q cert l ps r,
  r = dyn_query (script_oracle script) L leqb thr fuel s q cert l ps ->
  (exists new k a, rlog (final_st r) = new ++ rlog ps /\ In (k, ESolve a Unknown) new) ->
  exists ps', r = Abort ps'.
Proof.
  intros script L leqb thr fuel s q cert l ps r Hr [new [k [a [El Hin]]]].
  pose proof (dyn_unknown_aborts (script_oracle script) L leqb thr fuel s q cert l ps) as H.
  rewrite <- Hr in H.
  destruct r as [o ps'|ps'|ps'|ps']; cbn [final_st] in El; try (now eexists); exfalso;
    destruct H as [new' [El' Hn]]; rewrite El in El'; apply app_inv_tail in El'; subst new';
    unfold no_unknown in Hn; rewrite Forall_forall in Hn; apply (Hn _ Hin); exists a; reflexivity.
Qed.

Print Assumptions dyn_unknown_aborts.
Print Assumptions dyn_new_no_answer.
Print Assumptions run_query_unknown_aborts_since.
Print Assumptions dyn_script_unknown_aborts.
