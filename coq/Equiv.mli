open AF
open Datatypes
open Graph
open List
open Nat
open Store

type 'a outcome =
| Done of 'a
| Panic
| OutOfFuel

val ofold : ('a1 -> 'a2 -> 'a1 outcome) -> 'a2 list -> 'a1 -> 'a1 outcome

type eqclass =
| Grounded of nat list
| GroundedDefeated of nat list
| NotGrounded of nat list

val members : eqclass -> nat list

val cl_first : eqclass -> nat option

val is_defeated_class : eqclass -> bool

val n_attacks_to : af -> nat list

type pstate = { p_cnt : nat list; p_prop : nat list; p_def : nat list }

val p_defend : nat list -> pstate -> nat -> pstate outcome

val p_attack_all :
  af -> nat list -> nat list -> pstate -> pstate option outcome

val p_loop :
  nat -> af -> nat list -> nat -> pstate -> (nat list * nat list) option
  outcome

val propagate_fuel : af -> nat list -> nat

val propagate :
  af -> nat list -> nat list -> (nat list * nat list) option outcome

val unattacked_args : nat list -> nat list

val compute_grounded_classes :
  af -> nat list -> (nat list * nat list) option outcome

type cstate = { c_classes : eqclass list; c_in : bool list;
                c_props : nat list option list }

val c_candidate :
  af -> nat list -> nat -> ((nat list * bool list) * nat list option list) ->
  nat -> ((nat list * bool list) * nat list option list) outcome

val c_step : af -> nat list -> cstate -> nat -> cstate outcome

val mark_all : nat list -> bool list -> bool list

val compute_classes : af -> eqclass list outcome

val firsts : eqclass list -> nat list option

val init_to_reduced_ids : nat -> eqclass list -> nat list

val reduce_attack :
  (nat -> nat) -> eqclass list -> nat list -> nat list -> nat fw ->
  (nat * nat) -> nat fw outcome

val reduce_af :
  (nat -> nat) -> af -> eqclass list -> (nat fw * nat list) outcome

type ecomp = { e_classes : eqclass list; e_reduced : nat fw; e_i2r : nat list }

val equivalency_new : (nat -> nat) -> af -> ecomp outcome

val init_to_reduced_arg : af -> ecomp -> nat -> (nat * nat) option

val reduced_arg_to_init_args : ecomp -> nat -> nat list option
