open AF
open BinNat
open BinNums
open Cnf
open Datatypes
open Encoders
open Graph
open List
open Nat
open Prog
open Solvers
open Store

type bytes = coq_N list

(** val beqb : bytes -> bytes -> bool **)

let rec beqb a b =
  match a with
  | [] -> (match b with
           | [] -> true
           | _ :: _ -> false)
  | x :: a' ->
    (match b with
     | [] -> false
     | y :: b' -> (&&) (N.eqb x y) (beqb a' b'))

(** val bmem : bytes -> bytes list -> bool **)

let bmem a l =
  existsb (beqb a) l

(** val nl : coq_N **)

let nl =
  Npos (Coq_xO (Coq_xI (Coq_xO Coq_xH)))

(** val space : coq_N **)

let space =
  Npos (Coq_xO (Coq_xO (Coq_xO (Coq_xO (Coq_xO Coq_xH)))))

(** val comma : coq_N **)

let comma =
  Npos (Coq_xO (Coq_xO (Coq_xI (Coq_xI (Coq_xO Coq_xH)))))

(** val hyphen : coq_N **)

let hyphen =
  Npos (Coq_xI (Coq_xO (Coq_xI (Coq_xI (Coq_xO Coq_xH)))))

(** val lower_byte : coq_N -> coq_N **)

let lower_byte b =
  if (&&)
       (N.leb (Npos (Coq_xI (Coq_xO (Coq_xO (Coq_xO (Coq_xO (Coq_xO
         Coq_xH))))))) b)
       (N.leb b (Npos (Coq_xO (Coq_xI (Coq_xO (Coq_xI (Coq_xI (Coq_xO
         Coq_xH))))))))
  then N.add b (Npos (Coq_xO (Coq_xO (Coq_xO (Coq_xO (Coq_xO Coq_xH))))))
  else b

(** val lower : bytes -> bytes **)

let lower w =
  map lower_byte w

(** val all_sems : sem list **)

let all_sems =
  GR :: (CO :: (PR :: (ST :: (SST :: (STG :: (ID :: []))))))

(** val all_queries : query list **)

let all_queries =
  QSE :: (QDC :: (QDS :: []))

(** val sem_name : sem -> bytes **)

let sem_name = function
| GR ->
  (Npos (Coq_xI (Coq_xI (Coq_xI (Coq_xO (Coq_xO (Coq_xO
    Coq_xH))))))) :: ((Npos (Coq_xO (Coq_xI (Coq_xO (Coq_xO (Coq_xI (Coq_xO
    Coq_xH))))))) :: [])
| CO ->
  (Npos (Coq_xI (Coq_xI (Coq_xO (Coq_xO (Coq_xO (Coq_xO
    Coq_xH))))))) :: ((Npos (Coq_xI (Coq_xI (Coq_xI (Coq_xI (Coq_xO (Coq_xO
    Coq_xH))))))) :: [])
| PR ->
  (Npos (Coq_xO (Coq_xO (Coq_xO (Coq_xO (Coq_xI (Coq_xO
    Coq_xH))))))) :: ((Npos (Coq_xO (Coq_xI (Coq_xO (Coq_xO (Coq_xI (Coq_xO
    Coq_xH))))))) :: [])
| ST ->
  (Npos (Coq_xI (Coq_xI (Coq_xO (Coq_xO (Coq_xI (Coq_xO
    Coq_xH))))))) :: ((Npos (Coq_xO (Coq_xO (Coq_xI (Coq_xO (Coq_xI (Coq_xO
    Coq_xH))))))) :: [])
| SST ->
  (Npos (Coq_xI (Coq_xI (Coq_xO (Coq_xO (Coq_xI (Coq_xO
    Coq_xH))))))) :: ((Npos (Coq_xI (Coq_xI (Coq_xO (Coq_xO (Coq_xI (Coq_xO
    Coq_xH))))))) :: ((Npos (Coq_xO (Coq_xO (Coq_xI (Coq_xO (Coq_xI (Coq_xO
    Coq_xH))))))) :: []))
| STG ->
  (Npos (Coq_xI (Coq_xI (Coq_xO (Coq_xO (Coq_xI (Coq_xO
    Coq_xH))))))) :: ((Npos (Coq_xO (Coq_xO (Coq_xI (Coq_xO (Coq_xI (Coq_xO
    Coq_xH))))))) :: ((Npos (Coq_xI (Coq_xI (Coq_xI (Coq_xO (Coq_xO (Coq_xO
    Coq_xH))))))) :: []))
| ID ->
  (Npos (Coq_xI (Coq_xO (Coq_xO (Coq_xI (Coq_xO (Coq_xO
    Coq_xH))))))) :: ((Npos (Coq_xO (Coq_xO (Coq_xI (Coq_xO (Coq_xO (Coq_xO
    Coq_xH))))))) :: [])

(** val query_name : query -> bytes **)

let query_name = function
| QSE ->
  (Npos (Coq_xI (Coq_xI (Coq_xO (Coq_xO (Coq_xI (Coq_xO
    Coq_xH))))))) :: ((Npos (Coq_xI (Coq_xO (Coq_xI (Coq_xO (Coq_xO (Coq_xO
    Coq_xH))))))) :: [])
| QDC ->
  (Npos (Coq_xO (Coq_xO (Coq_xI (Coq_xO (Coq_xO (Coq_xO
    Coq_xH))))))) :: ((Npos (Coq_xI (Coq_xI (Coq_xO (Coq_xO (Coq_xO (Coq_xO
    Coq_xH))))))) :: [])
| QDS ->
  (Npos (Coq_xO (Coq_xO (Coq_xI (Coq_xO (Coq_xO (Coq_xO
    Coq_xH))))))) :: ((Npos (Coq_xI (Coq_xI (Coq_xO (Coq_xO (Coq_xI (Coq_xO
    Coq_xH))))))) :: [])

(** val problem_string : query -> sem -> bytes **)

let problem_string q s =
  app (query_name q) (hyphen :: (sem_name s))

(** val problems_21 : bytes list **)

let problems_21 =
  flat_map (fun s -> map (fun q -> problem_string q s) all_queries) all_sems

(** val split_first : coq_N -> bytes -> (bytes * bytes) option **)

let rec split_first sep = function
| [] -> None
| x :: r ->
  if N.eqb x sep
  then Some ([], r)
  else (match split_first sep r with
        | Some p0 -> let (a, b) = p0 in Some ((x :: a), b)
        | None -> None)

(** val query_of_bytes : bytes -> query option **)

let query_of_bytes w =
  let l = lower w in
  if beqb l ((Npos (Coq_xI (Coq_xI (Coq_xO (Coq_xO (Coq_xI (Coq_xI
       Coq_xH))))))) :: ((Npos (Coq_xI (Coq_xO (Coq_xI (Coq_xO (Coq_xO
       (Coq_xI Coq_xH))))))) :: []))
  then Some QSE
  else if beqb l ((Npos (Coq_xO (Coq_xO (Coq_xI (Coq_xO (Coq_xO (Coq_xI
            Coq_xH))))))) :: ((Npos (Coq_xI (Coq_xI (Coq_xO (Coq_xO (Coq_xO
            (Coq_xI Coq_xH))))))) :: []))
       then Some QDC
       else if beqb l ((Npos (Coq_xO (Coq_xO (Coq_xI (Coq_xO (Coq_xO (Coq_xI
                 Coq_xH))))))) :: ((Npos (Coq_xI (Coq_xI (Coq_xO (Coq_xO
                 (Coq_xI (Coq_xI Coq_xH))))))) :: []))
            then Some QDS
            else None

(** val sem_of_bytes : bytes -> sem option **)

let sem_of_bytes w =
  let l = lower w in
  if beqb l ((Npos (Coq_xI (Coq_xI (Coq_xI (Coq_xO (Coq_xO (Coq_xI
       Coq_xH))))))) :: ((Npos (Coq_xO (Coq_xI (Coq_xO (Coq_xO (Coq_xI
       (Coq_xI Coq_xH))))))) :: []))
  then Some GR
  else if beqb l ((Npos (Coq_xI (Coq_xI (Coq_xO (Coq_xO (Coq_xO (Coq_xI
            Coq_xH))))))) :: ((Npos (Coq_xI (Coq_xI (Coq_xI (Coq_xI (Coq_xO
            (Coq_xI Coq_xH))))))) :: []))
       then Some CO
       else if beqb l ((Npos (Coq_xO (Coq_xO (Coq_xO (Coq_xO (Coq_xI (Coq_xI
                 Coq_xH))))))) :: ((Npos (Coq_xO (Coq_xI (Coq_xO (Coq_xO
                 (Coq_xI (Coq_xI Coq_xH))))))) :: []))
            then Some PR
            else if beqb l ((Npos (Coq_xI (Coq_xI (Coq_xO (Coq_xO (Coq_xI
                      (Coq_xI Coq_xH))))))) :: ((Npos (Coq_xO (Coq_xO (Coq_xI
                      (Coq_xO (Coq_xI (Coq_xI Coq_xH))))))) :: []))
                 then Some ST
                 else if beqb l ((Npos (Coq_xI (Coq_xI (Coq_xO (Coq_xO
                           (Coq_xI (Coq_xI Coq_xH))))))) :: ((Npos (Coq_xI
                           (Coq_xI (Coq_xO (Coq_xO (Coq_xI (Coq_xI
                           Coq_xH))))))) :: ((Npos (Coq_xO (Coq_xO (Coq_xI
                           (Coq_xO (Coq_xI (Coq_xI Coq_xH))))))) :: [])))
                      then Some SST
                      else if beqb l ((Npos (Coq_xI (Coq_xI (Coq_xO (Coq_xO
                                (Coq_xI (Coq_xI Coq_xH))))))) :: ((Npos
                                (Coq_xO (Coq_xO (Coq_xI (Coq_xO (Coq_xI
                                (Coq_xI Coq_xH))))))) :: ((Npos (Coq_xI
                                (Coq_xI (Coq_xI (Coq_xO (Coq_xO (Coq_xI
                                Coq_xH))))))) :: [])))
                           then Some STG
                           else if beqb l ((Npos (Coq_xI (Coq_xO (Coq_xO
                                     (Coq_xI (Coq_xO (Coq_xI
                                     Coq_xH))))))) :: ((Npos (Coq_xO (Coq_xO
                                     (Coq_xI (Coq_xO (Coq_xO (Coq_xI
                                     Coq_xH))))))) :: []))
                                then Some ID
                                else None

type perr =
| PNoHyphen
| PBadQuery
| PBadSem

(** val read_problem_string : bytes -> (perr, query * sem) sum **)

let read_problem_string p =
  match split_first hyphen p with
  | Some p0 ->
    let (a, b) = p0 in
    (match query_of_bytes a with
     | Some q ->
       (match sem_of_bytes b with
        | Some s -> Coq_inr (q, s)
        | None -> Coq_inl PBadSem)
     | None -> Coq_inl PBadQuery)
  | None -> Coq_inl PNoHyphen

(** val solver_for : query -> sem -> sem **)

let solver_for q s =
  match q with
  | QDC -> (match s with
            | PR -> CO
            | _ -> s)
  | _ -> (match s with
          | CO -> GR
          | _ -> s)

type encoding_opt =
| EncAbsent
| EncAuxVar
| EncExp
| EncHybrid

(** val encoder_for : bytes -> sem -> encoding_opt -> enc **)

let encoder_for raw s eo =
  let co_like = match eo with
                | EncExp -> ExpCo
                | EncHybrid -> HybCo
                | _ -> AuxCo
  in
  (match s with
   | GR -> StDefault
   | PR ->
     if beqb raw ((Npos (Coq_xI (Coq_xI (Coq_xO (Coq_xO (Coq_xI (Coq_xO
          Coq_xH))))))) :: ((Npos (Coq_xI (Coq_xO (Coq_xI (Coq_xO (Coq_xO
          (Coq_xO Coq_xH))))))) :: ((Npos (Coq_xI (Coq_xO (Coq_xI (Coq_xI
          (Coq_xO Coq_xH)))))) :: ((Npos (Coq_xO (Coq_xO (Coq_xO (Coq_xO
          (Coq_xI (Coq_xO Coq_xH))))))) :: ((Npos (Coq_xO (Coq_xI (Coq_xO
          (Coq_xO (Coq_xI (Coq_xO Coq_xH))))))) :: [])))))
     then (match eo with
           | EncExp -> ExpCo
           | EncHybrid -> HybCo
           | _ -> AuxAdm)
     else co_like
   | ST -> StDefault
   | STG -> (match eo with
             | EncAuxVar -> AuxCf
             | _ -> ExpCf)
   | _ -> co_like)

type reader =
| RApx
| RIccma23
| RIccma23Aba

type writer =
| WApx
| WIccma

(** val writer_of : reader -> writer **)

let writer_of = function
| RApx -> WApx
| _ -> WIccma

type instance = { i_g : gview; i_label : (nat -> bytes);
                  i_arg : (bytes -> nat option) }

(** val dec_fuel : nat -> coq_N -> bytes -> bytes **)

let rec dec_fuel fuel n acc =
  match fuel with
  | O -> acc
  | S f ->
    let acc' =
      (N.add (Npos (Coq_xO (Coq_xO (Coq_xO (Coq_xO (Coq_xI Coq_xH))))))
        (N.modulo n (Npos (Coq_xO (Coq_xI (Coq_xO Coq_xH)))))) :: acc
    in
    if N.eqb (N.div n (Npos (Coq_xO (Coq_xI (Coq_xO Coq_xH))))) N0
    then acc'
    else dec_fuel f (N.div n (Npos (Coq_xO (Coq_xI (Coq_xO Coq_xH))))) acc'

(** val dec : coq_N -> bytes **)

let dec n =
  dec_fuel (S (N.to_nat (N.log2 n))) n []

(** val is_digit : coq_N -> bool **)

let is_digit d =
  (&&) (N.leb (Npos (Coq_xO (Coq_xO (Coq_xO (Coq_xO (Coq_xI Coq_xH)))))) d)
    (N.leb d (Npos (Coq_xI (Coq_xO (Coq_xO (Coq_xI (Coq_xI Coq_xH)))))))

(** val digits_value : bytes -> coq_N -> coq_N option **)

let rec digits_value l acc =
  match l with
  | [] -> Some acc
  | d :: r ->
    if is_digit d
    then digits_value r
           (N.add (N.mul acc (Npos (Coq_xO (Coq_xI (Coq_xO Coq_xH)))))
             (N.sub d (Npos (Coq_xO (Coq_xO (Coq_xO (Coq_xO (Coq_xI
               Coq_xH))))))))
    else None

(** val usize_limit : coq_N **)

let usize_limit =
  Npos (Coq_xO (Coq_xO (Coq_xO (Coq_xO (Coq_xO (Coq_xO (Coq_xO (Coq_xO
    (Coq_xO (Coq_xO (Coq_xO (Coq_xO (Coq_xO (Coq_xO (Coq_xO (Coq_xO (Coq_xO
    (Coq_xO (Coq_xO (Coq_xO (Coq_xO (Coq_xO (Coq_xO (Coq_xO (Coq_xO (Coq_xO
    (Coq_xO (Coq_xO (Coq_xO (Coq_xO (Coq_xO (Coq_xO (Coq_xO (Coq_xO (Coq_xO
    (Coq_xO (Coq_xO (Coq_xO (Coq_xO (Coq_xO (Coq_xO (Coq_xO (Coq_xO (Coq_xO
    (Coq_xO (Coq_xO (Coq_xO (Coq_xO (Coq_xO (Coq_xO (Coq_xO (Coq_xO (Coq_xO
    (Coq_xO (Coq_xO (Coq_xO (Coq_xO (Coq_xO (Coq_xO (Coq_xO (Coq_xO (Coq_xO
    (Coq_xO (Coq_xO
    Coq_xH))))))))))))))))))))))))))))))))))))))))))))))))))))))))))))))))

(** val parse_usize : bytes -> coq_N option **)

let parse_usize a =
  let digits =
    match a with
    | [] -> []
    | x :: r ->
      if N.eqb x (Npos (Coq_xI (Coq_xI (Coq_xO (Coq_xI (Coq_xO Coq_xH))))))
      then r
      else a
  in
  (match digits with
   | [] -> None
   | _ :: _ ->
     (match digits_value digits N0 with
      | Some v -> if N.ltb v usize_limit then Some v else None
      | None -> None))

(** val label_of : 'a1 fw -> nat -> 'a1 option **)

let label_of f id =
  match find (fun p -> PeanoNat.Nat.eqb (fst p) id) (iter_args f) with
  | Some p -> Some (snd p)
  | None -> None

(** val iccma_instance : nat fw -> instance **)

let iccma_instance f =
  { i_g = (view_of_fw f); i_label = (fun id ->
    match label_of f id with
    | Some l -> dec (N.of_nat l)
    | None -> []); i_arg = (fun a ->
    match parse_usize a with
    | Some v ->
      if (&&) (N.ltb N0 v) (N.leb v (N.of_nat (n_arguments f)))
      then Some (sub (N.to_nat v) (S O))
      else None
    | None -> None) }

(** val apx_instance : bytes fw -> instance **)

let apx_instance f =
  { i_g = (view_of_fw f); i_label = (fun id ->
    match label_of f id with
    | Some l -> l
    | None -> []); i_arg = (fun a -> get_argument beqb f a) }

(** val status_line : bool -> bytes **)

let status_line b =
  app
    (if b
     then (Npos (Coq_xI (Coq_xO (Coq_xO (Coq_xI (Coq_xI (Coq_xO
            Coq_xH))))))) :: ((Npos (Coq_xI (Coq_xO (Coq_xI (Coq_xO (Coq_xO
            (Coq_xO Coq_xH))))))) :: ((Npos (Coq_xI (Coq_xI (Coq_xO (Coq_xO
            (Coq_xI (Coq_xO Coq_xH))))))) :: []))
     else (Npos (Coq_xO (Coq_xI (Coq_xI (Coq_xI (Coq_xO (Coq_xO
            Coq_xH))))))) :: ((Npos (Coq_xI (Coq_xI (Coq_xI (Coq_xI (Coq_xO
            (Coq_xO Coq_xH))))))) :: [])) (nl :: [])

(** val no_extension_line : bytes **)

let no_extension_line =
  app ((Npos (Coq_xO (Coq_xI (Coq_xI (Coq_xI (Coq_xO (Coq_xO
    Coq_xH))))))) :: ((Npos (Coq_xI (Coq_xI (Coq_xI (Coq_xI (Coq_xO (Coq_xO
    Coq_xH))))))) :: [])) (nl :: [])

(** val witness_line : writer -> (nat -> bytes) -> nat list -> bytes **)

let witness_line w label e =
  match w with
  | WApx ->
    (Npos (Coq_xI (Coq_xI (Coq_xO (Coq_xI (Coq_xI (Coq_xO
      Coq_xH))))))) :: (app
                         (match e with
                          | [] -> []
                          | a :: r ->
                            app (label a)
                              (flat_map (fun b -> comma :: (label b)) r))
                         ((Npos (Coq_xI (Coq_xO (Coq_xI (Coq_xI (Coq_xI
                         (Coq_xO Coq_xH))))))) :: (nl :: [])))
  | WIccma ->
    (Npos (Coq_xI (Coq_xI (Coq_xI (Coq_xO (Coq_xI (Coq_xI
      Coq_xH))))))) :: (app (flat_map (fun a -> space :: (label a)) e)
                         (nl :: []))

(** val render : writer -> (nat -> bytes) -> outcome -> bytes **)

let render w label = function
| OExt e0 ->
  (match e0 with
   | Some e -> witness_line w label e
   | None -> no_extension_line)
| OAcc (b, cert) ->
  (match cert with
   | Some c -> app (status_line b) (witness_line w label c)
   | None -> status_line b)

(** val problems_line : bytes **)

let problems_line =
  (Npos (Coq_xI (Coq_xI (Coq_xO (Coq_xI (Coq_xI (Coq_xO
    Coq_xH))))))) :: (app
                       (match problems_21 with
                        | [] -> []
                        | a :: r -> app a (flat_map (fun b -> comma :: b) r))
                       ((Npos (Coq_xI (Coq_xO (Coq_xI (Coq_xI (Coq_xI (Coq_xO
                       Coq_xH))))))) :: (nl :: [])))

type options = { o_reader : reader; o_problem : bytes; o_arg : bytes option;
                 o_cert : bool; o_encoding : encoding_opt;
                 o_logging_off : bool }

type cli_result =
| Exit0 of bytes
| ExitNonZero
| ModelOutOfFuel

type uerr =
| UReaderAba
| UFile
| UArg
| UProblem of perr
| UMissingArg

(** val validate :
    options -> instance option -> (uerr, ((instance * query) * sem) * nat
    list) sum **)

let validate o inst =
  match o.o_reader with
  | RApx ->
    (match inst with
     | Some i ->
       let go = fun arg ->
         match read_problem_string o.o_problem with
         | Coq_inl e -> Coq_inl (UProblem e)
         | Coq_inr p ->
           let (q, s) = p in
           (match q with
            | QSE -> Coq_inr (((i, q), s), [])
            | QDC ->
              (match arg with
               | Some a -> Coq_inr (((i, q), s), (a :: []))
               | None -> Coq_inl UMissingArg)
            | QDS ->
              (match arg with
               | Some a -> Coq_inr (((i, q), s), (a :: []))
               | None -> Coq_inl UMissingArg))
       in
       (match o.o_arg with
        | Some a ->
          (match i.i_arg a with
           | Some id -> go (Some id)
           | None -> Coq_inl UArg)
        | None -> go None)
     | None -> Coq_inl UFile)
  | RIccma23 ->
    (match inst with
     | Some i ->
       let go = fun arg ->
         match read_problem_string o.o_problem with
         | Coq_inl e -> Coq_inl (UProblem e)
         | Coq_inr p ->
           let (q, s) = p in
           (match q with
            | QSE -> Coq_inr (((i, q), s), [])
            | QDC ->
              (match arg with
               | Some a -> Coq_inr (((i, q), s), (a :: []))
               | None -> Coq_inl UMissingArg)
            | QDS ->
              (match arg with
               | Some a -> Coq_inr (((i, q), s), (a :: []))
               | None -> Coq_inl UMissingArg))
       in
       (match o.o_arg with
        | Some a ->
          (match i.i_arg a with
           | Some id -> go (Some id)
           | None -> Coq_inl UArg)
        | None -> go None)
     | None -> Coq_inl UFile)
  | RIccma23Aba -> Coq_inl UReaderAba

(** val query_prog :
    (nat -> cnf -> lit list -> answer) -> nat -> nat -> options -> instance
    -> query -> sem -> nat list -> outcome coq_M **)

let query_prog oracle thr fuel o i q s al =
  run_query oracle thr fuel (solver_for q s) q o.o_cert
    (encoder_for o.o_problem s o.o_encoding) i.i_g al

(** val run_traced :
    (nat -> cnf -> lit list -> answer) -> nat -> discipline -> nat -> options
    -> instance option -> cli_result * (nat * event) list **)

let run_traced oracle thr d fuel o inst =
  match validate o inst with
  | Coq_inl _ -> (ExitNonZero, [])
  | Coq_inr p ->
    let (p0, al) = p in
    let (p1, s) = p0 in
    let (i, q) = p1 in
    let r = run d (query_prog oracle thr fuel o i q s al) in
    ((match r with
      | Done (out, _) -> Exit0 (render (writer_of o.o_reader) i.i_label out)
      | OutOfFuel _ -> ModelOutOfFuel
      | _ -> ExitNonZero), (log_of r))

(** val run :
    (nat -> cnf -> lit list -> answer) -> nat -> discipline -> nat -> options
    -> instance option -> cli_result **)

let run oracle thr d fuel o inst =
  fst (run_traced oracle thr d fuel o inst)

(** val run_script :
    answer list -> nat -> discipline -> nat -> options -> instance option ->
    cli_result **)

let run_script script thr d fuel o inst =
  run (script_oracle script) thr d fuel o inst

(** val common_args : bytes list **)

let common_args =
  ((Npos (Coq_xI (Coq_xO (Coq_xI (Coq_xI (Coq_xO Coq_xH)))))) :: ((Npos
    (Coq_xI (Coq_xO (Coq_xI (Coq_xI (Coq_xO Coq_xH)))))) :: ((Npos (Coq_xO
    (Coq_xO (Coq_xI (Coq_xI (Coq_xO (Coq_xI Coq_xH))))))) :: ((Npos (Coq_xI
    (Coq_xI (Coq_xI (Coq_xI (Coq_xO (Coq_xI Coq_xH))))))) :: ((Npos (Coq_xI
    (Coq_xI (Coq_xI (Coq_xO (Coq_xO (Coq_xI Coq_xH))))))) :: ((Npos (Coq_xI
    (Coq_xI (Coq_xI (Coq_xO (Coq_xO (Coq_xI Coq_xH))))))) :: ((Npos (Coq_xI
    (Coq_xO (Coq_xO (Coq_xI (Coq_xO (Coq_xI Coq_xH))))))) :: ((Npos (Coq_xO
    (Coq_xI (Coq_xI (Coq_xI (Coq_xO (Coq_xI Coq_xH))))))) :: ((Npos (Coq_xI
    (Coq_xI (Coq_xI (Coq_xO (Coq_xO (Coq_xI Coq_xH))))))) :: ((Npos (Coq_xI
    (Coq_xO (Coq_xI (Coq_xI (Coq_xO Coq_xH)))))) :: ((Npos (Coq_xO (Coq_xO
    (Coq_xI (Coq_xI (Coq_xO (Coq_xI Coq_xH))))))) :: ((Npos (Coq_xI (Coq_xO
    (Coq_xI (Coq_xO (Coq_xO (Coq_xI Coq_xH))))))) :: ((Npos (Coq_xO (Coq_xI
    (Coq_xI (Coq_xO (Coq_xI (Coq_xI Coq_xH))))))) :: ((Npos (Coq_xI (Coq_xO
    (Coq_xI (Coq_xO (Coq_xO (Coq_xI Coq_xH))))))) :: ((Npos (Coq_xO (Coq_xO
    (Coq_xI (Coq_xI (Coq_xO (Coq_xI
    Coq_xH))))))) :: []))))))))))))))) :: (((Npos (Coq_xI (Coq_xI (Coq_xI
    (Coq_xI (Coq_xO (Coq_xI Coq_xH))))))) :: ((Npos (Coq_xO (Coq_xI (Coq_xI
    (Coq_xO (Coq_xO (Coq_xI Coq_xH))))))) :: ((Npos (Coq_xO (Coq_xI (Coq_xI
    (Coq_xO (Coq_xO (Coq_xI Coq_xH))))))) :: []))) :: [])

(** val is_problems_only : bytes list -> bool **)

let is_problems_only = function
| [] -> false
| t :: l ->
  (match l with
   | [] ->
     beqb t ((Npos (Coq_xI (Coq_xO (Coq_xI (Coq_xI (Coq_xO
       Coq_xH)))))) :: ((Npos (Coq_xI (Coq_xO (Coq_xI (Coq_xI (Coq_xO
       Coq_xH)))))) :: ((Npos (Coq_xO (Coq_xO (Coq_xO (Coq_xO (Coq_xI (Coq_xI
       Coq_xH))))))) :: ((Npos (Coq_xO (Coq_xI (Coq_xO (Coq_xO (Coq_xI
       (Coq_xI Coq_xH))))))) :: ((Npos (Coq_xI (Coq_xI (Coq_xI (Coq_xI
       (Coq_xO (Coq_xI Coq_xH))))))) :: ((Npos (Coq_xO (Coq_xI (Coq_xO
       (Coq_xO (Coq_xO (Coq_xI Coq_xH))))))) :: ((Npos (Coq_xO (Coq_xO
       (Coq_xI (Coq_xI (Coq_xO (Coq_xI Coq_xH))))))) :: ((Npos (Coq_xI
       (Coq_xO (Coq_xI (Coq_xO (Coq_xO (Coq_xI Coq_xH))))))) :: ((Npos
       (Coq_xI (Coq_xO (Coq_xI (Coq_xI (Coq_xO (Coq_xI
       Coq_xH))))))) :: ((Npos (Coq_xI (Coq_xI (Coq_xO (Coq_xO (Coq_xI
       (Coq_xI Coq_xH))))))) :: []))))))))))
   | _ :: _ -> false)

(** val wrapper_argv : bytes list -> bytes list **)

let wrapper_argv real = match real with
| [] ->
  ((Npos (Coq_xI (Coq_xO (Coq_xO (Coq_xO (Coq_xO (Coq_xI
    Coq_xH))))))) :: ((Npos (Coq_xI (Coq_xO (Coq_xI (Coq_xO (Coq_xI (Coq_xI
    Coq_xH))))))) :: ((Npos (Coq_xO (Coq_xO (Coq_xI (Coq_xO (Coq_xI (Coq_xI
    Coq_xH))))))) :: ((Npos (Coq_xO (Coq_xO (Coq_xO (Coq_xI (Coq_xO (Coq_xI
    Coq_xH))))))) :: ((Npos (Coq_xI (Coq_xI (Coq_xI (Coq_xI (Coq_xO (Coq_xI
    Coq_xH))))))) :: ((Npos (Coq_xO (Coq_xI (Coq_xO (Coq_xO (Coq_xI (Coq_xI
    Coq_xH))))))) :: ((Npos (Coq_xI (Coq_xI (Coq_xO (Coq_xO (Coq_xI (Coq_xI
    Coq_xH))))))) :: []))))))) :: common_args
| _ :: _ ->
  if is_problems_only real
  then ((Npos (Coq_xO (Coq_xO (Coq_xO (Coq_xO (Coq_xI (Coq_xI
         Coq_xH))))))) :: ((Npos (Coq_xO (Coq_xI (Coq_xO (Coq_xO (Coq_xI
         (Coq_xI Coq_xH))))))) :: ((Npos (Coq_xI (Coq_xI (Coq_xI (Coq_xI
         (Coq_xO (Coq_xI Coq_xH))))))) :: ((Npos (Coq_xO (Coq_xI (Coq_xO
         (Coq_xO (Coq_xO (Coq_xI Coq_xH))))))) :: ((Npos (Coq_xO (Coq_xO
         (Coq_xI (Coq_xI (Coq_xO (Coq_xI Coq_xH))))))) :: ((Npos (Coq_xI
         (Coq_xO (Coq_xI (Coq_xO (Coq_xO (Coq_xI Coq_xH))))))) :: ((Npos
         (Coq_xI (Coq_xO (Coq_xI (Coq_xI (Coq_xO (Coq_xI
         Coq_xH))))))) :: ((Npos (Coq_xI (Coq_xI (Coq_xO (Coq_xO (Coq_xI
         (Coq_xI Coq_xH))))))) :: [])))))))) :: common_args
  else ((Npos (Coq_xI (Coq_xI (Coq_xO (Coq_xO (Coq_xI (Coq_xI
         Coq_xH))))))) :: ((Npos (Coq_xI (Coq_xI (Coq_xI (Coq_xI (Coq_xO
         (Coq_xI Coq_xH))))))) :: ((Npos (Coq_xO (Coq_xO (Coq_xI (Coq_xI
         (Coq_xO (Coq_xI Coq_xH))))))) :: ((Npos (Coq_xO (Coq_xI (Coq_xI
         (Coq_xO (Coq_xI (Coq_xI Coq_xH))))))) :: ((Npos (Coq_xI (Coq_xO
         (Coq_xI (Coq_xO (Coq_xO (Coq_xI
         Coq_xH))))))) :: []))))) :: (app real
                                       (app common_args (((Npos (Coq_xI
                                         (Coq_xO (Coq_xI (Coq_xI (Coq_xO
                                         Coq_xH)))))) :: ((Npos (Coq_xI
                                         (Coq_xO (Coq_xI (Coq_xI (Coq_xO
                                         Coq_xH)))))) :: ((Npos (Coq_xI
                                         (Coq_xI (Coq_xI (Coq_xO (Coq_xI
                                         (Coq_xI Coq_xH))))))) :: ((Npos
                                         (Coq_xI (Coq_xO (Coq_xO (Coq_xI
                                         (Coq_xO (Coq_xI
                                         Coq_xH))))))) :: ((Npos (Coq_xO
                                         (Coq_xO (Coq_xI (Coq_xO (Coq_xI
                                         (Coq_xI Coq_xH))))))) :: ((Npos
                                         (Coq_xO (Coq_xO (Coq_xO (Coq_xI
                                         (Coq_xO (Coq_xI
                                         Coq_xH))))))) :: ((Npos (Coq_xI
                                         (Coq_xO (Coq_xI (Coq_xI (Coq_xO
                                         Coq_xH)))))) :: ((Npos (Coq_xI
                                         (Coq_xI (Coq_xO (Coq_xO (Coq_xO
                                         (Coq_xI Coq_xH))))))) :: ((Npos
                                         (Coq_xI (Coq_xO (Coq_xI (Coq_xO
                                         (Coq_xO (Coq_xI
                                         Coq_xH))))))) :: ((Npos (Coq_xO
                                         (Coq_xI (Coq_xO (Coq_xO (Coq_xI
                                         (Coq_xI Coq_xH))))))) :: ((Npos
                                         (Coq_xO (Coq_xO (Coq_xI (Coq_xO
                                         (Coq_xI (Coq_xI
                                         Coq_xH))))))) :: ((Npos (Coq_xI
                                         (Coq_xO (Coq_xO (Coq_xI (Coq_xO
                                         (Coq_xI Coq_xH))))))) :: ((Npos
                                         (Coq_xO (Coq_xI (Coq_xI (Coq_xO
                                         (Coq_xO (Coq_xI
                                         Coq_xH))))))) :: ((Npos (Coq_xI
                                         (Coq_xO (Coq_xO (Coq_xI (Coq_xO
                                         (Coq_xI Coq_xH))))))) :: ((Npos
                                         (Coq_xI (Coq_xI (Coq_xO (Coq_xO
                                         (Coq_xO (Coq_xI
                                         Coq_xH))))))) :: ((Npos (Coq_xI
                                         (Coq_xO (Coq_xO (Coq_xO (Coq_xO
                                         (Coq_xI Coq_xH))))))) :: ((Npos
                                         (Coq_xO (Coq_xO (Coq_xI (Coq_xO
                                         (Coq_xI (Coq_xI
                                         Coq_xH))))))) :: ((Npos (Coq_xI
                                         (Coq_xO (Coq_xI (Coq_xO (Coq_xO
                                         (Coq_xI
                                         Coq_xH))))))) :: [])))))))))))))))))) :: (((Npos
                                         (Coq_xI (Coq_xO (Coq_xI (Coq_xI
                                         (Coq_xO Coq_xH)))))) :: ((Npos
                                         (Coq_xI (Coq_xO (Coq_xI (Coq_xI
                                         (Coq_xO Coq_xH)))))) :: ((Npos
                                         (Coq_xO (Coq_xI (Coq_xO (Coq_xO
                                         (Coq_xI (Coq_xI
                                         Coq_xH))))))) :: ((Npos (Coq_xI
                                         (Coq_xO (Coq_xI (Coq_xO (Coq_xO
                                         (Coq_xI Coq_xH))))))) :: ((Npos
                                         (Coq_xI (Coq_xO (Coq_xO (Coq_xO
                                         (Coq_xO (Coq_xI
                                         Coq_xH))))))) :: ((Npos (Coq_xO
                                         (Coq_xO (Coq_xI (Coq_xO (Coq_xO
                                         (Coq_xI Coq_xH))))))) :: ((Npos
                                         (Coq_xI (Coq_xO (Coq_xI (Coq_xO
                                         (Coq_xO (Coq_xI
                                         Coq_xH))))))) :: ((Npos (Coq_xO
                                         (Coq_xI (Coq_xO (Coq_xO (Coq_xI
                                         (Coq_xI
                                         Coq_xH))))))) :: [])))))))) :: (((Npos
                                         (Coq_xI (Coq_xO (Coq_xO (Coq_xI
                                         (Coq_xO (Coq_xI
                                         Coq_xH))))))) :: ((Npos (Coq_xI
                                         (Coq_xI (Coq_xO (Coq_xO (Coq_xO
                                         (Coq_xI Coq_xH))))))) :: ((Npos
                                         (Coq_xI (Coq_xI (Coq_xO (Coq_xO
                                         (Coq_xO (Coq_xI
                                         Coq_xH))))))) :: ((Npos (Coq_xI
                                         (Coq_xO (Coq_xI (Coq_xI (Coq_xO
                                         (Coq_xI Coq_xH))))))) :: ((Npos
                                         (Coq_xI (Coq_xO (Coq_xO (Coq_xO
                                         (Coq_xO (Coq_xI
                                         Coq_xH))))))) :: ((Npos (Coq_xO
                                         (Coq_xI (Coq_xO (Coq_xO (Coq_xI
                                         Coq_xH)))))) :: ((Npos (Coq_xI
                                         (Coq_xI (Coq_xO (Coq_xO (Coq_xI
                                         Coq_xH)))))) :: []))))))) :: [])))))

type popts = { p_f : bytes option; p_p : bytes option; p_a : bytes option;
               p_r : bytes option; p_enc : bytes option;
               p_log : bytes option; p_c : bool }

(** val popts_empty : popts **)

let popts_empty =
  { p_f = None; p_p = None; p_a = None; p_r = None; p_enc = None; p_log =
    None; p_c = false }

type optkey =
| KF
| KP
| KA
| KR
| KEnc
| KLog

(** val key_of : bool -> bytes -> optkey option **)

let key_of full t =
  if beqb t ((Npos (Coq_xI (Coq_xO (Coq_xI (Coq_xI (Coq_xO
       Coq_xH)))))) :: ((Npos (Coq_xO (Coq_xI (Coq_xI (Coq_xO (Coq_xO (Coq_xI
       Coq_xH))))))) :: []))
  then Some KF
  else if beqb t ((Npos (Coq_xI (Coq_xO (Coq_xI (Coq_xI (Coq_xO
            Coq_xH)))))) :: ((Npos (Coq_xO (Coq_xO (Coq_xO (Coq_xO (Coq_xI
            (Coq_xI Coq_xH))))))) :: []))
       then Some KP
       else if beqb t ((Npos (Coq_xI (Coq_xO (Coq_xI (Coq_xI (Coq_xO
                 Coq_xH)))))) :: ((Npos (Coq_xI (Coq_xO (Coq_xO (Coq_xO
                 (Coq_xO (Coq_xI Coq_xH))))))) :: []))
            then Some KA
            else if negb full
                 then None
                 else if (||)
                           (beqb t ((Npos (Coq_xI (Coq_xO (Coq_xI (Coq_xI
                             (Coq_xO Coq_xH)))))) :: ((Npos (Coq_xO (Coq_xI
                             (Coq_xO (Coq_xO (Coq_xI (Coq_xI
                             Coq_xH))))))) :: [])))
                           (beqb t ((Npos (Coq_xI (Coq_xO (Coq_xI (Coq_xI
                             (Coq_xO Coq_xH)))))) :: ((Npos (Coq_xI (Coq_xO
                             (Coq_xI (Coq_xI (Coq_xO Coq_xH)))))) :: ((Npos
                             (Coq_xO (Coq_xI (Coq_xO (Coq_xO (Coq_xI (Coq_xI
                             Coq_xH))))))) :: ((Npos (Coq_xI (Coq_xO (Coq_xI
                             (Coq_xO (Coq_xO (Coq_xI Coq_xH))))))) :: ((Npos
                             (Coq_xI (Coq_xO (Coq_xO (Coq_xO (Coq_xO (Coq_xI
                             Coq_xH))))))) :: ((Npos (Coq_xO (Coq_xO (Coq_xI
                             (Coq_xO (Coq_xO (Coq_xI Coq_xH))))))) :: ((Npos
                             (Coq_xI (Coq_xO (Coq_xI (Coq_xO (Coq_xO (Coq_xI
                             Coq_xH))))))) :: ((Npos (Coq_xO (Coq_xI (Coq_xO
                             (Coq_xO (Coq_xI (Coq_xI
                             Coq_xH))))))) :: [])))))))))
                      then Some KR
                      else if beqb t ((Npos (Coq_xI (Coq_xO (Coq_xI (Coq_xI
                                (Coq_xO Coq_xH)))))) :: ((Npos (Coq_xI
                                (Coq_xO (Coq_xI (Coq_xI (Coq_xO
                                Coq_xH)))))) :: ((Npos (Coq_xI (Coq_xO
                                (Coq_xI (Coq_xO (Coq_xO (Coq_xI
                                Coq_xH))))))) :: ((Npos (Coq_xO (Coq_xI
                                (Coq_xI (Coq_xI (Coq_xO (Coq_xI
                                Coq_xH))))))) :: ((Npos (Coq_xI (Coq_xI
                                (Coq_xO (Coq_xO (Coq_xO (Coq_xI
                                Coq_xH))))))) :: ((Npos (Coq_xI (Coq_xI
                                (Coq_xI (Coq_xI (Coq_xO (Coq_xI
                                Coq_xH))))))) :: ((Npos (Coq_xO (Coq_xO
                                (Coq_xI (Coq_xO (Coq_xO (Coq_xI
                                Coq_xH))))))) :: ((Npos (Coq_xI (Coq_xO
                                (Coq_xO (Coq_xI (Coq_xO (Coq_xI
                                Coq_xH))))))) :: ((Npos (Coq_xO (Coq_xI
                                (Coq_xI (Coq_xI (Coq_xO (Coq_xI
                                Coq_xH))))))) :: ((Npos (Coq_xI (Coq_xI
                                (Coq_xI (Coq_xO (Coq_xO (Coq_xI
                                Coq_xH))))))) :: []))))))))))
                           then Some KEnc
                           else if beqb t ((Npos (Coq_xI (Coq_xO (Coq_xI
                                     (Coq_xI (Coq_xO Coq_xH)))))) :: ((Npos
                                     (Coq_xI (Coq_xO (Coq_xI (Coq_xI (Coq_xO
                                     Coq_xH)))))) :: ((Npos (Coq_xO (Coq_xO
                                     (Coq_xI (Coq_xI (Coq_xO (Coq_xI
                                     Coq_xH))))))) :: ((Npos (Coq_xI (Coq_xI
                                     (Coq_xI (Coq_xI (Coq_xO (Coq_xI
                                     Coq_xH))))))) :: ((Npos (Coq_xI (Coq_xI
                                     (Coq_xI (Coq_xO (Coq_xO (Coq_xI
                                     Coq_xH))))))) :: ((Npos (Coq_xI (Coq_xI
                                     (Coq_xI (Coq_xO (Coq_xO (Coq_xI
                                     Coq_xH))))))) :: ((Npos (Coq_xI (Coq_xO
                                     (Coq_xO (Coq_xI (Coq_xO (Coq_xI
                                     Coq_xH))))))) :: ((Npos (Coq_xO (Coq_xI
                                     (Coq_xI (Coq_xI (Coq_xO (Coq_xI
                                     Coq_xH))))))) :: ((Npos (Coq_xI (Coq_xI
                                     (Coq_xI (Coq_xO (Coq_xO (Coq_xI
                                     Coq_xH))))))) :: ((Npos (Coq_xI (Coq_xO
                                     (Coq_xI (Coq_xI (Coq_xO
                                     Coq_xH)))))) :: ((Npos (Coq_xO (Coq_xO
                                     (Coq_xI (Coq_xI (Coq_xO (Coq_xI
                                     Coq_xH))))))) :: ((Npos (Coq_xI (Coq_xO
                                     (Coq_xI (Coq_xO (Coq_xO (Coq_xI
                                     Coq_xH))))))) :: ((Npos (Coq_xO (Coq_xI
                                     (Coq_xI (Coq_xO (Coq_xI (Coq_xI
                                     Coq_xH))))))) :: ((Npos (Coq_xI (Coq_xO
                                     (Coq_xI (Coq_xO (Coq_xO (Coq_xI
                                     Coq_xH))))))) :: ((Npos (Coq_xO (Coq_xO
                                     (Coq_xI (Coq_xI (Coq_xO (Coq_xI
                                     Coq_xH))))))) :: [])))))))))))))))
                                then Some KLog
                                else None

(** val get_key : optkey -> popts -> bytes option **)

let get_key k p =
  match k with
  | KF -> p.p_f
  | KP -> p.p_p
  | KA -> p.p_a
  | KR -> p.p_r
  | KEnc -> p.p_enc
  | KLog -> p.p_log

(** val set_key : optkey -> bytes -> popts -> popts **)

let set_key k v p =
  match k with
  | KF ->
    { p_f = (Some v); p_p = p.p_p; p_a = p.p_a; p_r = p.p_r; p_enc = p.p_enc;
      p_log = p.p_log; p_c = p.p_c }
  | KP ->
    { p_f = p.p_f; p_p = (Some v); p_a = p.p_a; p_r = p.p_r; p_enc = p.p_enc;
      p_log = p.p_log; p_c = p.p_c }
  | KA ->
    { p_f = p.p_f; p_p = p.p_p; p_a = (Some v); p_r = p.p_r; p_enc = p.p_enc;
      p_log = p.p_log; p_c = p.p_c }
  | KR ->
    { p_f = p.p_f; p_p = p.p_p; p_a = p.p_a; p_r = (Some v); p_enc = p.p_enc;
      p_log = p.p_log; p_c = p.p_c }
  | KEnc ->
    { p_f = p.p_f; p_p = p.p_p; p_a = p.p_a; p_r = p.p_r; p_enc = (Some v);
      p_log = p.p_log; p_c = p.p_c }
  | KLog ->
    { p_f = p.p_f; p_p = p.p_p; p_a = p.p_a; p_r = p.p_r; p_enc = p.p_enc;
      p_log = (Some v); p_c = p.p_c }

(** val set_c : popts -> popts **)

let set_c p =
  { p_f = p.p_f; p_p = p.p_p; p_a = p.p_a; p_r = p.p_r; p_enc = p.p_enc;
    p_log = p.p_log; p_c = true }

(** val readers_possible : bytes list **)

let readers_possible =
  ((Npos (Coq_xI (Coq_xO (Coq_xO (Coq_xO (Coq_xO (Coq_xI
    Coq_xH))))))) :: ((Npos (Coq_xO (Coq_xO (Coq_xO (Coq_xO (Coq_xI (Coq_xI
    Coq_xH))))))) :: ((Npos (Coq_xO (Coq_xO (Coq_xO (Coq_xI (Coq_xI (Coq_xI
    Coq_xH))))))) :: []))) :: (((Npos (Coq_xI (Coq_xO (Coq_xO (Coq_xI (Coq_xO
    (Coq_xI Coq_xH))))))) :: ((Npos (Coq_xI (Coq_xI (Coq_xO (Coq_xO (Coq_xO
    (Coq_xI Coq_xH))))))) :: ((Npos (Coq_xI (Coq_xI (Coq_xO (Coq_xO (Coq_xO
    (Coq_xI Coq_xH))))))) :: ((Npos (Coq_xI (Coq_xO (Coq_xI (Coq_xI (Coq_xO
    (Coq_xI Coq_xH))))))) :: ((Npos (Coq_xI (Coq_xO (Coq_xO (Coq_xO (Coq_xO
    (Coq_xI Coq_xH))))))) :: ((Npos (Coq_xO (Coq_xI (Coq_xO (Coq_xO (Coq_xI
    Coq_xH)))))) :: ((Npos (Coq_xI (Coq_xI (Coq_xO (Coq_xO (Coq_xI
    Coq_xH)))))) :: []))))))) :: (((Npos (Coq_xI (Coq_xO (Coq_xO (Coq_xI
    (Coq_xO (Coq_xI Coq_xH))))))) :: ((Npos (Coq_xI (Coq_xI (Coq_xO (Coq_xO
    (Coq_xO (Coq_xI Coq_xH))))))) :: ((Npos (Coq_xI (Coq_xI (Coq_xO (Coq_xO
    (Coq_xO (Coq_xI Coq_xH))))))) :: ((Npos (Coq_xI (Coq_xO (Coq_xI (Coq_xI
    (Coq_xO (Coq_xI Coq_xH))))))) :: ((Npos (Coq_xI (Coq_xO (Coq_xO (Coq_xO
    (Coq_xO (Coq_xI Coq_xH))))))) :: ((Npos (Coq_xO (Coq_xI (Coq_xO (Coq_xO
    (Coq_xI Coq_xH)))))) :: ((Npos (Coq_xI (Coq_xI (Coq_xO (Coq_xO (Coq_xI
    Coq_xH)))))) :: ((Npos (Coq_xI (Coq_xI (Coq_xI (Coq_xI (Coq_xI (Coq_xO
    Coq_xH))))))) :: ((Npos (Coq_xI (Coq_xO (Coq_xO (Coq_xO (Coq_xO (Coq_xI
    Coq_xH))))))) :: ((Npos (Coq_xO (Coq_xI (Coq_xO (Coq_xO (Coq_xO (Coq_xI
    Coq_xH))))))) :: ((Npos (Coq_xI (Coq_xO (Coq_xO (Coq_xO (Coq_xO (Coq_xI
    Coq_xH))))))) :: []))))))))))) :: []))

(** val encodings_possible : bytes list **)

let encodings_possible =
  ((Npos (Coq_xI (Coq_xO (Coq_xO (Coq_xO (Coq_xO (Coq_xI
    Coq_xH))))))) :: ((Npos (Coq_xI (Coq_xO (Coq_xI (Coq_xO (Coq_xI (Coq_xI
    Coq_xH))))))) :: ((Npos (Coq_xO (Coq_xO (Coq_xO (Coq_xI (Coq_xI (Coq_xI
    Coq_xH))))))) :: ((Npos (Coq_xI (Coq_xI (Coq_xI (Coq_xI (Coq_xI (Coq_xO
    Coq_xH))))))) :: ((Npos (Coq_xO (Coq_xI (Coq_xI (Coq_xO (Coq_xI (Coq_xI
    Coq_xH))))))) :: ((Npos (Coq_xI (Coq_xO (Coq_xO (Coq_xO (Coq_xO (Coq_xI
    Coq_xH))))))) :: ((Npos (Coq_xO (Coq_xI (Coq_xO (Coq_xO (Coq_xI (Coq_xI
    Coq_xH))))))) :: []))))))) :: (((Npos (Coq_xI (Coq_xO (Coq_xI (Coq_xO
    (Coq_xO (Coq_xI Coq_xH))))))) :: ((Npos (Coq_xO (Coq_xO (Coq_xO (Coq_xI
    (Coq_xI (Coq_xI Coq_xH))))))) :: ((Npos (Coq_xO (Coq_xO (Coq_xO (Coq_xO
    (Coq_xI (Coq_xI Coq_xH))))))) :: []))) :: (((Npos (Coq_xO (Coq_xO (Coq_xO
    (Coq_xI (Coq_xO (Coq_xI Coq_xH))))))) :: ((Npos (Coq_xI (Coq_xO (Coq_xO
    (Coq_xI (Coq_xI (Coq_xI Coq_xH))))))) :: ((Npos (Coq_xO (Coq_xI (Coq_xO
    (Coq_xO (Coq_xO (Coq_xI Coq_xH))))))) :: ((Npos (Coq_xO (Coq_xI (Coq_xO
    (Coq_xO (Coq_xI (Coq_xI Coq_xH))))))) :: ((Npos (Coq_xI (Coq_xO (Coq_xO
    (Coq_xI (Coq_xO (Coq_xI Coq_xH))))))) :: ((Npos (Coq_xO (Coq_xO (Coq_xI
    (Coq_xO (Coq_xO (Coq_xI Coq_xH))))))) :: [])))))) :: []))

(** val levels_possible : bytes list **)

let levels_possible =
  ((Npos (Coq_xO (Coq_xO (Coq_xI (Coq_xO (Coq_xI (Coq_xI
    Coq_xH))))))) :: ((Npos (Coq_xO (Coq_xI (Coq_xO (Coq_xO (Coq_xI (Coq_xI
    Coq_xH))))))) :: ((Npos (Coq_xI (Coq_xO (Coq_xO (Coq_xO (Coq_xO (Coq_xI
    Coq_xH))))))) :: ((Npos (Coq_xI (Coq_xI (Coq_xO (Coq_xO (Coq_xO (Coq_xI
    Coq_xH))))))) :: ((Npos (Coq_xI (Coq_xO (Coq_xI (Coq_xO (Coq_xO (Coq_xI
    Coq_xH))))))) :: []))))) :: (((Npos (Coq_xO (Coq_xO (Coq_xI (Coq_xO
    (Coq_xO (Coq_xI Coq_xH))))))) :: ((Npos (Coq_xI (Coq_xO (Coq_xI (Coq_xO
    (Coq_xO (Coq_xI Coq_xH))))))) :: ((Npos (Coq_xO (Coq_xI (Coq_xO (Coq_xO
    (Coq_xO (Coq_xI Coq_xH))))))) :: ((Npos (Coq_xI (Coq_xO (Coq_xI (Coq_xO
    (Coq_xI (Coq_xI Coq_xH))))))) :: ((Npos (Coq_xI (Coq_xI (Coq_xI (Coq_xO
    (Coq_xO (Coq_xI Coq_xH))))))) :: []))))) :: (((Npos (Coq_xI (Coq_xO
    (Coq_xO (Coq_xI (Coq_xO (Coq_xI Coq_xH))))))) :: ((Npos (Coq_xO (Coq_xI
    (Coq_xI (Coq_xI (Coq_xO (Coq_xI Coq_xH))))))) :: ((Npos (Coq_xO (Coq_xI
    (Coq_xI (Coq_xO (Coq_xO (Coq_xI Coq_xH))))))) :: ((Npos (Coq_xI (Coq_xI
    (Coq_xI (Coq_xI (Coq_xO (Coq_xI Coq_xH))))))) :: [])))) :: (((Npos
    (Coq_xI (Coq_xI (Coq_xI (Coq_xO (Coq_xI (Coq_xI Coq_xH))))))) :: ((Npos
    (Coq_xI (Coq_xO (Coq_xO (Coq_xO (Coq_xO (Coq_xI Coq_xH))))))) :: ((Npos
    (Coq_xO (Coq_xI (Coq_xO (Coq_xO (Coq_xI (Coq_xI Coq_xH))))))) :: ((Npos
    (Coq_xO (Coq_xI (Coq_xI (Coq_xI (Coq_xO (Coq_xI
    Coq_xH))))))) :: [])))) :: (((Npos (Coq_xI (Coq_xO (Coq_xI (Coq_xO
    (Coq_xO (Coq_xI Coq_xH))))))) :: ((Npos (Coq_xO (Coq_xI (Coq_xO (Coq_xO
    (Coq_xI (Coq_xI Coq_xH))))))) :: ((Npos (Coq_xO (Coq_xI (Coq_xO (Coq_xO
    (Coq_xI (Coq_xI Coq_xH))))))) :: ((Npos (Coq_xI (Coq_xI (Coq_xI (Coq_xI
    (Coq_xO (Coq_xI Coq_xH))))))) :: ((Npos (Coq_xO (Coq_xI (Coq_xO (Coq_xO
    (Coq_xI (Coq_xI Coq_xH))))))) :: []))))) :: (((Npos (Coq_xI (Coq_xI
    (Coq_xI (Coq_xI (Coq_xO (Coq_xI Coq_xH))))))) :: ((Npos (Coq_xO (Coq_xI
    (Coq_xI (Coq_xO (Coq_xO (Coq_xI Coq_xH))))))) :: ((Npos (Coq_xO (Coq_xI
    (Coq_xI (Coq_xO (Coq_xO (Coq_xI Coq_xH))))))) :: []))) :: [])))))

(** val value_ok : optkey -> bytes -> bool **)

let value_ok k v = match v with
| [] -> false
| x :: _ ->
  (&&) (negb (N.eqb x hyphen))
    (match k with
     | KR -> bmem v readers_possible
     | KEnc -> bmem v encodings_possible
     | KLog -> bmem v levels_possible
     | _ -> true)

(** val parse_tokens : bool -> bytes list -> popts -> popts option **)

let rec parse_tokens full ts p =
  match ts with
  | [] ->
    (match p.p_f with
     | Some _ -> (match p.p_p with
                  | Some _ -> Some p
                  | None -> None)
     | None -> None)
  | t :: r ->
    (match key_of full t with
     | Some k ->
       (match r with
        | [] -> None
        | v :: r' ->
          (match get_key k p with
           | Some _ -> None
           | None ->
             if value_ok k v
             then parse_tokens full r' (set_key k v p)
             else None))
     | None ->
       if (&&) full
            ((||)
              (beqb t ((Npos (Coq_xI (Coq_xO (Coq_xI (Coq_xI (Coq_xO
                Coq_xH)))))) :: ((Npos (Coq_xI (Coq_xI (Coq_xO (Coq_xO
                (Coq_xO (Coq_xI Coq_xH))))))) :: [])))
              (beqb t ((Npos (Coq_xI (Coq_xO (Coq_xI (Coq_xI (Coq_xO
                Coq_xH)))))) :: ((Npos (Coq_xI (Coq_xO (Coq_xI (Coq_xI
                (Coq_xO Coq_xH)))))) :: ((Npos (Coq_xI (Coq_xI (Coq_xI
                (Coq_xO (Coq_xI (Coq_xI Coq_xH))))))) :: ((Npos (Coq_xI
                (Coq_xO (Coq_xO (Coq_xI (Coq_xO (Coq_xI
                Coq_xH))))))) :: ((Npos (Coq_xO (Coq_xO (Coq_xI (Coq_xO
                (Coq_xI (Coq_xI Coq_xH))))))) :: ((Npos (Coq_xO (Coq_xO
                (Coq_xO (Coq_xI (Coq_xO (Coq_xI Coq_xH))))))) :: ((Npos
                (Coq_xI (Coq_xO (Coq_xI (Coq_xI (Coq_xO
                Coq_xH)))))) :: ((Npos (Coq_xI (Coq_xI (Coq_xO (Coq_xO
                (Coq_xO (Coq_xI Coq_xH))))))) :: ((Npos (Coq_xI (Coq_xO
                (Coq_xI (Coq_xO (Coq_xO (Coq_xI Coq_xH))))))) :: ((Npos
                (Coq_xO (Coq_xI (Coq_xO (Coq_xO (Coq_xI (Coq_xI
                Coq_xH))))))) :: ((Npos (Coq_xO (Coq_xO (Coq_xI (Coq_xO
                (Coq_xI (Coq_xI Coq_xH))))))) :: ((Npos (Coq_xI (Coq_xO
                (Coq_xO (Coq_xI (Coq_xO (Coq_xI Coq_xH))))))) :: ((Npos
                (Coq_xO (Coq_xI (Coq_xI (Coq_xO (Coq_xO (Coq_xI
                Coq_xH))))))) :: ((Npos (Coq_xI (Coq_xO (Coq_xO (Coq_xI
                (Coq_xO (Coq_xI Coq_xH))))))) :: ((Npos (Coq_xI (Coq_xI
                (Coq_xO (Coq_xO (Coq_xO (Coq_xI Coq_xH))))))) :: ((Npos
                (Coq_xI (Coq_xO (Coq_xO (Coq_xO (Coq_xO (Coq_xI
                Coq_xH))))))) :: ((Npos (Coq_xO (Coq_xO (Coq_xI (Coq_xO
                (Coq_xI (Coq_xI Coq_xH))))))) :: ((Npos (Coq_xI (Coq_xO
                (Coq_xI (Coq_xO (Coq_xO (Coq_xI
                Coq_xH))))))) :: []))))))))))))))))))))
       then if p.p_c then None else parse_tokens full r (set_c p)
       else None)

(** val reader_of_bytes : bytes -> reader **)

let reader_of_bytes v =
  if beqb v ((Npos (Coq_xI (Coq_xO (Coq_xO (Coq_xO (Coq_xO (Coq_xI
       Coq_xH))))))) :: ((Npos (Coq_xO (Coq_xO (Coq_xO (Coq_xO (Coq_xI
       (Coq_xI Coq_xH))))))) :: ((Npos (Coq_xO (Coq_xO (Coq_xO (Coq_xI
       (Coq_xI (Coq_xI Coq_xH))))))) :: [])))
  then RApx
  else if beqb v ((Npos (Coq_xI (Coq_xO (Coq_xO (Coq_xI (Coq_xO (Coq_xI
            Coq_xH))))))) :: ((Npos (Coq_xI (Coq_xI (Coq_xO (Coq_xO (Coq_xO
            (Coq_xI Coq_xH))))))) :: ((Npos (Coq_xI (Coq_xI (Coq_xO (Coq_xO
            (Coq_xO (Coq_xI Coq_xH))))))) :: ((Npos (Coq_xI (Coq_xO (Coq_xI
            (Coq_xI (Coq_xO (Coq_xI Coq_xH))))))) :: ((Npos (Coq_xI (Coq_xO
            (Coq_xO (Coq_xO (Coq_xO (Coq_xI Coq_xH))))))) :: ((Npos (Coq_xO
            (Coq_xI (Coq_xO (Coq_xO (Coq_xI Coq_xH)))))) :: ((Npos (Coq_xI
            (Coq_xI (Coq_xO (Coq_xO (Coq_xI Coq_xH)))))) :: [])))))))
       then RIccma23
       else RIccma23Aba

(** val encoding_of_bytes : bytes option -> encoding_opt **)

let encoding_of_bytes = function
| Some v0 ->
  if beqb v0 ((Npos (Coq_xI (Coq_xO (Coq_xO (Coq_xO (Coq_xO (Coq_xI
       Coq_xH))))))) :: ((Npos (Coq_xI (Coq_xO (Coq_xI (Coq_xO (Coq_xI
       (Coq_xI Coq_xH))))))) :: ((Npos (Coq_xO (Coq_xO (Coq_xO (Coq_xI
       (Coq_xI (Coq_xI Coq_xH))))))) :: ((Npos (Coq_xI (Coq_xI (Coq_xI
       (Coq_xI (Coq_xI (Coq_xO Coq_xH))))))) :: ((Npos (Coq_xO (Coq_xI
       (Coq_xI (Coq_xO (Coq_xI (Coq_xI Coq_xH))))))) :: ((Npos (Coq_xI
       (Coq_xO (Coq_xO (Coq_xO (Coq_xO (Coq_xI Coq_xH))))))) :: ((Npos
       (Coq_xO (Coq_xI (Coq_xO (Coq_xO (Coq_xI (Coq_xI
       Coq_xH))))))) :: [])))))))
  then EncAuxVar
  else if beqb v0 ((Npos (Coq_xI (Coq_xO (Coq_xI (Coq_xO (Coq_xO (Coq_xI
            Coq_xH))))))) :: ((Npos (Coq_xO (Coq_xO (Coq_xO (Coq_xI (Coq_xI
            (Coq_xI Coq_xH))))))) :: ((Npos (Coq_xO (Coq_xO (Coq_xO (Coq_xO
            (Coq_xI (Coq_xI Coq_xH))))))) :: [])))
       then EncExp
       else EncHybrid
| None -> EncAbsent

(** val options_of : popts -> (options * bytes) option **)

let options_of p =
  match p.p_f with
  | Some f ->
    (match p.p_p with
     | Some pr ->
       Some ({ o_reader =
         (match p.p_r with
          | Some v -> reader_of_bytes v
          | None -> RIccma23); o_problem = pr; o_arg = p.p_a; o_cert = p.p_c;
         o_encoding = (encoding_of_bytes p.p_enc); o_logging_off =
         (match p.p_log with
          | Some v ->
            beqb v ((Npos (Coq_xI (Coq_xI (Coq_xI (Coq_xI (Coq_xO (Coq_xI
              Coq_xH))))))) :: ((Npos (Coq_xO (Coq_xI (Coq_xI (Coq_xO (Coq_xO
              (Coq_xI Coq_xH))))))) :: ((Npos (Coq_xO (Coq_xI (Coq_xI (Coq_xO
              (Coq_xO (Coq_xI Coq_xH))))))) :: [])))
          | None -> false) }, f)
     | None -> None)
  | None -> None

type cmd =
| CSolve of options * bytes
| CProblems
| CReject
| CUnmodelled

(** val only_logging : bytes list -> bool **)

let only_logging = function
| [] -> true
| a :: l ->
  (match l with
   | [] -> false
   | v :: l0 ->
     (match l0 with
      | [] ->
        (&&)
          (beqb a ((Npos (Coq_xI (Coq_xO (Coq_xI (Coq_xI (Coq_xO
            Coq_xH)))))) :: ((Npos (Coq_xI (Coq_xO (Coq_xI (Coq_xI (Coq_xO
            Coq_xH)))))) :: ((Npos (Coq_xO (Coq_xO (Coq_xI (Coq_xI (Coq_xO
            (Coq_xI Coq_xH))))))) :: ((Npos (Coq_xI (Coq_xI (Coq_xI (Coq_xI
            (Coq_xO (Coq_xI Coq_xH))))))) :: ((Npos (Coq_xI (Coq_xI (Coq_xI
            (Coq_xO (Coq_xO (Coq_xI Coq_xH))))))) :: ((Npos (Coq_xI (Coq_xI
            (Coq_xI (Coq_xO (Coq_xO (Coq_xI Coq_xH))))))) :: ((Npos (Coq_xI
            (Coq_xO (Coq_xO (Coq_xI (Coq_xO (Coq_xI Coq_xH))))))) :: ((Npos
            (Coq_xO (Coq_xI (Coq_xI (Coq_xI (Coq_xO (Coq_xI
            Coq_xH))))))) :: ((Npos (Coq_xI (Coq_xI (Coq_xI (Coq_xO (Coq_xO
            (Coq_xI Coq_xH))))))) :: ((Npos (Coq_xI (Coq_xO (Coq_xI (Coq_xI
            (Coq_xO Coq_xH)))))) :: ((Npos (Coq_xO (Coq_xO (Coq_xI (Coq_xI
            (Coq_xO (Coq_xI Coq_xH))))))) :: ((Npos (Coq_xI (Coq_xO (Coq_xI
            (Coq_xO (Coq_xO (Coq_xI Coq_xH))))))) :: ((Npos (Coq_xO (Coq_xI
            (Coq_xI (Coq_xO (Coq_xI (Coq_xI Coq_xH))))))) :: ((Npos (Coq_xI
            (Coq_xO (Coq_xI (Coq_xO (Coq_xO (Coq_xI Coq_xH))))))) :: ((Npos
            (Coq_xO (Coq_xO (Coq_xI (Coq_xI (Coq_xO (Coq_xI
            Coq_xH))))))) :: [])))))))))))))))) (bmem v levels_possible)
      | _ :: _ -> false))

(** val parse_main : bytes list -> cmd **)

let parse_main = function
| [] -> CReject
| t :: rest ->
  if beqb t ((Npos (Coq_xI (Coq_xI (Coq_xO (Coq_xO (Coq_xI (Coq_xI
       Coq_xH))))))) :: ((Npos (Coq_xI (Coq_xI (Coq_xI (Coq_xI (Coq_xO
       (Coq_xI Coq_xH))))))) :: ((Npos (Coq_xO (Coq_xO (Coq_xI (Coq_xI
       (Coq_xO (Coq_xI Coq_xH))))))) :: ((Npos (Coq_xO (Coq_xI (Coq_xI
       (Coq_xO (Coq_xI (Coq_xI Coq_xH))))))) :: ((Npos (Coq_xI (Coq_xO
       (Coq_xI (Coq_xO (Coq_xO (Coq_xI Coq_xH))))))) :: [])))))
  then (match parse_tokens true rest popts_empty with
        | Some p ->
          (match options_of p with
           | Some p0 -> let (o, f) = p0 in CSolve (o, f)
           | None -> CReject)
        | None -> CReject)
  else if beqb t ((Npos (Coq_xO (Coq_xO (Coq_xO (Coq_xO (Coq_xI (Coq_xI
            Coq_xH))))))) :: ((Npos (Coq_xO (Coq_xI (Coq_xO (Coq_xO (Coq_xI
            (Coq_xI Coq_xH))))))) :: ((Npos (Coq_xI (Coq_xI (Coq_xI (Coq_xI
            (Coq_xO (Coq_xI Coq_xH))))))) :: ((Npos (Coq_xO (Coq_xI (Coq_xO
            (Coq_xO (Coq_xO (Coq_xI Coq_xH))))))) :: ((Npos (Coq_xO (Coq_xO
            (Coq_xI (Coq_xI (Coq_xO (Coq_xI Coq_xH))))))) :: ((Npos (Coq_xI
            (Coq_xO (Coq_xI (Coq_xO (Coq_xO (Coq_xI Coq_xH))))))) :: ((Npos
            (Coq_xI (Coq_xO (Coq_xI (Coq_xI (Coq_xO (Coq_xI
            Coq_xH))))))) :: ((Npos (Coq_xI (Coq_xI (Coq_xO (Coq_xO (Coq_xI
            (Coq_xI Coq_xH))))))) :: []))))))))
       then if only_logging rest then CProblems else CReject
       else if bmem t (((Npos (Coq_xI (Coq_xO (Coq_xO (Coq_xO (Coq_xO (Coq_xI
                 Coq_xH))))))) :: ((Npos (Coq_xI (Coq_xO (Coq_xI (Coq_xO
                 (Coq_xI (Coq_xI Coq_xH))))))) :: ((Npos (Coq_xO (Coq_xO
                 (Coq_xI (Coq_xO (Coq_xI (Coq_xI Coq_xH))))))) :: ((Npos
                 (Coq_xO (Coq_xO (Coq_xO (Coq_xI (Coq_xO (Coq_xI
                 Coq_xH))))))) :: ((Npos (Coq_xI (Coq_xI (Coq_xI (Coq_xI
                 (Coq_xO (Coq_xI Coq_xH))))))) :: ((Npos (Coq_xO (Coq_xI
                 (Coq_xO (Coq_xO (Coq_xI (Coq_xI Coq_xH))))))) :: ((Npos
                 (Coq_xI (Coq_xI (Coq_xO (Coq_xO (Coq_xI (Coq_xI
                 Coq_xH))))))) :: []))))))) :: (((Npos (Coq_xI (Coq_xI
                 (Coq_xO (Coq_xO (Coq_xO (Coq_xI Coq_xH))))))) :: ((Npos
                 (Coq_xO (Coq_xO (Coq_xO (Coq_xI (Coq_xO (Coq_xI
                 Coq_xH))))))) :: ((Npos (Coq_xI (Coq_xO (Coq_xI (Coq_xO
                 (Coq_xO (Coq_xI Coq_xH))))))) :: ((Npos (Coq_xI (Coq_xI
                 (Coq_xO (Coq_xO (Coq_xO (Coq_xI Coq_xH))))))) :: ((Npos
                 (Coq_xI (Coq_xI (Coq_xO (Coq_xI (Coq_xO (Coq_xI
                 Coq_xH))))))) :: []))))) :: (((Npos (Coq_xO (Coq_xO (Coq_xO
                 (Coq_xI (Coq_xO (Coq_xI Coq_xH))))))) :: ((Npos (Coq_xI
                 (Coq_xO (Coq_xI (Coq_xO (Coq_xO (Coq_xI
                 Coq_xH))))))) :: ((Npos (Coq_xO (Coq_xO (Coq_xI (Coq_xI
                 (Coq_xO (Coq_xI Coq_xH))))))) :: ((Npos (Coq_xO (Coq_xO
                 (Coq_xO (Coq_xO (Coq_xI (Coq_xI
                 Coq_xH))))))) :: [])))) :: (((Npos (Coq_xI (Coq_xO (Coq_xI
                 (Coq_xI (Coq_xO Coq_xH)))))) :: ((Npos (Coq_xO (Coq_xO
                 (Coq_xO (Coq_xI (Coq_xO (Coq_xI
                 Coq_xH))))))) :: [])) :: (((Npos (Coq_xI (Coq_xO (Coq_xI
                 (Coq_xI (Coq_xO Coq_xH)))))) :: ((Npos (Coq_xI (Coq_xO
                 (Coq_xI (Coq_xI (Coq_xO Coq_xH)))))) :: ((Npos (Coq_xO
                 (Coq_xO (Coq_xO (Coq_xI (Coq_xO (Coq_xI
                 Coq_xH))))))) :: ((Npos (Coq_xI (Coq_xO (Coq_xI (Coq_xO
                 (Coq_xO (Coq_xI Coq_xH))))))) :: ((Npos (Coq_xO (Coq_xO
                 (Coq_xI (Coq_xI (Coq_xO (Coq_xI Coq_xH))))))) :: ((Npos
                 (Coq_xO (Coq_xO (Coq_xO (Coq_xO (Coq_xI (Coq_xI
                 Coq_xH))))))) :: [])))))) :: [])))))
            then CUnmodelled
            else CReject

(** val parse_wrapper : bytes list -> cmd **)

let parse_wrapper real = match real with
| [] -> parse_main (wrapper_argv real)
| _ :: _ ->
  if is_problems_only real
  then parse_main (wrapper_argv real)
  else (match parse_tokens false real popts_empty with
        | Some _ -> parse_main (wrapper_argv real)
        | None -> CReject)

(** val exec :
    (nat -> cnf -> lit list -> answer) -> nat -> discipline -> nat -> cmd ->
    instance option -> cli_result option **)

let exec oracle thr d fuel c inst =
  match c with
  | CSolve (o, _) -> Some (run oracle thr d fuel o inst)
  | CProblems -> Some (Exit0 problems_line)
  | CReject -> Some ExitNonZero
  | CUnmodelled -> None

(** val split_on : coq_N -> bytes -> bytes list **)

let rec split_on sep = function
| [] -> [] :: []
| x :: r ->
  if N.eqb x sep
  then [] :: (split_on sep r)
  else (match split_on sep r with
        | [] -> (x :: []) :: []
        | h :: t -> (x :: h) :: t)

(** val strip_last : bytes -> (bytes * coq_N) option **)

let rec strip_last = function
| [] -> None
| x :: r ->
  (match r with
   | [] -> Some ([], x)
   | _ :: _ ->
     (match strip_last r with
      | Some p -> let (i, z) = p in Some ((x :: i), z)
      | None -> None))

(** val map_opt : ('a1 -> 'a2 option) -> 'a1 list -> 'a2 list option **)

let rec map_opt f = function
| [] -> Some []
| x :: r ->
  (match f x with
   | Some y ->
     (match map_opt f r with
      | Some ys -> Some (y :: ys)
      | None -> None)
   | None -> None)

(** val parse_witness :
    writer -> (bytes -> nat option) -> bytes -> nat list option **)

let parse_witness w un line =
  match w with
  | WApx ->
    (match line with
     | [] -> None
     | x :: rest ->
       if N.eqb x (Npos (Coq_xI (Coq_xI (Coq_xO (Coq_xI (Coq_xI (Coq_xO
            Coq_xH)))))))
       then (match strip_last rest with
             | Some p ->
               let (inner, z) = p in
               if N.eqb z (Npos (Coq_xI (Coq_xO (Coq_xI (Coq_xI (Coq_xI
                    (Coq_xO Coq_xH)))))))
               then (match inner with
                     | [] -> Some []
                     | _ :: _ -> map_opt un (split_on comma inner))
               else None
             | None -> None)
       else None)
  | WIccma ->
    (match line with
     | [] -> None
     | x :: rest ->
       if N.eqb x (Npos (Coq_xI (Coq_xI (Coq_xI (Coq_xO (Coq_xI (Coq_xI
            Coq_xH)))))))
       then (match rest with
             | [] -> Some []
             | y :: r ->
               if N.eqb y space then map_opt un (split_on space r) else None)
       else None)

(** val status_of_line : bytes -> bool option **)

let status_of_line l =
  if beqb l ((Npos (Coq_xI (Coq_xO (Coq_xO (Coq_xI (Coq_xI (Coq_xO
       Coq_xH))))))) :: ((Npos (Coq_xI (Coq_xO (Coq_xI (Coq_xO (Coq_xO
       (Coq_xO Coq_xH))))))) :: ((Npos (Coq_xI (Coq_xI (Coq_xO (Coq_xO
       (Coq_xI (Coq_xO Coq_xH))))))) :: [])))
  then Some true
  else if beqb l ((Npos (Coq_xO (Coq_xI (Coq_xI (Coq_xI (Coq_xO (Coq_xO
            Coq_xH))))))) :: ((Npos (Coq_xI (Coq_xI (Coq_xI (Coq_xI (Coq_xO
            (Coq_xO Coq_xH))))))) :: []))
       then Some false
       else None

(** val parse_answer :
    writer -> (bytes -> nat option) -> query -> bytes -> outcome option **)

let parse_answer w un q out =
  match split_first nl out with
  | Some p ->
    let (l1, rest) = p in
    (match q with
     | QSE ->
       (match rest with
        | [] ->
          if beqb l1 ((Npos (Coq_xO (Coq_xI (Coq_xI (Coq_xI (Coq_xO (Coq_xO
               Coq_xH))))))) :: ((Npos (Coq_xI (Coq_xI (Coq_xI (Coq_xI
               (Coq_xO (Coq_xO Coq_xH))))))) :: []))
          then Some (OExt None)
          else (match parse_witness w un l1 with
                | Some e -> Some (OExt (Some e))
                | None -> None)
        | _ :: _ -> None)
     | _ ->
       (match status_of_line l1 with
        | Some b ->
          (match rest with
           | [] -> Some (OAcc (b, None))
           | _ :: _ ->
             (match split_first nl rest with
              | Some p0 ->
                let (l2, b0) = p0 in
                (match b0 with
                 | [] ->
                   (match parse_witness w un l2 with
                    | Some e -> Some (OAcc (b, (Some e)))
                    | None -> None)
                 | _ :: _ -> None)
              | None -> None))
        | None -> None))
  | None -> None
