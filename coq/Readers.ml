open BinInt
open BinNat
open BinNums
open Datatypes
open List
open Nat
open Store
open UnicodeTables

type str = coq_N list

type 'a rd =
| RdOk of 'a
| RdErr
| RdPanic

(** val str_eqb : str -> str -> bool **)

let rec str_eqb a b =
  match a with
  | [] -> (match b with
           | [] -> true
           | _ :: _ -> false)
  | x :: a' ->
    (match b with
     | [] -> false
     | y :: b' -> (&&) (N.eqb x y) (str_eqb a' b'))

(** val in_ranges : coq_N -> (coq_N * coq_N) list -> bool **)

let in_ranges c rs =
  existsb (fun r -> (&&) (N.leb (fst r) c) (N.leb c (snd r))) rs

(** val is_ws : coq_N -> bool **)

let is_ws c =
  in_ranges c white_space_ranges

(** val is_dec : coq_N -> bool **)

let is_dec c =
  in_ranges c decimal_number_ranges

(** val is_alpha : coq_N -> bool **)

let is_alpha c =
  (||)
    ((&&)
      (N.leb (Npos (Coq_xI (Coq_xO (Coq_xO (Coq_xO (Coq_xO (Coq_xO
        Coq_xH))))))) c)
      (N.leb c (Npos (Coq_xO (Coq_xI (Coq_xO (Coq_xI (Coq_xI (Coq_xO
        Coq_xH)))))))))
    ((&&)
      (N.leb (Npos (Coq_xI (Coq_xO (Coq_xO (Coq_xO (Coq_xO (Coq_xI
        Coq_xH))))))) c)
      (N.leb c (Npos (Coq_xO (Coq_xI (Coq_xO (Coq_xI (Coq_xI (Coq_xI
        Coq_xH)))))))))

(** val is_id_start : coq_N -> bool **)

let is_id_start c =
  (||)
    (N.eqb c (Npos (Coq_xI (Coq_xI (Coq_xI (Coq_xI (Coq_xI (Coq_xO
      Coq_xH)))))))) (is_alpha c)

(** val is_id_char : coq_N -> bool **)

let is_id_char c =
  (||) (is_id_start c) (is_dec c)

(** val is_digit : coq_N -> bool **)

let is_digit c =
  (&&) (N.leb (Npos (Coq_xO (Coq_xO (Coq_xO (Coq_xO (Coq_xI Coq_xH)))))) c)
    (N.leb c (Npos (Coq_xI (Coq_xO (Coq_xO (Coq_xI (Coq_xI Coq_xH)))))))

(** val is_cont : coq_N -> bool **)

let is_cont b =
  (&&)
    (N.leb (Npos (Coq_xO (Coq_xO (Coq_xO (Coq_xO (Coq_xO (Coq_xO (Coq_xO
      Coq_xH)))))))) b)
    (N.leb b (Npos (Coq_xI (Coq_xI (Coq_xI (Coq_xI (Coq_xI (Coq_xI (Coq_xO
      Coq_xH)))))))))

(** val utf8_decode : coq_N list -> str option **)

let rec utf8_decode = function
| [] -> Some []
| b0 :: r0 ->
  if N.ltb b0 (Npos (Coq_xO (Coq_xO (Coq_xO (Coq_xO (Coq_xO (Coq_xO (Coq_xO
       Coq_xH))))))))
  then option_map (fun x -> b0 :: x) (utf8_decode r0)
  else if N.ltb b0 (Npos (Coq_xO (Coq_xI (Coq_xO (Coq_xO (Coq_xO (Coq_xO
            (Coq_xI Coq_xH))))))))
       then None
       else if N.ltb b0 (Npos (Coq_xO (Coq_xO (Coq_xO (Coq_xO (Coq_xO (Coq_xI
                 (Coq_xI Coq_xH))))))))
            then (match r0 with
                  | [] -> None
                  | b1 :: r1 ->
                    if is_cont b1
                    then option_map (fun x ->
                           (N.add
                             (N.mul
                               (N.sub b0 (Npos (Coq_xO (Coq_xO (Coq_xO
                                 (Coq_xO (Coq_xO (Coq_xO (Coq_xI
                                 Coq_xH))))))))) (Npos (Coq_xO (Coq_xO
                               (Coq_xO (Coq_xO (Coq_xO (Coq_xO Coq_xH))))))))
                             (N.sub b1 (Npos (Coq_xO (Coq_xO (Coq_xO (Coq_xO
                               (Coq_xO (Coq_xO (Coq_xO Coq_xH)))))))))) :: x)
                           (utf8_decode r1)
                    else None)
            else if N.ltb b0 (Npos (Coq_xO (Coq_xO (Coq_xO (Coq_xO (Coq_xI
                      (Coq_xI (Coq_xI Coq_xH))))))))
                 then (match r0 with
                       | [] -> None
                       | b1 :: l0 ->
                         (match l0 with
                          | [] -> None
                          | b2 :: r2 ->
                            if (&&)
                                 ((&&) ((&&) (is_cont b1) (is_cont b2))
                                   (if N.eqb b0 (Npos (Coq_xO (Coq_xO (Coq_xO
                                         (Coq_xO (Coq_xO (Coq_xI (Coq_xI
                                         Coq_xH))))))))
                                    then N.leb (Npos (Coq_xO (Coq_xO (Coq_xO
                                           (Coq_xO (Coq_xO (Coq_xI (Coq_xO
                                           Coq_xH)))))))) b1
                                    else true))
                                 (if N.eqb b0 (Npos (Coq_xI (Coq_xO (Coq_xI
                                       (Coq_xI (Coq_xO (Coq_xI (Coq_xI
                                       Coq_xH))))))))
                                  then N.leb b1 (Npos (Coq_xI (Coq_xI (Coq_xI
                                         (Coq_xI (Coq_xI (Coq_xO (Coq_xO
                                         Coq_xH))))))))
                                  else true)
                            then option_map (fun x ->
                                   (N.add
                                     (N.add
                                       (N.mul
                                         (N.sub b0 (Npos (Coq_xO (Coq_xO
                                           (Coq_xO (Coq_xO (Coq_xO (Coq_xI
                                           (Coq_xI Coq_xH))))))))) (Npos
                                         (Coq_xO (Coq_xO (Coq_xO (Coq_xO
                                         (Coq_xO (Coq_xO (Coq_xO (Coq_xO
                                         (Coq_xO (Coq_xO (Coq_xO (Coq_xO
                                         Coq_xH))))))))))))))
                                       (N.mul
                                         (N.sub b1 (Npos (Coq_xO (Coq_xO
                                           (Coq_xO (Coq_xO (Coq_xO (Coq_xO
                                           (Coq_xO Coq_xH))))))))) (Npos
                                         (Coq_xO (Coq_xO (Coq_xO (Coq_xO
                                         (Coq_xO (Coq_xO Coq_xH)))))))))
                                     (N.sub b2 (Npos (Coq_xO (Coq_xO (Coq_xO
                                       (Coq_xO (Coq_xO (Coq_xO (Coq_xO
                                       Coq_xH)))))))))) :: x) (utf8_decode r2)
                            else None))
                 else if N.ltb b0 (Npos (Coq_xI (Coq_xO (Coq_xI (Coq_xO
                           (Coq_xI (Coq_xI (Coq_xI Coq_xH))))))))
                      then (match r0 with
                            | [] -> None
                            | b1 :: l0 ->
                              (match l0 with
                               | [] -> None
                               | b2 :: l1 ->
                                 (match l1 with
                                  | [] -> None
                                  | b3 :: r3 ->
                                    if (&&)
                                         ((&&)
                                           ((&&)
                                             ((&&) (is_cont b1) (is_cont b2))
                                             (is_cont b3))
                                           (if N.eqb b0 (Npos (Coq_xO (Coq_xO
                                                 (Coq_xO (Coq_xO (Coq_xI
                                                 (Coq_xI (Coq_xI
                                                 Coq_xH))))))))
                                            then N.leb (Npos (Coq_xO (Coq_xO
                                                   (Coq_xO (Coq_xO (Coq_xI
                                                   (Coq_xO (Coq_xO
                                                   Coq_xH)))))))) b1
                                            else true))
                                         (if N.eqb b0 (Npos (Coq_xO (Coq_xO
                                               (Coq_xI (Coq_xO (Coq_xI
                                               (Coq_xI (Coq_xI Coq_xH))))))))
                                          then N.leb b1 (Npos (Coq_xI (Coq_xI
                                                 (Coq_xI (Coq_xI (Coq_xO
                                                 (Coq_xO (Coq_xO
                                                 Coq_xH))))))))
                                          else true)
                                    then option_map (fun x ->
                                           (N.add
                                             (N.add
                                               (N.add
                                                 (N.mul
                                                   (N.sub b0 (Npos (Coq_xO
                                                     (Coq_xO (Coq_xO (Coq_xO
                                                     (Coq_xI (Coq_xI (Coq_xI
                                                     Coq_xH))))))))) (Npos
                                                   (Coq_xO (Coq_xO (Coq_xO
                                                   (Coq_xO (Coq_xO (Coq_xO
                                                   (Coq_xO (Coq_xO (Coq_xO
                                                   (Coq_xO (Coq_xO (Coq_xO
                                                   (Coq_xO (Coq_xO (Coq_xO
                                                   (Coq_xO (Coq_xO (Coq_xO
                                                   Coq_xH))))))))))))))))))))
                                                 (N.mul
                                                   (N.sub b1 (Npos (Coq_xO
                                                     (Coq_xO (Coq_xO (Coq_xO
                                                     (Coq_xO (Coq_xO (Coq_xO
                                                     Coq_xH))))))))) (Npos
                                                   (Coq_xO (Coq_xO (Coq_xO
                                                   (Coq_xO (Coq_xO (Coq_xO
                                                   (Coq_xO (Coq_xO (Coq_xO
                                                   (Coq_xO (Coq_xO (Coq_xO
                                                   Coq_xH)))))))))))))))
                                               (N.mul
                                                 (N.sub b2 (Npos (Coq_xO
                                                   (Coq_xO (Coq_xO (Coq_xO
                                                   (Coq_xO (Coq_xO (Coq_xO
                                                   Coq_xH))))))))) (Npos
                                                 (Coq_xO (Coq_xO (Coq_xO
                                                 (Coq_xO (Coq_xO (Coq_xO
                                                 Coq_xH)))))))))
                                             (N.sub b3 (Npos (Coq_xO (Coq_xO
                                               (Coq_xO (Coq_xO (Coq_xO
                                               (Coq_xO (Coq_xO Coq_xH)))))))))) :: x)
                                           (utf8_decode r3)
                                    else None)))
                      else None

(** val raw_lines : coq_N list -> (coq_N list * bool) list **)

let rec raw_lines = function
| [] -> []
| b :: r ->
  if N.eqb b (Npos (Coq_xO (Coq_xI (Coq_xO Coq_xH))))
  then ([], true) :: (raw_lines r)
  else (match raw_lines r with
        | [] -> ((b :: []), false) :: []
        | p :: rest -> let (x, t) = p in ((b :: x), t) :: rest)

(** val strip_cr : coq_N list -> coq_N list **)

let rec strip_cr = function
| [] -> []
| b :: r ->
  (match r with
   | [] ->
     if N.eqb b (Npos (Coq_xI (Coq_xO (Coq_xI Coq_xH)))) then [] else b :: []
   | _ :: _ -> b :: (strip_cr r))

(** val line_of : (coq_N list * bool) -> str option **)

let line_of p =
  utf8_decode (if snd p then strip_cr (fst p) else fst p)

(** val lines : coq_N list -> str option list **)

let lines bytes =
  map line_of (raw_lines bytes)

(** val split_ws : str -> str list **)

let rec split_ws = function
| [] -> []
| c :: r ->
  if is_ws c
  then split_ws r
  else (match r with
        | [] -> (c :: []) :: []
        | d :: _ ->
          if is_ws d
          then (c :: []) :: (split_ws r)
          else (match split_ws r with
                | [] -> (c :: []) :: []
                | w :: ws -> (c :: w) :: ws))

(** val drop_ws : str -> str **)

let rec drop_ws l = match l with
| [] -> []
| c :: r -> if is_ws c then drop_ws r else l

(** val all_ws : str -> bool **)

let all_ws l =
  forallb is_ws l

(** val strip_prefix : str -> str -> str option **)

let rec strip_prefix p l =
  match p with
  | [] -> Some l
  | x :: p' ->
    (match l with
     | [] -> None
     | y :: l' -> if N.eqb x y then strip_prefix p' l' else None)

(** val span_not : coq_N -> str -> str * str **)

let rec span_not x l = match l with
| [] -> ([], [])
| c :: r ->
  if N.eqb c x then ([], l) else let (a, b) = span_not x r in ((c :: a), b)

(** val span_p : (coq_N -> bool) -> str -> str * str **)

let rec span_p p l = match l with
| [] -> ([], [])
| c :: r -> if p c then let (a, b) = span_p p r in ((c :: a), b) else ([], l)

(** val digits_val : str -> coq_N -> coq_N option **)

let rec digits_val l acc =
  match l with
  | [] -> Some acc
  | c :: r ->
    if is_digit c
    then digits_val r
           (N.add (N.mul acc (Npos (Coq_xO (Coq_xI (Coq_xO Coq_xH)))))
             (N.sub c (Npos (Coq_xO (Coq_xO (Coq_xO (Coq_xO (Coq_xI
               Coq_xH))))))))
    else None

(** val parse_digits : str -> coq_N option **)

let parse_digits l = match l with
| [] -> None
| _ :: _ -> digits_val l N0

(** val isize_max : coq_N **)

let isize_max =
  Npos (Coq_xI (Coq_xI (Coq_xI (Coq_xI (Coq_xI (Coq_xI (Coq_xI (Coq_xI
    (Coq_xI (Coq_xI (Coq_xI (Coq_xI (Coq_xI (Coq_xI (Coq_xI (Coq_xI (Coq_xI
    (Coq_xI (Coq_xI (Coq_xI (Coq_xI (Coq_xI (Coq_xI (Coq_xI (Coq_xI (Coq_xI
    (Coq_xI (Coq_xI (Coq_xI (Coq_xI (Coq_xI (Coq_xI (Coq_xI (Coq_xI (Coq_xI
    (Coq_xI (Coq_xI (Coq_xI (Coq_xI (Coq_xI (Coq_xI (Coq_xI (Coq_xI (Coq_xI
    (Coq_xI (Coq_xI (Coq_xI (Coq_xI (Coq_xI (Coq_xI (Coq_xI (Coq_xI (Coq_xI
    (Coq_xI (Coq_xI (Coq_xI (Coq_xI (Coq_xI (Coq_xI (Coq_xI (Coq_xI (Coq_xI
    Coq_xH))))))))))))))))))))))))))))))))))))))))))))))))))))))))))))))

(** val usize_max : coq_N **)

let usize_max =
  Npos (Coq_xI (Coq_xI (Coq_xI (Coq_xI (Coq_xI (Coq_xI (Coq_xI (Coq_xI
    (Coq_xI (Coq_xI (Coq_xI (Coq_xI (Coq_xI (Coq_xI (Coq_xI (Coq_xI (Coq_xI
    (Coq_xI (Coq_xI (Coq_xI (Coq_xI (Coq_xI (Coq_xI (Coq_xI (Coq_xI (Coq_xI
    (Coq_xI (Coq_xI (Coq_xI (Coq_xI (Coq_xI (Coq_xI (Coq_xI (Coq_xI (Coq_xI
    (Coq_xI (Coq_xI (Coq_xI (Coq_xI (Coq_xI (Coq_xI (Coq_xI (Coq_xI (Coq_xI
    (Coq_xI (Coq_xI (Coq_xI (Coq_xI (Coq_xI (Coq_xI (Coq_xI (Coq_xI (Coq_xI
    (Coq_xI (Coq_xI (Coq_xI (Coq_xI (Coq_xI (Coq_xI (Coq_xI (Coq_xI (Coq_xI
    (Coq_xI
    Coq_xH)))))))))))))))))))))))))))))))))))))))))))))))))))))))))))))))

(** val parse_isize : str -> coq_Z option **)

let parse_isize w = match w with
| [] -> None
| c :: r ->
  if N.eqb c (Npos (Coq_xI (Coq_xI (Coq_xO (Coq_xI (Coq_xO Coq_xH))))))
  then (match parse_digits r with
        | Some v -> if N.leb v isize_max then Some (Z.of_N v) else None
        | None -> None)
  else if N.eqb c (Npos (Coq_xI (Coq_xO (Coq_xI (Coq_xI (Coq_xO Coq_xH))))))
       then (match parse_digits r with
             | Some v ->
               if N.leb v (N.add isize_max (Npos Coq_xH))
               then Some (Z.opp (Z.of_N v))
               else None
             | None -> None)
       else (match digits_val w N0 with
             | Some v -> if N.leb v isize_max then Some (Z.of_N v) else None
             | None -> None)

(** val parse_usize : str -> coq_N option **)

let parse_usize w = match w with
| [] -> None
| c :: r ->
  if N.eqb c (Npos (Coq_xI (Coq_xI (Coq_xO (Coq_xI (Coq_xO Coq_xH))))))
  then (match parse_digits r with
        | Some v -> if N.leb v usize_max then Some v else None
        | None -> None)
  else (match digits_val w N0 with
        | Some v -> if N.leb v usize_max then Some v else None
        | None -> None)

(** val w_p : str **)

let w_p =
  (Npos (Coq_xO (Coq_xO (Coq_xO (Coq_xO (Coq_xI (Coq_xI Coq_xH))))))) :: []

(** val w_af : str **)

let w_af =
  (Npos (Coq_xI (Coq_xO (Coq_xO (Coq_xO (Coq_xO (Coq_xI
    Coq_xH))))))) :: ((Npos (Coq_xO (Coq_xI (Coq_xI (Coq_xO (Coq_xO (Coq_xI
    Coq_xH))))))) :: [])

(** val read_preamble : str list -> nat option **)

let read_preamble = function
| [] -> None
| w0 :: l ->
  (match l with
   | [] -> None
   | w1 :: l0 ->
     (match l0 with
      | [] -> None
      | w2 :: l1 ->
        (match l1 with
         | [] ->
           if str_eqb w0 w_p
           then if str_eqb w1 w_af
                then (match parse_isize w2 with
                      | Some z ->
                        if Z.leb Z0 z then Some (Z.to_nat z) else None
                      | None -> None)
                else None
           else None
         | _ :: _ -> None)))

(** val read_idx : str -> nat -> nat option **)

let read_idx w n_args =
  match parse_isize w with
  | Some z ->
    if (&&) (Z.leb (Zpos Coq_xH) z) (Z.leb z (Z.of_nat n_args))
    then Some (Z.to_nat z)
    else None
  | None -> None

(** val starts_with_hash : str -> bool **)

let starts_with_hash = function
| [] -> false
| c :: _ -> N.eqb c (Npos (Coq_xI (Coq_xI (Coq_xO (Coq_xO (Coq_xO Coq_xH))))))

(** val is_nil : str -> bool **)

let is_nil = function
| [] -> true
| _ :: _ -> false

(** val iccma_lines :
    str option list -> nat fw option -> bool -> nat fw rd **)

let rec iccma_lines ls0 af found_empty =
  match ls0 with
  | [] -> (match af with
           | Some f -> RdOk f
           | None -> RdErr)
  | o :: r ->
    (match o with
     | Some l ->
       if starts_with_hash l
       then iccma_lines r af found_empty
       else if is_nil l
            then iccma_lines r af true
            else if found_empty
                 then RdErr
                 else let words = split_ws l in
                      (match af with
                       | Some f ->
                         (match words with
                          | [] -> RdErr
                          | w0 :: l0 ->
                            (match l0 with
                             | [] -> RdErr
                             | w1 :: l1 ->
                               (match l1 with
                                | [] ->
                                  let n_args = n_arguments f in
                                  (match read_idx w0 n_args with
                                   | Some a ->
                                     (match read_idx w1 n_args with
                                      | Some b ->
                                        let (f', r0) =
                                          new_attack_by_ids f (sub a (S O))
                                            (sub b (S O))
                                        in
                                        (match r0 with
                                         | ROk ->
                                           iccma_lines r (Some f') found_empty
                                         | _ -> RdPanic)
                                      | None -> RdErr)
                                   | None -> RdErr)
                                | _ :: _ -> RdErr)))
                       | None ->
                         (match read_preamble words with
                          | Some n ->
                            iccma_lines r (Some
                              (fw_new_with_labels PeanoNat.Nat.eqb
                                (seq (S O) n))) found_empty
                          | None -> RdErr))
     | None -> RdErr)

(** val read_iccma : coq_N list -> nat fw rd **)

let read_iccma bytes =
  iccma_lines (lines bytes) None false

(** val iccma_read_arg : nat fw -> str -> (nat * nat) rd **)

let iccma_read_arg f arg =
  match parse_usize arg with
  | Some n ->
    if (&&) (N.ltb N0 n) (N.leb n (N.of_nat (n_arguments f)))
    then (match nth (sub (N.to_nat n) (S O)) f.ls.slots None with
          | Some p -> RdOk p
          | None -> RdPanic)
    else RdErr
  | None -> RdErr

(** val w_arg_open : str **)

let w_arg_open =
  (Npos (Coq_xI (Coq_xO (Coq_xO (Coq_xO (Coq_xO (Coq_xI
    Coq_xH))))))) :: ((Npos (Coq_xO (Coq_xI (Coq_xO (Coq_xO (Coq_xI (Coq_xI
    Coq_xH))))))) :: ((Npos (Coq_xI (Coq_xI (Coq_xI (Coq_xO (Coq_xO (Coq_xI
    Coq_xH))))))) :: ((Npos (Coq_xO (Coq_xO (Coq_xO (Coq_xI (Coq_xO
    Coq_xH)))))) :: [])))

(** val w_att_open : str **)

let w_att_open =
  (Npos (Coq_xI (Coq_xO (Coq_xO (Coq_xO (Coq_xO (Coq_xI
    Coq_xH))))))) :: ((Npos (Coq_xO (Coq_xO (Coq_xI (Coq_xO (Coq_xI (Coq_xI
    Coq_xH))))))) :: ((Npos (Coq_xO (Coq_xO (Coq_xI (Coq_xO (Coq_xI (Coq_xI
    Coq_xH))))))) :: ((Npos (Coq_xO (Coq_xO (Coq_xO (Coq_xI (Coq_xO
    Coq_xH)))))) :: [])))

(** val match_tail : str -> bool **)

let match_tail = function
| [] -> false
| _ :: l0 -> (match l0 with
              | [] -> false
              | _ :: tl -> all_ws tl)

(** val match_arg_line : str -> str option **)

let match_arg_line l =
  match strip_prefix w_arg_open (drop_ws l) with
  | Some r ->
    let (x, r') =
      span_not (Npos (Coq_xI (Coq_xO (Coq_xO (Coq_xI (Coq_xO Coq_xH)))))) r
    in
    (match x with
     | [] -> None
     | _ :: _ -> if match_tail r' then Some x else None)
  | None -> None

(** val match_att_line : str -> (str * str) option **)

let match_att_line l =
  match strip_prefix w_att_open (drop_ws l) with
  | Some r ->
    let (x1, r1) =
      span_not (Npos (Coq_xO (Coq_xO (Coq_xI (Coq_xI (Coq_xO Coq_xH)))))) r
    in
    (match x1 with
     | [] -> None
     | _ :: _ ->
       (match r1 with
        | [] -> None
        | _ :: r2 ->
          let (x2, r3) =
            span_not (Npos (Coq_xI (Coq_xO (Coq_xO (Coq_xI (Coq_xO
              Coq_xH)))))) r2
          in
          (match x2 with
           | [] -> None
           | _ :: _ -> if match_tail r3 then Some (x1, x2) else None)))
  | None -> None

(** val match_ident_ws : str -> str option **)

let match_ident_ws x =
  match drop_ws x with
  | [] -> None
  | c :: r ->
    if is_id_start c
    then let (id, tl) = span_p is_id_char r in
         if all_ws tl then Some (c :: id) else None
    else None

(** val apx_fw : str list -> str fw option -> str fw **)

let apx_fw labels = function
| Some f -> f
| None -> fw_new_with_labels str_eqb labels

(** val apx_lines :
    str option list -> str list -> str fw option -> str fw rd **)

let rec apx_lines ls0 labels af =
  match ls0 with
  | [] -> RdOk (apx_fw labels af)
  | o :: r ->
    (match o with
     | Some l ->
       if all_ws l
       then apx_lines r labels af
       else (match match_arg_line l with
             | Some x ->
               (match match_ident_ws x with
                | Some a ->
                  (match af with
                   | Some _ -> RdErr
                   | None -> apx_lines r (app labels (a :: [])) af)
                | None -> RdErr)
             | None ->
               (match match_att_line l with
                | Some p ->
                  let (x1, x2) = p in
                  (match match_ident_ws x1 with
                   | Some a ->
                     (match match_ident_ws x2 with
                      | Some b ->
                        let (f', r0) =
                          new_attack str_eqb (apx_fw labels af) a b
                        in
                        (match r0 with
                         | ROk -> apx_lines r labels (Some f')
                         | _ -> RdErr)
                      | None -> RdErr)
                   | None -> RdErr)
                | None -> RdErr))
     | None -> RdErr)

(** val read_apx : coq_N list -> str fw rd **)

let read_apx bytes =
  apx_lines (lines bytes) [] None

(** val apx_read_arg : str fw -> str -> (nat * str) rd **)

let apx_read_arg f arg =
  match find_label str_eqb f.ls arg with
  | Some id -> RdOk (id, arg)
  | None -> RdErr

(** val observe : 'a1 fw -> 'a1 list * (nat * nat) list **)

let observe f =
  ((map snd (iter_args f)), (iter_attacks f))
