open BinInt
open BinNat
open BinNums
open Cnf
open Datatypes
open Decimal
open List
open PeanoNat

type byte = coq_N

type bytes = byte list

(** val b_sat : bytes **)

let b_sat =
  (Npos (Coq_xI (Coq_xI (Coq_xO (Coq_xO (Coq_xI (Coq_xI
    Coq_xH))))))) :: ((Npos (Coq_xO (Coq_xO (Coq_xO (Coq_xO (Coq_xO
    Coq_xH)))))) :: ((Npos (Coq_xI (Coq_xI (Coq_xO (Coq_xO (Coq_xI (Coq_xO
    Coq_xH))))))) :: ((Npos (Coq_xI (Coq_xO (Coq_xO (Coq_xO (Coq_xO (Coq_xO
    Coq_xH))))))) :: ((Npos (Coq_xO (Coq_xO (Coq_xI (Coq_xO (Coq_xI (Coq_xO
    Coq_xH))))))) :: ((Npos (Coq_xI (Coq_xO (Coq_xO (Coq_xI (Coq_xO (Coq_xO
    Coq_xH))))))) :: ((Npos (Coq_xI (Coq_xI (Coq_xO (Coq_xO (Coq_xI (Coq_xO
    Coq_xH))))))) :: ((Npos (Coq_xO (Coq_xI (Coq_xI (Coq_xO (Coq_xO (Coq_xO
    Coq_xH))))))) :: ((Npos (Coq_xI (Coq_xO (Coq_xO (Coq_xI (Coq_xO (Coq_xO
    Coq_xH))))))) :: ((Npos (Coq_xI (Coq_xO (Coq_xO (Coq_xO (Coq_xO (Coq_xO
    Coq_xH))))))) :: ((Npos (Coq_xO (Coq_xI (Coq_xO (Coq_xO (Coq_xO (Coq_xO
    Coq_xH))))))) :: ((Npos (Coq_xO (Coq_xO (Coq_xI (Coq_xI (Coq_xO (Coq_xO
    Coq_xH))))))) :: ((Npos (Coq_xI (Coq_xO (Coq_xI (Coq_xO (Coq_xO (Coq_xO
    Coq_xH))))))) :: []))))))))))))

(** val b_unsat : bytes **)

let b_unsat =
  (Npos (Coq_xI (Coq_xI (Coq_xO (Coq_xO (Coq_xI (Coq_xI
    Coq_xH))))))) :: ((Npos (Coq_xO (Coq_xO (Coq_xO (Coq_xO (Coq_xO
    Coq_xH)))))) :: ((Npos (Coq_xI (Coq_xO (Coq_xI (Coq_xO (Coq_xI (Coq_xO
    Coq_xH))))))) :: ((Npos (Coq_xO (Coq_xI (Coq_xI (Coq_xI (Coq_xO (Coq_xO
    Coq_xH))))))) :: ((Npos (Coq_xI (Coq_xI (Coq_xO (Coq_xO (Coq_xI (Coq_xO
    Coq_xH))))))) :: ((Npos (Coq_xI (Coq_xO (Coq_xO (Coq_xO (Coq_xO (Coq_xO
    Coq_xH))))))) :: ((Npos (Coq_xO (Coq_xO (Coq_xI (Coq_xO (Coq_xI (Coq_xO
    Coq_xH))))))) :: ((Npos (Coq_xI (Coq_xO (Coq_xO (Coq_xI (Coq_xO (Coq_xO
    Coq_xH))))))) :: ((Npos (Coq_xI (Coq_xI (Coq_xO (Coq_xO (Coq_xI (Coq_xO
    Coq_xH))))))) :: ((Npos (Coq_xO (Coq_xI (Coq_xI (Coq_xO (Coq_xO (Coq_xO
    Coq_xH))))))) :: ((Npos (Coq_xI (Coq_xO (Coq_xO (Coq_xI (Coq_xO (Coq_xO
    Coq_xH))))))) :: ((Npos (Coq_xI (Coq_xO (Coq_xO (Coq_xO (Coq_xO (Coq_xO
    Coq_xH))))))) :: ((Npos (Coq_xO (Coq_xI (Coq_xO (Coq_xO (Coq_xO (Coq_xO
    Coq_xH))))))) :: ((Npos (Coq_xO (Coq_xO (Coq_xI (Coq_xI (Coq_xO (Coq_xO
    Coq_xH))))))) :: ((Npos (Coq_xI (Coq_xO (Coq_xI (Coq_xO (Coq_xO (Coq_xO
    Coq_xH))))))) :: []))))))))))))))

(** val b_v_sp : bytes **)

let b_v_sp =
  (Npos (Coq_xO (Coq_xI (Coq_xI (Coq_xO (Coq_xI (Coq_xI
    Coq_xH))))))) :: ((Npos (Coq_xO (Coq_xO (Coq_xO (Coq_xO (Coq_xO
    Coq_xH)))))) :: [])

(** val b_c_sp : bytes **)

let b_c_sp =
  (Npos (Coq_xI (Coq_xI (Coq_xO (Coq_xO (Coq_xO (Coq_xI
    Coq_xH))))))) :: ((Npos (Coq_xO (Coq_xO (Coq_xO (Coq_xO (Coq_xO
    Coq_xH)))))) :: [])

(** val b_c : bytes **)

let b_c =
  (Npos (Coq_xI (Coq_xI (Coq_xO (Coq_xO (Coq_xO (Coq_xI Coq_xH))))))) :: []

(** val b_v : bytes **)

let b_v =
  (Npos (Coq_xO (Coq_xI (Coq_xI (Coq_xO (Coq_xI (Coq_xI Coq_xH))))))) :: []

(** val b_p : bytes **)

let b_p =
  (Npos (Coq_xO (Coq_xO (Coq_xO (Coq_xO (Coq_xI (Coq_xI Coq_xH))))))) :: []

(** val b_cnf : bytes **)

let b_cnf =
  (Npos (Coq_xI (Coq_xI (Coq_xO (Coq_xO (Coq_xO (Coq_xI
    Coq_xH))))))) :: ((Npos (Coq_xO (Coq_xI (Coq_xI (Coq_xI (Coq_xO (Coq_xI
    Coq_xH))))))) :: ((Npos (Coq_xO (Coq_xI (Coq_xI (Coq_xO (Coq_xO (Coq_xI
    Coq_xH))))))) :: []))

(** val b_p_cnf_sp : bytes **)

let b_p_cnf_sp =
  (Npos (Coq_xO (Coq_xO (Coq_xO (Coq_xO (Coq_xI (Coq_xI
    Coq_xH))))))) :: ((Npos (Coq_xO (Coq_xO (Coq_xO (Coq_xO (Coq_xO
    Coq_xH)))))) :: ((Npos (Coq_xI (Coq_xI (Coq_xO (Coq_xO (Coq_xO (Coq_xI
    Coq_xH))))))) :: ((Npos (Coq_xO (Coq_xI (Coq_xI (Coq_xI (Coq_xO (Coq_xI
    Coq_xH))))))) :: ((Npos (Coq_xO (Coq_xI (Coq_xI (Coq_xO (Coq_xO (Coq_xI
    Coq_xH))))))) :: ((Npos (Coq_xO (Coq_xO (Coq_xO (Coq_xO (Coq_xO
    Coq_xH)))))) :: [])))))

(** val b_sp_0 : bytes **)

let b_sp_0 =
  (Npos (Coq_xO (Coq_xO (Coq_xO (Coq_xO (Coq_xO Coq_xH)))))) :: ((Npos
    (Coq_xO (Coq_xO (Coq_xO (Coq_xO (Coq_xI Coq_xH)))))) :: [])

(** val b_error : bytes **)

let b_error =
  (Npos (Coq_xI (Coq_xI (Coq_xO (Coq_xO (Coq_xO (Coq_xI
    Coq_xH))))))) :: ((Npos (Coq_xO (Coq_xO (Coq_xO (Coq_xO (Coq_xO
    Coq_xH)))))) :: ((Npos (Coq_xI (Coq_xO (Coq_xI (Coq_xO (Coq_xO (Coq_xI
    Coq_xH))))))) :: ((Npos (Coq_xO (Coq_xI (Coq_xO (Coq_xO (Coq_xI (Coq_xI
    Coq_xH))))))) :: ((Npos (Coq_xO (Coq_xI (Coq_xO (Coq_xO (Coq_xI (Coq_xI
    Coq_xH))))))) :: ((Npos (Coq_xI (Coq_xI (Coq_xI (Coq_xI (Coq_xO (Coq_xI
    Coq_xH))))))) :: ((Npos (Coq_xO (Coq_xI (Coq_xO (Coq_xO (Coq_xI (Coq_xI
    Coq_xH))))))) :: ((Npos (Coq_xO (Coq_xI (Coq_xO (Coq_xI (Coq_xI
    Coq_xH)))))) :: ((Npos (Coq_xO (Coq_xO (Coq_xO (Coq_xO (Coq_xO
    Coq_xH)))))) :: ((Npos (Coq_xI (Coq_xO (Coq_xO (Coq_xI (Coq_xO (Coq_xI
    Coq_xH))))))) :: ((Npos (Coq_xO (Coq_xO (Coq_xI (Coq_xI (Coq_xO (Coq_xI
    Coq_xH))))))) :: ((Npos (Coq_xO (Coq_xO (Coq_xI (Coq_xI (Coq_xO (Coq_xI
    Coq_xH))))))) :: ((Npos (Coq_xI (Coq_xO (Coq_xI (Coq_xI (Coq_xO
    Coq_xH)))))) :: ((Npos (Coq_xO (Coq_xI (Coq_xI (Coq_xO (Coq_xO (Coq_xI
    Coq_xH))))))) :: ((Npos (Coq_xI (Coq_xI (Coq_xI (Coq_xI (Coq_xO (Coq_xI
    Coq_xH))))))) :: ((Npos (Coq_xO (Coq_xI (Coq_xO (Coq_xO (Coq_xI (Coq_xI
    Coq_xH))))))) :: ((Npos (Coq_xI (Coq_xO (Coq_xI (Coq_xI (Coq_xO (Coq_xI
    Coq_xH))))))) :: ((Npos (Coq_xI (Coq_xO (Coq_xI (Coq_xO (Coq_xO (Coq_xI
    Coq_xH))))))) :: ((Npos (Coq_xO (Coq_xO (Coq_xI (Coq_xO (Coq_xO (Coq_xI
    Coq_xH))))))) :: ((Npos (Coq_xO (Coq_xO (Coq_xO (Coq_xO (Coq_xO
    Coq_xH)))))) :: ((Npos (Coq_xI (Coq_xO (Coq_xO (Coq_xI (Coq_xO (Coq_xI
    Coq_xH))))))) :: ((Npos (Coq_xO (Coq_xI (Coq_xI (Coq_xI (Coq_xO (Coq_xI
    Coq_xH))))))) :: ((Npos (Coq_xI (Coq_xI (Coq_xO (Coq_xO (Coq_xI (Coq_xI
    Coq_xH))))))) :: ((Npos (Coq_xO (Coq_xO (Coq_xI (Coq_xO (Coq_xI (Coq_xI
    Coq_xH))))))) :: ((Npos (Coq_xI (Coq_xO (Coq_xO (Coq_xO (Coq_xO (Coq_xI
    Coq_xH))))))) :: ((Npos (Coq_xO (Coq_xI (Coq_xI (Coq_xI (Coq_xO (Coq_xI
    Coq_xH))))))) :: ((Npos (Coq_xI (Coq_xI (Coq_xO (Coq_xO (Coq_xO (Coq_xI
    Coq_xH))))))) :: ((Npos (Coq_xI (Coq_xO (Coq_xI (Coq_xO (Coq_xO (Coq_xI
    Coq_xH))))))) :: [])))))))))))))))))))))))))))

(** val bytes_eqb : bytes -> bytes -> bool **)

let rec bytes_eqb a b =
  match a with
  | [] -> (match b with
           | [] -> true
           | _ :: _ -> false)
  | x :: a' ->
    (match b with
     | [] -> false
     | y :: b' -> (&&) (N.eqb x y) (bytes_eqb a' b'))

(** val prefixb : bytes -> bytes -> bool **)

let rec prefixb p l =
  match p with
  | [] -> true
  | x :: p' ->
    (match l with
     | [] -> false
     | y :: l' -> (&&) (N.eqb x y) (prefixb p' l'))

(** val is_nil : 'a1 list -> bool **)

let is_nil = function
| [] -> true
| _ :: _ -> false

(** val uint_bytes : uint -> bytes **)

let rec uint_bytes = function
| Nil -> []
| D0 u ->
  (Npos (Coq_xO (Coq_xO (Coq_xO (Coq_xO (Coq_xI Coq_xH)))))) :: (uint_bytes u)
| D1 u ->
  (Npos (Coq_xI (Coq_xO (Coq_xO (Coq_xO (Coq_xI Coq_xH)))))) :: (uint_bytes u)
| D2 u ->
  (Npos (Coq_xO (Coq_xI (Coq_xO (Coq_xO (Coq_xI Coq_xH)))))) :: (uint_bytes u)
| D3 u ->
  (Npos (Coq_xI (Coq_xI (Coq_xO (Coq_xO (Coq_xI Coq_xH)))))) :: (uint_bytes u)
| D4 u ->
  (Npos (Coq_xO (Coq_xO (Coq_xI (Coq_xO (Coq_xI Coq_xH)))))) :: (uint_bytes u)
| D5 u ->
  (Npos (Coq_xI (Coq_xO (Coq_xI (Coq_xO (Coq_xI Coq_xH)))))) :: (uint_bytes u)
| D6 u ->
  (Npos (Coq_xO (Coq_xI (Coq_xI (Coq_xO (Coq_xI Coq_xH)))))) :: (uint_bytes u)
| D7 u ->
  (Npos (Coq_xI (Coq_xI (Coq_xI (Coq_xO (Coq_xI Coq_xH)))))) :: (uint_bytes u)
| D8 u ->
  (Npos (Coq_xO (Coq_xO (Coq_xO (Coq_xI (Coq_xI Coq_xH)))))) :: (uint_bytes u)
| D9 u ->
  (Npos (Coq_xI (Coq_xO (Coq_xO (Coq_xI (Coq_xI Coq_xH)))))) :: (uint_bytes u)

(** val digit_of : byte -> (uint -> uint) option **)

let digit_of b =
  if N.eqb b (Npos (Coq_xO (Coq_xO (Coq_xO (Coq_xO (Coq_xI Coq_xH))))))
  then Some (fun x -> D0 x)
  else if N.eqb b (Npos (Coq_xI (Coq_xO (Coq_xO (Coq_xO (Coq_xI Coq_xH))))))
       then Some (fun x -> D1 x)
       else if N.eqb b (Npos (Coq_xO (Coq_xI (Coq_xO (Coq_xO (Coq_xI
                 Coq_xH))))))
            then Some (fun x -> D2 x)
            else if N.eqb b (Npos (Coq_xI (Coq_xI (Coq_xO (Coq_xO (Coq_xI
                      Coq_xH))))))
                 then Some (fun x -> D3 x)
                 else if N.eqb b (Npos (Coq_xO (Coq_xO (Coq_xI (Coq_xO
                           (Coq_xI Coq_xH))))))
                      then Some (fun x -> D4 x)
                      else if N.eqb b (Npos (Coq_xI (Coq_xO (Coq_xI (Coq_xO
                                (Coq_xI Coq_xH))))))
                           then Some (fun x -> D5 x)
                           else if N.eqb b (Npos (Coq_xO (Coq_xI (Coq_xI
                                     (Coq_xO (Coq_xI Coq_xH))))))
                                then Some (fun x -> D6 x)
                                else if N.eqb b (Npos (Coq_xI (Coq_xI (Coq_xI
                                          (Coq_xO (Coq_xI Coq_xH))))))
                                     then Some (fun x -> D7 x)
                                     else if N.eqb b (Npos (Coq_xO (Coq_xO
                                               (Coq_xO (Coq_xI (Coq_xI
                                               Coq_xH))))))
                                          then Some (fun x -> D8 x)
                                          else if N.eqb b (Npos (Coq_xI
                                                    (Coq_xO (Coq_xO (Coq_xI
                                                    (Coq_xI Coq_xH))))))
                                               then Some (fun x -> D9 x)
                                               else None

(** val bytes_uint : bytes -> uint option **)

let rec bytes_uint = function
| [] -> Some Nil
| b :: r ->
  (match digit_of b with
   | Some d -> (match bytes_uint r with
                | Some u -> Some (d u)
                | None -> None)
   | None -> None)

(** val print_nat : nat -> bytes **)

let print_nat n =
  uint_bytes (N.to_uint (N.of_nat n))

(** val print_lit : coq_Z -> bytes **)

let print_lit z =
  match Z.to_int z with
  | Pos d -> uint_bytes d
  | Neg d ->
    (Npos (Coq_xI (Coq_xO (Coq_xI (Coq_xI (Coq_xO
      Coq_xH)))))) :: (uint_bytes d)

(** val split_sign : bytes -> bool * bytes **)

let split_sign tok = match tok with
| [] -> (false, tok)
| b :: r ->
  if N.eqb b (Npos (Coq_xI (Coq_xO (Coq_xI (Coq_xI (Coq_xO Coq_xH))))))
  then (true, r)
  else if N.eqb b (Npos (Coq_xI (Coq_xI (Coq_xO (Coq_xI (Coq_xO Coq_xH))))))
       then (false, r)
       else (false, tok)

(** val parse_Z : bytes -> coq_Z option **)

let parse_Z tok =
  let sd = split_sign tok in
  (match snd sd with
   | [] -> None
   | _ :: _ ->
     (match bytes_uint (snd sd) with
      | Some u ->
        let z = Z.of_N (N.of_uint u) in Some (if fst sd then Z.opp z else z)
      | None -> None))

(** val isize_min : coq_Z **)

let isize_min =
  Zneg (Coq_xO (Coq_xO (Coq_xO (Coq_xO (Coq_xO (Coq_xO (Coq_xO (Coq_xO
    (Coq_xO (Coq_xO (Coq_xO (Coq_xO (Coq_xO (Coq_xO (Coq_xO (Coq_xO (Coq_xO
    (Coq_xO (Coq_xO (Coq_xO (Coq_xO (Coq_xO (Coq_xO (Coq_xO (Coq_xO (Coq_xO
    (Coq_xO (Coq_xO (Coq_xO (Coq_xO (Coq_xO (Coq_xO (Coq_xO (Coq_xO (Coq_xO
    (Coq_xO (Coq_xO (Coq_xO (Coq_xO (Coq_xO (Coq_xO (Coq_xO (Coq_xO (Coq_xO
    (Coq_xO (Coq_xO (Coq_xO (Coq_xO (Coq_xO (Coq_xO (Coq_xO (Coq_xO (Coq_xO
    (Coq_xO (Coq_xO (Coq_xO (Coq_xO (Coq_xO (Coq_xO (Coq_xO (Coq_xO (Coq_xO
    (Coq_xO
    Coq_xH)))))))))))))))))))))))))))))))))))))))))))))))))))))))))))))))

(** val isize_max : coq_Z **)

let isize_max =
  Zpos (Coq_xI (Coq_xI (Coq_xI (Coq_xI (Coq_xI (Coq_xI (Coq_xI (Coq_xI
    (Coq_xI (Coq_xI (Coq_xI (Coq_xI (Coq_xI (Coq_xI (Coq_xI (Coq_xI (Coq_xI
    (Coq_xI (Coq_xI (Coq_xI (Coq_xI (Coq_xI (Coq_xI (Coq_xI (Coq_xI (Coq_xI
    (Coq_xI (Coq_xI (Coq_xI (Coq_xI (Coq_xI (Coq_xI (Coq_xI (Coq_xI (Coq_xI
    (Coq_xI (Coq_xI (Coq_xI (Coq_xI (Coq_xI (Coq_xI (Coq_xI (Coq_xI (Coq_xI
    (Coq_xI (Coq_xI (Coq_xI (Coq_xI (Coq_xI (Coq_xI (Coq_xI (Coq_xI (Coq_xI
    (Coq_xI (Coq_xI (Coq_xI (Coq_xI (Coq_xI (Coq_xI (Coq_xI (Coq_xI (Coq_xI
    Coq_xH))))))))))))))))))))))))))))))))))))))))))))))))))))))))))))))

(** val parse_isize : bytes -> coq_Z option **)

let parse_isize tok =
  match parse_Z tok with
  | Some z ->
    if (&&) (Z.leb isize_min z) (Z.leb z isize_max) then Some z else None
  | None -> None

(** val parse_lit_strict : bytes -> coq_Z option **)

let parse_lit_strict tok =
  match parse_Z tok with
  | Some z ->
    if (&&) (negb (Z.eqb z Z0)) (bytes_eqb (print_lit z) tok)
    then Some z
    else None
  | None -> None

(** val parse_nat_strict : bytes -> nat option **)

let parse_nat_strict tok =
  match bytes_uint tok with
  | Some u ->
    let n = N.to_nat (N.of_uint u) in
    if bytes_eqb (print_nat n) tok then Some n else None
  | None -> None

(** val fields : (byte -> bool) -> bytes -> bytes list **)

let rec fields sep = function
| [] -> [] :: []
| b :: r ->
  if sep b
  then [] :: (fields sep r)
  else (match fields sep r with
        | [] -> (b :: []) :: []
        | f :: rest -> (b :: f) :: rest)

(** val is_ws : byte -> bool **)

let is_ws b =
  (||)
    ((||)
      ((||)
        ((||)
          (N.eqb b (Npos (Coq_xO (Coq_xO (Coq_xO (Coq_xO (Coq_xO Coq_xH)))))))
          (N.eqb b (Npos (Coq_xI (Coq_xO (Coq_xO Coq_xH))))))
        (N.eqb b (Npos (Coq_xO (Coq_xI (Coq_xO Coq_xH))))))
      (N.eqb b (Npos (Coq_xO (Coq_xO (Coq_xI Coq_xH))))))
    (N.eqb b (Npos (Coq_xI (Coq_xO (Coq_xI Coq_xH)))))

(** val tokens : bytes -> bytes list **)

let tokens l =
  filter (fun t -> negb (is_nil t)) (fields is_ws l)

(** val raw_lines : bytes -> (bytes * bool) list **)

let rec raw_lines = function
| [] -> []
| b :: r ->
  if N.eqb b (Npos (Coq_xO (Coq_xI (Coq_xO Coq_xH))))
  then ([], true) :: (raw_lines r)
  else (match raw_lines r with
        | [] -> ((b :: []), false) :: []
        | p :: rest -> let (ln, t) = p in ((b :: ln), t) :: rest)

(** val strip_cr : bytes -> bytes **)

let strip_cr ln =
  match rev ln with
  | [] -> ln
  | b :: r ->
    (match b with
     | N0 -> ln
     | Npos p ->
       (match p with
        | Coq_xI p0 ->
          (match p0 with
           | Coq_xO p1 ->
             (match p1 with
              | Coq_xI p2 -> (match p2 with
                              | Coq_xH -> rev r
                              | _ -> ln)
              | _ -> ln)
           | _ -> ln)
        | _ -> ln))

(** val rust_line : (bytes * bool) -> bytes **)

let rust_line p =
  if snd p then strip_cr (fst p) else fst p

(** val in_range : coq_N -> coq_N -> coq_N -> bool **)

let in_range lo hi b =
  (&&) (N.leb lo b) (N.leb b hi)

(** val cont : coq_N -> bool **)

let cont b =
  in_range (Npos (Coq_xO (Coq_xO (Coq_xO (Coq_xO (Coq_xO (Coq_xO (Coq_xO
    Coq_xH)))))))) (Npos (Coq_xI (Coq_xI (Coq_xI (Coq_xI (Coq_xI (Coq_xI
    (Coq_xO Coq_xH)))))))) b

(** val utf8_valid : bytes -> bool **)

let rec utf8_valid = function
| [] -> true
| b0 :: r0 ->
  if N.ltb b0 (Npos (Coq_xO (Coq_xO (Coq_xO (Coq_xO (Coq_xO (Coq_xO (Coq_xO
       Coq_xH))))))))
  then utf8_valid r0
  else if in_range (Npos (Coq_xO (Coq_xI (Coq_xO (Coq_xO (Coq_xO (Coq_xO
            (Coq_xI Coq_xH)))))))) (Npos (Coq_xI (Coq_xI (Coq_xI (Coq_xI
            (Coq_xI (Coq_xO (Coq_xI Coq_xH)))))))) b0
       then (match r0 with
             | [] -> false
             | b1 :: r1 -> (&&) (cont b1) (utf8_valid r1))
       else if N.eqb b0 (Npos (Coq_xO (Coq_xO (Coq_xO (Coq_xO (Coq_xO (Coq_xI
                 (Coq_xI Coq_xH))))))))
            then (match r0 with
                  | [] -> false
                  | b1 :: l0 ->
                    (match l0 with
                     | [] -> false
                     | b2 :: r2 ->
                       (&&)
                         ((&&)
                           (in_range (Npos (Coq_xO (Coq_xO (Coq_xO (Coq_xO
                             (Coq_xO (Coq_xI (Coq_xO Coq_xH)))))))) (Npos
                             (Coq_xI (Coq_xI (Coq_xI (Coq_xI (Coq_xI (Coq_xI
                             (Coq_xO Coq_xH)))))))) b1) (cont b2))
                         (utf8_valid r2)))
            else if (||)
                      (in_range (Npos (Coq_xI (Coq_xO (Coq_xO (Coq_xO (Coq_xO
                        (Coq_xI (Coq_xI Coq_xH)))))))) (Npos (Coq_xO (Coq_xO
                        (Coq_xI (Coq_xI (Coq_xO (Coq_xI (Coq_xI
                        Coq_xH)))))))) b0)
                      (in_range (Npos (Coq_xO (Coq_xI (Coq_xI (Coq_xI (Coq_xO
                        (Coq_xI (Coq_xI Coq_xH)))))))) (Npos (Coq_xI (Coq_xI
                        (Coq_xI (Coq_xI (Coq_xO (Coq_xI (Coq_xI
                        Coq_xH)))))))) b0)
                 then (match r0 with
                       | [] -> false
                       | b1 :: l0 ->
                         (match l0 with
                          | [] -> false
                          | b2 :: r2 ->
                            (&&) ((&&) (cont b1) (cont b2)) (utf8_valid r2)))
                 else if N.eqb b0 (Npos (Coq_xI (Coq_xO (Coq_xI (Coq_xI
                           (Coq_xO (Coq_xI (Coq_xI Coq_xH))))))))
                      then (match r0 with
                            | [] -> false
                            | b1 :: l0 ->
                              (match l0 with
                               | [] -> false
                               | b2 :: r2 ->
                                 (&&)
                                   ((&&)
                                     (in_range (Npos (Coq_xO (Coq_xO (Coq_xO
                                       (Coq_xO (Coq_xO (Coq_xO (Coq_xO
                                       Coq_xH)))))))) (Npos (Coq_xI (Coq_xI
                                       (Coq_xI (Coq_xI (Coq_xI (Coq_xO
                                       (Coq_xO Coq_xH)))))))) b1) (cont b2))
                                   (utf8_valid r2)))
                      else if N.eqb b0 (Npos (Coq_xO (Coq_xO (Coq_xO (Coq_xO
                                (Coq_xI (Coq_xI (Coq_xI Coq_xH))))))))
                           then (match r0 with
                                 | [] -> false
                                 | b1 :: l0 ->
                                   (match l0 with
                                    | [] -> false
                                    | b2 :: l1 ->
                                      (match l1 with
                                       | [] -> false
                                       | b3 :: r3 ->
                                         (&&)
                                           ((&&)
                                             ((&&)
                                               (in_range (Npos (Coq_xO
                                                 (Coq_xO (Coq_xO (Coq_xO
                                                 (Coq_xI (Coq_xO (Coq_xO
                                                 Coq_xH)))))))) (Npos (Coq_xI
                                                 (Coq_xI (Coq_xI (Coq_xI
                                                 (Coq_xI (Coq_xI (Coq_xO
                                                 Coq_xH)))))))) b1) (cont b2))
                                             (cont b3)) (utf8_valid r3))))
                           else if in_range (Npos (Coq_xI (Coq_xO (Coq_xO
                                     (Coq_xO (Coq_xI (Coq_xI (Coq_xI
                                     Coq_xH)))))))) (Npos (Coq_xI (Coq_xI
                                     (Coq_xO (Coq_xO (Coq_xI (Coq_xI (Coq_xI
                                     Coq_xH)))))))) b0
                                then (match r0 with
                                      | [] -> false
                                      | b1 :: l0 ->
                                        (match l0 with
                                         | [] -> false
                                         | b2 :: l1 ->
                                           (match l1 with
                                            | [] -> false
                                            | b3 :: r3 ->
                                              (&&)
                                                ((&&)
                                                  ((&&) (cont b1) (cont b2))
                                                  (cont b3)) (utf8_valid r3))))
                                else if N.eqb b0 (Npos (Coq_xO (Coq_xO
                                          (Coq_xI (Coq_xO (Coq_xI (Coq_xI
                                          (Coq_xI Coq_xH))))))))
                                     then (match r0 with
                                           | [] -> false
                                           | b1 :: l0 ->
                                             (match l0 with
                                              | [] -> false
                                              | b2 :: l1 ->
                                                (match l1 with
                                                 | [] -> false
                                                 | b3 :: r3 ->
                                                   (&&)
                                                     ((&&)
                                                       ((&&)
                                                         (in_range (Npos
                                                           (Coq_xO (Coq_xO
                                                           (Coq_xO (Coq_xO
                                                           (Coq_xO (Coq_xO
                                                           (Coq_xO
                                                           Coq_xH))))))))
                                                           (Npos (Coq_xI
                                                           (Coq_xI (Coq_xI
                                                           (Coq_xI (Coq_xO
                                                           (Coq_xO (Coq_xO
                                                           Coq_xH)))))))) b1)
                                                         (cont b2)) (cont b3))
                                                     (utf8_valid r3))))
                                     else false

(** val print_clause : clause -> bytes **)

let print_clause c =
  app
    (concat
      (map (fun l ->
        app (print_lit l) ((Npos (Coq_xO (Coq_xO (Coq_xO (Coq_xO (Coq_xO
          Coq_xH)))))) :: [])) c)) ((Npos (Coq_xO (Coq_xO (Coq_xO (Coq_xO
    (Coq_xI Coq_xH)))))) :: ((Npos (Coq_xO (Coq_xI (Coq_xO Coq_xH)))) :: []))

(** val print_preamble : nat -> nat -> bytes **)

let print_preamble nv nc =
  app b_p_cnf_sp
    (app (print_nat nv)
      (app ((Npos (Coq_xO (Coq_xO (Coq_xO (Coq_xO (Coq_xO Coq_xH)))))) :: [])
        (app (print_nat nc) ((Npos (Coq_xO (Coq_xI (Coq_xO Coq_xH)))) :: []))))

(** val print_assumption : lit -> bytes **)

let print_assumption l =
  app (print_lit l) ((Npos (Coq_xO (Coq_xO (Coq_xO (Coq_xO (Coq_xO
    Coq_xH)))))) :: ((Npos (Coq_xO (Coq_xO (Coq_xO (Coq_xO (Coq_xI
    Coq_xH)))))) :: ((Npos (Coq_xO (Coq_xI (Coq_xO Coq_xH)))) :: [])))

(** val print_clauses : cnf -> bytes **)

let print_clauses f =
  concat (map print_clause f)

(** val print_instance : nat -> cnf -> bytes **)

let print_instance nv f =
  app (print_preamble nv (length f)) (print_clauses f)

(** val map_opt : ('a1 -> 'a2 option) -> 'a1 list -> 'a2 list option **)

let rec map_opt g = function
| [] -> Some []
| x :: r ->
  (match g x with
   | Some y ->
     (match map_opt g r with
      | Some ys -> Some (y :: ys)
      | None -> None)
   | None -> None)

(** val parse_clause_line : bytes -> clause option **)

let parse_clause_line ln =
  match rev
          (fields
            (N.eqb (Npos (Coq_xO (Coq_xO (Coq_xO (Coq_xO (Coq_xO Coq_xH)))))))
            ln) with
  | [] -> None
  | last :: rinit ->
    if bytes_eqb last ((Npos (Coq_xO (Coq_xO (Coq_xO (Coq_xO (Coq_xI
         Coq_xH)))))) :: [])
    then map_opt parse_lit_strict (rev rinit)
    else None

(** val parse_instance : bytes -> (nat * cnf) option **)

let parse_instance text =
  match fields (N.eqb (Npos (Coq_xO (Coq_xI (Coq_xO Coq_xH))))) text with
  | [] -> None
  | hdr :: rest ->
    (match rev rest with
     | [] -> None
     | b :: rlines ->
       (match b with
        | [] ->
          (match fields
                   (N.eqb (Npos (Coq_xO (Coq_xO (Coq_xO (Coq_xO (Coq_xO
                     Coq_xH))))))) hdr with
           | [] -> None
           | p :: l ->
             (match l with
              | [] -> None
              | c :: l0 ->
                (match l0 with
                 | [] -> None
                 | a :: l1 ->
                   (match l1 with
                    | [] -> None
                    | b0 :: l2 ->
                      (match l2 with
                       | [] ->
                         if (&&) (bytes_eqb p b_p) (bytes_eqb c b_cnf)
                         then (match parse_nat_strict a with
                               | Some nv ->
                                 (match parse_nat_strict b0 with
                                  | Some nc ->
                                    (match map_opt parse_clause_line
                                             (rev rlines) with
                                     | Some cls ->
                                       if (&&) (Nat.eqb (length cls) nc)
                                            (Nat.leb (cnf_max cls) nv)
                                       then Some (nv, cls)
                                       else None
                                     | None -> None)
                                  | None -> None)
                               | None -> None)
                         else None
                       | _ :: _ -> None)))))
        | _ :: _ -> None))

type reply =
| RSat of assignment
| RUnsat
| RUnknown
| RPanic

(** val set_at : nat -> 'a1 -> 'a1 list -> 'a1 list **)

let rec set_at i x = function
| [] -> []
| y :: r -> (match i with
             | O -> x :: r
             | S k -> y :: (set_at k x r))

type rstate = { st_status : bool option; st_assign : assignment;
                st_seen : bool; st_end : bool }

(** val rstate0 : nat -> rstate **)

let rstate0 n =
  { st_status = None; st_assign = (repeat None n); st_seen = false; st_end =
    false }

(** val do_token : nat -> rstate -> bytes -> rstate option **)

let do_token n s tok =
  match parse_isize tok with
  | Some z ->
    if Z.eqb z Z0
    then if s.st_end
         then None
         else Some { st_status = s.st_status; st_assign = s.st_assign;
                st_seen = s.st_seen; st_end = true }
    else if Z.leb (Z.of_nat n) (Z.sub (Z.abs z) (Zpos Coq_xH))
         then None
         else Some { st_status = s.st_status; st_assign =
                (set_at (Z.to_nat (Z.sub (Z.abs z) (Zpos Coq_xH))) (Some
                  (Z.ltb Z0 z)) s.st_assign); st_seen = s.st_seen; st_end =
                s.st_end }
  | None -> None

(** val do_tokens : nat -> rstate -> bytes list -> rstate option **)

let rec do_tokens n s = function
| [] -> Some s
| t :: r ->
  (match do_token n s t with
   | Some s' -> do_tokens n s' r
   | None -> None)

(** val set_status : rstate -> bool -> rstate option **)

let set_status s b =
  match s.st_status with
  | Some _ -> None
  | None ->
    Some { st_status = (Some b); st_assign = s.st_assign; st_seen =
      s.st_seen; st_end = s.st_end }

(** val do_line : nat -> rstate -> bytes -> rstate option **)

let do_line n s line =
  if bytes_eqb line b_sat
  then set_status s true
  else if bytes_eqb line b_unsat
       then set_status s false
       else if prefixb b_v_sp line
            then do_tokens n { st_status = s.st_status; st_assign =
                   s.st_assign; st_seen = true; st_end = s.st_end }
                   (tl (tokens line))
            else if (||)
                      ((||) ((||) (prefixb b_c_sp line) (bytes_eqb line b_c))
                        (bytes_eqb line b_v)) (is_nil line)
                 then Some s
                 else None

(** val do_lines : nat -> rstate -> (bytes * bool) list -> rstate option **)

let rec do_lines n s = function
| [] -> Some s
| p :: r ->
  if utf8_valid (fst p)
  then (match do_line n s (rust_line p) with
        | Some s' -> do_lines n s' r
        | None -> None)
  else None

(** val finish : rstate -> reply **)

let finish s =
  match s.st_status with
  | Some b ->
    if b
    then if (&&) s.st_seen s.st_end then RSat s.st_assign else RUnknown
    else RUnsat
  | None -> RUnknown

(** val reply_parse : nat -> bytes -> reply **)

let reply_parse n out =
  match do_lines n (rstate0 n) (raw_lines out) with
  | Some s -> finish s
  | None -> RPanic

type filler =
| FBare
| FText of bytes
| FEmpty
| FV

(** val filler_line : filler -> bytes **)

let filler_line = function
| FBare -> app b_c ((Npos (Coq_xO (Coq_xI (Coq_xO Coq_xH)))) :: [])
| FText t ->
  app b_c_sp (app t ((Npos (Coq_xO (Coq_xI (Coq_xO Coq_xH)))) :: []))
| FEmpty -> (Npos (Coq_xO (Coq_xI (Coq_xO Coq_xH)))) :: []
| FV -> app b_v ((Npos (Coq_xO (Coq_xI (Coq_xO Coq_xH)))) :: [])

(** val render_fill : filler list -> bytes **)

let render_fill fs =
  concat (map filler_line fs)

(** val model_lits_from : nat -> assignment -> lit list **)

let rec model_lits_from i = function
| [] -> []
| o :: r ->
  (match o with
   | Some b ->
     if b
     then (pos_lit i) :: (model_lits_from (S i) r)
     else (neg_lit i) :: (model_lits_from (S i) r)
   | None -> model_lits_from (S i) r)

(** val model_lits : assignment -> lit list **)

let model_lits m =
  model_lits_from (S O) m

(** val v_line : lit list -> bool -> bytes **)

let v_line ls term =
  app b_v
    (app
      (concat
        (map (fun l -> (Npos (Coq_xO (Coq_xO (Coq_xO (Coq_xO (Coq_xO
          Coq_xH)))))) :: (print_lit l)) ls))
      (app (if term then b_sp_0 else []) ((Npos (Coq_xO (Coq_xI (Coq_xO
        Coq_xH)))) :: [])))

type layout = (filler list * nat) list

(** val render_v : layout -> lit list -> bytes **)

let rec render_v lay ls =
  match lay with
  | [] -> v_line ls true
  | p :: r ->
    let (fs, k) = p in
    app (render_fill fs)
      (app (v_line (firstn k ls) false) (render_v r (skipn k ls)))

(** val status_sat : bytes **)

let status_sat =
  app b_sat ((Npos (Coq_xO (Coq_xI (Coq_xO Coq_xH)))) :: [])

(** val status_unsat : bytes **)

let status_unsat =
  app b_unsat ((Npos (Coq_xO (Coq_xI (Coq_xO Coq_xH)))) :: [])

(** val render_sat :
    bool -> filler list -> layout -> filler list -> assignment -> bytes **)

let render_sat status_last pre lay post m =
  app (render_fill pre)
    (app (if status_last then [] else status_sat)
      (app (render_v lay (model_lits m))
        (app (if status_last then status_sat else []) (render_fill post))))

(** val render_unsat : filler list -> filler list -> bytes **)

let render_unsat pre post =
  app (render_fill pre) (app status_unsat (render_fill post))

(** val default_layout : assignment -> layout **)

let default_layout m =
  repeat ([], (S (S (S (S (S (S (S (S O)))))))))
    (Nat.div (length (model_lits m)) (S (S (S (S (S (S (S (S O)))))))))

(** val print_reply : assignment option -> bytes **)

let print_reply = function
| Some m -> render_sat false [] (default_layout m) [] m
| None -> render_unsat [] []
