open BinNums

val white_space_ranges : (coq_N * coq_N) list

val decimal_number_ranges : (coq_N * coq_N) list
