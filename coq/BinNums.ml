
type positive =
| Coq_xI of positive
| Coq_xO of positive
| Coq_xH

type coq_Z =
| Z0
| Zpos of positive
| Zneg of positive
