open BinNums
open BinPos
open Datatypes
open Decimal

module N :
 sig
  val compare : coq_N -> coq_N -> comparison

  val eqb : coq_N -> coq_N -> bool

  val leb : coq_N -> coq_N -> bool

  val ltb : coq_N -> coq_N -> bool

  val to_nat : coq_N -> nat

  val of_nat : nat -> coq_N

  val of_uint : uint -> coq_N

  val to_uint : coq_N -> uint
 end
