open BinNums
open BinPos
open Datatypes
open Decimal

module N :
 sig
  val succ_double : coq_N -> coq_N

  val double : coq_N -> coq_N

  val add : coq_N -> coq_N -> coq_N

  val sub : coq_N -> coq_N -> coq_N

  val mul : coq_N -> coq_N -> coq_N

  val compare : coq_N -> coq_N -> comparison

  val eqb : coq_N -> coq_N -> bool

  val leb : coq_N -> coq_N -> bool

  val ltb : coq_N -> coq_N -> bool

  val log2 : coq_N -> coq_N

  val size_nat : coq_N -> nat

  val pos_div_eucl : positive -> coq_N -> coq_N * coq_N

  val div_eucl : coq_N -> coq_N -> coq_N * coq_N

  val div : coq_N -> coq_N -> coq_N

  val modulo : coq_N -> coq_N -> coq_N

  val to_nat : coq_N -> nat

  val of_nat : nat -> coq_N

  val of_uint : uint -> coq_N

  val to_uint : coq_N -> uint
 end
