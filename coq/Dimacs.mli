open BinInt
open BinNat
open BinNums
open Cnf
open Datatypes
open Decimal
open List
open PeanoNat

type byte = coq_N

type bytes = byte list

val b_sat : bytes

val b_unsat : bytes

val b_v_sp : bytes

val b_c_sp : bytes

val b_c : bytes

val b_v : bytes

val b_p : bytes

val b_cnf : bytes

val b_p_cnf_sp : bytes

val b_sp_0 : bytes

val b_error : bytes

val bytes_eqb : bytes -> bytes -> bool

val prefixb : bytes -> bytes -> bool

val is_nil : 'a1 list -> bool

val uint_bytes : uint -> bytes

val digit_of : byte -> (uint -> uint) option

val bytes_uint : bytes -> uint option

val print_nat : nat -> bytes

val print_lit : coq_Z -> bytes

val split_sign : bytes -> bool * bytes

val parse_Z : bytes -> coq_Z option

val isize_min : coq_Z

val isize_max : coq_Z

val parse_isize : bytes -> coq_Z option

val parse_lit_strict : bytes -> coq_Z option

val parse_nat_strict : bytes -> nat option

val fields : (byte -> bool) -> bytes -> bytes list

val is_ws : byte -> bool

val tokens : bytes -> bytes list

val raw_lines : bytes -> (bytes * bool) list

val strip_cr : bytes -> bytes

val rust_line : (bytes * bool) -> bytes

val in_range : coq_N -> coq_N -> coq_N -> bool

val cont : coq_N -> bool

val utf8_valid : bytes -> bool

val print_clause : clause -> bytes

val print_preamble : nat -> nat -> bytes

val print_assumption : lit -> bytes

val print_clauses : cnf -> bytes

val print_instance : nat -> cnf -> bytes

val map_opt : ('a1 -> 'a2 option) -> 'a1 list -> 'a2 list option

val parse_clause_line : bytes -> clause option

val parse_instance : bytes -> (nat * cnf) option

type reply =
| RSat of assignment
| RUnsat
| RUnknown
| RPanic

val set_at : nat -> 'a1 -> 'a1 list -> 'a1 list

type rstate = { st_status : bool option; st_assign : assignment;
                st_seen : bool; st_end : bool }

val rstate0 : nat -> rstate

val do_token : nat -> rstate -> bytes -> rstate option

val do_tokens : nat -> rstate -> bytes list -> rstate option

val set_status : rstate -> bool -> rstate option

val do_line : nat -> rstate -> bytes -> rstate option

val do_lines : nat -> rstate -> (bytes * bool) list -> rstate option

val finish : rstate -> reply

val reply_parse : nat -> bytes -> reply

type filler =
| FBare
| FText of bytes
| FEmpty
| FV

val filler_line : filler -> bytes

val render_fill : filler list -> bytes

val model_lits_from : nat -> assignment -> lit list

val model_lits : assignment -> lit list

val v_line : lit list -> bool -> bytes

type layout = (filler list * nat) list

val render_v : layout -> lit list -> bytes

val status_sat : bytes

val status_unsat : bytes

val render_sat :
  bool -> filler list -> layout -> filler list -> assignment -> bytes

val render_unsat : filler list -> filler list -> bytes

val default_layout : assignment -> layout

val print_reply : assignment option -> bytes
