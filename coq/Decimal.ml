
type uint =
| Nil
| D0 of uint
| D1 of uint
| D2 of uint
| D3 of uint
| D4 of uint
| D5 of uint
| D6 of uint
| D7 of uint
| D8 of uint
| D9 of uint

type signed_int =
| Pos of uint
| Neg of uint

(** val revapp : uint -> uint -> uint **)

let rec revapp d d' =
  match d with
  | Nil -> d'
  | D0 d0 -> revapp d0 (D0 d')
  | D1 d0 -> revapp d0 (D1 d')
  | D2 d0 -> revapp d0 (D2 d')
  | D3 d0 -> revapp d0 (D3 d')
  | D4 d0 -> revapp d0 (D4 d')
  | D5 d0 -> revapp d0 (D5 d')
  | D6 d0 -> revapp d0 (D6 d')
  | D7 d0 -> revapp d0 (D7 d')
  | D8 d0 -> revapp d0 (D8 d')
  | D9 d0 -> revapp d0 (D9 d')

(** val rev : uint -> uint **)

let rev d =
  revapp d Nil

module Little =
 struct
  (** val double : uint -> uint **)

  let rec double = function
  | Nil -> Nil
  | D0 d0 -> D0 (double d0)
  | D1 d0 -> D2 (double d0)
  | D2 d0 -> D4 (double d0)
  | D3 d0 -> D6 (double d0)
  | D4 d0 -> D8 (double d0)
  | D5 d0 -> D0 (succ_double d0)
  | D6 d0 -> D2 (succ_double d0)
  | D7 d0 -> D4 (succ_double d0)
  | D8 d0 -> D6 (succ_double d0)
  | D9 d0 -> D8 (succ_double d0)

  (** val succ_double : uint -> uint **)

  and succ_double = function
  | Nil -> D1 Nil
  | D0 d0 -> D1 (double d0)
  | D1 d0 -> D3 (double d0)
  | D2 d0 -> D5 (double d0)
  | D3 d0 -> D7 (double d0)
  | D4 d0 -> D9 (double d0)
  | D5 d0 -> D1 (succ_double d0)
  | D6 d0 -> D3 (succ_double d0)
  | D7 d0 -> D5 (succ_double d0)
  | D8 d0 -> D7 (succ_double d0)
  | D9 d0 -> D9 (succ_double d0)
 end
