open BinInt
open Cnf
open Datatypes
open List
open PeanoNat

(** val memz : lit -> lit list -> bool **)

let memz l tr =
  existsb (Z.eqb l) tr

(** val assigned : lit list -> nat -> bool **)

let assigned tr x =
  (||) (memz (pos_lit x) tr) (memz (neg_lit x) tr)

(** val unassigned_vars : nat -> lit list -> nat list **)

let unassigned_vars n tr =
  filter (fun x -> negb (assigned tr x)) (seq (S O) n)

type info =
| Conflict
| UnitLit of lit
| NoInfo

(** val analyse : lit list -> cnf -> info **)

let rec analyse tr = function
| [] -> NoInfo
| c :: r ->
  if existsb (fun l -> memz l tr) c
  then analyse tr r
  else (match filter (fun l -> negb (memz (Z.opp l) tr)) c with
        | [] -> Conflict
        | l :: l0 -> (match l0 with
                      | [] -> UnitLit l
                      | _ :: _ -> analyse tr r))

(** val assignment_of_lits : nat -> lit list -> assignment **)

let assignment_of_lits n tr =
  map (fun x -> Some (memz (pos_lit x) tr)) (seq (S O) n)

(** val leaf : nat -> lit list -> cnf -> assignment option **)

let leaf n tr f =
  let m = assignment_of_lits n tr in if models m f then Some m else None

(** val dpll : nat -> nat -> lit list -> cnf -> assignment option **)

let rec dpll k n tr f =
  match k with
  | O -> leaf n tr f
  | S k' ->
    (match analyse tr f with
     | Conflict -> None
     | UnitLit l -> dpll k' n (l :: tr) f
     | NoInfo ->
       (match unassigned_vars n tr with
        | [] -> leaf n tr f
        | x :: _ ->
          (match dpll k' n ((pos_lit x) :: tr) f with
           | Some m -> Some m
           | None -> dpll k' n ((neg_lit x) :: tr) f)))

(** val solve_n : nat -> cnf -> lit list -> assignment option **)

let solve_n n c a =
  dpll n n [] (app c (units a))

(** val solve : cnf -> lit list -> assignment option **)

let solve c a =
  solve_n (Nat.max (cnf_max c) (clause_max a)) c a

(** val solve_answer : nat -> cnf -> lit list -> answer **)

let solve_answer n c a =
  match solve_n n c a with
  | Some m -> Sat m
  | None -> Unsat
