open AF
open Cnf
open Datatypes
open Encoders
open Graph
open List
open Nat
open Prog

type mstate =
| MMaximal
| MIntermediate
| MJustDiscarded
| MNone
| MInit

type flavour =
| FPref
| FRange
| FIdeal of lit list

type computer = { c_e : enc; c_n : nat; c_has : (nat -> bool); c_g : 
                  gview; c_a2e : (assignment -> nat list); c_cur : nat list;
                  c_model : assignment option; c_state : mstate; c_sel : 
                  lit; c_fl : flavour; c_addl : lit list }

val with_cur : computer -> nat list -> assignment option -> mstate -> computer

val with_state : computer -> mstate -> computer

val split_in_extension :
  enc -> nat -> (nat -> bool) -> nat list -> lit list * lit list

val split_in_range : computer -> lit list * lit list

val encode_m : nat -> enc -> bool -> af -> unit coq_M

val new_computer :
  enc -> nat -> (nat -> bool) -> gview -> (assignment -> nat list) -> flavour
  -> computer coq_M

val new_cc_computer : enc -> af -> flavour -> computer coq_M

val solve_c :
  (nat -> cnf -> lit list -> answer) -> computer -> lit list ->
  (assignment * nat list) option coq_M

val increase_assumptions : computer -> lit list coq_M

val discard_maximal : computer -> unit coq_M

val discard_current : computer -> unit coq_M

val new_search :
  (nat -> cnf -> lit list -> answer) -> computer -> computer coq_M

val compute_next :
  (nat -> cnf -> lit list -> answer) -> computer -> computer coq_M

val discard_current_search : computer -> computer coq_M

val drop : computer -> unit coq_M

val compute_maximal :
  (nat -> cnf -> lit list -> answer) -> nat -> computer -> nat list coq_M

val meets : nat list -> nat list -> bool

val lift : comp -> nat list -> nat list

val locals : comp -> nat list -> nat list option

val ccs_m : gview -> comp list coq_M

val remaining_m : gview -> ccstate -> comp list coq_M

val merged_m : gview -> nat list -> (ccstate * comp) coq_M

val locals_m : comp -> nat list -> nat list coq_M

val for_ccs : comp list -> 'a1 -> ('a1 -> comp -> 'a1 coq_M) -> 'a1 coq_M

val gr_se : gview -> nat list

val gr_dc : gview -> nat list -> bool * nat list option

val gr_ds : gview -> nat list -> bool * nat list option

val co_dc :
  (nat -> cnf -> lit list -> answer) -> nat -> enc -> gview -> nat list ->
  bool coq_M

val co_dc_cert :
  (nat -> cnf -> lit list -> answer) -> nat -> enc -> gview -> nat list ->
  (bool * nat list option) coq_M

val st_a2e : comp -> assignment -> nat list

val st_se :
  (nat -> cnf -> lit list -> answer) -> nat -> gview -> nat list option coq_M

val st_accept :
  (nat -> cnf -> lit list -> answer) -> nat -> gview -> nat list -> bool ->
  bool -> (bool * nat list option) coq_M

val st_dc :
  (nat -> cnf -> lit list -> answer) -> nat -> gview -> nat list ->
  (bool * nat list option) coq_M

val st_ds :
  (nat -> cnf -> lit list -> answer) -> nat -> gview -> nat list ->
  (bool * nat list option) coq_M

val pr_max_in_cc :
  (nat -> cnf -> lit list -> answer) -> nat -> nat -> enc -> comp -> nat list
  coq_M

val pr_se :
  (nat -> cnf -> lit list -> answer) -> nat -> nat -> enc -> gview -> nat
  list option coq_M

val pr_ds_loop :
  (nat -> cnf -> lit list -> answer) -> nat -> af -> nat list -> bool ->
  computer -> (bool * nat list option) coq_M

val pr_ds_in_cc :
  (nat -> cnf -> lit list -> answer) -> nat -> nat -> enc -> comp -> nat list
  -> bool -> (bool * nat list option) coq_M

val pr_ds :
  (nat -> cnf -> lit list -> answer) -> nat -> nat -> enc -> gview -> nat
  list -> bool coq_M

val pr_ds_cert :
  (nat -> cnf -> lit list -> answer) -> nat -> nat -> enc -> gview -> nat
  list -> (bool * nat list option) coq_M

val rg_max_in_cc :
  (nat -> cnf -> lit list -> answer) -> nat -> nat -> enc -> comp -> nat list
  coq_M

val rg_se :
  (nat -> cnf -> lit list -> answer) -> nat -> nat -> enc -> gview -> nat
  list option coq_M

val rg_loop :
  (nat -> cnf -> lit list -> answer) -> nat -> enc -> nat -> nat list -> bool
  -> computer -> (bool * nat list option) coq_M

val rg_in_cc :
  (nat -> cnf -> lit list -> answer) -> nat -> nat -> enc -> comp -> nat list
  -> bool -> (bool * nat list option) coq_M

val rg_accept :
  (nat -> cnf -> lit list -> answer) -> nat -> nat -> enc -> gview -> nat
  list -> bool -> bool coq_M

val rg_accept_cert :
  (nat -> cnf -> lit list -> answer) -> nat -> nat -> enc -> gview -> nat
  list -> bool -> (bool * nat list option) coq_M

val id_enum_loop :
  (nat -> cnf -> lit list -> answer) -> nat -> nat -> nat -> computer -> bool
  list -> nat -> nat -> ((bool list * nat) * nat) coq_M

val id_in_all :
  (nat -> cnf -> lit list -> answer) -> nat -> nat -> enc -> af -> nat ->
  ((bool list * nat) * nat) coq_M

val id_forbidden : enc -> bool list -> lit list

val id_single : bool list -> nat list

val id_maximal_allowed :
  (nat -> cnf -> lit list -> answer) -> nat -> enc -> af -> bool list -> nat
  list coq_M

val id_ext_for_cc :
  (nat -> cnf -> lit list -> answer) -> nat -> nat -> enc -> af -> nat list
  coq_M

val id_se :
  (nat -> cnf -> lit list -> answer) -> nat -> nat -> enc -> gview -> nat
  list option coq_M

val id_cred_for_cc :
  (nat -> cnf -> lit list -> answer) -> nat -> nat -> enc -> af -> nat list
  -> (bool * nat list option) coq_M

val id_dc :
  (nat -> cnf -> lit list -> answer) -> nat -> nat -> enc -> gview -> nat
  list -> bool coq_M

val id_dc_cert :
  (nat -> cnf -> lit list -> answer) -> nat -> nat -> enc -> gview -> nat
  list -> (bool * nat list option) coq_M

val id_ds_cert :
  (nat -> cnf -> lit list -> answer) -> nat -> nat -> enc -> gview -> nat
  list -> (bool * nat list option) coq_M

type query =
| QSE
| QDC
| QDS

type outcome =
| OExt of nat list option
| OAcc of bool * nat list option

val run_query :
  (nat -> cnf -> lit list -> answer) -> nat -> nat -> sem -> query -> bool ->
  enc -> gview -> nat list -> outcome coq_M
