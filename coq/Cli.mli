open AF
open BinNat
open BinNums
open Cnf
open Datatypes
open Encoders
open Graph
open List
open Nat
open Prog
open Solvers
open Store

type bytes = coq_N list

val beqb : bytes -> bytes -> bool

val bmem : bytes -> bytes list -> bool

val nl : coq_N

val space : coq_N

val comma : coq_N

val hyphen : coq_N

val lower_byte : coq_N -> coq_N

val lower : bytes -> bytes

val all_sems : sem list

val all_queries : query list

val sem_name : sem -> bytes

val query_name : query -> bytes

val problem_string : query -> sem -> bytes

val problems_21 : bytes list

val split_first : coq_N -> bytes -> (bytes * bytes) option

val query_of_bytes : bytes -> query option

val sem_of_bytes : bytes -> sem option

type perr =
| PNoHyphen
| PBadQuery
| PBadSem

val read_problem_string : bytes -> (perr, query * sem) sum

val solver_for : query -> sem -> sem

type encoding_opt =
| EncAbsent
| EncAuxVar
| EncExp
| EncHybrid

val encoder_for : bytes -> sem -> encoding_opt -> enc

type reader =
| RApx
| RIccma23
| RIccma23Aba

type writer =
| WApx
| WIccma

val writer_of : reader -> writer

type instance = { i_g : gview; i_label : (nat -> bytes);
                  i_arg : (bytes -> nat option) }

val dec_fuel : nat -> coq_N -> bytes -> bytes

val dec : coq_N -> bytes

val is_digit : coq_N -> bool

val digits_value : bytes -> coq_N -> coq_N option

val usize_limit : coq_N

val parse_usize : bytes -> coq_N option

val label_of : 'a1 fw -> nat -> 'a1 option

val iccma_instance : nat fw -> instance

val apx_instance : bytes fw -> instance

val status_line : bool -> bytes

val no_extension_line : bytes

val witness_line : writer -> (nat -> bytes) -> nat list -> bytes

val render : writer -> (nat -> bytes) -> outcome -> bytes

val problems_line : bytes

type options = { o_reader : reader; o_problem : bytes; o_arg : bytes option;
                 o_cert : bool; o_encoding : encoding_opt;
                 o_logging_off : bool }

type cli_result =
| Exit0 of bytes
| ExitNonZero
| ModelOutOfFuel

type uerr =
| UReaderAba
| UFile
| UArg
| UProblem of perr
| UMissingArg

val validate :
  options -> instance option -> (uerr, ((instance * query) * sem) * nat list)
  sum

val query_prog :
  (nat -> cnf -> lit list -> answer) -> nat -> nat -> options -> instance ->
  query -> sem -> nat list -> outcome coq_M

val run_traced :
  (nat -> cnf -> lit list -> answer) -> nat -> discipline -> nat -> options
  -> instance option -> cli_result * (nat * event) list

val run :
  (nat -> cnf -> lit list -> answer) -> nat -> discipline -> nat -> options
  -> instance option -> cli_result

val run_script :
  answer list -> nat -> discipline -> nat -> options -> instance option ->
  cli_result

val common_args : bytes list

val is_problems_only : bytes list -> bool

val wrapper_argv : bytes list -> bytes list

type popts = { p_f : bytes option; p_p : bytes option; p_a : bytes option;
               p_r : bytes option; p_enc : bytes option;
               p_log : bytes option; p_c : bool }

val popts_empty : popts

type optkey =
| KF
| KP
| KA
| KR
| KEnc
| KLog

val key_of : bool -> bytes -> optkey option

val get_key : optkey -> popts -> bytes option

val set_key : optkey -> bytes -> popts -> popts

val set_c : popts -> popts

val readers_possible : bytes list

val encodings_possible : bytes list

val levels_possible : bytes list

val value_ok : optkey -> bytes -> bool

val parse_tokens : bool -> bytes list -> popts -> popts option

val reader_of_bytes : bytes -> reader

val encoding_of_bytes : bytes option -> encoding_opt

val options_of : popts -> (options * bytes) option

type cmd =
| CSolve of options * bytes
| CProblems
| CReject
| CUnmodelled

val only_logging : bytes list -> bool

val parse_main : bytes list -> cmd

val parse_wrapper : bytes list -> cmd

val exec :
  (nat -> cnf -> lit list -> answer) -> nat -> discipline -> nat -> cmd ->
  instance option -> cli_result option

val split_on : coq_N -> bytes -> bytes list

val strip_last : bytes -> (bytes * coq_N) option

val map_opt : ('a1 -> 'a2 option) -> 'a1 list -> 'a2 list option

val parse_witness :
  writer -> (bytes -> nat option) -> bytes -> nat list option

val status_of_line : bytes -> bool option

val parse_answer :
  writer -> (bytes -> nat option) -> query -> bytes -> outcome option
