open BinInt
open BinNums
open Datatypes
open List
open Nat

type lit = coq_Z

type clause = lit list

type cnf = clause list

type assignment = bool option list

val lit_var : lit -> nat

val negate : lit -> lit

val value_of : assignment -> nat -> bool option

val lit_true : assignment -> lit -> bool

val sat_clause : assignment -> clause -> bool

val models : assignment -> cnf -> bool

type coq_val = nat -> bool

val val_of : assignment -> coq_val

val clause_max : clause -> nat

val cnf_max : cnf -> nat

val all_assignments : nat -> assignment list

val all_models : nat -> cnf -> assignment list

type answer =
| Sat of assignment
| Unsat
| Unknown

val valid_sat : cnf -> lit list -> assignment -> bool
