open BinNums
open BinPosDef
open Datatypes
open Decimal
open Nat

module Pos :
 sig
  val succ : positive -> positive

  val add : positive -> positive -> positive

  val add_carry : positive -> positive -> positive

  val pred_double : positive -> positive

  type mask = Pos.mask =
  | IsNul
  | IsPos of positive
  | IsNeg

  val succ_double_mask : mask -> mask

  val double_mask : mask -> mask

  val double_pred_mask : positive -> mask

  val sub_mask : positive -> positive -> mask

  val sub_mask_carry : positive -> positive -> mask

  val mul : positive -> positive -> positive

  val size_nat : positive -> nat

  val size : positive -> positive

  val compare_cont : comparison -> positive -> positive -> comparison

  val compare : positive -> positive -> comparison

  val eqb : positive -> positive -> bool

  val iter_op : ('a1 -> 'a1 -> 'a1) -> positive -> 'a1 -> 'a1

  val to_nat : positive -> nat

  val of_succ_nat : nat -> positive

  val of_uint_acc : uint -> positive -> positive

  val of_uint : uint -> coq_N

  val to_little_uint : positive -> uint

  val to_uint : positive -> uint
 end
