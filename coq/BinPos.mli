open BinNums
open BinPosDef
open Datatypes
open Nat

module Pos :
 sig
  val succ : positive -> positive

  val add : positive -> positive -> positive

  val add_carry : positive -> positive -> positive

  val pred_double : positive -> positive

  type mask = Pos.mask =
  | IsNul
  | IsPos of positive
  | IsNeg

  val succ_double_mask : mask -> mask

  val double_mask : mask -> mask

  val double_pred_mask : positive -> mask

  val sub_mask : positive -> positive -> mask

  val sub_mask_carry : positive -> positive -> mask

  val mul : positive -> positive -> positive

  val size : positive -> positive

  val compare_cont : comparison -> positive -> positive -> comparison

  val compare : positive -> positive -> comparison

  val eqb : positive -> positive -> bool

  val iter_op : ('a1 -> 'a1 -> 'a1) -> positive -> 'a1 -> 'a1

  val to_nat : positive -> nat

  val of_succ_nat : nat -> positive
 end
