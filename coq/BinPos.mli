open BinNums
open Datatypes
open Nat

module Pos :
 sig
  val succ : positive -> positive

  val compare_cont : comparison -> positive -> positive -> comparison

  val compare : positive -> positive -> comparison

  val iter_op : ('a1 -> 'a1 -> 'a1) -> positive -> 'a1 -> 'a1

  val to_nat : positive -> nat

  val of_succ_nat : nat -> positive
 end
