open AF
open Cnf
open Datatypes
open Encoders
open Graph
open List
open Nat
open Prog

type mstate =
| MMaximal
| MIntermediate
| MJustDiscarded
| MNone
| MInit

type flavour =
| FPref
| FRange
| FIdeal of lit list

type computer = { c_e : enc; c_n : nat; c_has : (nat -> bool); c_g : 
                  gview; c_a2e : (assignment -> nat list); c_cur : nat list;
                  c_model : assignment option; c_state : mstate; c_sel : 
                  lit; c_fl : flavour; c_addl : lit list }

(** val with_cur :
    computer -> nat list -> assignment option -> mstate -> computer **)

let with_cur c cur m s =
  { c_e = c.c_e; c_n = c.c_n; c_has = c.c_has; c_g = c.c_g; c_a2e = c.c_a2e;
    c_cur = cur; c_model = m; c_state = s; c_sel = c.c_sel; c_fl = c.c_fl;
    c_addl = c.c_addl }

(** val with_state : computer -> mstate -> computer **)

let with_state c s =
  with_cur c c.c_cur c.c_model s

(** val split_in_extension :
    enc -> nat -> (nat -> bool) -> nat list -> lit list * lit list **)

let split_in_extension e n_args has cur =
  let size = fold_left (fun acc a -> PeanoNat.Nat.max acc (S a)) cur n_args in
  let ids = filter has (seq O size) in
  ((map (arg_to_lit e) (filter (fun i -> memb i cur) ids)),
  (map (arg_to_lit e) (filter (fun i -> negb (memb i cur)) ids)))

(** val split_in_range : computer -> lit list * lit list **)

let split_in_range c =
  match first_range_var c.c_e c.c_n with
  | Some frv ->
    let vars = seq frv c.c_n in
    (match c.c_model with
     | Some m ->
       ((map zlit
          (filter (fun v ->
            negb
              (match value_of m v with
               | Some b -> if b then false else true
               | None -> false)) vars)),
         (map zlit
           (filter (fun v ->
             match value_of m v with
             | Some b -> if b then false else true
             | None -> false) vars)))
     | None ->
       let inrb = fun i ->
         (||) (memb i c.c_cur)
           (existsb (fun a -> memb i (c.c_g.g_from a)) c.c_cur)
       in
       ((map (fun i -> zlit (add frv i)) (filter inrb (seq O c.c_n))),
       (map (fun i -> zlit (add frv i))
         (filter (fun i -> negb (inrb i)) (seq O c.c_n)))))
  | None -> ([], [])

(** val encode_m : nat -> enc -> bool -> af -> unit coq_M **)

let encode_m thr e range f =
  match encode_af e thr range f with
  | Some p ->
    let (r, c) = p in
    bind (match r with
          | Some k -> reserve k
          | None -> ret ()) (fun _ -> add_clauses c)
  | None -> panic

(** val new_computer :
    enc -> nat -> (nat -> bool) -> gview -> (assignment -> nat list) ->
    flavour -> computer coq_M **)

let new_computer e n has g a2e fl =
  bind n_vars (fun nv ->
    ret { c_e = e; c_n = n; c_has = has; c_g = g; c_a2e = a2e; c_cur = [];
      c_model = None; c_state = MInit; c_sel = (zlit (add (S O) nv)); c_fl =
      fl; c_addl = [] })

(** val new_cc_computer : enc -> af -> flavour -> computer coq_M **)

let new_cc_computer e f fl =
  let n = length f.args in
  new_computer e n (fun i -> PeanoNat.Nat.ltb i n) (view_of_af f)
    (assignment_to_extension n e) fl

(** val solve_c :
    (nat -> cnf -> lit list -> answer) -> computer -> lit list ->
    (assignment * nat list) option coq_M **)

let solve_c oracle c a =
  bind (solve oracle (app a c.c_addl)) (fun r ->
    ret (option_map (fun m -> (m, (c.c_a2e m))) r))

(** val increase_assumptions : computer -> lit list coq_M **)

let increase_assumptions c =
  match c.c_fl with
  | FPref ->
    let (i, o) = split_in_extension c.c_e c.c_n c.c_has c.c_cur in
    bind (add_clause (app o (c.c_sel :: []))) (fun _ ->
      ret (app i ((negate c.c_sel) :: [])))
  | FRange ->
    let (i, o) = split_in_range c in
    bind (add_clause (app o (c.c_sel :: []))) (fun _ ->
      ret (app i ((negate c.c_sel) :: [])))
  | FIdeal forb ->
    let (i, o) = split_in_extension c.c_e c.c_n c.c_has c.c_cur in
    bind (add_clause (app o (c.c_sel :: []))) (fun _ ->
      ret (app i (app ((negate c.c_sel) :: []) forb)))

(** val discard_maximal : computer -> unit coq_M **)

let discard_maximal c =
  match c.c_fl with
  | FPref ->
    add_clause
      (app (snd (split_in_extension c.c_e c.c_n c.c_has c.c_cur))
        (c.c_sel :: []))
  | FRange -> add_clause (app (snd (split_in_range c)) (c.c_sel :: []))
  | FIdeal _ -> panic

(** val discard_current : computer -> unit coq_M **)

let discard_current c =
  match c.c_fl with
  | FPref ->
    add_clause
      (app (snd (split_in_extension c.c_e c.c_n c.c_has c.c_cur))
        (c.c_sel :: []))
  | _ -> panic

(** val new_search :
    (nat -> cnf -> lit list -> answer) -> computer -> computer coq_M **)

let new_search oracle c =
  bind (solve_c oracle c ((negate c.c_sel) :: [])) (fun r ->
    ret
      (match r with
       | Some p -> let (m, e) = p in with_cur c e (Some m) MIntermediate
       | None -> with_state c MNone))

(** val compute_next :
    (nat -> cnf -> lit list -> answer) -> computer -> computer coq_M **)

let compute_next oracle c =
  match c.c_state with
  | MMaximal -> bind (discard_maximal c) (fun _ -> new_search oracle c)
  | MIntermediate ->
    bind (increase_assumptions c) (fun a ->
      bind (solve_c oracle c a) (fun r ->
        ret
          (match r with
           | Some p -> let (m, e) = p in with_cur c e (Some m) MIntermediate
           | None -> with_state c MMaximal)))
  | MJustDiscarded -> new_search oracle c
  | MNone -> panic
  | MInit -> ret (with_cur c (grounded c.c_g) c.c_model MIntermediate)

(** val discard_current_search : computer -> computer coq_M **)

let discard_current_search c =
  bind (discard_current c) (fun _ -> ret (with_state c MJustDiscarded))

(** val drop : computer -> unit coq_M **)

let drop c =
  add_clause (c.c_sel :: [])

(** val compute_maximal :
    (nat -> cnf -> lit list -> answer) -> nat -> computer -> nat list coq_M **)

let rec compute_maximal oracle fuel c =
  match fuel with
  | O -> out_of_fuel
  | S f ->
    (match c.c_state with
     | MMaximal -> bind (drop c) (fun _ -> ret c.c_cur)
     | _ ->
       bind (compute_next oracle c) (fun c' -> compute_maximal oracle f c'))

(** val meets : nat list -> nat list -> bool **)

let meets al cur =
  existsb (fun a -> memb a cur) al

(** val lift : comp -> nat list -> nat list **)

let lift c l =
  map (cc_global c) l

(** val locals : comp -> nat list -> nat list option **)

let locals c al =
  fold_right (fun a acc ->
    match cc_local c a with
    | Some i -> (match acc with
                 | Some l -> Some (i :: l)
                 | None -> None)
    | None -> None) (Some []) al

(** val ccs_m : gview -> comp list coq_M **)

let ccs_m g =
  match all_ccs g with
  | Some l -> ret l
  | None -> panic

(** val remaining_m : gview -> ccstate -> comp list coq_M **)

let remaining_m g s =
  match remaining_ccs g s with
  | Some l -> ret l
  | None -> panic

(** val merged_m : gview -> nat list -> (ccstate * comp) coq_M **)

let merged_m g al =
  match merged_cc_of g (cc_new g) al with
  | Some r -> ret r
  | None -> panic

(** val locals_m : comp -> nat list -> nat list coq_M **)

let locals_m c al =
  match locals c al with
  | Some l -> ret l
  | None -> panic

(** val for_ccs :
    comp list -> 'a1 -> ('a1 -> comp -> 'a1 coq_M) -> 'a1 coq_M **)

let rec for_ccs l acc f =
  match l with
  | [] -> ret acc
  | c :: r -> bind (f acc c) (fun a -> for_ccs r a f)

(** val gr_se : gview -> nat list **)

let gr_se =
  grounded

(** val gr_dc : gview -> nat list -> bool * nat list option **)

let gr_dc g al =
  let e = grounded g in if meets al e then (true, (Some e)) else (false, None)

(** val gr_ds : gview -> nat list -> bool * nat list option **)

let gr_ds g al =
  let e = grounded g in if meets al e then (true, None) else (false, (Some e))

(** val co_dc :
    (nat -> cnf -> lit list -> answer) -> nat -> enc -> gview -> nat list ->
    bool coq_M **)

let co_dc oracle thr e g al =
  bind new_solver (fun _ ->
    bind (merged_m g al) (fun sc ->
      let c = snd sc in
      bind (encode_m thr e false c.c_af) (fun _ ->
        bind n_vars (fun nv ->
          let sel = zlit (add (S O) nv) in
          bind (locals_m c al) (fun la ->
            bind
              (add_clause (app (map (arg_to_lit e) la) ((negate sel) :: [])))
              (fun _ ->
              bind (solve oracle (sel :: [])) (fun r ->
                bind (add_clause ((negate sel) :: [])) (fun _ ->
                  ret (match r with
                       | Some _ -> true
                       | None -> false)))))))))

(** val co_dc_cert :
    (nat -> cnf -> lit list -> answer) -> nat -> enc -> gview -> nat list ->
    (bool * nat list option) coq_M **)

let co_dc_cert oracle thr e g al =
  bind (merged_m g al) (fun sc ->
    let c = snd sc in
    bind new_solver (fun _ ->
      bind (encode_m thr e false c.c_af) (fun _ ->
        bind n_vars (fun nv ->
          let sel = zlit (add (S O) nv) in
          bind (locals_m c al) (fun la ->
            bind
              (add_clause (app (map (arg_to_lit e) la) ((negate sel) :: [])))
              (fun _ ->
              bind (solve oracle (sel :: [])) (fun r ->
                match r with
                | Some m ->
                  let ext0 =
                    lift c (assignment_to_extension (length c.c_af.args) e m)
                  in
                  bind (remaining_m g (fst sc)) (fun others ->
                    ret (true, (Some
                      (app ext0
                        (flat_map (fun oc ->
                          lift oc (grounded (view_of_af oc.c_af))) others)))))
                | None -> ret (false, None))))))))

(** val st_a2e : comp -> assignment -> nat list **)

let st_a2e c m =
  lift c (assignment_to_extension (length c.c_af.args) StDefault m)

(** val st_se :
    (nat -> cnf -> lit list -> answer) -> nat -> gview -> nat list option
    coq_M **)

let st_se oracle thr g =
  bind (ccs_m g) (fun ccs ->
    let rec go l merged =
      match l with
      | [] -> ret (Some merged)
      | c :: r ->
        bind new_solver (fun _ ->
          bind (encode_m thr StDefault false c.c_af) (fun _ ->
            bind (solve oracle []) (fun m ->
              match m with
              | Some m0 -> go r (app merged (st_a2e c m0))
              | None -> ret None)))
    in go ccs [])

(** val st_accept :
    (nat -> cnf -> lit list -> answer) -> nat -> gview -> nat list -> bool ->
    bool -> (bool * nat list option) coq_M **)

let st_accept oracle thr g al polarity status_on_unsat =
  bind (ccs_m g) (fun ccs ->
    let rec go l merged found =
      match l with
      | [] ->
        if found
        then ret ((negb status_on_unsat), (Some merged))
        else ret (status_on_unsat, None)
      | c :: r ->
        bind new_solver (fun _ ->
          bind (encode_m thr StDefault false c.c_af) (fun _ ->
            let in_cc = filter_map (cc_local c) al in
            (match in_cc with
             | [] ->
               bind (solve oracle []) (fun m ->
                 match m with
                 | Some m0 -> go r (app merged (st_a2e c m0)) found
                 | None -> ret (status_on_unsat, None))
             | _ :: _ ->
               if polarity
               then bind n_vars (fun nv ->
                      let sel = zlit (add (S O) nv) in
                      bind
                        (add_clause
                          (app (map (arg_to_lit StDefault) in_cc)
                            ((negate sel) :: []))) (fun _ ->
                        bind (solve oracle (sel :: [])) (fun m1 ->
                          bind (add_clause ((negate sel) :: [])) (fun _ ->
                            match m1 with
                            | Some m -> go r (app merged (st_a2e c m)) true
                            | None ->
                              bind (solve oracle []) (fun m2 ->
                                match m2 with
                                | Some m ->
                                  go r (app merged (st_a2e c m)) found
                                | None -> ret (status_on_unsat, None))))))
               else bind
                      (solve oracle
                        (map (fun a -> negate (arg_to_lit StDefault a)) in_cc))
                      (fun m ->
                      match m with
                      | Some m0 -> go r (app merged (st_a2e c m0)) found
                      | None -> ret (status_on_unsat, None)))))
    in go ccs [] (negb polarity))

(** val st_dc :
    (nat -> cnf -> lit list -> answer) -> nat -> gview -> nat list ->
    (bool * nat list option) coq_M **)

let st_dc oracle thr g al =
  st_accept oracle thr g al true false

(** val st_ds :
    (nat -> cnf -> lit list -> answer) -> nat -> gview -> nat list ->
    (bool * nat list option) coq_M **)

let st_ds oracle thr g al =
  st_accept oracle thr g al false true

(** val pr_max_in_cc :
    (nat -> cnf -> lit list -> answer) -> nat -> nat -> enc -> comp -> nat
    list coq_M **)

let pr_max_in_cc oracle thr fuel e c =
  bind new_solver (fun _ ->
    bind (encode_m thr e false c.c_af) (fun _ ->
      bind (new_cc_computer e c.c_af FPref) (fun k ->
        bind (compute_maximal oracle fuel k) (fun l -> ret (lift c l)))))

(** val pr_se :
    (nat -> cnf -> lit list -> answer) -> nat -> nat -> enc -> gview -> nat
    list option coq_M **)

let pr_se oracle thr fuel e g =
  bind (ccs_m g) (fun ccs ->
    bind
      (for_ccs ccs [] (fun merged c ->
        bind (pr_max_in_cc oracle thr fuel e c) (fun l -> ret (app merged l))))
      (fun r -> ret (Some r)))

(** val pr_ds_loop :
    (nat -> cnf -> lit list -> answer) -> nat -> af -> nat list -> bool ->
    computer -> (bool * nat list option) coq_M **)

let rec pr_ds_loop oracle fuel f la shortcut k =
  match fuel with
  | O -> out_of_fuel
  | S f0 ->
    bind (compute_next oracle k) (fun k0 ->
      match k0.c_state with
      | MMaximal ->
        if negb (meets la k0.c_cur)
        then bind (drop k0) (fun _ -> ret (false, (Some k0.c_cur)))
        else pr_ds_loop oracle f0 f la shortcut k0
      | MIntermediate ->
        if meets la k0.c_cur
        then bind (discard_current_search k0) (fun k' ->
               pr_ds_loop oracle f0 f la shortcut k')
        else if (&&) shortcut
                  (forallb (fun a ->
                    existsb (fun b -> memb b k0.c_cur) (attackers f a)) la)
             then bind (drop k0) (fun _ -> ret (false, (Some k0.c_cur)))
             else pr_ds_loop oracle f0 f la shortcut k0
      | MNone -> bind (drop k0) (fun _ -> ret (true, None))
      | _ -> pr_ds_loop oracle f0 f la shortcut k0)

(** val pr_ds_in_cc :
    (nat -> cnf -> lit list -> answer) -> nat -> nat -> enc -> comp -> nat
    list -> bool -> (bool * nat list option) coq_M **)

let pr_ds_in_cc oracle thr fuel e c al shortcut =
  bind (locals_m c al) (fun la ->
    bind new_solver (fun _ ->
      bind (encode_m thr e false c.c_af) (fun _ ->
        bind (new_cc_computer e c.c_af FPref) (fun k ->
          pr_ds_loop oracle fuel c.c_af la shortcut k))))

(** val pr_ds :
    (nat -> cnf -> lit list -> answer) -> nat -> nat -> enc -> gview -> nat
    list -> bool coq_M **)

let pr_ds oracle thr fuel e g al =
  bind (merged_m g al) (fun sc ->
    bind (pr_ds_in_cc oracle thr fuel e (snd sc) al true) (fun r ->
      ret (fst r)))

(** val pr_ds_cert :
    (nat -> cnf -> lit list -> answer) -> nat -> nat -> enc -> gview -> nat
    list -> (bool * nat list option) coq_M **)

let pr_ds_cert oracle thr fuel e g al =
  bind (merged_m g al) (fun sc ->
    bind (pr_ds_in_cc oracle thr fuel e (snd sc) al false) (fun r ->
      let (b, o) = r in
      if b
      then (match o with
            | Some _ -> panic
            | None -> ret (true, None))
      else (match o with
            | Some ce ->
              bind (remaining_m g (fst sc)) (fun others ->
                bind
                  (for_ccs others (lift (snd sc) ce) (fun merged c ->
                    bind (pr_max_in_cc oracle thr fuel e c) (fun l ->
                      ret (app merged l)))) (fun merged ->
                  ret (false, (Some merged))))
            | None -> panic)))

(** val rg_max_in_cc :
    (nat -> cnf -> lit list -> answer) -> nat -> nat -> enc -> comp -> nat
    list coq_M **)

let rg_max_in_cc oracle thr fuel e c =
  bind new_solver (fun _ ->
    bind (encode_m thr e true c.c_af) (fun _ ->
      bind (new_cc_computer e c.c_af FRange) (fun k ->
        bind (compute_maximal oracle fuel k) (fun l -> ret (lift c l)))))

(** val rg_se :
    (nat -> cnf -> lit list -> answer) -> nat -> nat -> enc -> gview -> nat
    list option coq_M **)

let rg_se oracle thr fuel e g =
  bind (ccs_m g) (fun ccs ->
    bind
      (for_ccs ccs [] (fun merged c ->
        bind (rg_max_in_cc oracle thr fuel e c) (fun l -> ret (app merged l))))
      (fun r -> ret (Some r)))

(** val rg_loop :
    (nat -> cnf -> lit list -> answer) -> nat -> enc -> nat -> nat list ->
    bool -> computer -> (bool * nat list option) coq_M **)

let rec rg_loop oracle fuel e n la cred k =
  match fuel with
  | O -> out_of_fuel
  | S f ->
    bind (compute_next oracle k) (fun k0 ->
      match k0.c_state with
      | MMaximal ->
        if (||) ((&&) cred (meets la k0.c_cur))
             ((&&) (negb cred) (negb (meets la k0.c_cur)))
        then bind (drop k0) (fun _ -> ret (cred, (Some k0.c_cur)))
        else let (inrg, notr) = split_in_range k0 in
             let base = app inrg (app (map negate notr) (k0.c_sel :: [])) in
             if cred
             then bind n_vars (fun nv ->
                    let sel = zlit (add (S O) nv) in
                    bind
                      (add_clause
                        (app (map (arg_to_lit e) la) ((negate sel) :: [])))
                      (fun _ ->
                      bind (solve oracle (app base (sel :: []))) (fun r ->
                        bind (add_clause ((negate sel) :: [])) (fun _ ->
                          match r with
                          | Some m ->
                            bind (drop k0) (fun _ ->
                              ret (cred, (Some
                                (assignment_to_extension n e m))))
                          | None -> rg_loop oracle f e n la cred k0))))
             else bind
                    (solve oracle
                      (app base (map (fun a -> negate (arg_to_lit e a)) la)))
                    (fun r ->
                    match r with
                    | Some m ->
                      bind (drop k0) (fun _ ->
                        ret (cred, (Some (assignment_to_extension n e m))))
                    | None -> rg_loop oracle f e n la cred k0)
      | MNone -> bind (drop k0) (fun _ -> ret ((negb cred), None))
      | _ -> rg_loop oracle f e n la cred k0)

(** val rg_in_cc :
    (nat -> cnf -> lit list -> answer) -> nat -> nat -> enc -> comp -> nat
    list -> bool -> (bool * nat list option) coq_M **)

let rg_in_cc oracle thr fuel e c al cred =
  bind (locals_m c al) (fun la ->
    bind new_solver (fun _ ->
      bind (encode_m thr e true c.c_af) (fun _ ->
        bind (new_cc_computer e c.c_af FRange) (fun k ->
          rg_loop oracle fuel e (length c.c_af.args) la cred k))))

(** val rg_accept :
    (nat -> cnf -> lit list -> answer) -> nat -> nat -> enc -> gview -> nat
    list -> bool -> bool coq_M **)

let rg_accept oracle thr fuel e g al cred =
  bind (merged_m g al) (fun sc ->
    bind (rg_in_cc oracle thr fuel e (snd sc) al cred) (fun r -> ret (fst r)))

(** val rg_accept_cert :
    (nat -> cnf -> lit list -> answer) -> nat -> nat -> enc -> gview -> nat
    list -> bool -> (bool * nat list option) coq_M **)

let rg_accept_cert oracle thr fuel e g al cred =
  bind (merged_m g al) (fun sc ->
    bind (rg_in_cc oracle thr fuel e (snd sc) al cred) (fun r ->
      match snd r with
      | Some ce ->
        bind (remaining_m g (fst sc)) (fun others ->
          bind
            (for_ccs others (lift (snd sc) ce) (fun merged c ->
              bind (rg_max_in_cc oracle thr fuel e c) (fun l ->
                ret (app merged l)))) (fun merged ->
            ret (cred, (Some merged))))
      | None -> ret ((negb cred), None)))

(** val id_enum_loop :
    (nat -> cnf -> lit list -> answer) -> nat -> nat -> nat -> computer ->
    bool list -> nat -> nat -> ((bool list * nat) * nat) coq_M **)

let rec id_enum_loop oracle fuel n ngr k in_all n_in_all n_pref =
  match fuel with
  | O -> out_of_fuel
  | S f ->
    bind (compute_next oracle k) (fun k0 ->
      match k0.c_state with
      | MMaximal ->
        let kept = filter (fun a -> nth_bool in_all a) k0.c_cur in
        let new_in_all = map (fun i -> memb i kept) (seq O n) in
        let n_in_all' = length kept in
        if PeanoNat.Nat.eqb n_in_all' ngr
        then bind (drop k0) (fun _ ->
               ret ((new_in_all, n_in_all'), (S n_pref)))
        else id_enum_loop oracle f n ngr k0 new_in_all n_in_all' (S n_pref)
      | MNone -> bind (drop k0) (fun _ -> ret ((in_all, n_in_all), n_pref))
      | _ -> id_enum_loop oracle f n ngr k0 in_all n_in_all n_pref)

(** val id_in_all :
    (nat -> cnf -> lit list -> answer) -> nat -> nat -> enc -> af -> nat ->
    ((bool list * nat) * nat) coq_M **)

let id_in_all oracle thr fuel e f ngr =
  let n = length f.args in
  bind (encode_m thr e false f) (fun _ ->
    bind (new_cc_computer e f FPref) (fun k ->
      id_enum_loop oracle fuel n ngr k (repeat true n) O O))

(** val id_forbidden : enc -> bool list -> lit list **)

let id_forbidden e in_all =
  map (fun i -> negate (arg_to_lit e i))
    (filter (fun i -> negb (nth_bool in_all i)) (seq O (length in_all)))

(** val id_single : bool list -> nat list **)

let id_single in_all =
  filter (fun i -> nth_bool in_all i) (seq O (length in_all))

(** val id_maximal_allowed :
    (nat -> cnf -> lit list -> answer) -> nat -> enc -> af -> bool list ->
    nat list coq_M **)

let id_maximal_allowed oracle fuel e f in_all =
  bind (new_cc_computer e f (FIdeal (id_forbidden e in_all))) (fun k ->
    compute_maximal oracle fuel k)

(** val id_ext_for_cc :
    (nat -> cnf -> lit list -> answer) -> nat -> nat -> enc -> af -> nat list
    coq_M **)

let id_ext_for_cc oracle thr fuel e f =
  let gr = grounded (view_of_af f) in
  bind new_solver (fun _ ->
    bind (id_in_all oracle thr fuel e f (length gr)) (fun r ->
      let (p, n_pref) = r in
      let (in_all, n_in_all) = p in
      if PeanoNat.Nat.eqb n_in_all (length gr)
      then ret gr
      else if PeanoNat.Nat.eqb n_pref (S O)
           then ret (id_single in_all)
           else id_maximal_allowed oracle fuel e f in_all))

(** val id_se :
    (nat -> cnf -> lit list -> answer) -> nat -> nat -> enc -> gview -> nat
    list option coq_M **)

let id_se oracle thr fuel e g =
  bind (ccs_m g) (fun ccs ->
    bind
      (for_ccs ccs [] (fun merged c ->
        bind new_solver (fun _ ->
          bind (encode_m thr e false c.c_af) (fun _ ->
            bind (id_ext_for_cc oracle thr fuel e c.c_af) (fun l ->
              ret (app merged (lift c l))))))) (fun r -> ret (Some r)))

(** val id_cred_for_cc :
    (nat -> cnf -> lit list -> answer) -> nat -> nat -> enc -> af -> nat list
    -> (bool * nat list option) coq_M **)

let id_cred_for_cc oracle thr fuel e f la =
  let gr = grounded (view_of_af f) in
  bind new_solver (fun _ ->
    bind (id_in_all oracle thr fuel e f (length gr)) (fun r ->
      let (p, n_pref) = r in
      let (in_all, n_in_all) = p in
      if forallb (fun a -> negb (nth_bool in_all a)) la
      then ret (false, None)
      else let result = fun ext ->
             if meets la ext then (true, (Some ext)) else (false, None)
           in
           if PeanoNat.Nat.eqb n_in_all (length gr)
           then ret (result gr)
           else if PeanoNat.Nat.eqb n_pref (S O)
                then ret (result (id_single in_all))
                else bind (id_maximal_allowed oracle fuel e f in_all)
                       (fun l -> ret (result l))))

(** val id_dc :
    (nat -> cnf -> lit list -> answer) -> nat -> nat -> enc -> gview -> nat
    list -> bool coq_M **)

let id_dc oracle thr fuel e g al =
  bind (merged_m g al) (fun sc ->
    bind (locals_m (snd sc) al) (fun la ->
      bind (id_cred_for_cc oracle thr fuel e (snd sc).c_af la) (fun r ->
        ret (fst r))))

(** val id_dc_cert :
    (nat -> cnf -> lit list -> answer) -> nat -> nat -> enc -> gview -> nat
    list -> (bool * nat list option) coq_M **)

let id_dc_cert oracle thr fuel e g al =
  bind (merged_m g al) (fun sc ->
    bind (locals_m (snd sc) al) (fun la ->
      bind (id_cred_for_cc oracle thr fuel e (snd sc).c_af la) (fun r ->
        let (b, o) = r in
        if b
        then (match o with
              | Some ce ->
                bind (remaining_m g (fst sc)) (fun others ->
                  bind
                    (for_ccs others (lift (snd sc) ce) (fun merged c ->
                      bind (id_ext_for_cc oracle thr fuel e c.c_af) (fun l ->
                        ret (app merged (lift c l))))) (fun merged ->
                    ret (true, (Some merged))))
              | None -> ret (false, None))
        else ret (false, None))))

(** val id_ds_cert :
    (nat -> cnf -> lit list -> answer) -> nat -> nat -> enc -> gview -> nat
    list -> (bool * nat list option) coq_M **)

let id_ds_cert oracle thr fuel e g al =
  bind (id_se oracle thr fuel e g) (fun r ->
    match r with
    | Some ext ->
      if meets al ext then ret (true, None) else ret (false, (Some ext))
    | None -> panic)

type query =
| QSE
| QDC
| QDS

type outcome =
| OExt of nat list option
| OAcc of bool * nat list option

(** val run_query :
    (nat -> cnf -> lit list -> answer) -> nat -> nat -> sem -> query -> bool
    -> enc -> gview -> nat list -> outcome coq_M **)

let run_query oracle thr fuel s q cert e g al =
  let acc = fun m -> bind m (fun r -> ret (OAcc ((fst r), (snd r)))) in
  let accb = fun m -> bind m (fun r -> ret (OAcc (r, None))) in
  let nocert = fun m -> bind m (fun r -> ret (OAcc ((fst r), None))) in
  (match s with
   | GR ->
     (match q with
      | QSE -> ret (OExt (Some (gr_se g)))
      | QDC ->
        if cert then acc (ret (gr_dc g al)) else nocert (ret (gr_dc g al))
      | QDS ->
        if cert then acc (ret (gr_ds g al)) else nocert (ret (gr_ds g al)))
   | CO ->
     (match q with
      | QDC ->
        if cert
        then acc (co_dc_cert oracle thr e g al)
        else accb (co_dc oracle thr e g al)
      | _ -> panic)
   | PR ->
     (match q with
      | QSE -> bind (pr_se oracle thr fuel e g) (fun r -> ret (OExt r))
      | QDC -> panic
      | QDS ->
        if cert
        then acc (pr_ds_cert oracle thr fuel e g al)
        else accb (pr_ds oracle thr fuel e g al))
   | ST ->
     (match q with
      | QSE -> bind (st_se oracle thr g) (fun r -> ret (OExt r))
      | QDC ->
        if cert
        then acc (st_dc oracle thr g al)
        else nocert (st_dc oracle thr g al)
      | QDS ->
        if cert
        then acc (st_ds oracle thr g al)
        else nocert (st_ds oracle thr g al))
   | ID ->
     (match q with
      | QSE -> bind (id_se oracle thr fuel e g) (fun r -> ret (OExt r))
      | QDC ->
        if cert
        then acc (id_dc_cert oracle thr fuel e g al)
        else accb (id_dc oracle thr fuel e g al)
      | QDS ->
        if cert
        then acc (id_ds_cert oracle thr fuel e g al)
        else accb (id_dc oracle thr fuel e g al))
   | _ ->
     (match q with
      | QSE -> bind (rg_se oracle thr fuel e g) (fun r -> ret (OExt r))
      | QDC ->
        if cert
        then acc (rg_accept_cert oracle thr fuel e g al true)
        else accb (rg_accept oracle thr fuel e g al true)
      | QDS ->
        if cert
        then acc (rg_accept_cert oracle thr fuel e g al false)
        else accb (rg_accept oracle thr fuel e g al false)))
