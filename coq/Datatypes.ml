
(** val implb : bool -> bool -> bool **)

let implb b1 b2 =
  if b1 then b2 else true

(** val negb : bool -> bool **)

let negb = function
| true -> false
| false -> true

type nat =
| O
| S of nat

(** val option_map : ('a1 -> 'a2) -> 'a1 option -> 'a2 option **)

let option_map f = function
| Some a -> Some (f a)
| None -> None

(** val fst : ('a1 * 'a2) -> 'a1 **)

let fst = function
| (x, _) -> x

(** val snd : ('a1 * 'a2) -> 'a2 **)

let snd = function
| (_, y) -> y

(** val length : 'a1 list -> nat **)

let rec length = function
| [] -> O
| _ :: l' -> S (length l')

(** val app : 'a1 list -> 'a1 list -> 'a1 list **)

let rec app l m =
  match l with
  | [] -> m
  | a :: l1 -> a :: (app l1 m)

type comparison =
| Eq
| Lt
| Gt

(** val coq_CompOpp : comparison -> comparison **)

let coq_CompOpp = function
| Eq -> Eq
| Lt -> Gt
| Gt -> Lt
