open BinInt
open Cnf
open Datatypes
open List
open PeanoNat

val memz : lit -> lit list -> bool

val assigned : lit list -> nat -> bool

val unassigned_vars : nat -> lit list -> nat list

type info =
| Conflict
| UnitLit of lit
| NoInfo

val analyse : lit list -> cnf -> info

val assignment_of_lits : nat -> lit list -> assignment

val leaf : nat -> lit list -> cnf -> assignment option

val dpll : nat -> nat -> lit list -> cnf -> assignment option

val solve_n : nat -> cnf -> lit list -> assignment option

val solve : cnf -> lit list -> assignment option

val solve_answer : nat -> cnf -> lit list -> answer
