open BinNat
open BinNums
open Datatypes
open List
open Readers
open Store

(** val utf8_encode_cp : coq_N -> coq_N list **)

let utf8_encode_cp c =
  if N.ltb c (Npos (Coq_xO (Coq_xO (Coq_xO (Coq_xO (Coq_xO (Coq_xO (Coq_xO
       Coq_xH))))))))
  then c :: []
  else if N.ltb c (Npos (Coq_xO (Coq_xO (Coq_xO (Coq_xO (Coq_xO (Coq_xO
            (Coq_xO (Coq_xO (Coq_xO (Coq_xO (Coq_xO Coq_xH))))))))))))
       then (N.add (Npos (Coq_xO (Coq_xO (Coq_xO (Coq_xO (Coq_xO (Coq_xO
              (Coq_xI Coq_xH))))))))
              (N.div c (Npos (Coq_xO (Coq_xO (Coq_xO (Coq_xO (Coq_xO (Coq_xO
                Coq_xH))))))))) :: ((N.add (Npos (Coq_xO (Coq_xO (Coq_xO
                                      (Coq_xO (Coq_xO (Coq_xO (Coq_xO
                                      Coq_xH))))))))
                                      (N.modulo c (Npos (Coq_xO (Coq_xO
                                        (Coq_xO (Coq_xO (Coq_xO (Coq_xO
                                        Coq_xH))))))))) :: [])
       else if N.ltb c (Npos (Coq_xO (Coq_xO (Coq_xO (Coq_xO (Coq_xO (Coq_xO
                 (Coq_xO (Coq_xO (Coq_xO (Coq_xO (Coq_xO (Coq_xO (Coq_xO
                 (Coq_xO (Coq_xO (Coq_xO Coq_xH)))))))))))))))))
            then (N.add (Npos (Coq_xO (Coq_xO (Coq_xO (Coq_xO (Coq_xO (Coq_xI
                   (Coq_xI Coq_xH))))))))
                   (N.div c (Npos (Coq_xO (Coq_xO (Coq_xO (Coq_xO (Coq_xO
                     (Coq_xO (Coq_xO (Coq_xO (Coq_xO (Coq_xO (Coq_xO (Coq_xO
                     Coq_xH))))))))))))))) :: ((N.add (Npos (Coq_xO (Coq_xO
                                                 (Coq_xO (Coq_xO (Coq_xO
                                                 (Coq_xO (Coq_xO
                                                 Coq_xH))))))))
                                                 (N.modulo
                                                   (N.div c (Npos (Coq_xO
                                                     (Coq_xO (Coq_xO (Coq_xO
                                                     (Coq_xO (Coq_xO
                                                     Coq_xH)))))))) (Npos
                                                   (Coq_xO (Coq_xO (Coq_xO
                                                   (Coq_xO (Coq_xO (Coq_xO
                                                   Coq_xH))))))))) :: (
                   (N.add (Npos (Coq_xO (Coq_xO (Coq_xO (Coq_xO (Coq_xO
                     (Coq_xO (Coq_xO Coq_xH))))))))
                     (N.modulo c (Npos (Coq_xO (Coq_xO (Coq_xO (Coq_xO
                       (Coq_xO (Coq_xO Coq_xH))))))))) :: []))
            else (N.add (Npos (Coq_xO (Coq_xO (Coq_xO (Coq_xO (Coq_xI (Coq_xI
                   (Coq_xI Coq_xH))))))))
                   (N.div c (Npos (Coq_xO (Coq_xO (Coq_xO (Coq_xO (Coq_xO
                     (Coq_xO (Coq_xO (Coq_xO (Coq_xO (Coq_xO (Coq_xO (Coq_xO
                     (Coq_xO (Coq_xO (Coq_xO (Coq_xO (Coq_xO (Coq_xO
                     Coq_xH))))))))))))))))))))) :: ((N.add (Npos (Coq_xO
                                                       (Coq_xO (Coq_xO
                                                       (Coq_xO (Coq_xO
                                                       (Coq_xO (Coq_xO
                                                       Coq_xH))))))))
                                                       (N.modulo
                                                         (N.div c (Npos
                                                           (Coq_xO (Coq_xO
                                                           (Coq_xO (Coq_xO
                                                           (Coq_xO (Coq_xO
                                                           (Coq_xO (Coq_xO
                                                           (Coq_xO (Coq_xO
                                                           (Coq_xO (Coq_xO
                                                           Coq_xH))))))))))))))
                                                         (Npos (Coq_xO
                                                         (Coq_xO (Coq_xO
                                                         (Coq_xO (Coq_xO
                                                         (Coq_xO
                                                         Coq_xH))))))))) :: (
                   (N.add (Npos (Coq_xO (Coq_xO (Coq_xO (Coq_xO (Coq_xO
                     (Coq_xO (Coq_xO Coq_xH))))))))
                     (N.modulo
                       (N.div c (Npos (Coq_xO (Coq_xO (Coq_xO (Coq_xO (Coq_xO
                         (Coq_xO Coq_xH)))))))) (Npos (Coq_xO (Coq_xO (Coq_xO
                       (Coq_xO (Coq_xO (Coq_xO Coq_xH))))))))) :: ((N.add
                                                                    (Npos
                                                                    (Coq_xO
                                                                    (Coq_xO
                                                                    (Coq_xO
                                                                    (Coq_xO
                                                                    (Coq_xO
                                                                    (Coq_xO
                                                                    (Coq_xO
                                                                    Coq_xH))))))))
                                                                    (N.modulo
                                                                    c (Npos
                                                                    (Coq_xO
                                                                    (Coq_xO
                                                                    (Coq_xO
                                                                    (Coq_xO
                                                                    (Coq_xO
                                                                    (Coq_xO
                                                                    Coq_xH))))))))) :: [])))

(** val utf8_encode : str -> coq_N list **)

let utf8_encode s =
  flat_map utf8_encode_cp s

(** val dec_aux : nat -> coq_N -> coq_N list -> coq_N list **)

let rec dec_aux fuel n acc =
  match fuel with
  | O -> acc
  | S f ->
    let acc' =
      (N.add (Npos (Coq_xO (Coq_xO (Coq_xO (Coq_xO (Coq_xI Coq_xH))))))
        (N.modulo n (Npos (Coq_xO (Coq_xI (Coq_xO Coq_xH)))))) :: acc
    in
    if N.ltb n (Npos (Coq_xO (Coq_xI (Coq_xO Coq_xH))))
    then acc'
    else dec_aux f (N.div n (Npos (Coq_xO (Coq_xI (Coq_xO Coq_xH))))) acc'

(** val dec : coq_N -> coq_N list **)

let dec n =
  dec_aux (S (N.size_nat n)) n []

(** val dec_nat : nat -> coq_N list **)

let dec_nat n =
  dec (N.of_nat n)

(** val label_of : 'a1 fw -> nat -> 'a1 option **)

let label_of f id =
  match nth id f.ls.slots None with
  | Some p -> let (_, l) = p in Some l
  | None -> None

(** val arg_line : ('a1 -> coq_N list) -> 'a1 -> coq_N list **)

let arg_line disp l =
  app ((Npos (Coq_xI (Coq_xO (Coq_xO (Coq_xO (Coq_xO (Coq_xI
    Coq_xH))))))) :: ((Npos (Coq_xO (Coq_xI (Coq_xO (Coq_xO (Coq_xI (Coq_xI
    Coq_xH))))))) :: ((Npos (Coq_xI (Coq_xI (Coq_xI (Coq_xO (Coq_xO (Coq_xI
    Coq_xH))))))) :: ((Npos (Coq_xO (Coq_xO (Coq_xO (Coq_xI (Coq_xO
    Coq_xH)))))) :: []))))
    (app (disp l) ((Npos (Coq_xI (Coq_xO (Coq_xO (Coq_xI (Coq_xO
      Coq_xH)))))) :: ((Npos (Coq_xO (Coq_xI (Coq_xI (Coq_xI (Coq_xO
      Coq_xH)))))) :: ((Npos (Coq_xO (Coq_xI (Coq_xO Coq_xH)))) :: []))))

(** val att_line : ('a1 -> coq_N list) -> 'a1 -> 'a1 -> coq_N list **)

let att_line disp a b =
  app ((Npos (Coq_xI (Coq_xO (Coq_xO (Coq_xO (Coq_xO (Coq_xI
    Coq_xH))))))) :: ((Npos (Coq_xO (Coq_xO (Coq_xI (Coq_xO (Coq_xI (Coq_xI
    Coq_xH))))))) :: ((Npos (Coq_xO (Coq_xO (Coq_xI (Coq_xO (Coq_xI (Coq_xI
    Coq_xH))))))) :: ((Npos (Coq_xO (Coq_xO (Coq_xO (Coq_xI (Coq_xO
    Coq_xH)))))) :: []))))
    (app (disp a)
      (app ((Npos (Coq_xO (Coq_xO (Coq_xI (Coq_xI (Coq_xO Coq_xH)))))) :: [])
        (app (disp b) ((Npos (Coq_xI (Coq_xO (Coq_xO (Coq_xI (Coq_xO
          Coq_xH)))))) :: ((Npos (Coq_xO (Coq_xI (Coq_xI (Coq_xI (Coq_xO
          Coq_xH)))))) :: ((Npos (Coq_xO (Coq_xI (Coq_xO Coq_xH)))) :: []))))))

(** val att_lines :
    ('a1 -> coq_N list) -> 'a1 fw -> (nat * nat) list -> coq_N list option **)

let rec att_lines disp f = function
| [] -> Some []
| p :: r ->
  let (a, b) = p in
  (match label_of f a with
   | Some la ->
     (match label_of f b with
      | Some lb ->
        (match att_lines disp f r with
         | Some rest -> Some (app (att_line disp la lb) rest)
         | None -> None)
      | None -> None)
   | None -> None)

(** val write_apx : ('a1 -> coq_N list) -> 'a1 fw -> coq_N list option **)

let write_apx disp f =
  option_map (app (flat_map (fun p -> arg_line disp (snd p)) (iter_args f)))
    (att_lines disp f (iter_attacks f))

(** val write_no : coq_N list **)

let write_no =
  (Npos (Coq_xO (Coq_xI (Coq_xI (Coq_xI (Coq_xO (Coq_xO
    Coq_xH))))))) :: ((Npos (Coq_xI (Coq_xI (Coq_xI (Coq_xI (Coq_xO (Coq_xO
    Coq_xH))))))) :: ((Npos (Coq_xO (Coq_xI (Coq_xO Coq_xH)))) :: []))

(** val write_status : bool -> coq_N list **)

let write_status = function
| true ->
  (Npos (Coq_xI (Coq_xO (Coq_xO (Coq_xI (Coq_xI (Coq_xO
    Coq_xH))))))) :: ((Npos (Coq_xI (Coq_xO (Coq_xI (Coq_xO (Coq_xO (Coq_xO
    Coq_xH))))))) :: ((Npos (Coq_xI (Coq_xI (Coq_xO (Coq_xO (Coq_xI (Coq_xO
    Coq_xH))))))) :: ((Npos (Coq_xO (Coq_xI (Coq_xO Coq_xH)))) :: [])))
| false ->
  (Npos (Coq_xO (Coq_xI (Coq_xI (Coq_xI (Coq_xO (Coq_xO
    Coq_xH))))))) :: ((Npos (Coq_xI (Coq_xI (Coq_xI (Coq_xI (Coq_xO (Coq_xO
    Coq_xH))))))) :: ((Npos (Coq_xO (Coq_xI (Coq_xO Coq_xH)))) :: []))

(** val write_w : coq_N list -> coq_N list **)

let write_w labels =
  app ((Npos (Coq_xI (Coq_xI (Coq_xI (Coq_xO (Coq_xI (Coq_xI
    Coq_xH))))))) :: [])
    (app
      (flat_map (fun n -> (Npos (Coq_xO (Coq_xO (Coq_xO (Coq_xO (Coq_xO
        Coq_xH)))))) :: (dec n)) labels) ((Npos (Coq_xO (Coq_xI (Coq_xO
      Coq_xH)))) :: []))

(** val join_comma : coq_N list list -> coq_N list **)

let rec join_comma = function
| [] -> []
| x :: r ->
  (match r with
   | [] -> x
   | _ :: _ ->
     app x
       (app ((Npos (Coq_xO (Coq_xO (Coq_xI (Coq_xI (Coq_xO
         Coq_xH)))))) :: []) (join_comma r)))

(** val write_bracket : str list -> coq_N list **)

let write_bracket labels =
  app ((Npos (Coq_xI (Coq_xI (Coq_xO (Coq_xI (Coq_xI (Coq_xO
    Coq_xH))))))) :: [])
    (app (join_comma (map utf8_encode labels)) ((Npos (Coq_xI (Coq_xO (Coq_xI
      (Coq_xI (Coq_xI (Coq_xO Coq_xH))))))) :: ((Npos (Coq_xO (Coq_xI (Coq_xO
      Coq_xH)))) :: [])))

(** val split_on : coq_N -> coq_N list -> coq_N list list **)

let rec split_on x = function
| [] -> [] :: []
| c :: r ->
  if N.eqb c x
  then [] :: (split_on x r)
  else (match split_on x r with
        | [] -> (c :: []) :: []
        | w :: ws -> (c :: w) :: ws)

(** val map_opt : ('a1 -> 'a2 option) -> 'a1 list -> 'a2 list option **)

let rec map_opt f = function
| [] -> Some []
| x :: r ->
  (match f x with
   | Some y ->
     (match map_opt f r with
      | Some ys -> Some (y :: ys)
      | None -> None)
   | None -> None)

(** val parse_w : coq_N list -> coq_N list option **)

let parse_w bytes =
  match raw_lines bytes with
  | [] -> None
  | p :: l0 ->
    let (l, b) = p in
    if b
    then (match l0 with
          | [] ->
            (match split_on (Npos (Coq_xO (Coq_xO (Coq_xO (Coq_xO (Coq_xO
                     Coq_xH)))))) l with
             | [] -> None
             | w :: ws ->
               if str_eqb w ((Npos (Coq_xI (Coq_xI (Coq_xI (Coq_xO (Coq_xI
                    (Coq_xI Coq_xH))))))) :: [])
               then map_opt parse_digits ws
               else None)
          | _ :: _ -> None)
    else None

(** val unsnoc : coq_N list -> (coq_N list * coq_N) option **)

let rec unsnoc = function
| [] -> None
| x :: r ->
  (match unsnoc r with
   | Some p -> let (i, y) = p in Some ((x :: i), y)
   | None -> Some ([], x))

(** val nonempty_decode : coq_N list -> str option **)

let nonempty_decode b = match b with
| [] -> None
| _ :: _ -> utf8_decode b

(** val parse_bracket : coq_N list -> str list option **)

let parse_bracket bytes =
  match raw_lines bytes with
  | [] -> None
  | p :: l ->
    let (l0, b) = p in
    (match l0 with
     | [] -> None
     | n :: r ->
       (match n with
        | N0 -> None
        | Npos p0 ->
          (match p0 with
           | Coq_xI p1 ->
             (match p1 with
              | Coq_xI p2 ->
                (match p2 with
                 | Coq_xO p3 ->
                   (match p3 with
                    | Coq_xI p4 ->
                      (match p4 with
                       | Coq_xI p5 ->
                         (match p5 with
                          | Coq_xO p6 ->
                            (match p6 with
                             | Coq_xH ->
                               if b
                               then (match l with
                                     | [] ->
                                       (match unsnoc r with
                                        | Some p7 ->
                                          let (body, n0) = p7 in
                                          (match n0 with
                                           | N0 -> None
                                           | Npos p8 ->
                                             (match p8 with
                                              | Coq_xI p9 ->
                                                (match p9 with
                                                 | Coq_xO p10 ->
                                                   (match p10 with
                                                    | Coq_xI p11 ->
                                                      (match p11 with
                                                       | Coq_xI p12 ->
                                                         (match p12 with
                                                          | Coq_xI p13 ->
                                                            (match p13 with
                                                             | Coq_xO p14 ->
                                                               (match p14 with
                                                                | Coq_xH ->
                                                                  (match body with
                                                                   | [] ->
                                                                    Some []
                                                                   | _ :: _ ->
                                                                    map_opt
                                                                    nonempty_decode
                                                                    (split_on
                                                                    (Npos
                                                                    (Coq_xO
                                                                    (Coq_xO
                                                                    (Coq_xI
                                                                    (Coq_xI
                                                                    (Coq_xO
                                                                    Coq_xH))))))
                                                                    body))
                                                                | _ -> None)
                                                             | _ -> None)
                                                          | _ -> None)
                                                       | _ -> None)
                                                    | _ -> None)
                                                 | _ -> None)
                                              | _ -> None))
                                        | None -> None)
                                     | _ :: _ -> None)
                               else None
                             | _ -> None)
                          | _ -> None)
                       | _ -> None)
                    | _ -> None)
                 | _ -> None)
              | _ -> None)
           | _ -> None)))
