open BinNat
open BinNums

type ascii =
| Ascii of bool * bool * bool * bool * bool * bool * bool * bool

val coq_N_of_digits : bool list -> coq_N

val coq_N_of_ascii : ascii -> coq_N
