open BinNums

module Pos =
 struct
  type mask =
  | IsNul
  | IsPos of positive
  | IsNeg
 end
