(* Not part of the build (not in _CoqProject).  Concrete evaluation, with brute-force SAT oracles
   (first / last model of Cnf.all_models), of the CONCLUSIONS of the theorems of
   Proofs/MaxExtPref.v and Proofs/MaxExtIdeal.v on small frameworks: a <-> b, a -> c, b -> c,
   c -> d; an odd cycle; a self-attacker; two independent 2-cycles; a 5-argument example.
   Run:  cd coq && coqc -Q theories Crusta tests/MaxExtStatementTests.v   (about 1 min) *)
From Crusta Require Import Spec.AF Spec.SemFacts Sat.Cnf Sat.Prog Model.Encoders Model.Graph Model.Solvers.
From Crusta Require Import Proofs.MaxExtPref Proofs.MaxExtIdeal.
Import ListNotations.
Open Scope prog_scope.

Definition bf_oracle (pick_last : bool) : nat -> cnf -> list lit -> answer :=
  fun _ C a => let f := C ++ units a in
    match (if pick_last then rev (all_models (cnf_max f) f) else all_models (cnf_max f) f) with
    | m :: _ => Sat m | [] => Unsat end.

Definition F1 : af := compact 4 [(0,1);(1,0);(0,2);(1,2);(2,3)].
Definition F2 : af := compact 3 [(0,1);(1,2);(2,0)].
Definition F3 : af := compact 3 [(0,0);(0,1);(1,2)].
Definition F4 : af := compact 4 [(0,1);(1,0);(2,3);(3,2)].
Definition F5 : af := compact 5 [(0,1);(1,0);(0,2);(1,2);(2,3);(3,4);(4,3)].
Definition F6 : af := compact 4 [(0,1);(1,2);(2,1);(2,3)].      (* grounded = {0}, ideal = {0} , PR = {0,2} *)
Definition F7 : af := compact 4 [(0,1);(1,0);(0,2);(1,2);(3,3)].
Definition Fs := [F1;F2;F3;F4;F5;F6;F7].
Definition encs := [AuxCo; AuxAdm; ExpCo; HybCo].
Definition cc (F : af) : comp := {| c_ids := args F; c_af := F |}.
Definition fuel0 := 200.

(* gr_start holds on the test frameworks *)
(* gr_start / gr_least hold on the test frameworks *)
Definition gr_start_b (F : af) : bool :=
  cob F (grounded (view_of_af F)) && grb F (grounded (view_of_af F)).
Eval vm_compute in (forallb gr_start_b Fs).

(* T1 / T3 : Done, preferred, calls within the bound *)
Definition t1 (b : bool) e F : bool :=
  match run CadicalLike (pr_max_in_cc (bf_oracle b) 10 fuel0 e (cc F)) with
  | Done L s => prb F L && Nat.ltb (calls s) (pr_bound e F)
  | _ => false
  end.
Eval vm_compute in (forallb (fun F => forallb (fun e => t1 false e F && t1 true e F) encs) Fs).

(* T2 / T3 *)
Definition attacks_allb (F : af) (la ce : list nat) : bool :=
  forallb (fun a => existsb (fun b => memb b ce) (attackers F a)) la.
Definition t2 (b : bool) e F la sc : bool :=
  match run CadicalLike (pr_ds_in_cc (bf_oracle b) 10 fuel0 e (cc F) la sc) with
  | Done (true, None) s => skepb PR F la && Nat.ltb (calls s) (pr_bound e F)
  | Done (false, Some ce) s =>
      negb (skepb PR F la) && negb (meets la ce) && Nat.ltb (calls s) (pr_bound e F) &&
      (if sc then admb F ce && (prb F ce || attacks_allb F la ce) else prb F ce)
  | _ => false
  end.
(* lists of arguments of the component (locals c al = Some al) *)
Definition lists (F : af) : list (list nat) :=
  filter (forallb (fun a => Nat.ltb a (length (args F))))
         (map (fun a => [a]) (args F) ++ [[0;1]; [1;2]; [0;3]; []]).
Eval vm_compute in
  (forallb (fun F => forallb (fun e => forallb (fun la =>
      t2 false e F la false && t2 true e F la false && t2 false e F la true && t2 true e F la true)
      (lists F)) encs) Fs).

(* T4 *)
Definition t4 (b : bool) e F : bool :=
  match run CadicalLike (id_ext_for_cc (bf_oracle b) 10 fuel0 e F) with
  | Done l s => idlb F l && Nat.ltb (calls s) (id_bound e F)
  | _ => false
  end.
Eval vm_compute in (forallb (fun F => forallb (fun e => t4 false e F && t4 true e F) encs) Fs).
Definition t5 (b : bool) e F la : bool :=
  match run CadicalLike (id_cred_for_cc (bf_oracle b) 10 fuel0 e F la) with
  | Done (true, Some ext) s => credb ID F la && idlb F ext && meets la ext && Nat.ltb (calls s) (id_bound e F)
  | Done (false, None) s => negb (credb ID F la) && Nat.ltb (calls s) (id_bound e F)
  | _ => false
  end.
Eval vm_compute in
  (forallb (fun F => forallb (fun e => forallb (fun la => t5 false e F la && t5 true e F la)
      (lists F)) encs) Fs).
Eval vm_compute in (map (fun F => (all_exts ID F, grounded (view_of_af F), all_exts PR F)) Fs).
