open Ascii

type string =
| EmptyString
| String of ascii * string

(** val list_ascii_of_string : string -> ascii list **)

let rec list_ascii_of_string = function
| EmptyString -> []
| String (ch, s0) -> ch :: (list_ascii_of_string s0)
