open Ascii

type string =
| EmptyString
| String of ascii * string
