
type uint =
| Nil
| D0 of uint
| D1 of uint
| D2 of uint
| D3 of uint
| D4 of uint
| D5 of uint
| D6 of uint
| D7 of uint
| D8 of uint
| D9 of uint

type signed_int =
| Pos of uint
| Neg of uint

val revapp : uint -> uint -> uint

val rev : uint -> uint

module Little :
 sig
  val double : uint -> uint

  val succ_double : uint -> uint
 end
