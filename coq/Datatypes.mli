
val implb : bool -> bool -> bool

val negb : bool -> bool

type nat =
| O
| S of nat

val option_map : ('a1 -> 'a2) -> 'a1 option -> 'a2 option

val fst : ('a1 * 'a2) -> 'a1

val snd : ('a1 * 'a2) -> 'a2

val length : 'a1 list -> nat

val app : 'a1 list -> 'a1 list -> 'a1 list

type comparison =
| Eq
| Lt
| Gt

val coq_CompOpp : comparison -> comparison
