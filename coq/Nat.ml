open Datatypes

(** val add : nat -> nat -> nat **)

let rec add n m =
  match n with
  | O -> m
  | S p -> S (add p m)

(** val mul : nat -> nat -> nat **)

let rec mul n m =
  match n with
  | O -> O
  | S p -> add m (mul p m)

(** val sub : nat -> nat -> nat **)

let rec sub n m =
  match n with
  | O -> n
  | S k -> (match m with
            | O -> n
            | S l -> sub k l)
