open BinNums
open BinPos
open Datatypes

module Z :
 sig
  val opp : coq_Z -> coq_Z

  val compare : coq_Z -> coq_Z -> comparison

  val ltb : coq_Z -> coq_Z -> bool

  val abs : coq_Z -> coq_Z

  val to_nat : coq_Z -> nat

  val of_nat : nat -> coq_Z
 end
