open BinNums
open BinPos
open Datatypes
open Decimal

module Z :
 sig
  val double : coq_Z -> coq_Z

  val succ_double : coq_Z -> coq_Z

  val pred_double : coq_Z -> coq_Z

  val pos_sub : positive -> positive -> coq_Z

  val add : coq_Z -> coq_Z -> coq_Z

  val opp : coq_Z -> coq_Z

  val sub : coq_Z -> coq_Z -> coq_Z

  val compare : coq_Z -> coq_Z -> comparison

  val leb : coq_Z -> coq_Z -> bool

  val ltb : coq_Z -> coq_Z -> bool

  val eqb : coq_Z -> coq_Z -> bool

  val abs : coq_Z -> coq_Z

  val to_nat : coq_Z -> nat

  val of_nat : nat -> coq_Z

  val of_N : coq_N -> coq_Z

  val to_int : coq_Z -> signed_int
 end
