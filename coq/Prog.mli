open Cnf
open Datatypes
open List
open PeanoNat

type discipline =
| CadicalLike
| BufferedLike

type session = { rclauses : cnf; reserved : nat; maxvar : nat }

val empty_session : session

type event =
| ENew
| EReserve of nat
| EClause of clause
| ENVars of nat
| ESolve of lit list * answer

type st = { disc : discipline; sess : session; nsess : nat; calls : nat;
            rlog : (nat * event) list }

type 'a res =
| Done of 'a * st
| Abort of st
| Panic of st
| OutOfFuel of st

val init_st : discipline -> st

type 'a coq_M = st -> 'a res

val ret : 'a1 -> 'a1 coq_M

val bind : 'a1 coq_M -> ('a1 -> 'a2 coq_M) -> 'a2 coq_M

val panic : 'a1 coq_M

val out_of_fuel : 'a1 coq_M

val log_ev : event -> st -> session -> nat -> st

val new_solver : unit coq_M

val reserve : nat -> unit coq_M

val add_clause : clause -> unit coq_M

val session_n_vars : session -> nat

val n_vars : nat coq_M

val solve :
  (nat -> cnf -> lit list -> answer) -> lit list -> assignment option coq_M

val add_clauses : cnf -> unit coq_M

val run : discipline -> (st -> 'a1 res) -> 'a1 res

val final_st : 'a1 res -> st

val log_of : 'a1 res -> (nat * event) list

val script_oracle : answer list -> nat -> cnf -> lit list -> answer
