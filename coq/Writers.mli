open BinNat
open BinNums
open Datatypes
open List
open Readers
open Store

val utf8_encode_cp : coq_N -> coq_N list

val utf8_encode : str -> coq_N list

val dec_aux : nat -> coq_N -> coq_N list -> coq_N list

val dec : coq_N -> coq_N list

val dec_nat : nat -> coq_N list

val label_of : 'a1 fw -> nat -> 'a1 option

val arg_line : ('a1 -> coq_N list) -> 'a1 -> coq_N list

val att_line : ('a1 -> coq_N list) -> 'a1 -> 'a1 -> coq_N list

val att_lines :
  ('a1 -> coq_N list) -> 'a1 fw -> (nat * nat) list -> coq_N list option

val write_apx : ('a1 -> coq_N list) -> 'a1 fw -> coq_N list option

val write_no : coq_N list

val write_status : bool -> coq_N list

val write_w : coq_N list -> coq_N list

val join_comma : coq_N list list -> coq_N list

val write_bracket : str list -> coq_N list

val split_on : coq_N -> coq_N list -> coq_N list list

val map_opt : ('a1 -> 'a2 option) -> 'a1 list -> 'a2 list option

val parse_w : coq_N list -> coq_N list option

val unsnoc : coq_N list -> (coq_N list * coq_N) option

val nonempty_decode : coq_N list -> str option

val parse_bracket : coq_N list -> str list option
