open BinNums
open BinPos
open Datatypes
open Decimal

module Z =
 struct
  (** val double : coq_Z -> coq_Z **)

  let double = function
  | Z0 -> Z0
  | Zpos p -> Zpos (Coq_xO p)
  | Zneg p -> Zneg (Coq_xO p)

  (** val succ_double : coq_Z -> coq_Z **)

  let succ_double = function
  | Z0 -> Zpos Coq_xH
  | Zpos p -> Zpos (Coq_xI p)
  | Zneg p -> Zneg (Pos.pred_double p)

  (** val pred_double : coq_Z -> coq_Z **)

  let pred_double = function
  | Z0 -> Zneg Coq_xH
  | Zpos p -> Zpos (Pos.pred_double p)
  | Zneg p -> Zneg (Coq_xI p)

  (** val pos_sub : positive -> positive -> coq_Z **)

  let rec pos_sub x y =
    match x with
    | Coq_xI p ->
      (match y with
       | Coq_xI q -> double (pos_sub p q)
       | Coq_xO q -> succ_double (pos_sub p q)
       | Coq_xH -> Zpos (Coq_xO p))
    | Coq_xO p ->
      (match y with
       | Coq_xI q -> pred_double (pos_sub p q)
       | Coq_xO q -> double (pos_sub p q)
       | Coq_xH -> Zpos (Pos.pred_double p))
    | Coq_xH ->
      (match y with
       | Coq_xI q -> Zneg (Coq_xO q)
       | Coq_xO q -> Zneg (Pos.pred_double q)
       | Coq_xH -> Z0)

  (** val add : coq_Z -> coq_Z -> coq_Z **)

  let add x y =
    match x with
    | Z0 -> y
    | Zpos x' ->
      (match y with
       | Z0 -> x
       | Zpos y' -> Zpos (Pos.add x' y')
       | Zneg y' -> pos_sub x' y')
    | Zneg x' ->
      (match y with
       | Z0 -> x
       | Zpos y' -> pos_sub y' x'
       | Zneg y' -> Zneg (Pos.add x' y'))

  (** val opp : coq_Z -> coq_Z **)

  let opp = function
  | Z0 -> Z0
  | Zpos x0 -> Zneg x0
  | Zneg x0 -> Zpos x0

  (** val sub : coq_Z -> coq_Z -> coq_Z **)

  let sub m n =
    add m (opp n)

  (** val compare : coq_Z -> coq_Z -> comparison **)

  let compare x y =
    match x with
    | Z0 -> (match y with
             | Z0 -> Eq
             | Zpos _ -> Lt
             | Zneg _ -> Gt)
    | Zpos x' -> (match y with
                  | Zpos y' -> Pos.compare x' y'
                  | _ -> Gt)
    | Zneg x' ->
      (match y with
       | Zneg y' -> coq_CompOpp (Pos.compare x' y')
       | _ -> Lt)

  (** val leb : coq_Z -> coq_Z -> bool **)

  let leb x y =
    match compare x y with
    | Gt -> false
    | _ -> true

  (** val ltb : coq_Z -> coq_Z -> bool **)

  let ltb x y =
    match compare x y with
    | Lt -> true
    | _ -> false

  (** val eqb : coq_Z -> coq_Z -> bool **)

  let eqb x y =
    match x with
    | Z0 -> (match y with
             | Z0 -> true
             | _ -> false)
    | Zpos p -> (match y with
                 | Zpos q -> Pos.eqb p q
                 | _ -> false)
    | Zneg p -> (match y with
                 | Zneg q -> Pos.eqb p q
                 | _ -> false)

  (** val abs : coq_Z -> coq_Z **)

  let abs = function
  | Zneg p -> Zpos p
  | x -> x

  (** val to_nat : coq_Z -> nat **)

  let to_nat = function
  | Zpos p -> Pos.to_nat p
  | _ -> O

  (** val of_nat : nat -> coq_Z **)

  let of_nat = function
  | O -> Z0
  | S n0 -> Zpos (Pos.of_succ_nat n0)

  (** val of_N : coq_N -> coq_Z **)

  let of_N = function
  | N0 -> Z0
  | Npos p -> Zpos p

  (** val to_int : coq_Z -> signed_int **)

  let to_int = function
  | Z0 -> Pos (D0 Nil)
  | Zpos p -> Pos (Pos.to_uint p)
  | Zneg p -> Neg (Pos.to_uint p)
 end
