open BinNums
open BinPos
open Datatypes

module Z =
 struct
  (** val opp : coq_Z -> coq_Z **)

  let opp = function
  | Z0 -> Z0
  | Zpos x0 -> Zneg x0
  | Zneg x0 -> Zpos x0

  (** val compare : coq_Z -> coq_Z -> comparison **)

  let compare x y =
    match x with
    | Z0 -> (match y with
             | Z0 -> Eq
             | Zpos _ -> Lt
             | Zneg _ -> Gt)
    | Zpos x' -> (match y with
                  | Zpos y' -> Pos.compare x' y'
                  | _ -> Gt)
    | Zneg x' ->
      (match y with
       | Zneg y' -> coq_CompOpp (Pos.compare x' y')
       | _ -> Lt)

  (** val ltb : coq_Z -> coq_Z -> bool **)

  let ltb x y =
    match compare x y with
    | Lt -> true
    | _ -> false

  (** val abs : coq_Z -> coq_Z **)

  let abs = function
  | Zneg p -> Zpos p
  | x -> x

  (** val to_nat : coq_Z -> nat **)

  let to_nat = function
  | Zpos p -> Pos.to_nat p
  | _ -> O

  (** val of_nat : nat -> coq_Z **)

  let of_nat = function
  | O -> Z0
  | S n0 -> Zpos (Pos.of_succ_nat n0)
 end
