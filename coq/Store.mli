open Datatypes
open List
open Nat

type result =
| ROk
| RErr
| RPanic

val set_nth : nat -> 'a1 -> 'a1 list -> 'a1 list

val position : ('a1 -> bool) -> 'a1 list -> nat option

val swap_remove : nat -> 'a1 list -> 'a1 list

val filter_some : 'a1 option list -> 'a1 list

val pair_eqb : (nat * nat) -> (nat * nat) -> bool

val oatt_is : (nat * nat) option -> (nat * nat) -> bool

type 'l lset = { slots : (nat * 'l) option list; n_removed : nat }

val slot_has : ('a1 -> 'a1 -> bool) -> 'a1 -> (nat * 'a1) option -> bool

val find_label : ('a1 -> 'a1 -> bool) -> 'a1 lset -> 'a1 -> nat option

val ls_len : 'a1 lset -> nat

val ls_max_id : 'a1 lset -> nat option

val ls_has_id : 'a1 lset -> nat -> bool

val ls_iter : 'a1 lset -> (nat * 'a1) list

val new_label : ('a1 -> 'a1 -> bool) -> 'a1 lset -> 'a1 -> 'a1 lset

val new_with_labels : ('a1 -> 'a1 -> bool) -> 'a1 list -> 'a1 lset

val remove_label :
  ('a1 -> 'a1 -> bool) -> 'a1 lset -> 'a1 -> 'a1 lset * nat option

type 'l fw = { ls : 'l lset; attacks : (nat * nat) option list;
               afrom : nat list list; ato : nat list list;
               n_removed_attacks : nat }

val fw_new : 'a1 lset -> 'a1 fw

val fw_new_with_labels : ('a1 -> 'a1 -> bool) -> 'a1 list -> 'a1 fw

val new_argument : ('a1 -> 'a1 -> bool) -> 'a1 fw -> 'a1 -> 'a1 fw

val try_remove_attack :
  ((nat * nat) option list * nat) -> nat -> (nat * nat) option list * nat

val remove_argument : ('a1 -> 'a1 -> bool) -> 'a1 fw -> 'a1 -> 'a1 fw * result

val new_attack :
  ('a1 -> 'a1 -> bool) -> 'a1 fw -> 'a1 -> 'a1 -> 'a1 fw * result

val remove_attack :
  ('a1 -> 'a1 -> bool) -> 'a1 fw -> 'a1 -> 'a1 -> 'a1 fw * result

val new_attack_by_ids : 'a1 fw -> nat -> nat -> 'a1 fw * result

val n_arguments : 'a1 fw -> nat

val n_attacks : 'a1 fw -> nat

val max_argument_id : 'a1 fw -> nat option

val iter_args : 'a1 fw -> (nat * 'a1) list

val iter_attacks : 'a1 fw -> (nat * nat) list

val iter_attacks_from : 'a1 fw -> nat -> (nat * nat) list

val iter_attacks_to : 'a1 fw -> nat -> (nat * nat) list

val get_argument : ('a1 -> 'a1 -> bool) -> 'a1 fw -> 'a1 -> nat option

val has_argument_with_id : 'a1 fw -> nat -> bool

val live_ids : 'a1 fw -> nat list

type 'l op =
| OpNewArg of 'l
| OpRemArg of 'l
| OpNewAtt of 'l * 'l
| OpRemAtt of 'l * 'l

val step : ('a1 -> 'a1 -> bool) -> 'a1 fw -> 'a1 op -> 'a1 fw * result

val run_ops : ('a1 -> 'a1 -> bool) -> 'a1 fw -> 'a1 op list -> 'a1 fw
