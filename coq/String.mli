open Ascii

type string =
| EmptyString
| String of ascii * string

val list_ascii_of_string : string -> ascii list
