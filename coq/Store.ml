open Datatypes
open List
open Nat

type result =
| ROk
| RErr
| RPanic

(** val set_nth : nat -> 'a1 -> 'a1 list -> 'a1 list **)

let rec set_nth i x = function
| [] -> []
| y :: r -> (match i with
             | O -> x :: r
             | S k -> y :: (set_nth k x r))

(** val position : ('a1 -> bool) -> 'a1 list -> nat option **)

let rec position p = function
| [] -> None
| x :: r -> if p x then Some O else option_map (fun x0 -> S x0) (position p r)

(** val swap_remove : nat -> 'a1 list -> 'a1 list **)

let swap_remove i l =
  match rev l with
  | [] -> l
  | last :: _ ->
    let n = length l in
    if PeanoNat.Nat.eqb i (sub n (S O))
    then firstn (sub n (S O)) l
    else firstn (sub n (S O)) (set_nth i last l)

(** val filter_some : 'a1 option list -> 'a1 list **)

let rec filter_some = function
| [] -> []
| o :: r ->
  (match o with
   | Some x -> x :: (filter_some r)
   | None -> filter_some r)

(** val pair_eqb : (nat * nat) -> (nat * nat) -> bool **)

let pair_eqb p q =
  (&&) (PeanoNat.Nat.eqb (fst p) (fst q)) (PeanoNat.Nat.eqb (snd p) (snd q))

(** val oatt_is : (nat * nat) option -> (nat * nat) -> bool **)

let oatt_is o p =
  match o with
  | Some q -> pair_eqb q p
  | None -> false

type 'l lset = { slots : (nat * 'l) option list; n_removed : nat }

(** val slot_has :
    ('a1 -> 'a1 -> bool) -> 'a1 -> (nat * 'a1) option -> bool **)

let slot_has leqb l = function
| Some p -> let (_, l') = p in leqb l l'
| None -> false

(** val find_label : ('a1 -> 'a1 -> bool) -> 'a1 lset -> 'a1 -> nat option **)

let find_label leqb s l =
  position (slot_has leqb l) s.slots

(** val ls_len : 'a1 lset -> nat **)

let ls_len s =
  sub (length s.slots) s.n_removed

(** val ls_max_id : 'a1 lset -> nat option **)

let ls_max_id s =
  match s.slots with
  | [] -> None
  | _ :: _ -> Some (sub (length s.slots) (S O))

(** val ls_has_id : 'a1 lset -> nat -> bool **)

let ls_has_id s id =
  match nth id s.slots None with
  | Some _ -> true
  | None -> false

(** val ls_iter : 'a1 lset -> (nat * 'a1) list **)

let ls_iter s =
  filter_some s.slots

(** val new_label : ('a1 -> 'a1 -> bool) -> 'a1 lset -> 'a1 -> 'a1 lset **)

let new_label leqb s l =
  match find_label leqb s l with
  | Some _ -> s
  | None ->
    { slots = (app s.slots ((Some ((length s.slots), l)) :: [])); n_removed =
      s.n_removed }

(** val new_with_labels : ('a1 -> 'a1 -> bool) -> 'a1 list -> 'a1 lset **)

let new_with_labels leqb ls0 =
  fold_left (new_label leqb) ls0 { slots = []; n_removed = O }

(** val remove_label :
    ('a1 -> 'a1 -> bool) -> 'a1 lset -> 'a1 -> 'a1 lset * nat option **)

let remove_label leqb s l =
  match find_label leqb s l with
  | Some id ->
    ({ slots = (set_nth id None s.slots); n_removed = (S s.n_removed) },
      (Some id))
  | None -> (s, None)

type 'l fw = { ls : 'l lset; attacks : (nat * nat) option list;
               afrom : nat list list; ato : nat list list;
               n_removed_attacks : nat }

(** val fw_new : 'a1 lset -> 'a1 fw **)

let fw_new s =
  { ls = s; attacks = []; afrom = (repeat [] (ls_len s)); ato =
    (repeat [] (ls_len s)); n_removed_attacks = O }

(** val fw_new_with_labels : ('a1 -> 'a1 -> bool) -> 'a1 list -> 'a1 fw **)

let fw_new_with_labels leqb l =
  fw_new (new_with_labels leqb l)

(** val new_argument : ('a1 -> 'a1 -> bool) -> 'a1 fw -> 'a1 -> 'a1 fw **)

let new_argument leqb f l =
  let old_len = ls_len f.ls in
  let ls' = new_label leqb f.ls l in
  if PeanoNat.Nat.ltb old_len (ls_len ls')
  then { ls = ls'; attacks = f.attacks; afrom = (app f.afrom ([] :: []));
         ato = (app f.ato ([] :: [])); n_removed_attacks =
         f.n_removed_attacks }
  else { ls = ls'; attacks = f.attacks; afrom = f.afrom; ato = f.ato;
         n_removed_attacks = f.n_removed_attacks }

(** val try_remove_attack :
    ((nat * nat) option list * nat) -> nat -> (nat * nat) option list * nat **)

let try_remove_attack acc i =
  match nth i (fst acc) None with
  | Some _ -> ((set_nth i None (fst acc)), (S (snd acc)))
  | None -> acc

(** val remove_argument :
    ('a1 -> 'a1 -> bool) -> 'a1 fw -> 'a1 -> 'a1 fw * result **)

let remove_argument leqb f l =
  let (ls', o) = remove_label leqb f.ls l in
  (match o with
   | Some id ->
     let idx = app (nth id f.afrom []) (nth id f.ato []) in
     let (atts', nrem') =
       fold_left try_remove_attack idx (f.attacks, f.n_removed_attacks)
     in
     ({ ls = ls'; attacks = atts'; afrom = (set_nth id [] f.afrom); ato =
     (set_nth id [] f.ato); n_removed_attacks = nrem' }, ROk)
   | None -> (f, RErr))

(** val new_attack :
    ('a1 -> 'a1 -> bool) -> 'a1 fw -> 'a1 -> 'a1 -> 'a1 fw * result **)

let new_attack leqb f from to0 =
  match find_label leqb f.ls from with
  | Some a ->
    (match find_label leqb f.ls to0 with
     | Some b ->
       if existsb (fun i -> oatt_is (nth i f.attacks None) (a, b))
            (nth a f.afrom [])
       then (f, ROk)
       else let k = length f.attacks in
            ({ ls = f.ls; attacks = (app f.attacks ((Some (a, b)) :: []));
            afrom = (set_nth a (app (nth a f.afrom []) (k :: [])) f.afrom);
            ato = (set_nth b (app (nth b f.ato []) (k :: [])) f.ato);
            n_removed_attacks = f.n_removed_attacks }, ROk)
     | None -> (f, RErr))
  | None -> (f, RErr)

(** val remove_attack :
    ('a1 -> 'a1 -> bool) -> 'a1 fw -> 'a1 -> 'a1 -> 'a1 fw * result **)

let remove_attack leqb f from to0 =
  match find_label leqb f.ls from with
  | Some a ->
    (match find_label leqb f.ls to0 with
     | Some b ->
       let fr = nth a f.afrom [] in
       (match position (fun i -> oatt_is (nth i f.attacks None) (a, b)) fr with
        | Some pos_from ->
          let attack_id = nth pos_from fr O in
          (match position (PeanoNat.Nat.eqb attack_id) (nth b f.ato []) with
           | Some pos_to ->
             let ato' = set_nth b (swap_remove pos_to (nth b f.ato [])) f.ato
             in
             let afrom' = set_nth a (swap_remove pos_from fr) f.afrom in
             ({ ls = f.ls; attacks = (set_nth attack_id None f.attacks);
             afrom = afrom'; ato = ato'; n_removed_attacks = (S
             f.n_removed_attacks) }, ROk)
           | None -> (f, RPanic))
        | None -> (f, RErr))
     | None -> (f, RErr))
  | None -> (f, RErr)

(** val new_attack_by_ids : 'a1 fw -> nat -> nat -> 'a1 fw * result **)

let new_attack_by_ids f a b =
  let n = ls_len f.ls in
  if (||) (PeanoNat.Nat.leb n a) (PeanoNat.Nat.leb n b)
  then (f, (if PeanoNat.Nat.eqb n O then RPanic else RErr))
  else let k = length f.attacks in
       ({ ls = f.ls; attacks = (app f.attacks ((Some (a, b)) :: [])); afrom =
       (set_nth a (app (nth a f.afrom []) (k :: [])) f.afrom); ato =
       (set_nth b (app (nth b f.ato []) (k :: [])) f.ato);
       n_removed_attacks = f.n_removed_attacks }, ROk)

(** val n_arguments : 'a1 fw -> nat **)

let n_arguments f =
  ls_len f.ls

(** val n_attacks : 'a1 fw -> nat **)

let n_attacks f =
  sub (length f.attacks) f.n_removed_attacks

(** val max_argument_id : 'a1 fw -> nat option **)

let max_argument_id f =
  ls_max_id f.ls

(** val iter_args : 'a1 fw -> (nat * 'a1) list **)

let iter_args f =
  ls_iter f.ls

(** val iter_attacks : 'a1 fw -> (nat * nat) list **)

let iter_attacks f =
  filter_some f.attacks

(** val iter_attacks_from : 'a1 fw -> nat -> (nat * nat) list **)

let iter_attacks_from f id =
  filter_some (map (fun i -> nth i f.attacks None) (nth id f.afrom []))

(** val iter_attacks_to : 'a1 fw -> nat -> (nat * nat) list **)

let iter_attacks_to f id =
  filter_some (map (fun i -> nth i f.attacks None) (nth id f.ato []))

(** val get_argument : ('a1 -> 'a1 -> bool) -> 'a1 fw -> 'a1 -> nat option **)

let get_argument leqb f l =
  find_label leqb f.ls l

(** val has_argument_with_id : 'a1 fw -> nat -> bool **)

let has_argument_with_id f id =
  ls_has_id f.ls id

(** val live_ids : 'a1 fw -> nat list **)

let live_ids f =
  map fst (iter_args f)

type 'l op =
| OpNewArg of 'l
| OpRemArg of 'l
| OpNewAtt of 'l * 'l
| OpRemAtt of 'l * 'l

(** val step : ('a1 -> 'a1 -> bool) -> 'a1 fw -> 'a1 op -> 'a1 fw * result **)

let step leqb f = function
| OpNewArg l -> ((new_argument leqb f l), ROk)
| OpRemArg l -> remove_argument leqb f l
| OpNewAtt (a, b) -> new_attack leqb f a b
| OpRemAtt (a, b) -> remove_attack leqb f a b

(** val run_ops : ('a1 -> 'a1 -> bool) -> 'a1 fw -> 'a1 op list -> 'a1 fw **)

let run_ops leqb f os =
  fold_left (fun f0 o -> fst (step leqb f0 o)) os f
