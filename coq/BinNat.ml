open BinNums
open BinPos
open Datatypes
open Decimal

module N =
 struct
  (** val compare : coq_N -> coq_N -> comparison **)

  let compare n m =
    match n with
    | N0 -> (match m with
             | N0 -> Eq
             | Npos _ -> Lt)
    | Npos n' -> (match m with
                  | N0 -> Gt
                  | Npos m' -> Pos.compare n' m')

  (** val eqb : coq_N -> coq_N -> bool **)

  let eqb n m =
    match n with
    | N0 -> (match m with
             | N0 -> true
             | Npos _ -> false)
    | Npos p -> (match m with
                 | N0 -> false
                 | Npos q -> Pos.eqb p q)

  (** val leb : coq_N -> coq_N -> bool **)

  let leb x y =
    match compare x y with
    | Gt -> false
    | _ -> true

  (** val ltb : coq_N -> coq_N -> bool **)

  let ltb x y =
    match compare x y with
    | Lt -> true
    | _ -> false

  (** val to_nat : coq_N -> nat **)

  let to_nat = function
  | N0 -> O
  | Npos p -> Pos.to_nat p

  (** val of_nat : nat -> coq_N **)

  let of_nat = function
  | O -> N0
  | S n' -> Npos (Pos.of_succ_nat n')

  (** val of_uint : uint -> coq_N **)

  let of_uint =
    Pos.of_uint

  (** val to_uint : coq_N -> uint **)

  let to_uint = function
  | N0 -> D0 Nil
  | Npos p -> Pos.to_uint p
 end
