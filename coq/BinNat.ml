open BinNums
open BinPos
open Datatypes
open Decimal

module N =
 struct
  (** val succ_double : coq_N -> coq_N **)

  let succ_double = function
  | N0 -> Npos Coq_xH
  | Npos p -> Npos (Coq_xI p)

  (** val double : coq_N -> coq_N **)

  let double = function
  | N0 -> N0
  | Npos p -> Npos (Coq_xO p)

  (** val add : coq_N -> coq_N -> coq_N **)

  let add n m =
    match n with
    | N0 -> m
    | Npos p -> (match m with
                 | N0 -> n
                 | Npos q -> Npos (Pos.add p q))

  (** val sub : coq_N -> coq_N -> coq_N **)

  let sub n m =
    match n with
    | N0 -> N0
    | Npos n' ->
      (match m with
       | N0 -> n
       | Npos m' ->
         (match Pos.sub_mask n' m' with
          | Pos.IsPos p -> Npos p
          | _ -> N0))

  (** val mul : coq_N -> coq_N -> coq_N **)

  let mul n m =
    match n with
    | N0 -> N0
    | Npos p -> (match m with
                 | N0 -> N0
                 | Npos q -> Npos (Pos.mul p q))

  (** val compare : coq_N -> coq_N -> comparison **)

  let compare n m =
    match n with
    | N0 -> (match m with
             | N0 -> Eq
             | Npos _ -> Lt)
    | Npos n' -> (match m with
                  | N0 -> Gt
                  | Npos m' -> Pos.compare n' m')

  (** val eqb : coq_N -> coq_N -> bool **)

  let eqb n m =
    match n with
    | N0 -> (match m with
             | N0 -> true
             | Npos _ -> false)
    | Npos p -> (match m with
                 | N0 -> false
                 | Npos q -> Pos.eqb p q)

  (** val leb : coq_N -> coq_N -> bool **)

  let leb x y =
    match compare x y with
    | Gt -> false
    | _ -> true

  (** val ltb : coq_N -> coq_N -> bool **)

  let ltb x y =
    match compare x y with
    | Lt -> true
    | _ -> false

  (** val log2 : coq_N -> coq_N **)

  let log2 = function
  | N0 -> N0
  | Npos p0 ->
    (match p0 with
     | Coq_xI p -> Npos (Pos.size p)
     | Coq_xO p -> Npos (Pos.size p)
     | Coq_xH -> N0)

  (** val size_nat : coq_N -> nat **)

  let size_nat = function
  | N0 -> O
  | Npos p -> Pos.size_nat p

  (** val pos_div_eucl : positive -> coq_N -> coq_N * coq_N **)

  let rec pos_div_eucl a b =
    match a with
    | Coq_xI a' ->
      let (q, r) = pos_div_eucl a' b in
      let r' = succ_double r in
      if leb b r' then ((succ_double q), (sub r' b)) else ((double q), r')
    | Coq_xO a' ->
      let (q, r) = pos_div_eucl a' b in
      let r' = double r in
      if leb b r' then ((succ_double q), (sub r' b)) else ((double q), r')
    | Coq_xH ->
      (match b with
       | N0 -> (N0, (Npos Coq_xH))
       | Npos p ->
         (match p with
          | Coq_xH -> ((Npos Coq_xH), N0)
          | _ -> (N0, (Npos Coq_xH))))

  (** val div_eucl : coq_N -> coq_N -> coq_N * coq_N **)

  let div_eucl a b =
    match a with
    | N0 -> (N0, N0)
    | Npos na -> (match b with
                  | N0 -> (N0, a)
                  | Npos _ -> pos_div_eucl na b)

  (** val div : coq_N -> coq_N -> coq_N **)

  let div a b =
    fst (div_eucl a b)

  (** val modulo : coq_N -> coq_N -> coq_N **)

  let modulo a b =
    snd (div_eucl a b)

  (** val to_nat : coq_N -> nat **)

  let to_nat = function
  | N0 -> O
  | Npos p -> Pos.to_nat p

  (** val of_nat : nat -> coq_N **)

  let of_nat = function
  | O -> N0
  | S n' -> Npos (Pos.of_succ_nat n')

  (** val of_uint : uint -> coq_N **)

  let of_uint =
    Pos.of_uint

  (** val to_uint : coq_N -> uint **)

  let to_uint = function
  | N0 -> D0 Nil
  | Npos p -> Pos.to_uint p
 end
