"""Per-property claims (edited by hand); `tools/mkmanifest.py` turns them into MANIFEST.json."""
NOTE_TB = ("Trusted: Coq 8.16.1 kernel (no native_compute), extraction with ExtrOcamlBasic only, OCaml driver, "
           "Rust harness and generators, python comparison; the hand-written model is not trusted, it is what the correspondence check ties to /repo. ")

CLAIMS = {
 "C12": dict(
  text="Refinement proof in Coq: Model.Store (same tombstoned vectors, index vectors and swap_remove as aa_framework.rs/label.rs) refines the plain set model for every operation and every history; invariant by induction over operations; all observations, id stability/non-reuse and error-leaves-unchanged are theorems (6 theorems, axiom-free). The model is tied to /repo on every run by replaying generated update histories on the real AAFramework and on the extracted model and comparing every observable after every step; an independent python set model is the implementation-level oracle that turns a disagreement into a failing history.",
  note=NOTE_TB + "HashMap modelled as lookup over live slots; labels usize in the harness (theorems generic in the label type).",
  technique="Coq refinement proof (invariant + abstraction function) + differential replay of histories against the extracted model",
  engines=["coq-model", "correspondence"]),
 "C10": dict(
  text="Seven Coq theorems (axiom-free) about Model.Encoders, for every compact framework of any size, every threshold >= 1 and every encoder (aux_var cf/adm/co, exp cf/co, hybrid co, default stable), plain and with range variables: the models of the generated CNF projected on the argument variables are exactly the conflict-free / admissible / complete / stable sets (soundness and completeness), range variables are sound and every intended set has a model whose range variables equal its range, the variable layout is injective and collision-free, assignment_to_extension returns exactly the true argument variables, and the encoders are defined exactly where the code is. Tie on every run: every public encoder and default factory is run on generated compact frameworks (all frameworks with <= 3 arguments, both sides of the hybrid threshold) through a recording SAT solver; clause sets, reserve, arg_to_lit, first_range_var and assignment_to_extension must equal the extracted model's. Independent oracle: all models of the RECORDED Rust CNF are enumerated and their projections compared with brute-force base sets.",
  note=NOTE_TB + "Theorems quantify over the threshold; DEFENDER_SETS_PROD_THRESHOLD is read from the source on every run only to drive the tie.",
  technique="Coq proof of soundness/completeness of each CNF encoder against Dung's definitions + clause-set equality between the Rust encoders and the extracted model + all-models validation of the recorded CNF",
  engines=["coq-model", "correspondence"]),
}

NOT_YET = "check not built yet (work in progress; see DESIGN.md section 13)"
